// Package childcase: run one case of a harness in a child process of the same binary, so that a panic
// the implementation fails to contain (which kills the whole process and cannot be recovered from
// another goroutine) becomes a direct-oracle report with a replayable input instead of a harness crash.
package childcase

import (
	"bufio"
	"bytes"
	"encoding/json"
	"fmt"
	"os"
	osexec "os/exec"
	"strings"

	"harness/internal/lp"
)

// IsChild reports whether this process is such a child (it must then execute its input in-process).
func IsChild() bool { return os.Getenv("VERIF_CHILD") == "1" }

// Split reads all remaining input and groups it into cases (a case starts with a line "C ...").
// Lines before the first case form a case of their own.
func Split(sc *bufio.Scanner) [][]string {
	var cases [][]string
	for sc.Scan() {
		l := sc.Text()
		if strings.TrimSpace(l) == "" {
			continue
		}
		if strings.HasPrefix(l, "C ") || len(cases) == 0 {
			cases = append(cases, nil)
		}
		cases[len(cases)-1] = append(cases[len(cases)-1], l)
	}
	return cases
}

// Scanner returns a scanner over the given lines (same buffer sizes as lp.Main's).
func Scanner(lines []string) *bufio.Scanner {
	sc := bufio.NewScanner(strings.NewReader(strings.Join(lines, "\n") + "\n"))
	sc.Buffer(make([]byte, 1<<20), 1<<28)
	return sc
}

// Run executes the case in a child and forwards its protocol lines to e (statistics are merged).
// If the child died, the protocol is completed — every op line the child did not echo gets a
// "> line" / "crashed" pair — and the first line of the panic (or the exit status) is returned.
func Run(e *lp.Exec, lines []string) (crashed bool, why string) {
	cmd := osexec.Command(os.Args[0], "exec")
	cmd.Env = append(os.Environ(), "VERIF_CHILD=1")
	cmd.Stdin = strings.NewReader(strings.Join(lines, "\n") + "\n")
	var out, errb bytes.Buffer
	cmd.Stdout = &out
	cmd.Stderr = &errb
	err := cmd.Run()
	echoed := 0
	results := 0
	for _, l := range strings.Split(out.String(), "\n") {
		if l == "" {
			continue
		}
		if strings.HasPrefix(l, "#S ") {
			var st map[string]map[string]int
			if json.Unmarshal([]byte(l[3:]), &st) == nil {
				for g, m := range st {
					if e.Stats[g] == nil {
						e.Stats[g] = map[string]int{}
					}
					for k, v := range m {
						e.Stats[g][k] += v
					}
				}
			}
			continue
		}
		if strings.HasPrefix(l, "> ") {
			echoed++
		} else if !strings.HasPrefix(l, "#") && !strings.HasPrefix(l, "!") {
			results++
		}
		fmt.Fprintln(e.W, l)
	}
	e.W.Flush()
	if err == nil {
		return false, ""
	}
	// the child died: the last echoed op may lack its result line
	if results < echoed {
		e.P("crashed")
	}
	for _, l := range lines[minInt(echoed, len(lines)):] {
		e.P("> %s", l)
		e.P("crashed")
	}
	why = err.Error()
	for _, l := range strings.Split(errb.String(), "\n") {
		if strings.HasPrefix(l, "panic:") || strings.HasPrefix(l, "fatal error:") {
			why = strings.TrimSpace(l)
			break
		}
	}
	return true, why
}

func minInt(a, b int) int {
	if a < b {
		return a
	}
	return b
}
