// Package lp: shared scaffolding of the harness commands (line protocol, PRNG, payload patterns).
//
// Every command has two modes:
//
//	<cmd> gen -seed S -n N [-tier quick|thorough]   ops to stdout (one op per line; a case starts with "C ")
//	<cmd> exec                                      reads ops from stdin, runs them on the real code,
//	                                                prints one output line per op line, plus
//	                                                "!..." direct-oracle reports, "#K key nt" shape keys
//	                                                and "#S {json}" statistics.
package lp

import (
	"bufio"
	"encoding/hex"
	"encoding/json"
	"flag"
	"fmt"
	"math/rand"
	"os"
	"sort"
	"strings"
)

type Gen struct {
	Rng  *rand.Rand
	N    int
	Tier string
	W    *bufio.Writer
}

func (g *Gen) P(format string, a ...interface{}) { fmt.Fprintf(g.W, format+"\n", a...) }
func (g *Gen) Intn(n int) int                    { return g.Rng.Intn(n) }
func (g *Gen) Pick(xs ...string) string          { return xs[g.Rng.Intn(len(xs))] }
func (g *Gen) PickInt(xs ...int) int             { return xs[g.Rng.Intn(len(xs))] }
func (g *Gen) Chance(num, den int) bool          { return g.Rng.Intn(den) < num }

type Exec struct {
	In    *bufio.Scanner
	W     *bufio.Writer
	Stats map[string]map[string]int
}

func (e *Exec) P(format string, a ...interface{}) { fmt.Fprintf(e.W, format+"\n", a...); e.W.Flush() }

// Oracle reports a direct-oracle failure for the current case.
func (e *Exec) Oracle(name string, format string, a ...interface{}) {
	fmt.Fprintf(e.W, "! oracle=%s %s\n", name, fmt.Sprintf(format, a...))
	e.W.Flush()
}

// Key records the shape key of the finished case and whether it is non-trivial.
func (e *Exec) Key(key string, nontrivial bool) {
	nt := 0
	if nontrivial {
		nt = 1
	}
	fmt.Fprintf(e.W, "#K %016x %d\n", Fnv([]byte(key)), nt)
}

func (e *Exec) Count(group, key string) {
	if e.Stats[group] == nil {
		e.Stats[group] = map[string]int{}
	}
	e.Stats[group][key]++
}

func (e *Exec) flushStats() {
	b, _ := json.Marshal(e.Stats)
	fmt.Fprintf(e.W, "#S %s\n", b)
	e.W.Flush()
}

func Main(gen func(g *Gen), exec func(e *Exec)) {
	if len(os.Args) < 2 {
		fmt.Fprintln(os.Stderr, "usage: gen|exec")
		os.Exit(2)
	}
	switch os.Args[1] {
	case "gen":
		fs := flag.NewFlagSet("gen", flag.ExitOnError)
		seed := fs.Int64("seed", 1, "")
		n := fs.Int("n", 100, "")
		tier := fs.String("tier", "quick", "")
		fs.Parse(os.Args[2:])
		w := bufio.NewWriterSize(os.Stdout, 1<<20)
		defer w.Flush()
		gen(&Gen{Rng: rand.New(rand.NewSource(*seed)), N: *n, Tier: *tier, W: w})
	case "exec":
		sc := bufio.NewScanner(os.Stdin)
		sc.Buffer(make([]byte, 1<<20), 1<<28)
		w := bufio.NewWriterSize(os.Stdout, 1<<20)
		e := &Exec{In: sc, W: w, Stats: map[string]map[string]int{}}
		defer func() { e.flushStats() }()
		exec(e)
	default:
		fmt.Fprintln(os.Stderr, "usage: gen|exec")
		os.Exit(2)
	}
}

// Pattern is the deterministic payload shared with the Lean driver: byte i = (i*7 + p) mod 256.
func Pattern(n, p int) []byte {
	b := make([]byte, n)
	for i := range b {
		b[i] = byte((i*7 + p) % 256)
	}
	return b
}

func Fnv(b []byte) uint64 {
	h := uint64(14695981039346656037)
	for _, x := range b {
		h = (h ^ uint64(x)) * 1099511628211
	}
	return h
}

func Hex(b []byte) string { return hex.EncodeToString(b) }
func Unhex(s string) []byte {
	b, err := hex.DecodeString(s)
	if err != nil {
		panic("bad hex in ops: " + s)
	}
	return b
}

// Payload parses "@len:pattern" or plain hex.
func Payload(s string) []byte {
	if strings.HasPrefix(s, "@") {
		var n, p int
		fmt.Sscanf(s, "@%d:%d", &n, &p)
		return Pattern(n, p)
	}
	if s == "-" {
		return []byte{}
	}
	return Unhex(s)
}

func SortedKeys(m map[string]int) []string {
	ks := make([]string, 0, len(m))
	for k := range m {
		ks = append(ks, k)
	}
	sort.Strings(ks)
	return ks
}
