// Package quiesce: exact detection of a *stable* state of the process — every goroutine other than
// the caller is blocked on a channel, select, mutex, condition variable or wait group, so nothing
// can move until the harness acts. Used by the concurrency harnesses to "poll until the
// implementation has reached a stable state" without timing assumptions (DESIGN §6 C05/C19).
package quiesce

import (
	"bytes"
	"runtime"
	"time"
)

var blockedStates = [][]byte{
	[]byte("chan receive"), []byte("chan send"), []byte("select"),
	[]byte("sync.Mutex.Lock"), []byte("sync.RWMutex.Lock"), []byte("sync.RWMutex.RLock"),
	[]byte("sync.Cond.Wait"), []byte("sync.WaitGroup.Wait"), []byte("finalizer wait"),
}

var buf = make([]byte, 1<<20)

// Busy returns the number of goroutines (other than the caller) that are not blocked, and the
// header of the first one found.
func Busy() (int, string) {
	n := runtime.Stack(buf, true)
	for n == len(buf) {
		buf = make([]byte, 2*len(buf))
		n = runtime.Stack(buf, true)
	}
	b := buf[:n]
	busy := 0
	first := ""
	idx := 0
	for len(b) > 0 {
		// one goroutine block: "goroutine N [state(, extra)]:\n...\n\n"
		end := bytes.Index(b, []byte("\n\n"))
		var blk []byte
		if end < 0 {
			blk, b = b, nil
		} else {
			blk, b = b[:end], b[end+2:]
		}
		idx++
		if idx == 1 {
			continue // the caller
		}
		l := bytes.IndexByte(blk, '[')
		r := bytes.IndexByte(blk, ']')
		if l < 0 || r < l {
			continue
		}
		st := blk[l+1 : r]
		ok := false
		for _, s := range blockedStates {
			if bytes.HasPrefix(st, s) {
				ok = true
				break
			}
		}
		// "semacquire" is the wait reason of sync.WaitGroup.Wait (and of sync.Mutex in older runtimes), but
		// also of runtime-internal semaphores: a goroutine that wants to start a GC cycle waits for
		// worldsema — which the runtime.Stack(all) call above is holding. Only the former is blocked.
		if !ok && bytes.HasPrefix(st, []byte("semacquire")) &&
			(bytes.Contains(blk, []byte("sync.(*WaitGroup).Wait")) || bytes.Contains(blk, []byte("sync.(*Mutex).Lock")) ||
				bytes.Contains(blk, []byte("sync.(*RWMutex)")) || bytes.Contains(blk, []byte("sync.(*Cond).Wait"))) {
			ok = true
		}
		if !ok {
			busy++
			if first == "" {
				nl := bytes.IndexByte(blk, '\n')
				if nl < 0 {
					nl = len(blk)
				}
				first = string(blk[:nl])
			}
		}
	}
	return busy, first
}

// Wait polls until the process is stable or d has elapsed; it reports whether it became stable.
func Wait(d time.Duration) bool {
	deadline := time.Now().Add(d)
	calm := 0
	for i := 0; ; i++ {
		if n, _ := Busy(); n == 0 {
			calm++
			if calm >= 2 { // twice in a row, with a yield in between
				return true
			}
			runtime.Gosched()
			continue
		}
		calm = 0
		if i < 50 {
			runtime.Gosched()
		} else {
			time.Sleep(20 * time.Microsecond)
		}
		if i%64 == 63 && time.Now().After(deadline) {
			return false
		}
	}
}
