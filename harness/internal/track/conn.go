package track

import (
	"errors"
	"io"
	"net"
	"os"
	"time"
)

// ErrInjected is what a RecConn write returns from the FailAt-th write on.
var ErrInjected = errors.New("injected conn write error")

// RecConn is a net.Conn that records what is written to it and asks the Tracker about every slice it
// is handed: the bytes must lie inside a LIVE pooled buffer or in memory the pool never owned.
type RecConn struct {
	T        *Tracker
	Writes   [][]byte // copies of the successful writes, in order (file ranges included)
	Kinds    []byte   // 'b' buffer write, 'f' Sendfile
	Attempts int      // Write/Sendfile calls so far
	FailAt   int      // 1-based index of the first failing call; 0 = never. Later calls fail too (conn is dead).
	Closed   int      // number of Close calls
	OnWrite  func(b []byte)
}

func (c *RecConn) Read(b []byte) (int, error) { return 0, io.EOF }

func (c *RecConn) Write(b []byte) (int, error) {
	c.Attempts++
	if c.T != nil {
		c.T.NoteWrite(b)
	}
	if c.FailAt > 0 && c.Attempts >= c.FailAt {
		return 0, ErrInjected
	}
	if c.OnWrite != nil {
		c.OnWrite(b)
	}
	c.Writes = append(c.Writes, append([]byte{}, b...))
	c.Kinds = append(c.Kinds, 'b')
	return len(b), nil
}

func (c *RecConn) Close() error                       { c.Closed++; return nil }
func (c *RecConn) LocalAddr() net.Addr                { return &net.TCPAddr{} }
func (c *RecConn) RemoteAddr() net.Addr               { return &net.TCPAddr{} }
func (c *RecConn) SetDeadline(t time.Time) error      { return nil }
func (c *RecConn) SetReadDeadline(t time.Time) error  { return nil }
func (c *RecConn) SetWriteDeadline(t time.Time) error { return nil }

// Wire returns the concatenation of the successful writes.
func (c *RecConn) Wire() []byte {
	var w []byte
	for _, b := range c.Writes {
		w = append(w, b...)
	}
	return w
}

// RecConnSF is a RecConn that also offers nbio's Sendfile(f, remain) with the semantics of
// (*nbio.Conn).Sendfile: the range starts at the file's current offset, remain <= 0 or beyond the
// end means "to the end of the file", the file offset is not advanced.
type RecConnSF struct{ RecConn }

func (c *RecConnSF) Sendfile(f *os.File, remain int64) (int64, error) {
	if f == nil {
		return 0, nil
	}
	c.Attempts++
	if c.T != nil {
		c.T.mu.Lock()
		c.T.ev("wf")
		c.T.mu.Unlock()
	}
	if c.FailAt > 0 && c.Attempts >= c.FailAt {
		return 0, ErrInjected
	}
	off, err := f.Seek(0, io.SeekCurrent)
	if err != nil {
		return 0, err
	}
	st, err := f.Stat()
	if err != nil {
		return 0, err
	}
	if remain <= 0 || remain > st.Size()-off {
		remain = st.Size() - off
	}
	b := make([]byte, remain)
	if _, err := f.ReadAt(b, off); err != nil && err != io.EOF {
		return 0, err
	}
	c.Writes = append(c.Writes, b)
	c.Kinds = append(c.Kinds, 'f')
	return remain, nil
}
