// Package track: a tracking allocator and a recording net.Conn for the pooled-buffer ownership
// property (C11).  Everything goes through PUBLIC nbio interfaces: the Tracker implements
// mempool.Allocator and is installed as mempool.DefaultMemPool and/or Config.BodyAllocator; RecConn
// is a plain net.Conn.
//
// The Tracker
//   - hands out a fresh handle (*[]byte) and a fresh backing array per Malloc, filled with Junk
//     (so stale content is visible and deterministic), with capacity CapFor(size);
//   - gives every buffer an id (1, 2, ... in Malloc order, restarted by Reset) and keeps the live set;
//   - on Free poisons the whole backing array (Poison) and keeps it quarantined until Reset, so a
//     later write through a stale alias damages the poison (found by Audit or on reuse) and a later
//     read is seen by RecConn.Write / CheckSlice as a slice inside a dead region;
//   - when an Append/Realloc outgrows the capacity it moves the content to a new backing array and
//     poisons the old one (the interface allows an allocator to do that: AlignedAllocator.Append
//     frees the old buffer), optionally also changing the handle (MoveOnGrow) so that callers which
//     drop the returned handle are caught;
//   - detects: double free, free / append / realloc of a handle that is not live ("use after
//     free"), free or append of a handle it never issued ("foreign"), damaged poison.
//
// Verdicts are queued as Violations (oracle name + text) which the harness drains into its
// "! oracle=..." lines; the allocator calls are logged as a compact Trace ("m1:1024 a1 w1 f1") with
// first-occurrence numbering, which is what the Lean ownership twin prints as well.
package track

import (
	"fmt"
	"sort"
	"strings"
	"sync"
	"unsafe"

	"github.com/lesismal/nbio/mempool"
)

const (
	OracleDoubleFree   = "c11-double-free"
	OracleUseAfterFree = "c11-use-after-free"
	OracleShared       = "c11-shared"
	OracleForeign      = "c11-foreign-free"
)

type Violation struct {
	Oracle string
	Detail string
}

type buf struct {
	id     int
	handle *[]byte
	cur    *region // current backing array
	live   bool
	gen    int
}

type region struct {
	base, end uintptr
	mem       []byte // full capacity; pins the array so addresses stay unique until Reset
	owner     *buf
	dead      bool // freed, or left behind by a growth
	why       string
}

// Tracker implements mempool.Allocator.
type Tracker struct {
	mu sync.Mutex

	// configuration (set before use)
	Junk       byte               // content of fresh memory (default 0xAA)
	Poison     byte               // content of freed memory (default 0xDB)
	CapFor     func(size int) int // capacity for a requested size (default: size rounded up to 64, at least 64)
	GrowCap    func(need int) int // capacity after a growth (default: need + need/4 rounded up to 64)
	MoveOnGrow bool               // a growing Append/Realloc returns a NEW handle and kills the old one
	Recycle    bool               // Malloc reuses freed buffers of the same capacity class (handle + memory) after verifying the poison

	next     int
	handles  map[*[]byte]*buf
	regions  []*region // sorted by base
	free     []*buf    // recycle list
	trace    []string
	last     string
	viol     []Violation
	seen     map[string]bool
	nMalloc  int
	nFree    int
	peakLive int
	nLive    int
}

func New() *Tracker {
	t := &Tracker{Junk: 0xAA, Poison: 0xDB}
	t.reset()
	return t
}

// Install makes t the process-wide default pool (mempool.Malloc/Append/Free go through it).
func (t *Tracker) Install() *Tracker {
	mempool.DefaultMemPool = t
	return t
}

func (t *Tracker) reset() {
	t.next = 0
	t.handles = map[*[]byte]*buf{}
	t.regions = nil
	t.free = nil
	t.trace = nil
	t.last = ""
	t.viol = nil
	t.seen = map[string]bool{}
	t.nMalloc, t.nFree, t.peakLive, t.nLive = 0, 0, 0, 0
}

// Reset forgets everything (call between cases, after Audit).
func (t *Tracker) Reset() {
	t.mu.Lock()
	defer t.mu.Unlock()
	t.reset()
}

func roundUp(n, m int) int { return (n + m - 1) / m * m }

func (t *Tracker) capFor(size int) int {
	if t.CapFor != nil {
		if c := t.CapFor(size); c >= size && c > 0 {
			return c
		}
	}
	c := roundUp(size, 64)
	if c < 64 {
		c = 64
	}
	return c
}

func (t *Tracker) growCap(need int) int {
	if t.GrowCap != nil {
		if c := t.GrowCap(need); c >= need {
			return c
		}
	}
	return roundUp(need+need/4, 64)
}

func (t *Tracker) report(oracle, key, format string, a ...interface{}) {
	k := oracle + "|" + key
	if t.seen[k] {
		return
	}
	t.seen[k] = true
	t.viol = append(t.viol, Violation{oracle, fmt.Sprintf(format, a...)})
}

func (t *Tracker) ev(format string, a ...interface{}) {
	s := fmt.Sprintf(format, a...)
	// runs of the same event (a1 a1 a1) are one event: how a producer slices its appends is not ownership
	// (the comparison is with the last event ever logged, also across TakeTrace calls)
	if t.last == s && s[0] == 'a' {
		return
	}
	t.last = s
	t.trace = append(t.trace, s)
}

func (t *Tracker) newRegion(b *buf, capacity int) *region {
	mem := make([]byte, capacity)
	if t.Junk != 0 {
		for i := range mem {
			mem[i] = t.Junk
		}
	}
	base := uintptr(unsafe.Pointer(unsafe.SliceData(mem)))
	r := &region{base: base, end: base + uintptr(capacity), mem: mem, owner: b}
	i := sort.Search(len(t.regions), func(i int) bool { return t.regions[i].base >= base })
	t.regions = append(t.regions, nil)
	copy(t.regions[i+1:], t.regions[i:])
	t.regions[i] = r
	return r
}

func (t *Tracker) kill(r *region, why string) {
	for i := range r.mem {
		r.mem[i] = t.Poison
	}
	r.dead = true
	r.why = why
}

func (t *Tracker) find(addr uintptr) *region {
	i := sort.Search(len(t.regions), func(i int) bool { return t.regions[i].end > addr })
	if i < len(t.regions) && t.regions[i].base <= addr {
		return t.regions[i]
	}
	return nil
}

func (t *Tracker) poisonIntact(r *region) int {
	for i, x := range r.mem {
		if x != t.Poison {
			return i
		}
	}
	return -1
}

// Malloc implements mempool.Allocator.
func (t *Tracker) Malloc(size int) *[]byte {
	t.mu.Lock()
	defer t.mu.Unlock()
	if size < 0 {
		size = 0
	}
	t.next++
	t.nMalloc++
	t.nLive++
	if t.nLive > t.peakLive {
		t.peakLive = t.nLive
	}
	if t.Recycle {
		for i := len(t.free) - 1; i >= 0; i-- {
			old := t.free[i]
			if len(old.cur.mem) == t.capFor(size) { // same size class: capacities stay a function of the size
				t.free = append(t.free[:i], t.free[i+1:]...)
				if off := t.poisonIntact(old.cur); off >= 0 {
					t.report(OracleUseAfterFree, fmt.Sprintf("poison%d", old.id), "buffer #%d was written after it was freed (poison damaged at offset %d, seen on reuse)", old.id, off)
				}
				nb := &buf{id: t.next, handle: old.handle, cur: old.cur, live: true, gen: old.gen + 1}
				for j := range nb.cur.mem {
					nb.cur.mem[j] = t.Junk
				}
				nb.cur.dead, nb.cur.owner = false, nb
				*nb.handle = nb.cur.mem[:size]
				t.handles[nb.handle] = nb
				t.ev("m%d:%d", nb.id, size)
				return nb.handle
			}
		}
	}
	b := &buf{id: t.next, handle: new([]byte), live: true}
	b.cur = t.newRegion(b, t.capFor(size))
	*b.handle = b.cur.mem[:size]
	t.handles[b.handle] = b
	t.ev("m%d:%d", b.id, size)
	return b.handle
}

// lookup classifies a handle passed to Append/Realloc/Free. ok=false means the call must fall back to
// plain Go semantics on the handle.
func (t *Tracker) lookup(p *[]byte, what string) (*buf, bool) {
	b := t.handles[p]
	if b == nil {
		t.report(OracleForeign, what+fmt.Sprintf("%p", p), "%s of a buffer this allocator never issued (len %d cap %d)", what, len(*p), cap(*p))
		return nil, false
	}
	if !b.live {
		if what == "Free" {
			t.report(OracleDoubleFree, fmt.Sprintf("%d", b.id), "buffer #%d freed twice", b.id)
			t.ev("!df%d", b.id)
		} else {
			t.report(OracleUseAfterFree, fmt.Sprintf("%s%d", what, b.id), "%s of buffer #%d after it was freed", what, b.id)
			t.ev("!uaf%d", b.id)
		}
		return b, false
	}
	return b, true
}

// grow moves b's content (the first keep bytes of *p) to a new array of at least need bytes, length n.
func (t *Tracker) grow(b *buf, p *[]byte, keep, need, n int) *[]byte {
	old := b.cur
	content := append([]byte(nil), (*p)[:keep]...)
	nr := t.newRegion(b, t.growCap(need))
	copy(nr.mem, content)
	b.cur = nr
	t.kill(old, "outgrown")
	if t.MoveOnGrow {
		delete(t.handles, p)
		// the old handle keeps pointing at the poisoned array and is remembered as a dead alias
		t.handles[p] = &buf{id: b.id, handle: p, cur: old, live: false}
		b.handle = new([]byte)
		t.handles[b.handle] = b
	}
	*b.handle = nr.mem[:n]
	return b.handle
}

func (t *Tracker) appendBytes(p *[]byte, nmore int, cp func(dst []byte)) *[]byte {
	t.mu.Lock()
	defer t.mu.Unlock()
	if p == nil {
		t.report(OracleForeign, "appendnil", "Append to a nil handle")
		nb := make([]byte, nmore)
		cp(nb)
		return &nb
	}
	b, ok := t.lookup(p, "Append")
	if !ok {
		l := len(*p)
		if cap(*p)-l >= nmore {
			*p = (*p)[:l+nmore]
		} else {
			nb := make([]byte, l+nmore, l+nmore+64)
			copy(nb, *p)
			*p = nb
		}
		cp((*p)[l:])
		return p
	}
	t.ev("a%d", b.id)
	t.checkHeader(b, p)
	l := len(*p)
	if nmore == 0 {
		return p
	}
	if cap(*p)-l >= nmore {
		*p = (*p)[:l+nmore]
		cp((*p)[l:])
		return p
	}
	np := t.grow(b, p, l, l+nmore, l+nmore)
	cp((*np)[l:])
	return np
}

// checkHeader: the slice header behind a live handle must still point into the buffer's own array
// (nbio code may reslice it, e.g. (*p)[0:0] or [:cap]; it must not point elsewhere).
func (t *Tracker) checkHeader(b *buf, p *[]byte) {
	if cap(*p) == 0 {
		return
	}
	a := uintptr(unsafe.Pointer(unsafe.SliceData(*p)))
	if a < b.cur.base || a+uintptr(cap(*p)) > b.cur.end {
		t.report(OracleShared, fmt.Sprintf("hdr%d", b.id), "handle of buffer #%d points outside its own memory (aliased or replaced behind the allocator's back)", b.id)
	}
}

// Append implements mempool.Allocator.
func (t *Tracker) Append(p *[]byte, more ...byte) *[]byte {
	return t.appendBytes(p, len(more), func(dst []byte) { copy(dst, more) })
}

// AppendString implements mempool.Allocator.
func (t *Tracker) AppendString(p *[]byte, more string) *[]byte {
	return t.appendBytes(p, len(more), func(dst []byte) { copy(dst, more) })
}

// Realloc implements mempool.Allocator.
func (t *Tracker) Realloc(p *[]byte, size int) *[]byte {
	t.mu.Lock()
	defer t.mu.Unlock()
	if p == nil {
		t.report(OracleForeign, "reallocnil", "Realloc of a nil handle")
		nb := make([]byte, size)
		return &nb
	}
	b, ok := t.lookup(p, "Realloc")
	if !ok {
		if size <= cap(*p) {
			*p = (*p)[:size]
		} else {
			nb := make([]byte, size)
			copy(nb, *p)
			*p = nb
		}
		return p
	}
	t.ev("r%d", b.id)
	t.checkHeader(b, p)
	if size <= cap(*p) {
		*p = (*p)[:size]
		return p
	}
	return t.grow(b, p, len(*p), size, size)
}

// Free implements mempool.Allocator.
func (t *Tracker) Free(p *[]byte) {
	t.mu.Lock()
	defer t.mu.Unlock()
	if p == nil {
		return
	}
	if t.handles[p] == nil && cap(*p) == 0 {
		// an empty slice that never came from a pool (websocket's safeBufferPointer hands one to Free when a
		// control frame has no payload): mempool.MemPool ignores it as well, there is nothing to own
		return
	}
	b, ok := t.lookup(p, "Free")
	if !ok {
		return
	}
	t.ev("f%d", b.id)
	t.checkHeader(b, p)
	b.live = false
	t.nFree++
	t.nLive--
	t.kill(b.cur, "freed")
	if t.Recycle {
		t.free = append(t.free, b)
	}
}

// CheckSlice classifies memory that is about to be read (what = who reads it): inside a live buffer
// (returns its id), inside dead memory (reports use-after-free, returns -id), or not pool memory (0).
func (t *Tracker) CheckSlice(s []byte, what string) int {
	t.mu.Lock()
	defer t.mu.Unlock()
	return t.checkSlice(s, what)
}

func (t *Tracker) checkSlice(s []byte, what string) int {
	if cap(s) == 0 || len(s) == 0 {
		return 0
	}
	a := uintptr(unsafe.Pointer(unsafe.SliceData(s)))
	r := t.find(a)
	if r == nil {
		return 0
	}
	if a+uintptr(len(s)) > r.end {
		t.report(OracleShared, fmt.Sprintf("span%d", r.owner.id), "%s: slice runs past the end of buffer #%d", what, r.owner.id)
	}
	if r.dead || !r.owner.live {
		t.report(OracleUseAfterFree, fmt.Sprintf("read%d", r.owner.id), "%s: %d bytes read from buffer #%d after it was %s", what, len(s), r.owner.id, r.why)
		return -r.owner.id
	}
	return r.owner.id
}

// CheckLive classifies memory without reporting anything: id of the live buffer it lies in, -id if that
// buffer is dead, 0 if it is not pool memory.
func (t *Tracker) CheckLive(s []byte) int {
	t.mu.Lock()
	defer t.mu.Unlock()
	if cap(s) == 0 || len(s) == 0 {
		return 0
	}
	r := t.find(uintptr(unsafe.Pointer(unsafe.SliceData(s))))
	if r == nil {
		return 0
	}
	if r.dead || !r.owner.live {
		return -r.owner.id
	}
	return r.owner.id
}

// NoteWrite is CheckSlice for a conn write, also logged in the trace as w<id> (w- for non-pool memory).
func (t *Tracker) NoteWrite(s []byte) int {
	t.mu.Lock()
	defer t.mu.Unlock()
	id := t.checkSlice(s, "conn.Write")
	switch {
	case len(s) == 0:
	case id > 0:
		t.ev("w%d", id)
	case id < 0:
		t.ev("!uaf%d", -id)
	default:
		t.ev("w-")
	}
	return id
}

// Owner names a field of the implementation that holds a pooled buffer.
type Owner struct {
	Name   string
	Handle *[]byte
}

// CheckOwners: every non-nil owner field must hold a live buffer of this allocator and no two fields
// may hold the same one.
func (t *Tracker) CheckOwners(owners ...Owner) {
	t.mu.Lock()
	defer t.mu.Unlock()
	seen := map[int]string{}
	for _, o := range owners {
		if o.Handle == nil {
			continue
		}
		b := t.handles[o.Handle]
		if b == nil {
			// a buffer that never came from the pool is not pooled-buffer ownership
			continue
		}
		if !b.live {
			t.report(OracleShared, fmt.Sprintf("dangling%s%d", o.Name, b.id), "%s still holds buffer #%d which was returned to the pool", o.Name, b.id)
			continue
		}
		if prev, dup := seen[b.id]; dup {
			t.report(OracleShared, fmt.Sprintf("dup%d", b.id), "buffer #%d is held by %s and %s at the same time", b.id, prev, o.Name)
		}
		seen[b.id] = o.Name
		t.checkHeader(b, o.Handle)
	}
}

// IDOf returns the id of the buffer behind a handle (0 = unknown) and whether it is live.
func (t *Tracker) IDOf(p *[]byte) (int, bool) {
	t.mu.Lock()
	defer t.mu.Unlock()
	if b := t.handles[p]; b != nil {
		return b.id, b.live
	}
	return 0, false
}

// Audit verifies the poison of every dead region (a damaged poison = write after free).
func (t *Tracker) Audit() {
	t.mu.Lock()
	defer t.mu.Unlock()
	for _, r := range t.regions {
		if !r.dead {
			continue
		}
		if off := t.poisonIntact(r); off >= 0 {
			t.report(OracleUseAfterFree, fmt.Sprintf("poison%d", r.owner.id), "buffer #%d was written after it was %s (poison damaged at offset %d of %d)", r.owner.id, r.why, off, len(r.mem))
			// re-poison so that one stray write is reported once
			for i := range r.mem {
				r.mem[i] = t.Poison
			}
		}
	}
}

// Drain returns and clears the queued violations.
func (t *Tracker) Drain() []Violation {
	t.mu.Lock()
	defer t.mu.Unlock()
	v := t.viol
	t.viol = nil
	return v
}

// TakeTrace returns the allocator/conn events since the last call, space separated ("-" if none).
func (t *Tracker) TakeTrace() string {
	t.mu.Lock()
	defer t.mu.Unlock()
	s := strings.Join(t.trace, ",")
	t.trace = nil
	if s == "" {
		return "-"
	}
	return s
}

// Live returns the ids of the buffers that are live now.
func (t *Tracker) Live() []int {
	t.mu.Lock()
	defer t.mu.Unlock()
	var ids []int
	for _, b := range t.handles {
		if b.live {
			ids = append(ids, b.id)
		}
	}
	sort.Ints(ids)
	return ids
}

// Stats: mallocs, frees, peak number of live buffers since Reset.
func (t *Tracker) Stats() (mallocs, frees, peak int) {
	t.mu.Lock()
	defer t.mu.Unlock()
	return t.nMalloc, t.nFree, t.peakLive
}

var _ mempool.Allocator = (*Tracker)(nil)
