// Package hx: shared pieces of the HTTP parser harnesses (hhttp, hhttp7): a recording Processor around the real
// ServerProcessor/ClientProcessor, the canonical summary of what the handler sees, the error-code enum.
package hx

import (
	"errors"
	"fmt"
	"io"
	"net"
	"net/http"
	"regexp"
	"sort"
	"strconv"
	"strings"
	"time"

	"harness/internal/lp"

	"github.com/lesismal/nbio/nbhttp"
)

type FakeConn struct{ Closed bool }

func (c *FakeConn) Read(b []byte) (int, error)         { return 0, nil }
func (c *FakeConn) Write(b []byte) (int, error)        { return len(b), nil }
func (c *FakeConn) Close() error                       { c.Closed = true; return nil }
func (c *FakeConn) LocalAddr() net.Addr                { return &net.TCPAddr{} }
func (c *FakeConn) RemoteAddr() net.Addr               { return &net.TCPAddr{} }
func (c *FakeConn) SetDeadline(t time.Time) error      { return nil }
func (c *FakeConn) SetReadDeadline(t time.Time) error  { return nil }
func (c *FakeConn) SetWriteDeadline(t time.Time) error { return nil }

// CapLogger counts the error-level log lines nbhttp emits from its recover() blocks.
type CapLogger struct{ Panics int }

func (l *CapLogger) Debug(f string, v ...interface{}) {}
func (l *CapLogger) Info(f string, v ...interface{})  {}
func (l *CapLogger) Warn(f string, v ...interface{})  {}
func (l *CapLogger) Error(f string, v ...interface{}) {
	if strings.Contains(f, "Parse failed") || strings.Contains(f, "failed") {
		l.Panics++
	}
}

// Seen is a copy of what the handler / client callback received (taken inside the callback: nbhttp
// recycles the request afterwards).
type Seen struct {
	IsResp     bool
	Method     string
	RequestURI string
	URL        string
	Proto      string
	Host       string
	StatusCode int
	Status     string
	Header     http.Header
	CL         int64
	TE         []string
	Body       []byte
	Trailer    http.Header
	Close      bool
}

// Rec wraps the real processor, recording every callback.
type Rec struct {
	Inner    nbhttp.Processor
	Evs      []string
	Msgs     []string
	Seen     []Seen
	BadURL   []string
	BadProto []string
	OkProto  []string
	Held     int
	MaxHeld  int
	Fed      int   // bytes fed so far (maintained by Sess.Feed)
	DoneAt   []int // value of Fed when each OnComplete fired

	// direct oracle c08-framing-rejected: the framing fields of the message under construction, judged by
	// FramingRule when the parser reports OnContentLength (i.e. has accepted the framing metadata)
	curHdrs   [][2]string
	curCode   int // status code of the response under construction (0: a request)
	pendingTr string   // trailer-rule verdict to be raised by the next callback after OnContentLength
	Framing   []string // violations found (drained by the executor)
}

var clRe = regexp.MustCompile(`^[+-]?[0-9]+$`)

// FramingRule is the property's rule for framing metadata, stated on the header fields the parser reported
// (a Go twin of the Lean `endOfHeaders`/`addTrailerKeys` and of the C08 framing theorems):
//
//	Transfer-Encoding present  => exactly one field line, value "chunked" (case-insensitive, OWS trimmed), else reject
//	Content-Length present     => all values are equal (trailing spaces aside) and the value is [+-]?DIGIT+ with
//	                              0 <= n < 2^62, else reject (an empty value is non-numeric) — also when chunked
//	                              overrides it
//	chunked and Trailer present => no announced name is Transfer-Encoding, Trailer or Content-Length, else reject
//
// It returns (reason to reject or "", reason to reject because of the trailer or "", expected OnContentLength value).
func FramingRule(hdrs [][2]string) (reject, rejectTrailer string, wantCL int64) {
	var te, cl, tr []string
	for _, h := range hdrs {
		switch h[0] {
		case "Transfer-Encoding":
			te = append(te, h[1])
		case "Content-Length":
			cl = append(cl, h[1])
		case "Trailer":
			tr = append(tr, h[1])
		}
	}
	wantCL = -1
	chunked := false
	if len(te) > 0 {
		if len(te) != 1 {
			return fmt.Sprintf("repeated Transfer-Encoding %q", te), "", -1
		}
		if !strings.EqualFold(strings.Trim(te[0], " \t"), "chunked") {
			return fmt.Sprintf("unsupported Transfer-Encoding %q", te[0]), "", -1
		}
		chunked = true
	}
	if len(cl) > 0 { // judged whether or not chunked overrides it: a malformed Content-Length is malformed framing metadata
		v := strings.TrimRight(cl[0], " ")
		for _, o := range cl[1:] {
			if strings.TrimRight(o, " ") != v {
				return fmt.Sprintf("differing Content-Length values %q", cl), "", -1
			}
		}
		if !clRe.MatchString(v) {
			return fmt.Sprintf("non-numeric Content-Length %q", cl[0]), "", -1
		}
		n, err := strconv.ParseInt(v, 10, 64)
		if err != nil || n < 0 || n >= 1<<62 {
			return fmt.Sprintf("negative or overflowing Content-Length %q", cl[0]), "", -1
		}
		if !chunked {
			wantCL = n
		}
	}
	if chunked {
		for _, v := range tr {
			for _, k := range strings.Split(v, ",") {
				switch http.CanonicalHeaderKey(strings.Trim(k, " \t")) {
				case "Transfer-Encoding", "Trailer", "Content-Length":
					return "", fmt.Sprintf("forbidden trailer name announced in %q", v), wantCL
				}
			}
		}
	}
	return "", "", wantCL
}

func (r *Rec) raiseTrailer() {
	if r.pendingTr != "" {
		r.Framing = append(r.Framing, "accepted although "+r.pendingTr)
		r.pendingTr = ""
	}
}

func Hx(s string) string { return lp.Hex([]byte(s)) }

func (r *Rec) OnMethod(p *nbhttp.Parser, m string) {
	r.Evs = append(r.Evs, "method "+Hx(m))
	r.Inner.OnMethod(p, m)
}
func (r *Rec) OnURL(p *nbhttp.Parser, u string) error {
	err := r.Inner.OnURL(p, u)
	if err != nil {
		r.BadURL = append(r.BadURL, Hx(u))
	} else {
		r.Evs = append(r.Evs, "url "+Hx(u))
	}
	return err
}
func (r *Rec) OnProto(p *nbhttp.Parser, s string) error {
	err := r.Inner.OnProto(p, s)
	if err != nil {
		r.BadProto = append(r.BadProto, Hx(s))
	} else {
		r.OkProto = append(r.OkProto, Hx(s))
		r.Evs = append(r.Evs, "proto "+Hx(s))
	}
	return err
}
func (r *Rec) OnStatus(p *nbhttp.Parser, code int, s string) {
	r.Evs = append(r.Evs, fmt.Sprintf("status %d %s", code, Hx(s)))
	r.curCode = code
	r.Inner.OnStatus(p, code, s)
}
func (r *Rec) OnHeader(p *nbhttp.Parser, k, v string) {
	r.curHdrs = append(r.curHdrs, [2]string{k, v})
	r.Evs = append(r.Evs, "header "+Hx(k)+" "+Hx(v))
	r.Inner.OnHeader(p, k, v)
}
func (r *Rec) OnContentLength(p *nbhttp.Parser, n int) {
	rej, rejTr, want := FramingRule(r.curHdrs)
	if c := r.curCode; c/100 == 1 || c == 204 || c == 304 {
		// RFC 7230 3.3.3 rule 1: no body, hence no trailer section, whatever the (still validated) framing fields say
		want, rejTr = 0, ""
	}
	r.curCode = 0
	if rej != "" {
		r.Framing = append(r.Framing, "accepted although "+rej)
	} else if int64(n) != want {
		r.Framing = append(r.Framing, fmt.Sprintf("content length reported %d, framing fields say %d", n, want))
	}
	r.pendingTr = rejTr
	r.curHdrs = nil
	r.Evs = append(r.Evs, "cl "+strconv.Itoa(n))
	r.Inner.OnContentLength(p, n)
}
func (r *Rec) OnBody(p *nbhttp.Parser, d []byte) error {
	r.raiseTrailer()
	err := r.Inner.OnBody(p, d)
	if err == nil {
		r.Held += len(d)
		if r.Held > r.MaxHeld {
			r.MaxHeld = r.Held
		}
		r.Evs = append(r.Evs, "body "+lp.Hex(d))
	}
	return err
}
func (r *Rec) OnTrailerHeader(p *nbhttp.Parser, k, v string) {
	r.raiseTrailer()
	r.Evs = append(r.Evs, "trailer "+Hx(k)+" "+Hx(v))
	r.Inner.OnTrailerHeader(p, k, v)
}
func (r *Rec) OnComplete(p *nbhttp.Parser) {
	r.raiseTrailer()
	r.curHdrs = nil
	r.Evs = append(r.Evs, "complete")
	r.Held = 0
	r.DoneAt = append(r.DoneAt, r.Fed)
	r.Inner.OnComplete(p)
}
func (r *Rec) Close(p *nbhttp.Parser, err error) { r.Inner.Clean(p) }
func (r *Rec) Clean(p *nbhttp.Parser)            { r.Inner.Clean(p) }

// HdrString prints a header map canonically: sorted keys, values joined by NUL, everything in hex.
func HdrString(h http.Header) string {
	ks := make([]string, 0, len(h))
	for k := range h {
		ks = append(ks, k)
	}
	sort.Strings(ks)
	var sb strings.Builder
	for _, k := range ks {
		sb.WriteString(Hx(k) + ":" + Hx(strings.Join(h[k], "\x00")) + ",")
	}
	return sb.String()
}

// ErrCode maps a Parse error to the small enum shared with the Lean model (Http.E.code).
func ErrCode(err error) int {
	switch {
	case errors.Is(err, net.ErrClosed):
		return 1
	case errors.Is(err, nbhttp.ErrInvalidMethod):
		return 2
	case errors.Is(err, nbhttp.ErrInvalidRequestURI):
		return 3
	case errors.Is(err, nbhttp.ErrLFExpected):
		return 4
	case errors.Is(err, nbhttp.ErrCRExpected):
		return 5
	case errors.Is(err, nbhttp.ErrInvalidCharInHeader):
		return 6
	case errors.Is(err, nbhttp.ErrInvalidHTTPStatusCode):
		return 7
	case errors.Is(err, nbhttp.ErrInvalidHTTPStatus):
		return 8
	case errors.Is(err, nbhttp.ErrInvalidChunkSize):
		return 9
	case errors.Is(err, nbhttp.ErrTrailerExpected):
		return 10
	case errors.Is(err, nbhttp.ErrTooLong):
		return 11
	case errors.Is(err, nbhttp.ErrInvalidHTTPVersion):
		return 19
	}
	s := err.Error()
	switch {
	case strings.HasPrefix(s, "too many transfer encodings"), strings.HasPrefix(s, "unsupported transfer encoding"):
		return 12
	case strings.HasPrefix(s, "bad Content-Length"), strings.HasPrefix(s, "length less than zero"), strings.HasPrefix(s, "length greater"):
		return 13
	case strings.HasPrefix(s, "bad trailer key"):
		return 14
	case strings.HasPrefix(s, "invalid trailer"):
		return 15
	case strings.HasPrefix(s, "chunk size"):
		return 9
	case strings.Contains(s, "strconv.Atoi"):
		return 18
	case strings.HasPrefix(s, "malformed HTTP version"):
		return 16
	}
	// url.ParseRequestURI errors
	if strings.HasPrefix(s, "parse ") {
		return 17
	}
	return 100
}

func cloneHeader(h http.Header) http.Header {
	if h == nil {
		return nil
	}
	return h.Clone()
}

// Sess is one parser with the real processor behind a recorder.
type Sess struct {
	Client  bool
	MaxBody int
	Limit   int
	P       *nbhttp.Parser
	R       *Rec
	Conn    *FakeConn
	Engine  *nbhttp.Engine
}

func NewSess(client bool, maxBody, limit int) *Sess {
	engine := nbhttp.NewEngine(nbhttp.Config{ReadLimit: limit, MaxHTTPBodySize: maxBody})
	if limit == 0 {
		engine.ReadLimit = 0
	}
	s := &Sess{Client: client, MaxBody: maxBody, Limit: limit, Engine: engine, Conn: &FakeConn{}}
	r := &Rec{}
	s.R = r
	if client {
		r.Inner = nbhttp.NewClientProcessor(nil, func(res *http.Response, err error) {
			if err != nil || res == nil {
				r.Msgs = append(r.Msgs, "res-err")
				return
			}
			var b []byte
			if res.Body != nil {
				b, _ = io.ReadAll(res.Body)
			}
			r.Msgs = append(r.Msgs, fmt.Sprintf("res{%s|%d|%s|%s|cl%d|%d:%x|%s}", Hx(res.Proto), res.StatusCode, Hx(res.Status),
				HdrString(res.Header), res.ContentLength, len(b), lp.Fnv(b), HdrString(res.Trailer)))
			r.Seen = append(r.Seen, Seen{IsResp: true, Proto: res.Proto, StatusCode: res.StatusCode, Status: res.Status,
				Header: cloneHeader(res.Header), CL: res.ContentLength, Body: b, Trailer: cloneHeader(res.Trailer)})
		})
	} else {
		r.Inner = nbhttp.NewServerProcessor()
		engine.Handler = http.HandlerFunc(func(w http.ResponseWriter, req *http.Request) {
			var b []byte
			if req.Body != nil {
				b, _ = io.ReadAll(req.Body)
			}
			r.Msgs = append(r.Msgs, fmt.Sprintf("req{%s|%s|%s|%s|%s|cl%d|te%s|%d:%x|%s|close%v}", Hx(req.Method), Hx(req.RequestURI), Hx(req.Proto),
				Hx(req.Host), HdrString(req.Header), req.ContentLength, Hx(strings.Join(req.TransferEncoding, ",")), len(b), lp.Fnv(b), HdrString(req.Trailer), req.Close))
			u := ""
			if req.URL != nil {
				u = req.URL.String()
			}
			r.Seen = append(r.Seen, Seen{Method: req.Method, RequestURI: req.RequestURI, URL: u, Proto: req.Proto, Host: req.Host,
				Header: cloneHeader(req.Header), CL: req.ContentLength, TE: append([]string{}, req.TransferEncoding...), Body: b,
				Trailer: cloneHeader(req.Trailer), Close: req.Close})
		})
	}
	s.P = nbhttp.NewParser(s.Conn, engine, r, client, nil)
	return s
}

type Result struct {
	Errc int
	Err  error
	Evs  string
	Msgs string
}

// Feed runs one Parse call on a private copy of seg.
func (s *Sess) Feed(seg []byte) Result {
	s.R.Evs = nil
	s.R.Msgs = nil
	s.R.Fed += len(seg)
	err := s.P.Parse(append([]byte{}, seg...))
	res := Result{Evs: strings.Join(s.R.Evs, ";"), Msgs: strings.Join(s.R.Msgs, ";"), Err: err}
	if err != nil {
		res.Errc = ErrCode(err)
	}
	return res
}
