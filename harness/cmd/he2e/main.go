// he2e: HTTP exchanges end to end on REAL nbhttp engines over loopback (C10).
//
// A case = one matrix cell (I/O mode x plain/TLS x epoll mode) + a set of connection histories that
// run concurrently against one engine of that cell.
//
// ops:
//
//	C <nb|bl|mx> <tls 0|1> <lt|et|os|eta|osa> conc=<n> maxblk=<k> rbuf=<n>
//	K <cid> <raw|std|nbc|nbcli> sched=<p/s/w/f string, model only> slow=<ms> seg=<0|1> to0=<0|1>
//	Q <cid> <rid> v=<10|11> c=<hex|hex|..|-> m=<GET|POST|HEAD> st=<code> sz=<n> fr=<cl|ch|au> w=<n> fl=<0|1>
//	          rb=<n> rbc=<0|1> sync=<0|1> d=<ms>
//
// exec buffers a whole case, runs it, then prints for every line "> line [got=<n>]" + one result:
//
//	ok                                                        (C, K)
//	R <rid> st=<code> body=<len>:<fnv> rb=<len>:<fnv> closed=<0|1|x> cb=<n|x>   (answered)
//	R <rid> none cb=<n|x>                                     (no response on this connection)
//
// `closed` (raw kind): 1 iff the server closed the connection after this response (EOF/reset seen and
// this was the last response).  `cb` (nbc/nbcli kinds): number of times the request's callback ran.
// `got=` on the K line of nbc histories: number of responses the client's parser delivered (environment
// input of the client FIFO model: the transport may lose a tail; the property allows an error then).
//
// Direct oracles (implementation only):
//
//	c10-order            per connection: exactly one response per request, in request order, nothing extra
//	c10-close            connection kept/closed after each response per RFC 7230 6.3 (single-option values)
//	c10-foreign          a tag/body byte of another connection (or any byte this connection's handlers
//	                     did not produce) in this connection's inbound stream
//	c10-client-callback  nbhttp client: each request's callback exactly once, with its own response or an error
package main

import (
	"bufio"
	"bytes"
	"context"
	"crypto/ecdsa"
	"crypto/elliptic"
	"crypto/rand"
	stdtls "crypto/tls"
	"crypto/x509"
	"crypto/x509/pkix"
	"encoding/pem"
	"errors"
	"fmt"
	"io"
	"math/big"
	mrand "math/rand"
	"net"
	"net/http"
	"os"
	"regexp"
	"sort"
	"strconv"
	"strings"
	"sync"
	"sync/atomic"
	"syscall"
	"time"

	"harness/internal/lp"

	lltls "github.com/lesismal/llib/std/crypto/tls"
	"github.com/lesismal/nbio"
	"github.com/lesismal/nbio/logging"
	"github.com/lesismal/nbio/nbhttp"
	"github.com/lesismal/nbio/vsys"
)

// ---------------------------------------------------------------- specs

type reqSpec struct {
	xc     bool // forced schedule: the handler closes the server-side connection from outside before it writes
	sb     int  // forced schedule: the handler sets SO_SNDBUF of the server-side connection
	ob     bool // forced schedule: the handler reports the conn's write backlog right after its body write
	rid    int
	v      string   // "10" | "11"
	conn   []string // Connection header lines
	method string
	st     int
	sz     int
	fr     string // cl | ch | au
	w      int
	fl     bool
	rb     int
	rbc    bool
	sync   bool
	d      int
	up     bool // the request carries "Upgrade: verif-e2e" (answered by the ordinary handler; nothing is upgraded)
}

type result struct {
	answered bool
	st       int
	body     string // len:fnv
	rb       string
	closed   string // 0|1|x
	cb       int    // callbacks (nbc/nbcli), -1 = n/a
	bad      string // non-empty: unparsable / wrong
}

type hist struct {
	cid      int
	kind     string
	slow     int
	seg      bool
	to0      bool
	xclose   int    // raw: 1 + index of the request whose handler closes the server-side connection from outside (0: none)
	sndbuf   int    // raw: SO_SNDBUF the handler of request 0 sets on the server-side connection (0: unchanged)
	short    string // raw: observed write backlogs "rid:left,…" (echoed to the model)
	poolMax  int    // nbcli: MaxConnsPerHost of the Client (0: 3)
	abortAt  int    // raw: 1 + index of the request after sending which the client closes the connection without reading (0: none)
	cbPanic  int    // nbc: 1 + index of the request whose callback panics when it is invoked (0: none)
	dialFail int    // nbc/nbcli: the first dialFail dial attempts of the client fail ...
	dialKind string // ... with a refusal (a port nobody listens on) or a dial timeout
	failAt   int    // nbx: index of the request whose body reader fails (its write fails mid-way)
	cliEpoll string // epoll mode of the nbhttp client engine (= the cell's)
	cut      int    // raw: index of the response that broke off because a closing request closed the conn over a backlog (-1: none)
	reqs     []*reqSpec
	res      map[int]*result
	got      int      // responses delivered by callbacks (nbc)
	fails    []string // oracle=name detail
	soft     bool     // a timing-type failure (retry before reporting)
}

type cellT struct {
	iomod, epoll string
	tls          bool
	maxblk       int
	rbuf         int
}

func tagOf(cid, rid int) string { return fmt.Sprintf("[c%dr%d]", cid, rid) }

// body of response (cid,rid): the tag repeated to sz bytes
func bodyOf(cid, rid, sz int) []byte {
	t := tagOf(cid, rid)
	b := make([]byte, sz)
	for i := range b {
		b[i] = t[i%len(t)]
	}
	return b
}

func lf(b []byte) string { return fmt.Sprintf("%d:%016x", len(b), lp.Fnv(b)) }

func kv(f []string, k string) string {
	for _, t := range f {
		if strings.HasPrefix(t, k+"=") {
			return t[len(k)+1:]
		}
	}
	return ""
}
func kvi(f []string, k string) int { n, _ := strconv.Atoi(kv(f, k)); return n }

func parseQ(f []string) *reqSpec {
	r := &reqSpec{}
	r.rid, _ = strconv.Atoi(f[2])
	r.v = kv(f, "v")
	if c := kv(f, "c"); c != "-" && c != "" {
		for _, h := range strings.Split(c, "|") {
			r.conn = append(r.conn, string(lp.Unhex(h)))
		}
	}
	r.method = kv(f, "m")
	r.st = kvi(f, "st")
	r.sz = kvi(f, "sz")
	r.fr = kv(f, "fr")
	r.w = kvi(f, "w")
	r.fl = kv(f, "fl") == "1"
	r.rb = kvi(f, "rb")
	r.rbc = kv(f, "rbc") == "1"
	r.sync = kv(f, "sync") == "1"
	r.d = kvi(f, "d")
	r.up = kv(f, "up") == "1"
	return r
}

// ---------------------------------------------------------------- generator

func hexs(vals []string) string {
	if len(vals) == 0 {
		return "-"
	}
	hs := make([]string, len(vals))
	for i, v := range vals {
		hs[i] = lp.Hex([]byte(v))
	}
	return strings.Join(hs, "|")
}

var cellsAll = func() []cellT {
	var cs []cellT
	for _, io := range []string{"nb", "bl", "mx"} {
		for _, t := range []bool{false, true} {
			for _, ep := range []string{"lt", "et", "os"} {
				cs = append(cs, cellT{iomod: io, tls: t, epoll: ep})
			}
		}
	}
	return cs
}()

// quick tier: 3 cells covering every I/O mode, both transports and every epoll mode (Latin selection by base seed)
func quickCells(base int) []cellT {
	ios := []string{"nb", "bl", "mx"}
	eps := []string{"lt", "et", "os"}
	var cs []cellT
	for i := 0; i < 3; i++ {
		cs = append(cs, cellT{iomod: ios[i], tls: (i+base)%2 == 1, epoll: eps[(i+base)%3]})
	}
	return cs
}

func genSize(g *lp.Gen, big bool) int {
	switch x := g.Intn(100); {
	case x < 8:
		return 0
	case x < 40:
		return 1 + g.Intn(100)
	case x < 62:
		return 100 + g.Intn(4000)
	case !big:
		return 4000 + g.Intn(20000)
	case x < 72:
		return 65536 - 400 + g.Intn(800) // head+body around the response-buffer threshold
	case x < 78:
		return g.PickInt(65535, 65536, 65537, 65536-7, 65536+5)
	case x < 90:
		return 66000 + g.Intn(40000)
	case x < 96:
		return 131072 - 100 + g.Intn(200)
	default:
		return g.PickInt(204800, 200000, 180000+g.Intn(20000))
	}
}

func mayClose(r *reqSpec) bool {
	if r.v == "10" {
		return true
	}
	for _, v := range r.conn {
		if strings.Contains(strings.ToLower(v), "close") {
			return true
		}
	}
	return false
}

// surely closing by the RFC rule on single-option values (used only to decide where a history may continue)
func plainClose(r *reqSpec) bool {
	ka := false
	for _, v := range r.conn {
		switch strings.ToLower(strings.TrimSpace(v)) {
		case "close":
			return true
		case "keep-alive":
			ka = true
		}
	}
	return r.v == "10" && !ka
}

func genReq(g *lp.Gen, rid int, kind string) *reqSpec {
	r := &reqSpec{rid: rid, v: "11", method: "GET", st: 200, fr: "au", w: 1}
	if kind == "raw" && g.Chance(1, 5) {
		r.v = "10"
	}
	switch x := g.Intn(100); {
	case x < 48:
	case x < 62:
		r.conn = []string{g.Pick("keep-alive", "Keep-Alive", "keep-alive", " keep-alive ")}
	case x < 74:
		r.conn = []string{g.Pick("close", "close", "Close", "CLOSE", " close")}
	case x < 80:
		r.conn = []string{g.Pick("upgrade", "TE", "x-y")}
	case x < 86:
		r.conn = []string{g.Pick("keep-alive", "TE"), g.Pick("close", "keep-alive", "Upgrade")}
	case x < 90 && kind == "raw":
		// option lists in one header line: outside the RFC-comparison domain, the model mirrors the code
		r.conn = []string{g.Pick("keep-alive, close", "close, TE", "TE, keep-alive", "keep-alive,Upgrade")}
	default:
		if r.v == "10" {
			r.conn = []string{"keep-alive"}
		}
	}
	if r.v == "10" && g.Chance(1, 2) && len(r.conn) == 0 {
		r.conn = []string{g.Pick("keep-alive", "Keep-Alive")}
	}
	switch x := g.Intn(100); {
	case x < 68:
	case x < 95:
		r.method = "POST"
		switch y := g.Intn(10); {
		case y < 2:
			r.rb = 0
		case y < 7:
			r.rb = 1 + g.Intn(2000)
		case y < 9:
			r.rb = g.PickInt(4095, 4096, 4097, 8192, 16384+g.Intn(100))
		default:
			r.rb = 60000 + g.Intn(10000)
		}
		r.rbc = g.Chance(1, 3) && r.v == "11"
	default:
		// HEAD only through clients that know the request method: the nbhttp client's response parser does not
		// (it waits for Content-Length body bytes that a HEAD response never carries) — observation in docs/e2e.md
		if kind == "raw" || kind == "std" {
			r.method = "HEAD"
		}
	}
	weird := len(r.conn) > 0 && mayClose(r) && !plainClose(r)
	r.sz = genSize(g, !weird)
	switch x := g.Intn(100); {
	case x < 80:
	case x < 86:
		r.st = 201
	case x < 92:
		r.st = 404
	case x < 96:
		r.st = 500
	default:
		r.st = g.PickInt(204, 304)
		r.sz = 0
	}
	r.fr = g.Pick("cl", "cl", "ch", "au", "au")
	if r.method == "HEAD" {
		r.fr = "cl"
	}
	if r.st == 204 || r.st == 304 {
		r.fr = "au"
	}
	if r.v == "10" && r.fr == "ch" {
		r.fr = "au" // chunked to an HTTP/1.0 client is not something a sane handler asks for
	}
	r.w = 1 + g.Intn(4)
	if g.Chance(1, 3) {
		r.w = 1
	}
	r.fl = g.Chance(1, 7) && r.method != "HEAD" && r.sz > 0 && r.st != 204 && r.st != 304
	if r.v == "10" && r.fr != "cl" {
		// Flush on an HTTP/1.0 response without Content-Length fixes the length at the bytes so far (recorded
		// for C09); a handler that streams to an HTTP/1.0 client declares the length — agreed domain
		r.fl = false
	}
	r.sync = g.Chance(3, 10)
	if g.Chance(1, 10) {
		r.d = 1 + g.Intn(3)
	}
	return r
}

func emitQ(g *lp.Gen, cid int, r *reqSpec) {
	b := func(x bool) int {
		if x {
			return 1
		}
		return 0
	}
	up := ""
	if r.up {
		up = " up=1"
	}
	g.P("Q %d %d v=%s c=%s m=%s st=%d sz=%d fr=%s w=%d fl=%d rb=%d rbc=%d sync=%d d=%d%s", cid, r.rid, r.v, hexs(r.conn), r.method,
		r.st, r.sz, r.fr, r.w, b(r.fl), r.rb, b(r.rbc), b(r.sync), r.d, up)
}

func genHist(g *lp.Gen, cid int, thorough bool) {
	kind := "raw"
	switch x := g.Intn(100); {
	case x < 55:
	case x < 75:
		kind = "nbc"
	case x < 85:
		kind = "std"
	default:
		kind = "nbcli"
	}
	if g.Chance(1, 25) {
		genNbx(g, cid)
		return
	}
	if g.Chance(1, 12) {
		genAbort(g, cid)
		return
	}
	if g.Chance(1, 12) {
		genForced(g, cid)
		return
	}
	n := 1 + g.Intn(8)
	if g.Chance(1, 4) {
		n = 1 + g.Intn(3)
	}
	slow := 0
	if kind == "raw" && g.Chance(1, 12) {
		slow = 5 + g.Intn(40)
	}
	seg := kind == "raw" && g.Chance(1, 4)
	var sched strings.Builder
	for i, m := 0, 4+g.Intn(40); i < m; i++ {
		sched.WriteString(g.Pick("p", "p", "s", "w", "w", "f", "h", "l"))
	}
	b := func(x bool) int {
		if x {
			return 1
		}
		return 0
	}
	to0 := kind == "nbc" && g.Chance(1, 6) // ClientConn.Timeout == 0: no deadline configured
	// client-side error injection: the first dial attempts of the ClientConn / Client fail (refused or timed out),
	// then the same ClientConn (the pool hands it out again) reaches the live server
	dialFail, dialKind := 0, "refused"
	if (kind == "nbc" || kind == "nbcli") && g.Chance(1, 6) {
		dialFail = 1 + g.Intn(2)
		dialKind = g.Pick("refused", "refused", "timeout")
		if n < dialFail+1 {
			n = dialFail + 1
		}
	}
	// user code that panics: the callback of one request panics when it is invoked (ClientConn kinds; the response
	// jobs run under the recover wrapper of Conn.execute, so the client goes on)
	cbPanic := 0
	if kind == "nbc" && g.Chance(1, 7) {
		cbPanic = 1 + dialFail + g.Intn(n-dialFail)
	}
	poolMax := 0
	if kind == "nbcli" && g.Chance(1, 2) {
		poolMax = 1 + g.Intn(3)
	}
	g.P("K %d %s sched=%s slow=%d seg=%d to0=%d dialfail=%d dialkind=%s cbpanic=%d pool=%d", cid, kind, sched.String(), slow, b(seg), b(to0), dialFail, dialKind, cbPanic, poolMax)
	rid := 0
	closedFor := false
	// RFC 7230 6.6 reset hazard: a server that closes while requests are still unread resets the connection,
	// and the reset can destroy response bytes that are still in flight.  A client that keeps pipelining
	// behind a (possibly) closing request therefore does so only while little response data is outstanding;
	// otherwise it waits for the answers first (sync) — the agreed domain of the loopback check.
	inflight := 0
	afterClose := false
	for i := 0; i < n; i++ {
		r := genReq(g, rid, kind)
		if slow > 0 && r.sz < 60000 && g.Chance(1, 2) && r.st != 204 && r.st != 304 {
			r.sz = 66000 + g.Intn(130000)
		}
		if afterClose && (inflight > 16384 || slow > 0) {
			r.sync = true
		}
		if poolMax > 0 && dialFail == 0 && g.Chance(2, 3) {
			r.sync = false // bursts larger than the pool: the surplus waits in getConn
			if r.d == 0 {
				r.d = 1 + g.Intn(3)
			}
		}
		if dialFail > 0 {
			if i < dialFail {
				r.conn = nil // never reaches a server; keep the history going
			}
			if kind == "nbcli" || i <= dialFail {
				r.sync = true // one exchange at a time, so that the failing dial attempts are those of the first requests
			}
		}
		if r.sync {
			inflight = 0
		}
		inflight += r.sz
		if mayClose(r) {
			afterClose = true
		}
		emitQ(g, cid, r)
		rid++
		if mayClose(r) {
			if kind == "nbc" && plainClose(r) {
				// a ClientConn re-dials after its connection ended, and whether a Do behind the closing exchange is
				// refused, lost on the dying connection or re-dialled depends on when the close is noticed: nothing
				// follows a closing request in these histories (the forced-schedule kind nbx covers the re-dial)
				closedFor = true
				break
			}
			if plainClose(r) && g.Chance(2, 3) {
				closedFor = true
				if g.Chance(1, 2) { // one request behind the closing one: must stay unanswered
					r2 := genReq(g, rid, kind)
					if r2.st != 204 && r2.st != 304 {
						r2.sz = g.Intn(200)
					}
					r2.rb = 0
					if r2.method == "POST" {
						r2.method = "GET"
					}
					if inflight > 16384 || slow > 0 {
						r2.sync = true
					}
					emitQ(g, cid, r2)
					rid++
				}
				break
			}
		}
	}
	if !closedFor {
		// sentinel: every history ends with a closing request, so "kept open" is observed through the next answer
		s := &reqSpec{rid: rid, v: "11", conn: []string{"close"}, method: "GET", st: 200, sz: g.Intn(50), fr: g.Pick("cl", "au"), w: 1, sync: g.Chance(1, 2)}
		if afterClose && (inflight > 16384 || slow > 0) || (dialFail > 0 && kind == "nbcli") {
			s.sync = true
		}
		emitQ(g, cid, s)
	}
}

// genNbx: forced client schedule — k requests on the first connection, one whose write fails, m on the second
func genNbx(g *lp.Gen, cid int) {
	k := g.Intn(3)
	m := 1 + g.Intn(3)
	g.P("K %d nbx sched=psfw slow=0 seg=0 to0=0 fail=%d", cid, k)
	rid := 0
	for i := 0; i < k+1+m; i++ {
		r := &reqSpec{rid: rid, v: "11", method: "GET", st: 200, sz: g.PickInt(0, 7, 300, 5000), fr: g.Pick("cl", "au", "ch"), w: 1 + g.Intn(2)}
		if i == k+m {
			r.conn = []string{"close"}
		}
		emitQ(g, cid, r)
		rid++
	}
}

// genForced: forced schedules that are replayed to the model step by step.  (a) xclose: the handler of request k closes
// the server-side connection from outside (an external close between two pipelined requests): the requests in front are
// answered, nothing afterwards.  (b) sndbuf: a tiny SO_SNDBUF and a client that reads late make Conn.Write take only part
// of a large response; the handler reports the backlog it sees, the model replays the short write and the later flush.
func genForced(g *lp.Gen, cid int) {
	if g.Chance(1, 2) {
		n := 2 + g.Intn(4)
		k := 1 + g.Intn(n-1)
		g.P("K %d raw sched=ps slow=0 seg=0 to0=0 xclose=%d", cid, k+1)
		for i := 0; i < n; i++ {
			r := &reqSpec{rid: i, v: "11", method: "GET", st: 200, sz: g.PickInt(0, 40, 900, 5000), fr: g.Pick("cl", "au", "ch"), w: 1 + g.Intn(2), sync: i <= k}
			if i == k {
				r.d = 2
			}
			emitQ(g, cid, r)
		}
		return
	}
	g.P("K %d raw sched=ps slow=%d seg=0 to0=0 sndbuf=4096", cid, 120+g.Intn(100))
	emitQ(g, cid, &reqSpec{rid: 0, v: "11", method: "GET", st: 200, sz: 20, fr: "cl", w: 1})
	emitQ(g, cid, &reqSpec{rid: 1, v: "11", method: "GET", st: 200, sz: g.PickInt(600000, 1000000, 400000), fr: "cl", w: 1})
	emitQ(g, cid, &reqSpec{rid: 2, v: "11", method: "GET", st: 200, sz: g.PickInt(30, 70000), fr: g.Pick("cl", "au"), w: 1})
	emitQ(g, cid, &reqSpec{rid: 3, v: "11", conn: []string{"close"}, method: "GET", st: 200, sz: 9, fr: "cl", w: 1, sync: true})
}

// genAbort: k exchanges, then a request whose answer the client does not wait for (it closes the connection at once)
func genAbort(g *lp.Gen, cid int) {
	k := g.Intn(3)
	g.P("K %d raw sched=psfw slow=0 seg=0 to0=0 abort=%d", cid, k+1)
	for i := 0; i <= k; i++ {
		r := &reqSpec{rid: i, v: "11", method: g.Pick("GET", "GET", "POST"), st: 200, sz: g.PickInt(0, 40, 900, 5000, 66000, 70000), fr: g.Pick("cl", "au", "ch"), w: 1 + g.Intn(3), sync: true}
		if r.method == "POST" {
			r.rb = g.PickInt(0, 300, 5000)
		}
		if i == k {
			r.d = 4 + g.Intn(8)
			r.fl = g.Chance(1, 4) && r.sz > 0
		}
		emitQ(g, cid, r)
	}
}

// genPool: an op sequence for the pool bookkeeping; the generator keeps its own rough picture of who is busy so that
// most releases are valid (invalid ones are refused on both sides)
func genPool(g *lp.Gen) {
	max := 1 + g.Intn(3)
	withTimeout := g.Chance(1, 5)
	tmo := 60000
	if withTimeout {
		tmo = 1500
	}
	g.P("C pool max=%d timeout=%d", max, tmo)
	count, idle, busy, waiting := 0, []int{}, []int{}, 0
	n := 6 + g.Intn(20)
	for i := 0; i < n; i++ {
		switch x := g.Intn(10); {
		case x < 4 && waiting == 0:
			// at most one request waits at a time: which of several blocked receivers the runtime wakes depends on the
			// order in which their goroutines reached the channel, which a loaded machine does not make observable
			g.P("G")
			if len(idle) > 0 {
				busy = append(busy, idle[0])
				idle = idle[1:]
			} else if count < max {
				busy = append(busy, count)
				count++
			} else if withTimeout {
				g.P("T") // the waiter's own timer (1.5 s) fires: nothing else happens in between
			} else {
				waiting++
			}
		case x < 7 && len(busy) > 0:
			k := g.Intn(len(busy))
			c := busy[k]
			g.P("R %d", c)
			if waiting > 0 {
				waiting--
			} else {
				busy = append(busy[:k], busy[k+1:]...)
				idle = append(idle, c)
			}
		case x < 8 && count > 0:
			g.P("X %d", g.Intn(count+1)) // now and then an unknown conn
		case x == 9 && g.Chance(1, 6):
			g.P("R %d", g.Intn(max+1)) // possibly a conn that is not in use: refused
		default:
			g.P("S")
		}
	}
	g.P("S")
}

// genUpload: request bursts larger than what one round of reads takes (MaxConnReadTimesPerEventLoop x ReadBufferSize,
// 3 x 64 KiB by default): a POST body of 3 x ReadBufferSize + 1 … 1 MiB with more requests pipelined right behind it
func genUpload(g *lp.Gen, cid int, rbuf int) {
	kind := g.Pick("raw", "raw", "nbc")
	g.P("K %d %s sched=pspsfwfw slow=0 seg=0 to0=0", cid, kind)
	rb := 65536
	if rbuf > 0 {
		rb = rbuf
	}
	n := 1 + g.Intn(3)
	rid := 0
	for i := 0; i < n; i++ {
		size := 3*rb + 1 + g.Intn(5*rb)
		switch g.Intn(4) {
		case 0:
			size = g.PickInt(100000, 262144, 1<<20)
		case 1:
			if size < 1<<20 {
				size = g.PickInt(3*rb+1, 4*rb, 1<<20)
			}
		}
		if size > 1<<20 {
			size = 1 << 20
		}
		r := &reqSpec{rid: rid, v: "11", method: "POST", st: 200, sz: g.PickInt(0, 30, 2000), fr: g.Pick("cl", "au"), w: 1, rb: size, rbc: g.Chance(1, 4), sync: i == 0 || g.Chance(1, 3)}
		emitQ(g, cid, r)
		rid++
		for k := g.Intn(3); k > 0; k-- { // small requests pipelined right behind the upload
			emitQ(g, cid, &reqSpec{rid: rid, v: "11", method: "GET", st: 200, sz: g.PickInt(0, 50, 900), fr: g.Pick("cl", "au", "ch"), w: 1})
			rid++
		}
	}
	emitQ(g, cid, &reqSpec{rid: rid, v: "11", conn: []string{"close"}, method: "GET", st: 200, sz: 9, fr: "cl", w: 1, sync: g.Chance(1, 2)})
}

// genUp: requests that carry an Upgrade header (answered by the ordinary handler: 200 or 426, nothing is upgraded)
// pipelined right behind a request whose handler is still sleeping — the server must run them through the
// connection's job queue like any other request (C05: handlers of one connection never overlap, FIFO; C10: order).
func genUp(g *lp.Gen, cid int) {
	kind := g.Pick("raw", "raw", "nbc")
	g.P("K %d %s sched=pspsfwfw slow=0 seg=0 to0=0", cid, kind)
	rid := 0
	for k := g.Intn(2); k > 0; k-- { // ordinary exchanges in front
		emitQ(g, cid, &reqSpec{rid: rid, v: "11", method: "GET", st: 200, sz: g.PickInt(0, 30, 700), fr: g.Pick("cl", "au", "ch"), w: 1, sync: rid == 0})
		rid++
	}
	rounds := 1 + g.Intn(2)
	for i := 0; i < rounds; i++ {
		// the slow one ...
		emitQ(g, cid, &reqSpec{rid: rid, v: "11", method: g.Pick("GET", "POST"), st: 200, sz: g.PickInt(10, 300, 3000), fr: g.Pick("cl", "au", "ch"),
			w: 1 + g.Intn(2), d: 15 + g.Intn(40), sync: rid == 0 || g.Chance(1, 3)})
		rid++
		// ... and the upgrade request(s) right behind it
		for k := 1 + g.Intn(2); k > 0; k-- {
			emitQ(g, cid, &reqSpec{rid: rid, v: "11", conn: []string{g.Pick("Upgrade", "upgrade")}, method: "GET", st: g.PickInt(200, 426), sz: g.PickInt(0, 20, 500),
				fr: g.Pick("cl", "au", "ch"), w: 1, up: true})
			rid++
		}
		if g.Chance(1, 2) {
			emitQ(g, cid, &reqSpec{rid: rid, v: "11", method: "GET", st: 200, sz: g.PickInt(0, 50), fr: "cl", w: 1})
			rid++
		}
	}
	emitQ(g, cid, &reqSpec{rid: rid, v: "11", conn: []string{"close"}, method: "GET", st: 200, sz: 9, fr: "cl", w: 1, sync: g.Chance(1, 2)})
}

// genC05: `-tier c05` — only upgrade-behind-slow histories, on the cells whose handlers run on an executor (nb, mx)
// and, for contrast, in blocking mode; every epoll mode incl. the asyncread variants; plain and TLS
func genC05(g *lp.Gen) {
	cid := 0
	eps := []string{"lt", "et", "os", "eta", "osa"}
	ios := []string{"nb", "mx", "nb", "mx", "bl"}
	off := g.Intn(len(eps))
	for cs := 0; cs < g.N; cs++ {
		io := ios[(cs+off)%len(ios)]
		conc := 1 + g.Intn(4)
		maxblk := 0
		if io == "mx" {
			maxblk = 1 + conc/2
		}
		g.P("C %s %d %s conc=%d maxblk=%d rbuf=%d", io, (cs/len(eps)+off)%2, eps[(cs+off)%len(eps)], conc, maxblk, g.PickInt(0, 0, 4096))
		for i := 0; i < conc; i++ {
			genUp(g, cid)
			cid++
		}
	}
}

func gen(g *lp.Gen) {
	if g.Tier == "c05" {
		genC05(g)
		return
	}
	thorough := g.Tier == "thorough"
	seed := int(g.Rng.Int63()) // consume one value so streams differ per shard even for n=0
	_ = seed
	base, full := 0, 0
	for i, a := range os.Args {
		if (a == "-seed" || a == "--seed") && i+1 < len(os.Args) {
			v, _ := strconv.Atoi(os.Args[i+1])
			base, full = v/1000, v // diff_run derives shard seeds as base*1000+shard
		}
	}
	cells := quickCells(base)
	if thorough {
		cells = cellsAll
	}
	off := g.Intn(len(cells))
	cid := 0
	for cs := 0; cs < g.N; cs++ {
		genPool(g) // cheap (in-process, no network): one bookkeeping case in front of every network case
		c := cells[(cs+off)%len(cells)]
		ep := c.epoll
		// engine dimension asyncread: ET and ET+ONESHOT cells with AsyncReadInPoller (default IO task pool)
		if ep != "lt" && g.Chance(1, 2) {
			ep += "a"
		}
		conc := 1 + g.Intn(12)
		if g.Chance(1, 5) {
			conc = 1 + g.Intn(3)
		}
		if thorough {
			switch x := g.Intn(10); {
			case x < 2:
				conc = 1 + g.Intn(4)
			case x < 7:
				conc = 4 + g.Intn(28)
			default:
				conc = 32 + g.Intn(33)
			}
		}
		maxblk := 0
		if c.iomod == "mx" {
			maxblk = 1 + conc/2
		}
		rbuf := g.PickInt(0, 0, 4096, 8192, 4096, 1024, 257)
		t := 0
		if c.tls {
			t = 1
		}
		g.P("C %s %d %s conc=%d maxblk=%d rbuf=%d", c.iomod, t, ep, conc, maxblk, rbuf)
		for i := 0; i < conc; i++ {
			if g.Chance(1, 7) || (strings.HasSuffix(ep, "a") && g.Chance(1, 4)) {
				genUpload(g, cid, rbuf)
			} else {
				genHist(g, cid, thorough)
			}
			cid++
		}
		// one upgrade-behind-slow history per case, drawn from a generator of its own (the other histories of every
		// seed stay what they were) and numbered apart
		genUp(&lp.Gen{Rng: mrand.New(mrand.NewSource(int64(full)*1000003 + int64(cs)*7919 + 17)), N: g.N, Tier: g.Tier, W: g.W}, 100000+cs)
	}
}

// ---------------------------------------------------------------- TLS material

var (
	certOnce sync.Once
	srvTLS   *lltls.Config
)

func tlsConfig() *lltls.Config {
	certOnce.Do(func() {
		key, err := ecdsa.GenerateKey(elliptic.P256(), rand.Reader)
		if err != nil {
			panic(err)
		}
		tpl := &x509.Certificate{SerialNumber: big.NewInt(1), Subject: pkix.Name{CommonName: "he2e"},
			NotBefore: time.Now().Add(-time.Hour), NotAfter: time.Now().Add(24 * time.Hour),
			KeyUsage: x509.KeyUsageDigitalSignature | x509.KeyUsageKeyEncipherment, ExtKeyUsage: []x509.ExtKeyUsage{x509.ExtKeyUsageServerAuth},
			IPAddresses: []net.IP{net.ParseIP("127.0.0.1")}, DNSNames: []string{"localhost"}}
		der, err := x509.CreateCertificate(rand.Reader, tpl, tpl, &key.PublicKey, key)
		if err != nil {
			panic(err)
		}
		kb, err := x509.MarshalECPrivateKey(key)
		if err != nil {
			panic(err)
		}
		certPEM := pem.EncodeToMemory(&pem.Block{Type: "CERTIFICATE", Bytes: der})
		keyPEM := pem.EncodeToMemory(&pem.Block{Type: "EC PRIVATE KEY", Bytes: kb})
		cert, err := lltls.X509KeyPair(certPEM, keyPEM)
		if err != nil {
			panic(err)
		}
		srvTLS = &lltls.Config{Certificates: []lltls.Certificate{cert}, InsecureSkipVerify: true}
	})
	return srvTLS
}

// cliTLS: configuration of the nbhttp client over TLS.  llib v1.2.4's TLS 1.3 *client* handshake fails
// with "bad record MAC" on this toolchain even in llib's own blocking tls.Dial against crypto/tls's
// server (outside nbio); the nbhttp client is therefore exercised over TLS 1.2.  The raw and net/http
// clients use crypto/tls and negotiate TLS 1.3 with the llib server side.
func cliTLS() *lltls.Config {
	return &lltls.Config{InsecureSkipVerify: true, MaxVersion: lltls.VersionTLS12}
}

// ---------------------------------------------------------------- server

type server struct {
	eng  *nbhttp.Engine
	cli  *nbhttp.Engine
	addr string
	cell cellT
}

func epollConf(ep string) (mod uint32, oneshot uint32, async bool) {
	switch ep {
	case "lt":
		return nbio.EPOLLLT, 0, false
	case "et":
		return nbio.EPOLLET, 0, false
	case "os":
		return nbio.EPOLLET, nbio.EPOLLONESHOT, false
	case "eta":
		return nbio.EPOLLET, 0, true
	case "osa":
		return nbio.EPOLLET, nbio.EPOLLONESHOT, true
	}
	panic("bad epoll mode " + ep)
}

// served: (cid, rid) whose handler ran to completion — the server side of the "lost response" oracle
var served sync.Map

func servedKey(cid, rid int) string { return strconv.Itoa(cid) + "/" + strconv.Itoa(rid) }

// handlerLog: per history, the request ids in the order their handlers were entered (server side)
var (
	hlogMu sync.Mutex
	hlog   = map[int][]int{}
)

func hlogAdd(cid, rid int) {
	hlogMu.Lock()
	hlog[cid] = append(hlog[cid], rid)
	hlogMu.Unlock()
}

// in-flight handlers per history (server side): the pool bound of nbhttp.Client shows here
var (
	inflMu  sync.Mutex
	inflCur = map[int]int{}
	inflMax = map[int]int{}
)

func inflEnter(cid int) {
	inflMu.Lock()
	inflCur[cid]++
	if inflCur[cid] > inflMax[cid] {
		inflMax[cid] = inflCur[cid]
	}
	inflMu.Unlock()
}

func inflLeave(cid int) {
	inflMu.Lock()
	inflCur[cid]--
	inflMu.Unlock()
}

func inflTake(cid int) int {
	inflMu.Lock()
	defer inflMu.Unlock()
	m := inflMax[cid]
	delete(inflMax, cid)
	delete(inflCur, cid)
	return m
}

func hlogTake(cid int) []int {
	hlogMu.Lock()
	defer hlogMu.Unlock()
	l := hlog[cid]
	delete(hlog, cid)
	return l
}

// checkHandlers: each handler at most once; on a single connection (raw, nbc, nbx) in request order
func (h *hist) checkHandlers() {
	l := hlogTake(h.cid)
	seen := map[int]int{}
	for _, rid := range l {
		seen[rid]++
	}
	for rid, n := range seen {
		if n > 1 {
			h.fail(false, "c10-order", "handler of request %d ran %d times", rid, n)
		}
	}
	if h.kind == "raw" || h.kind == "nbc" {
		for i := 1; i < len(l); i++ {
			if l[i] <= l[i-1] {
				h.fail(false, "c10-order", "handlers ran out of request order on one connection: %v", l)
				h.fail(false, "c05-fifo", "handlers ran out of request order on one connection: %v", l)
				break
			}
		}
		// these kinds use one connection: its handlers are jobs of one per-connection queue (C05) and never overlap
		if m := inflTake(h.cid); m > 1 {
			h.fail(false, "c10-order", "%d handlers of one connection were running at the same time (handler entry order %v)", m, l)
			h.fail(false, "c05-overlap", "%d handlers of one connection were running at the same time (handler entry order %v)", m, l)
		}
	}
}

// srvConns: server-side connections by peer address (engine OnOpen/OnClose) — the forced-schedule histories reach the
// connection "from outside" the response path through it; shortObs: write backlog seen right after a body write
var (
	srvConns sync.Map
	shortObs sync.Map
)

func srvNbio(addr string) (net.Conn, *nbio.Conn) {
	v, ok := srvConns.Load(addr)
	if !ok {
		return nil, nil
	}
	c := v.(net.Conn)
	inner := c
	if hc, ok := c.(*nbhttp.Conn); ok {
		inner = hc.Conn
	}
	nbc, _ := inner.(*nbio.Conn)
	return c, nbc
}

func handler(w http.ResponseWriter, r *http.Request) {
	// /c/<cid>/r/<rid>?st=&sz=&fr=&w=&fl=&d=
	p := strings.Split(r.URL.Path, "/")
	if len(p) < 5 {
		w.WriteHeader(400)
		return
	}
	cid, _ := strconv.Atoi(p[2])
	rid, _ := strconv.Atoi(p[4])
	q := r.URL.Query()
	geti := func(k string) int { n, _ := strconv.Atoi(q.Get(k)); return n }
	st, sz, fr, nw, fl, d := geti("st"), geti("sz"), q.Get("fr"), geti("w"), q.Get("fl") == "1", geti("d")
	hlogAdd(cid, rid)
	inflEnter(cid)
	// "in flight" ends before the write that may complete the response on the wire: once the client has the whole
	// response it may rightly send its next request (on another connection of a pool, too), and a handler goroutine that
	// is descheduled between that write and its return must not count as overlapping with the next one
	left := false
	leave := func() {
		if !left {
			left = true
			inflLeave(cid)
		}
	}
	defer leave()
	if n := geti("sb"); n > 0 {
		if c, _ := srvNbio(r.RemoteAddr); c != nil {
			if wb, ok := c.(interface{ SetWriteBuffer(int) error }); ok {
				_ = wb.SetWriteBuffer(n)
			}
		}
	}
	if q.Get("xc") == "1" {
		// an external close: not the close decision of any request, issued on the connection object itself
		if c, _ := srvNbio(r.RemoteAddr); c != nil {
			_ = c.Close()
		}
	}
	if q.Get("ob") == "1" {
		defer func() {
			if _, nbc := srvNbio(r.RemoteAddr); nbc != nil {
				shortObs.Store(servedKey(cid, rid), nbc.VerifState().Left)
			}
		}()
	}
	var rb []byte
	if r.Body != nil {
		rb, _ = io.ReadAll(r.Body)
	}
	if d > 0 {
		time.Sleep(time.Duration(d) * time.Millisecond)
	}
	h := w.Header()
	h.Set("X-Tag", tagOf(cid, rid))
	h.Set("X-Rb", lf(rb))
	switch fr {
	case "cl":
		h.Set("Content-Length", strconv.Itoa(sz))
	case "ch":
		h.Set("Transfer-Encoding", "chunked")
	}
	w.WriteHeader(st)
	defer served.Store(servedKey(cid, rid), true)
	if r.Method == "HEAD" || sz == 0 {
		return
	}
	body := bodyOf(cid, rid, sz)
	if nw < 1 {
		nw = 1
	}
	// nw writes: the first takes the bulk when fl/odd, the rest split evenly
	cuts := make([]int, 0, nw)
	for i := 1; i < nw; i++ {
		cuts = append(cuts, len(body)*i/nw)
	}
	if nw > 1 && rid%2 == 1 && len(body) > 200 {
		// a big first write and small followers (the shape that leaves the head already sent)
		cuts = cuts[:0]
		rest := 10 * (nw - 1)
		for i := 1; i < nw; i++ {
			cuts = append(cuts, len(body)-rest+10*(i-1))
		}
	}
	prev := 0
	for i := 0; i <= len(cuts); i++ {
		end := len(body)
		if i < len(cuts) {
			end = cuts[i]
		}
		if i == len(cuts) {
			leave()
		}
		if end > prev {
			_, _ = w.Write(body[prev:end])
		}
		if i == 0 && fl {
			if f, ok := w.(http.Flusher); ok {
				f.Flush()
			}
		}
		prev = end
	}
}

var (
	srvMu   sync.Mutex
	servers = map[string]*server{}
)

func getServer(c cellT) (*server, error) {
	key := fmt.Sprintf("%s/%v/%s/%d/%d", c.iomod, c.tls, c.epoll, c.maxblk, c.rbuf)
	srvMu.Lock()
	defer srvMu.Unlock()
	if s, ok := servers[key]; ok {
		return s, nil
	}
	mod, oneshot, async := epollConf(c.epoll)
	conf := nbhttp.Config{Network: "tcp", Handler: http.HandlerFunc(handler), NPoller: 2, EpollMod: mod, EPOLLONESHOT: oneshot,
		AsyncReadInPoller: async, KeepaliveTime: 90 * time.Second, ReadBufferSize: c.rbuf, BlockingReadBufferSize: c.rbuf}

	switch c.iomod {
	case "nb":
		conf.IOMod = nbhttp.IOModNonBlocking
	case "bl":
		conf.IOMod = nbhttp.IOModBlocking
	case "mx":
		conf.IOMod = nbhttp.IOModMixed
		conf.MaxBlockingOnline = c.maxblk
	}
	if c.tls {
		conf.AddrsTLS = []string{"127.0.0.1:0"}
		conf.TLSConfig = tlsConfig()
	} else {
		conf.Addrs = []string{"127.0.0.1:0"}
	}
	eng := nbhttp.NewEngine(conf)
	eng.OnOpen(func(c net.Conn) { srvConns.Store(c.RemoteAddr().String(), c) })
	eng.OnClose(func(c net.Conn, err error) { srvConns.Delete(c.RemoteAddr().String()) })
	if err := eng.Start(); err != nil {
		return nil, err
	}
	s := &server{eng: eng, cell: c}
	if c.tls {
		s.addr = eng.AddrsTLS[0]
	} else {
		s.addr = eng.Addrs[0]
	}
	cliConf := nbhttp.Config{NPoller: 1, EpollMod: mod, EPOLLONESHOT: oneshot, AsyncReadInPoller: async}

	cli := nbhttp.NewEngine(cliConf)
	if err := cli.Start(); err != nil {
		eng.Stop()
		return nil, err
	}
	s.cli = cli
	servers[key] = s
	return s, nil
}

func stopServers() {
	srvMu.Lock()
	defer srvMu.Unlock()
	done := make(chan struct{})
	go func() {
		for _, s := range servers {
			s.cli.Stop()
			s.eng.Stop()
		}
		close(done)
	}()
	select {
	case <-done:
	case <-time.After(5 * time.Second): // Stop hanging is C18's business, not this harness's
	}
	servers = map[string]*server{}
}

// ---------------------------------------------------------------- request encoding

func (s *server) path(cid int, r *reqSpec) string {
	b := 0
	if r.fl {
		b = 1
	}
	x := ""
	if r.xc {
		x += "&xc=1"
	}
	if r.sb > 0 {
		x += "&sb=" + strconv.Itoa(r.sb)
	}
	if r.ob {
		x += "&ob=1"
	}
	return fmt.Sprintf("/c/%d/r/%d?st=%d&sz=%d&fr=%s&w=%d&fl=%d&d=%d%s", cid, r.rid, r.st, r.sz, r.fr, r.w, b, r.d, x)
}

func reqBody(r *reqSpec) []byte { return lp.Pattern(r.rb, r.rid%256) }

func (s *server) rawRequest(cid int, r *reqSpec) []byte {
	var b bytes.Buffer
	ver := "HTTP/1.1"
	if r.v == "10" {
		ver = "HTTP/1.0"
	}
	fmt.Fprintf(&b, "%s %s %s\r\nHost: %s\r\n", r.method, s.path(cid, r), ver, s.addr)
	for _, v := range r.conn {
		fmt.Fprintf(&b, "Connection: %s\r\n", v)
	}
	if r.up {
		b.WriteString("Upgrade: verif-e2e\r\n")
	}
	body := reqBody(r)
	if r.method == "POST" {
		if r.rbc {
			b.WriteString("Transfer-Encoding: chunked\r\n\r\n")
			for off := 0; off < len(body); {
				n := 1 + (off*7+r.rid)%1500
				if off+n > len(body) {
					n = len(body) - off
				}
				fmt.Fprintf(&b, "%x\r\n", n)
				b.Write(body[off : off+n])
				b.WriteString("\r\n")
				off += n
			}
			b.WriteString("0\r\n\r\n")
		} else {
			fmt.Fprintf(&b, "Content-Length: %d\r\n\r\n", len(body))
			b.Write(body)
		}
	} else {
		b.WriteString("\r\n")
	}
	return b.Bytes()
}

func (s *server) httpRequest(cid int, r *reqSpec) *http.Request {
	scheme := "http"
	if s.cell.tls {
		scheme = "https"
	}
	var body io.Reader
	if r.method == "POST" {
		body = bytes.NewReader(reqBody(r))
	}
	req, err := http.NewRequest(r.method, scheme+"://"+s.addr+s.path(cid, r), body)
	if err != nil {
		panic(err)
	}
	if r.method == "POST" && r.rbc {
		req.ContentLength = -1
		req.TransferEncoding = []string{"chunked"}
	}
	if len(r.conn) > 0 {
		req.Header["Connection"] = append([]string{}, r.conn...)
	}
	if r.up {
		req.Header.Set("Upgrade", "verif-e2e")
	}
	return req
}

// ---------------------------------------------------------------- observation helpers

type teeConn struct {
	net.Conn
	mu  sync.Mutex
	buf bytes.Buffer
}

func (t *teeConn) Read(p []byte) (int, error) {
	n, err := t.Conn.Read(p)
	if n > 0 {
		t.mu.Lock()
		t.buf.Write(p[:n])
		t.mu.Unlock()
	}
	return n, err
}

var tagRe = regexp.MustCompile(`\[c(\d+)r(\d+)\]`)

func (h *hist) fail(soft bool, oracle, format string, a ...interface{}) {
	h.fails = append(h.fails, fmt.Sprintf("oracle=%s cid=%d kind=%s %s", oracle, h.cid, h.kind, fmt.Sprintf(format, a...)))
	if soft {
		h.soft = true
	}
}

func (h *hist) scanForeign(stream []byte) {
	for _, m := range tagRe.FindAllSubmatch(stream, -1) {
		c, _ := strconv.Atoi(string(m[1]))
		if c != h.cid {
			h.fail(false, "c10-foreign", "tag %s of another connection in this connection's inbound stream (%d bytes)", m[0], len(stream))
			return
		}
	}
}

// checkResponse: tag, body, echo of the request body; fills the result
func (h *hist) checkResponse(r *reqSpec, status int, hdr http.Header, body []byte, res *result) {
	res.answered = true
	res.st = status
	res.body = lf(body)
	res.rb = hdr.Get("X-Rb")
	if tag := hdr.Get("X-Tag"); tag != tagOf(h.cid, r.rid) {
		m := tagRe.FindStringSubmatch(tag)
		if m != nil && m[1] != strconv.Itoa(h.cid) {
			h.fail(false, "c10-foreign", "response to request %d carries tag %s of another connection", r.rid, tag)
		} else {
			h.fail(false, "c10-order", "response at position of request %d carries tag %q", r.rid, tag)
		}
		res.bad = "tag"
	}
	want := []byte{}
	if r.method != "HEAD" {
		want = bodyOf(h.cid, r.rid, r.sz)
	}
	if !bytes.Equal(body, want) {
		i := 0
		for i < len(body) && i < len(want) && body[i] == want[i] {
			i++
		}
		end := i + 48
		if end > len(body) {
			end = len(body)
		}
		h.fail(false, "c10-foreign", "body of request %d: %d bytes, want %d; first difference at %d: %q — bytes this connection's handler did not write",
			r.rid, len(body), len(want), i, body[i:end])
		for _, m := range tagRe.FindAllSubmatch(body, -1) {
			if string(m[1]) != strconv.Itoa(h.cid) {
				h.fail(false, "c10-foreign", "body of request %d contains tag %s of another connection", r.rid, m[0])
				break
			}
		}
	}
	if res.rb != lf(reqBody(r)) && !(r.method != "POST" && res.rb == lf(nil)) {
		h.fail(false, "c10-foreign", "request body of request %d seen by the handler as %s, sent %s", r.rid, res.rb, lf(reqBody(r)))
	}
}

// closingAtOrAfter: index of the first request at or after i that may end the connection, -1 if none
func (h *hist) closingAtOrAfter(i int) int {
	for j := i; j < len(h.reqs); j++ {
		if persist, _ := rfcPersists(h.reqs[j]); !persist || mayClose(h.reqs[j]) {
			return j
		}
	}
	return -1
}

// ltBurstCap: a little under 3 x 64 KiB (heads and TLS record overhead ride along with the bodies)
const ltBurstCap = 3*65536 - 8192

// RFC 7230 6.3 on the list syntax of 6.1 — independent of the code under test and of the Lean model
func rfcPersists(r *reqSpec) (persist bool, inDomain bool) {
	inDomain = true
	hasClose, ka := false, false
	for _, v := range r.conn {
		if strings.ContainsAny(v, ",\t") {
			inDomain = false
		}
		for _, o := range strings.Split(v, ",") {
			switch strings.ToLower(strings.Trim(o, " \t")) {
			case "close":
				hasClose = true
			case "keep-alive":
				ka = true
			}
		}
	}
	if hasClose {
		return false, inDomain
	}
	if r.v == "11" {
		return true, inDomain
	}
	return ka, inDomain
}

// generous: the box is shared with other checks; a stall is only reported after the case was re-run
var ioTimeout = func() time.Duration {
	if s := os.Getenv("HE2E_TIMEOUT_MS"); s != "" {
		if n, err := strconv.Atoi(s); err == nil {
			return time.Duration(n) * time.Millisecond
		}
	}
	return 25 * time.Second
}()

// ---------------------------------------------------------------- raw pipelining client

func (s *server) dialRaw() (net.Conn, error) {
	d := net.Dialer{Timeout: 10 * time.Second}
	c, err := d.Dial("tcp", s.addr)
	if err != nil {
		return nil, err
	}
	if s.cell.tls {
		tc := stdtls.Client(c, &stdtls.Config{InsecureSkipVerify: true})
		_ = tc.SetDeadline(time.Now().Add(15 * time.Second))
		if err := tc.Handshake(); err != nil {
			_ = c.Close()
			return nil, err
		}
		_ = tc.SetDeadline(time.Time{})
		return tc, nil
	}
	return c, nil
}

func isTimeout(err error) bool {
	var ne net.Error
	return errors.As(err, &ne) && ne.Timeout()
}

// runRawAbort: a client that gives up.  The requests in front of the aborted one are exchanged one at a time; then the
// client sends the last request — whose handler takes a few milliseconds — and closes the connection at once, so the
// server finds the connection gone when it writes the answer (the "writing the response failed" branch of
// flushResponse).  Nothing can be observed on this connection afterwards; what such a failure does to the server's
// pooled objects shows on the connections that run concurrently in the same case.
func (s *server) runRawAbort(h *hist) {
	conn, err := s.dialRaw()
	if err != nil {
		h.fail(true, "c10-order", "dial failed: %v", err)
		return
	}
	tee := &teeConn{Conn: conn}
	defer conn.Close()
	br := bufio.NewReaderSize(tee, 16384)
	k := h.abortAt - 1
	for i, r := range h.reqs {
		res := h.res[r.rid]
		res.closed = "0"
		_ = conn.SetDeadline(time.Now().Add(ioTimeout))
		if _, err := conn.Write(s.rawRequest(h.cid, r)); err != nil {
			h.fail(true, "c10-order", "write of request %d failed: %v", r.rid, err)
			return
		}
		if i >= k {
			_ = conn.Close()
			break
		}
		resp, err := http.ReadResponse(br, &http.Request{Method: r.method})
		if err != nil {
			h.fail(isTimeout(err), "c10-order", "no response to request %d: %v", r.rid, err)
			return
		}
		body, err := io.ReadAll(resp.Body)
		_ = resp.Body.Close()
		if err != nil {
			h.fail(isTimeout(err), "c10-order", "response to request %d broke off: %v", r.rid, err)
			return
		}
		h.checkResponse(r, resp.StatusCode, resp.Header, body, res)
		if resp.StatusCode != r.st {
			h.fail(false, "c10-order", "response to request %d has status %d, handler set %d", r.rid, resp.StatusCode, r.st)
		}
	}
	time.Sleep(time.Duration(h.reqs[len(h.reqs)-1].d+3) * time.Millisecond) // let the server run into the closed connection
	tee.mu.Lock()
	h.scanForeign(tee.buf.Bytes())
	tee.mu.Unlock()
}

func (s *server) runRaw(h *hist) {
	if h.abortAt > 0 {
		s.runRawAbort(h)
		return
	}
	conn, err := s.dialRaw()
	if err != nil {
		h.fail(true, "c10-order", "dial failed: %v", err)
		return
	}
	tee := &teeConn{Conn: conn}
	defer conn.Close()
	n := len(h.reqs)
	var received int32 // responses completely read
	ended := make(chan struct{})
	progress := make(chan struct{}, n+1)
	// writer
	go func() {
		for i, r := range h.reqs {
			for r.sync && int(atomic.LoadInt32(&received)) < i || i-int(atomic.LoadInt32(&received)) >= 8 {
				select {
				case <-progress:
				case <-ended:
					return
				}
			}
			select {
			case <-ended:
				return
			default:
			}
			raw := s.rawRequest(h.cid, r)
			_ = conn.SetWriteDeadline(time.Now().Add(ioTimeout))
			if h.seg && len(raw) > 3 {
				// a few cuts inside the request (inside the request line, headers or body)
				cuts := []int{1 + (r.rid*5)%(len(raw)-1), len(raw) / 2, len(raw) - 1}
				sort.Ints(cuts)
				prev := 0
				for _, c := range cuts {
					if c > prev {
						if _, err := conn.Write(raw[prev:c]); err != nil {
							return
						}
						prev = c
						time.Sleep(200 * time.Microsecond)
					}
				}
				if _, err := conn.Write(raw[prev:]); err != nil {
					return
				}
			} else if _, err := conn.Write(raw); err != nil {
				return
			}
		}
	}()
	if h.slow > 0 {
		time.Sleep(time.Duration(h.slow) * time.Millisecond)
	}
	br := bufio.NewReaderSize(tee, 16384)
	last := -1
	var endErr error
	teeLen := func() int { tee.mu.Lock(); defer tee.mu.Unlock(); return tee.buf.Len() }
	mark := 0 // stream offset just behind the last complete response
	for i, r := range h.reqs {
		_ = conn.SetReadDeadline(time.Now().Add(ioTimeout))
		resp, err := http.ReadResponse(br, &http.Request{Method: r.method})
		if err != nil {
			endErr = err
			break
		}
		body, err := io.ReadAll(resp.Body)
		_ = resp.Body.Close()
		res := h.res[r.rid]
		if err != nil {
			// the stream ended or broke inside a response
			endErr = err
			res.bad = "truncated"
			res.answered = true
			switch {
			case isTimeout(err):
				h.fail(true, "c10-order", "response to request %d incomplete after %v (%d body bytes): %v", r.rid, ioTimeout, len(body), err)
			case h.closingAtOrAfter(i) >= 0 && bytes.HasPrefix(bodyOf(h.cid, r.rid, r.sz), body) && !strings.Contains(err.Error(), "reset"):
				// the bytes that did arrive are the right ones, then the stream ends cleanly (FIN): the server closed the
				// connection for a closing request while this response was still (partly) in its write queue
				c := h.closingAtOrAfter(i)
				h.cut = i
				h.fail(false, "c10-order", "class=close-with-backlog response to request %d broke off after %d of %d body bytes: the connection was closed for closing request %d while response bytes were still queued",
					r.rid, len(body), r.sz, h.reqs[c].rid)
			default:
				h.fail(false, "c10-order", "response to request %d broke off: %v (%d of %d body bytes read)", r.rid, err, len(body), r.sz)
				if !bytes.HasPrefix(bodyOf(h.cid, r.rid, r.sz), body) {
					h.checkResponse(r, resp.StatusCode, resp.Header, body, res)
				}
			}
			last = i
			break
		}
		h.checkResponse(r, resp.StatusCode, resp.Header, body, res)
		if resp.StatusCode != r.st {
			h.fail(false, "c10-order", "response to request %d has status %d, handler set %d", r.rid, resp.StatusCode, r.st)
		}
		last = i
		mark = teeLen() - br.Buffered()
		atomic.AddInt32(&received, 1)
		progress <- struct{}{}
	}
	// what follows the last response?
	closed := false
	if endErr == nil {
		// all requests answered: the last one is a closing request by construction — expect EOF
		closeWait := 8 * time.Second
		if degraded {
			closeWait = 3 * time.Second
		}
		_ = conn.SetReadDeadline(time.Now().Add(closeWait))
		b, err := br.Peek(1)
		switch {
		case err == nil:
			h.fail(false, "c10-order", "bytes after the response to the last request: %q…", b)
		case isTimeout(err):
			// no EOF within the close wait.  For a closing request inside the RFC domain the oracle c10-close judges this
			// (soft: re-run, canary); outside of it nothing would, and closed=0 would be compared as an observation
			if _, dom := rfcPersists(h.reqs[last]); !dom {
				markLate("close-wait")
			}
		default:
			closed = true
		}
	} else if isTimeout(endErr) {
		if last+1 < n && h.res[h.reqs[last+1].rid].bad == "" {
			h.fail(true, "c10-order", "no response to request %d within %v and the connection is still open", h.reqs[last+1].rid, ioTimeout)
		}
	} else if errors.Is(endErr, io.EOF) || errors.Is(endErr, io.ErrUnexpectedEOF) || strings.Contains(endErr.Error(), "reset") ||
		strings.Contains(endErr.Error(), "closed") || strings.Contains(endErr.Error(), "broken pipe") {
		closed = true
		// bytes behind the last complete response that do not form a response: the stream broke off inside one
		if extra := teeLen() - mark; extra > 0 && h.cut < 0 {
			if last+1 < n && h.res[h.reqs[last+1].rid].bad == "" {
				h.fail(false, "c10-order", "connection ended %d bytes into the response to request %d: %v", extra, h.reqs[last+1].rid, endErr)
				h.res[h.reqs[last+1].rid].bad = "truncated"
			}
		}
	} else {
		// malformed response stream
		rid := -1
		if last+1 < n {
			rid = h.reqs[last+1].rid
		}
		tee.mu.Lock()
		tail := tee.buf.Bytes()
		if len(tail) > 80 {
			tail = tail[len(tail)-80:]
		}
		h.fail(false, "c10-order", "response stream unparsable at the response to request %d: %v; stream tail %q", rid, endErr, tail)
		tee.mu.Unlock()
		if last+1 < n {
			h.res[h.reqs[last+1].rid].bad = "malformed"
		}
	}
	close(ended)
	for i, r := range h.reqs {
		res := h.res[r.rid]
		res.closed = "0"
		if i == last && closed {
			res.closed = "1"
		}
	}
	// c10-close: RFC expectation per answered request
	for i, r := range h.reqs {
		if i > last || (h.cut >= 0 && i >= h.cut) || (h.xclose > 0 && i >= h.xclose-2) {
			break
		}
		persist, dom := rfcPersists(r)
		if !dom {
			continue
		}
		if persist {
			if i == last && closed && i+1 < n {
				h.fail(false, "c10-close", "connection closed after the response to request %d (HTTP/%s, Connection %q) although it must persist", r.rid, r.v, r.conn)
			}
		} else {
			if i < last {
				h.fail(false, "c10-close", "request %d (HTTP/%s, Connection %q) must end the connection, but request %d was answered after it", r.rid, r.v, r.conn, h.reqs[i+1].rid)
			} else if !closed {
				h.fail(true, "c10-close", "connection still open 8 s after the response to closing request %d (HTTP/%s, Connection %q)", r.rid, r.v, r.conn)
			}
		}
	}
	tee.mu.Lock()
	h.scanForeign(tee.buf.Bytes())
	tee.mu.Unlock()
	var obs []string
	for _, r := range h.reqs {
		if v, ok := shortObs.LoadAndDelete(servedKey(h.cid, r.rid)); ok && v.(int) > 0 {
			obs = append(obs, fmt.Sprintf("%d:%d", r.rid, v.(int)))
		}
	}
	h.short = strings.Join(obs, ",")
}

// ---------------------------------------------------------------- net/http client (independent, sequential)

func (s *server) runStd(h *hist) {
	var tees []*teeConn
	var mu sync.Mutex
	dial := func(ctx context.Context, network, addr string) (net.Conn, error) {
		c, err := s.dialRaw()
		if err != nil {
			return nil, err
		}
		t := &teeConn{Conn: c}
		mu.Lock()
		tees = append(tees, t)
		mu.Unlock()
		return t, nil
	}
	tr := &http.Transport{DialContext: dial, DialTLSContext: dial, MaxConnsPerHost: 1, DisableCompression: true, ForceAttemptHTTP2: false}
	defer tr.CloseIdleConnections()
	cl := &http.Client{Transport: tr, Timeout: ioTimeout}
	for _, r := range h.reqs {
		res := h.res[r.rid]
		res.closed = "x"
		resp, err := cl.Do(s.httpRequest(h.cid, r))
		if err != nil {
			h.fail(isTimeout(err), "c10-order", "net/http client: request %d failed: %v", r.rid, err)
			res.bad = "err"
			continue
		}
		body, err := io.ReadAll(resp.Body)
		_ = resp.Body.Close()
		if err != nil {
			h.fail(isTimeout(err), "c10-order", "net/http client: body of request %d: %v", r.rid, err)
		}
		h.checkResponse(r, resp.StatusCode, resp.Header, body, res)
		if resp.StatusCode != r.st {
			h.fail(false, "c10-order", "response to request %d has status %d, handler set %d", r.rid, resp.StatusCode, r.st)
		}
		if persist, dom := rfcPersists(r); dom && !persist && !resp.Close {
			h.fail(false, "c10-close", "response to closing request %d is not marked Connection: close", r.rid)
		}
	}
	mu.Lock()
	for _, t := range tees {
		t.mu.Lock()
		h.scanForeign(t.buf.Bytes())
		t.mu.Unlock()
	}
	mu.Unlock()
}

// ---------------------------------------------------------------- nbhttp clients

type cbRec struct {
	local string // local address of the connection the callback was handed (key of the TLS record tracker)
	n     int32
	st    int
	hdr   http.Header
	body  []byte
	err   error
	mu    sync.Mutex
	late  []string // what later invocations (there must be none) were handed
}

// cbFunc: the callback of one request.  The first invocation is the result; every further one is recorded.
func cbFunc(rec *cbRec, done *int32, progress chan struct{}) func(res *http.Response, conn net.Conn, err error) {
	return cbFuncP(rec, done, progress, false)
}

// cbFuncP: with panics == true the callback panics at the end of its first invocation (user code that panics: the
// invocation counts, and it must not make the client invoke this or any other callback a second time)
func cbFuncP(rec *cbRec, done *int32, progress chan struct{}, panics bool) func(res *http.Response, conn net.Conn, err error) {
	return func(res *http.Response, conn net.Conn, err error) {
		first := atomic.LoadInt32(&rec.n) == 0
		defer func() {
			if panics && first {
				panic("he2e: this callback panics")
			}
		}()
		if atomic.AddInt32(&rec.n, 1) == 1 {
			rec.err = err
			rec.local = localOf(conn)
			if err == nil && res != nil {
				rec.st = res.StatusCode
				rec.hdr = res.Header.Clone()
				if res.Body != nil {
					rec.body, _ = io.ReadAll(res.Body)
				}
			} else if err == nil {
				rec.err = errors.New("nil response and nil error")
			}
			atomic.AddInt32(done, 1)
		} else {
			what := "an error"
			if err == nil && res != nil {
				what = "a response tagged " + res.Header.Get("X-Tag")
			}
			rec.mu.Lock()
			rec.late = append(rec.late, what)
			rec.mu.Unlock()
		}
		select {
		case progress <- struct{}{}:
		default:
		}
	}
}

// again: true as soon as some callback was invoked more than once (no point in waiting for the rest)
func again(recs []*cbRec) bool {
	for _, r := range recs {
		if atomic.LoadInt32(&r.n) > 1 {
			return true
		}
	}
	return false
}

// deadAddr: a loopback port nobody listens on (reserved once, then released)
var (
	deadOnce sync.Once
	deadA    string
)

func deadAddr() string {
	deadOnce.Do(func() {
		ln, err := net.Listen("tcp", "127.0.0.1:0")
		if err != nil {
			deadA = "127.0.0.1:1"
			return
		}
		deadA = ln.Addr().String()
		_ = ln.Close()
	})
	return deadA
}

type dialTimeoutErr struct{}

func (dialTimeoutErr) Error() string   { return "i/o timeout" }
func (dialTimeoutErr) Timeout() bool   { return true }
func (dialTimeoutErr) Temporary() bool { return true }

// dialer: the public Dial hook of ClientConn / Client.  The first h.dialFail attempts fail — with a genuine
// ECONNREFUSED from a dead port or with a dial timeout —, later ones reach the address asked for.
func (h *hist) dialer() func(network, addr string) (net.Conn, error) {
	if h.dialFail <= 0 {
		return nil
	}
	var n int32
	return func(network, addr string) (net.Conn, error) {
		if int(atomic.AddInt32(&n, 1)) <= h.dialFail {
			if h.dialKind == "timeout" {
				return nil, &net.OpError{Op: "dial", Net: network, Err: dialTimeoutErr{}}
			}
			c, err := net.DialTimeout(network, deadAddr(), 3*time.Second)
			if err == nil { // somebody took the port meanwhile
				_ = c.Close()
				err = &net.OpError{Op: "dial", Net: network, Err: errors.New("connection refused (synthetic)")}
			}
			return nil, err
		}
		return net.DialTimeout(network, addr, 10*time.Second)
	}
}

func (s *server) runNbc(h *hist) {
	cc := &nbhttp.ClientConn{Engine: s.cli, Timeout: 40 * time.Second, Dial: h.dialer()}
	if h.to0 {
		cc.Timeout = 0
	}
	if s.cell.tls {
		cc.TLSClientConfig = cliTLS()
	}
	n := len(h.reqs)
	recs := make([]*cbRec, n)
	var done int32
	progress := make(chan struct{}, 4*n+4)
	for i := range recs {
		recs[i] = &cbRec{}
	}
	for i, r := range h.reqs {
		if r.sync {
			dl := time.After(ioTimeout)
			for int(atomic.LoadInt32(&done)) < i {
				select {
				case <-progress:
				case <-dl:
					h.fail(true, "c10-client-callback", "no callback for request %d within %v", h.reqs[atomic.LoadInt32(&done)].rid, ioTimeout)
					goto collect
				}
			}
		}
		{
			rec := recs[i]
			cc.Do(s.httpRequest(h.cid, r), cbFuncP(rec, &done, progress, h.cbPanic == i+1))
		}
	}
collect:
	{
		dl := time.After(ioTimeout)
		for int(atomic.LoadInt32(&done)) < n && !h.soft && !again(recs) {
			select {
			case <-progress:
			case <-dl:
				h.fail(true, "c10-client-callback", "callback of request %d not invoked within %v", h.reqs[atomic.LoadInt32(&done)].rid, ioTimeout)
				goto closeit
			}
		}
	}
closeit:
	if again(recs) {
		time.Sleep(300 * time.Millisecond) // let the rest of the damage show (e.g. the response going to a stale callback)
	}
	h.guarded("ClientConn.Close", cc.Close)
	time.Sleep(2 * time.Millisecond) // a late second invocation would show up in the counters below
	h.finishCallbacksAt(recs, true, h.dialFail)
}

func (h *hist) finishCallbacks(recs []*cbRec, ordered bool) { h.finishCallbacksAt(recs, ordered, 0) }

// finishCallbacksFrom: the requests from index `from` on form a pipelined history of their own (nbx)
func (h *hist) finishCallbacksFrom(recs []*cbRec, from int) { h.finishCallbacksAt(recs, true, from) }

func (h *hist) finishCallbacksAt(recs []*cbRec, ordered bool, from int) {
	seenErr := false
	// the exchange of request k is healthy — the callback must get the response, not an error — as long as
	// no earlier request of a pipelined history ended the connection (RFC rule, in-domain values only)
	healthy := true
	burst := 0 // response bytes that can be in flight together with the current one (since the last sync point)
	if !ordered {
		// pool client: it hands a connection back to the pool even after a Connection: close exchange, so requests
		// that run concurrently with (or right after) a closing one may be written to a dying connection and fail —
		// an error the property allows.  The strict test applies to histories whose only closing request is the last.
		for i, r := range h.reqs {
			if persist, dom := rfcPersists(r); (!dom || !persist) && i+1 < len(h.reqs) {
				healthy = false
			}
		}
		if n := len(h.reqs); n > 0 && !h.reqs[n-1].sync {
			healthy = false
		}
	}
	for i, r := range h.reqs {
		if i < from {
			continue
		}
		if rec := recs[i]; atomic.LoadInt32(&rec.n) >= 1 && rec.err != nil && healthy && !h.soft {
			if _, ok := served.Load(servedKey(h.cid, r.rid)); ok {
				// classification of the one known cause that is not in the HTTP layer: in LT mode the poller reads at most
				// MaxConnReadTimesPerEventLoop x ReadBufferSize (3 x 64 KiB) per event and then acts on EPOLLRDHUP — a burst
				// larger than that which is followed by the peer's close loses its tail (C02, candidate defect #5)
				class := ""
				if persist, _ := rfcPersists(r); !persist && h.cliEpoll == "lt" && burst+r.sz > ltBurstCap {
					class = " class=lt-burst-close"
				}
				// the TLS dependency dropped the plaintext in front of a close_notify whose record arrived in two reads
				// (observed on this very connection by the record tracker, not inferred)
				if tlsAlertSplit(rec.local) {
					class = " class=tls-alert-split"
				}
				// reported only if it happens again when the case is re-run: rare transport-level races (e.g. a stale epoll
				// event of a closed connection hitting the connection that reuses its descriptor number) also end an
				// exchange with an error, which the property allows; the deterministic causes survive the re-runs
				h.fail(true, "c10-client-callback", "lost-response%s: callback of request %d got error %q although the server answered it on a healthy loopback connection (timeout0=%v, client epoll=%s, burst=%d)",
					class, r.rid, rec.err.Error(), h.to0, h.cliEpoll, burst+r.sz)
			}
		}
		if r.sync || !ordered {
			burst = 0
		}
		burst += r.sz
		if ordered {
			if persist, dom := rfcPersists(r); !dom || !persist {
				healthy = false
			}
		}
	}
	for i, r := range h.reqs {
		rec := recs[i]
		res := h.res[r.rid]
		res.closed = "x"
		res.cb = int(atomic.LoadInt32(&rec.n))
		if res.cb != 1 {
			rec.mu.Lock()
			late := strings.Join(rec.late, "; ")
			rec.mu.Unlock()
			if late != "" {
				late = " (further invocations got: " + late + ")"
			}
			h.fail(res.cb == 0 && !again(recs), "c10-client-callback", "callback of request %d invoked %d times%s", r.rid, res.cb, late)
		}
		if i < from {
			if res.cb >= 1 && rec.err == nil {
				h.fail(false, "c10-client-callback", "request %d, which never reached a server (dial failed / its connection was dropped), was handed a response tagged %q",
					r.rid, rec.hdr.Get("X-Tag"))
			}
			continue
		}
		if res.cb >= 1 && rec.err == nil {
			h.got++
			if ordered && seenErr {
				h.fail(false, "c10-client-callback", "request %d got a response after an earlier pipelined request got an error", r.rid)
			}
			h.checkResponseCB(r, rec, res)
		} else if res.cb >= 1 {
			seenErr = true
			if os.Getenv("HE2E_LOG") != "" {
				fmt.Fprintf(os.Stderr, "cid=%d rid=%d callback error: %v\n", h.cid, r.rid, rec.err)
			}
		}
	}
}

func (h *hist) checkResponseCB(r *reqSpec, rec *cbRec, res *result) {
	before := len(h.fails)
	h.checkResponse(r, rec.st, rec.hdr, rec.body, res)
	if rec.st != r.st {
		h.fail(false, "c10-order", "response to request %d has status %d, handler set %d", r.rid, rec.st, r.st)
	}
	// a mismatch seen through the client is (also) the client handing the wrong response to the callback
	for _, f := range h.fails[before:] {
		if strings.Contains(f, "carries tag") {
			h.fail(false, "c10-client-callback", "callback of request %d received a response that is not the one to its request (X-Tag %q)", r.rid, rec.hdr.Get("X-Tag"))
			break
		}
	}
}

func (s *server) runNbcli(h *hist) {
	poolMax := 3
	if h.poolMax > 0 {
		poolMax = h.poolMax
	}
	cl := &nbhttp.Client{Engine: s.cli, Timeout: 40 * time.Second, MaxConnsPerHost: int32(poolMax), Dial: h.dialer()}
	defer func() {
		// at most MaxConnsPerHost ClientConns, one exchange each: never more requests of this client in their handlers
		if m := inflTake(h.cid); m > poolMax {
			h.fail(false, "c10-client-pool", "%d requests of one nbhttp.Client were being handled by the server at the same time, MaxConnsPerHost = %d", m, poolMax)
		}
	}()
	if s.cell.tls {
		cl.TLSClientConfig = cliTLS()
	}
	n := len(h.reqs)
	recs := make([]*cbRec, n)
	var done int32
	progress := make(chan struct{}, 4*n+4)
	for i := range recs {
		recs[i] = &cbRec{}
	}
	for i, r := range h.reqs {
		if r.sync {
			dl := time.After(ioTimeout)
			for int(atomic.LoadInt32(&done)) < i {
				select {
				case <-progress:
				case <-dl:
					h.fail(true, "c10-client-callback", "no callback within %v (%d of %d done)", ioTimeout, atomic.LoadInt32(&done), i)
					goto collect
				}
			}
		}
		{
			rec := recs[i]
			cl.Do(s.httpRequest(h.cid, r), cbFunc(rec, &done, progress))
		}
	}
collect:
	{
		dl := time.After(ioTimeout)
		for int(atomic.LoadInt32(&done)) < n && !h.soft && !again(recs) {
			select {
			case <-progress:
			case <-dl:
				h.fail(true, "c10-client-callback", "callbacks missing after %v (%d of %d done)", ioTimeout, atomic.LoadInt32(&done), n)
				goto closeit
			}
		}
	}
closeit:
	if again(recs) {
		time.Sleep(300 * time.Millisecond)
	}
	h.guarded("Client.Close", cl.Close)
	time.Sleep(2 * time.Millisecond)
	h.finishCallbacksAt(recs, false, h.dialFail)
}

// ---------------------------------------------------------------- nbhttp ClientConn under a forced schedule
//
// nbx: the cross-connection scenario of the client FIFO.  The client engine's executor is a gate (public
// Config.ServerExecutor), so the response jobs of the first connection are parsed and queued but not run;
// then the write of request `failAt` fails (its body reader errors), which makes the ClientConn drop that
// connection; the following requests dial a second connection; then the gate opens and the first
// connection's response jobs and close notification run.  Every callback must still be invoked exactly
// once, the ones before/at the failure with an error, the later ones with their own responses.

type gate struct {
	mu   sync.Mutex
	open bool
	held []func()
}

func (g *gate) exec(f func()) {
	g.mu.Lock()
	if !g.open {
		g.held = append(g.held, f)
		g.mu.Unlock()
		return
	}
	g.mu.Unlock()
	go f()
}

func (g *gate) heldN() int { g.mu.Lock(); defer g.mu.Unlock(); return len(g.held) }

func (g *gate) release() {
	g.mu.Lock()
	g.open = true
	held := g.held
	g.held = nil
	g.mu.Unlock()
	for _, f := range held {
		f() // in submission order
	}
}

type failReader struct{ left int }

var errBodyFailed = errors.New("he2e: request body reader failed")

func (r *failReader) Read(p []byte) (int, error) {
	if r.left <= 0 {
		return 0, errBodyFailed
	}
	n := r.left
	if n > len(p) {
		n = len(p)
	}
	for i := 0; i < n; i++ {
		p[i] = 'x'
	}
	r.left -= n
	return n, nil
}

func (s *server) runNbx(h *hist) {
	gt := &gate{}
	mod, oneshot, async := epollConf(s.cell.epoll)
	nbxConf := nbhttp.Config{NPoller: 1, EpollMod: mod, EPOLLONESHOT: oneshot, AsyncReadInPoller: async, ServerExecutor: gt.exec}

	eng := nbhttp.NewEngine(nbxConf)
	if err := eng.Start(); err != nil {
		h.fail(true, "c10-client-callback", "client engine start: %v", err)
		return
	}
	defer func() {
		done := make(chan struct{})
		go func() { eng.Stop(); close(done) }()
		select {
		case <-done:
		case <-time.After(3 * time.Second):
		}
	}()
	cc := &nbhttp.ClientConn{Engine: eng, Timeout: 40 * time.Second}
	if s.cell.tls {
		cc.TLSClientConfig = cliTLS()
	}
	n := len(h.reqs)
	recs := make([]*cbRec, n)
	var done int32
	progress := make(chan struct{}, 4*n+4)
	for i := range recs {
		recs[i] = &cbRec{}
	}
	do := func(i int, req *http.Request) {
		rec := recs[i]
		cc.Do(req, cbFunc(rec, &done, progress))
	}
	for i, r := range h.reqs {
		switch {
		case i < h.failAt:
			do(i, s.httpRequest(h.cid, r))
		case i == h.failAt:
			// wait until the responses of the first connection are parsed and their job is held by the gate
			for t0 := time.Now(); h.failAt > 0 && gt.heldN() == 0; {
				if time.Since(t0) >= 5*time.Second {
					markLate("nbx-gate-wait")
					break
				}
				time.Sleep(200 * time.Microsecond)
			}
			if h.failAt > 0 {
				time.Sleep(2 * time.Millisecond) // let pipelined followers of the first response arrive too
			}
			req := s.httpRequest(h.cid, r)
			req.Method = "POST"
			req.Body = io.NopCloser(&failReader{left: 100})
			req.ContentLength = -1
			do(i, req)
		default:
			do(i, s.httpRequest(h.cid, r))
		}
	}
	gt.release()
	dl := time.After(ioTimeout)
	for int(atomic.LoadInt32(&done)) < n {
		select {
		case <-progress:
		case <-dl:
			h.fail(true, "c10-client-callback", "callback of request %d not invoked within %v", h.reqs[atomic.LoadInt32(&done)].rid, ioTimeout)
			goto closeit
		}
	}
closeit:
	h.guarded("ClientConn.Close", cc.Close)
	time.Sleep(2 * time.Millisecond)
	// requests up to the failing one must have got an error, the later ones are a fresh pipelined history
	for i := 0; i <= h.failAt && i < n; i++ {
		if rec := recs[i]; atomic.LoadInt32(&rec.n) >= 1 && rec.err == nil {
			// a response to a request before the failure may legitimately have been delivered only if its job ran
			// before the gate closed — the gate is closed from the start, so this is a response handed over late
			h.fail(false, "c10-client-callback", "request %d (written to the connection that was dropped) got a response after the drop", h.reqs[i].rid)
		}
	}
	sub := &hist{cid: h.cid, kind: h.kind, reqs: h.reqs, res: h.res}
	sub.finishCallbacksFrom(recs, h.failAt+1)
	h.fails = append(h.fails, sub.fails...)
	h.got = sub.got
}

// ---------------------------------------------------------------- TLS record tracker (client side reads)
//
// The TLS dependency (llib v1.2.4, std/crypto/tls Conn.AppendAndRead / Read) peeks at the record behind the last
// application-data record: if it is an alert it is consumed at once so that (n, EOF) can be returned.  When only a
// PART of that alert record has arrived the non-blocking branch returns (0, nil) — although the n plaintext bytes were
// already taken out of the input buffer and copied to the caller: up to 16 KiB of plaintext vanish, and the nbhttp
// client reports EOF for a response that was sent completely.  The trigger is a read(2) that ends inside the 23-byte
// alert record (the ciphertext in front of it fills the read buffer to within 22 bytes).  That is a defect outside
// nbio with no repair inside nbio (TLSDataHandler cannot know n), recorded as known finding
// c10-tls-alert-split-drops-tail.  To tag exactly these events — and no other loss on a TLS connection — the
// executor follows the record framing (the 5-byte headers are plaintext) of every stream nbio reads from a real
// descriptor and remembers, per connection (local address), whether a read ended inside an alert record.

type tlsTrack struct {
	local string
	hdr   [5]byte
	hn    int  // header bytes collected of the current record
	rem   int  // body bytes of the current record still to come
	typ   byte // type of the record whose body is being read
	dead  bool // not a TLS stream / framing lost
	split bool // a read ended inside an alert record
}

var (
	tlsMu      sync.Mutex
	tlsByFd    = map[int]*tlsTrack{}
	tlsByLocal = map[string]*tlsTrack{}
	tlsWatch   int32 // 1 while a TLS cell runs
)

func localOf(c net.Conn) (s string) {
	defer func() { _ = recover() }()
	if c == nil {
		return ""
	}
	if a := c.LocalAddr(); a != nil {
		return a.String()
	}
	return ""
}

func fdLocal(fd int) string {
	sa, err := syscall.Getsockname(fd)
	if err != nil {
		return ""
	}
	switch a := sa.(type) {
	case *syscall.SockaddrInet4:
		return net.JoinHostPort(net.IP(a.Addr[:]).String(), strconv.Itoa(a.Port))
	case *syscall.SockaddrInet6:
		return net.JoinHostPort(net.IP(a.Addr[:]).String(), strconv.Itoa(a.Port))
	}
	return ""
}

func tlsOnRead(fd int, b []byte, n int, err error) {
	if atomic.LoadInt32(&tlsWatch) == 0 || n <= 0 {
		return
	}
	tlsMu.Lock()
	defer tlsMu.Unlock()
	t := tlsByFd[fd]
	if t == nil {
		t = &tlsTrack{local: fdLocal(fd)}
		tlsByFd[fd] = t
		if t.local != "" {
			tlsByLocal[t.local] = t
		}
		// nbio's first read of a stream is at a record boundary: the ClientHello on the server side, the first record
		// after the handshake on the client side (ClientConn.Do shakes hands on the blocking net.Conn before it hands the
		// descriptor to nbio, and the server sends nothing more until it gets a request); anything else is not TLS
		if b[0] < 20 || b[0] > 23 {
			t.dead = true
		}
	}
	if t.dead {
		return
	}
	for i := 0; i < n; {
		if t.rem == 0 {
			k := copy(t.hdr[t.hn:], b[i:n])
			t.hn += k
			i += k
			if t.hn == 5 {
				t.typ = t.hdr[0]
				t.rem = int(t.hdr[3])<<8 | int(t.hdr[4])
				t.hn = 0
				if t.typ < 20 || t.typ > 23 || t.hdr[1] != 3 || t.rem > 16384+2048 {
					t.dead = true
					return
				}
			}
			continue
		}
		k := n - i
		if k > t.rem {
			k = t.rem
		}
		t.rem -= k
		i += k
	}
	// where did this read end?
	if (t.hn > 0 && t.hdr[0] == 21) || (t.rem > 0 && t.typ == 21) {
		t.split = true
	}
}

func tlsOnClose(fd int) {
	tlsMu.Lock()
	delete(tlsByFd, fd)
	tlsMu.Unlock()
}

// tlsAlertSplit: did a read of the connection with this local address end inside an alert record?
func tlsAlertSplit(local string) bool {
	if local == "" {
		return false
	}
	tlsMu.Lock()
	defer tlsMu.Unlock()
	t := tlsByLocal[local]
	return t != nil && !t.dead && t.split
}

func tlsTrackReset(on bool) {
	tlsMu.Lock()
	tlsByFd = map[int]*tlsTrack{}
	tlsByLocal = map[string]*tlsTrack{}
	tlsMu.Unlock()
	v := int32(0)
	if on {
		v = 1
	}
	atomic.StoreInt32(&tlsWatch, v)
}

// ---------------------------------------------------------------- executor

// degraded: set once a case of this process has reported an oracle failure
var degraded bool

func setDegraded() {
	degraded = true
	if ioTimeout > 5*time.Second {
		ioTimeout = 5 * time.Second
	}
}

// maxAttempts: re-runs of a case whose only failures are of the timing kind
var maxAttempts = 2

// ---------------------------------------------------------------- environment canary
//
// Every liveness observation of this harness is a time-out, and a time-out cannot tell "the code under test lost a
// wake-up" from "this process did not run" (a frozen or migrated VM, a clock jump that fires all pending timers at
// once, memory thrashing, a machine loaded far beyond its cores).  The canary measures the second alternative
// directly: a goroutine that sleeps 10 ms in a loop and records how late it wakes, plus the kernel's memory / io
// stall counters (PSI).  A failure observed in an attempt during which the canary saw a stall is not a statement
// about nbio: the case is run again once the canary is calm, and if the environment never calms down the case is
// printed as skipped (and counted in coverage group "env") rather than reported.  On a calm machine nothing changes:
// a hang of the code under test leaves the canary punctual, so the failure is reported as before.

const (
	envTick      = 10 * time.Millisecond
	envLate      = 1 * time.Second  // a 10 ms sleep that took this much longer: the process did not run
	envPSIMemory = 1 * time.Second  // tasks stalled on memory for this long during one attempt
	envPSIIO     = 3 * time.Second  // all tasks stalled on io for this long during one attempt
	envReruns    = 4                // re-runs of one case on account of the environment
	envCalmWait  = 60 * time.Second // how long to wait for the canary to become punctual again
)

type envMonT struct {
	mu      sync.Mutex
	started bool
	worst   time.Duration // worst lateness since the last mark
}

type envMark struct{ mem, io int64 }

var envMon envMonT

func (m *envMonT) start() {
	m.mu.Lock()
	if m.started {
		m.mu.Unlock()
		return
	}
	m.started = true
	m.mu.Unlock()
	note := func(late time.Duration) {
		m.mu.Lock()
		if late > m.worst {
			m.worst = late
		}
		m.mu.Unlock()
	}
	// canary 1: a sleeping goroutine — late when the process (or the Go scheduler's timers) did not run
	go func() {
		for {
			t0 := time.Now()
			time.Sleep(envTick)
			note(time.Since(t0) - envTick)
		}
	}()
	// canary 2: one byte echoed over a loopback connection of package net (no nbio involved) — late when the
	// kernel's loopback path or the runtime's netpoller did not run
	ln, err := net.Listen("tcp", "127.0.0.1:0")
	if err != nil {
		return
	}
	go func() {
		c, err := ln.Accept()
		_ = ln.Close()
		if err != nil {
			return
		}
		b := make([]byte, 1)
		for {
			if _, err := io.ReadFull(c, b); err != nil {
				return
			}
			if _, err := c.Write(b); err != nil {
				return
			}
		}
	}()
	go func() {
		c, err := net.Dial("tcp", ln.Addr().String())
		if err != nil {
			return
		}
		b := make([]byte, 1)
		for {
			time.Sleep(5 * envTick)
			t0 := time.Now()
			if _, err := c.Write(b); err != nil {
				return
			}
			if _, err := io.ReadFull(c, b); err != nil {
				return
			}
			note(time.Since(t0))
		}
	}()
}

// psiTotal: the "total=" stall time (microseconds) of the given line kind of /proc/pressure/<what>; -1 if unavailable
func psiTotal(what, kind string) int64 {
	b, err := os.ReadFile("/proc/pressure/" + what)
	if err != nil {
		return -1
	}
	for _, l := range strings.Split(string(b), "\n") {
		if strings.HasPrefix(l, kind+" ") {
			if i := strings.Index(l, "total="); i >= 0 {
				if n, err := strconv.ParseInt(strings.TrimSpace(l[i+6:]), 10, 64); err == nil {
					return n
				}
			}
		}
	}
	return -1
}

func (m *envMonT) mark() envMark {
	m.start()
	m.mu.Lock()
	m.worst = 0
	m.mu.Unlock()
	return envMark{mem: psiTotal("memory", "some"), io: psiTotal("io", "full")}
}

// stalledSince: did the environment keep this process from running at some point since the mark?
func (m *envMonT) stalledSince(mk envMark) (bool, string) {
	m.mu.Lock()
	worst := m.worst
	m.mu.Unlock()
	if worst >= envLate {
		return true, fmt.Sprintf("timer-late-%dms", worst.Milliseconds())
	}
	if now := psiTotal("memory", "some"); mk.mem >= 0 && now >= 0 && time.Duration(now-mk.mem)*time.Microsecond >= envPSIMemory {
		return true, fmt.Sprintf("memory-stall-%dms", (now-mk.mem)/1000)
	}
	if now := psiTotal("io", "full"); mk.io >= 0 && now >= 0 && time.Duration(now-mk.io)*time.Microsecond >= envPSIIO {
		return true, fmt.Sprintf("io-stall-%dms", (now-mk.io)/1000)
	}
	return false, ""
}

// describe: what the canary saw since the mark (appended to reported failures for triage)
func (m *envMonT) describe(mk envMark) string {
	d := func(a, b int64) int64 {
		if a < 0 || b < 0 {
			return -1
		}
		return (b - a) / 1000
	}
	return fmt.Sprintf("[env: canary-late<=%dms memory-stall=%dms io-stall=%dms]", m.worstNow().Milliseconds(),
		d(mk.mem, psiTotal("memory", "some")), d(mk.io, psiTotal("io", "full")))
}

// waitCalm: wait (bounded) until the canary has been punctual for two seconds in a row
func (m *envMonT) waitCalm() {
	calm := 0
	for t0 := time.Now(); time.Since(t0) < envCalmWait && calm < 2; {
		mk := m.mark()
		time.Sleep(time.Second)
		if st, _ := m.stalledSince(mk); st {
			calm = 0
		} else if m.worstNow() < envLate/4 {
			calm++
		} else {
			calm = 0
		}
	}
}

func (m *envMonT) worstNow() time.Duration {
	m.mu.Lock()
	defer m.mu.Unlock()
	return m.worst
}

// Late fallbacks.  A few printed lines are not observations but what the executor falls back to when an observation did
// not arrive within its patience (the pool case's G op printing "blocked" because getConn had neither returned nor could
// block according to the bookkeeping; the raw client printing closed=0 because no EOF arrived within the close wait and no
// oracle judges that request; an engine that could not be started).  No oracle fires for them, so neither the re-run rule
// nor the canary rule above would look at the attempt, and the line would go to the comparison as if it had been observed.
// Every such fallback calls markLate: the attempt is discarded and the case run again when the machine is calm, whatever
// the canary says; a case whose fallback fires in every attempt is printed as skipped and counted (coverage group env),
// never judged.
var (
	lateMu    sync.Mutex
	lateNotes []string
)

func markLate(what string) {
	lateMu.Lock()
	lateNotes = append(lateNotes, what)
	lateMu.Unlock()
}

func takeLate() []string {
	lateMu.Lock()
	defer lateMu.Unlock()
	l := lateNotes
	lateNotes = nil
	return l
}

// skipCase: the case could not be evaluated in this environment; one result line per op keeps the protocol aligned
// (the model answers bad-op to the unknown op as well)
func skipCase(e *lp.Exec, lines []string, why string) {
	for _, l := range lines {
		e.P("> skipped %s %s", why, l)
		e.P("bad-op")
	}
	e.Count("env", "case-skipped")
}

type caseT struct {
	lines []string // original op lines of the case, in order
	cell  cellT
	hists map[int]*hist
	order []*hist
}

func parseCase(lines []string) (*caseT, error) {
	c := &caseT{lines: lines, hists: map[int]*hist{}}
	for _, line := range lines {
		f := strings.Fields(line)
		switch f[0] {
		case "C":
			if len(f) < 4 {
				return nil, fmt.Errorf("bad C line")
			}
			c.cell = cellT{iomod: f[1], tls: f[2] == "1", epoll: f[3], maxblk: kvi(f, "maxblk"), rbuf: kvi(f, "rbuf")}
			switch c.cell.iomod {
			case "nb", "bl", "mx":
			default:
				return nil, fmt.Errorf("bad iomod")
			}
			switch c.cell.epoll {
			case "lt", "et", "os", "eta", "osa":
			default:
				return nil, fmt.Errorf("bad epoll mode")
			}
		case "K":
			if len(f) < 3 {
				return nil, fmt.Errorf("bad K line")
			}
			cid, _ := strconv.Atoi(f[1])
			h := &hist{cid: cid, kind: f[2], slow: kvi(f, "slow"), seg: kv(f, "seg") == "1", to0: kv(f, "to0") == "1", failAt: kvi(f, "fail"), dialFail: kvi(f, "dialfail"), dialKind: kv(f, "dialkind"), cbPanic: kvi(f, "cbpanic"), abortAt: kvi(f, "abort"), poolMax: kvi(f, "pool"), xclose: kvi(f, "xclose"), sndbuf: kvi(f, "sndbuf"), res: map[int]*result{}}
			switch h.kind {
			case "raw", "std", "nbc", "nbcli", "nbx":
			default:
				return nil, fmt.Errorf("bad kind")
			}
			c.hists[cid] = h
			c.order = append(c.order, h)
		case "Q":
			if len(f) < 4 {
				return nil, fmt.Errorf("bad Q line")
			}
			cid, _ := strconv.Atoi(f[1])
			h := c.hists[cid]
			if h == nil {
				return nil, fmt.Errorf("Q without K")
			}
			r := parseQ(f)
			idx := len(h.reqs)
			r.xc = h.xclose > 0 && idx == h.xclose-1
			if h.sndbuf > 0 {
				if idx == 0 {
					r.sb = h.sndbuf
				}
				r.ob = r.sz >= 65536 && r.fr == "cl" && r.w == 1 && r.method == "GET"
			}
			h.reqs = append(h.reqs, r)
		default:
			return nil, fmt.Errorf("unknown op")
		}
	}
	return c, nil
}

// freshHist: a copy of the static part of h with empty results — every attempt runs on its own copy, so a client
// call that never returns (and the goroutine stuck in it) cannot touch what a later attempt or the printer reads
func freshHist(h *hist, cliEpoll string) *hist {
	cl := &hist{cid: h.cid, kind: h.kind, slow: h.slow, seg: h.seg, to0: h.to0, dialFail: h.dialFail, dialKind: h.dialKind, cbPanic: h.cbPanic, abortAt: h.abortAt, poolMax: h.poolMax, xclose: h.xclose, sndbuf: h.sndbuf,
		failAt: h.failAt, reqs: h.reqs, res: map[int]*result{}, cut: -1, cliEpoll: cliEpoll}
	for _, r := range h.reqs {
		cl.res[r.rid] = &result{cb: -1}
	}
	return cl
}

func (c *caseT) runOnce() error {
	s, err := getServer(c.cell)
	if err != nil {
		return err
	}
	tlsTrackReset(c.cell.tls)
	type run struct {
		h, clone *hist
		done     chan struct{}
	}
	var runs []*run
	for _, h := range c.order {
		cl := freshHist(h, c.cell.epoll)
		if len(h.reqs) == 0 {
			*h = *cl
			continue
		}
		r := &run{h: h, clone: cl, done: make(chan struct{})}
		runs = append(runs, r)
		hlogTake(h.cid) // entries of an earlier attempt
		inflTake(h.cid)
		go func(h *hist, done chan struct{}) {
			defer close(done)
			defer func() {
				if e := recover(); e != nil {
					h.fail(false, "c10-order", "harness client panicked: %v", e)
				}
			}()
			defer h.checkHandlers()
			switch h.kind {
			case "raw":
				s.runRaw(h)
			case "std":
				s.runStd(h)
			case "nbc":
				s.runNbc(h)
			case "nbcli":
				s.runNbcli(h)
			case "nbx":
				s.runNbx(h)
			}
		}(cl, r.done)
	}
	// watchdog: every client step has its own time-out, so a history that is still running after several of them
	// sits in a call of the code under test that does not return
	budget := 6 * ioTimeout
	timer := time.NewTimer(budget)
	defer timer.Stop()
	expired := false
	for _, r := range runs {
		if !expired {
			select {
			case <-r.done:
			case <-timer.C:
				expired = true
			}
		}
		select {
		case <-r.done:
			*r.h = *r.clone
		default:
			ph := freshHist(r.h, c.cell.epoll)
			ph.fail(false, "c10-order", "watchdog: the history did not finish within %v — a client call into the code under test does not return", budget)
			*r.h = *ph
		}
	}
	return nil
}

// guarded: run f (a Close of the code under test) but do not wait for it forever
func (h *hist) guarded(what string, f func()) {
	done := make(chan struct{})
	go func() { defer close(done); f() }()
	select {
	case <-done:
	case <-time.After(5 * time.Second):
		h.fail(false, "c10-client-callback", "%s did not return within 5s", what)
	}
}

func sizeClass(n int) string {
	switch {
	case n == 0:
		return "0"
	case n < 4096:
		return "s"
	case n < 60000:
		return "m"
	case n < 70000:
		return "t" // around the 64 KiB threshold
	default:
		return "l"
	}
}

// ---------------------------------------------------------------- pool bookkeeping case (model ClientPool)
//
//	C pool max=<m> timeout=<ms>
//	G          a request enters getConn            -> got c=<id> new=<0|1> reset=<0|1> | blocked r=<request>
//	R <c>      the callback on ClientConn c runs   -> ok handoff=<request>:<c>:<reset>|- | bad-release
//	X <c>      ClientConn c is marked closed       -> ok | bad-conn
//	T          the oldest blocked request times out-> timeout r=<request> | none
//	S          observation                         -> state count=<n> idle=<n> busy=<sorted ids> waiting=<requests>
//
// Sequential in-process drive of the real hostConns through the hook nbhttp.VerifPool (no network).

type poolGet struct {
	r     int
	done  chan struct{}
	hc    *nbhttp.ClientConn
	reset bool
	err   error
}

// runPoolCase: the pool case observes blocking and time-outs of getConn — timing by nature.  Its output is buffered;
// an attempt with an oracle report during which the environment canary saw a stall is discarded and run again.
func runPoolCase(e *lp.Exec, lines []string) {
	real := e.W
	defer func() { e.W = real }()
	for envRuns := 0; ; envRuns++ {
		var buf bytes.Buffer
		e.W = bufio.NewWriter(&buf)
		mk := envMon.mark()
		takeLate()
		key, nontrivial := runPoolOnce(e, lines)
		e.W.Flush()
		e.W = real
		if late := takeLate(); len(late) > 0 {
			e.Count("env", "late-fallback "+late[0])
			if envRuns >= envReruns {
				skipCase(e, lines, "late-"+late[0])
				return
			}
			envMon.waitCalm()
			continue
		}
		failed := bytes.Contains(buf.Bytes(), []byte("\n! oracle=")) || bytes.Contains(buf.Bytes(), []byte(" handoff=error:"))
		if failed {
			if stalled, why := envMon.stalledSince(mk); stalled {
				e.Count("env", "attempt-discarded")
				if envRuns >= envReruns {
					skipCase(e, lines, why)
					return
				}
				envMon.waitCalm()
				continue
			}
		}
		out := buf.Bytes()
		if failed {
			setDegraded()
			note := " " + envMon.describe(mk)
			var b bytes.Buffer
			for _, l := range strings.SplitAfter(buf.String(), "\n") {
				if strings.HasPrefix(l, "! ") {
					l = strings.TrimSuffix(l, "\n") + note + "\n"
				}
				b.WriteString(l)
			}
			out = b.Bytes()
		}
		real.Write(out)
		real.Flush()
		e.Count("cells", "pool")
		e.Key(key, nontrivial)
		return
	}
}

func runPoolOnce(e *lp.Exec, lines []string) (string, bool) {
	f0 := strings.Fields(lines[0])
	max, tmo := kvi(f0, "max"), kvi(f0, "timeout")
	if max <= 0 || tmo <= 0 {
		for _, l := range lines {
			e.P("> %s", l)
			e.P("bad-op")
		}
		return "pool/bad", false
	}
	pool := nbhttp.VerifNewPool(int32(max), time.Duration(tmo)*time.Millisecond)
	ids := map[*nbhttp.ClientConn]int{}
	var byID []*nbhttp.ClientConn
	busy := map[int]bool{}
	var waiting []*poolGet
	nreq := 0
	settle := 40 * time.Millisecond
	// generous waits cost time only on a failing tree — and there only until the first report (of this case or of an
	// earlier case of this process): after that the verdict is in and the remaining waits are short
	bad := degraded
	oracle := func(format string, a ...interface{}) {
		bad = true
		e.Oracle("c10-client-pool", format, a...)
	}
	patience := func(long, short time.Duration) time.Duration {
		if bad {
			return short
		}
		return long
	}
	idOf := func(hc *nbhttp.ClientConn) (int, int) {
		if id, ok := ids[hc]; ok {
			return id, 0
		}
		ids[hc] = len(byID)
		byID = append(byID, hc)
		return len(byID) - 1, 1
	}
	b2i := func(b bool) int {
		if b {
			return 1
		}
		return 0
	}
	e.P("> %s", lines[0])
	e.P("ok")
	var key strings.Builder
	fmt.Fprintf(&key, "pool/%d|", max)
	for _, line := range lines[1:] {
		f := strings.Fields(line)
		e.P("> %s", line)
		key.WriteString(f[0])
		switch f[0] {
		case "G":
			g := &poolGet{r: nreq, done: make(chan struct{})}
			nreq++
			go func() { g.hc, g.reset, g.err = pool.Get(); close(g.done) }()
			// "blocked" is reported only when the bookkeeping itself says nothing can be handed out (no free conn and
			// connNum at the limit); a getConn that is merely slow on a loaded machine is waited for
			isBlocked := false
			for t0 := time.Now(); ; {
				select {
				case <-g.done:
				case <-time.After(settle):
					cn, free, _ := pool.State()
					if free == 0 && cn >= max {
						// the goroutine may not have reached the channel yet; give it the time to park there
						time.Sleep(settle)
						select {
						case <-g.done:
						default:
							isBlocked = true
						}
					} else if time.Since(t0) < patience(5*time.Second, time.Second) {
						continue
					} else {
						// neither returned nor able to block: not an observation (on a tree that has already failed the
						// patience is short and the verdict is in: the line stays)
						if !bad {
							markLate("pool-get-slow")
						}
						isBlocked = true
					}
				}
				break
			}
			if isBlocked {
				waiting = append(waiting, g)
				e.P("blocked r=%d", g.r)
				continue
			}
			if g.err != nil {
				e.P("error %v", g.err)
				continue
			}
			id, isNew := idOf(g.hc)
			if busy[id] {
				oracle("ClientConn %d handed to request %d while it is still in use", id, g.r)
			}
			busy[id] = true
			e.P("got c=%d new=%d reset=%d", id, isNew, b2i(g.reset))
		case "R":
			id, _ := strconv.Atoi(f[1])
			if id < 0 || id >= len(byID) || !busy[id] {
				e.P("bad-release")
				continue
			}
			delete(busy, id)
			pool.Release(byID[id])
			if len(waiting) == 0 {
				e.P("ok handoff=-")
				continue
			}
			// whichever blocked request the runtime wakes (with one waiter — all the generator produces — it is the oldest)
			var w *poolGet
			wi := -1
			for t0, lim := time.Now(), patience(30*time.Second, 2*time.Second); w == nil && time.Since(t0) < lim; {
				for k, x := range waiting {
					select {
					case <-x.done:
						w, wi = x, k
					default:
					}
					if w != nil {
						break
					}
				}
				if w == nil {
					time.Sleep(200 * time.Microsecond)
				}
			}
			if w == nil {
				oracle("%d requests still blocked after ClientConn %d was released", len(waiting), id)
				e.P("ok handoff=stuck")
				continue
			}
			waiting = append(waiting[:wi], waiting[wi+1:]...)
			if w.err != nil {
				e.P("ok handoff=error:%v", w.err)
				continue
			}
			wid, _ := idOf(w.hc)
			if busy[wid] {
				oracle("ClientConn %d handed to request %d while it is still in use", wid, w.r)
			}
			busy[wid] = true
			e.P("ok handoff=%d:%d:%d", w.r, wid, b2i(w.reset))
		case "X":
			id, _ := strconv.Atoi(f[1])
			if id < 0 || id >= len(byID) {
				e.P("bad-conn")
				continue
			}
			pool.MarkClosed(byID[id])
			e.P("ok")
		case "T":
			if len(waiting) == 0 {
				e.P("none")
				continue
			}
			w := waiting[0]
			select {
			case <-w.done:
				waiting = waiting[1:]
				if w.err != nil {
					e.P("timeout r=%d", w.r)
				} else {
					e.P("unexpected-conn r=%d", w.r)
				}
			case <-time.After(time.Duration(tmo)*time.Millisecond + patience(20*time.Second, 2*time.Second)):
				// one-sided: the margin costs time only when the request really stays blocked; and a last look at the
				// channel — a clock jump fires both timers at once
				time.Sleep(200 * time.Millisecond)
				select {
				case <-w.done:
					waiting = waiting[1:]
					if w.err != nil {
						e.P("timeout r=%d", w.r)
					} else {
						e.P("unexpected-conn r=%d", w.r)
					}
				default:
					oracle("blocked request %d did not time out", w.r)
					e.P("stuck r=%d", w.r)
				}
			}
		case "S":
			cn, free, conns := pool.State()
			var bs []int
			for id := range busy {
				bs = append(bs, id)
			}
			sort.Ints(bs)
			var ws []string
			for _, w := range waiting {
				ws = append(ws, strconv.Itoa(w.r))
			}
			if cn > max || free+len(bs) != cn || conns != cn {
				oracle("bookkeeping broken: connNum=%d max=%d free=%d in use=%d conns map=%d", cn, max, free, len(bs), conns)
			}
			e.P("state count=%d idle=%d busy=%s waiting=%s", cn, free, joinInts(bs), strings.Join(append(ws, "-"), ","))
		default:
			e.P("bad-op")
		}
	}
	return key.String(), len(lines) > 6
}

func joinInts(xs []int) string {
	ss := []string{"-"}
	for _, x := range xs {
		ss = append(ss, strconv.Itoa(x))
	}
	return strings.Join(ss, ",")
}

func runCase(e *lp.Exec, lines []string) {
	if strings.HasPrefix(lines[0], "C pool ") {
		runPoolCase(e, lines)
		return
	}
	c, err := parseCase(lines)
	if err != nil {
		for _, l := range lines {
			e.P("> %s", l)
			e.P("bad-op")
		}
		return
	}
	envRuns := 0
	envNote := ""
	for attempt := 0; ; attempt++ {
		if degraded {
			attempt = maxAttempts // a failing input is already on record: no re-runs, short time-outs (see below)
		}
		mk := envMon.mark()
		takeLate()
		if err := c.runOnce(); err != nil {
			markLate("engine-start-failed")
		}
		if late := takeLate(); len(late) > 0 {
			e.Count("env", "late-fallback "+late[0])
			if envRuns >= envReruns {
				skipCase(e, lines, "late-"+late[0])
				return
			}
			envRuns++
			attempt--
			envMon.waitCalm()
			continue
		}
		soft := false
		hard := false
		for _, h := range c.order {
			if h.soft {
				soft = true
			}
			if len(h.fails) > 0 && !h.soft {
				hard = true
			}
		}
		// a failure of an attempt during which this process was kept from running (see the environment canary) says
		// nothing about the code under test: run the case again when the machine is calm, skip it if it never is
		if soft || hard {
			envNote = " " + envMon.describe(mk)
			if stalled, why := envMon.stalledSince(mk); stalled {
				e.Count("env", "attempt-discarded")
				if envRuns >= envReruns {
					skipCase(e, lines, why)
					return
				}
				envRuns++
				attempt--
				envMon.waitCalm()
				continue
			}
		}
		// timing-type failures (timeouts on a loaded machine) are re-run before they are reported;
		// content failures (order, foreign bytes, wrong close, callback count) are real events and reported at once
		if !soft || hard || attempt >= maxAttempts {
			break
		}
		e.Count("retries", "case")
		for _, h := range c.order {
			for _, f := range h.fails {
				w := strings.Fields(f)
				if len(w) > 3 {
					e.Count("transient", w[0]+" "+w[3]) // oracle name + first word of the report
				}
			}
		}
		time.Sleep(300 * time.Millisecond)
	}
	// print
	var key strings.Builder
	nontrivial := false
	for _, line := range lines {
		f := strings.Fields(line)
		switch f[0] {
		case "C":
			e.P("> %s", line)
			e.P("ok")
			fmt.Fprintf(&key, "%s/%s/%s|", f[1], f[2], f[3])
			e.Count("cells", f[1]+"/"+map[string]string{"0": "plain", "1": "tls"}[f[2]]+"/"+f[3])
		case "K":
			cid, _ := strconv.Atoi(f[1])
			h := c.hists[cid]
			if h.kind == "nbc" || h.kind == "nbx" {
				e.P("> %s got=%d", stripGot(line), h.got)
			} else if h.kind == "nbcli" {
				// requests whose callback got an error: environment input of the model (the property allows an error;
				// whether the error was warranted is the direct oracle's business)
				var lost []string
				for _, r := range h.reqs {
					if res := h.res[r.rid]; !res.answered {
						lost = append(lost, strconv.Itoa(r.rid))
					}
				}
				e.P("> %s lost=%s", stripGot(line), strings.Join(append(lost, "-"), ","))
			} else if h.kind == "raw" && h.cut >= 0 {
				e.P("> %s cut=%d", stripGot(line), h.cut)
			} else if h.kind == "raw" && h.short != "" {
				e.P("> %s short=%s", stripGot(line), h.short)
				e.Count("forced", "short-write-observed")
			} else {
				e.P("> %s", stripGot(line))
			}
			e.P("ok")
			e.Count("histories", h.kind)
			fmt.Fprintf(&key, "%s:", h.kind)
			if len(h.reqs) >= 3 {
				nontrivial = true
			}
		case "Q":
			cid, _ := strconv.Atoi(f[1])
			h := c.hists[cid]
			rid, _ := strconv.Atoi(f[2])
			r := h.res[rid]
			e.P("> %s", line)
			cb := "x"
			if r.cb >= 0 {
				cb = strconv.Itoa(r.cb)
			}
			switch {
			case r.bad != "" && r.bad != "tag":
				e.P("R %d bad=%s cb=%s", rid, r.bad, cb)
			case r.answered:
				e.P("R %d st=%d body=%s rb=%s closed=%s cb=%s", rid, r.st, r.body, r.rb, r.closed, cb)
				e.Count("requests", "answered")
			default:
				e.P("R %d none cb=%s", rid, cb)
				e.Count("requests", "unanswered")
			}
			q := parseQ(f)
			fmt.Fprintf(&key, "%s%s%s%s%d%v,", q.v, q.fr, sizeClass(q.sz), strings.ToLower(strings.Join(q.conn, "+")), q.w, q.sync)
			e.Count("framing", q.fr)
			e.Count("resp_size", sizeClass(q.sz))
			if q.sz >= 60000 || mayClose(q) {
				nontrivial = true
			}
		}
	}
	for _, h := range c.order {
		for _, f := range h.fails {
			e.P("! %s%s", f, envNote)
			if !degraded && !strings.Contains(f, " class=") { // classified reports are the recorded known findings
				// On a tree that fails, the remaining cases of this process are still run and reported, but a stall
				// no longer costs 3 x 25 s per case: the verdict is in, the rest is detail.
				setDegraded()
			}
		}
	}
	e.Key(key.String(), nontrivial)
}

func stripGot(line string) string {
	f := strings.Fields(line)
	out := f[:0]
	for _, t := range f {
		if !strings.HasPrefix(t, "got=") && !strings.HasPrefix(t, "lost=") && !strings.HasPrefix(t, "cut=") && !strings.HasPrefix(t, "short=") {
			out = append(out, t)
		}
	}
	return strings.Join(out, " ")
}

type quietLogger struct{}

func (quietLogger) Debug(f string, v ...interface{}) {
	if os.Getenv("HE2E_LOG") == "2" {
		fmt.Fprintf(os.Stderr, "nbio debug: "+f+"\n", v...)
	}
}
func (quietLogger) Info(string, ...interface{}) {}
func (quietLogger) Warn(string, ...interface{}) {}
func (quietLogger) Error(f string, v ...interface{}) {
	if os.Getenv("HE2E_LOG") != "" {
		fmt.Fprintf(os.Stderr, "nbio: "+f+"\n", v...)
	}
}

func exec(e *lp.Exec) {
	logging.SetLogger(quietLogger{})
	vsys.RealReadHook = tlsOnRead
	vsys.RealCloseHook = tlsOnClose
	defer stopServers()
	var lines []string
	ncases := 0
	for e.In.Scan() {
		line := e.In.Text()
		if strings.TrimSpace(line) == "" {
			continue
		}
		if strings.HasPrefix(line, "C ") {
			ncases++
		}
		lines = append(lines, line)
	}
	if ncases <= 1 && ioTimeout > 8*time.Second {
		// a single case is a replay, a shrinking step or a known-finding witness: short time-outs, one re-run
		ioTimeout = 8 * time.Second
		maxAttempts = 1
	}
	var cur []string
	flush := func() {
		if len(cur) > 0 {
			runCase(e, cur)
			cur = nil
		}
	}
	for _, line := range lines {
		if strings.HasPrefix(line, "C ") {
			flush()
		}
		if len(cur) == 0 && !strings.HasPrefix(line, "C ") {
			e.P("> %s", line)
			e.P("bad-op")
			continue
		}
		cur = append(cur, line)
	}
	flush()
}

func main() { lp.Main(gen, exec) }
