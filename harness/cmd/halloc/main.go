// halloc: allocator contracts (C20) on the three real allocators of package mempool.
//
// ops:   C kind=<pool|aligned|std> buf=<n> free=<n>     (buf/free: the raw arguments of mempool.New)
//
//	M h size            Malloc into handle name h
//	W h pat             the client fills its whole buffer with pattern pat
//	A h payload         Append
//	S h payload         AppendString
//	R h size            Realloc
//	F h                 Free
//	G h cap len         the client brings a FOREIGN buffer into play: make([]byte, len, cap) (cap 0: a nil slice), a
//	                    live buffer the allocator did not hand out, passed to Append / AppendString / Realloc / Free
//	                    like any other (cap 0, odd caps, caps that are a class size, caps above the thresholds)
//	P k n seed          concurrent supporting program: k goroutines, n random ops each, disjoint handles
//	K lo hi             exact tabulation: fingerprint of alignedIndexes[lo..hi] (the aligned allocator's
//	                    size-class table) against the model's classOf
//
// exec annotates each op with the environment's answers it observed (inputs of the model):
//
//	get=<fresh|tag>   which pooled buffer the allocator's sync.Pool handed out (recovered from the
//	                  identity of the *[]byte for MemPool, from the backing-array address for the
//	                  aligned allocator); fresh = not a buffer that was freed before
//	grow=<cap>        capacity of the backing array if the operation moved the buffer
//	put=<tag>         the name under which the buffer released by this op is remembered
//
// and prints   len=<n> cap=<c> d=<len:fnv of buf[:len]> full=<fnv of buf[:cap]>   (ok for W, F, P, C).
//
// Direct oracles (implementation only, no model):
//
//	c20-len      len(Malloc(n)) = n, len after Append = old+len(more), len after Realloc(n) = n
//	c20-content  Append keeps the old bytes and adds the new ones; Realloc keeps the first min(old,n) bytes
//	c20-alias    [base, base+cap) of buffers live at the same time are pairwise disjoint
//	c20-frame    an operation on one handle (including the client's own stores) leaves the bytes, length,
//	             capacity and address of every other live handle unchanged
//	c20-panic    an allocator call panicked
package main

import (
	"bytes"
	"fmt"
	"math/rand"
	"sort"
	"strconv"
	"strings"
	"sync"
	"unsafe"

	"harness/internal/lp"

	"github.com/lesismal/nbio/mempool"
)

// ---------------------------------------------------------------- generator

var sizeBase = []int{0, 1, 2, 3, 31, 32, 33, 63, 64, 65, 127, 128, 129, 255, 256, 257, 511, 512, 513, 1023, 1024, 1025}
var sizeBig = []int{2047, 2048, 2049, 4095, 4096, 4097, 8191, 8192, 8193, 16383, 16384, 16385, 32767, 32768, 32769, 40000, 65535, 65536, 65537}

type gcfg struct {
	kind      string
	buf, free int // raw
	nbuf, nfr int // normalised
}

func pickSize(g *lp.Gen, c gcfg) int {
	r := g.Intn(100)
	switch {
	case r < 40:
		return sizeBase[g.Intn(len(sizeBase))]
	case r < 60 && c.kind == "pool":
		return maxi(0, g.PickInt(c.nbuf, c.nfr)+g.PickInt(-1, 0, 1))
	case r < 70:
		return sizeBig[g.Intn(len(sizeBig))]
	case r < 85:
		return g.Intn(100)
	default:
		k := uint(g.Intn(12))
		return maxi(0, (1<<k)+g.PickInt(-1, 0, 1))
	}
}

func maxi(a, b int) int {
	if a > b {
		return a
	}
	return b
}

func pickPayload(g *lp.Gen, c gcfg, cur int) string {
	var n int
	r := g.Intn(100)
	switch {
	case r < 10:
		n = 0
	case r < 50:
		n = 1 + g.Intn(40)
	case r < 75: // land on / next to a boundary
		t := pickSize(g, c)
		n = t - cur + g.PickInt(-1, 0, 1)
		if n < 0 || n > 70000 {
			n = g.Intn(64)
		}
	default:
		n = g.PickInt(31, 32, 33, 64, 100, 500, 1000)
	}
	if n == 0 {
		return "-"
	}
	if n <= 6 && g.Chance(1, 2) {
		b := make([]byte, n)
		for i := range b {
			b[i] = byte(g.Intn(256))
		}
		return lp.Hex(b)
	}
	return fmt.Sprintf("@%d:%d", n, g.Intn(256))
}

func gen(g *lp.Gen) {
	nconc := g.N / 25
	for cs := 0; cs < g.N; cs++ {
		c := gcfg{}
		switch g.Intn(10) {
		case 0, 1, 2, 3:
			c.kind = "pool"
			switch g.Intn(7) {
			case 0:
				c.buf, c.free = 0, 0
			case 1:
				c.buf, c.free = 16, 64
			case 2:
				c.buf, c.free = 64, 256
			case 3:
				c.buf, c.free = 1024, 4096
			case 4:
				c.buf, c.free = 128, 128
			case 5:
				c.buf, c.free = 256, 100
			case 6:
				c.buf, c.free = 1, 33
			}
			c.nbuf, c.nfr = c.buf, c.free
			if c.nbuf <= 0 {
				c.nbuf = 64
			}
			if c.nfr <= 0 {
				c.nfr = 64 * 1024
			}
			if c.nfr < c.nbuf {
				c.nfr = c.nbuf
			}
		case 4, 5, 6, 7:
			c.kind = "aligned"
		default:
			c.kind = "std"
		}
		g.P("C kind=%s buf=%d free=%d", c.kind, c.buf, c.free)
		if cs >= g.N-nconc {
			g.P("P %d %d %d", 2+g.Intn(3), 40+g.Intn(100), g.Intn(1<<30))
			continue
		}
		live := map[int]int{} // name -> current len
		nops := 8 + g.Intn(40)
		maxLive := 2 + g.Intn(5)
		for i := 0; i < nops; i++ {
			names := make([]int, 0, len(live))
			for k := range live {
				names = append(names, k)
			}
			sort.Ints(names)
			r := g.Intn(100)
			if len(live) == 0 || (r < 25 && len(live) < maxLive) {
				h := 0
				for ; ; h++ {
					if _, ok := live[h]; !ok {
						break
					}
				}
				if g.Chance(1, 5) {
					// a foreign buffer (multiples of 32 that are not a class size of the aligned allocator are
					// outside its contract — c20_aligned_foreign_cap_counterexample — and not generated)
					fc := g.PickInt(0, 0, 0, 1, 5, 17, 31, 33, 100, 32, 64, 128, 1024, 32768, 32769, 40000, 70000)
					fl := 0
					if fc > 0 && g.Chance(3, 4) {
						fl = g.PickInt(0, 1, fc/2, fc, fc)
						if fl > 300 {
							fl = g.PickInt(fc, 300, 17)
						}
					}
					g.P("G %d %d %d", h, fc, fl)
					live[h] = fl
					if fl > 0 && g.Chance(3, 4) {
						g.P("W %d %d", h, g.Intn(256))
					}
					continue
				}
				sz := pickSize(g, c)
				g.P("M %d %d", h, sz)
				live[h] = sz
				if g.Chance(9, 10) {
					g.P("W %d %d", h, g.Intn(256))
				}
				continue
			}
			h := names[g.Intn(len(names))]
			switch {
			case r < 45:
				p := pickPayload(g, c, live[h])
				g.P("%s %d %s", g.Pick("A", "A", "S"), h, p)
				live[h] += len(lp.Payload(p))
			case r < 65:
				sz := pickSize(g, c)
				if g.Chance(1, 3) {
					sz = maxi(0, live[h]+g.PickInt(-1, 0, 1, 2, -2))
				}
				g.P("R %d %d", h, sz)
				live[h] = sz
				if g.Chance(1, 3) {
					g.P("W %d %d", h, g.Intn(256))
				}
			case r < 75:
				g.P("W %d %d", h, g.Intn(256))
			default:
				g.P("F %d", h)
				delete(live, h)
			}
		}
		// occasionally an ill-formed op (unknown handle): both sides must reject it
		if g.Chance(1, 20) {
			g.P("F %d", 90+g.Intn(5))
		}
	}
}

// ---------------------------------------------------------------- executor

func base(b []byte) uintptr {
	if cap(b) == 0 {
		return 0
	}
	return uintptr(unsafe.Pointer(unsafe.SliceData(b[:cap(b)])))
}

type hstate struct {
	p      *[]byte
	shadow []byte // what the client expects buf[:len] to hold
	base   uintptr
	cap    int
}

type sess struct {
	kind     string
	a        mempool.Allocator
	h        map[int]*hstate
	byPtr    map[*[]byte]int // MemPool: freed *[]byte -> tag
	byBase   map[uintptr]int // aligned: freed backing array -> tag
	keep     [][]byte        // keeps freed arrays reachable so that addresses are never reused within a case
	keepPtr  []*[]byte
	serial   int
	reuses   int
	moves    int
	key      strings.Builder
	nontriv  bool
	poisoned bool // a concurrent program ran: pool contents unknown to the model
}

func newSess(kind string, buf, free int) *sess {
	s := &sess{kind: kind, h: map[int]*hstate{}, byPtr: map[*[]byte]int{}, byBase: map[uintptr]int{}}
	switch kind {
	case "pool":
		s.a = mempool.New(buf, free)
	case "aligned":
		mempool.VerifResetAlignedPools()
		s.a = mempool.NewAligned()
	default:
		s.a = mempool.NewSTD()
	}
	return s
}

// released remembers a buffer the allocator may have put into a pool.
func (s *sess) released(p *[]byte, b []byte) int {
	s.serial++
	tag := s.serial
	s.keep = append(s.keep, b)
	s.keepPtr = append(s.keepPtr, p)
	if s.kind == "pool" {
		s.byPtr[p] = tag
	} else if cap(b) > 0 {
		s.byBase[base(b)] = tag
	}
	return tag
}

// origin tells where the buffer behind p came from: a remembered released buffer, or fresh.
func (s *sess) origin(p *[]byte) string {
	if s.kind == "pool" {
		if t, ok := s.byPtr[p]; ok {
			delete(s.byPtr, p)
			s.reuses++
			return strconv.Itoa(t)
		}
		return "fresh"
	}
	if t, ok := s.byBase[base(*p)]; ok {
		delete(s.byBase, base(*p))
		s.reuses++
		return strconv.Itoa(t)
	}
	return "fresh"
}

func full(p *[]byte) []byte { return (*p)[:cap(*p)] }

func show(p *[]byte) string {
	return fmt.Sprintf("len=%d cap=%d d=%d:%d full=%d", len(*p), cap(*p), len(*p), lp.Fnv(*p), lp.Fnv(full(p)))
}

// checkOthers: frame + alias oracles after an operation on handle `on` (-1: none).
func (s *sess) checkOthers(e *lp.Exec, on int, what string) {
	names := make([]int, 0, len(s.h))
	for k := range s.h {
		names = append(names, k)
	}
	sort.Ints(names)
	for _, k := range names {
		hs := s.h[k]
		if k != on {
			if !bytes.Equal(*hs.p, hs.shadow) {
				e.Oracle("c20-frame", "%s on handle %d changed the bytes of live handle %d (len %d, first diff at %d)", what, on, k, len(hs.shadow), firstDiff(*hs.p, hs.shadow))
				hs.shadow = append([]byte{}, *hs.p...)
			}
			if base(*hs.p) != hs.base || cap(*hs.p) != hs.cap {
				e.Oracle("c20-frame", "%s on handle %d moved/resized live handle %d (cap %d -> %d)", what, on, k, hs.cap, cap(*hs.p))
				hs.base, hs.cap = base(*hs.p), cap(*hs.p)
			}
		}
	}
	for i := 0; i < len(names); i++ {
		a := s.h[names[i]]
		if cap(*a.p) == 0 {
			continue
		}
		a0, a1 := base(*a.p), base(*a.p)+uintptr(cap(*a.p))
		for j := i + 1; j < len(names); j++ {
			b := s.h[names[j]]
			if cap(*b.p) == 0 {
				continue
			}
			b0, b1 := base(*b.p), base(*b.p)+uintptr(cap(*b.p))
			if a0 < b1 && b0 < a1 {
				e.Oracle("c20-alias", "after %s on %d: live handles %d (cap %d) and %d (cap %d) overlap in memory", what, on, names[i], cap(*a.p), names[j], cap(*b.p))
			}
			if a.p == b.p {
				e.Oracle("c20-alias", "after %s on %d: live handles %d and %d are the same *[]byte", what, on, names[i], names[j])
			}
		}
	}
}

func firstDiff(a, b []byte) int {
	n := len(a)
	if len(b) < n {
		n = len(b)
	}
	for i := 0; i < n; i++ {
		if a[i] != b[i] {
			return i
		}
	}
	return n
}

func (s *sess) settle(hs *hstate) {
	hs.shadow = append([]byte{}, *hs.p...)
	hs.base, hs.cap = base(*hs.p), cap(*hs.p)
}

func bucket(n int) string {
	switch {
	case n == 0:
		return "0"
	case n <= 32:
		return "s"
	case n <= 1024:
		return "m"
	case n <= 32768:
		return "l"
	default:
		return "x"
	}
}

func guard(e *lp.Exec, what string, f func()) (ok bool) {
	defer func() {
		if r := recover(); r != nil {
			e.Oracle("c20-panic", "%s panicked: %v", what, r)
			ok = false
		}
	}()
	f()
	return true
}

func exec(e *lp.Exec) {
	var s *sess
	finish := func() {
		if s == nil {
			return
		}
		e.Key(s.key.String(), s.nontriv)
		s = nil
	}
	for e.In.Scan() {
		line := e.In.Text()
		f := strings.Fields(line)
		if len(f) == 0 {
			continue
		}
		// strip annotations of a replayed line
		var args []string
		for _, t := range f[1:] {
			if !strings.Contains(t, "=") || f[0] == "C" {
				args = append(args, t)
			}
		}
		bad := func() {
			e.P("> %s", line)
			e.P("bad-op")
		}
		if f[0] != "C" && s == nil {
			bad()
			continue
		}
		switch f[0] {
		case "C":
			finish()
			kv := map[string]string{}
			for _, t := range args {
				if i := strings.IndexByte(t, '='); i > 0 {
					kv[t[:i]] = t[i+1:]
				}
			}
			kind := kv["kind"]
			if kind != "pool" && kind != "aligned" && kind != "std" {
				bad()
				continue
			}
			bs, _ := strconv.Atoi(kv["buf"])
			fs, _ := strconv.Atoi(kv["free"])
			s = newSess(kind, bs, fs)
			fmt.Fprintf(&s.key, "%s/%d/%d|", kind, bs, fs)
			e.Count("cases", kind)
			e.P("> C kind=%s buf=%d free=%d", kind, bs, fs)
			e.P("ok")
		case "M":
			if len(args) < 2 {
				bad()
				continue
			}
			h, _ := strconv.Atoi(args[0])
			size, _ := strconv.Atoi(args[1])
			if _, dup := s.h[h]; dup || s.poisoned {
				e.P("> M %d %d get=fresh grow=0", h, size)
				e.P("rejected")
				continue
			}
			var p *[]byte
			if !guard(e, "Malloc", func() { p = s.a.Malloc(size) }) || p == nil {
				e.P("> M %d %d get=fresh grow=0", h, size)
				e.P("panic")
				continue
			}
			org := s.origin(p)
			e.P("> M %d %d get=%s grow=%d", h, size, org, cap(*p))
			if len(*p) != size {
				e.Oracle("c20-len", "Malloc(%d) returned a buffer of length %d", size, len(*p))
			}
			hs := &hstate{p: p}
			s.h[h] = hs
			s.settle(hs)
			s.checkOthers(e, h, "Malloc")
			fmt.Fprintf(&s.key, "M%s%s,", bucket(size), org[:1])
			if org != "fresh" {
				s.nontriv = true
			}
			e.Count("ops", "malloc")
			e.Count("malloc_origin", map[bool]string{true: "fresh", false: "reused"}[org == "fresh"])
			e.P("%s", show(p))
		case "G":
			if len(args) < 3 {
				bad()
				continue
			}
			h, _ := strconv.Atoi(args[0])
			fc, _ := strconv.Atoi(args[1])
			fl, _ := strconv.Atoi(args[2])
			okCap := s.kind != "aligned" || fc == 0 || fc%32 != 0 || fc > 32768 || fc&(fc-1) == 0
			if _, dup := s.h[h]; dup || s.poisoned || fl > fc || fc < 0 || fl < 0 || fc > 1<<20 || !okCap {
				e.P("> G %d %d %d", h, fc, fl)
				e.P("rejected")
				continue
			}
			var fb []byte
			if fc > 0 {
				fb = make([]byte, fl, fc)
			}
			hs := &hstate{p: &fb}
			s.h[h] = hs
			s.settle(hs)
			e.P("> G %d %d %d", h, fc, fl)
			s.checkOthers(e, h, "foreign")
			fmt.Fprintf(&s.key, "G%s,", bucket(fc))
			e.Count("ops", "foreign")
			switch {
			case fc == 0:
				e.Count("foreign_cap", "zero")
			case fc > 32768:
				e.Count("foreign_cap", "above-threshold")
			case fc%32 != 0:
				e.Count("foreign_cap", "not-aligned")
			default:
				e.Count("foreign_cap", "class-size")
			}
			e.P("%s", show(&fb))
		case "W":
			if len(args) < 2 {
				bad()
				continue
			}
			h, _ := strconv.Atoi(args[0])
			pat, _ := strconv.Atoi(args[1])
			hs := s.h[h]
			e.P("> W %d %d", h, pat)
			if hs == nil {
				e.P("rejected")
				continue
			}
			copy(*hs.p, lp.Pattern(len(*hs.p), pat))
			s.settle(hs)
			s.checkOthers(e, h, "client store")
			e.P("ok")
		case "A", "S", "R":
			if len(args) < 2 {
				bad()
				continue
			}
			h, _ := strconv.Atoi(args[0])
			hs := s.h[h]
			if hs == nil {
				e.P("> %s %s %s get=fresh grow=0 put=0", f[0], args[0], args[1])
				e.P("rejected")
				continue
			}
			oldP, oldB := hs.p, *hs.p
			oldBase, oldLen := hs.base, len(*hs.p)
			var np *[]byte
			var more []byte
			size := 0
			what := map[string]string{"A": "Append", "S": "AppendString", "R": "Realloc"}[f[0]]
			ok := guard(e, what, func() {
				switch f[0] {
				case "A":
					more = lp.Payload(args[1])
					np = s.a.Append(hs.p, more...)
				case "S":
					more = lp.Payload(args[1])
					np = s.a.AppendString(hs.p, string(more))
				case "R":
					size, _ = strconv.Atoi(args[1])
					np = s.a.Realloc(hs.p, size)
				}
			})
			if !ok || np == nil {
				e.P("> %s %s %s get=fresh grow=0 put=0", f[0], args[0], args[1])
				e.P("panic")
				delete(s.h, h)
				continue
			}
			moved := base(*np) != oldBase || np != oldP
			org, put := "fresh", 0
			if moved {
				s.moves++
				s.nontriv = true
				// the new buffer first (it cannot be the one released by this very call) ...
				if np != oldP || s.kind != "pool" {
					org = s.origin(np)
				}
				// ... then remember the old one as possibly pooled
				if np != oldP {
					put = s.released(oldP, oldB[:cap(oldB)])
				} else {
					s.keep = append(s.keep, oldB[:cap(oldB)]) // grown in place of the same *[]byte: old array is garbage
				}
			}
			e.P("> %s %s %s get=%s grow=%d put=%d", f[0], args[0], args[1], org, cap(*np), put)
			hs.p = np
			// direct oracles on this handle
			switch f[0] {
			case "A", "S":
				if len(*np) != oldLen+len(more) {
					e.Oracle("c20-len", "%s of %d bytes to a buffer of length %d gave length %d", what, len(more), oldLen, len(*np))
				} else if !bytes.Equal((*np)[:oldLen], hs.shadow) {
					e.Oracle("c20-content", "%s changed the previous contents (first diff at %d of %d)", what, firstDiff((*np)[:oldLen], hs.shadow), oldLen)
				} else if !bytes.Equal((*np)[oldLen:], more) {
					e.Oracle("c20-content", "%s: appended bytes differ (first diff at %d of %d)", what, firstDiff((*np)[oldLen:], more), len(more))
				}
			case "R":
				if len(*np) != size {
					e.Oracle("c20-len", "Realloc(%d) returned a buffer of length %d", size, len(*np))
				} else {
					m := oldLen
					if size < m {
						m = size
					}
					if !bytes.Equal((*np)[:m], hs.shadow[:m]) {
						e.Oracle("c20-content", "Realloc(%d) of a buffer of length %d changed the kept prefix (first diff at %d)", size, oldLen, firstDiff((*np)[:m], hs.shadow[:m]))
					}
				}
			}
			s.settle(hs)
			s.checkOthers(e, h, what)
			fmt.Fprintf(&s.key, "%s%s%v%s,", f[0], bucket(len(*np)), moved, org[:1])
			e.Count("ops", strings.ToLower(what))
			if moved {
				e.Count("moved", what)
			}
			e.P("%s", show(np))
		case "F":
			if len(args) < 1 {
				bad()
				continue
			}
			h, _ := strconv.Atoi(args[0])
			hs := s.h[h]
			if hs == nil {
				e.P("> F %s put=0", args[0])
				e.P("rejected")
				continue
			}
			b := *hs.p
			delete(s.h, h)
			put := s.released(hs.p, b[:cap(b)])
			guard(e, "Free", func() { s.a.Free(hs.p) })
			e.P("> F %d put=%d", h, put)
			s.checkOthers(e, -1, "Free")
			fmt.Fprintf(&s.key, "F%s,", bucket(cap(b)))
			e.Count("ops", "free")
			e.P("ok")
		case "K":
			if len(args) < 2 {
				bad()
				continue
			}
			lo, _ := strconv.Atoi(args[0])
			hi, _ := strconv.Atoi(args[1])
			if lo < 0 || hi > 32768 || lo > hi {
				bad()
				continue
			}
			tab := make([]byte, 0, hi-lo+1)
			for sz := lo; sz <= hi; sz++ {
				tab = append(tab, byte(mempool.VerifAlignedClass(sz)))
			}
			e.P("> K %d %d", lo, hi)
			e.P("cls=%d", lp.Fnv(tab))
			e.Count("ops", "class-table")
		case "P":
			if len(args) < 3 {
				bad()
				continue
			}
			k, _ := strconv.Atoi(args[0])
			n, _ := strconv.Atoi(args[1])
			seed, _ := strconv.Atoi(args[2])
			e.P("> %s", line)
			concurrent(e, s, k, n, int64(seed))
			s.poisoned = true
			s.nontriv = true
			fmt.Fprintf(&s.key, "P%d,", k)
			e.Count("ops", "concurrent-program")
			e.P("ok")
		default:
			bad()
		}
	}
	finish()
}

// ---------------------------------------------------------------- concurrent supporting stream

type span struct {
	lo, hi uintptr
	owner  int
}

type registry struct {
	mu    sync.Mutex
	spans map[uintptr]span
	errs  []string
}

func (r *registry) add(b []byte, owner int) {
	if cap(b) == 0 {
		return
	}
	lo := base(b)
	hi := lo + uintptr(cap(b))
	r.mu.Lock()
	for _, s := range r.spans {
		if lo < s.hi && s.lo < hi {
			r.errs = append(r.errs, fmt.Sprintf("goroutine %d got memory overlapping a live buffer of goroutine %d (caps %d / %d)", owner, s.owner, cap(b), s.hi-s.lo))
		}
	}
	r.spans[lo] = span{lo, hi, owner}
	r.mu.Unlock()
}

func (r *registry) del(b []byte) {
	if cap(b) == 0 {
		return
	}
	r.mu.Lock()
	delete(r.spans, base(b))
	r.mu.Unlock()
}

func concurrent(e *lp.Exec, s *sess, k, n int, seed int64) {
	reg := &registry{spans: map[uintptr]span{}}
	var wg sync.WaitGroup
	var mu sync.Mutex
	report := func(o, msg string) {
		mu.Lock()
		e.Oracle(o, "%s", msg)
		mu.Unlock()
	}
	sizes := append(append([]int{}, sizeBase...), 2048, 4096, 4097, 32768, 32769)
	for gi := 0; gi < k; gi++ {
		wg.Add(1)
		go func(gi int) {
			defer wg.Done()
			defer func() {
				if r := recover(); r != nil {
					report("c20-panic", fmt.Sprintf("concurrent program: goroutine %d panicked: %v", gi, r))
				}
			}()
			rng := rand.New(rand.NewSource(seed + int64(gi)*7919))
			type hh struct {
				p      *[]byte
				shadow []byte
			}
			var hs []*hh
			verify := func(what string) {
				for i, x := range hs {
					if !bytes.Equal(*x.p, x.shadow) {
						report("c20-frame", fmt.Sprintf("concurrent program: goroutine %d handle %d changed behind its back after %s (first diff %d of %d)", gi, i, what, firstDiff(*x.p, x.shadow), len(x.shadow)))
						x.shadow = append([]byte{}, *x.p...)
					}
				}
			}
			for i := 0; i < n; i++ {
				r := rng.Intn(100)
				if len(hs) == 0 || (r < 30 && len(hs) < 5) {
					sz := sizes[rng.Intn(len(sizes))]
					p := s.a.Malloc(sz)
					if len(*p) != sz {
						report("c20-len", fmt.Sprintf("concurrent program: Malloc(%d) returned length %d", sz, len(*p)))
					}
					reg.add(full(p), gi)
					copy(*p, lp.Pattern(len(*p), rng.Intn(256)))
					hs = append(hs, &hh{p: p, shadow: append([]byte{}, *p...)})
					verify("Malloc")
					continue
				}
				j := rng.Intn(len(hs))
				x := hs[j]
				switch {
				case r < 55:
					more := lp.Pattern(rng.Intn(80), rng.Intn(256))
					reg.del(full(x.p))
					np := s.a.Append(x.p, more...)
					reg.add(full(np), gi)
					want := append(append([]byte{}, x.shadow...), more...)
					if !bytes.Equal(*np, want) {
						report("c20-content", fmt.Sprintf("concurrent program: Append result differs (len %d want %d, first diff %d)", len(*np), len(want), firstDiff(*np, want)))
					}
					x.p, x.shadow = np, append([]byte{}, *np...)
					verify("Append")
				case r < 70:
					sz := sizes[rng.Intn(len(sizes))]
					reg.del(full(x.p))
					np := s.a.Realloc(x.p, sz)
					reg.add(full(np), gi)
					m := len(x.shadow)
					if sz < m {
						m = sz
					}
					if len(*np) != sz || !bytes.Equal((*np)[:m], x.shadow[:m]) {
						report("c20-content", fmt.Sprintf("concurrent program: Realloc(%d) result differs (len %d)", sz, len(*np)))
					}
					copy(*np, lp.Pattern(len(*np), rng.Intn(256)))
					x.p, x.shadow = np, append([]byte{}, *np...)
					verify("Realloc")
				default:
					reg.del(full(x.p))
					s.a.Free(x.p)
					hs = append(hs[:j], hs[j+1:]...)
					verify("Free")
				}
			}
			for _, x := range hs {
				reg.del(full(x.p))
				s.a.Free(x.p)
			}
		}(gi)
	}
	wg.Wait()
	for _, m := range reg.errs {
		e.Oracle("c20-alias", "concurrent program: %s", m)
	}
}

func main() { lp.Main(gen, exec) }
