// hdeadline: read/write deadlines of nbio.Conn on REAL timers (C16).
//
// Three kinds of cases, all driven by the same op/observation loop:
//
//	C <id> virt                       a real *nbio.Conn around a virtual descriptor (scripted kernel answers, so
//	                                  backlogs and drains are exact) registered with a real engine; real time.AfterFunc
//	C <id> http ka=<ms> wt=<ms>       a real nbhttp engine on a loopback socket, raw TCP client (keep-alive, WriteTimeout)
//	C <id> dial                       real engine, DialAsyncTimeout to a live / a dead loopback port (the dial timer lives in the
//	                                  write timer and must be cleared by a successful connect); ops dial <ms> live|refused, set, clear, close
//	C <id> ws ka=<ms> wska=<ms>       the same engine (HTTP keep-alive ka) with a websocket upgrader (WS keep-alive wska,
//	                                  default ka; 0 = none: the upgrade clears the HTTP keep-alive deadline), raw client
//	C <id> wst ka=<ms>                std http.Server + UpgradeAndTransferConnToPoller (WS keep-alive on the transferred path)
//
// ops (t=<ms> is the planned offset from the start of the case; the executor never runs an op early):
//
//	O set r|w <ms> | setpast r|w | both <ms> | clear r|w | clearboth | write|writev full|short|err | flush full|short|err
//	O close | wait                                   (virt)
//	O conn | req small|big | req slow <ms> | wsup | msg | ping | wait       (http / ws; slow: the handler sleeps <ms>)
//	Q g=<ms>                                         final observation, issued after every deadline + g
//
// exec annotates each op with at=/at2= (µs since the case started, before/after the call) and st=/post= (the conn
// as observed before/after the call: open, or <kind>:<µs of the close notification>), and prints
//
//	R st=<kind> post=<kind>       /      R st=<kind> overdue=-
//
// kinds: open, rt (read timeout), wt (write timeout), user (Close, nil error), io (syscall error / overflow),
// eof, other, lost (closed flag set but no close notification within 3 s).
//
// Direct oracles (implementation only, one-sided, model independent):
//
//	c16-early       a timeout close observed before the earliest possible value of the deadline in force
//	c16-stale       a timeout close of a direction with no deadline in force (cleared, drained, never set)
//	c16-missed      at Q a deadline in force is more than g past its latest possible value and the conn is open
//	c16-error-kind  the close notification carries the wrong error for what closed the connection
//	c16-renewal     right after an op the read deadline timer is not armed for the deadline that is in force after it
//	                (read from the timer object through the hook VerifDeadlines: no waiting, independent of load)
//
// Cases run concurrently (-par, default 48) because they mostly sleep; output order is the input order.
package main

import (
	"bufio"
	"bytes"
	"crypto/sha1"
	"encoding/base64"
	"errors"
	"fmt"
	"io"
	"net"
	"net/http"
	"os"
	"strconv"
	"strings"
	"sync"
	"sync/atomic"
	"syscall"
	"time"

	"harness/internal/lp"

	"github.com/lesismal/nbio"
	"github.com/lesismal/nbio/logging"
	"github.com/lesismal/nbio/mempool"
	"github.com/lesismal/nbio/nbhttp"
	"github.com/lesismal/nbio/nbhttp/websocket"
	"github.com/lesismal/nbio/vsys"
)

// ---------------------------------------------------------------------------------- generator

type planned struct {
	r, w int // planned absolute deadline in ms, -1 none
}

func genDial(g *lp.Gen, id int) {
	g.P("C %d dial", id)
	to := g.PickInt(60, 80, 120, 200)
	last := to
	if g.Chance(1, 4) {
		g.P("O dial %d refused t=0", to)
	} else {
		g.P("O dial %d live t=0", to)
		t := g.PickInt(5, 20, 40)
		switch g.Intn(5) {
		case 0: // established, idle past the dial timeout
		case 1:
			d := dur(g)
			g.P("O set r %d t=%d", d, t)
			if t+d > last {
				last = t + d
			}
		case 2:
			d := dur(g)
			g.P("O set w %d t=%d", d, t)
			if t+d > last {
				last = t + d
			}
			if g.Chance(1, 2) {
				g.P("O clear w t=%d", t+d/2)
			}
		case 3:
			g.P("O clear w t=%d", t)
		case 4:
			g.P("O close t=%d", t)
		}
	}
	g.P("Q g=%d t=%d", gBound(g), last+gBound(g))
}

func gen(g *lp.Gen) {
	for i := 0; i < g.N; i++ {
		switch {
		case i%8 == 5:
			genDial(g, i)
		case g.Tier != "thorough" && i%16 == 13:
			genWS(g, i) // WS keep-alive with heartbeats also in the quick tier
		case i%16 == 9:
			genHTTPSlow(g, i) // HTTP keep-alive behind slow handlers, quick tier too
		case g.Tier == "thorough" && i%8 == 6:
			genHTTP(g, i)
		case g.Tier == "thorough" && i%8 == 7:
			genWS(g, i)
		default:
			genVirt(g, i)
		}
	}
}

func dur(g *lp.Gen) int { return g.PickInt(40, 50, 60, 80, 100, 120, 150, 200, 250, 300) }

// nextDelay picks the planned distance to the next op relative to the nearest planned deadline.
func nextDelay(g *lp.Gen, now int, p planned) int {
	near := -1
	for _, d := range []int{p.r, p.w} {
		if d > now && (near < 0 || d < near) {
			near = d
		}
	}
	if near < 0 {
		return g.PickInt(1, 5, 20, 60)
	}
	rem := near - now
	switch g.Intn(10) {
	case 0, 1, 2:
		return rem * g.PickInt(2, 5, 8) / 10 // before expiry
	case 3:
		return rem*9/10 + 1
	case 4:
		return rem + g.PickInt(-2, -1, 0, 1, 2, 3) // around expiry: racy, either outcome is legal
	case 5, 6:
		return rem + g.PickInt(15, 30, 60) // after expiry
	default:
		return g.PickInt(1, 3, 10, 25)
	}
}

func genVirt(g *lp.Gen, id int) {
	g.P("C %d virt", id)
	t := 0
	p := planned{-1, -1}
	last := 0
	upd := func(d int) {
		if d > last {
			last = d
		}
	}
	nops := 2 + g.Intn(6)
	if g.Chance(1, 6) {
		// the defect-#20 shape, with variations: write deadline, backlog, drain, idle
		d := dur(g)
		g.P("O set w %d t=%d", d, t)
		upd(t + d)
		t += g.PickInt(1, 5, 10)
		g.P("O %s short t=%d", g.Pick("write", "write", "writev"), t)
		if g.Chance(1, 3) {
			t += g.PickInt(1, 5)
			g.P("O flush short t=%d", t)
		}
		t += g.PickInt(1, 5, 15)
		g.P("O flush full t=%d", t)
		if g.Chance(1, 3) {
			rd := dur(g) + 100
			t += 2
			g.P("O set r %d t=%d", rd, t)
			upd(t + rd)
		}
		g.P("Q g=%d t=%d", gBound(g), last+gBound(g))
		return
	}
	closedPlanned := false
	for k := 0; k < nops && !closedPlanned; k++ {
		if k > 0 {
			dl := nextDelay(g, t, p)
			if dl < 0 {
				dl = 0
			}
			t += dl
		}
		switch g.Intn(20) {
		case 0, 1, 2, 3:
			d := dur(g)
			g.P("O set r %d t=%d", d, t)
			p.r = t + d
			upd(p.r)
		case 4, 5, 6:
			d := dur(g)
			g.P("O set w %d t=%d", d, t)
			p.w = t + d
			upd(p.w)
		case 7, 8:
			d := dur(g)
			g.P("O both %d t=%d", d, t)
			p.r, p.w = t+d, t+d
			upd(p.r)
		case 9, 10:
			dd := g.Pick("r", "w")
			g.P("O clear %s t=%d", dd, t)
			if dd == "r" {
				p.r = -1
			} else {
				p.w = -1
			}
		case 11:
			g.P("O clearboth t=%d", t)
			p.r, p.w = -1, -1
		case 12, 13:
			// Write and Writev are two implementations of the same model step
			g.P("O %s full t=%d", g.Pick("write", "writev"), t)
		case 14, 15:
			g.P("O %s short t=%d", g.Pick("write", "writev"), t)
		case 16, 17:
			g.P("O flush %s t=%d", g.Pick("full", "full", "short"), t)
		case 18:
			if g.Chance(1, 2) {
				g.P("O close t=%d", t)
				closedPlanned = true
			} else {
				g.P("O %s err t=%d", g.Pick("write", "flush", "writev"), t)
			}
		case 19:
			dd := g.Pick("r", "w")
			g.P("O setpast %s t=%d", dd, t)
			upd(t)
		}
	}
	if t > last {
		last = t
	}
	g.P("Q g=%d t=%d", gBound(g), last+gBound(g))
}

func gBound(g *lp.Gen) int {
	if g.Tier == "thorough" {
		return 400
	}
	return 300
}

func genHTTP(g *lp.Gen, id int) {
	ka := g.PickInt(120, 160, 200, 300)
	wt := g.PickInt(0, 60, 80, 100)
	g.P("C %d http ka=%d wt=%d", id, ka, wt)
	t := 0
	g.P("O conn t=%d", t)
	last := t + ka
	n := g.Intn(4)
	for k := 0; k < n; k++ {
		t += ka * g.PickInt(2, 5, 8) / 10
		g.P("O req %s t=%d", g.Pick("small", "small", "big"), t)
		last = t + ka
	}
	// allow for slow exchanges: the final observation is planned generously late; the executor
	// moves it further if the real exchanges took longer
	g.P("Q g=%d t=%d", gBound(g)+200, last+gBound(g)+200)
}

// genHTTPSlow: keep-alive with SLOW handlers: the keep-alive deadline is renewed when the response has been flushed, not
// when the request arrives — the idle time starts after the response. Handler time = 0.6–0.8 × ka, started early enough
// to finish before the deadline in force; then the client stays idle: the close must not come before (end of the
// handler) + ka.
func genHTTPSlow(g *lp.Gen, id int) {
	ka := g.PickInt(200, 250, 300)
	g.P("C %d http ka=%d wt=0", id, ka)
	t := 0
	g.P("O conn t=%d", t)
	last := t + ka
	n := 1 + g.Intn(2)
	for k := 0; k < n; k++ {
		t += ka / 10
		h := ka * g.PickInt(6, 7, 8) / 10
		g.P("O req slow %d t=%d", h, t)
		t += h
		last = t + ka
	}
	g.P("Q g=%d t=%d", gBound(g)+200, last+gBound(g)+200)
}

func genWS(g *lp.Gen, id int) {
	ka := g.PickInt(120, 160, 200, 300)
	t := 0
	// wska = the Upgrader's KeepaliveTime; 0 (one case in three): the upgrade must CLEAR the HTTP engine's keep-alive
	// read deadline (ka), and nothing renews or re-arms it afterwards: the websocket conn outlives ka
	wska := ka
	if g.Chance(1, 3) {
		wska = 0
	}
	if g.Chance(1, 3) {
		// the transferred path: std http.Server, UpgradeAndTransferConnToPoller
		g.P("C %d wst ka=%d wska=%d wt=0", id, ka, wska)
		g.P("O tconn t=%d", t)
	} else {
		g.P("C %d ws ka=%d wska=%d wt=0", id, ka, wska)
		g.P("O conn t=%d", t)
	}
	t += g.PickInt(5, 20, 40)
	g.P("O wsup t=%d", t)
	last := t + ka
	n := g.Intn(5)
	// traffic of one kind only in half of the cases: heartbeat-only connections (pings only / unsolicited pongs only)
	// are not silent and must stay open
	only := g.Pick("", "", "ping", "pong")
	for k := 0; k < n; k++ {
		t += ka * g.PickInt(2, 3, 5, 8) / 10
		hb := g.Pick("msg", "ping", "pong")
		if only != "" {
			hb = only
		}
		// data messages and heartbeats (ping, answered by the default pong; unsolicited pong) all renew the keep-alive
		g.P("O %s t=%d", hb, t)
		last = t + ka
	}
	g.P("Q g=%d t=%d", gBound(g)+200, last+gBound(g)+200)
}

// ---------------------------------------------------------------------------------- executor

type closeRec struct {
	mu   sync.Mutex
	ch   chan struct{}
	kind string
	tc   int64
	done bool
}

func newCloseRec() *closeRec { return &closeRec{ch: make(chan struct{})} }

func (r *closeRec) set(kind string, tc int64) {
	r.mu.Lock()
	if !r.done {
		r.done = true
		r.kind, r.tc = kind, tc
		close(r.ch)
	}
	r.mu.Unlock()
}

func classify(err error) string {
	var en syscall.Errno
	switch {
	case err == nil:
		return "user"
	case errors.Is(err, nbio.ErrReadTimeout):
		return "rt"
	case errors.Is(err, nbio.ErrWriteTimeout):
		return "wt"
	case errors.Is(err, nbio.ErrDialTimeout):
		return "dt"
	case errors.Is(err, nbio.ErrOverflow):
		return "io"
	case errors.Is(err, io.EOF):
		return "eof"
	case errors.As(err, &en):
		return "io"
	}
	if os.Getenv("HDEADLINE_DEBUG") != "" {
		fmt.Fprintf(os.Stderr, "other close error: %T %v\n", err, err)
	}
	return "other"
}

type obs struct {
	kind string
	tc   int64
	hs   string // rt=<0|1> wt=<0|1> bl=<0|1>: timer handles and backlog read under the same lock ("" if unknown)
}

func handles(st nbio.VerifConnState) string {
	b := func(x bool) int {
		if x {
			return 1
		}
		return 0
	}
	return fmt.Sprintf("rt=%d wt=%d bl=%d", b(st.RTimer), b(st.WTimer), b(!st.Closed && len(st.Items) > 0))
}

// hsOf: the timer handles and the backlog are compared with the model for the cases whose write path the model
// follows exactly (virtual descriptors: scripted kernel answers)
func hsOf(kind string, o obs) string {
	if kind != "virt" || o.hs == "" {
		return ""
	}
	return " " + o.hs
}

func (o obs) ann() string {
	if o.kind == "open" {
		return "open"
	}
	return fmt.Sprintf("%s:%d", o.kind, o.tc)
}

// per-direction bookkeeping of the direct oracles (µs; -1 = no deadline in force)
type track struct {
	lo, hi   [2]int64
	mayFired [2]bool
	reported bool
}

func dirIdx(d string) int {
	if d == "w" {
		return 1
	}
	return 0
}

type caseRun struct {
	lines []string
	out   bytes.Buffer
	fails []string // oracle reports
	key   string
	nt    bool
	stats map[string]int
}

type env struct {
	start     time.Time
	rec       *closeRec
	nbc       func() *nbio.Conn // the conn under observation (nil until it exists)
	tr        track
	cr        *caseRun
	selfK     string // kind caused by the harness's own op (user / io), "" if none
	wasOpen   bool   // the conn was observed open just before the current op
	dialRes   string // outcome of the last dial op (ok / err / none / fail)
	dialTimer bool   // the write timer in force was armed by DialAsyncTimeout (its closure carries ErrDialTimeout)
	bailed    bool   // an op of this case gave up early (client-side error / timeout on an overloaded machine): the
	// harness's own bookkeeping of the deadlines is incomplete from then on, nothing is claimed about renewals
}

func (e *env) us() int64 { return int64(time.Since(e.start) / time.Microsecond) }

func (e *env) observe() obs {
	c := e.nbc()
	if c == nil {
		select {
		case <-e.rec.ch: // a dialing conn the harness has not been handed yet, already closed
			return obs{kind: e.rec.kind, tc: e.rec.tc}
		default:
		}
		return obs{kind: "open"}
	}
	st := c.VerifState()
	if !st.Closed {
		select {
		case <-e.rec.ch: // notification without the flag: cannot happen for nbio.Conn, but never block on it
			return obs{e.rec.kind, e.rec.tc, handles(st)}
		default:
		}
		return obs{"open", 0, handles(st)}
	}
	select {
	case <-e.rec.ch:
		return obs{e.rec.kind, e.rec.tc, handles(st)}
	case <-time.After(3 * time.Second):
		return obs{"lost", e.us(), handles(st)}
	}
}

func (e *env) oracle(name, f string, a ...interface{}) {
	e.cr.fails = append(e.cr.fails, fmt.Sprintf("! oracle=%s %s", name, fmt.Sprintf(f, a...)))
}

// judge evaluates the direct oracles on the first observation of a closed connection.
func (e *env) judge(o obs) {
	if o.kind == "open" || e.tr.reported {
		return
	}
	e.tr.reported = true
	t := &e.tr
	switch o.kind {
	case "rt", "wt", "dt":
		d := 0
		if o.kind != "rt" {
			d = 1
		}

		other := 1 - d
		if e.selfK != "" {
			// our own close/err op ran first; a timeout notification after it is a wrong error
			e.oracle("c16-error-kind", "closed by the harness (%s) but notified as %s", e.selfK, o.kind)
			return
		}
		if t.mayFired[d] {
			return // the callback may have been started before an op touched the deadline: legal
		}
		if t.lo[d] < 0 {
			if t.lo[other] >= 0 && o.tc >= t.lo[other] {
				e.oracle("c16-error-kind", "%s notification although only the other direction was due (tc=%dus)", o.kind, o.tc)
			} else {
				e.oracle("c16-stale", "closed with %s at %dus although no deadline is in force for that direction", o.kind, o.tc)
			}
			return
		}
		if o.tc >= t.lo[d] && d == 1 && (o.kind == "dt") != e.dialTimer {
			// a legitimate write-direction timeout, but with the error of the other kind of write timer
			e.oracle("c16-error-kind", "closed with %s although the write timer in force was armed by %s", o.kind, map[bool]string{true: "DialAsyncTimeout", false: "SetWriteDeadline/SetDeadline"}[e.dialTimer])
			return
		}
		if o.tc < t.lo[d] {
			if t.lo[other] >= 0 && o.tc >= t.lo[other] {
				e.oracle("c16-error-kind", "%s notification although only the other direction was due (tc=%dus, deadline %dus)", o.kind, o.tc, t.lo[d])
			} else {
				e.oracle("c16-early", "closed with %s at %dus, deadline in force not before %dus (early by %dus)", o.kind, o.tc, t.lo[d], t.lo[d]-o.tc)
			}
		}
	case "user", "io":
		if e.selfK != o.kind {
			e.oracle("c16-error-kind", "close notification kind %s, expected %q", o.kind, e.selfK)
		}
	case "eof":
		if e.selfK == "" {
			e.oracle("c16-error-kind", "unexpected EOF close")
		}
	default:
		e.oracle("c16-error-kind", "close notification kind %s", o.kind)
	}
}

// touch records that an op on direction d ran in [t0,t1]: if the deadline in force was already due, its callback
// may have been started.
func (t *track) touch(d int, t1 int64) {
	if t.lo[d] >= 0 && t.lo[d] <= t1 {
		t.mayFired[d] = true
	}
}

func (t *track) set(d int, lo, hi int64, t1 int64) {
	t.touch(d, t1)
	t.lo[d], t.hi[d] = lo, hi
}

func (t *track) clear(d int, t1 int64) {
	t.touch(d, t1)
	t.lo[d], t.hi[d] = -1, -1
}

func field(ws []string, k string) string {
	for _, w := range ws {
		if strings.HasPrefix(w, k+"=") {
			return w[len(k)+1:]
		}
	}
	return ""
}

func atoi(s string) int { n, _ := strconv.Atoi(s); return n }

func stripAnn(ws []string) []string {
	var o []string
	for _, w := range ws {
		if strings.HasPrefix(w, "at=") || strings.HasPrefix(w, "at2=") || strings.HasPrefix(w, "st=") || strings.HasPrefix(w, "post=") || strings.HasPrefix(w, "res=") || strings.HasPrefix(w, "rd=") {
			continue
		}
		o = append(o, w)
	}
	return o
}

// ---- scheduling-lag monitor: on an overloaded machine timers (the implementation's and the harness's) run late; the
// "fires within a generous bound" side of the check scales its bound with the lag actually observed, so that load can
// delay a verdict but never turn into a false c16-missed
var lagRecentUs int64

func lagMonitor() {
	for {
		t0 := time.Now()
		time.Sleep(2 * time.Millisecond)
		lag := int64(time.Since(t0)/time.Microsecond) - 2000
		old := atomic.LoadInt64(&lagRecentUs)
		dec := old - old/64
		if lag > dec {
			dec = lag
		}
		atomic.StoreInt64(&lagRecentUs, dec)
	}
}

func (e *env) sleepUntil(ms int) {
	d := time.Duration(ms)*time.Millisecond - time.Since(e.start)
	if d > 0 {
		time.Sleep(d)
	}
}

var big = bytes.Repeat([]byte("x"), 4<<20)

func runCase(cr *caseRun) {
	cr.stats = map[string]int{}
	head := strings.Fields(cr.lines[0])
	kind := "virt"
	if len(head) > 2 {
		kind = head[2]
	}
	fmt.Fprintf(&cr.out, "> %s\nok\n", cr.lines[0])
	e := &env{rec: newCloseRec(), cr: cr}
	e.tr.lo, e.tr.hi = [2]int64{-1, -1}, [2]int64{-1, -1}
	var cleanup func()
	var doOp func(ws []string) // executes one op, updates the tracker
	switch kind {
	case "virt":
		doOp, cleanup = setupVirt(e)
	case "dial":
		doOp, cleanup = setupDial(e)
	case "http", "ws", "wst":
		wska := atoi(field(head, "ka"))
		if v := field(head, "wska"); v != "" {
			wska = atoi(v)
		}
		doOp, cleanup = setupE2E(e, kind, atoi(field(head, "ka")), atoi(field(head, "wt")), wska)
	default:
		for range cr.lines[1:] {
			fmt.Fprintf(&cr.out, "> bad\nbad-case\n")
		}
		return
	}
	defer cleanup()
	e.start = time.Now()
	shape := kind
	renewed := false
	for _, ln := range cr.lines[1:] {
		ws := stripAnn(strings.Fields(ln))
		e.sleepUntil(atoi(field(ws, "t")))
		if ws[0] == "Q" {
			g := int64(atoi(field(ws, "g"))) * 1000
			if l := 40 * atomic.LoadInt64(&lagRecentUs); l > g {
				g = (l/1000 + 1) * 1000 // overloaded machine: a more generous bound, passed on to the model
				for i, w := range ws {
					if strings.HasPrefix(w, "g=") {
						ws[i] = fmt.Sprintf("g=%d", g/1000)
					}
				}
			}
			// never observe before every deadline in force had its generous bound
			for d := 0; d < 2; d++ {
				if e.tr.hi[d] >= 0 {
					for e.us() < e.tr.hi[d]+g {
						time.Sleep(5 * time.Millisecond)
						if o := e.observe(); o.kind != "open" {
							break
						}
					}
				}
			}
			st := e.observe()
			at := e.us()
			e.judge(st)
			if st.kind == "open" {
				for d := 0; d < 2; d++ {
					if e.tr.hi[d] >= 0 && e.tr.hi[d]+g <= at {
						e.oracle("c16-missed", "direction %d: deadline in force at most %dus, now %dus, connection still open", d, e.tr.hi[d], at)
					}
				}
			}
			fmt.Fprintf(&cr.out, "> %s at=%d st=%s\nR st=%s overdue=-%s\n", strings.Join(ws, " "), at, st.ann(), st.kind, hsOf(kind, st))
			shape += "|Q:" + st.kind
			continue
		}
		st := e.observe()
		e.judge(st)
		// did a deadline in force exist and was it still ahead? (non-triviality: renew/clear before expiry)
		if st.kind == "open" && (ws[1] == "set" || ws[1] == "clear" || ws[1] == "both" || ws[1] == "clearboth" || ws[1] == "msg" || ws[1] == "ping" || ws[1] == "pong" || ws[1] == "req") {
			now := e.us()
			for d := 0; d < 2; d++ {
				if e.tr.lo[d] > now {
					renewed = true
				}
			}
		}
		t0 := e.us()
		e.wasOpen = st.kind == "open"
		doOp(ws)
		t1 := e.us()
		post := e.observe()
		e.judge(post)
		extra := ""
		if ws[1] == "dial" {
			extra = " res=" + e.dialRes
		}
		// ---- the renewal is an event: what the read deadline timer is armed for right after the op is read from the
		// timer object, without waiting. Second line of defence stays the observation in real time.
		rdl := ""
		if c := e.nbc(); c != nil && post.kind == "open" && ws[1] != "dial" {
			rd, _, ok := c.VerifDeadlines()
			ok = ok && !e.bailed
			switch {
			case !ok:
				extra += " rd=na"
			case rd.IsZero():
				extra += " rd=none"
			default:
				// an expiry before the start of the case (setpast at t = 0) is printed as 0: the annotation is a natural number
				v := int64(rd.Sub(e.start) / time.Microsecond)
				if v < 0 {
					v = 0
				}
				extra += fmt.Sprintf(" rd=%d", v)
			}
			rdl = " rdl=ok"
			if ok && !c.VerifState().Closed {
				lo, hi := e.tr.lo[0], e.tr.hi[0]
				rdUs := int64(rd.Sub(e.start) / time.Microsecond)
				switch {
				case lo >= 0 && hi >= 0 && rd.IsZero() && lo > t1+2000:
					e.oracle("c16-renewal", "after `%s` no read deadline timer is armed although a read deadline (not before %dus) is in force", strings.Join(ws[1:len(ws)-1], " "), lo)
				case lo >= 0 && hi >= 0 && !rd.IsZero() && rdUs < lo-2000:
					e.oracle("c16-renewal", "after `%s` the read deadline timer is armed for %dus, but the deadline in force after this op is not before %dus: the op did not renew it (it will fire %dus early)", strings.Join(ws[1:len(ws)-1], " "), rdUs, lo, lo-rdUs)
				case lo >= 0 && hi >= 0 && !rd.IsZero() && rdUs > hi+2000 && kind != "virt":
					e.oracle("c16-renewal", "after `%s` the read deadline timer is armed for %dus, later than the latest possible value %dus of the deadline in force", strings.Join(ws[1:len(ws)-1], " "), rdUs, hi)
				case lo < 0 && hi == -1 && !rd.IsZero() && rdUs > t1+2000 && kind != "virt":
					e.oracle("c16-renewal", "after `%s` a read deadline timer is armed (for %dus) although no read deadline is in force", strings.Join(ws[1:len(ws)-1], " "), rdUs)
				}
			}
		}
		fmt.Fprintf(&cr.out, "> %s%s at=%d at2=%d st=%s post=%s\nR st=%s post=%s%s%s\n", strings.Join(ws, " "), extra, t0, t1, st.ann(), post.ann(), st.kind, post.kind, hsOf(kind, post), rdl)
		shape += "|" + strings.Join(ws[1:len(ws)-1], ":") + ">" + st.kind + ">" + post.kind
		cr.stats["op:"+ws[1]]++
	}
	cr.key, cr.nt = shape, renewed
}

// ---- virtual-descriptor cases

func setupVirt(e *env) (func(ws []string), func()) {
	g := nbio.NewEngine(nbio.Config{NPoller: 1, MaxWriteBufferSize: 1 << 20})
	g.OnClose(func(c *nbio.Conn, err error) { e.rec.set(classify(err), e.us()) })
	if err := g.Start(); err != nil {
		panic(err)
	}
	fd, v := vsys.NewVFDHigh()
	c := nbio.VerifNewConn(fd, nbio.ConnTypeTCP)
	if _, err := g.AddConn(c); err != nil {
		panic(err)
	}
	e.nbc = func() *nbio.Conn { return c }
	epfd := g.VerifEpfd(0)
	payload := lp.Pattern(1000, 3)
	huge := make([]byte, 2<<20)
	tr := &e.tr
	do := func(ws []string) {
		switch ws[1] {
		case "set":
			d := dirIdx(ws[2])
			dd := time.Duration(atoi(ws[3])) * time.Millisecond
			t0 := e.us()
			dl := time.Now().Add(dd)
			if d == 0 {
				_ = c.SetReadDeadline(dl)
			} else {
				_ = c.SetWriteDeadline(dl)
			}
			t1 := e.us()
			if e.wasOpen {
				tr.set(d, t0+int64(dd/time.Microsecond), t1+int64(dd/time.Microsecond), t1)
			}
		case "setpast":
			d := dirIdx(ws[2])
			t0 := e.us()
			dl := time.Now().Add(-time.Millisecond)
			if d == 0 {
				_ = c.SetReadDeadline(dl)
			} else {
				_ = c.SetWriteDeadline(dl)
			}
			t1 := e.us()
			if e.wasOpen {
				lo := t0 - 1000
				if lo < 0 {
					lo = 0
				}
				tr.set(d, lo, t1, t1)
			}
		case "both":
			dd := time.Duration(atoi(ws[2])) * time.Millisecond
			t0 := e.us()
			_ = c.SetDeadline(time.Now().Add(dd))
			t1 := e.us()
			if e.wasOpen {
				tr.set(0, t0+int64(dd/time.Microsecond), t1+int64(dd/time.Microsecond), t1)
				tr.set(1, t0+int64(dd/time.Microsecond), t1+int64(dd/time.Microsecond), t1)
			}
		case "clear":
			d := dirIdx(ws[2])
			if d == 0 {
				_ = c.SetReadDeadline(time.Time{})
			} else {
				_ = c.SetWriteDeadline(time.Time{})
			}
			if e.wasOpen {
				tr.clear(d, e.us())
			}
		case "clearboth":
			_ = c.SetDeadline(time.Time{})
			if e.wasOpen {
				tr.clear(0, e.us())
				tr.clear(1, e.us())
			}
		case "write", "writev":
			was := c.VerifState()
			// Writev with two or more buffers takes the vectored path (writev(2), its own bookkeeping of the queue and
			// of the write deadline); with one buffer it is Write
			wr := func(b []byte) {
				if ws[1] == "writev" {
					k := len(b) / 3
					_, _ = c.Writev([][]byte{b[:k], b[k : 2*k], b[2*k:]})
				} else {
					_, _ = c.Write(b)
				}
			}
			switch ws[2] {
			case "full":
				v.SetScript([]vsys.Ans{{N: 1 << 30}})
				wr(payload)
			case "short":
				v.SetScript([]vsys.Ans{{N: 10}})
				wr(payload)
			case "err":
				if !was.Closed {
					e.selfK = "io"
				}
				wr(huge) // overflow: closes with an error whatever the queue holds
			}
			st := c.VerifState()
			if !st.Closed && len(st.Items) == 0 {
				tr.clear(1, e.us()) // a write that ends with an empty queue cancels the write deadline
			}
		case "flush":
			was := c.VerifState()
			if was.Closed {
				return // the descriptor number may already belong to someone else
			}
			switch ws[2] {
			case "full":
				a := make([]vsys.Ans, 64)
				for i := range a {
					a[i] = vsys.Ans{N: 1 << 30}
				}
				v.SetScript(a)
			case "short":
				v.SetScript([]vsys.Ans{{N: 1}, {Err: syscall.EAGAIN}})
			case "err":
				if len(was.Items) > 0 {
					e.selfK = "io"
				}
				v.SetScript([]vsys.Ans{{Err: syscall.EPIPE}})
			}
			vsys.InjectTimeout(epfd, []syscall.EpollEvent{{Fd: int32(fd), Events: syscall.EPOLLOUT}}, 5*time.Second)
			v.SetScript(nil)
			st := c.VerifState()
			if !st.Closed && len(was.Items) > 0 && len(st.Items) == 0 {
				tr.clear(1, e.us()) // the backlog was emptied: the write deadline is cancelled (the property's wording)
			}
			if st.Closed && e.selfK == "io" && ws[2] == "err" {
				// fine
			} else if ws[2] == "err" && !st.Closed {
				e.selfK = ""
			}
		case "close":
			if !c.VerifState().Closed {
				e.selfK = "user"
			}
			_ = c.Close()
		case "wait":
		}
	}
	return do, func() {
		_ = c.Close()
		stopEngine(func() { g.Stop() })
		vsys.Forget(fd)
	}
}

func stopEngine(stop func()) {
	done := make(chan struct{})
	go func() { stop(); close(done) }()
	select {
	case <-done:
	case <-time.After(10 * time.Second):
	}
}

// ---- dial-timeout cases: DialAsyncTimeout on a real engine over loopback

func setupDial(e *env) (func(ws []string), func()) {
	g := nbio.NewEngine(nbio.Config{NPoller: 1})
	g.OnClose(func(c *nbio.Conn, err error) { e.rec.set(classify(err), e.us()) })
	if err := g.Start(); err != nil {
		panic(err)
	}
	sink, err := net.Listen("tcp", "127.0.0.1:0")
	if err != nil {
		panic(err)
	}
	var smu sync.Mutex
	var held []net.Conn
	go func() {
		for {
			c, err := sink.Accept()
			if err != nil {
				return
			}
			smu.Lock()
			held = append(held, c)
			smu.Unlock()
		}
	}()
	dead, err := net.Listen("tcp", "127.0.0.1:0")
	if err != nil {
		panic(err)
	}
	deadAddr := dead.Addr().String()
	_ = dead.Close() // nobody listens there any more: connection refused
	var mu sync.Mutex
	var conn *nbio.Conn
	e.nbc = func() *nbio.Conn { mu.Lock(); defer mu.Unlock(); return conn }
	tr := &e.tr
	do := func(ws []string) {
		c := e.nbc()
		switch ws[1] {
		case "dial":
			dd := time.Duration(atoi(ws[2])) * time.Millisecond
			addr := sink.Addr().String()
			if ws[3] == "refused" {
				addr = deadAddr
			}
			done := make(chan error, 1)
			t0 := e.us()
			err := g.DialAsyncTimeout("tcp", addr, dd, func(c *nbio.Conn, err error) {
				mu.Lock()
				if c != nil {
					conn = c
				}
				mu.Unlock()
				done <- err
			})
			t1 := e.us()
			res := "none"
			if err != nil {
				res = "fail"
			} else {
				e.dialTimer = true
				tr.set(1, t0+int64(dd/time.Microsecond), t1+int64(dd/time.Microsecond), t1)
				if ws[3] == "refused" {
					// whatever the callback claims (the dial path's reporting is C03's business), a refused connect
					// ends the conn with an I/O error; wait for that
					e.selfK = "io"
					select {
					case <-e.rec.ch:
						res = "err"
					case <-time.After(150 * time.Millisecond):
					}
				} else {
					select {
					case cerr := <-done:
						if cerr == nil {
							res = "ok"
							// connect succeeded: the dial timer must be gone
							tr.clear(1, t0)
							e.dialTimer = false
						} else {
							res = "err"
							e.selfK = "io"
						}
					case <-time.After(150 * time.Millisecond):
					}
				}
			}
			e.dialRes = res
		case "set":
			if c == nil {
				return
			}
			d := dirIdx(ws[2])
			dd := time.Duration(atoi(ws[3])) * time.Millisecond
			t0 := e.us()
			if d == 0 {
				_ = c.SetReadDeadline(time.Now().Add(dd))
			} else {
				_ = c.SetWriteDeadline(time.Now().Add(dd))
			}
			t1 := e.us()
			if e.wasOpen {
				tr.set(d, t0+int64(dd/time.Microsecond), t1+int64(dd/time.Microsecond), t1)
			}
		case "clear":
			if c == nil {
				return
			}
			d := dirIdx(ws[2])
			if d == 0 {
				_ = c.SetReadDeadline(time.Time{})
			} else {
				_ = c.SetWriteDeadline(time.Time{})
			}
			if e.wasOpen {
				tr.clear(d, e.us())
				if d == 1 {
					e.dialTimer = false
				}
			}
		case "close":
			if c == nil {
				return
			}
			if !c.VerifState().Closed {
				e.selfK = "user"
			}
			_ = c.Close()
		case "wait":
		}
	}
	return do, func() {
		if c := e.nbc(); c != nil {
			_ = c.Close()
		}
		_ = sink.Close()
		smu.Lock()
		for _, c := range held {
			_ = c.Close()
		}
		smu.Unlock()
		stopEngine(func() { g.Stop() })
	}
}

// ---- end-to-end cases (HTTP keep-alive / WriteTimeout, WS keep-alive) over loopback

func setupE2E(e *env, kind string, kaMs, wtMs, wskaMs int) (func(ws []string), func()) {
	ka := time.Duration(kaMs) * time.Millisecond
	wska := time.Duration(wskaMs) * time.Millisecond
	wt := time.Duration(wtMs) * time.Millisecond
	mux := http.NewServeMux()
	mux.HandleFunc("/small", func(w http.ResponseWriter, r *http.Request) { _, _ = w.Write([]byte("hello")) })
	mux.HandleFunc("/slow", func(w http.ResponseWriter, r *http.Request) {
		ms, _ := strconv.Atoi(r.URL.Query().Get("ms"))
		time.Sleep(time.Duration(ms) * time.Millisecond)
		_, _ = w.Write([]byte("hello"))
	})
	mux.HandleFunc("/big", func(w http.ResponseWriter, r *http.Request) {
		// explicit length: keeps the response off the chunked writer (another family's defect #8 lives there and
		// would corrupt the process-wide buffer pool shared by the concurrently running cases)
		w.Header().Set("Content-Length", strconv.Itoa(len(big)))
		_, _ = w.Write(big)
	})
	up := websocket.NewUpgrader()
	up.KeepaliveTime = wska
	up.OnMessage(func(c *websocket.Conn, mt websocket.MessageType, data []byte) { _ = c.WriteMessage(mt, data) })
	mux.HandleFunc("/ws", func(w http.ResponseWriter, r *http.Request) {
		if kind == "wst" {
			_, _ = up.UpgradeAndTransferConnToPoller(w, r, nil)
			return
		}
		if _, err := up.Upgrade(w, r, nil); err != nil {
			return
		}
	})
	engAddrs := []string{"127.0.0.1:0"}
	if kind == "wst" {
		engAddrs = nil // the conn comes from a std http.Server and is transferred to this engine's poller
	}
	eng := nbhttp.NewEngine(nbhttp.Config{
		Network: "tcp", Addrs: engAddrs, NPoller: 1, Handler: mux,
		KeepaliveTime: ka, WriteTimeout: wt, MessageHandlerPoolSize: 8, SupportServerOnly: true,
		BodyAllocator: mempool.New(1024, 1<<20), // per case: isolates the websocket buffers from the other cases
	})
	up.Engine = eng
	var mu sync.Mutex
	var srv *nbio.Conn
	eng.OnOpen(func(c net.Conn) {
		if nc, ok := c.(*nbio.Conn); ok {
			mu.Lock()
			srv = nc
			mu.Unlock()
		}
	})
	eng.OnClose(func(c net.Conn, err error) { e.rec.set(classify(err), e.us()) })
	if err := eng.Start(); err != nil {
		panic(err)
	}
	e.nbc = func() *nbio.Conn { mu.Lock(); defer mu.Unlock(); return srv }
	var addr string
	var stdSrv *http.Server
	if kind == "wst" {
		lnr, err := net.Listen("tcp", "127.0.0.1:0")
		if err != nil {
			panic(err)
		}
		stdSrv = &http.Server{Handler: mux}
		go func() { _ = stdSrv.Serve(lnr) }()
		addr = lnr.Addr().String()
	} else {
		addr = eng.Addrs[0]
	}
	var cli net.Conn
	var br *bufio.Reader
	tr := &e.tr
	kaUs, wtUs := int64(ka/time.Microsecond), int64(wt/time.Microsecond)
	wskaUs := int64(wska / time.Microsecond)
	do := func(ws []string) {
		t0 := e.us()
		switch ws[1] {
		case "tconn":
			// std http.Server: no nbio deadline exists until the upgrade transfers the conn
			c, err := net.DialTimeout("tcp", addr, 2*time.Second)
			if err != nil {
				e.bailed = true
				return
			}
			cli, br = c, bufio.NewReaderSize(c, 1<<16)
		case "conn":
			c, err := net.DialTimeout("tcp", addr, 2*time.Second)
			if err != nil {
				e.bailed = true
				return
			}
			cli, br = c, bufio.NewReaderSize(c, 1<<16)
			// wait until the server registered it (the keep-alive deadline is set right after)
			for i := 0; i < 2000 && e.nbc() == nil; i++ {
				time.Sleep(time.Millisecond)
			}
			for i := 0; i < 2000; i++ {
				if c := e.nbc(); c != nil && c.VerifState().RTimer {
					break
				}
				time.Sleep(time.Millisecond)
			}
			tr.set(0, t0+kaUs, e.us()+kaUs, e.us())
		case "req":
			if cli == nil {
				e.bailed = true
				return
			}
			_ = cli.SetDeadline(time.Now().Add(5 * time.Second))
			path := ws[2]
			var slowUs int64
			if ws[2] == "slow" && len(ws) > 3 {
				path = "slow?ms=" + ws[3]
				slowUs = int64(atoi(ws[3])) * 1000
			}
			if _, err := fmt.Fprintf(cli, "GET /%s HTTP/1.1\r\nHost: x\r\n\r\n", path); err != nil {
				e.bailed = true
				return
			}
			if wtUs > 0 {
				tr.set(1, t0+wtUs, -2, e.us()) // upper bound unknown until the exchange is over
			}
			if ws[2] == "big" {
				time.Sleep(15 * time.Millisecond) // let a backlog form on the server
			}
			resp, err := http.ReadResponse(br, nil)
			if err != nil {
				e.bailed = true
				return
			}
			_, err = io.Copy(io.Discard, resp.Body)
			_ = resp.Body.Close()
			if err != nil {
				e.bailed = true
				return
			}
			// the whole response is here: the server's queue is empty, its keep-alive deadline renewed;
			// give the poller a moment to run the final flush bookkeeping
			time.Sleep(2 * time.Millisecond)
			t1 := e.us()
			if c := e.nbc(); c != nil && !c.VerifState().Closed {
				tr.clear(1, t0) // not "touch": the deadline was not due at t0
				// the keep-alive deadline is renewed when the response is flushed: not before the handler (which
				// started at t0 at the earliest and took slowUs at least) has returned
				tr.set(0, t0+slowUs+kaUs, t1+kaUs, t0)
			}
		case "wsup":
			if cli == nil {
				e.bailed = true
				return
			}
			_ = cli.SetDeadline(time.Now().Add(5 * time.Second))
			key := base64.StdEncoding.EncodeToString([]byte("0123456789abcdef"))
			fmt.Fprintf(cli, "GET /ws HTTP/1.1\r\nHost: x\r\nUpgrade: websocket\r\nConnection: Upgrade\r\nSec-WebSocket-Key: %s\r\nSec-WebSocket-Version: 13\r\n\r\n", key)
			resp, err := http.ReadResponse(br, nil)
			if err != nil || resp.StatusCode != 101 {
				e.bailed = true
				return
			}
			h := sha1.Sum([]byte(key + "258EAFA5-E914-47DA-95CA-C5AB0DC85B11"))
			_ = h
			for i := 0; i < 2000 && e.nbc() == nil; i++ {
				time.Sleep(time.Millisecond)
			}
			time.Sleep(2 * time.Millisecond)
			if wskaUs > 0 {
				tr.set(0, t0+wskaUs, e.us()+wskaUs, t0)
			} else {
				tr.clear(0, t0) // Upgrader.KeepaliveTime == 0: the HTTP keep-alive deadline is cleared, none is in force
			}
		case "msg":
			if cli == nil {
				e.bailed = true
				return
			}
			_ = cli.SetDeadline(time.Now().Add(5 * time.Second))
			frame := []byte{0x81, 0x85, 1, 2, 3, 4, 'h' ^ 1, 'e' ^ 2, 'l' ^ 3, 'l' ^ 4, 'o' ^ 1}
			if _, err := cli.Write(frame); err != nil {
				e.bailed = true
				return
			}
			echo := make([]byte, 7)
			if _, err := io.ReadFull(br, echo); err != nil {
				e.bailed = true
				return
			}
			time.Sleep(2 * time.Millisecond) // the renewal runs after the handler returned
			if c := e.nbc(); c != nil && !c.VerifState().Closed && wskaUs > 0 {
				tr.set(0, t0+wskaUs, e.us()+wskaUs, t0)
			}
		case "ping":
			if cli == nil {
				e.bailed = true
				return
			}
			_ = cli.SetDeadline(time.Now().Add(5 * time.Second))
			if _, err := cli.Write([]byte{0x89, 0x81, 1, 2, 3, 4, 'p' ^ 1}); err != nil {
				e.bailed = true
				return
			}
			pong := make([]byte, 3)
			if _, err := io.ReadFull(br, pong); err != nil {
				e.bailed = true
				return
			}
			time.Sleep(2 * time.Millisecond) // the renewal runs after the handler returned
			if c := e.nbc(); c != nil && !c.VerifState().Closed && wskaUs > 0 {
				tr.set(0, t0+wskaUs, e.us()+wskaUs, t0)
			}
		case "pong":
			if cli == nil {
				e.bailed = true
				return
			}
			_ = cli.SetDeadline(time.Now().Add(5 * time.Second))
			if _, err := cli.Write([]byte{0x8a, 0x81, 1, 2, 3, 4, 'q' ^ 1}); err != nil {
				e.bailed = true
				return
			}
			// nothing comes back for an unsolicited pong: give the poller and the handler a moment
			time.Sleep(4 * time.Millisecond)
			if c := e.nbc(); c != nil && !c.VerifState().Closed && wskaUs > 0 {
				tr.set(0, t0+wskaUs, e.us()+wskaUs, t0)
			}
		case "wait":
		}
	}
	return do, func() {
		if cli != nil {
			_ = cli.Close()
		}
		if stdSrv != nil {
			_ = stdSrv.Close()
		}
		stopEngine(func() { eng.Stop() })
	}
}

func exec(e *lp.Exec) {
	go lagMonitor()
	logging.SetLevel(logging.LevelNone)
	vsys.VirtualAll = true
	nbio.MaxOpenFiles = 19999
	par := 48
	if s := os.Getenv("HDEADLINE_PAR"); s != "" {
		par = atoi(s)
	}
	var cases []*caseRun
	for e.In.Scan() {
		ln := strings.TrimSpace(e.In.Text())
		if ln == "" {
			continue
		}
		if strings.HasPrefix(ln, "C ") {
			cases = append(cases, &caseRun{})
		}
		if len(cases) == 0 {
			continue
		}
		c := cases[len(cases)-1]
		c.lines = append(c.lines, ln)
	}
	sem := make(chan struct{}, par)
	var wg sync.WaitGroup
	for _, c := range cases {
		wg.Add(1)
		sem <- struct{}{}
		go func(c *caseRun) {
			defer func() { <-sem; wg.Done() }()
			runCase(c)
		}(c)
	}
	wg.Wait()
	for _, c := range cases {
		e.W.Write(c.out.Bytes())
		for _, f := range c.fails {
			fmt.Fprintln(e.W, f)
		}
		e.Key(c.key, c.nt)
		for k, n := range c.stats {
			for i := 0; i < n; i++ {
				e.Count("ops", k)
			}
		}
		e.Count("cases", strings.Fields(c.lines[0])[2])
	}
	e.W.Flush()
}

func main() { lp.Main(gen, exec) }
