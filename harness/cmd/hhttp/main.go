// hhttp: HTTP/1.x parser harness (C06, C07, C08; parser part of C11).
//
// ops:   C <client 0|1> <maxBody> <readLimit>
//        D <hex segment>
// exec prints "> D <hex> badurl=<hex,..> badproto=<hex,..>" (the op annotated with the verdicts of
// url.ParseRequestURI / http.ParseHTTPVersion the real processors gave, which the model takes as
// inputs) followed by
//        R ok cache=<n> st=<parser state> [ev;ev;...] msgs=<delivered messages>
//        R err=<code> [ev;...]
//        dead                      (segment after an error: not fed)
// Direct oracles (implementation only):
//   c06-whole-vs-segmented  the same bytes fed in one piece give the same events/messages/error
//   c08-panic               Parse recovered from a panic (log line)
//   c08-retained            retained bytes > max(ReadLimit, len(data))
//   c08-body                body held > MaxHTTPBodySize
//   c08-after-error         events emitted by a Parse call that follows an error
package main

import (
	"errors"
	"fmt"
	"io"
	"net"
	"net/http"
	"os"
	"sort"
	"strconv"
	"strings"
	"time"

	"harness/internal/lp"

	"github.com/lesismal/nbio/logging"
	"github.com/lesismal/nbio/nbhttp"
)

type fakeConn struct{ closed bool }

func (c *fakeConn) Read(b []byte) (int, error)         { return 0, nil }
func (c *fakeConn) Write(b []byte) (int, error)        { return len(b), nil }
func (c *fakeConn) Close() error                       { c.closed = true; return nil }
func (c *fakeConn) LocalAddr() net.Addr                { return &net.TCPAddr{} }
func (c *fakeConn) RemoteAddr() net.Addr               { return &net.TCPAddr{} }
func (c *fakeConn) SetDeadline(t time.Time) error      { return nil }
func (c *fakeConn) SetReadDeadline(t time.Time) error  { return nil }
func (c *fakeConn) SetWriteDeadline(t time.Time) error { return nil }

type capLogger struct{ panics int }

func (l *capLogger) Debug(f string, v ...interface{}) {}
func (l *capLogger) Info(f string, v ...interface{})  {}
func (l *capLogger) Warn(f string, v ...interface{})  {}
func (l *capLogger) Error(f string, v ...interface{}) {
	if strings.Contains(f, "Parse failed") || strings.Contains(f, "failed") {
		l.panics++
	}
}

// rec wraps the real processor, recording every callback.
type rec struct {
	inner    nbhttp.Processor
	evs      []string
	msgs     []string
	badURL   []string
	badProto []string
	okProto  []string
	held     int
	maxHeld  int
}

func hx(s string) string { return lp.Hex([]byte(s)) }

func (r *rec) OnMethod(p *nbhttp.Parser, m string) {
	r.evs = append(r.evs, "method "+hx(m))
	r.inner.OnMethod(p, m)
}
func (r *rec) OnURL(p *nbhttp.Parser, u string) error {
	err := r.inner.OnURL(p, u)
	if err != nil {
		r.badURL = append(r.badURL, hx(u))
	} else {
		r.evs = append(r.evs, "url "+hx(u))
	}
	return err
}
func (r *rec) OnProto(p *nbhttp.Parser, s string) error {
	err := r.inner.OnProto(p, s)
	if err != nil {
		r.badProto = append(r.badProto, hx(s))
	} else {
		r.okProto = append(r.okProto, hx(s))
		r.evs = append(r.evs, "proto "+hx(s))
	}
	return err
}
func (r *rec) OnStatus(p *nbhttp.Parser, code int, s string) {
	r.evs = append(r.evs, fmt.Sprintf("status %d %s", code, hx(s)))
	r.inner.OnStatus(p, code, s)
}
func (r *rec) OnHeader(p *nbhttp.Parser, k, v string) {
	r.evs = append(r.evs, "header "+hx(k)+" "+hx(v))
	r.inner.OnHeader(p, k, v)
}
func (r *rec) OnContentLength(p *nbhttp.Parser, n int) {
	r.evs = append(r.evs, "cl "+strconv.Itoa(n))
	r.inner.OnContentLength(p, n)
}
func (r *rec) OnBody(p *nbhttp.Parser, d []byte) error {
	err := r.inner.OnBody(p, d)
	if err == nil {
		r.held += len(d)
		if r.held > r.maxHeld {
			r.maxHeld = r.held
		}
		r.evs = append(r.evs, "body "+lp.Hex(d))
	}
	return err
}
func (r *rec) OnTrailerHeader(p *nbhttp.Parser, k, v string) {
	r.evs = append(r.evs, "trailer "+hx(k)+" "+hx(v))
	r.inner.OnTrailerHeader(p, k, v)
}
func (r *rec) OnComplete(p *nbhttp.Parser) {
	r.evs = append(r.evs, "complete")
	r.held = 0
	r.inner.OnComplete(p)
}
func (r *rec) Close(p *nbhttp.Parser, err error) { r.inner.Clean(p) }
func (r *rec) Clean(p *nbhttp.Parser)            { r.inner.Clean(p) }

func hdrString(h http.Header) string {
	ks := make([]string, 0, len(h))
	for k := range h {
		ks = append(ks, k)
	}
	sort.Strings(ks)
	var sb strings.Builder
	for _, k := range ks {
		sb.WriteString(hx(k) + ":" + hx(strings.Join(h[k], "\x00")) + ",")
	}
	return sb.String()
}

func errCode(err error) int {
	switch {
	case errors.Is(err, net.ErrClosed):
		return 1
	case errors.Is(err, nbhttp.ErrInvalidMethod):
		return 2
	case errors.Is(err, nbhttp.ErrInvalidRequestURI):
		return 3
	case errors.Is(err, nbhttp.ErrLFExpected):
		return 4
	case errors.Is(err, nbhttp.ErrCRExpected):
		return 5
	case errors.Is(err, nbhttp.ErrInvalidCharInHeader):
		return 6
	case errors.Is(err, nbhttp.ErrInvalidHTTPStatusCode):
		return 7
	case errors.Is(err, nbhttp.ErrInvalidHTTPStatus):
		return 8
	case errors.Is(err, nbhttp.ErrInvalidChunkSize):
		return 9
	case errors.Is(err, nbhttp.ErrTrailerExpected):
		return 10
	case errors.Is(err, nbhttp.ErrTooLong):
		return 11
	}
	s := err.Error()
	switch {
	case strings.HasPrefix(s, "too many transfer encodings"), strings.HasPrefix(s, "unsupported transfer encoding"):
		return 12
	case strings.HasPrefix(s, "bad Content-Length"), strings.HasPrefix(s, "length less than zero"), strings.HasPrefix(s, "length greater"):
		return 13
	case strings.HasPrefix(s, "bad trailer key"):
		return 14
	case strings.HasPrefix(s, "invalid trailer"):
		return 15
	case strings.HasPrefix(s, "chunk size"):
		return 9
	case strings.Contains(s, "strconv.Atoi"):
		return 18
	case strings.HasPrefix(s, "malformed HTTP version"):
		return 16
	}
	// url.ParseRequestURI errors
	if strings.HasPrefix(s, "parse ") {
		return 17
	}
	return 100
}

// ---------------------------------------------------------------- generator

func token(g *lp.Gen) string {
	const a = "abcdefghijklmnopqrstuvwxyzABCDEFGHIJKLMNOPQRSTUVWXYZ0123456789-_.!~"
	n := 1 + g.Intn(10)
	b := make([]byte, n)
	for i := range b {
		b[i] = a[g.Intn(len(a))]
	}
	return string(b)
}
func value(g *lp.Gen) string {
	const a = "abcdefghijklmnopqrstuvwxyz0123456789 ,;=/\"()-"
	n := g.Intn(16)
	b := make([]byte, n)
	for i := range b {
		b[i] = a[g.Intn(len(a))]
	}
	return strings.TrimSpace(string(b))
}
func body(g *lp.Gen, n int) string {
	b := make([]byte, n)
	for i := range b {
		b[i] = byte(g.Intn(256))
	}
	return string(b)
}

func genMsg(g *lp.Gen, client bool) string {
	var sb strings.Builder
	if client {
		sb.WriteString(g.Pick("HTTP/1.1", "HTTP/1.0") + " " + g.Pick("200 OK", "404 Not Found", "204 No Content", "500 Internal Server Error", "200 ", "301 Moved  Permanently") + "\r\n")
	} else {
		sb.WriteString(g.Pick("GET", "POST", "PUT", "DELETE", "HEAD", "OPTIONS", "PATCH", "get", "Post", "CONNECT", "TRACE") + " " + g.Pick("/", "/a/b?x=1", "*", "/echo", "/%41%zz", "/a%20b", "/x#frag") + " " + g.Pick("HTTP/1.1", "HTTP/1.0", "HTTP/1.1", "HTTP/2.0", "HTTP/1.x") + "\r\n")
	}
	nh := g.Intn(5)
	for i := 0; i < nh; i++ {
		switch g.Intn(8) {
		case 0:
			sb.WriteString("Host" + g.Pick(":", ": ") + g.Pick("example.com", "a.b:8080", "") + "\r\n")
		case 1:
			sb.WriteString(g.Pick("Connection", "connection") + ": " + g.Pick("close", "keep-alive", "Keep-Alive", "Close", "upgrade") + "\r\n")
		default:
			sb.WriteString(token(g) + g.Pick(":", ": ", ":  ", " :") + value(g) + g.Pick("", " ", "") + "\r\n")
		}
	}
	switch g.Intn(4) {
	case 0: // no body
	case 1:
		n := g.Intn(40)
		if g.Chance(1, 12) {
			n = g.PickInt(100, 300, 1000, 5000)
		}
		sb.WriteString(g.Pick("Content-Length", "content-length", "CONTENT-LENGTH") + ": " + strconv.Itoa(n) + g.Pick("", " ") + "\r\n\r\n" + body(g, n))
		return sb.String()
	default:
		trailers := []string{}
		if g.Chance(1, 2) {
			nt := 1 + g.Intn(3)
			for i := 0; i < nt; i++ {
				trailers = append(trailers, "X-T"+strconv.Itoa(i))
			}
			sb.WriteString("Trailer: " + strings.Join(trailers, g.Pick(",", ", ")) + "\r\n")
		}
		sb.WriteString(g.Pick("Transfer-Encoding", "transfer-encoding") + ": " + g.Pick("chunked", "Chunked", " chunked") + "\r\n\r\n")
		nc := g.Intn(4)
		for i := 0; i < nc; i++ {
			n := 1 + g.Intn(30)
			if g.Chance(1, 15) {
				n = g.PickInt(255, 256, 4096)
			}
			sb.WriteString(fmt.Sprintf(g.Pick("%x", "%X", "0%x"), n) + g.Pick("", ";ext=1", " ;a", ";abc") + "\r\n" + body(g, n) + "\r\n")
		}
		sb.WriteString("0\r\n")
		for _, t := range trailers {
			sb.WriteString(t + g.Pick(": ", ":") + g.Pick("v1", "abc def", "x") + "\r\n")
		}
		sb.WriteString("\r\n")
		return sb.String()
	}
	sb.WriteString("\r\n")
	return sb.String()
}

func mutate(g *lp.Gen, s string) string {
	b := []byte(s)
	if len(b) == 0 {
		return s
	}
	switch g.Intn(9) {
	case 0:
		b[g.Intn(len(b))] = byte(g.Intn(256))
	case 1:
		i := g.Intn(len(b))
		b = append(b[:i], b[i+1:]...)
	case 2:
		i := g.Intn(len(b))
		b = append(b[:i], append([]byte{g.Pick("\r", "\n", " ", ":", "\x00", "5", "g")[0]}, b[i:]...)...)
	case 3:
		return strings.Replace(s, "\r\n", "\n", 1)
	case 4:
		return strings.Replace(s, "Content-Length: ", "Content-Length: "+g.Pick("-", "+", "x", "99999999999999999999", " ", "0x"), 1)
	case 5:
		return strings.Replace(s, "chunked", g.Pick("gzip", "chunked, gzip", "chunked\r\nTransfer-Encoding: chunked", "identity"), 1)
	case 6:
		return strings.Replace(s, "Trailer: ", "Trailer: "+g.Pick("Content-Length,", "Transfer-Encoding, ", "Trailer,", ","), 1)
	case 7: // corrupt a chunk size line
		return strings.Replace(s, "\r\n\r\n", "\r\n\r\n"+g.Pick("zz", "-1", "7fffffffffffffffff", "", " 5"), 1)
	case 8: // truncate
		return s[:g.Intn(len(s))]
	}
	return string(b)
}

func gen(g *lp.Gen) {
	for cs := 0; cs < g.N; cs++ {
		client := g.Chance(1, 4)
		maxBody := 0
		if g.Chance(1, 5) {
			maxBody = 1 + g.Intn(60)
		}
		limit := 0
		if g.Chance(1, 5) {
			limit = 20 + g.Intn(200)
		}
		var stream string
		if g.Chance(1, 25) { // pure random bytes
			stream = body(g, 1+g.Intn(60))
		} else {
			nm := 1 + g.Intn(3)
			for i := 0; i < nm; i++ {
				m := genMsg(g, client)
				if g.Chance(1, 3) {
					m = mutate(g, m)
				}
				stream += m
			}
		}
		cl := 0
		if client {
			cl = 1
		}
		g.P("C %d %d %d", cl, maxBody, limit)
		rest := []byte(stream)
		mode := g.Intn(4)
		cut := -1
		if mode == 3 && len(rest) > 1 { // a single cut position
			cut = 1 + g.Intn(len(rest)-1)
		}
		for len(rest) > 0 {
			n := len(rest)
			switch mode {
			case 0:
				n = 1
			case 1:
				n = 1 + g.Intn(len(rest))
			case 3:
				if cut > 0 {
					n = cut
					cut = -1
				}
			}
			if mode != 3 && n > 1 && g.Chance(1, 3) {
				n = 1 + g.Intn(8)
				if n > len(rest) {
					n = len(rest)
				}
			}
			g.P("D %s", lp.Hex(rest[:n]))
			rest = rest[n:]
		}
	}
}

// ---------------------------------------------------------------- executor

type sess struct {
	client  bool
	maxBody int
	limit   int
	p       *nbhttp.Parser
	r       *rec
	conn    *fakeConn
	engine  *nbhttp.Engine
}

func newSess(client bool, maxBody, limit int) *sess {
	engine := nbhttp.NewEngine(nbhttp.Config{ReadLimit: limit, MaxHTTPBodySize: maxBody})
	if limit == 0 {
		engine.ReadLimit = 0
	}
	s := &sess{client: client, maxBody: maxBody, limit: limit, engine: engine, conn: &fakeConn{}}
	r := &rec{}
	s.r = r
	if client {
		r.inner = nbhttp.NewClientProcessor(nil, func(res *http.Response, err error) {
			if err != nil || res == nil {
				r.msgs = append(r.msgs, "res-err")
				return
			}
			var b []byte
			if res.Body != nil {
				b, _ = io.ReadAll(res.Body)
			}
			r.msgs = append(r.msgs, fmt.Sprintf("res{%s|%d|%s|%s|cl%d|%d:%x|%s}", hx(res.Proto), res.StatusCode, hx(res.Status),
				hdrString(res.Header), res.ContentLength, len(b), lp.Fnv(b), hdrString(res.Trailer)))
		})
	} else {
		r.inner = nbhttp.NewServerProcessor()
		engine.Handler = http.HandlerFunc(func(w http.ResponseWriter, req *http.Request) {
			var b []byte
			if req.Body != nil {
				b, _ = io.ReadAll(req.Body)
			}
			r.msgs = append(r.msgs, fmt.Sprintf("req{%s|%s|%s|%s|%s|cl%d|te%s|%d:%x|%s|close%v}", hx(req.Method), hx(req.RequestURI), hx(req.Proto),
				hx(req.Host), hdrString(req.Header), req.ContentLength, hx(strings.Join(req.TransferEncoding, ",")), len(b), lp.Fnv(b), hdrString(req.Trailer), req.Close))
		})
	}
	s.p = nbhttp.NewParser(s.conn, engine, r, client, nil)
	return s
}

type result struct {
	errc int
	evs  string
	msgs string
}

func (s *sess) feed(seg []byte) result {
	s.r.evs = nil
	s.r.msgs = nil
	err := s.p.Parse(append([]byte{}, seg...))
	res := result{evs: strings.Join(s.r.evs, ";"), msgs: strings.Join(s.r.msgs, ";")}
	if err != nil {
		res.errc = errCode(err)
	}
	return res
}

func exec(e *lp.Exec) {
	lg := &capLogger{}
	logging.SetLogger(lg)
	var s *sess
	dead := false
	var segs [][]byte
	var allEvs, allMsgs []string
	finalErr := 0
	limitHit := false
	nontrivial := false
	var key strings.Builder
	finish := func() {
		if s == nil {
			return
		}
		// direct oracle C06: whole vs segmented, on the implementation alone
		if len(segs) > 0 && !limitHit {
			w := newSess(s.client, s.maxBody, s.limit)
			var whole []byte
			for _, sg := range segs {
				whole = append(whole, sg...)
			}
			r := w.feed(whole)
			segEvs := mergeBodies(strings.Join(allEvs, ";"))
			if mergeBodies(r.evs) != segEvs || r.errc != finalErr || r.msgs != strings.Join(allMsgs, ";") {
				e.Oracle("c06-whole-vs-segmented", "whole: err=%d [%s] msgs=%s ; segmented: err=%d [%s] msgs=%s", r.errc, mergeBodies(r.evs), r.msgs, finalErr, segEvs, strings.Join(allMsgs, ";"))
			}
			if s.maxBody > 0 && w.r.maxHeld > s.maxBody {
				e.Oracle("c08-body", "held=%d max=%d", w.r.maxHeld, s.maxBody)
			}
		}
		if s.maxBody > 0 && s.r.maxHeld > s.maxBody {
			e.Oracle("c08-body", "held=%d max=%d", s.r.maxHeld, s.maxBody)
		}
		// after an error the parser must stay silent if fed again (engine closes; parser level check)
		// (the engine's driver closes the parser on error: model that glue, then feed again)
		if finalErr != 0 {
			s.p.CloseAndClean(errors.New("parse error"))
			s.r.evs, s.r.msgs = nil, nil
			err := s.p.Parse([]byte("GET / HTTP/1.1\r\n\r\n"))
			if err == nil || len(s.r.evs) > 0 || len(s.r.msgs) > 0 {
				e.Oracle("c08-after-error", "after err=%d and close: Parse returned %v events [%s]", finalErr, err, strings.Join(s.r.evs, ";"))
			}
		}
		e.Key(key.String(), nontrivial)
		s = nil
	}
	for e.In.Scan() {
		line := e.In.Text()
		f := strings.Fields(line)
		if len(f) == 0 {
			continue
		}
		switch f[0] {
		case "C":
			finish()
			cl, _ := strconv.Atoi(f[1])
			mb, _ := strconv.Atoi(f[2])
			lim, _ := strconv.Atoi(f[3])
			s = newSess(cl == 1, mb, lim)
			dead, segs, allEvs, allMsgs, finalErr, limitHit, nontrivial = false, nil, nil, nil, 0, false, false
			key.Reset()
			fmt.Fprintf(&key, "%d/%v/%v|", cl, mb > 0, lim > 0)
			lg.panics = 0
			e.P("> %s", line)
			e.P("ok")
			e.Count("cases", map[bool]string{true: "client", false: "server"}[cl == 1])
		case "D":
			seg := lp.Unhex(f[1])
			if dead {
				e.P("> %s badurl= badproto=", line)
				e.P("dead")
				continue
			}
			segs = append(segs, seg)
			st0 := s.p.VerifState()
			cache0 := s.p.VerifCacheLen()
			t0 := time.Now()
			r := s.feed(seg)
			if d := time.Since(t0); d > 2*time.Second {
				e.Oracle("c08-slow", "Parse took %v on %d bytes", d, len(seg))
			}
			e.P("> D %s badurl=%s badproto=%s okproto=%s", f[1], strings.Join(s.r.badURL, ","), strings.Join(s.r.badProto, ","), strings.Join(s.r.okProto, ","))
			s.r.okProto = nil
			if lg.panics > 0 {
				e.Oracle("c08-panic", "Parse recovered from a panic")
				lg.panics = 0
			}
			if r.evs != "" {
				allEvs = append(allEvs, r.evs)
			}
			if r.msgs != "" {
				allMsgs = append(allMsgs, r.msgs)
			}
			fmt.Fprintf(&key, "%d>%d,", st0, s.p.VerifState())
			if cache0 > 0 || s.p.VerifCacheLen() > 0 {
				nontrivial = true
			}
			if r.errc != 0 {
				dead = true
				finalErr = r.errc
				nontrivial = true
				if r.errc == 11 && cache0 > 0 && s.limit > 0 && cache0+len(seg) > s.limit {
					limitHit = true
				}
				fmt.Fprintf(&key, "E%d", r.errc)
				e.Count("error_kinds", strconv.Itoa(r.errc))
				e.P("R err=%d [%s] msgs=%s", r.errc, r.evs, r.msgs)
				continue
			}
			cl := s.p.VerifCacheLen()
			if s.limit > 0 {
				bound := s.limit
				if len(seg) > bound {
					bound = len(seg)
				}
				if cl > bound {
					e.Oracle("c08-retained", "cache=%d limit=%d data=%d", cl, s.limit, len(seg))
				}
			}
			e.Count("parse_calls", "ok")
			e.P("R ok cache=%d st=%d [%s] msgs=%s", cl, s.p.VerifState(), r.evs, r.msgs)
		default:
			e.P("> %s", line)
			e.P("bad-op")
		}
	}
	finish()
}

// mergeBodies canonicalises an event stream for the whole-vs-segmented oracle: consecutive body
// events are one body (how a body is sliced into callbacks is segmentation by definition).
func mergeBodies(evs string) string {
	if evs == "" {
		return ""
	}
	parts := strings.Split(evs, ";")
	var out []string
	for _, p := range parts {
		if strings.HasPrefix(p, "body ") && len(out) > 0 && strings.HasPrefix(out[len(out)-1], "body ") {
			out[len(out)-1] += p[5:]
			continue
		}
		out = append(out, p)
	}
	return strings.Join(out, ";")
}

func main() {
	if len(os.Args) > 1 && os.Args[1] == "facts" {
		facts()
		return
	}
	lp.Main(gen, exec)
}
