// hhttp: HTTP/1.x parser harness (C06, C07, C08; parser part of C11).
//
// ops:   C <client 0|1> <maxBody> <readLimit>
//        D <hex segment>
// exec prints "> D <hex> badurl=<hex,..> badproto=<hex,..>" (the op annotated with the verdicts of
// url.ParseRequestURI / http.ParseHTTPVersion the real processors gave, which the model takes as
// inputs) followed by
//        R ok cache=<n> st=<parser state> [ev;ev;...] msgs=<delivered messages>
//        R err=<code> [ev;...]
//        dead                      (segment after an error: not fed)
// Direct oracles (implementation only):
//   c06-whole-vs-segmented  the same bytes fed in one piece give the same events/messages/error
//   c08-panic               Parse recovered from a panic (log line)
//   c08-guessed-framing     a message the byte-at-a-time reading rejects is delivered when fed in one read
//   c08-retained            retained bytes > max(ReadLimit, largest read of the connection so far)  (c08_retained_chain)
//   c08-body                body held > MaxHTTPBodySize
//   c08-after-error         events emitted by a Parse call that follows an error
package main

import (
	"errors"
	"fmt"
	"os"
	"regexp"
	"strconv"
	"strings"
	"time"

	"harness/internal/hx"
	"harness/internal/lp"

	"github.com/lesismal/nbio/logging"
)

func exec(e *lp.Exec) {
	lg := &hx.CapLogger{}
	logging.SetLogger(lg)
	var s *hx.Sess
	dead := false
	var segs [][]byte
	var allEvs, allMsgs []string
	finalErr := 0
	limitHit := false
	maxSeg := 0 // largest read of the case so far
	nontrivial := false
	var key strings.Builder
	finish := func() {
		if s == nil {
			return
		}
		// direct oracle C06: whole vs segmented, on the implementation alone
		if len(segs) > 0 && !limitHit {
			w := hx.NewSess(s.Client, s.MaxBody, s.Limit)
			var whole []byte
			for _, sg := range segs {
				whole = append(whole, sg...)
			}
			r := w.Feed(whole)
			segEvs := mergeBodies(strings.Join(allEvs, ";"))
			if mergeBodies(r.Evs) != segEvs || r.Errc != finalErr || r.Msgs != strings.Join(allMsgs, ";") {
				e.Oracle("c06-whole-vs-segmented", "whole: err=%d [%s] msgs=%s ; segmented: err=%d [%s] msgs=%s", r.Errc, mergeBodies(r.Evs), r.Msgs, finalErr, segEvs, strings.Join(allMsgs, ";"))
			}
			if s.MaxBody > 0 && w.R.MaxHeld > s.MaxBody {
				e.Oracle("c08-body", "held=%d max=%d", w.R.MaxHeld, s.MaxBody)
			}
			// direct oracle C08: every line end the parser accepted is a full CR LF (byte-at-a-time run gives the
			// exact extent of every completed message)
			if len(whole) <= 4000 {
				b := hx.NewSess(s.Client, s.MaxBody, s.Limit)
				bErr := 0
				for i := range whole {
					if r := b.Feed(whole[i : i+1]); r.Errc != 0 {
						bErr = r.Errc
						break
					}
				}
				// direct oracle C08: malformed framing is rejected, not guessed. The byte-at-a-time reading is the
				// reference (one decision per byte, nothing to look ahead at): a message it rejects must not be delivered
				// because more bytes happened to arrive in the same read. (ReadLimit off: its test depends on the reads.)
				if s.Limit == 0 && bErr != 0 && len(w.R.Seen) > len(b.R.Seen) {
					e.Oracle("c08-guessed-framing", "fed in one read: %d messages delivered, err=%d; byte by byte: err=%d after %d messages — %q",
						len(w.R.Seen), r.Errc, bErr, len(b.R.Seen), trunc(string(whole), 200))
				}
				prev := 0
				for k, end := range b.R.DoneAt {
					if k < len(b.R.Seen) && end <= len(whole) && prev <= end {
						if why := lineEnds(whole[prev:end], b.R.Seen[k]); why != "" {
							e.Oracle("c08-line-endings", "%s in accepted message %q", why, trunc(string(whole[prev:end]), 200))
						}
					}
					prev = end
				}
			}
		}
		if s.MaxBody > 0 && s.R.MaxHeld > s.MaxBody {
			e.Oracle("c08-body", "held=%d max=%d", s.R.MaxHeld, s.MaxBody)
		}
		// after an error the parser must stay silent if fed again (engine closes; parser level check)
		// (the engine's driver closes the parser on error: model that glue, then feed again)
		if finalErr != 0 {
			s.P.CloseAndClean(errors.New("parse error")) // idempotent: already closed when the error was returned
			s.R.Evs, s.R.Msgs = nil, nil
			err := s.P.Parse([]byte("GET / HTTP/1.1\r\n\r\n"))
			if err == nil || len(s.R.Evs) > 0 || len(s.R.Msgs) > 0 {
				e.Oracle("c08-after-error", "after err=%d and close: Parse returned %v events [%s]", finalErr, err, strings.Join(s.R.Evs, ";"))
			}
		}
		e.Key(key.String(), nontrivial)
		s = nil
	}
	for e.In.Scan() {
		line := e.In.Text()
		f := strings.Fields(line)
		if len(f) == 0 {
			continue
		}
		switch f[0] {
		case "C":
			finish()
			cl, _ := strconv.Atoi(f[1])
			mb, _ := strconv.Atoi(f[2])
			lim, _ := strconv.Atoi(f[3])
			s = hx.NewSess(cl == 1, mb, lim)
			dead, segs, allEvs, allMsgs, finalErr, limitHit, nontrivial = false, nil, nil, nil, 0, false, false
			maxSeg = 0
			key.Reset()
			fmt.Fprintf(&key, "%d/%v/%v|", cl, mb > 0, lim > 0)
			lg.Panics = 0
			e.P("> %s", line)
			e.P("ok")
			e.Count("cases", map[bool]string{true: "client", false: "server"}[cl == 1])
		case "D":
			var seg []byte // "-" = an empty read: Parse returns at once, before the ReadLimit test
			if f[1] != "-" {
				seg = lp.Unhex(f[1])
			}
			if dead {
				// the engine glue has closed the parser (CloseAndClean on the first error); the transport may still
				// deliver data: every further Parse must return net.ErrClosed without any callback
				segs = append(segs, seg)
				r := s.Feed(seg)
				e.P("> %s badurl= badproto= okproto=", strings.Join(f[:2], " "))
				if r.Evs != "" || r.Msgs != "" || r.Errc != 1 {
					e.Oracle("c08-after-error", "Parse after the error and CloseAndClean: err=%d events [%s] msgs=%s", r.Errc, r.Evs, r.Msgs)
				}
				e.P("R err=%d [%s] msgs=%s", r.Errc, r.Evs, r.Msgs)
				continue
			}
			segs = append(segs, seg)
			st0 := s.P.VerifState()
			cache0 := s.P.VerifCacheLen()
			t0 := time.Now()
			r := s.Feed(seg)
			if d := time.Since(t0); d > 2*time.Second {
				// wall-clock oracle: one-sided, and re-run three times on a fresh parser before reporting (a loaded
				// machine can stall any single call); a hang proper is caught by the executor's timeout
				slow := true
				for try := 0; try < 3 && slow; try++ {
					w := hx.NewSess(s.Client, s.MaxBody, s.Limit)
					for _, sg := range segs[:len(segs)-1] {
						w.Feed(sg)
					}
					t1 := time.Now()
					w.Feed(seg)
					if time.Since(t1) <= 2*time.Second {
						slow = false
					}
				}
				if slow {
					e.Oracle("c08-slow", "Parse took %v on %d bytes (and more than 2s in three re-runs)", d, len(seg))
				}
			}
			e.P("> D %s badurl=%s badproto=%s okproto=%s", f[1], strings.Join(s.R.BadURL, ","), strings.Join(s.R.BadProto, ","), strings.Join(s.R.OkProto, ","))
			s.R.OkProto = nil
			if lg.Panics > 0 {
				e.Oracle("c08-panic", "Parse recovered from a panic")
				lg.Panics = 0
			}
			for _, v := range s.R.Framing {
				e.Oracle("c08-framing-rejected", "%s", v)
			}
			s.R.Framing = nil
			if r.Evs != "" {
				allEvs = append(allEvs, r.Evs)
			}
			if r.Msgs != "" {
				allMsgs = append(allMsgs, r.Msgs)
			}
			fmt.Fprintf(&key, "%d>%d,", st0, s.P.VerifState())
			if cache0 > 0 || s.P.VerifCacheLen() > 0 {
				nontrivial = true
			}
			if r.Errc != 0 {
				dead = true
				finalErr = r.Errc
				nontrivial = true
				if r.Errc == 11 && cache0 > 0 && s.Limit > 0 && cache0+len(seg) > s.Limit {
					limitHit = true
				}
				fmt.Fprintf(&key, "E%d", r.Errc)
				e.Count("error_kinds", strconv.Itoa(r.Errc))
				e.P("R err=%d [%s] msgs=%s", r.Errc, r.Evs, r.Msgs)
				// what every reader of nbhttp/engine.go does on a parse error
				s.P.CloseAndClean(r.Err)
				continue
			}
			cl := s.P.VerifCacheLen()
			if len(seg) > maxSeg {
				maxSeg = len(seg)
			}
			if s.Limit > 0 {
				// the trace-level bound (c08_retained_chain): a first read into an empty cache may be retained whole and
				// stays until the next non-empty read trips the limit — an empty read in between does not
				bound := s.Limit
				if maxSeg > bound {
					bound = maxSeg
				}
				if cl > bound {
					e.Oracle("c08-retained", "cache=%d limit=%d largest read=%d", cl, s.Limit, maxSeg)
				}
			}
			e.Count("parse_calls", "ok")
			e.P("R ok cache=%d:%x st=%d held=%d [%s] msgs=%s", cl, lp.Fnv(s.P.VerifCache()), s.P.VerifState(), s.R.Held, r.Evs, r.Msgs)
		default:
			e.P("> %s", line)
			e.P("bad-op")
		}
	}
	finish()
}

// lineEnds checks the line terminators of a message the parser accepted as complete: the header section ends with
// CR LF CR LF, no header line contains a bare CR or LF, and a message without a Content-Length body ends in CR LF CR LF.
var blankLine = regexp.MustCompile("\r\n *\r\n")
var chunkLine = regexp.MustCompile("^[0-9a-fA-F]+[ \t]*(;.*)?$")
var chunkedEnd = regexp.MustCompile("\r\n[^\r]*\r\n$")

func lineEnds(msg []byte, seen hx.Seen) string {
	ms := string(msg)
	// the blank line: CR LF, possibly preceded by spaces (nbhttp skips spaces where a header line may start)
	loc := blankLine.FindStringIndex(ms)
	if loc == nil {
		return "no CR LF CR LF after the header section"
	}
	he, hl := loc[0], loc[1]-loc[0]
	lines := strings.Split(ms[:he], "\r\n")
	for _, l := range lines {
		if strings.ContainsAny(l, "\r\n") {
			return "bare CR or LF inside a start line or header line"
		}
	}
	chunked := len(seen.Header["Transfer-Encoding"]) > 0
	// RFC 7230 3.3.3 rule 1: a 1xx / 204 / 304 response ends at the blank line whatever its framing fields say
	bodiless := seen.IsResp && (seen.StatusCode/100 == 1 || seen.StatusCode == 204 || seen.StatusCode == 304)
	switch {
	case bodiless:
		if len(ms) != he+hl {
			return "bodiless response does not end at the blank line"
		}
	case chunked:
		// walk the chunked body: size lines and trailer lines end in CR LF and contain no bare CR or LF; the
		// chunk-size line is HEXDIG+ [BWS] [";" extension]
		rest := ms[he+hl:]
		for {
			i := strings.Index(rest, "\r\n")
			if i < 0 {
				return "chunk-size line without CR LF"
			}
			line := rest[:i]
			if strings.ContainsAny(line, "\r\n") {
				return "bare CR or LF inside a chunk-size line"
			}
			if !chunkLine.MatchString(line) {
				return fmt.Sprintf("chunk-size line %q is not HEXDIG+ [BWS] [\";\" extension]", trunc(line, 40))
			}
			j := 0
			for j < len(line) && strings.IndexByte("0123456789abcdefABCDEF", line[j]) >= 0 {
				j++
			}
			n, err := strconv.ParseInt(line[:j], 16, 63)
			if err != nil {
				return "chunk size does not parse"
			}
			rest = rest[i+2:]
			if n == 0 {
				break
			}
			if int64(len(rest)) < n+2 || rest[n:n+2] != "\r\n" {
				return "chunk data not followed by CR LF"
			}
			rest = rest[n+2:]
		}
		// trailer section
		if !chunkedEnd.MatchString("\r\n" + rest) {
			return "chunked message does not end with CR LF CR LF"
		}
		for _, l := range strings.Split(strings.TrimSuffix(rest, "\r\n"), "\r\n") {
			if strings.ContainsAny(l, "\r\n") && strings.Trim(l, " \t\n") != "" {
				return "bare CR or LF inside a trailer line"
			}
		}
	case seen.CL <= 0:
		if len(ms) != he+hl {
			return "message without body does not end at the blank line"
		}
	}
	return ""
}

func trunc(s string, n int) string {
	if len(s) > n {
		return s[:n] + "..."
	}
	return s
}

// mergeBodies canonicalises an event stream for the whole-vs-segmented oracle: consecutive body
// events are one body (how a body is sliced into callbacks is segmentation by definition).
func mergeBodies(evs string) string {
	if evs == "" {
		return ""
	}
	parts := strings.Split(evs, ";")
	var out []string
	for _, p := range parts {
		if strings.HasPrefix(p, "body ") && len(out) > 0 && strings.HasPrefix(out[len(out)-1], "body ") {
			out[len(out)-1] += p[5:]
			continue
		}
		out = append(out, p)
	}
	return strings.Join(out, ";")
}

func main() {
	if len(os.Args) > 1 && os.Args[1] == "facts" {
		facts()
		return
	}
	lp.Main(gen, exec)
}
