// hhttp: HTTP/1.x parser harness (C06, C07, C08; parser part of C11).
//
// ops:   C <client 0|1> <maxBody> <readLimit>
//        D <hex segment>
// exec prints "> D <hex> badurl=<hex,..> badproto=<hex,..>" (the op annotated with the verdicts of
// url.ParseRequestURI / http.ParseHTTPVersion the real processors gave, which the model takes as
// inputs) followed by
//        R ok cache=<n> st=<parser state> [ev;ev;...] msgs=<delivered messages>
//        R err=<code> [ev;...]
//        dead                      (segment after an error: not fed)
// Direct oracles (implementation only):
//   c06-whole-vs-segmented  the same bytes fed in one piece give the same events/messages/error
//   c08-panic               Parse recovered from a panic (log line)
//   c08-retained            retained bytes > max(ReadLimit, len(data))
//   c08-body                body held > MaxHTTPBodySize
//   c08-after-error         events emitted by a Parse call that follows an error
package main

import (
	"errors"
	"fmt"
	"os"
	"strconv"
	"strings"
	"time"

	"harness/internal/hx"
	"harness/internal/lp"

	"github.com/lesismal/nbio/logging"
)

// ---------------------------------------------------------------- generator

func token(g *lp.Gen) string {
	const a = "abcdefghijklmnopqrstuvwxyzABCDEFGHIJKLMNOPQRSTUVWXYZ0123456789-_.!~"
	n := 1 + g.Intn(10)
	b := make([]byte, n)
	for i := range b {
		b[i] = a[g.Intn(len(a))]
	}
	return string(b)
}
func value(g *lp.Gen) string {
	const a = "abcdefghijklmnopqrstuvwxyz0123456789 ,;=/\"()-"
	n := g.Intn(16)
	b := make([]byte, n)
	for i := range b {
		b[i] = a[g.Intn(len(a))]
	}
	return strings.TrimSpace(string(b))
}
func body(g *lp.Gen, n int) string {
	b := make([]byte, n)
	for i := range b {
		b[i] = byte(g.Intn(256))
	}
	return string(b)
}

func genMsg(g *lp.Gen, client bool) string {
	var sb strings.Builder
	if client {
		sb.WriteString(g.Pick("HTTP/1.1", "HTTP/1.0") + " " + g.Pick("200 OK", "404 Not Found", "204 No Content", "500 Internal Server Error", "200 ", "301 Moved  Permanently") + "\r\n")
	} else {
		sb.WriteString(g.Pick("GET", "POST", "PUT", "DELETE", "HEAD", "OPTIONS", "PATCH", "get", "Post", "CONNECT", "TRACE") + " " + g.Pick("/", "/a/b?x=1", "*", "/echo", "/%41%zz", "/a%20b", "/x#frag") + " " + g.Pick("HTTP/1.1", "HTTP/1.0", "HTTP/1.1", "HTTP/2.0", "HTTP/1.x") + "\r\n")
	}
	nh := g.Intn(5)
	for i := 0; i < nh; i++ {
		switch g.Intn(8) {
		case 0:
			sb.WriteString("Host" + g.Pick(":", ": ") + g.Pick("example.com", "a.b:8080", "") + "\r\n")
		case 1:
			sb.WriteString(g.Pick("Connection", "connection") + ": " + g.Pick("close", "keep-alive", "Keep-Alive", "Close", "upgrade") + "\r\n")
		default:
			sb.WriteString(token(g) + g.Pick(":", ": ", ":  ", " :") + value(g) + g.Pick("", " ", "") + "\r\n")
		}
	}
	switch g.Intn(4) {
	case 0: // no body
	case 1:
		n := g.Intn(40)
		if g.Chance(1, 12) {
			n = g.PickInt(100, 300, 1000, 5000)
		}
		sb.WriteString(g.Pick("Content-Length", "content-length", "CONTENT-LENGTH") + ": " + strconv.Itoa(n) + g.Pick("", " ") + "\r\n\r\n" + body(g, n))
		return sb.String()
	default:
		trailers := []string{}
		if g.Chance(1, 2) {
			nt := 1 + g.Intn(3)
			for i := 0; i < nt; i++ {
				trailers = append(trailers, "X-T"+strconv.Itoa(i))
			}
			sb.WriteString("Trailer: " + strings.Join(trailers, g.Pick(",", ", ")) + "\r\n")
		}
		sb.WriteString(g.Pick("Transfer-Encoding", "transfer-encoding") + ": " + g.Pick("chunked", "Chunked", " chunked") + "\r\n\r\n")
		nc := g.Intn(4)
		for i := 0; i < nc; i++ {
			n := 1 + g.Intn(30)
			if g.Chance(1, 15) {
				n = g.PickInt(255, 256, 4096)
			}
			sb.WriteString(fmt.Sprintf(g.Pick("%x", "%X", "0%x"), n) + g.Pick("", ";ext=1", " ;a", ";abc") + "\r\n" + body(g, n) + "\r\n")
		}
		sb.WriteString("0\r\n")
		for _, t := range trailers {
			sb.WriteString(t + g.Pick(": ", ":") + g.Pick("v1", "abc def", "x") + "\r\n")
		}
		sb.WriteString("\r\n")
		return sb.String()
	}
	sb.WriteString("\r\n")
	return sb.String()
}

func mutate(g *lp.Gen, s string) string {
	b := []byte(s)
	if len(b) == 0 {
		return s
	}
	switch g.Intn(9) {
	case 0:
		b[g.Intn(len(b))] = byte(g.Intn(256))
	case 1:
		i := g.Intn(len(b))
		b = append(b[:i], b[i+1:]...)
	case 2:
		i := g.Intn(len(b))
		b = append(b[:i], append([]byte{g.Pick("\r", "\n", " ", ":", "\x00", "5", "g")[0]}, b[i:]...)...)
	case 3:
		return strings.Replace(s, "\r\n", "\n", 1)
	case 4:
		return strings.Replace(s, "Content-Length: ", "Content-Length: "+g.Pick("-", "+", "x", "99999999999999999999", " ", "0x"), 1)
	case 5:
		return strings.Replace(s, "chunked", g.Pick("gzip", "chunked, gzip", "chunked\r\nTransfer-Encoding: chunked", "identity"), 1)
	case 6:
		return strings.Replace(s, "Trailer: ", "Trailer: "+g.Pick("Content-Length,", "Transfer-Encoding, ", "Trailer,", ","), 1)
	case 7: // corrupt a chunk size line
		return strings.Replace(s, "\r\n\r\n", "\r\n\r\n"+g.Pick("zz", "-1", "7fffffffffffffffff", "", " 5"), 1)
	case 8: // truncate
		return s[:g.Intn(len(s))]
	}
	return string(b)
}

func gen(g *lp.Gen) {
	for cs := 0; cs < g.N; cs++ {
		client := g.Chance(1, 4)
		maxBody := 0
		if g.Chance(1, 5) {
			maxBody = 1 + g.Intn(60)
		}
		limit := 0
		if g.Chance(1, 5) {
			limit = 20 + g.Intn(200)
		}
		var stream string
		if g.Chance(1, 25) { // pure random bytes
			stream = body(g, 1+g.Intn(60))
		} else {
			nm := 1 + g.Intn(3)
			for i := 0; i < nm; i++ {
				m := genMsg(g, client)
				if g.Chance(1, 3) {
					m = mutate(g, m)
				}
				stream += m
			}
		}
		cl := 0
		if client {
			cl = 1
		}
		g.P("C %d %d %d", cl, maxBody, limit)
		rest := []byte(stream)
		mode := g.Intn(4)
		cut := -1
		if mode == 3 && len(rest) > 1 { // a single cut position
			cut = 1 + g.Intn(len(rest)-1)
		}
		for len(rest) > 0 {
			n := len(rest)
			switch mode {
			case 0:
				n = 1
			case 1:
				n = 1 + g.Intn(len(rest))
			case 3:
				if cut > 0 {
					n = cut
					cut = -1
				}
			}
			if mode != 3 && n > 1 && g.Chance(1, 3) {
				n = 1 + g.Intn(8)
				if n > len(rest) {
					n = len(rest)
				}
			}
			g.P("D %s", lp.Hex(rest[:n]))
			rest = rest[n:]
		}
	}
}

func exec(e *lp.Exec) {
	lg := &hx.CapLogger{}
	logging.SetLogger(lg)
	var s *hx.Sess
	dead := false
	var segs [][]byte
	var allEvs, allMsgs []string
	finalErr := 0
	limitHit := false
	nontrivial := false
	var key strings.Builder
	finish := func() {
		if s == nil {
			return
		}
		// direct oracle C06: whole vs segmented, on the implementation alone
		if len(segs) > 0 && !limitHit {
			w := hx.NewSess(s.Client, s.MaxBody, s.Limit)
			var whole []byte
			for _, sg := range segs {
				whole = append(whole, sg...)
			}
			r := w.Feed(whole)
			segEvs := mergeBodies(strings.Join(allEvs, ";"))
			if mergeBodies(r.Evs) != segEvs || r.Errc != finalErr || r.Msgs != strings.Join(allMsgs, ";") {
				e.Oracle("c06-whole-vs-segmented", "whole: err=%d [%s] msgs=%s ; segmented: err=%d [%s] msgs=%s", r.Errc, mergeBodies(r.Evs), r.Msgs, finalErr, segEvs, strings.Join(allMsgs, ";"))
			}
			if s.MaxBody > 0 && w.R.MaxHeld > s.MaxBody {
				e.Oracle("c08-body", "held=%d max=%d", w.R.MaxHeld, s.MaxBody)
			}
		}
		if s.MaxBody > 0 && s.R.MaxHeld > s.MaxBody {
			e.Oracle("c08-body", "held=%d max=%d", s.R.MaxHeld, s.MaxBody)
		}
		// after an error the parser must stay silent if fed again (engine closes; parser level check)
		// (the engine's driver closes the parser on error: model that glue, then feed again)
		if finalErr != 0 {
			s.P.CloseAndClean(errors.New("parse error"))
			s.R.Evs, s.R.Msgs = nil, nil
			err := s.P.Parse([]byte("GET / HTTP/1.1\r\n\r\n"))
			if err == nil || len(s.R.Evs) > 0 || len(s.R.Msgs) > 0 {
				e.Oracle("c08-after-error", "after err=%d and close: Parse returned %v events [%s]", finalErr, err, strings.Join(s.R.Evs, ";"))
			}
		}
		e.Key(key.String(), nontrivial)
		s = nil
	}
	for e.In.Scan() {
		line := e.In.Text()
		f := strings.Fields(line)
		if len(f) == 0 {
			continue
		}
		switch f[0] {
		case "C":
			finish()
			cl, _ := strconv.Atoi(f[1])
			mb, _ := strconv.Atoi(f[2])
			lim, _ := strconv.Atoi(f[3])
			s = hx.NewSess(cl == 1, mb, lim)
			dead, segs, allEvs, allMsgs, finalErr, limitHit, nontrivial = false, nil, nil, nil, 0, false, false
			key.Reset()
			fmt.Fprintf(&key, "%d/%v/%v|", cl, mb > 0, lim > 0)
			lg.Panics = 0
			e.P("> %s", line)
			e.P("ok")
			e.Count("cases", map[bool]string{true: "client", false: "server"}[cl == 1])
		case "D":
			seg := lp.Unhex(f[1])
			if dead {
				e.P("> %s badurl= badproto=", line)
				e.P("dead")
				continue
			}
			segs = append(segs, seg)
			st0 := s.P.VerifState()
			cache0 := s.P.VerifCacheLen()
			t0 := time.Now()
			r := s.Feed(seg)
			if d := time.Since(t0); d > 2*time.Second {
				e.Oracle("c08-slow", "Parse took %v on %d bytes", d, len(seg))
			}
			e.P("> D %s badurl=%s badproto=%s okproto=%s", f[1], strings.Join(s.R.BadURL, ","), strings.Join(s.R.BadProto, ","), strings.Join(s.R.OkProto, ","))
			s.R.OkProto = nil
			if lg.Panics > 0 {
				e.Oracle("c08-panic", "Parse recovered from a panic")
				lg.Panics = 0
			}
			if r.Evs != "" {
				allEvs = append(allEvs, r.Evs)
			}
			if r.Msgs != "" {
				allMsgs = append(allMsgs, r.Msgs)
			}
			fmt.Fprintf(&key, "%d>%d,", st0, s.P.VerifState())
			if cache0 > 0 || s.P.VerifCacheLen() > 0 {
				nontrivial = true
			}
			if r.Errc != 0 {
				dead = true
				finalErr = r.Errc
				nontrivial = true
				if r.Errc == 11 && cache0 > 0 && s.Limit > 0 && cache0+len(seg) > s.Limit {
					limitHit = true
				}
				fmt.Fprintf(&key, "E%d", r.Errc)
				e.Count("error_kinds", strconv.Itoa(r.Errc))
				e.P("R err=%d [%s] msgs=%s", r.Errc, r.Evs, r.Msgs)
				continue
			}
			cl := s.P.VerifCacheLen()
			if s.Limit > 0 {
				bound := s.Limit
				if len(seg) > bound {
					bound = len(seg)
				}
				if cl > bound {
					e.Oracle("c08-retained", "cache=%d limit=%d data=%d", cl, s.Limit, len(seg))
				}
			}
			e.Count("parse_calls", "ok")
			e.P("R ok cache=%d st=%d [%s] msgs=%s", cl, s.P.VerifState(), r.Evs, r.Msgs)
		default:
			e.P("> %s", line)
			e.P("bad-op")
		}
	}
	finish()
}

// mergeBodies canonicalises an event stream for the whole-vs-segmented oracle: consecutive body
// events are one body (how a body is sliced into callbacks is segmentation by definition).
func mergeBodies(evs string) string {
	if evs == "" {
		return ""
	}
	parts := strings.Split(evs, ";")
	var out []string
	for _, p := range parts {
		if strings.HasPrefix(p, "body ") && len(out) > 0 && strings.HasPrefix(out[len(out)-1], "body ") {
			out[len(out)-1] += p[5:]
			continue
		}
		out = append(out, p)
	}
	return strings.Join(out, ";")
}

func main() {
	if len(os.Args) > 1 && os.Args[1] == "facts" {
		facts()
		return
	}
	lp.Main(gen, exec)
}
