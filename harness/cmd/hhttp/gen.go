package main

// Generator of the C06/C08 stream: message sequences from the HTTP/1.x grammar built from class-tagged pieces
// (so that mutations can aim at a token class), mutated neighbours, random bytes; limits drawn around the sizes;
// segmentations: byte-at-a-time, random k-cuts, single cuts (aimed at the mutation site), and every single cut
// position of short streams.

import (
	"fmt"
	"strconv"
	"strings"

	"harness/internal/lp"
)

type piece struct {
	class string
	s     string
}

type msg []piece

func (m msg) String() string {
	var sb strings.Builder
	for _, p := range m {
		sb.WriteString(p.s)
	}
	return sb.String()
}

func (m *msg) add(class, s string) { *m = append(*m, piece{class, s}) }
func (m *msg) crlf()               { m.add("sep", "\r\n") }

func token(g *lp.Gen) string {
	const a = "abcdefghijklmnopqrstuvwxyzABCDEFGHIJKLMNOPQRSTUVWXYZ0123456789-_.!~"
	n := 1 + g.Intn(10)
	b := make([]byte, n)
	for i := range b {
		b[i] = a[g.Intn(len(a))]
	}
	return string(b)
}
func value(g *lp.Gen) string {
	const a = "abcdefghijklmnopqrstuvwxyz0123456789 ,;=/\"()-"
	n := g.Intn(16)
	b := make([]byte, n)
	for i := range b {
		b[i] = a[g.Intn(len(a))]
	}
	return strings.TrimSpace(string(b))
}
func body(g *lp.Gen, n int) string {
	b := make([]byte, n)
	for i := range b {
		b[i] = byte(g.Intn(256))
	}
	return string(b)
}

// odd-but-legal and illegal spellings of the framing header values
var teValues = []string{"chunked", "chunked", "chunked", "Chunked", "CHUNKED", " chunked", "chunked ", "chunked\t", "\tchunked", "", " ", "  ", "\t",
	"gzip", "chunked, gzip", "gzip, chunked", "identity", "chunked,", "x", "chunke", "chunkedd"}
var clOdd = []string{"", " ", "  ", "\t", "+5", "-5", "-0", "05", "5 ", "5  ", "5\t", " 5", "0x5", "5,5", "5 5", "99999999999999999999",
	"4611686018427387904", "4611686018427387903", "9223372036854775807", "9223372036854775808", "x", "5x", "٥"}
var trValues = []string{"", " ", ",", " , ", "X-T0", "x-t0", "X-T0, X-T1", "x-t0 ,X-T1,", "Content-Length", "content-length", "trailer", "X-T0, Transfer-Encoding",
	"Transfer-Encoding", " X-T0 ", "X-T0,X-T0"}

func colon(g *lp.Gen) string { return g.Pick(":", ": ", ": ", ":  ", " :", " : ") }

func genMsg(g *lp.Gen, client bool) msg {
	var m msg
	if client {
		m.add("proto", g.Pick("HTTP/1.1", "HTTP/1.1", "HTTP/1.0"))
		m.add("sep", " ")
		code := g.Pick("200", "404", "204", "500", "301", "100", "304")
		if g.Chance(1, 60) {
			code = g.Pick("99999999999999999999", "9223372036854775808", "20", "2000", "0")
		}
		m.add("code", code)
		if !g.Chance(1, 40) {
			m.add("sep", " ")
		}
		m.add("reason", g.Pick("OK", "Not Found", "No Content", "Internal Server Error", "", "Moved  Permanently", "OK ", "x"))
		m.crlf()
	} else {
		m.add("method", g.Pick("GET", "POST", "PUT", "DELETE", "HEAD", "OPTIONS", "PATCH", "get", "Post", "CONNECT", "TRACE", "PRI"))
		m.add("sep", " ")
		t := g.Pick("/", "/a/b?x=1", "*", "/echo", "/a%20b", "/x#frag", "/index.html")
		if g.Chance(1, 40) {
			t = g.Pick("/%41%zz", "/%", "http://a/b", "a", "/\x7f")
		}
		m.add("target", t)
		m.add("sep", " ")
		pr := g.Pick("HTTP/1.1", "HTTP/1.1", "HTTP/1.1", "HTTP/1.0")
		if g.Chance(1, 30) {
			pr = g.Pick("HTTP/2.0", "HTTP/1.x", "HTTP/0.9", "HTTP/11", "http/1.1", "HTTP/1.1 ")
		}
		m.add("proto", pr)
		m.crlf()
	}
	hdr := func(nclass, name, vclass, val string) {
		m.add(nclass, name)
		m.add("sep", colon(g))
		m.add(vclass, val)
		m.add("sep", g.Pick("", "", " "))
		m.crlf()
	}
	nh := g.Intn(5)
	for i := 0; i < nh; i++ {
		switch g.Intn(8) {
		case 0:
			hdr("hname", "Host", "hvalue", g.Pick("example.com", "a.b:8080", ""))
		case 1:
			hdr("hname", g.Pick("Connection", "connection"), "hvalue", g.Pick("close", "keep-alive", "Keep-Alive", "Close", "upgrade", "close, TE"))
		default:
			hdr("hname", token(g), "hvalue", value(g))
		}
	}
	te := func() { hdr("hname", g.Pick("Transfer-Encoding", "transfer-encoding", "TRANSFER-ENCODING"), "tevalue", teValues[g.Intn(len(teValues))]) }
	teOK := func() { hdr("hname", g.Pick("Transfer-Encoding", "transfer-encoding"), "tevalue", g.Pick("chunked", "Chunked", " chunked", "chunked ")) }
	clh := func(v string) { hdr("hname", g.Pick("Content-Length", "content-length", "CONTENT-LENGTH"), "clvalue", v) }
	kind := g.Intn(4)
	odd := g.Chance(1, 6) // odd framing spellings: the body follows what a lenient reader would assume
	switch {
	case kind == 0 && !odd: // no body
		m.crlf()
	case kind == 0: // framing fields with empty / blank / odd values and no body
		for i, n := 0, 1+g.Intn(2); i < n; i++ {
			switch g.Intn(3) {
			case 0:
				te()
			case 1:
				clh(clOdd[g.Intn(len(clOdd))])
			default:
				hdr("hname", g.Pick("Trailer", "trailer"), "trvalue", trValues[g.Intn(len(trValues))])
			}
		}
		m.crlf()
		if g.Chance(1, 2) {
			m.add("body", body(g, g.Intn(8)))
		}
	case kind == 1:
		n := g.Intn(40)
		if g.Chance(1, 12) {
			n = g.PickInt(100, 300, 1000, 5000)
		}
		v := strconv.Itoa(n)
		if odd {
			switch g.Intn(5) {
			case 0: // repeated, same / different, either order
				clh(g.Pick(v, strconv.Itoa(n+1), "", " ", "x"))
			case 1:
				v = g.Pick("+", "0", "00") + v
			case 2:
				v = v + g.Pick(" ", "  ", "\t", " \t")
			case 3:
				te() // a Transfer-Encoding of whatever spelling next to the Content-Length
			default:
				v = clOdd[g.Intn(len(clOdd))]
			}
		}
		clh(v)
		if odd && g.Chance(1, 3) {
			clh(g.Pick(v, strconv.Itoa(n+1), "", " ", "x"))
		}
		m.crlf()
		m.add("body", body(g, n))
	default:
		var trailers []string
		if g.Chance(1, 2) {
			nt := 1 + g.Intn(3)
			for i := 0; i < nt; i++ {
				trailers = append(trailers, "X-T"+strconv.Itoa(i))
			}
			if odd && g.Chance(1, 2) {
				hdr("hname", "Trailer", "trvalue", trValues[g.Intn(len(trValues))])
			} else {
				hdr("hname", g.Pick("Trailer", "trailer"), "trvalue", strings.Join(trailers, g.Pick(",", ", ", " , ")))
			}
		}
		if odd {
			switch g.Intn(4) {
			case 0: // repeated Transfer-Encoding, the second of any spelling, either order
				if g.Chance(1, 2) {
					te()
					teOK()
				} else {
					teOK()
					te()
				}
			case 1:
				te()
			case 2:
				teOK()
				clh(clOdd[g.Intn(len(clOdd))])
			default:
				clh(clOdd[g.Intn(len(clOdd))])
				teOK()
			}
		} else {
			teOK()
		}
		m.crlf()
		nc := g.Intn(4)
		for i := 0; i < nc; i++ {
			n := 1 + g.Intn(30)
			if g.Chance(1, 15) {
				n = g.PickInt(255, 256, 4096)
			}
			sz := fmt.Sprintf(g.Pick("%x", "%X", "0%x"), n)
			if g.Chance(1, 25) {
				// malformed and boundary sizes, with the chunk's data following: around 2^62 (the largest value
				// ParseInt(.., 16, 63) admits is 2^62-1) and around 2^63 / 2^64 (index arithmetic overflows)
				sz = g.Pick("zz", "-1", "", "0x1", "1g", "1 zz", "12 3",
					"3fffffffffffffff", "4000000000000000", "7fffffffffffffff", "8000000000000000", "ffffffffffffffff",
					"3FFFFFFFFFFFFFFF", "7FFFFFFFFFFFFFFF", "FFFFFFFFFFFFFFFF", "03fffffffffffffff", "07fffffffffffffff",
					"10000000000000000", "7fffffffffffffffff", "7ffffffffffffff0", "7ffffffffffffffe")
			}
			m.add("chunksize", sz)
			m.add("chunkext", g.Pick("", "", ";ext=1", " ;a", ";abc", " ", ";a=\"b c\""))
			m.crlf()
			m.add("chunkdata", body(g, n))
			m.crlf()
		}
		m.add("chunksize", g.Pick("0", "0", "00"))
		m.add("chunkext", g.Pick("", "", ";last"))
		m.crlf()
		if g.Chance(1, 12) && len(trailers) > 0 { // a declared trailer is missing / sent twice / one undeclared is sent
			switch g.Intn(3) {
			case 0:
				trailers = trailers[1:]
			case 1:
				trailers = append(trailers, trailers[0])
			default:
				trailers = append(trailers, "X-Undeclared")
			}
		}
		for _, t := range trailers {
			m.add("tname", g.Pick(t, strings.ToLower(t)))
			m.add("sep", g.Pick(": ", ":", " : "))
			m.add("tvalue", g.Pick("v1", "abc def", "x", "", "a b ", "v\tw"))
			m.crlf()
		}
		m.crlf()
	}
	return m
}

// inject inserts a control sequence inside a piece of one of the token classes; returns the offset just after it.
func inject(g *lp.Gen, m msg) (msg, int) {
	var idx []int
	for i, p := range m {
		if p.class != "sep" && p.class != "body" && p.class != "chunkdata" {
			idx = append(idx, i)
		}
	}
	if len(idx) == 0 {
		return m, -1
	}
	i := idx[g.Intn(len(idx))]
	ins := g.Pick("\n", "\n", "\r", "\r\r", "\n\r", "\r\n ", "\r\n\t", "\x00", "\t", " ", "\x7f", "\xff", ":")
	s := m[i].s
	pos := 0
	if len(s) > 0 {
		pos = g.Intn(len(s) + 1)
	}
	out := append(msg{}, m...)
	out[i] = piece{m[i].class, s[:pos] + ins + s[pos:]}
	off := 0
	for j := 0; j < i; j++ {
		off += len(m[j].s)
	}
	return out, off + pos + len(ins)
}

func mutate(g *lp.Gen, s string) string {
	b := []byte(s)
	if len(b) == 0 {
		return s
	}
	switch g.Intn(11) {
	case 0:
		b[g.Intn(len(b))] = byte(g.Intn(256))
	case 1:
		i := g.Intn(len(b))
		b = append(b[:i], b[i+1:]...)
	case 2:
		i := g.Intn(len(b))
		b = append(b[:i], append([]byte{g.Pick("\r", "\n", " ", ":", "\x00", "5", "g")[0]}, b[i:]...)...)
	case 3:
		return strings.Replace(s, "\r\n", "\n", 1)
	case 4:
		return strings.Replace(s, "\r\n", g.Pick("\r", "\r\r\n", "\n\r", "\r\n\r"), 1+g.Intn(3))
	case 5:
		return strings.Replace(s, "chunked", g.Pick("gzip", "chunked, gzip", "chunked\r\nTransfer-Encoding: chunked", "identity"), 1)
	case 6:
		return strings.Replace(s, "Trailer: ", "Trailer: "+g.Pick("Content-Length,", "Transfer-Encoding, ", "Trailer,", ","), 1)
	case 7: // corrupt a chunk size line
		return strings.Replace(s, "\r\n\r\n", "\r\n\r\n"+g.Pick("zz", "-1", "7fffffffffffffffff", "", " 5"), 1)
	case 8: // truncate
		return s[:g.Intn(len(s))]
	default: // damage ONE line terminator, anywhere in the message (start line, header line, blank line, chunk-size
		// line, end of chunk data, last chunk, trailer line): ops 3 and 4 only reach the first ones
		var at []int
		for i := 0; i+1 < len(s); i++ {
			if s[i] == '\r' && s[i+1] == '\n' {
				at = append(at, i)
			}
		}
		if len(at) == 0 {
			return s
		}
		if k := strings.Index(s, "\r\n\r\n"); k >= 0 && g.Chance(1, 2) { // half of the time: one inside the body
			var body []int
			for _, i := range at {
				if i > k+2 {
					body = append(body, i)
				}
			}
			if len(body) > 0 {
				at = body
			}
		}
		i := at[g.Intn(len(at))]
		x := string([]byte{byte(g.PickInt('X', '0', ' ', '\r', 0, 0xff, 'a'))})
		return s[:i] + g.Pick("\r"+x, "\r"+x, x+"\n", "\r", "\n", "\r\r\n", "\n\r") + s[i+2:]
	}
	return string(b)
}

func emitCase(g *lp.Gen, client bool, maxBody, limit int, stream []byte, mode int, cut int) {
	cl := 0
	if client {
		cl = 1
	}
	g.P("C %d %d %d", cl, maxBody, limit)
	rest := stream
	for len(rest) > 0 {
		n := len(rest)
		switch mode {
		case 0:
			n = 1
		case 1:
			n = 1 + g.Intn(len(rest))
		case 3:
			if cut > 0 && cut < len(rest) {
				n = cut
			}
			cut = -1
		}
		if mode != 3 && n > 1 && g.Chance(1, 3) {
			n = 1 + g.Intn(8)
			if n > len(rest) {
				n = len(rest)
			}
		}
		if g.Chance(1, 60) {
			g.P("D -") // an empty read between two reads (also with a ReadLimit set and the cache beyond it)
		}
		g.P("D %s", lp.Hex(rest[:n]))
		rest = rest[n:]
	}
}

// longLine: a well-formed message with ONE very long line — request target, reason phrase, header value or header
// name — of a size around the 4 KiB / 8 KiB / 16 KiB (thorough: 64 KiB) boundaries, ReadLimit off; returns the stream
// and the offset at which the long line's long token starts. No parser constant depends on the length of a line, so the
// result must not depend on where inside it a read ends.
func longLine(g *lp.Gen, client bool) (string, int) {
	n := g.PickInt(4095, 4096, 4097, 8191, 8192, 8193, 8200, 9000, 12000, 16383, 16384, 16385, 20000)
	if g.Tier == "thorough" && g.Chance(1, 6) {
		n = g.PickInt(65535, 65536, 65537, 70000)
	}
	fill := func(alpha string) string {
		b := make([]byte, n)
		for i := range b {
			b[i] = alpha[g.Intn(len(alpha))]
		}
		return string(b)
	}
	const tok = "abcdefghijklmnopqrstuvwxyzABCDEFGHIJKLMNOPQRSTUVWXYZ0123456789-_"
	head, long, tail := "", "", ""
	switch k := g.Intn(4); {
	case k == 0 && !client: // request target
		head, long, tail = g.Pick("GET", "POST")+" /", fill(tok+"/=&%"), " HTTP/1.1\r\nHost: x\r\nContent-Length: 0\r\n\r\n"
	case k == 0: // reason phrase
		head, long, tail = "HTTP/1.1 200 O", fill(tok+" "), "K\r\nContent-Length: 0\r\n\r\n"
	case k == 1: // header name
		head, long, tail = "", fill(tok), ": v\r\nContent-Length: 0\r\n\r\n"
	default: // header value (a Cookie of that size is common)
		head, long, tail = g.Pick("Cookie: ", "X-Long:", "cookie:  "), fill(tok+" ;=,\"/"), "\r\nContent-Length: 0\r\n\r\n"
	}
	start := ""
	if head == "" || strings.HasSuffix(head, ":") || strings.HasSuffix(head, " ") && !strings.Contains(head, "/") {
		if client {
			start = "HTTP/1.1 200 OK\r\n"
		} else {
			start = "GET /a HTTP/1.1\r\nHost: x\r\n"
		}
	}
	s := start + head + long + tail
	if g.Chance(1, 2) { // a pipelined successor: a misplaced boundary shows
		if client {
			s += "HTTP/1.1 204 No Content\r\n\r\n"
		} else {
			s += "GET /next HTTP/1.1\r\nHost: y\r\n\r\n"
		}
	}
	return s, len(start) + len(head)
}

func gen(g *lp.Gen) {
	allCuts := 400 // one stream in `allCuts` is fed with every single cut position
	if g.Tier == "thorough" {
		allCuts = 60
	}
	for cs := 0; cs < g.N; cs++ {
		client := g.Chance(1, 4)
		if g.Chance(1, 1200) { // a handful per run: one very long line, one read boundary deep inside it (or just around it)
			s, at := longLine(g, client)
			b := []byte(s)
			into := g.PickInt(1, 4095, 4096, 4097, 8191, 8192, 8193, 8300, 10000, 16384, 16385, 65536, 65537)
			cut := at + into
			if g.Chance(1, 6) {
				cut = at - g.Intn(3) // just before the long token
			}
			if cut >= len(b) || g.Chance(1, 5) {
				cut = len(b) - 1 - g.Intn(40) // near the end of the message
			}
			if cut < 1 {
				cut = 1
			}
			emitCase(g, client, 0, 0, b, 3, cut)
			continue
		}
		maxBody := 0
		if g.Chance(1, 5) {
			maxBody = 1 + g.Intn(60)
		}
		limit := 0
		if g.Chance(1, 5) {
			limit = 20 + g.Intn(200)
		}
		var stream string
		site := -1 // offset just after an injected control sequence
		if g.Chance(1, 25) { // pure random bytes
			stream = body(g, 1+g.Intn(60))
		} else {
			nm := 1 + g.Intn(3)
			for i := 0; i < nm; i++ {
				m := genMsg(g, client)
				s := m.String()
				switch {
				case g.Chance(1, 6):
					var off int
					m, off = inject(g, m)
					if off >= 0 && site < 0 {
						site = len(stream) + off
					}
					s = m.String()
				case g.Chance(1, 4):
					s = mutate(g, s)
				}
				stream += s
			}
		}
		b := []byte(stream)
		if len(b) >= 2 && len(b) <= 300 && g.Chance(1, allCuts) {
			for cut := 1; cut < len(b); cut++ {
				emitCase(g, client, maxBody, limit, b, 3, cut)
			}
			continue
		}
		mode := g.Intn(4)
		cut := -1
		if mode == 3 && len(b) > 1 {
			cut = 1 + g.Intn(len(b)-1)
		}
		if site > 0 && site < len(b) && g.Chance(2, 3) { // aim at the mutation site: cut inside / right after it, or byte-at-a-time
			if g.Chance(1, 3) {
				mode = 0
			} else {
				mode, cut = 3, site-g.Intn(2)
				if cut < 1 {
					cut = 1
				}
			}
		}
		emitCase(g, client, maxBody, limit, b, mode, cut)
	}
}
