// hconn real: the same write path on REAL sockets and the real kernel (supporting tier for C01/C04).
//
// It validates what the simulated-kernel tier takes as its kernel model (short writes on TCP and
// Unix stream sockets, EPOLLOUT reporting in LT / ET / ONESHOT incl. registration after a backlog
// exists) end to end: an nbio engine writes framed blocks through Write / Writev / Sendfile, issued
// inside the open callback (before EPOLL_CTL_ADD), from the main goroutine and from two concurrent
// goroutines, into a socket with tiny buffers whose peer reads with pauses.
//
// Real cases are ordinary ops of the exec protocol (a file of real cases is executed without the
// simulated kernel):
//
//	C real typ=tcp|unix mode=lt|et|oneshot seed=S idx=I      ->  R ok|fail received=N calls=K bytes=B
//
// `hconn real -seed S -n N` prints N such op lines (the generator of this tier).
// Direct oracles:
//
//	c01-real-return  a call returned an error or a short count
//	c01-real-stream  the peer did not receive exactly the blocks, whole, uninterleaved, per origin in order
//	c04-real-stall   the peer kept reading but the accepted bytes stopped arriving (no progress for 3 s)
package main

import (
	"encoding/binary"
	"flag"
	"fmt"
	"io"
	"math/rand"
	"net"
	"os"
	"strconv"
	"strings"
	"sync"
	"sync/atomic"
	"time"

	"harness/internal/lp"

	"github.com/lesismal/nbio"
	"github.com/lesismal/nbio/logging"
)

type rcall struct {
	kind   string // write | writev | sendfile
	origin int    // 0 = open callback, 1 = main, 2/3 = concurrent goroutines
	seq    int
	block  []byte
	cuts   []int // writev split points
	off    int64 // sendfile: offset of the block in the case file
}

func mkBlock(origin, seq, n int) []byte {
	b := make([]byte, 8+n)
	b[0] = 0xB1
	b[1] = byte(origin)
	binary.BigEndian.PutUint16(b[2:], uint16(seq))
	binary.BigEndian.PutUint32(b[4:], uint32(n))
	for i := 0; i < n; i++ {
		b[8+i] = byte(i*7 + seq*13 + origin)
	}
	return b
}

type realCase struct {
	calls   []*rcall
	file    *os.File
	c       *nbio.Conn
	total   int64
	retErr  atomic.Value
	opened  chan struct{}
	openErr string
}

func (rc *realCase) do(cl *rcall) {
	var n int64
	var err error
	switch cl.kind {
	case "write":
		k, e := rc.c.Write(cl.block)
		n, err = int64(k), e
	case "writev":
		var bs [][]byte
		prev := 0
		for _, c := range cl.cuts {
			bs = append(bs, cl.block[prev:c])
			prev = c
		}
		bs = append(bs, cl.block[prev:])
		k, e := rc.c.Writev(bs)
		n, err = int64(k), e
	case "sendfile":
		f, e := os.Open(rc.file.Name())
		if e != nil {
			panic(e)
		}
		if _, e = f.Seek(cl.off, 0); e != nil {
			panic(e)
		}
		n, err = rc.c.Sendfile(f, int64(len(cl.block)))
		f.Close()
	}
	if err != nil || n != int64(len(cl.block)) {
		rc.retErr.Store(fmt.Sprintf("%s of %d bytes (origin %d seq %d) returned (%d, %v)", cl.kind, len(cl.block), cl.origin, cl.seq, n, err))
	}
}

var curReal *realCase

func realEngine(mode string) *nbio.Engine {
	conf := nbio.Config{NPoller: 1, Name: "hconn-real-" + mode}
	switch mode {
	case "et":
		conf.EpollMod = nbio.EPOLLET
	case "oneshot":
		conf.EpollMod = nbio.EPOLLET
		conf.EPOLLONESHOT = nbio.EPOLLONESHOT
	}
	g := nbio.NewEngine(conf)
	g.OnOpen(func(c *nbio.Conn) {
		rc := curReal
		rc.c = c
		_ = c.SetWriteBuffer(16384)
		for _, cl := range rc.calls {
			if cl.origin == 0 {
				rc.do(cl)
			}
		}
	})
	g.OnData(func(c *nbio.Conn, data []byte) {})
	if err := g.Start(); err != nil {
		panic(err)
	}
	return g
}

func socketPair(typ string) (net.Conn, net.Conn) {
	network, addr := "tcp", "127.0.0.1:0"
	if typ == "unix" {
		network = "unix"
		addr = fmt.Sprintf("/tmp/hconn-real-%d-%d.sock", os.Getpid(), time.Now().UnixNano())
		defer os.Remove(addr)
	}
	ln, err := net.Listen(network, addr)
	if err != nil {
		panic(err)
	}
	defer ln.Close()
	var a net.Conn
	var aerr error
	done := make(chan struct{})
	go func() { a, aerr = ln.Accept(); close(done) }()
	b, err := net.Dial(network, ln.Addr().String())
	if err != nil {
		panic(err)
	}
	<-done
	if aerr != nil {
		panic(aerr)
	}
	return a, b
}

// realGen prints the op lines of the real tier.
func realGen(args []string) {
	fs := flag.NewFlagSet("real", flag.ExitOnError)
	seed := fs.Int64("seed", 1, "")
	n := fs.Int("n", 36, "")
	fs.Parse(args)
	modes := []string{"lt", "et", "oneshot"}
	for cs := 0; cs < *n; cs++ {
		fmt.Printf("C real typ=%s mode=%s seed=%d idx=%d\n", []string{"tcp", "unix"}[cs%2], modes[(cs/2)%3], *seed, cs)
	}
}

var realEngines = map[string]*nbio.Engine{}

var realSizes = []int{0, 1, 100, 4000, 4096, 65535, 65536, 65537, 70000, 131072, 200000, 300000}

// execReal executes a file of real cases.
func execReal(e *lp.Exec, first string) {
	logging.SetLevel(logging.LevelNone)
	line := first
	for {
		f := strings.Fields(line)
		e.P("> %s", line)
		typ, _ := kv(f, "typ")
		mode, _ := kv(f, "mode")
		sd, _ := kv(f, "seed")
		ix, _ := kv(f, "idx")
		seed, e1 := strconv.ParseInt(sd, 10, 64)
		idx, e2 := strconv.Atoi(ix)
		if len(f) < 2 || f[0] != "C" || f[1] != "real" || (typ != "tcp" && typ != "unix") || (mode != "lt" && mode != "et" && mode != "oneshot") || e1 != nil || e2 != nil {
			e.P("bad-op")
		} else {
			// a stall verdict depends on real time: re-run the case before reporting it (one-sided)
			var res string
			var reports [][2]string
			for try := 0; try < 3; try++ {
				res, reports = runRealCase(e, typ, mode, seed, idx)
				onlyStall := len(reports) > 0
				for _, r := range reports {
					if r[0] != "c04-real-stall" {
						onlyStall = false
					}
				}
				if !onlyStall {
					break
				}
				e.Count("real_reruns", "after a stall verdict")
			}
			e.P("%s", res)
			for _, r := range reports {
				e.Oracle(r[0], "%s", r[1])
			}
		}
		if !e.In.Scan() {
			break
		}
		line = e.In.Text()
	}
	for _, g := range realEngines {
		g.Stop()
	}
}

func runRealCase(e *lp.Exec, typ, mode string, seed int64, cs int) (string, [][2]string) {
	{
		rng := rand.New(rand.NewSource(seed*1000003 + int64(cs)))
		sizes := realSizes
		g := realEngines[mode]
		if g == nil {
			g = realEngine(mode)
			realEngines[mode] = g
		}
		rc := &realCase{opened: make(chan struct{})}
		// the script
		seqs := map[int]int{}
		ncalls := 3 + rng.Intn(10)
		hasOpen := rng.Intn(2) == 0
		var fileData []byte
		for i := 0; i < ncalls; i++ {
			origin := 1 + rng.Intn(3)
			if hasOpen && i < 2 {
				origin = 0
			}
			cl := &rcall{kind: []string{"write", "write", "writev", "sendfile"}[rng.Intn(4)], origin: origin, seq: seqs[origin]}
			seqs[origin]++
			cl.block = mkBlock(origin, cl.seq, sizes[rng.Intn(len(sizes))])
			if cl.kind == "writev" {
				k := rng.Intn(5)
				prev := 0
				for j := 0; j < k; j++ {
					c := prev + rng.Intn(len(cl.block)-prev+1)
					if rng.Intn(4) == 0 {
						c = prev // an empty slice
					}
					cl.cuts = append(cl.cuts, c)
					prev = c
				}
			}
			if cl.kind == "sendfile" {
				cl.off = int64(len(fileData))
				fileData = append(fileData, cl.block...)
			}
			rc.calls = append(rc.calls, cl)
			rc.total += int64(len(cl.block))
		}
		f, err := os.CreateTemp("", "hconn-real-*")
		if err != nil {
			panic(err)
		}
		f.Write(fileData)
		rc.file = f
		a, b := socketPair(typ)
		if tc, ok := b.(*net.TCPConn); ok {
			_ = tc.SetReadBuffer(32768)
		}
		if uc, ok := b.(*net.UnixConn); ok {
			_ = uc.SetReadBuffer(16384)
		}
		// the peer: reads with pauses, checks framing
		var got int64
		var streamErr atomic.Value
		readerDone := make(chan struct{})
		go func() {
			defer close(readerDone)
			prng := rand.New(rand.NewSource(seed*7919 + int64(cs)))
			time.Sleep(time.Duration(5+prng.Intn(30)) * time.Millisecond) // let a backlog form
			r := &pacedReader{c: b, rng: prng, got: &got}
			next := map[int]int{}
			hdr := make([]byte, 8)
			for atomic.LoadInt64(&got) < rc.total {
				if _, err := io.ReadFull(r, hdr); err != nil {
					if ne, ok := err.(net.Error); ok && ne.Timeout() {
						return // nothing arrives any more: the watchdog below reports the stall
					}
					streamErr.Store(fmt.Sprintf("read header after %d of %d bytes: %v", atomic.LoadInt64(&got), rc.total, err))
					return
				}
				origin, seq, ln := int(hdr[1]), int(binary.BigEndian.Uint16(hdr[2:])), int(binary.BigEndian.Uint32(hdr[4:]))
				if hdr[0] != 0xB1 || origin > 3 || seq != next[origin] || ln > 400000 {
					streamErr.Store(fmt.Sprintf("bad block header % x at stream offset %d (expected seq %d of origin %d): bytes lost, reordered or interleaved", hdr, atomic.LoadInt64(&got)-8, next[origin], origin))
					return
				}
				next[origin]++
				body := make([]byte, ln)
				if _, err := io.ReadFull(r, body); err != nil {
					if ne, ok := err.(net.Error); ok && ne.Timeout() {
						return
					}
					streamErr.Store(fmt.Sprintf("read body: %v", err))
					return
				}
				for i := range body {
					if body[i] != byte(i*7+seq*13+origin) {
						streamErr.Store(fmt.Sprintf("block origin %d seq %d altered at byte %d", origin, seq, i))
						return
					}
				}
			}
		}()
		curReal = rc
		c, err := g.AddConn(a)
		if err != nil {
			panic(err)
		}
		rc.c = c
		// after registration: main goroutine + two concurrent writers
		var wg sync.WaitGroup
		for o := 1; o <= 3; o++ {
			wg.Add(1)
			run := func(o int) {
				defer wg.Done()
				for _, cl := range rc.calls {
					if cl.origin == o {
						rc.do(cl)
					}
				}
			}
			if o == 1 {
				run(o)
			} else {
				go run(o)
			}
		}
		wgDone := make(chan struct{})
		go func() { wg.Wait(); close(wgDone) }()
		var reports [][2]string
		select {
		case <-wgDone:
		case <-time.After(10 * time.Second):
			reports = append(reports, [2]string{"c04-real-stall", fmt.Sprintf("typ=%s mode=%s: a Write/Writev/Sendfile call did not return within 10 s (the poller holds the conn mutex: flush does not terminate)", typ, mode)})
			delete(realEngines, mode) // abandon the engine with the stuck poller
			b.Close()
			return fmt.Sprintf("R fail received=%d calls=%d bytes=%d", atomic.LoadInt64(&got), ncalls, rc.total), reports
		}
		if st := c.VerifWriteState(false); len(st.Items) > 0 {
			e.Count("real_backlog", "queue non-empty after the calls")
			e.Count("real_backlog_by_mode", mode)
		} else {
			e.Count("real_backlog", "queue empty after the calls")
		}
		// watchdog on the peer's progress
		verdict := "ok"
		last, lastT := int64(-1), time.Now()
	wait:
		for {
			select {
			case <-readerDone:
				if v := atomic.LoadInt64(&got); v < rc.total && streamErr.Load() == nil {
					// the peer's read timed out
					reports = append(reports, [2]string{"c04-real-stall", fmt.Sprintf("typ=%s mode=%s open-callback-writes=%v: the peer received %d of %d accepted bytes and then nothing for 4 s", typ, mode, hasOpen, v, rc.total)})
					verdict = "fail"
				}
				break wait
			case <-time.After(20 * time.Millisecond):
			}
			if v := atomic.LoadInt64(&got); v != last {
				last, lastT = v, time.Now()
			} else if time.Since(lastT) > 3*time.Second {
				stc := make(chan nbio.VerifWriteState, 1)
				go func() { stc <- c.VerifWriteState(false) }()
				select {
				case st := <-stc:
					reports = append(reports, [2]string{"c04-real-stall", fmt.Sprintf("typ=%s mode=%s open-callback-writes=%v: the peer received %d of %d accepted bytes and nothing more for 3 s (conn closed=%v left=%d queue=%d items wadded=%v)",
						typ, mode, hasOpen, v, rc.total, st.Closed, st.Left, len(st.Items), st.IsWAdded)})
				case <-time.After(2 * time.Second):
					reports = append(reports, [2]string{"c04-real-stall", fmt.Sprintf("typ=%s mode=%s: the peer received %d of %d accepted bytes and nothing more for 3 s; the conn mutex is held (flush does not terminate)", typ, mode, v, rc.total)})
					delete(realEngines, mode)
				}
				verdict = "fail"
				break wait
			}
		}
		if s := streamErr.Load(); s != nil {
			reports = append(reports, [2]string{"c01-real-stream", fmt.Sprintf("typ=%s mode=%s: %s", typ, mode, s)})
			verdict = "fail"
		}
		if s := rc.retErr.Load(); s != nil {
			reports = append(reports, [2]string{"c01-real-return", fmt.Sprintf("typ=%s mode=%s: %s", typ, mode, s)})
			verdict = "fail"
		}
		result := fmt.Sprintf("R %s received=%d calls=%d bytes=%d", verdict, atomic.LoadInt64(&got), ncalls, rc.total)
		e.Key(fmt.Sprintf("real/%s/%s/%d/%v", typ, mode, ncalls, hasOpen), true)
		e.Count("real_cells", typ+"/"+mode)
		if realEngines[mode] != nil {
			c.Close()
		}
		b.Close()
		select {
		case <-readerDone:
		case <-time.After(6 * time.Second):
		}
		f.Close()
		os.Remove(f.Name())
		return result, reports
	}
}

type pacedReader struct {
	c   net.Conn
	rng *rand.Rand
	got *int64
}

func (p *pacedReader) Read(b []byte) (int, error) {
	if p.rng.Intn(6) == 0 {
		time.Sleep(time.Duration(p.rng.Intn(3000)) * time.Microsecond)
	}
	if len(b) > 1 && p.rng.Intn(3) == 0 {
		b = b[:1+p.rng.Intn(len(b))]
	}
	_ = p.c.SetReadDeadline(time.Now().Add(4 * time.Second))
	n, err := p.c.Read(b)
	atomic.AddInt64(p.got, int64(n))
	return n, err
}
