// hconn: write path of nbio.Conn on a simulated kernel (C01, C04, C17).
//
// The real Conn / poller code runs in-process on a virtual descriptor of the vsys shim: every
// write-like syscall consumes one scripted kernel answer, epoll_ctl calls are logged, and epoll
// events are injected into the REAL readWriteLoop one batch at a time.
//
// ops (one per line; payload = hex | - | @len:pat):
//
//	C typ=tcp|unix mode=lt|et|oneshot maxwb=N fsize=N [dial=1] openwrite=<call>;<call>…|-
//	      a new connection; the calls of openwrite (tokens separated by '/') are issued INSIDE the
//	      OnOpen callback, i.e. before addConn registers the descriptor with epoll.
//	      dial=1: the connection is registered the way DialAsync does for a connect in progress
//	      dial=2: … for a connect that finished at once (addDialer without a pending callback; the
//	      openwrite calls run right after the registration, as the dial callback's goroutine would)
//	      (addDialer: read+write interest, connected callback pending); the connect then completes
//	      (EPOLLOUT) and the openwrite calls are issued inside the connected callback.
//	O write <payload> K=<k>
//	O writev <m> <payload>*m K=<k>
//	O sendfile <off> <len> K=<k,k,…> [dup=0]   file = pattern file of fsize bytes positioned at off;
//	                                           dup=0: dup(2) of the file descriptor fails (EMFILE)
//	O event <bits o|i|e…> K=<k,k,…> [cb=<call>]  epoll event (only the parts the kernel could deliver in
//	      the current registration state are delivered); K answers the flush; cb is a call issued
//	      from the OnData callback while the event is handled
//	O event i K=- race=<call>                  a call issued by ANOTHER goroutine while the poller is inside
//	      ResetPollerEvent, between its look at the write list and its epoll_ctl (forced through the
//	      shim's CtlHook); if the poller holds the conn mutex there, the call runs right after it
//	O event o K=<k,…> park=<call>              the call is issued by another goroutine and parked inside
//	      newToWriteBuf (allocator yield point: after its direct write, before the append to the write list, under
//	      the conn mutex); the EPOLLOUT event is injected while it is parked, then the writer resumes. A flush
//	      that looks at the write list without the mutex misses the backlog and spends the edge.
//	O close [race=<call>]                      Close; the racing call is issued by "another goroutine" inside the
//	                                           teardown (after the closed flag was set, before the fd is closed;
//	                                           shim CloseHook): it must get the closed indication and must not
//	                                           touch the descriptor (oracle c01-after-flip)
//	O deadline far|0                           SetWriteDeadline one hour ahead / zero time (clear)
//	O fire                                     the write deadline expires now (only if a timer is set on an
//	                                           open conn: the deadline is moved to "now" and the timer's
//	                                           closeWithError(errWriteTimeout) is awaited)
//	Q                                          observation
//
// kernel answers k: w<n> (accept n bytes, capped at the request) | eagain | eintr | epipe; an
// exhausted script means EAGAIN.
//
// result lines:
//
//	R [ow=<n:err;…>|n=<n> err=<e>|deliv=<bits> cb=<n:err>] closed= left= wl=[b<unsent>/<len>,f<off>+<remain>,…]
//	  wadded= reg= ctl=[<epoll_ctl calls since the previous line>] wire=<len>:<fnv> onclose= wtimer=
//	hung        the event loop did not come back (flush spinning); the rest of the case is `dead`
//
// Direct oracles (implementation only):
//
//	c01-return             nil error with n != len(input)
//	c01-wire               wire ++ pending != concatenation of the ranges the calls reported as accepted
//	c01-hang               an injected batch did not come back / flush spins on zero-length writes
//	c01-stranded           accepted bytes queued on an open conn that no kernel report will ever flush (fires
//	                       together with c04-quiescent-unarmed / c04-et-lost-edge: the C01 reading of the same state)
//	c04-quiescent-unarmed  open, registered, non-empty queue, EPOLLOUT not armed
//	c04-progress           EPOLLOUT delivered with kernel room did not reduce the backlog
//	c04-et-lost-edge       ET: flush gave up on a backlog without the kernel having refused a write
//	c01-stale-wtimer       write deadline still set after Write/Writev/flush left nothing to be written
//	c17-bound              left > maxWB; left != Σ unsent buffer bytes; drained but left != 0
//	c17-fits               a call that fits (or no bound) was not accepted / overflow reported wrongly
//	c17-overflow           a call that exceeds the bound did not fail with ErrOverflow + close
//	c04-hang               = c01-hang (flush does not terminate)
package main

import (
	"bytes"
	"errors"
	"fmt"
	"os"
	osexec "os/exec"
	"strconv"
	"strings"
	"sync/atomic"
	"syscall"
	"time"

	"harness/internal/lp"

	"github.com/lesismal/nbio"
	"github.com/lesismal/nbio/logging"
	"github.com/lesismal/nbio/mempool"
	"github.com/lesismal/nbio/vsys"
)

// parkAlloc is the engines' BodyAllocator: the default pool, with a yield point in Malloc. The write path
// calls Malloc from newToWriteBuf, i.e. under the conn mutex, after the direct write was refused and before
// the data is appended to the write list: a writer parked there is "between its EAGAIN and its append".
type parkAlloc struct{ mempool.Allocator }

var parkHook func()

func (a parkAlloc) Malloc(size int) *[]byte {
	if h := parkHook; h != nil {
		h()
	}
	return a.Allocator.Malloc(size)
}

const filePat = 3
const bigFile = 4<<20 + 4097

// ---------------------------------------------------------------- shared: calls and answers

type call struct {
	kind     string // write | writev | sendfile
	payloads []string
	off, ln  int
	ks       []string
	nodup    bool // sendfile: dup(2) of the source descriptor fails (EMFILE)
}

func parseCall(f []string) (*call, error) {
	if len(f) == 0 {
		return nil, errors.New("empty call")
	}
	c := &call{kind: f[0]}
	kstr := "-"
	var rest []string
	for _, t := range f[1:] {
		if strings.HasPrefix(t, "K=") {
			kstr = t[2:]
		} else if t == "dup=0" {
			c.nodup = true
		} else if !strings.Contains(t, "=") {
			rest = append(rest, t)
		}
	}
	if kstr != "-" && kstr != "" {
		c.ks = strings.Split(kstr, ",")
	}
	switch c.kind {
	case "write":
		if len(rest) != 1 {
			return nil, errors.New("write: one payload")
		}
		c.payloads = rest
	case "writev":
		if len(rest) < 1 {
			return nil, errors.New("writev: count")
		}
		m, err := strconv.Atoi(rest[0])
		if err != nil || len(rest) != m+1 {
			return nil, errors.New("writev: count mismatch")
		}
		c.payloads = rest[1:]
	case "sendfile":
		if len(rest) != 2 {
			return nil, errors.New("sendfile: off len")
		}
		var e1, e2 error
		c.off, e1 = strconv.Atoi(rest[0])
		c.ln, e2 = strconv.Atoi(rest[1])
		if e1 != nil || e2 != nil || c.off < 0 || c.ln < 0 {
			return nil, errors.New("sendfile: numbers")
		}
	default:
		return nil, errors.New("unknown call")
	}
	return c, nil
}

func parseAns(ks []string) ([]vsys.Ans, error) {
	var out []vsys.Ans
	for _, k := range ks {
		switch {
		case k == "eagain":
			out = append(out, vsys.Ans{Err: syscall.EAGAIN})
		case k == "eintr":
			out = append(out, vsys.Ans{Err: syscall.EINTR})
		case k == "epipe":
			out = append(out, vsys.Ans{Err: syscall.EPIPE})
		case k == "econnreset":
			out = append(out, vsys.Ans{Err: syscall.ECONNRESET})
		case strings.HasPrefix(k, "w"):
			n, err := strconv.Atoi(k[1:])
			if err != nil || n < 0 {
				return nil, errors.New("bad answer " + k)
			}
			out = append(out, vsys.Ans{N: n})
		default:
			return nil, errors.New("bad answer " + k)
		}
	}
	return out, nil
}

// ---------------------------------------------------------------- generator

// sim: a size-only sketch of the queue, used only to aim sizes and answers at boundaries.
type simItem struct {
	file      bool
	dlen, off int // buffer
	rem       int // file
}
type sim struct {
	wtimer bool
	closed bool
	items  []simItem
	left   int
	maxwb  int
	fsize  int
}

func (s *sim) enqueue(n int) {
	if n == 0 {
		return
	}
	s.left += n
	if k := len(s.items); k > 0 && !s.items[k-1].file && s.items[k-1].dlen+n <= 65536 {
		s.items[k-1].dlen += n
		return
	}
	s.items = append(s.items, simItem{dlen: n})
}
func (s *sim) timerFire() {
	if s.wtimer && !s.closed {
		s.kill()
	}
}
func (s *sim) over(n int) bool { return s.maxwb > 0 && s.left+n > s.maxwb }
func (s *sim) kill()           { s.closed = true; s.items = nil }
func kn(k string, req int) int {
	if strings.HasPrefix(k, "w") {
		n, _ := strconv.Atoi(k[1:])
		if n > req {
			n = req
		}
		return n
	}
	return 0
}
func (s *sim) write(sizes []int, k string) {
	if s.closed {
		return
	}
	tot := 0
	for _, n := range sizes {
		tot += n
	}
	if tot == 0 {
		return
	}
	if s.over(tot) {
		s.kill()
		return
	}
	n := 0
	if len(s.items) == 0 {
		if k == "epipe" {
			s.kill()
			return
		}
		n = kn(k, tot)
	}
	for _, b := range sizes {
		if n >= b {
			n -= b
			continue
		}
		s.enqueue(b - n)
		n = 0
	}
	if len(s.items) == 0 {
		s.wtimer = false
	}
}
func (s *sim) rng(off, ln int) int {
	if ln == 0 || ln > s.fsize-off {
		return s.fsize - off
	}
	return ln
}
func (s *sim) sendfile(off, ln int, ks []string) {
	if s.closed {
		return
	}
	rem := s.rng(off, ln)
	if rem == 0 {
		return
	}
	if len(s.items) > 0 {
		s.items = append(s.items, simItem{file: true, off: off, rem: rem})
		return
	}
	for _, k := range ks {
		if rem == 0 {
			return
		}
		switch k {
		case "eintr":
		case "eagain":
			s.items = append(s.items, simItem{file: true, off: off, rem: rem})
			return
		case "epipe":
			s.kill()
			return
		default:
			c := rem
			if c > 4<<20 {
				c = 4 << 20
			}
			n := kn(k, c)
			off += n
			rem -= n
		}
	}
	if rem > 0 {
		s.items = append(s.items, simItem{file: true, off: off, rem: rem})
	}
}

// sendfileNoDup: dup(2) fails. Behind a backlog nothing happens; on the direct path the first refused
// request (EAGAIN or the exhausted script) is fatal.
func (s *sim) sendfileNoDup(off, ln int, ks []string) {
	if s.closed || s.rng(off, ln) == 0 || len(s.items) > 0 {
		return
	}
	n := len(s.items)
	s.sendfile(off, ln, ks)
	if !s.closed && len(s.items) > n {
		s.items = s.items[:n]
		s.kill()
	}
}
func (s *sim) headReq() int {
	if len(s.items) == 0 {
		return 0
	}
	h := s.items[0]
	if h.file {
		return h.rem
	}
	return h.dlen - h.off
}
func (s *sim) flushOne(k string) bool { // false = flush stops
	if s.closed || len(s.items) == 0 {
		return false
	}
	switch k {
	case "eintr":
		return true
	case "eagain":
		return false
	case "epipe":
		s.kill()
		return false
	}
	h := &s.items[0]
	n := kn(k, s.headReq())
	if h.file {
		h.off += n
		h.rem -= n
		if h.rem == 0 {
			s.items = s.items[1:]
		}
	} else {
		h.off += n
		s.left -= n
		if h.off == h.dlen {
			s.items = s.items[1:]
		}
	}
	if len(s.items) == 0 {
		s.wtimer = false
	}
	return true
}

var sizeTable = []int{0, 1, 1, 2, 3, 17, 100, 100, 1000, 1000, 4096, 30000, 65535, 65536, 65536, 65537, 70000, 131072}

func pickSize(g *lp.Gen, s *sim) int {
	switch {
	case s.maxwb > 0 && g.Chance(1, 4): // around the remaining budget
		n := s.maxwb - s.left + g.PickInt(-1, -1, 0, 0, 0, 1)
		if n < 0 {
			n = 0
		}
		if n > 600000 {
			n = 600000
		}
		return n
	}
	n := sizeTable[g.Intn(len(sizeTable))]
	switch {
	case g.Chance(1, 14):
		n = 150000 + g.Intn(300000) // hundreds of KiB
	case g.Chance(1, 10):
		n = g.Intn(300)
	}
	if s.over(n) && g.Chance(5, 6) { // an overflow closes the conn: keep most calls within the budget
		n = g.Intn(s.maxwb - s.left + 1)
	}
	return n
}

// genK: one answer for a request of req bytes; bounds = interesting split points inside the request.
func genK(g *lp.Gen, req int, bounds []int) string {
	switch r := g.Intn(100); {
	case r < 14:
		return "eagain"
	case r < 20:
		return "eintr"
	case r < 22:
		return "epipe"
	case r < 55 || req <= 1:
		if g.Chance(1, 3) {
			return "w" + strconv.Itoa(req+g.PickInt(1, 5, 1<<20))
		}
		if req == 0 {
			return "w1"
		}
		return "w" + strconv.Itoa(req)
	}
	n := 1
	switch g.Intn(6) {
	case 0:
		n = 1
	case 1:
		n = req - 1
	case 2:
		n = req / 2
	case 3:
		n = 1 + g.Intn(req-1)
	default:
		if len(bounds) > 0 {
			n = bounds[g.Intn(len(bounds))] + g.PickInt(-1, 0, 0, 1)
		} else {
			n = g.PickInt(65535, 65536, 65537, req-1)
		}
	}
	if n < 1 {
		n = 1
	}
	if n > req {
		n = req
	}
	return "w" + strconv.Itoa(n)
}

func genCall(g *lp.Gen, s *sim, inOpen bool) string {
	r := g.Intn(100)
	switch {
	case r < 58:
		n := pickSize(g, s)
		k := genK(g, n, nil)
		if inOpen && k == "epipe" {
			k = "eagain"
		}
		if inOpen && s.over(n) { // no fatal call inside the open callback (the fd would be closed before ADD)
			n = s.maxwb - s.left
		}
		p := "-"
		if n > 0 {
			p = fmt.Sprintf("@%d:%d", n, g.Intn(256))
		}
		if n > 0 && n <= 6 && g.Chance(1, 2) {
			p = lp.Hex(lp.Pattern(n, g.Intn(256)))
		}
		s.write([]int{n}, k)
		for g.Chance(1, 8) { // interrupted attempts before the answer that counts
			k = "eintr," + k
		}
		return fmt.Sprintf("write %s K=%s", p, k)
	case r < 82:
		m := g.PickInt(0, 1, 2, 2, 3, 3, 4, 6)
		var sizes []int
		var ps []string
		var bounds []int
		tot := 0
		for j := 0; j < m; j++ {
			n := pickSize(g, s)
			if g.Chance(1, 4) {
				n = 0 // empty slices anywhere, also last
			}
			if n > 200000 {
				n = 200000
			}
			if inOpen && s.over(tot+n) {
				n = 0
			}
			sizes = append(sizes, n)
			tot += n
			bounds = append(bounds, tot)
			if n == 0 {
				ps = append(ps, "-")
			} else {
				ps = append(ps, fmt.Sprintf("@%d:%d", n, g.Intn(256)))
			}
		}
		k := genK(g, tot, bounds)
		if inOpen && k == "epipe" {
			k = "eagain"
		}
		s.write(sizes, k)
		for g.Chance(1, 8) {
			k = "eintr," + k
		}
		return strings.TrimSpace(fmt.Sprintf("writev %d %s", m, strings.Join(ps, " "))) + " K=" + k
	default:
		off := g.PickInt(0, 0, s.fsize, s.fsize/2, g.Intn(s.fsize+1))
		room := s.fsize - off
		ln := 0
		switch g.Intn(5) {
		case 0:
			ln = 0 // to EOF
		case 1:
			ln = 1
		case 2:
			ln = room + 1 + g.Intn(10) // too large: clamped
		default:
			if room > 0 {
				ln = 1 + g.Intn(room)
			}
		}
		if s.fsize >= bigFile && g.Chance(2, 3) {
			off, ln = g.PickInt(0, 1, 4096), 0 // cross the 4 MiB chunk limit
		}
		rem := s.rng(off, ln)
		var ks []string
		nk := g.PickInt(0, 1, 1, 2, 3, 4)
		left := rem
		for j := 0; j < nk && left > 0; j++ {
			c := left
			if c > 4<<20 {
				c = 4 << 20
			}
			k := genK(g, c, nil)
			if inOpen && k == "epipe" {
				k = "eagain"
			}
			ks = append(ks, k)
			if k == "eagain" || k == "epipe" {
				break
			}
			left -= kn(k, c)
		}
		dupS := ""
		if !inOpen && g.Chance(1, 8) { // dup(2) of the file descriptor fails
			dupS = " dup=0"
			s.sendfileNoDup(off, ln, ks)
		} else {
			s.sendfile(off, ln, ks)
		}
		kstr := "-"
		if len(ks) > 0 {
			kstr = strings.Join(ks, ",")
		}
		return fmt.Sprintf("sendfile %d %d K=%s%s", off, ln, kstr, dupS)
	}
}

func genFlush(g *lp.Gen, s *sim) string {
	var ks []string
	nk := g.PickInt(0, 1, 2, 3, 4, 6, 8)
	if g.Chance(1, 6) {
		nk = 40 // drain
	}
	t := *s
	t.items = append([]simItem(nil), s.items...)
	for j := 0; j < nk; j++ {
		req := t.headReq()
		if req == 0 {
			if g.Chance(1, 2) {
				break
			}
			req = 1 + g.Intn(1000)
		}
		k := genK(g, req, nil)
		if nk == 40 && k != "eintr" {
			k = "w" + strconv.Itoa(req)
		}
		ks = append(ks, k)
		if !t.flushOne(k) {
			break
		}
	}
	*s = t
	if len(ks) == 0 {
		return "-"
	}
	return strings.Join(ks, ",")
}

// genManyItems: a queue of 130-400 items (file ranges queued behind a refused write, now and then a buffer
// of more than 64 KiB, which does not coalesce into the tail buffer), then EPOLLOUT with room for everything:
// one flush must take the whole queue or leave the conn in a state from which the rest still drains (a
// per-event budget in flush strands the rest under EPOLLET: no request was refused, so no edge is owed).
func genManyItems(g *lp.Gen, typ, mode string) {
	fsize := 300
	g.P("C typ=%s mode=%s maxwb=0 fsize=%d openwrite=-", typ, mode, fsize)
	g.P("O write @%d:%d K=eagain", 1+g.Intn(100), g.Intn(256))
	n := 130 + g.Intn(271)
	for i := 0; i < n; i++ {
		if g.Chance(1, 25) {
			g.P("O write @%d:%d K=-", 65537+g.Intn(100), g.Intn(256))
		} else {
			g.P("O sendfile %d %d K=-", g.Intn(fsize), 1+g.Intn(3))
		}
	}
	room := func(k int) string {
		ks := make([]string, k)
		for i := range ks {
			ks[i] = "w1000000"
		}
		return strings.Join(ks, ",")
	}
	switch g.Intn(3) {
	case 0: // room for the whole queue in one event
		g.P("O event o K=%s", room(n+5))
	case 1: // the kernel refuses in the middle: the edge is owed, the next event takes the rest
		g.P("O event o K=%s,eagain", room(1+g.Intn(n)))
		g.P("O event o K=%s", room(n+5))
	default: // read and write readiness together
		g.P("O event oi K=%s", room(n+5))
	}
	g.P("Q")
	g.P("O event o K=%s", room(n+5))
	g.P("O write @%d:%d K=w1", 2+g.Intn(100), g.Intn(256))
	g.P("O event o K=w1000000")
}

func gen(g *lp.Gen) {
	modes := []string{"lt", "et", "oneshot"}
	for cs := 0; cs < g.N; cs++ {
		typ := []string{"tcp", "unix"}[cs%2]
		mode := modes[(cs/2)%3]
		if g.Chance(1, 300) {
			genManyItems(g, typ, mode)
			continue
		}
		s := &sim{}
		if g.Chance(11, 20) {
			s.maxwb = g.PickInt(1, 100, 1000, 65536, 65537, 100000, 131072, 262144, 500000) + g.PickInt(-1, 0, 0, 1)
			if s.maxwb < 1 {
				s.maxwb = 1
			}
		}
		s.fsize = g.PickInt(200000, 200000, 200000, 200000, 70001, 65536, 0, 1, 300)
		if g.Chance(1, 60) || (g.Tier == "thorough" && g.Chance(1, 25)) {
			s.fsize = bigFile
		}
		open := "-"
		if g.Chance(1, 4) {
			var cl []string
			for i, n := 0, 1+g.Intn(2); i < n; i++ {
				cl = append(cl, strings.ReplaceAll(genCall(g, s, true), " ", "/"))
			}
			open = strings.Join(cl, ";")
		}
		dial := ""
		if g.Chance(1, 7) {
			dial = " dial=1"
		} else if g.Chance(1, 9) {
			dial = " dial=2" // the connect finished at once
		}
		g.P("C typ=%s mode=%s maxwb=%d fsize=%d%s openwrite=%s", typ, mode, s.maxwb, s.fsize, dial, open)
		if g.Chance(1, 5) {
			g.P("O deadline far")
			s.wtimer = true
		}
		nops := 2 + g.Intn(12)
		if g.Chance(1, 8) {
			nops = 12 + g.Intn(14)
		}
		for i := 0; i < nops; i++ {
			if s.closed && g.Chance(3, 4) {
				break // a few ops on the closed conn are enough
			}
			pCall := 62 // no backlog: build one
			if len(s.items) > 0 {
				pCall = 38
			}
			switch r := g.Intn(100); {
			case r < pCall:
				g.P("O %s", genCall(g, s, false))
			case r < 93:
				bits := g.Pick("o", "o", "o", "o", "o", "o", "o", "oi", "oi", "oi", "i", "i", "i", "oe", "e", "oie")
				if len(s.items) == 0 && g.Chance(2, 3) {
					bits = g.Pick("i", "i", "i", "oi", "o", "ie") // EPOLLOUT is not armed in LT/ONESHOT without a backlog
				}
				k := "-"
				if strings.Contains(bits, "o") {
					k = genFlush(g, s)
				}
				if g.Chance(1, 16) {
					// a writer parked between its refused direct write and the append, the edge arrives meanwhile
					call := strings.ReplaceAll(genCall(g, s, false), " ", "/")
					g.P("O event o K=%s park=%s", genFlush(g, s), call)
					continue
				}
				cb := ""
				if bits == "i" && g.Chance(1, 6) {
					// a writer goroutine racing with the poller's re-arm
					cb = " race=" + strings.ReplaceAll(genCall(g, s, false), " ", "/")
				} else if strings.Contains(bits, "i") && g.Chance(1, 2) {
					cb = " cb=" + strings.ReplaceAll(genCall(g, s, false), " ", "/")
				}
				if strings.Contains(bits, "e") {
					s.kill()
				}
				g.P("O event %s K=%s%s", bits, k, cb)
			case r < 96:
				race := ""
				if g.Chance(1, 2) {
					t := *s
					t.items = append([]simItem(nil), s.items...)
					race = " race=" + strings.ReplaceAll(genCall(g, &t, false), " ", "/")
				}
				s.kill()
				g.P("O close%s", race)
			case r < 98:
				switch g.Intn(8) {
				case 0:
					g.P("O fire")
					s.timerFire()
				case 1, 2:
					g.P("O deadline 0")
					s.wtimer = false
				default:
					g.P("O deadline far")
					s.wtimer = !s.closed
				}
			default:
				g.P("Q")
			}
		}
	}
}

// ---------------------------------------------------------------- executor

type engine struct {
	g    *nbio.Engine
	epfd int
}

type caseState struct {
	typ, mode    string
	maxwb, fsize int
	fd           int
	v            *vsys.VFD
	c            *nbio.Conn
	file         *os.File
	registered   bool
	dead         bool
	openCalls    []*call
	openRes      []string
	cbCall       *call
	cbRes        string
	closes       int64
	accepted     []byte // concatenation of the ranges reported as accepted
	tolerate     []byte // input of the call that failed fatally (its sent prefix may be on the wire)
	wireHashed   int
	wireHash     uint64
	ctlSeen      int
	disarmIdx    int // ONESHOT: index into the ctl log at the time the last event was delivered; -1 = armed
	nontrivial   bool
	key          strings.Builder
	fromOpen     bool // a backlog was created inside the open callback
	dial         bool // registered through addDialer
	dialNow      bool // … for a connect that finished at once (no callback pending)
	hadBacklog   bool // the previous observation saw an open conn with a non-empty queue
	parkUsed     int   // park mode: answers the call had consumed when it parked (-1 = not in park mode)
	edgeDue      bool  // ET: the kernel owes a writability report (ADD, or a refused/short write since the last one)
	refSeen      int64 // v.Refusals at the last look
	lines        []string // the op lines of the case so far (for the isolated re-run)
	zeroWrites   int64
	spin         int32
}

var (
	cur     *caseState
	engines = map[string]*engine{}
	files   = map[int]*os.File{}
	ex      *lp.Exec
)

func getEngine(mode string) *engine {
	if e := engines[mode]; e != nil {
		return e
	}
	conf := nbio.Config{NPoller: 1, Name: "hconn-" + mode, BodyAllocator: parkAlloc{mempool.DefaultMemPool}}
	switch mode {
	case "et":
		conf.EpollMod = nbio.EPOLLET
	case "oneshot":
		conf.EpollMod = nbio.EPOLLET
		conf.EPOLLONESHOT = nbio.EPOLLONESHOT
	}
	g := nbio.NewEngine(conf)
	g.OnOpen(func(c *nbio.Conn) {
		cs := cur
		cs.c = c
		for _, cl := range cs.openCalls {
			cs.openRes = append(cs.openRes, cs.doCall(cl))
		}
		if st := c.VerifWriteState(false); len(st.Items) > 0 {
			cs.fromOpen = true
		}
	})
	g.OnData(func(c *nbio.Conn, data []byte) {
		cs := cur
		if cs.cbCall != nil {
			cl := cs.cbCall
			cs.cbCall = nil
			cs.cbRes = cs.doCall(cl)
		}
	})
	g.OnClose(func(c *nbio.Conn, err error) { atomic.AddInt64(&cur.closes, 1) })
	if err := g.Start(); err != nil {
		panic(err)
	}
	e := &engine{g: g, epfd: g.VerifEpfd(0)}
	engines[mode] = e
	return e
}

var fileData = map[int][]byte{}

func fileBytes(size int) []byte {
	if b, ok := fileData[size]; ok {
		return b
	}
	b := lp.Pattern(size, filePat)
	fileData[size] = b
	return b
}

func patternFile(size int) *os.File {
	if f := files[size]; f != nil {
		return f
	}
	f, err := os.CreateTemp("", "hconn-file-*")
	if err != nil {
		panic(err)
	}
	os.Remove(f.Name())
	if _, err := f.Write(lp.Pattern(size, filePat)); err != nil {
		panic(err)
	}
	files[size] = f
	return f
}

func errName(err error) string {
	switch {
	case err == nil:
		return "nil"
	case errors.Is(err, nbio.ErrOverflow):
		return "overflow"
	case strings.Contains(err.Error(), "use of closed"):
		return "closed"
	case errors.Is(err, syscall.EAGAIN):
		return "eagain"
	case errors.Is(err, syscall.EINTR):
		return "eintr"
	}
	return "io"
}

func (cs *caseState) input(cl *call) []byte {
	switch cl.kind {
	case "write":
		return lp.Payload(cl.payloads[0])
	case "writev":
		var b []byte
		for _, p := range cl.payloads {
			b = append(b, lp.Payload(p)...)
		}
		return b
	}
	rem := cl.ln
	if rem == 0 || rem > cs.fsize-cl.off {
		rem = cs.fsize - cl.off
	}
	return fileBytes(cs.fsize)[cl.off : cl.off+rem]
}

// doCall runs one Write/Writev/Sendfile on the real conn with its scripted answers and evaluates
// the per-call oracles. Returns "n:err".
func (cs *caseState) doCall(cl *call) string {
	ans, err := parseAns(cl.ks)
	if err != nil {
		return "bad-op"
	}
	pre := cs.c.VerifWriteState(false)
	in := cs.input(cl)
	park := cs.parkUsed == -2 // armed by the caller: this call may park in Malloc
	cs.v.SetScript(ans)
	var n int64
	var cerr error
	switch cl.kind {
	case "write":
		k, e := cs.c.Write(lp.Payload(cl.payloads[0]))
		n, cerr = int64(k), e
	case "writev":
		bs := make([][]byte, len(cl.payloads))
		for i, p := range cl.payloads {
			bs[i] = lp.Payload(p)
		}
		k, e := cs.c.Writev(bs)
		n, cerr = int64(k), e
	case "sendfile":
		if _, e := cs.file.Seek(int64(cl.off), 0); e != nil {
			panic(e)
		}
		if cl.nodup {
			vsys.DupHook = func(int) syscall.Errno { return syscall.EMFILE }
		}
		n, cerr = cs.c.Sendfile(cs.file, int64(cl.ln))
		vsys.DupHook = nil
	}
	cs.v.Lock()
	used := len(ans) - len(cs.v.Script)
	if park && cs.parkUsed >= 0 {
		used = cs.parkUsed // the script now belongs to the flush of the injected event
	} else {
		cs.v.Script = nil
	}
	cs.v.Unlock()
	fatalAns := false
	for _, a := range ans[:used] {
		if a.Err != 0 && a.Err != syscall.EAGAIN && a.Err != syscall.EINTR {
			fatalAns = true
		}
	}
	post := cs.c.VerifWriteState(false)
	// --- C01: return values
	switch {
	case cerr == nil:
		if n != int64(len(in)) {
			orc("c01-return", "%s returned (%d, nil) for %d input bytes", cl.kind, n, len(in))
			if n > 0 && n < int64(len(in)) {
				cs.accepted = append(cs.accepted, in[:n]...)
			}
		} else {
			cs.accepted = append(cs.accepted, in...)
		}
	default:
		if n > 0 && n <= int64(len(in)) {
			cs.accepted = append(cs.accepted, in[:n]...)
			in = in[n:]
		}
		if post.Closed && !pre.Closed {
			cs.tolerate = in
		}
	}
	// --- write deadline (C16 tie): a Write/Writev that leaves nothing to be written clears it
	if cerr == nil && cl.kind != "sendfile" && !post.Closed && len(post.Items) == 0 && post.WTimer {
		orc("c01-stale-wtimer", "%s returned (%d, nil) with an empty queue but the write deadline timer is still set", cl.kind, n)
	}
	// --- C17: fits => accepted; overflow only when it does not fit, and then fatal
	held := len(in)
	if cl.kind == "sendfile" {
		held = 0 // queued file ranges are not held bytes
	}
	fits := cs.maxwb == 0 || pre.Left+held <= cs.maxwb
	if !pre.Closed {
		if fits && !fatalAns && cerr != nil && !(cl.nodup && errors.Is(cerr, syscall.EMFILE)) {
			orc("c17-fits", "%s of %d bytes fits (left=%d maxwb=%d) but failed with %v", cl.kind, held, pre.Left, cs.maxwb, cerr)
		}
		if errors.Is(cerr, nbio.ErrOverflow) && (fits || !post.Closed) {
			orc("c17-fits", "%s of %d bytes: overflow reported with left=%d maxwb=%d closed=%v", cl.kind, held, pre.Left, cs.maxwb, post.Closed)
		}
		// a call that would exceed the bound even after what the kernel takes directly must fail
		// with the overflow error and close the connection
		direct := 0
		fa := 0 // interrupted attempts are retried: the first other answer counts
		for fa < len(ans) && ans[fa].Err == syscall.EINTR {
			fa++
		}
		if len(pre.Items) == 0 && fa < len(ans) && ans[fa].Err == 0 {
			direct = ans[fa].N
			if direct > held {
				direct = held
			}
		}
		if cs.maxwb > 0 && pre.Left+held-direct > cs.maxwb && !(errors.Is(cerr, nbio.ErrOverflow) && post.Closed) {
			orc("c17-overflow", "%s of %d bytes with left=%d maxwb=%d (kernel takes %d): expected ErrOverflow and a closed connection, got (%d, %v) closed=%v left=%d",
				cl.kind, held, pre.Left, cs.maxwb, direct, n, cerr, post.Closed, post.Left)
		}
	}
	ex.Count("calls", cl.kind)
	if cl.nodup {
		ex.Count("faults", "dup:"+errName(cerr))
	}
	ex.Count("results", cl.kind+":"+errName(cerr))
	for _, a := range ans[:used] {
		switch {
		case a.Err == 0:
			ex.Count("answers", "wrote")
		default:
			ex.Count("answers", a.Err.Error())
		}
	}
	fmt.Fprintf(&cs.key, "%s:%s,", cl.kind[:5], errName(cerr))
	if cerr != nil {
		cs.nontrivial = true
	}
	return fmt.Sprintf("%d:%s", n, errName(cerr))
}

// armedOut: would the kernel report EPOLLOUT for this descriptor now?
func (cs *caseState) kernelState() (reg bool, events uint32, disarmed bool) {
	cs.v.Lock()
	defer cs.v.Unlock()
	if cs.disarmIdx >= 0 {
		for _, e := range cs.v.Ctl[cs.disarmIdx:] {
			if !strings.HasSuffix(e, "!") {
				cs.disarmIdx = -1
				break
			}
		}
	}
	if cs.v.Refusals != cs.refSeen {
		cs.refSeen = cs.v.Refusals
		cs.edgeDue = true
	}
	return cs.v.Reg, cs.v.Events, cs.disarmIdx >= 0
}

// state prints the canonical state and evaluates the state oracles.
func (cs *caseState) state() string {
	st := cs.c.VerifWriteState(true)
	if st.Closed {
		for i := 0; i < 30000 && atomic.LoadInt64(&cs.closes) == 0; i++ {
			time.Sleep(100 * time.Microsecond)
		}
		// the flag is set before the teardown (another goroutine: timer, poller) releases the queue:
		// look again once the close notification has been seen (the queue is released before it)
		st = cs.c.VerifWriteState(true)
	}
	cs.v.Lock()
	wire := cs.v.Wire
	ctl := append([]string(nil), cs.v.Ctl[cs.ctlSeen:]...)
	cs.ctlSeen = len(cs.v.Ctl)
	cs.v.Unlock()
	for _, x := range wire[cs.wireHashed:] {
		cs.wireHash = (cs.wireHash ^ uint64(x)) * 1099511628211
	}
	cs.wireHashed = len(wire)
	// --- C17
	sum := 0
	backlog := 0
	var items []string
	var pending []byte
	for _, it := range st.Items {
		if it.File {
			items = append(items, fmt.Sprintf("f%d+%d", it.Off, it.Remain))
			backlog += int(it.Remain)
			if it.Remain > 0 {
				b := make([]byte, it.Remain)
				k, _ := syscall.Pread(it.Fd, b, it.Off)
				pending = append(pending, b[:k]...)
			}
		} else {
			u := it.Len - int(it.Off)
			items = append(items, fmt.Sprintf("b%d/%d", u, it.Len))
			sum += u
			backlog += u
			pending = append(pending, it.Unsent...)
		}
	}
	if cs.maxwb > 0 && st.Left > cs.maxwb {
		orc("c17-bound", "left=%d > maxwb=%d", st.Left, cs.maxwb)
	}
	if !st.Closed && st.Left != sum {
		orc("c17-bound", "left=%d but the queued buffers hold %d unsent bytes", st.Left, sum)
	}
	if !st.Closed && len(st.Items) == 0 && st.Left != 0 {
		orc("c17-bound", "queue drained but left=%d", st.Left)
	}
	// --- C01: wire ++ pending == accepted (open); wire is a prefix of accepted (closed)
	acc := cs.accepted
	if st.Closed {
		acc = append(append([]byte(nil), acc...), cs.tolerate...)
		if len(wire) > len(acc) || string(wire) != string(acc[:len(wire)]) {
			orc("c01-wire", "closed conn: the %d wire bytes are not a prefix of the %d accepted bytes (first difference at %d)", len(wire), len(acc), firstDiff(wire, acc))
		}
	} else {
		got := append(append([]byte(nil), wire...), pending...)
		if string(got) != string(acc) {
			orc("c01-wire", "typ=%s wire(%d) ++ pending(%d) != accepted(%d) (first difference at %d)", cs.typ, len(wire), len(pending), len(acc), firstDiff(got, acc))
		}
	}
	// --- C04: quiescent state with a backlog and no armed EPOLLOUT
	reg, events, disarmed := cs.kernelState()
	if cs.registered && !st.Closed && len(st.Items) > 0 {
		cs.nontrivial = true
		if !(reg && events&syscall.EPOLLOUT != 0 && !disarmed) {
			origin := "after-register"
			if cs.fromOpen {
				origin = "open-callback"
				if cs.dial {
					origin = "connected-callback"
				}
			}
			if cs.dialNow {
				origin = "immediate-dial"
			}
			orc("c04-quiescent-unarmed", "mode=%s backlog-origin=%s queue=%d items (%d bytes) registered=%v epollout=%v oneshot-disarmed=%v wadded=%v",
				cs.mode, origin, len(st.Items), backlog, reg, events&syscall.EPOLLOUT != 0, disarmed, st.IsWAdded)
			orc("c01-stranded", "mode=%s: %d bytes that the calls reported as accepted sit in the queue of an open conn and no EPOLLOUT is armed: without another call or input from the peer they never reach it (queue=%d items wadded=%v epollout=%v oneshot-disarmed=%v)",
				cs.mode, backlog, len(st.Items), st.IsWAdded, events&syscall.EPOLLOUT != 0, disarmed)
		}
	}
	// ET: a backlog needs a writability report that is still due (EPOLLOUT is reported again only after
	// the kernel refused or shortened a write)
	if cs.mode == "et" && cs.registered && reg && !st.Closed && len(st.Items) > 0 && !cs.edgeDue {
		orc("c04-et-lost-edge", "mode=et: open conn with %d queued items but no writability report is due (no EAGAIN / short write since the last reported EPOLLOUT): the backlog waits for an edge that never comes", len(st.Items))
		orc("c01-stranded", "mode=et: accepted bytes sit in %d queued items of an open conn and no writability report is due: without another call or input from the peer they never reach it", len(st.Items))
	}
	if len(st.Items) == 0 {
		cs.fromOpen = false
	}
	b := func(x bool) int {
		if x {
			return 1
		}
		return 0
	}
	q := len(st.Items)
	if q > 3 {
		q = 3
	}
	fmt.Fprintf(&cs.key, "q%d%v;", q, st.Closed)
	// C16 tie: a drained, open connection must not keep a write deadline behind (checked where the
	// queue was seen non-empty before: set by the callers through cs.hadBacklog)
	if cs.hadBacklog && !st.Closed && len(st.Items) == 0 && st.WTimer {
		orc("c01-stale-wtimer", "queue drained on an open conn but the write deadline timer is still set")
	}
	cs.hadBacklog = !st.Closed && len(st.Items) > 0
	// contents, not only sizes: the queued bytes (buffers + file ranges read back through the dup'ed fds)
	// and, while open, the concatenation of the ranges the calls reported as accepted
	edgeS := "-"
	if cs.mode == "et" && reg && !st.Closed {
		edgeS = strconv.Itoa(b(cs.edgeDue))
	}
	accS := "-"
	if !st.Closed {
		accS = fmt.Sprintf("%d:%d", len(cs.accepted), lp.Fnv(cs.accepted))
	}
	return fmt.Sprintf("closed=%d left=%d wl=[%s] pend=%d:%d acc=%s wadded=%d reg=%d kout=%d dis=%d edge=%s ctl=[%s] wire=%d:%d onclose=%d wtimer=%d",
		b(st.Closed), st.Left, strings.Join(items, ","), len(pending), lp.Fnv(pending), accS, b(st.IsWAdded), b(reg), b(reg && events&syscall.EPOLLOUT != 0), b(disarmed), edgeS,
		strings.Join(ctl, ","), len(wire), cs.wireHash, atomic.LoadInt64(&cs.closes), b(st.WTimer))
}

// Oracle reports are buffered and printed after the result line of the op they belong to (the
// orchestrator attributes a report to the case of the preceding result line).
var pend [][2]string

func orc(name, format string, a ...interface{}) {
	pend = append(pend, [2]string{name, fmt.Sprintf(format, a...)})
}

func res(format string, a ...interface{}) {
	ex.P(format, a...)
	for _, p := range pend {
		ex.Oracle(p[0], "%s", p[1])
	}
	pend = nil
}

func firstDiff(a, b []byte) int {
	n := len(a)
	if len(b) < n {
		n = len(b)
	}
	for i := 0; i < n; i++ {
		if a[i] != b[i] {
			return i
		}
	}
	return n
}

func (cs *caseState) backlog() int {
	st := cs.c.VerifWriteState(false)
	t := 0
	for _, it := range st.Items {
		if it.File {
			t += int(it.Remain)
		} else {
			t += it.Len - int(it.Off)
		}
	}
	return t
}

// A batch that is not back is a suspected hang only when nothing observable happened on the descriptor
// for stallLimit (a slow flush on a loaded machine keeps issuing syscalls); a suspicion is confirmed by
// re-running the case alone in a fresh process before it is reported.
const stallLimit = 10 * time.Second
const hangTimeout = 30 * time.Second
const spinLimit = 200000

func (cs *caseState) finish() {
	if cs == nil {
		return
	}
	if cs.c != nil && !cs.dead {
		cs.c.Close()
		for i := 0; i < 30000 && atomic.LoadInt64(&cs.closes) == 0; i++ {
			time.Sleep(100 * time.Microsecond)
		}
	}
	vsys.Forget(cs.fd)
	ex.Key(cs.key.String(), cs.nontrivial)
}

func hasKey(f []string, key string) bool { _, ok := kv(f, key); return ok }

func kv(f []string, key string) (string, bool) {
	for _, t := range f {
		if strings.HasPrefix(t, key+"=") {
			return t[len(key)+1:], true
		}
	}
	return "", false
}

func (cs *caseState) progressSig() [5]int64 {
	cs.v.Lock()
	defer cs.v.Unlock()
	return [5]int64{cs.v.Writes, int64(len(cs.v.Wire)), int64(len(cs.v.Ctl)), cs.v.Reads, atomic.LoadInt64(&cs.zeroWrites)}
}

// inject delivers one event batch to the real poller loop; false = the loop did not come back and
// nothing moved for stallLimit (confirmed in isolation unless this process is the isolated one).
func (cs *caseState) inject(epfd int, evs []syscall.EpollEvent) bool {
	done := vsys.InjectAsync(epfd, evs)
	last, lastT := cs.progressSig(), time.Now()
	for {
		select {
		case <-done:
			return true
		case <-time.After(20 * time.Millisecond):
		}
		if atomic.LoadInt32(&cs.spin) != 0 {
			// the zero-length write spin was broken by the shim: the batch comes back
			<-done
			return true
		}
		if sig := cs.progressSig(); sig != last {
			last, lastT = sig, time.Now()
		} else if time.Since(lastT) > stallLimit {
			if cs.confirmHang() {
				return false
			}
			ex.Count("hang_suspicions", "not confirmed in isolation")
			<-done // a loaded machine: the isolated run came back, so will this one
			return true
		}
	}
}

// confirmHang re-runs the current case (up to and including the current op) alone in a fresh process.
func (cs *caseState) confirmHang() bool {
	if os.Getenv("HCONN_ISOLATED") == "1" {
		return true
	}
	cmd := osexec.Command(os.Args[0], "exec")
	cmd.Env = append(os.Environ(), "HCONN_ISOLATED=1")
	cmd.Stdin = strings.NewReader(strings.Join(cs.lines, "\n") + "\n")
	var out bytes.Buffer
	cmd.Stdout = &out
	doneCh := make(chan error, 1)
	if err := cmd.Start(); err != nil {
		return true
	}
	go func() { doneCh <- cmd.Wait() }()
	select {
	case <-doneCh:
	case <-time.After(6 * stallLimit):
		_ = cmd.Process.Kill()
		return true
	}
	lastRes := ""
	for _, l := range strings.Split(out.String(), "\n") {
		if l != "" && !strings.HasPrefix(l, ">") && !strings.HasPrefix(l, "#") && !strings.HasPrefix(l, "!") {
			lastRes = l
		}
	}
	return lastRes == "hung"
}

func (cs *caseState) hang(what string) {
	orc("c01-hang", "%s (mode=%s)", what, cs.mode)
	orc("c04-hang", "%s (mode=%s)", what, cs.mode)
	cs.dead = true
	cs.nontrivial = true
	res("hung")
}

func exec(e *lp.Exec) {
	ex = e
	logging.SetLevel(logging.LevelNone)
	vsys.VirtualAll = true
	vsys.ZeroLen = func(v *vsys.VFD) (int, error) {
		cs := cur
		if cs == nil || v != cs.v {
			return 0, nil
		}
		if atomic.AddInt64(&cs.zeroWrites, 1) > spinLimit {
			atomic.StoreInt32(&cs.spin, 1)
			return -1, syscall.EBADF // break the spin so that the run can go on
		}
		return 0, nil
	}
	defer func() {
		for _, f := range files {
			f.Close()
		}
	}()
	firstLine := true
	var opStart time.Time
	lastOp := ""
	for e.In.Scan() {
		line := e.In.Text()
		f := strings.Fields(line)
		if len(f) == 0 {
			continue
		}
		if firstLine && len(f) >= 2 && f[0] == "C" && f[1] == "real" {
			vsys.VirtualAll = false // a file of real-socket cases runs on the real kernel
			execReal(e, line)
			return
		}
		firstLine = false
		if p := os.Getenv("HCONN_SLOWLOG"); p != "" { // diagnostics: ops that took longer than 3 s
			if !opStart.IsZero() && time.Since(opStart) > 3*time.Second {
				if fh, err := os.OpenFile(p, os.O_APPEND|os.O_CREATE|os.O_WRONLY, 0644); err == nil {
					fmt.Fprintf(fh, "%.1fs %s\n", time.Since(opStart).Seconds(), lastOp)
					fh.Close()
				}
			}
			opStart, lastOp = time.Now(), line
		}
		e.P("> %s", line)
		if cur != nil && f[0] != "C" {
			cur.lines = append(cur.lines, line)
		}
		switch {
		case f[0] == "C":
			cur.finish()
			cur = nil
			typ, _ := kv(f, "typ")
			mode, _ := kv(f, "mode")
			mw, _ := kv(f, "maxwb")
			fs, _ := kv(f, "fsize")
			ow, _ := kv(f, "openwrite")
			dl, _ := kv(f, "dial")
			maxwb, e1 := strconv.Atoi(mw)
			fsize, e2 := strconv.Atoi(fs)
			if (typ != "tcp" && typ != "unix") || (mode != "lt" && mode != "et" && mode != "oneshot") || e1 != nil || e2 != nil || maxwb < 0 || fsize < 0 || fsize > 64<<20 {
				res("bad-op")
				continue
			}
			cs := &caseState{typ: typ, mode: mode, maxwb: maxwb, fsize: fsize, disarmIdx: -1, parkUsed: -1, wireHash: 14695981039346656037, lines: []string{line}}
			bad := false
			if ow != "-" && ow != "" {
				for _, it := range strings.Split(ow, ";") {
					cl, err := parseCall(strings.Split(it, "/"))
					if err != nil || (cl.kind == "sendfile" && cl.off > fsize) {
						bad = true
						break
					}
					cs.openCalls = append(cs.openCalls, cl)
				}
			}
			if bad {
				res("bad-op")
				continue
			}
			en := getEngine(mode)
			en.g.MaxWriteBufferSize = maxwb
			cs.file = patternFile(fsize)
			cs.fd, cs.v = vsys.NewVFD()
			ct := nbio.ConnTypeTCP
			if typ == "unix" {
				ct = nbio.ConnTypeUnix
			}
			fmt.Fprintf(&cs.key, "%s/%s/%v/%d/%s|", typ, mode, maxwb > 0, len(cs.openCalls), dl)
			e.Count("cells", typ+"/"+mode)
			cur = cs
			c := nbio.VerifNewConn(cs.fd, ct)
			cs.c = c
			if dl == "1" {
				// DialAsync: addDialer, then the connect completes and the connected callback runs
				err := en.g.VerifAddDialer(c, func(c *nbio.Conn, err error) {
					for _, cl := range cs.openCalls {
						cs.openRes = append(cs.openRes, cs.doCall(cl))
					}
					if st := c.VerifWriteState(false); len(st.Items) > 0 {
						cs.fromOpen = true
					}
				})
				if err != nil {
					res("bad-op adddialer: %v", err)
					cs.dead = true
					continue
				}
				cs.registered = true
				cs.dial = true
				cs.v.Lock()
				if cs.mode == "oneshot" {
					cs.disarmIdx = len(cs.v.Ctl)
				}
				cs.refSeen = cs.v.Refusals
				cs.v.Unlock()
				cs.edgeDue = false // the connect event is the edge that ADD owed
				if !cs.inject(en.epfd, []syscall.EpollEvent{{Fd: int32(cs.fd), Events: syscall.EPOLLOUT}}) {
					delete(engines, cs.mode)
					cs.hang("event loop did not come back from the connect event")
					continue
				}
				e.Count("cases", "dialer")
			} else if dl == "2" {
				// DialAsync whose connect() finished at once: addDialer without a pending callback; the
				// dial callback runs on its own goroutine afterwards (here: the open calls, right away)
				if err := en.g.VerifAddDialer(c, nil); err != nil {
					res("bad-op adddialer: %v", err)
					cs.dead = true
					continue
				}
				cs.registered = true
				cs.dialNow = true
				cs.edgeDue = true // EPOLL_CTL_ADD reports the current readiness
				cs.v.Lock()
				cs.refSeen = cs.v.Refusals
				cs.v.Unlock()
				for _, cl := range cs.openCalls {
					cs.openRes = append(cs.openRes, cs.doCall(cl))
				}
				e.Count("cases", "dialer-immediate")
			} else if _, err := en.g.AddConn(c); err != nil {
				res("bad-op addconn: %v", err)
				cs.dead = true
				continue
			}
			cs.registered = true
			if !cs.dial && !cs.dialNow {
				cs.edgeDue = true // EPOLL_CTL_ADD reports the current readiness
				cs.v.Lock()
				cs.refSeen = cs.v.Refusals
				cs.v.Unlock()
			}
			if len(cs.openCalls) > 0 {
				e.Count("cases", "open-callback-writes")
			}
			res("R ow=%s %s", strings.Join(cs.openRes, ";"), cs.state())
		case cur == nil:
			res("bad-op")
		case cur.dead:
			res("dead")
		case f[0] == "Q":
			res("Q %s", cur.state())
		case f[0] == "O" && len(f) >= 2 && f[1] == "close":
			cs := cur
			var race *call
			if rs, ok := kv(f[2:], "race"); ok {
				var err error
				race, err = parseCall(strings.Split(rs, "/"))
				if err != nil || (race.kind == "sendfile" && race.off > cs.fsize) {
					res("bad-op")
					cs.dead = true
					continue
				}
			} else if len(f) > 2 {
				res("bad-op")
				cs.dead = true
				continue
			}
			rc := "-"
			if race != nil {
				fired := false
				vsys.CloseHook = func(fd int) {
					if fd != cs.fd || fired {
						return
					}
					fired = true
					// the flag is set, the queue is released, the descriptor is still open
					cs.v.Lock()
					w0, n0 := cs.v.Writes, len(cs.v.Wire)
					cs.v.Unlock()
					rc = cs.doCall(race)
					cs.v.Lock()
					w1, n1 := cs.v.Writes, len(cs.v.Wire)
					cs.v.Unlock()
					if !strings.HasSuffix(rc, ":closed") || w1 != w0 || n1 != n0 {
						orc("c01-after-flip", "%s issued between the close flag and the close of the descriptor returned %s, write-like syscalls %d -> %d, wire %d -> %d bytes (expected the closed indication and no access to the descriptor)",
							race.kind, rc, w0, w1, n0, n1)
					}
				}
				cs.c.Close()
				vsys.CloseHook = nil
				if !fired { // already closed before: the call simply follows
					rc = cs.doCall(race)
				}
				e.Count("events", "close-race")
			} else {
				cs.c.Close()
			}
			fmt.Fprintf(&cs.key, "close,")
			res("R rc=%s %s", rc, cs.state())
		case f[0] == "O" && len(f) == 3 && f[1] == "deadline" && (f[2] == "far" || f[2] == "0"):
			if f[2] == "far" {
				_ = cur.c.SetWriteDeadline(time.Now().Add(time.Hour))
			} else {
				_ = cur.c.SetWriteDeadline(time.Time{})
			}
			cur.hadBacklog = false // an explicit (re)arming on an idle conn is legitimate
			fmt.Fprintf(&cur.key, "dl%s,", f[2])
			e.Count("deadline", f[2])
			res("R %s", cur.state())
		case f[0] == "O" && len(f) == 2 && f[1] == "fire":
			if st := cur.c.VerifWriteState(false); !st.Closed && st.WTimer {
				_ = cur.c.SetWriteDeadline(time.Now().Add(time.Millisecond))
				for i := 0; i < 600000 && !cur.c.VerifWriteState(false).Closed; i++ {
					time.Sleep(100 * time.Microsecond)
				}
				e.Count("deadline", "fired")
			} else {
				e.Count("deadline", "fire-without-timer")
			}
			fmt.Fprintf(&cur.key, "fire,")
			res("R %s", cur.state())
		case f[0] == "O" && len(f) >= 3 && f[1] == "event" && hasKey(f[3:], "park"):
			cs := cur
			kstr, _ := kv(f[3:], "K")
			var ks []string
			if kstr != "-" && kstr != "" {
				ks = strings.Split(kstr, ",")
			}
			ans, err := parseAns(ks)
			ps, _ := kv(f[3:], "park")
			var pc *call
			if err == nil {
				pc, err = parseCall(strings.Split(ps, "/"))
			}
			if err != nil || f[2] != "o" || (pc.kind == "sendfile" && pc.off > cs.fsize) {
				res("bad-op")
				cs.dead = true
				continue
			}
			// the writer goroutine
			parked := make(chan struct{})
			resume := make(chan struct{})
			state := int32(1)
			parkHook = func() {
				if atomic.CompareAndSwapInt32(&state, 1, 2) {
					cs.v.Lock()
					cs.parkUsed = 0 // (bookkeeping of the call's own answers ends here)
					cs.v.Unlock()
					close(parked)
					<-resume
				}
			}
			if cs.mode != "et" {
				// LT / ONESHOT arm EPOLLOUT only after the append (modWrite): no event can arrive in that
				// window, the call simply precedes the event
				parkHook = nil
			}
			cs.parkUsed = -2
			callDone := make(chan string, 1)
			nAns := len(pc.ks)
			go func() { callDone <- cs.doCall(pc) }()
			isParked := false
			rc := "-"
			select {
			case <-parked:
				isParked = true
				cs.v.Lock()
				cs.parkUsed = nAns - len(cs.v.Script)
				cs.v.Unlock()
			case rc = <-callDone:
				atomic.StoreInt32(&state, 3)
			}
			parkHook = func() {}
			// the event, masked by what the kernel could deliver now (the writer's direct write has happened)
			reg, events, disarmed := cs.kernelState()
			closedNow := false
			if !isParked {
				closedNow = cs.c.VerifWriteState(false).Closed
			}
			deliv := "-"
			if reg && !closedNow && !disarmed && events&syscall.EPOLLOUT != 0 && (cs.mode != "et" || cs.edgeDue) {
				deliv = "o"
				if cs.mode == "et" {
					cs.edgeDue = false
				}
				cs.v.Lock()
				if cs.mode == "oneshot" {
					cs.disarmIdx = len(cs.v.Ctl)
				}
				cs.v.Script = ans
				cs.v.Unlock()
				done := vsys.InjectAsync(engines[cs.mode].epfd, []syscall.EpollEvent{{Fd: int32(cs.fd), Events: syscall.EPOLLOUT}})
				if isParked {
					select {
					case <-done: // flush did not wait for the writer's critical section
					case <-time.After(50 * time.Millisecond):
					}
					close(resume)
					rc = <-callDone
				}
				select {
				case <-done:
				case <-time.After(hangTimeout):
					cs.hang("event loop did not come back from an event injected while a writer was parked")
					parkHook = nil
					cs.parkUsed = -1
					continue
				}
				cs.v.Lock()
				cs.v.Script = nil
				cs.v.Unlock()
			} else if isParked {
				close(resume)
				rc = <-callDone
			}
			parkHook = nil
			cs.parkUsed = -1
			e.Count("events", "park")
			if isParked {
				e.Count("events", "park-writer-parked")
			}
			fmt.Fprintf(&cs.key, "park%s,", deliv)
			res("R deliv=%s cb=- rc=%s %s", deliv, rc, cs.state())
		case f[0] == "O" && len(f) >= 3 && f[1] == "event":
			cs := cur
			bits := f[2]
			kstr, _ := kv(f[3:], "K")
			var ks []string
			if kstr != "-" && kstr != "" {
				ks = strings.Split(kstr, ",")
			}
			ans, err := parseAns(ks)
			var cb *call
			if cbs, ok := kv(f[3:], "cb"); ok && err == nil {
				cb, err = parseCall(strings.Split(cbs, "/"))
				if err == nil && cb.kind == "sendfile" && cb.off > cs.fsize {
					err = errors.New("offset")
				}
			}
			var race *call
			if rs, ok := kv(f[3:], "race"); ok && err == nil {
				race, err = parseCall(strings.Split(rs, "/"))
				if err == nil && ((race.kind == "sendfile" && race.off > cs.fsize) || bits != "i" || cb != nil) {
					err = errors.New("race: only with a plain i event")
				}
			}
			if err != nil || strings.Trim(bits, "oie") != "" {
				res("bad-op")
				cs.dead = true
				continue
			}
			st := cs.c.VerifWriteState(false)
			reg, events, disarmed := cs.kernelState()
			var evs uint32
			deliv := ""
			if reg && !st.Closed && !disarmed {
				if strings.Contains(bits, "o") && events&syscall.EPOLLOUT != 0 && (cs.mode != "et" || cs.edgeDue) {
					evs |= syscall.EPOLLOUT
					deliv += "o"
				}
				if strings.Contains(bits, "i") {
					evs |= syscall.EPOLLIN
					deliv += "i"
				}
				if strings.Contains(bits, "e") {
					evs |= syscall.EPOLLERR
					deliv += "e"
				}
			}
			cs.cbRes = "-"
			raceRes := "-"
			if evs != 0 {
				before := cs.backlog()
				if evs&syscall.EPOLLOUT != 0 && cs.mode == "et" {
					cs.edgeDue = false // the report is consumed
				}
				cs.v.Lock()
				if cs.mode == "oneshot" {
					cs.disarmIdx = len(cs.v.Ctl)
				}
				cs.v.Script = ans
				wireBefore := len(cs.v.Wire)
				if cb != nil && evs&syscall.EPOLLIN != 0 {
					cs.v.Rq = append(cs.v.Rq, 0x55)
					cs.cbCall = cb
				}
				cs.v.Unlock()
				atomic.StoreInt64(&cs.zeroWrites, 0)
				var raceDone chan string
				raceArmed := int32(0)
				if race != nil {
					// the first epoll_ctl of this event is ResetPollerEvent's (no flush, no callback call)
					raceDone = make(chan string, 1)
					raceArmed = 1
					vsys.CtlHook = func(fd, op int, events uint32) {
						if fd != cs.fd || !atomic.CompareAndSwapInt32(&raceArmed, 1, 2) {
							return
						}
						done := make(chan string, 1)
						go func() { done <- cs.doCall(race) }()
						select {
						case r := <-done: // completed before the poller's epoll_ctl: the poller does not hold the mutex here
							raceDone <- r
						case <-time.After(50 * time.Millisecond): // blocked on the conn mutex: it will run after the poller is through
							go func() { raceDone <- <-done }()
						}
					}
				}
				ok := cs.inject(engines[cs.mode].epfd, []syscall.EpollEvent{{Fd: int32(cs.fd), Events: evs}})
				if !ok {
					// the poller is stuck inside the batch (holding the conn mutex): abandon conn and engine
					delete(engines, cs.mode)
					cs.hang("event loop did not come back from an injected batch: flush never returns")
					continue
				}
				if race != nil {
					vsys.CtlHook = nil
					if atomic.LoadInt32(&raceArmed) == 2 {
						select {
						case raceRes = <-raceDone:
						case <-time.After(hangTimeout):
							if cs.confirmHang() {
								cs.hang("a call racing with ResetPollerEvent never returned")
								continue
							}
							raceRes = <-raceDone
						}
					}
				}
				cs.v.Lock()
				left := len(cs.v.Script)
				cs.v.Script = nil
				cs.v.Unlock()
				cbRan := cb != nil && cs.cbCall == nil
				cs.cbCall = nil
				if atomic.LoadInt32(&cs.spin) != 0 {
					cs.hang(fmt.Sprintf("flush issued more than %d consecutive zero-length writes: it spins on an empty queue item while holding the conn mutex", spinLimit))
					continue
				}
				first := 0 // the first answer that is not EINTR decides whether the kernel has room
				for first < len(ans) && ans[first].Err == syscall.EINTR {
					first++
				}
				if evs&syscall.EPOLLOUT != 0 && first < len(ans) && ans[first].Err == 0 && ans[first].N > 0 && before > 0 {
					// (a data-callback call can only append behind the backlog, so progress shows on the wire)
					cs.v.Lock()
					wireAfter := len(cs.v.Wire)
					cs.v.Unlock()
					if wireAfter <= wireBefore {
						orc("c04-progress", "EPOLLOUT with kernel room (%d bytes) and a backlog of %d bytes: nothing was transmitted", ans[first].N, before)
					}
				}
				e.Count("events", deliv)
				for _, a := range ans[:len(ans)-left] {
					if !cbRan {
						if a.Err == 0 {
							e.Count("answers", "wrote")
						} else {
							e.Count("answers", a.Err.Error())
						}
					}
				}
			} else {
				deliv = "-"
				e.Count("events", "not-deliverable")
			}
			if race != nil && raceRes == "-" {
				// no ResetPollerEvent in this event (not ONESHOT, or nothing delivered): the call simply follows
				raceRes = cs.doCall(race)
			}
			if race != nil {
				e.Count("events", "race")
			}
			fmt.Fprintf(&cs.key, "ev%s,", deliv)
			res("R deliv=%s cb=%s rc=%s %s", deliv, cs.cbRes, raceRes, cs.state())
		case f[0] == "O":
			cl, err := parseCall(f[1:])
			if err != nil || (cl.kind == "sendfile" && cl.off > cur.fsize) {
				res("bad-op")
				cur.dead = true
				continue
			}
			r := cur.doCall(cl)
			i := strings.LastIndex(r, ":")
			res("R n=%s err=%s %s", r[:i], r[i+1:], cur.state())
		default:
			res("bad-op")
			cur.dead = true
		}
	}
	cur.finish()
}

func main() {
	if len(os.Args) > 1 && os.Args[1] == "real" {
		realGen(os.Args[2:])
		return
	}
	lp.Main(gen, exec)
}
