// hhttpe: C08 "nothing further after an error" at ENGINE level (DESIGN §8 #12).
//
// A real nbhttp.Engine (IOModNonBlocking / IOModBlocking / IOModMixed) listens on loopback; for every case a real
// TCP connection sends a byte stream made of valid requests, one malformed request, and more valid requests, in one
// or several writes. The expected behaviour is computed on the real parser alone (hx.Sess fed the same bytes): the
// requests delivered before the parse error. Direct oracle:
//
//	c08-after-error-engine   the engine's handler saw a request that follows the parse error, or the connection was
//	                         not closed after the error
//
// ops:   C <mode>      0 non-blocking, 1 blocking, 2 mixed; 3, 4, 5 the same three over TLS
//        S <id> <hex stream> <cut1,cut2,...|whole>
// result R handled=<paths seen by the engine's handler> closed=<server closed the connection first: 0|1>
//          onclose=<number of Engine.OnClose callbacks for the connection> expect=<…> err=<code>
// The Lean driver runs the engine model (Model/HttpEngine.lean: runNB / runB / runTlsNB / runTlsB over the parser
// model) on the same writes and prints handled/closed/onclose; `expect`/`err` come from the real parser alone.
package main

import (
	"crypto/ecdsa"
	"crypto/elliptic"
	"crypto/rand"
	stdtls "crypto/tls"
	"crypto/x509"
	"crypto/x509/pkix"
	"encoding/pem"
	"fmt"
	"io"
	"math/big"
	"net"
	"net/http"
	"strconv"
	"strings"
	"sync"
	"time"

	"harness/internal/hx"
	"harness/internal/lp"

	ltls "github.com/lesismal/llib/std/crypto/tls"
	"github.com/lesismal/nbio/logging"
	"github.com/lesismal/nbio/nbhttp"
)

// selfSigned makes a throw-away certificate for the TLS cells.
func selfSigned() (certPEM, keyPEM []byte, err error) {
	key, err := ecdsa.GenerateKey(elliptic.P256(), rand.Reader)
	if err != nil {
		return nil, nil, err
	}
	tmpl := &x509.Certificate{SerialNumber: big.NewInt(1), Subject: pkix.Name{CommonName: "localhost"},
		NotBefore: time.Now().Add(-time.Hour), NotAfter: time.Now().Add(24 * time.Hour),
		KeyUsage: x509.KeyUsageDigitalSignature, ExtKeyUsage: []x509.ExtKeyUsage{x509.ExtKeyUsageServerAuth},
		DNSNames: []string{"localhost"}, IPAddresses: []net.IP{net.ParseIP("127.0.0.1")}}
	der, err := x509.CreateCertificate(rand.Reader, tmpl, tmpl, &key.PublicKey, key)
	if err != nil {
		return nil, nil, err
	}
	kb, err := x509.MarshalECPrivateKey(key)
	if err != nil {
		return nil, nil, err
	}
	return pem.EncodeToMemory(&pem.Block{Type: "CERTIFICATE", Bytes: der}), pem.EncodeToMemory(&pem.Block{Type: "EC PRIVATE KEY", Bytes: kb}), nil
}

type server struct {
	e       *nbhttp.Engine
	addr    string
	addrTLS string
	mu      sync.Mutex
	seen    map[string][]string // case id -> request paths in arrival order
	onClose map[string]int      // client address -> number of Engine.OnClose callbacks
}

func startServer(mode int) (*server, error) {
	s := &server{seen: map[string][]string{}, onClose: map[string]int{}}
	certPEM, keyPEM, err := selfSigned()
	if err != nil {
		return nil, err
	}
	cert, err := ltls.X509KeyPair(certPEM, keyPEM)
	if err != nil {
		return nil, err
	}
	mux := http.HandlerFunc(func(w http.ResponseWriter, r *http.Request) {
		if r.Body != nil {
			_, _ = io.ReadAll(r.Body)
		}
		parts := strings.SplitN(strings.TrimPrefix(r.URL.Path, "/"), "/", 2)
		if len(parts) == 2 {
			s.mu.Lock()
			s.seen[parts[0]] = append(s.seen[parts[0]], parts[1])
			s.mu.Unlock()
		}
		_, _ = w.Write([]byte("ok"))
	})
	s.e = nbhttp.NewEngine(nbhttp.Config{Network: "tcp", Addrs: []string{"127.0.0.1:0"}, AddrsTLS: []string{"127.0.0.1:0"},
		TLSConfig: &ltls.Config{Certificates: []ltls.Certificate{cert}}, IOMod: mode, Handler: mux,
		MaxBlockingOnline: 2, NPoller: 2, KeepaliveTime: 30 * time.Second})
	s.e.OnClose(func(c net.Conn, err error) {
		if c != nil && c.RemoteAddr() != nil {
			s.mu.Lock()
			s.onClose[c.RemoteAddr().String()]++
			s.mu.Unlock()
		}
	})
	if err := s.e.Start(); err != nil {
		return nil, err
	}
	// startListeners stores the bound address back into the address configuration
	if len(s.e.AddrConfigs) == 0 || strings.HasSuffix(s.e.AddrConfigs[0].Addr, ":0") {
		return nil, fmt.Errorf("no listener address")
	}
	s.addr = s.e.AddrConfigs[0].Addr
	if len(s.e.AddrConfigsTLS) == 0 || strings.HasSuffix(s.e.AddrConfigsTLS[0].Addr, ":0") {
		return nil, fmt.Errorf("no TLS listener address")
	}
	s.addrTLS = s.e.AddrConfigsTLS[0].Addr
	return s, nil
}

func (s *server) paths(id string) []string {
	s.mu.Lock()
	defer s.mu.Unlock()
	return append([]string{}, s.seen[id]...)
}

// expected: what the real parser alone delivers for the stream, and the error it ends with.
func expected(stream []byte, id string) ([]string, int, string, string) {
	ss := hx.NewSess(false, 0, 0)
	r := ss.Feed(stream)
	var ps []string
	for _, m := range ss.R.Seen {
		parts := strings.SplitN(strings.TrimPrefix(m.RequestURI, "/"), "/", 2)
		if len(parts) == 2 && parts[0] == id {
			ps = append(ps, strings.SplitN(parts[1], "?", 2)[0])
		}
	}
	return ps, r.Errc, strings.Join(ss.R.BadURL, ","), strings.Join(ss.R.BadProto, ",")
}

func (s *server) forget(addr string) {
	s.mu.Lock()
	delete(s.onClose, addr)
	s.mu.Unlock()
}

func (s *server) closes(addr string) int {
	s.mu.Lock()
	defer s.mu.Unlock()
	return s.onClose[addr]
}

func runCase(s *server, useTLS bool, id string, stream []byte, cuts []int, wantN int, expectClose, closeNow bool) (handled []string, closed bool, onclose int, err error) {
	var c net.Conn
	if useTLS {
		d := &net.Dialer{Timeout: 2 * time.Second}
		c, err = stdtls.DialWithDialer(d, "tcp", s.addrTLS, &stdtls.Config{InsecureSkipVerify: true})
	} else {
		c, err = net.DialTimeout("tcp", s.addr, 2*time.Second)
	}
	if err != nil {
		return nil, false, 0, err
	}
	local := c.LocalAddr().String()
	s.forget(local) // the port may have been used by an earlier connection of this process
	rest := stream
	for len(rest) > 0 {
		n := len(rest)
		if len(cuts) > 0 {
			if cuts[0] > 0 && cuts[0] < n {
				n = cuts[0]
			}
			cuts = cuts[1:]
		}
		if _, werr := c.Write(rest[:n]); werr != nil {
			break // the server closed already
		}
		rest = rest[n:]
		if len(rest) > 0 {
			time.Sleep(15 * time.Millisecond)
		}
	}
	if closeNow {
		// the client is done right after its last write: it closes its sending side (close_notify / FIN) and keeps
		// reading. (A full close would make the server's response writes fail; a failed write closes the connection
		// on the server side, and requests parsed after that are dropped by design — "the job wouldn't run if the
		// connection is closed" — which made the set of handled requests depend on timing.)
		switch cc := c.(type) {
		case *stdtls.Conn:
			_ = cc.CloseWrite()
		case *net.TCPConn:
			_ = cc.CloseWrite()
		}
		for i := 0; i < 300 && s.closes(local) == 0; i++ {
			time.Sleep(10 * time.Millisecond)
		}
		for i := 0; i < 300 && len(s.paths(id)) < wantN; i++ {
			time.Sleep(10 * time.Millisecond)
		}
		time.Sleep(50 * time.Millisecond)
		_ = c.Close()
		return s.paths(id), false, s.closes(local), nil
	}
	// a loaded machine may take long to run the handlers: give the expected requests up to 4 s to arrive (one-sided:
	// waiting longer cannot hide a surplus request, which is looked for afterwards)
	for i := 0; i < 400 && !expectClose && len(s.paths(id)) < wantN; i++ {
		time.Sleep(10 * time.Millisecond)
	}
	// read until the server closes the connection, or give up (one-sided tolerance: generous when a close is due)
	wait := 400 * time.Millisecond
	if expectClose {
		wait = 4 * time.Second
	}
	_ = c.SetReadDeadline(time.Now().Add(wait))
	buf := make([]byte, 4096)
	for {
		_, rerr := c.Read(buf)
		if rerr != nil {
			if ne, ok := rerr.(net.Error); ok && ne.Timeout() {
				closed = false
			} else {
				closed = true
			}
			break
		}
	}
	_ = c.Close()
	// the engine must run OnClose for this connection: exactly once
	for i := 0; i < 300 && s.closes(local) == 0; i++ {
		time.Sleep(10 * time.Millisecond)
	}
	time.Sleep(30 * time.Millisecond)
	return s.paths(id), closed, s.closes(local), nil
}

func exec(e *lp.Exec) {
	logging.SetLevel(logging.LevelNone)
	var servers [3]*server // one engine per I/O mode, each with a plain and a TLS listener
	mode := 0
	defer func() {
		for _, s := range servers {
			if s != nil {
				s.e.Stop()
			}
		}
	}()
	for e.In.Scan() {
		line := e.In.Text()
		f := strings.Fields(line)
		if len(f) == 0 {
			continue
		}
		if f[0] != "S" {
			e.P("> %s", line)
		}
		switch f[0] {
		case "C":
			mode, _ = strconv.Atoi(f[1])
			if mode < 0 || mode > 5 {
				e.P("bad-op")
				continue
			}
			if servers[mode%3] == nil {
				s, err := startServer(mode % 3)
				if err != nil {
					e.P("R start-failed %v", err)
					continue
				}
				servers[mode%3] = s
			}
			e.P("ok")
		case "S":
			if len(f) < 4 || servers[mode%3] == nil {
				e.P("> %s", line)
				e.P("bad-op")
				continue
			}
			id := f[1]
			stream := lp.Unhex(f[2])
			var cuts []int
			closeNow := strings.HasSuffix(f[3], "!") // close right after the last write, without waiting for responses
			f[3] = strings.TrimSuffix(f[3], "!")
			if f[3] != "whole" {
				for _, x := range strings.Split(f[3], ",") {
					n, _ := strconv.Atoi(x)
					cuts = append(cuts, n)
				}
			}
			want, errc, badurl, badproto := expected(stream, id)
			e.P("> S %s %s %s badurl=%s badproto=%s", f[1], f[2], f[3], badurl, badproto)
			got, closed, onclose, err := runCase(servers[mode%3], mode >= 3, id, stream, cuts, len(want), errc != 0, closeNow)
			if err != nil {
				e.P("R dial-failed %v", err)
				continue
			}
			mn := map[int]string{0: "nonblocking", 1: "blocking", 2: "mixed", 3: "tls-nonblocking", 4: "tls-blocking", 5: "tls-mixed"}[mode]
			if onclose != 1 {
				e.Oracle("c08-engine-onclose", "mode=%s: Engine.OnClose ran %d times for the connection (err=%d)", mn, onclose, errc)
			}
			e.Count("cases", mn)
			if errc != 0 {
				e.Count("with_error", mn)
				if strings.Join(got, ",") != strings.Join(want, ",") {
					e.Oracle("c08-after-error-engine", "mode=%s: the parser fails with err=%d after delivering [%s], but the engine's handler saw [%s]",
						mn, errc, strings.Join(want, ","), strings.Join(got, ","))
				} else if !closed {
					e.Oracle("c08-after-error-engine", "mode=%s: parse error err=%d but the connection was not closed within 4s", mn, errc)
				}
			} else if strings.Join(got, ",") != strings.Join(want, ",") {
				e.Oracle("c08-engine-delivery", "mode=%s: valid stream: parser delivers [%s], engine handler saw [%s]", mn, strings.Join(want, ","), strings.Join(got, ","))
			}
			e.Key(fmt.Sprintf("%d/%d/%d/%v", mode, errc, len(want), len(cuts) > 0), errc != 0)
			cl := 0
			if closed {
				cl = 1
			}
			e.P("R handled=%s closed=%d onclose=%d expect=%s err=%d", strings.Join(got, ","), cl, onclose, strings.Join(want, ","), errc)
		default:
			e.P("bad-op")
		}
	}
}

// ---------------------------------------------------------------- generator

func valid(g *lp.Gen, id, name string) string {
	switch g.Intn(3) {
	case 0:
		return "GET /" + id + "/" + name + " HTTP/1.1\r\nHost: x\r\n\r\n"
	case 1:
		b := strings.Repeat("b", 1+g.Intn(20))
		return "POST /" + id + "/" + name + " HTTP/1.1\r\nHost: x\r\nContent-Length: " + strconv.Itoa(len(b)) + "\r\n\r\n" + b
	}
	return "POST /" + id + "/" + name + " HTTP/1.1\r\nHost: x\r\nTransfer-Encoding: chunked\r\n\r\n3\r\nabc\r\n0\r\n\r\n"
}

func malformed(g *lp.Gen, id string) string {
	p := "/" + id + "/bad"
	return g.Pick(
		"\x01",
		"\x01\x02\x03",
		"G\x00T "+p+" HTTP/1.1\r\n\r\n",
		"GET "+p+" HTTP/1.1\r\nBad Header\r\n\r\n",
		"GET "+p+" HTTP/1.1\r\nHost: x\n\r\n",
		"POST "+p+" HTTP/1.1\r\nContent-Length: x\r\n\r\n",
		"POST "+p+" HTTP/1.1\r\nContent-Length: -1\r\n\r\n",
		"POST "+p+" HTTP/1.1\r\nTransfer-Encoding: gzip\r\n\r\n",
		"POST "+p+" HTTP/1.1\r\nTransfer-Encoding: chunked\r\nTransfer-Encoding: chunked\r\n\r\n",
		"POST "+p+" HTTP/1.1\r\nTransfer-Encoding: chunked\r\n\r\nzz\r\n",
		"POST "+p+" HTTP/1.1\r\nTransfer-Encoding: chunked\r\n\r\n1\r\nab\r\n",
		"GET "+p+" HTTP/1.x\r\n\r\n",
		"GET "+p+"%zz HTTP/1.1\r\n\r\n",
		"GET "+p+" HTTP/1.1\r\n\r\n"+"get@",
		" GET "+p+" HTTP/1.1\r\n\r\n",
		"GET "+p+" HTTP/1.1\r\n : v\r\n\r\n",
	)
}

func gen(g *lp.Gen) {
	for cs := 0; cs < g.N; cs++ {
		mode := cs % 6
		id := fmt.Sprintf("c%d-%d", g.Rng.Int31(), cs)
		var parts []string
		for i, n := 0, g.Intn(3); i < n; i++ {
			parts = append(parts, valid(g, id, "ok"+strconv.Itoa(i)))
		}
		bad := !g.Chance(1, 8)
		if bad {
			parts = append(parts, malformed(g, id))
		}
		for i, n := 0, 1+g.Intn(2); i < n; i++ {
			parts = append(parts, valid(g, id, "after"+strconv.Itoa(i)))
		}
		stream := strings.Join(parts, "")
		cuts := "whole"
		switch g.Intn(3) {
		case 0: // one write per part: the successor arrives in a later read than the error
			var xs []string
			for _, p := range parts[:len(parts)-1] {
				xs = append(xs, strconv.Itoa(len(p)))
			}
			if len(xs) > 0 {
				cuts = strings.Join(xs, ",")
			}
		case 1:
			if len(stream) > 2 {
				cuts = strconv.Itoa(1 + g.Intn(len(stream)-1))
			}
		}
		if !bad && g.Chance(1, 2) { // a valid stream, and the client closes right after its last write
			cuts += "!"
		}
		g.P("C %d", mode)
		g.P("S %s %s %s", id, lp.Hex([]byte(stream)), cuts)
	}
}

func main() { lp.Main(gen, exec) }
