// hhttpe: C08 "nothing further after an error" at ENGINE level (DESIGN §8 #12).
//
// A real nbhttp.Engine (IOModNonBlocking / IOModBlocking / IOModMixed) listens on loopback; for every case a real
// TCP connection sends a byte stream made of valid requests, one malformed request, and more valid requests, in one
// or several writes. The expected behaviour is computed on the real parser alone (hx.Sess fed the same bytes): the
// requests delivered before the parse error. Direct oracle:
//
//	c08-after-error-engine   the engine's handler saw a request that follows the parse error, or the connection was
//	                         not closed after the error
//
// ops:   C <mode 0|1|2>
//        S <id> <hex stream> <cut1,cut2,...|whole>
// result R handled=<paths seen by the engine's handler> expect=<paths delivered before the error> err=<code> closed=<0|1>
// (no Lean driver: the model-level statement is theorem c08_silent_after_close; this stream is implementation only)
package main

import (
	"fmt"
	"io"
	"net"
	"net/http"
	"strconv"
	"strings"
	"sync"
	"time"

	"harness/internal/hx"
	"harness/internal/lp"

	"github.com/lesismal/nbio/logging"
	"github.com/lesismal/nbio/nbhttp"
)

type server struct {
	e    *nbhttp.Engine
	addr string
	mu   sync.Mutex
	seen map[string][]string // case id -> request paths in arrival order
}

func startServer(mode int) (*server, error) {
	s := &server{seen: map[string][]string{}}
	mux := http.HandlerFunc(func(w http.ResponseWriter, r *http.Request) {
		if r.Body != nil {
			_, _ = io.ReadAll(r.Body)
		}
		parts := strings.SplitN(strings.TrimPrefix(r.URL.Path, "/"), "/", 2)
		if len(parts) == 2 {
			s.mu.Lock()
			s.seen[parts[0]] = append(s.seen[parts[0]], parts[1])
			s.mu.Unlock()
		}
		_, _ = w.Write([]byte("ok"))
	})
	s.e = nbhttp.NewEngine(nbhttp.Config{Network: "tcp", Addrs: []string{"127.0.0.1:0"}, IOMod: mode, Handler: mux,
		MaxBlockingOnline: 2, NPoller: 2, KeepaliveTime: 30 * time.Second})
	if err := s.e.Start(); err != nil {
		return nil, err
	}
	// startListeners stores the bound address back into the address configuration
	if len(s.e.AddrConfigs) == 0 || strings.HasSuffix(s.e.AddrConfigs[0].Addr, ":0") {
		return nil, fmt.Errorf("no listener address")
	}
	s.addr = s.e.AddrConfigs[0].Addr
	return s, nil
}

func (s *server) paths(id string) []string {
	s.mu.Lock()
	defer s.mu.Unlock()
	return append([]string{}, s.seen[id]...)
}

// expected: what the real parser alone delivers for the stream, and the error it ends with.
func expected(stream []byte, id string) ([]string, int) {
	ss := hx.NewSess(false, 0, 0)
	r := ss.Feed(stream)
	var ps []string
	for _, m := range ss.R.Seen {
		parts := strings.SplitN(strings.TrimPrefix(m.RequestURI, "/"), "/", 2)
		if len(parts) == 2 && parts[0] == id {
			ps = append(ps, strings.SplitN(parts[1], "?", 2)[0])
		}
	}
	return ps, r.Errc
}

func runCase(s *server, id string, stream []byte, cuts []int) (handled []string, closed bool, err error) {
	c, err := net.DialTimeout("tcp", s.addr, 2*time.Second)
	if err != nil {
		return nil, false, err
	}
	defer c.Close()
	rest := stream
	for len(rest) > 0 {
		n := len(rest)
		if len(cuts) > 0 {
			if cuts[0] > 0 && cuts[0] < n {
				n = cuts[0]
			}
			cuts = cuts[1:]
		}
		if _, werr := c.Write(rest[:n]); werr != nil {
			break // the server closed already
		}
		rest = rest[n:]
		if len(rest) > 0 {
			time.Sleep(15 * time.Millisecond)
		}
	}
	// read until the server closes the connection, or give up
	_ = c.SetReadDeadline(time.Now().Add(1200 * time.Millisecond))
	buf := make([]byte, 4096)
	for {
		_, rerr := c.Read(buf)
		if rerr != nil {
			if ne, ok := rerr.(net.Error); ok && ne.Timeout() {
				closed = false
			} else {
				closed = true
			}
			break
		}
	}
	time.Sleep(20 * time.Millisecond)
	return s.paths(id), closed, nil
}

func exec(e *lp.Exec) {
	logging.SetLevel(logging.LevelNone)
	var servers [3]*server
	mode := 0
	defer func() {
		for _, s := range servers {
			if s != nil {
				s.e.Stop()
			}
		}
	}()
	for e.In.Scan() {
		line := e.In.Text()
		f := strings.Fields(line)
		if len(f) == 0 {
			continue
		}
		e.P("> %s", line)
		switch f[0] {
		case "C":
			mode, _ = strconv.Atoi(f[1])
			if mode < 0 || mode > 2 {
				e.P("bad-op")
				continue
			}
			if servers[mode] == nil {
				s, err := startServer(mode)
				if err != nil {
					e.P("R start-failed %v", err)
					continue
				}
				servers[mode] = s
			}
			e.P("ok")
		case "S":
			if len(f) != 4 || servers[mode] == nil {
				e.P("bad-op")
				continue
			}
			id := f[1]
			stream := lp.Unhex(f[2])
			var cuts []int
			if f[3] != "whole" {
				for _, x := range strings.Split(f[3], ",") {
					n, _ := strconv.Atoi(x)
					cuts = append(cuts, n)
				}
			}
			want, errc := expected(stream, id)
			got, closed, err := runCase(servers[mode], id, stream, cuts)
			if err != nil {
				e.P("R dial-failed %v", err)
				continue
			}
			mn := map[int]string{0: "nonblocking", 1: "blocking", 2: "mixed"}[mode]
			e.Count("cases", mn)
			if errc != 0 {
				e.Count("with_error", mn)
				if strings.Join(got, ",") != strings.Join(want, ",") {
					e.Oracle("c08-after-error-engine", "mode=%s: the parser fails with err=%d after delivering [%s], but the engine's handler saw [%s]",
						mn, errc, strings.Join(want, ","), strings.Join(got, ","))
				} else if !closed {
					e.Oracle("c08-after-error-engine", "mode=%s: parse error err=%d but the connection was not closed within 1.2s", mn, errc)
				}
			} else if strings.Join(got, ",") != strings.Join(want, ",") {
				e.Oracle("c08-engine-delivery", "mode=%s: valid stream: parser delivers [%s], engine handler saw [%s]", mn, strings.Join(want, ","), strings.Join(got, ","))
			}
			e.Key(fmt.Sprintf("%d/%d/%d/%v", mode, errc, len(want), len(cuts) > 0), errc != 0)
			cl := 0
			if closed {
				cl = 1
			}
			e.P("R handled=%s expect=%s err=%d closed=%d", strings.Join(got, ","), strings.Join(want, ","), errc, cl)
		default:
			e.P("bad-op")
		}
	}
}

// ---------------------------------------------------------------- generator

func valid(g *lp.Gen, id, name string) string {
	switch g.Intn(3) {
	case 0:
		return "GET /" + id + "/" + name + " HTTP/1.1\r\nHost: x\r\n\r\n"
	case 1:
		b := strings.Repeat("b", 1+g.Intn(20))
		return "POST /" + id + "/" + name + " HTTP/1.1\r\nHost: x\r\nContent-Length: " + strconv.Itoa(len(b)) + "\r\n\r\n" + b
	}
	return "POST /" + id + "/" + name + " HTTP/1.1\r\nHost: x\r\nTransfer-Encoding: chunked\r\n\r\n3\r\nabc\r\n0\r\n\r\n"
}

func malformed(g *lp.Gen, id string) string {
	p := "/" + id + "/bad"
	return g.Pick(
		"\x01",
		"\x01\x02\x03",
		"G\x00T "+p+" HTTP/1.1\r\n\r\n",
		"GET "+p+" HTTP/1.1\r\nBad Header\r\n\r\n",
		"GET "+p+" HTTP/1.1\r\nHost: x\n\r\n",
		"POST "+p+" HTTP/1.1\r\nContent-Length: x\r\n\r\n",
		"POST "+p+" HTTP/1.1\r\nContent-Length: -1\r\n\r\n",
		"POST "+p+" HTTP/1.1\r\nTransfer-Encoding: gzip\r\n\r\n",
		"POST "+p+" HTTP/1.1\r\nTransfer-Encoding: chunked\r\nTransfer-Encoding: chunked\r\n\r\n",
		"POST "+p+" HTTP/1.1\r\nTransfer-Encoding: chunked\r\n\r\nzz\r\n",
		"POST "+p+" HTTP/1.1\r\nTransfer-Encoding: chunked\r\n\r\n1\r\nab\r\n",
		"GET "+p+" HTTP/1.x\r\n\r\n",
		"GET "+p+"%zz HTTP/1.1\r\n\r\n",
		"GET "+p+" HTTP/1.1\r\n\r\n"+"get@",
		" GET "+p+" HTTP/1.1\r\n\r\n",
		"GET "+p+" HTTP/1.1\r\n : v\r\n\r\n",
	)
}

func gen(g *lp.Gen) {
	for cs := 0; cs < g.N; cs++ {
		mode := cs % 3
		id := fmt.Sprintf("c%d-%d", g.Rng.Int31(), cs)
		var parts []string
		for i, n := 0, g.Intn(3); i < n; i++ {
			parts = append(parts, valid(g, id, "ok"+strconv.Itoa(i)))
		}
		bad := !g.Chance(1, 8)
		if bad {
			parts = append(parts, malformed(g, id))
		}
		for i, n := 0, 1+g.Intn(2); i < n; i++ {
			parts = append(parts, valid(g, id, "after"+strconv.Itoa(i)))
		}
		stream := strings.Join(parts, "")
		cuts := "whole"
		switch g.Intn(3) {
		case 0: // one write per part: the successor arrives in a later read than the error
			var xs []string
			for _, p := range parts[:len(parts)-1] {
				xs = append(xs, strconv.Itoa(len(p)))
			}
			if len(xs) > 0 {
				cuts = strings.Join(xs, ",")
			}
		case 1:
			if len(stream) > 2 {
				cuts = strconv.Itoa(1 + g.Intn(len(stream)-1))
			}
		}
		g.P("C %d", mode)
		g.P("S %s %s %s", id, lp.Hex([]byte(stream)), cuts)
	}
}

func main() { lp.Main(gen, exec) }
