package main

// Generator: frame streams over the full header space for the receive side, message programs for the
// round trip, and the mask sweep.  Mostly valid inputs with malformed neighbours, boundary-biased sizes.

import (
	"bytes"
	"compress/flate"
	"encoding/binary"
	"fmt"
	"strings"

	"harness/internal/lp"
)

// piece: a run of stream bytes, either literal or a (possibly masked) pattern kept symbolic so that MiB payloads stay short
type piece struct {
	raw []byte
	n   int // pattern length (raw == nil)
	pat int
	key []byte // nil = unmasked
}

func (p piece) size() int {
	if p.raw != nil {
		return len(p.raw)
	}
	return p.n
}

// sub-range [o, o+m) of a piece as a spec part
func (p piece) spec(o, m int) string {
	if p.raw != nil {
		return lp.Hex(p.raw[o : o+m])
	}
	s := fmt.Sprintf("@%d:%d", m, (o*7+p.pat)%256)
	if p.key != nil {
		k := []byte{p.key[o%4], p.key[(o+1)%4], p.key[(o+2)%4], p.key[(o+3)%4]}
		s += "^" + lp.Hex(k)
	}
	return s
}

type stream struct{ ps []piece }

func (s *stream) add(b []byte) {
	if len(b) == 0 {
		return
	}
	if n := len(s.ps); n > 0 && s.ps[n-1].raw != nil {
		s.ps[n-1].raw = append(s.ps[n-1].raw, b...)
		return
	}
	s.ps = append(s.ps, piece{raw: append([]byte{}, b...)})
}
func (s *stream) size() int {
	n := 0
	for _, p := range s.ps {
		n += p.size()
	}
	return n
}

// spec of the byte range [o, o+m)
func (s *stream) spec(o, m int) string {
	var parts []string
	for _, p := range s.ps {
		sz := p.size()
		if o >= sz {
			o -= sz
			continue
		}
		k := sz - o
		if k > m {
			k = m
		}
		if k > 0 {
			parts = append(parts, p.spec(o, k))
		}
		m -= k
		o = 0
		if m == 0 {
			break
		}
	}
	if len(parts) == 0 {
		return "-"
	}
	return strings.Join(parts, "+")
}

type fspec struct {
	fin        bool
	rsv        int // bit 2 = RSV1, bit 1 = RSV2, bit 0 = RSV3
	op         int
	masked     bool
	lenMode    int // 0 minimal, 1 force 16-bit, 2 force 64-bit, 3 64-bit with the top bit set
	payload    []byte
	patN, patP int // symbolic payload (patN > 0)
}

func (s *stream) frame(g *lp.Gen, f fspec) {
	n := len(f.payload)
	if f.patN > 0 {
		n = f.patN
	}
	b0 := byte(f.op) | byte(f.rsv)<<4
	if f.fin {
		b0 |= 0x80
	}
	hdr := []byte{b0}
	m := byte(0)
	if f.masked {
		m = 0x80
	}
	switch {
	case f.lenMode >= 2 || n > 65535:
		hdr = append(hdr, m|127)
		var x [8]byte
		v := uint64(n)
		if f.lenMode == 3 {
			v |= 1 << 63
		}
		binary.BigEndian.PutUint64(x[:], v)
		hdr = append(hdr, x[:]...)
	case f.lenMode == 1 || n > 125:
		hdr = append(hdr, m|126, byte(n>>8), byte(n))
	default:
		hdr = append(hdr, m|byte(n))
	}
	var key []byte
	if f.masked {
		key = []byte{byte(g.Intn(256)), byte(g.Intn(256)), byte(g.Intn(256)), byte(g.Intn(256))}
		if g.Chance(1, 10) {
			key = []byte{0, 0, 0, 0}
		}
		hdr = append(hdr, key...)
	}
	s.add(hdr)
	if f.patN > 0 {
		s.ps = append(s.ps, piece{n: f.patN, pat: f.patP, key: key})
		return
	}
	p := append([]byte{}, f.payload...)
	for i := range p {
		if key != nil {
			p[i] ^= key[i%4]
		}
	}
	s.add(p)
}

var utfGood = []string{"a", "b", " ", "z", "\x00", "\x7f", "\u0080", "é", "߿", "ࠀ", "世", "퟿", "", "￿",
	"\U00010000", "😀", "\U0010ffff"}
var utfBad = []string{"\xc0\xaf", "\xc1\xbf", "\xe0\x80\xaf", "\xe0\x9f\xbf", "\xf0\x80\x80\xaf", "\xf0\x8f\xbf\xbf", "\xed\xa0\x80",
	"\xed\xbf\xbf", "\xf4\x90\x80\x80", "\xf5\x80\x80\x80", "\xff", "\xfe", "\x80", "\xbf", "\xc2", "\xe4\xb8", "\xf0\x9f\x98", "\xe4\x41", "\xf8\x88\x80\x80\x80"}

func utf8Text(g *lp.Gen, n int) []byte {
	var sb bytes.Buffer
	for sb.Len() < n {
		c := utfGood[g.Intn(len(utfGood))]
		if sb.Len()+len(c) > n {
			c = "x"
		}
		sb.WriteString(c)
	}
	return sb.Bytes()
}

func randBytes(g *lp.Gen, n int) []byte {
	b := make([]byte, n)
	for i := range b {
		b[i] = byte(g.Intn(256))
	}
	return b
}

func deflate(data []byte, level int) []byte {
	var buf bytes.Buffer
	w, _ := flate.NewWriter(&buf, level)
	w.Write(data)
	w.Flush()
	b := buf.Bytes()
	return b[:len(b)-4]
}

func pickLen(g *lp.Gen, limit int) int {
	if limit > 0 && g.Chance(1, 2) {
		n := limit + g.PickInt(-1, 0, 1, -2, 2)
		if n < 0 {
			n = 0
		}
		return n
	}
	if g.Chance(1, 40) {
		return g.PickInt(65535, 65536, 70000)
	}
	return g.PickInt(0, 0, 1, 2, 3, 5, 17, 64, 124, 125, 126, 127, 128, 200, 1000)
}

func closeCode(g *lp.Gen) int {
	if g.Chance(1, 2) {
		return g.Intn(65536)
	}
	return g.PickInt(0, 1, 999, 1000, 1001, 1002, 1003, 1004, 1005, 1006, 1007, 1008, 1009, 1010, 1011, 1012, 1013, 1014, 1015, 1016,
		1100, 2000, 2999, 3000, 3999, 4000, 4999, 5000, 65535)
}

type rgen struct {
	g        *lp.Gen
	s        *stream
	server   bool
	compress bool
	limit    int
	big      bool
	minCut   int   // truncation never cuts before this offset (the HTTP response of an upgrade hand-off case)
	bounds   []int // frame boundaries (stream offsets)
}

func (r *rgen) mask() bool {
	if r.g.Chance(1, 40) {
		return !r.server
	}
	return r.server
}
func (r *rgen) fr(f fspec) {
	r.s.frame(r.g, f)
	r.bounds = append(r.bounds, r.s.size())
}

// message: a data message in k fragments, optionally with interleaved control frames
func (r *rgen) message(op int, payload []byte, rsv int, k int, interleave bool) {
	g := r.g
	m := r.mask()
	if k <= 1 {
		r.fr(fspec{fin: true, rsv: rsv, op: op, masked: m, payload: payload, lenMode: lenMode(g)})
		return
	}
	rest := payload
	for i := 0; i < k; i++ {
		n := len(rest)
		if i < k-1 {
			n = g.Intn(len(rest) + 1)
			if g.Chance(1, 5) {
				n = 0
			}
		}
		o := 0
		if i == 0 {
			o = op
		}
		rv := 0
		if i == 0 {
			rv = rsv
		}
		r.fr(fspec{fin: i == k-1, rsv: rv, op: o, masked: m, payload: rest[:n]})
		rest = rest[n:]
		if interleave && i < k-1 && g.Chance(1, 2) {
			r.fr(fspec{fin: true, op: g.PickInt(9, 10, 9), masked: m, payload: randBytes(g, g.PickInt(0, 1, 5, 125))})
		}
	}
}

func lenMode(g *lp.Gen) int {
	if g.Chance(1, 12) {
		return g.PickInt(1, 2)
	}
	return 0
}

func (r *rgen) valid() {
	g := r.g
	switch g.Intn(12) {
	case 0, 1:
		r.message(1, utf8Text(g, pickLen(g, r.limit)), 0, 1, false)
	case 2:
		r.message(2, randBytes(g, pickLen(g, r.limit)), 0, 1, false)
	case 3, 4:
		n := pickLen(g, r.limit)
		op := g.PickInt(1, 2)
		p := randBytes(g, n)
		if op == 1 {
			p = utf8Text(g, n)
		}
		r.message(op, p, 0, 2+g.Intn(3), g.Chance(1, 2))
	case 5:
		r.fr(fspec{fin: true, op: 9, masked: r.mask(), payload: randBytes(g, g.PickInt(0, 1, 2, 124, 125)), lenMode: lenMode(g)})
	case 6:
		r.fr(fspec{fin: true, op: 10, masked: r.mask(), payload: randBytes(g, g.PickInt(0, 1, 125))})
	case 7: // empty messages
		if g.Chance(1, 2) {
			r.message(g.PickInt(1, 2), nil, 0, 1, false)
		} else {
			r.message(g.PickInt(1, 2), nil, 0, 2+g.Intn(2), g.Chance(1, 2))
		}
	case 8, 9: // compressed (or plain if compression is off)
		n := pickLen(g, r.limit)
		op := g.PickInt(1, 2)
		var p []byte
		switch g.Intn(3) {
		case 0:
			p = utf8Text(g, n)
		case 1:
			p = bytes.Repeat([]byte{byte('a' + g.Intn(3))}, n)
		default:
			p = randBytes(g, n)
			if op == 1 {
				p = utf8Text(g, n)
			}
		}
		if r.compress {
			z := deflate(p, g.PickInt(-2, -1, 0, 1, 6, 9))
			if g.Chance(1, 3) && len(z) > 1 {
				r.message(op, z, 4, 2+g.Intn(2), g.Chance(1, 3))
			} else {
				r.message(op, z, 4, 1, false)
			}
		} else {
			r.message(op, p, 0, 1, false)
		}
	case 10: // bomb or big
		if r.compress && g.Chance(2, 3) {
			n := g.PickInt(4096, 65536, 100000)
			if r.big {
				n = g.PickInt(1<<20, 4<<20)
			}
			if r.limit > 0 && g.Chance(1, 2) {
				n = r.limit + g.PickInt(-1, 0, 1, 1000)
			}
			if n < 0 {
				n = 0
			}
			r.message(2, deflate(make([]byte, n), 6), 4, 1, false)
		} else {
			n := g.PickInt(4096, 65535, 65536, 66000)
			if r.big {
				n = g.PickInt(1<<20, 3<<20)
			}
			r.fr(fspec{fin: true, op: 2, masked: r.mask(), patN: n, patP: g.Intn(256)})
		}
	case 11: // text whose multi-byte characters are split across fragments
		p := []byte(strings.Repeat(g.Pick("é", "世", "😀", "\U0010ffff"), 1+g.Intn(4)))
		m := r.mask()
		cut := 1 + g.Intn(len(p)-1)
		r.fr(fspec{fin: false, op: 1, masked: m, payload: p[:cut]})
		r.fr(fspec{fin: true, op: 0, masked: m, payload: p[cut:]})
	}
}

func (r *rgen) close() {
	g := r.g
	code := closeCode(g)
	var p []byte
	switch g.Intn(6) {
	case 0:
	case 1:
		p = []byte{byte(code >> 8)}
	case 2:
		p = []byte{byte(code >> 8), byte(code)}
	default:
		p = append([]byte{byte(code >> 8), byte(code)}, utf8Text(g, g.PickInt(0, 1, 5, 20, 123))...)
		if g.Chance(1, 6) {
			p = append(p[:2+g.Intn(len(p)-1)], utfBad[g.Intn(len(utfBad))]...)
		}
	}
	r.fr(fspec{fin: true, op: 8, masked: r.mask(), payload: p})
}

func (r *rgen) malformed() {
	g := r.g
	m := r.mask()
	switch g.Intn(17) {
	case 0: // invalid UTF-8 in a text message, possibly fragmented
		p := append(utf8Text(g, g.Intn(10)), utfBad[g.Intn(len(utfBad))]...)
		p = append(p, utf8Text(g, g.Intn(4))...)
		r.message(1, p, 0, 1+g.Intn(3), false)
	case 1: // reserved bits
		r.fr(fspec{fin: true, rsv: 1 + g.Intn(7), op: g.PickInt(1, 2, 9, 8, 0), masked: m, payload: utf8Text(g, 3)})
	case 2: // reserved opcode
		r.fr(fspec{fin: g.Chance(1, 2), op: g.PickInt(3, 4, 5, 6, 7, 11, 12, 13, 14, 15), masked: m, payload: randBytes(g, g.Intn(4))})
	case 3: // fragmented control frame
		r.fr(fspec{fin: false, op: g.PickInt(8, 9, 10), masked: m, payload: randBytes(g, g.Intn(4))})
	case 4: // control frame > 125 (16-bit and 64-bit encodings, with and without the payload present)
		n := g.PickInt(126, 127, 200, 65536)
		r.fr(fspec{fin: true, op: g.PickInt(8, 9, 10), masked: m, payload: randBytes(g, n), lenMode: g.PickInt(0, 2)})
	case 5: // continuation without a start
		r.fr(fspec{fin: g.Chance(1, 2), op: 0, masked: m, payload: randBytes(g, g.PickInt(0, 0, 1, 3))})
		if g.Chance(1, 2) {
			r.fr(fspec{fin: true, op: g.PickInt(9, 0, 0), masked: m, payload: randBytes(g, g.PickInt(0, 2))})
		}
	case 6: // new data frame inside a fragmented message
		r.fr(fspec{fin: false, op: g.PickInt(1, 2), masked: m, payload: utf8Text(g, g.Intn(4))})
		r.fr(fspec{fin: g.Chance(1, 2), op: g.PickInt(1, 2), masked: m, payload: utf8Text(g, g.Intn(4))})
	case 7: // 64-bit length with the top bit set
		r.fr(fspec{fin: true, op: g.PickInt(1, 2, 0, 9), masked: m, payload: randBytes(g, g.Intn(3)), lenMode: 3})
	case 8: // RSV1 on continuation / control frames
		if g.Chance(1, 2) {
			r.fr(fspec{fin: true, rsv: 4, op: g.PickInt(9, 10, 8), masked: m, payload: nil})
		} else {
			r.fr(fspec{fin: false, op: 2, masked: m, payload: []byte{1}})
			r.fr(fspec{fin: true, rsv: 4, op: 0, masked: m, payload: []byte{2}})
		}
	case 9: // wrong masking direction
		r.fr(fspec{fin: true, op: g.PickInt(1, 2, 9), masked: !r.server, payload: utf8Text(g, g.Intn(5))})
	case 10: // over the limit by declared length only (no payload follows)
		n := g.PickInt(200, 70000, 1<<20)
		if r.limit > 0 {
			n = r.limit + 1 + g.Intn(3)
		}
		hdr := &stream{}
		hdr.frame(g, fspec{fin: true, op: 2, masked: m, patN: n})
		r.s.add(hdr.ps[0].raw)
		r.bounds = append(r.bounds, r.s.size())
	case 11: // corrupt deflate stream / RSV1 with an empty payload
		if g.Chance(1, 2) {
			r.fr(fspec{fin: true, rsv: 4, op: g.PickInt(1, 2), masked: m, payload: randBytes(g, 1+g.Intn(20))})
		} else {
			r.message(g.PickInt(1, 2), nil, 4, 1+g.Intn(2), false)
		}
	case 12: // compressed text that inflates to invalid UTF-8
		p := append(utf8Text(g, g.Intn(10)), utfBad[g.Intn(len(utfBad))]...)
		if r.compress {
			r.message(1, deflate(p, 1), 4, 1, false)
		} else {
			r.message(1, p, 0, 1, false)
		}
	case 13: // limit straddled across fragments
		L := r.limit
		if L == 0 {
			L = 100
		}
		a := g.Intn(L + 1)
		r.fr(fspec{fin: false, op: 2, masked: m, payload: randBytes(g, a)})
		if g.Chance(1, 2) {
			r.fr(fspec{fin: true, op: 9, masked: m, payload: randBytes(g, g.PickInt(0, 10, 125))})
		}
		b := L - a + g.PickInt(-1, 0, 1, 1)
		if b < 0 {
			b = 0
		}
		r.fr(fspec{fin: true, op: 0, masked: m, payload: randBytes(g, b)})
	case 14: // illegal close payloads
		code := g.PickInt(1004, 1005, 1006, 1015, 1012, 1016, 2999, 0, 999, 5000, 65535)
		p := []byte{byte(code >> 8), byte(code)}
		if g.Chance(1, 4) {
			p = p[:1]
		}
		r.fr(fspec{fin: true, op: 8, masked: m, payload: p})
	case 15: // truncated stream
		r.valid()
		if n := r.s.size(); n > 1 && n > r.minCut+1 {
			cut := r.minCut + 1 + g.Intn(n-r.minCut-1)
			if g.Chance(1, 2) {
				cut = n - 1 - g.Intn(min(n-r.minCut-1, 4))
			}
			t := &stream{}
			t.add(parseSpec(r.s.spec(0, cut)))
			if n < 1<<16 {
				*r.s = *t
			}
		}
	case 16: // pure noise
		r.s.add(randBytes(g, 1+g.Intn(12)))
	}
}

func min(a, b int) int {
	if a < b {
		return a
	}
	return b
}

func genRecv(g *lp.Gen) {
	r := &rgen{g: g, s: &stream{}, server: g.Chance(2, 3), compress: g.Chance(2, 5)}
	if g.Chance(2, 5) {
		r.limit = g.PickInt(1, 2, 10, 125, 126, 300, 1000, 65535, 65536, 70000)
	}
	r.big = g.Tier == "thorough" && g.Chance(1, 30)
	readLimit := 0
	if g.Chance(1, 6) {
		readLimit = g.PickInt(50+g.Intn(500), 2, 10, 100000)
	}
	role := "client"
	if r.server {
		role = "server"
	}
	g.P("C recv role=%s compress=%d limit=%d readlimit=%d maxframe=%d", role, b2i(r.compress), r.limit, readLimit, g.PickInt(32768, 32768, 32768, 1000, 125))
	n := 1 + g.Intn(5)
	bad := -1
	if g.Chance(9, 20) {
		bad = g.Intn(n)
		if g.Chance(1, 2) {
			bad = n - 1
		}
	}
	closeAt := -1
	if g.Chance(1, 4) {
		closeAt = n - 1
	}
	for i := 0; i < n; i++ {
		switch {
		case i == bad:
			r.malformed()
		case i == closeAt:
			r.close()
		default:
			r.valid()
		}
	}
	total := r.s.size()
	// segmentation
	style := g.Intn(7)
	if total > 3000 && style == 0 {
		style = 1
	}
	off := 0
	bi := 0
	nx := 0
	for off < total {
		rest := total - off
		k := rest
		switch style {
		case 0: // byte at a time
			k = 1
		case 1: // random cuts
			k = 1 + g.Intn(rest)
		case 2: // whole
		case 3: // small pieces, then the rest
			k = 1 + g.Intn(9)
			if rest > 600 {
				k = 1 + g.Intn(rest)
			}
		case 4: // at frame boundaries
			for bi < len(r.bounds) && r.bounds[bi] <= off {
				bi++
			}
			if bi < len(r.bounds) {
				k = r.bounds[bi] - off
			}
		case 5: // just before / after frame boundaries and inside headers
			for bi < len(r.bounds) && r.bounds[bi]+2 <= off {
				bi++
			}
			if bi < len(r.bounds) {
				k = r.bounds[bi] + g.PickInt(-1, 1, 2, 3) - off
			}
			if k <= 0 {
				k = 1
			}
		case 6: // one cut
			if off == 0 && rest > 1 {
				k = 1 + g.Intn(rest-1)
			}
		}
		if k > rest {
			k = rest
		}
		g.P("D %s", r.s.spec(off, k))
		off += k
		nx++
		if g.Chance(1, 60) {
			g.P("X %d %s", g.PickInt(9, 10, 8, 1, 2), specOf(randBytes(g, g.PickInt(0, 5, 125, 126, 200))))
		}
	}
	if g.Chance(1, 5) {
		g.P("X %d %s", g.PickInt(9, 10, 8, 9, 1, 2), specOf(randBytes(g, g.PickInt(0, 5, 125, 126, 127, 1000))))
	}
	if g.Chance(1, 6) { // the other public send entry points
		if g.Chance(1, 2) {
			g.P("XF %d %d %d %s", g.PickInt(9, 10, 8, 9, 1, 2, 0), g.PickInt(1, 1, 0), g.PickInt(1, 1, 0), specOf(randBytes(g, g.PickInt(0, 5, 124, 125, 126, 127, 300))))
		}
		g.P("XC %d %s", g.PickInt(1000, 1001, 1002, 1009, 1011, 3000, 4999), specOf(utf8Text(g, g.PickInt(0, 1, 122, 123, 124, 125, 126, 200))))
	}
	g.P("E")
}

// genUp: the upgrade hand-off. The byte stream starts with the server's 101 response and goes through the real HTTP
// client parser; the websocket frames behind it are often in the SAME read as the end of the response.
func genUp(g *lp.Gen) {
	r := &rgen{g: g, s: &stream{}, server: false, compress: g.Chance(1, 3)}
	if g.Chance(1, 4) {
		r.limit = g.PickInt(10, 125, 126, 1000, 65536)
	}
	g.P("C up compress=%d limit=%d maxframe=%d", b2i(r.compress), r.limit, g.PickInt(32768, 32768, 125))
	head := "HTTP/1.1 101 Switching Protocols\r\nUpgrade: websocket\r\nConnection: Upgrade\r\nSec-WebSocket-Accept: " +
		g.Pick("s3pPLMBiTxaQ9kYGzzhZRbK+xOo=", "HSmrc0sMlYUkAGmm5OPpG2HaGWk=") + "\r\n"
	if r.compress {
		head += "Sec-WebSocket-Extensions: permessage-deflate; server_no_context_takeover; client_no_context_takeover\r\n"
	}
	if g.Chance(1, 3) {
		head += g.Pick("Server: x\r\n", "Content-Length: 0\r\n", "Sec-WebSocket-Protocol: chat\r\n", "Date: Mon, 01 Jan 2024 00:00:00 GMT\r\n")
	}
	head += "\r\n"
	r.s.add([]byte(head))
	hl := len(head)
	r.minCut = hl
	n := 1 + g.Intn(4)
	for i := 0; i < n; i++ {
		if i == n-1 && g.Chance(1, 6) {
			r.close()
		} else if g.Chance(1, 8) {
			r.malformed()
		} else {
			r.valid()
		}
	}
	total := r.s.size()
	var cuts []int
	switch g.Intn(6) {
	case 0, 1: // everything in one read: response and frames coalesced
		cuts = []int{total}
	case 2: // the response with the first bytes of the first frame, then the rest
		k := hl + 1 + g.Intn(6)
		cuts = []int{k, total - k}
	case 3: // the response alone
		cuts = []int{hl, total - hl}
	case 4: // cut inside the final CRLF CRLF
		k := hl - 1 - g.Intn(3)
		cuts = []int{k, total - k}
	default:
		rest := total
		for rest > 0 {
			k := 1 + g.Intn(rest)
			if g.Chance(1, 2) && rest > 40 {
				k = 1 + g.Intn(40)
			}
			cuts = append(cuts, k)
			rest -= k
		}
	}
	off := 0
	for _, k := range cuts {
		if k <= 0 {
			continue
		}
		if off+k > total {
			k = total - off
		}
		if k <= 0 {
			break
		}
		g.P("H %s", r.s.spec(off, k))
		off += k
	}
	if off < total {
		g.P("H %s", r.s.spec(off, total-off))
	}
	g.P("E")
}

// genRTQ: round trips with the executor of the poller path (Execute only queues the job; the harness runs the queue after
// each Parse call or after all segments), payload release on/off, the real pooling allocator; batches of messages written
// back to back so that several callbacks are pending while later frames are parsed.  Clean programs only (valid text, no
// close, no limit): the order of the observable actions is then the same as with the inline executor.
func genRTQ(g *lp.Gen) {
	comp := g.Chance(1, 3)
	mf := g.PickInt(32768, 32768, 125, 1000, 7)
	g.P("C rt compress=%d level=%d limit=0 maxframe=%d seg=%s seed=%d exec=%s rel=%d run=%s", b2i(comp), g.PickInt(1, 6), mf,
		g.Pick("whole", "rand", "small", "hdr"), g.Intn(1<<30), g.Pick("queued", "queued", "queued", "inline"), g.PickInt(1, 1, 0), g.Pick("end", "end", "each"))
	nb := 1 + g.Intn(3)
	for b := 0; b < nb; b++ {
		n := 2 + g.Intn(10)
		var ms []string
		for i := 0; i < n; i++ {
			ln := g.PickInt(0, 1, 5, 17, 100, 124, 125, 126, 300, 1000, 1024, 1100, 4000)
			if mf < 100 && ln > 600 {
				ln = 600
			}
			switch g.Intn(8) {
			case 0, 1, 2:
				ms = append(ms, "text/"+specOf(utf8Text(g, ln)))
			case 3, 4, 5:
				ms = append(ms, "binary/"+specOf(randBytes(g, ln)))
			case 6:
				ms = append(ms, "ping/"+specOf(randBytes(g, g.PickInt(0, 5, 125))))
			default:
				ms = append(ms, fmt.Sprintf("binary/@%d:%d", ln, g.Intn(256)))
			}
		}
		g.P("B %s %s", g.Pick("c", "s"), strings.Join(ms, ";"))
	}
}

// genRTS: asynchronous writes through a bounded send queue while the peer is slow (the sender's conn is gated during a
// batch): messages that fill the queue exactly, incompressible payloads just below a multiple of the frame size (they
// compress to one frame more), messages that must be refused as a whole.
func genRTS(g *lp.Gen) {
	comp := g.Chance(3, 4)
	mf := g.PickInt(125, 126, 1000, 64)
	n := g.PickInt(2, 3, 4, 5, 6, 8)
	side := g.Pick("c", "s")
	g.P("C rt compress=%d level=%d limit=0 maxframe=%d seg=%s seed=%d sendq=%d from=%s", b2i(comp), g.PickInt(1, 6, 9), mf,
		g.Pick("whole", "rand", "small"), g.Intn(1<<30), n, side)
	nb := 1 + g.Intn(3)
	for b := 0; b < nb; b++ {
		var ms []string
		k := 1 + g.Intn(n)
		fill := n - k - g.PickInt(0, 0, 0, 1)
		for i := 0; i < fill; i++ {
			ms = append(ms, g.Pick("text/", "binary/")+specOf(utf8Text(g, g.PickInt(0, 1, 20, mf-20))))
		}
		// the critical message: k frames before compression, possibly k+1 after
		ln := k*mf - g.PickInt(0, 1, 2, 3, 5, 8, 12, mf/2)
		if ln < 0 {
			ln = 0
		}
		ms = append(ms, "binary/"+specOf(randBytes(g, ln)))
		for i := 0; i < g.Intn(3); i++ {
			ms = append(ms, g.Pick("text/", "binary/")+specOf(utf8Text(g, g.PickInt(0, 5, mf, mf+1))))
		}
		g.P("B %s %s", side, strings.Join(ms, ";"))
	}
}

// genHnd: size limits under the handler configurations (message handler, data-frame handler only, both): single-frame
// messages of limit-1, limit, limit+1, 2*limit, 5*limit+3 bytes and pings, fed whole or in pieces.
func genHnd(g *lp.Gen) {
	h := g.Pick("f", "f", "mf", "m")
	role := g.Pick("server", "client")
	L := g.PickInt(10, 125, 126, 1000, 4096, 65535, 65536)
	g.P("C hnd handlers=%s role=%s limit=%d", h, role, L)
	var s stream
	n := 1 + g.Intn(4)
	for i := 0; i < n; i++ {
		if g.Chance(1, 5) {
			s.frame(g, fspec{fin: true, op: 9, masked: role == "server", payload: randBytes(g, g.PickInt(0, 5, 125))})
		}
		ln := g.PickInt(0, 1, L-1, L-1, L, L, L+1, L+1, 2*L, 5*L+3)
		if i < n-1 && g.Chance(2, 3) && ln > L {
			ln = g.PickInt(1, L-1, L)
		}
		op := g.PickInt(1, 2)
		if g.Chance(1, 4) { // a fragmented message within the limit (2 or 3 frames, possibly a ping in between)
			parts := 2 + g.Intn(2)
			var body []byte
			if op == 1 {
				body = []byte(strings.Repeat("a", g.PickInt(parts, 7, L)))
			} else {
				body = randBytes(g, g.PickInt(parts, 7, L))
			}
			if len(body) < parts {
				body = append(body, make([]byte, parts)...)
			}
			if len(body) > L {
				body = body[:L]
			}
			for j := 0; j < parts; j++ {
				a, b := j*len(body)/parts, (j+1)*len(body)/parts
				fop := 0
				if j == 0 {
					fop = op
				}
				s.frame(g, fspec{fin: j == parts-1, op: fop, masked: role == "server", payload: body[a:b]})
				if j < parts-1 && g.Chance(1, 4) {
					s.frame(g, fspec{fin: true, op: 9, masked: role == "server", payload: randBytes(g, 3)})
				}
			}
			continue
		}
		if ln > 200 || ln == 0 {
			s.frame(g, fspec{fin: true, op: 2, masked: role == "server", patN: ln, patP: g.Intn(256)}) // symbolic payloads are not text
		} else if op == 1 {
			s.frame(g, fspec{fin: true, op: op, masked: role == "server", payload: utf8Text(g, ln)})
		} else {
			s.frame(g, fspec{fin: true, op: op, masked: role == "server", payload: randBytes(g, ln)})
		}
	}
	total := s.size()
	style := g.Pick("whole", "700", "rand", "small")
	for off := 0; off < total; {
		k := total - off
		switch style {
		case "700":
			k = 700
		case "rand":
			k = 1 + g.Intn(3000)
		case "small":
			k = g.PickInt(1, 2, 3, 7, 14, 15, 100, 1000)
		}
		if k > total-off {
			k = total - off
		}
		g.P("F %s", s.spec(off, k))
		off += k
	}
}

func genRT(g *lp.Gen) {
	comp := g.Chance(1, 2)
	level := g.PickInt(-2, -1, 0, 1, 2, 3, 4, 5, 6, 7, 8, 9)
	limit := 0
	if g.Chance(1, 3) {
		limit = g.PickInt(1, 10, 125, 126, 1000, 65535, 65536, 100000)
	}
	mf := g.PickInt(32768, 32768, 32768, 1, 2, 7, 125, 126, 1000, 65535, 65536)
	g.P("C rt compress=%d level=%d limit=%d maxframe=%d seg=%s seed=%d", b2i(comp), level, limit, mf,
		g.Pick("one", "whole", "small", "hdr", "rand", "rand"), g.Intn(1<<30))
	n := 1 + g.Intn(5)
	for i := 0; i < n; i++ {
		side := g.Pick("c", "c", "s")
		ln := g.PickInt(0, 0, 1, 2, 17, 124, 125, 126, 127, 128, 1000, mf-1, mf, mf+1, 2*mf, 2*mf+1)
		if limit > 0 && g.Chance(1, 3) {
			ln = limit + g.PickInt(-1, 0, 1)
		}
		if g.Chance(1, 25) {
			ln = g.PickInt(65535, 65536, 65537, 100000)
		}
		if g.Tier == "thorough" && g.Chance(1, 100) {
			ln = g.PickInt(1<<20, 2<<20+3)
		}
		if ln/mf > 1500 { // keep the number of frames per message affordable for the list-based model driver
			ln = mf*1500 + g.PickInt(-1, 0, 1)
		}
		if ln < 0 {
			ln = 0
		}
		var sp string
		switch g.Intn(4) {
		case 0:
			sp = fmt.Sprintf("@%d:%d", ln, g.Intn(256))
		case 1:
			sp = fmt.Sprintf("=%d:%02x", ln, g.PickInt(0, 'a', 0xff))
		default:
			if ln > 5000 {
				sp = fmt.Sprintf("@%d:%d", ln, g.Intn(256))
			} else {
				sp = specOf(randBytes(g, ln))
			}
		}
		if ln == 0 {
			sp = "-"
		}
		switch g.Intn(10) {
		case 0, 1, 2:
			if ln <= 5000 {
				sp = specOf(utf8Text(g, ln))
			} else {
				sp = fmt.Sprintf("=%d:%02x", ln, g.PickInt('a', ' ', 'z'))
			}
			if comp && g.Chance(1, 3) {
				g.P("I %s text %s %s", side, sp, g.Pick("i", "i", "d"))
			} else {
				g.P("W %s text %s", side, sp)
			}
		case 3, 4, 5, 6:
			if comp && g.Chance(1, 3) { // a second pair of conns gets its turn inside this message's inflate / deflate
				g.P("I %s binary %s %s", side, sp, g.Pick("i", "i", "d"))
			} else {
				g.P("W %s binary %s", side, sp)
			}
		case 7:
			g.P("W %s ping %s", side, specOf(randBytes(g, g.PickInt(0, 1, 5, 124, 125, 125, 126))))
		case 8:
			g.P("W %s pong %s", side, specOf(randBytes(g, g.PickInt(0, 1, 125, 126))))
		case 9:
			if i == n-1 {
				p := []byte{0x03, byte(0xe8 + g.Intn(4))}
				g.P("W %s close %s", side, specOf(append(p, utf8Text(g, g.Intn(20))...)))
			} else {
				g.P("W %s text %s", side, specOf(utf8Text(g, g.Intn(300))))
			}
		}
	}
}

func genMask(g *lp.Gen, all bool) {
	g.P("C mask")
	lens := []int{}
	if all {
		for n := 0; n <= 300; n++ {
			lens = append(lens, n)
		}
	} else {
		for i := 0; i < 12; i++ {
			lens = append(lens, g.PickInt(g.Intn(301), 511, 512, 513, 1000, 4099))
		}
	}
	for _, n := range lens {
		key := randBytes(g, 4)
		g.P("M %s %s", lp.Hex(key), specOf(randBytes(g, n)))
	}
}

// genUTF8: the assumption "utf8.Valid = the model's utf8Valid": the shards of one run together sweep all
// one- and two-byte strings; three- and four-byte strings are sampled around the encoding boundaries.
func genUTF8(g *lp.Gen, shard int) {
	g.P("C utf8")
	for b := 0; b < 256; b++ {
		g.P("U %02x", b)
	}
	for a := 16 * (shard % 16); a < 16*(shard%16)+16; a++ {
		for b := 0; b < 256; b++ {
			g.P("U %02x%02x", a, b)
		}
	}
	lead3 := []int{0xe0, 0xe1, 0xec, 0xed, 0xee, 0xef, 0xdf, 0xf0}
	lead4 := []int{0xf0, 0xf1, 0xf3, 0xf4, 0xf5, 0xef, 0xf8}
	edge := []int{0x00, 0x7f, 0x80, 0x8f, 0x90, 0x9f, 0xa0, 0xbf, 0xc0, 0xff}
	for i := 0; i < 1500; i++ {
		c := func() int {
			if g.Chance(2, 3) {
				return edge[g.Intn(len(edge))]
			}
			return g.Intn(256)
		}
		if g.Chance(1, 2) {
			g.P("U %02x%02x%02x", lead3[g.Intn(len(lead3))], c(), c())
		} else {
			g.P("U %02x%02x%02x%02x", lead4[g.Intn(len(lead4))], c(), c(), c())
		}
	}
	for i := 0; i < 200; i++ {
		var sb strings.Builder
		for j := 0; j < 3; j++ {
			if g.Chance(1, 4) {
				sb.WriteString(utfBad[g.Intn(len(utfBad))])
			} else {
				sb.WriteString(utfGood[g.Intn(len(utfGood))])
			}
		}
		g.P("U %s", specOf([]byte(sb.String())))
	}
}

// genTrunc: chunkings of short streams for truncWriter (holds back the last four bytes)
func genTrunc(g *lp.Gen) {
	g.P("C trunc")
	for i := 0; i < 80; i++ {
		n := 1 + g.Intn(5)
		var cs []string
		for j := 0; j < n; j++ {
			cs = append(cs, specOf(randBytes(g, g.PickInt(0, 1, 1, 2, 3, 4, 5, 6, 9, 40))))
		}
		g.P("T %s", strings.Join(cs, ","))
	}
}

// ---------------------------------------------------------------- opening handshake

func hx(s string) string { return lp.Hex([]byte(s)) }

func kvs(h [][2]string) string {
	if len(h) == 0 {
		return "-"
	}
	var out []string
	for _, kv := range h {
		out = append(out, hx(kv[0])+":"+hx(kv[1]))
	}
	return strings.Join(out, ",")
}

func spell(g *lp.Gen, name string) string {
	switch g.Intn(5) {
	case 0:
		return strings.ToLower(name)
	case 1:
		return strings.ToUpper(name)
	}
	return name
}

func b64key(g *lp.Gen, n int) string {
	const a = "ABCDEFGHIJKLMNOPQRSTUVWXYZabcdefghijklmnopqrstuvwxyz0123456789+/"
	raw := randBytes(g, n)
	// std base64 by hand (the generator must not depend on the code under test)
	var sb strings.Builder
	for i := 0; i < len(raw); i += 3 {
		var v uint32
		k := 0
		for j := 0; j < 3; j++ {
			v <<= 8
			if i+j < len(raw) {
				v |= uint32(raw[i+j])
				k++
			}
		}
		sb.WriteByte(a[v>>18&63])
		sb.WriteByte(a[v>>12&63])
		if k > 1 {
			sb.WriteByte(a[v>>6&63])
		} else {
			sb.WriteByte('=')
		}
		if k > 2 {
			sb.WriteByte(a[v&63])
		} else {
			sb.WriteByte('=')
		}
	}
	return sb.String()
}

var extOffers = []string{"permessage-deflate", "permessage-deflate; client_max_window_bits",
	"permessage-deflate; server_no_context_takeover; client_no_context_takeover", "permessage-deflate; server_max_window_bits=10; client_max_window_bits=12",
	"x-webkit-deflate-frame", "foo, permessage-deflate", "permessage-deflate; a=\"q\\\"x\"", "permessage-deflate;;", "permessage-deflate; =1",
	"foo; bar=1 , permessage-deflate ;client_max_window_bits", "PERMESSAGE-DEFLATE", "permessage-deflate; a=\"unclosed", "bar; x=\"y, z\", permessage-deflate",
	"permessage-deflate x", " ,permessage-deflate"}

func genQ(g *lp.Gen) {
	host := g.Pick("example.com", "a.b:8080", "Example.COM")
	method := "GET"
	h := [][2]string{{"Host", host}}
	up := [][2]string{{spell(g, "Upgrade"), g.Pick("websocket", "websocket", "WebSocket", "WEBSOCKET", "websocket, h2c", "h2c,websocket")}}
	co := [][2]string{{spell(g, "Connection"), g.Pick("Upgrade", "Upgrade", "upgrade", "keep-alive, Upgrade", "Upgrade,keep-alive", "keep-alive ,\tupgrade")}}
	ke := [][2]string{{spell(g, "Sec-WebSocket-Key"), b64key(g, 16)}}
	ve := [][2]string{{spell(g, "Sec-WebSocket-Version"), "13"}}
	if g.Chance(1, 8) { // two Connection header lines
		co = [][2]string{{"Connection", "keep-alive"}, {"Connection", "Upgrade"}}
	}
	if g.Chance(2, 5) { // exactly one MUST violated, or an odd neighbour
		switch g.Intn(16) {
		case 0:
			method = g.Pick("POST", "PUT", "HEAD", "get", "OPTIONS")
		case 1:
			up = nil
		case 2:
			up[0][1] = g.Pick("h2c", "websockets", "web socket", "")
		case 3:
			co = nil
		case 4:
			co[0][1] = g.Pick("close", "keep-alive", "upgrades", "Upgrade;q=1")
		case 5:
			ve = nil
		case 6:
			ve[0][1] = g.Pick("8", "12", "14", "13, 8", "8, 13", "013", "13.0", "")
		case 7:
			ke = nil
		case 8:
			ke[0][1] = g.Pick("", "x", "AAAA", "not base64 !!!!!!!!!!!!!", b64key(g, 15), b64key(g, 17), b64key(g, 18), b64key(g, 16)[:23], b64key(g, 16)[:22]+"=A",
				strings.Replace(b64key(g, 16), "=", "-", 1), b64key(g, 16)+"==")
		case 9:
			ke = append(ke, [2]string{"Sec-WebSocket-Key", b64key(g, 16)})
		case 10:
			h = append(h, [2]string{"Origin", g.Pick("http://evil.example", "http://"+host, "https://"+strings.ToUpper(host), "::bad::", "null")})
		case 11:
			co[0][1] = g.Pick("up grade", "\"upgrade\"", ",upgrade", "upgrade,", "upgrade , ,x")
		default:
		}
	}
	h = append(h, up...)
	h = append(h, co...)
	h = append(h, ke...)
	h = append(h, ve...)
	if g.Chance(1, 2) {
		h = append(h, [2]string{spell(g, "Sec-WebSocket-Extensions"), extOffers[g.Intn(len(extOffers))]})
		if g.Chance(1, 6) {
			h = append(h, [2]string{"Sec-WebSocket-Extensions", extOffers[g.Intn(len(extOffers))]})
		}
	}
	sp := "nil"
	if g.Chance(1, 2) {
		sp = g.Pick("", hx("chat"), hx("chat")+","+hx("superchat"), hx("v2.x"))
		h = append(h, [2]string{spell(g, "Sec-WebSocket-Protocol"), g.Pick("chat", "superchat, chat", " chat ,superchat", "v1", "chat,", ",", "v2.x,chat")})
	}
	rh := [][2]string{}
	if g.Chance(1, 5) {
		switch g.Intn(4) {
		case 0:
			rh = append(rh, [2]string{"X-Test", g.Pick("v", "a\tb", "a\x01b\r\nInjected: 1")})
		case 1:
			rh = append(rh, [2]string{"Sec-WebSocket-Protocol", "chat"})
		case 2:
			rh = append(rh, [2]string{"Sec-WebSocket-Extensions", "x"})
		case 3:
			rh = append(rh, [2]string{"Set-Cookie", "a=b"})
		}
	}
	// shuffle the header lines (Host first)
	rest := h[1:]
	g.Rng.Shuffle(len(rest), func(i, j int) { rest[i], rest[j] = rest[j], rest[i] })
	g.P("Q path=%s ec=%d sp=%s rh=%s m=%s hd=%s", g.Pick("nb", "nb", "std"), b2i(g.Chance(2, 3)), sp, kvs(rh), hx(method), kvs(h))
}

func genP(g *lp.Gen) {
	status := g.PickInt(101, 101, 101, 101, 101, 200, 400, 404)
	acc := g.Pick("ok", "ok", "ok", "ok", "bad", "none")
	h := [][2]string{{"Upgrade", g.Pick("websocket", "websocket", "WebSocket", "h2c", "websocket, x")}, {"Connection", g.Pick("Upgrade", "upgrade", "Upgrade", "keep-alive, Upgrade", "close")}}
	if g.Chance(1, 10) {
		h = h[:1]
	}
	if g.Chance(1, 2) {
		h = append(h, [2]string{"Sec-WebSocket-Extensions", g.Pick("permessage-deflate; server_no_context_takeover; client_no_context_takeover",
			"permessage-deflate; client_no_context_takeover; server_no_context_takeover", "permessage-deflate", "permessage-deflate; server_no_context_takeover",
			"permessage-deflate; client_no_context_takeover", "foo, permessage-deflate; server_no_context_takeover; client_no_context_takeover",
			"permessage-deflate; server_no_context_takeover; client_no_context_takeover; server_max_window_bits=15", "foo", "permessage-deflate;; x",
			"permessage-deflate, permessage-deflate; server_no_context_takeover; client_no_context_takeover")})
	}
	if g.Chance(1, 3) {
		h = append(h, [2]string{"Sec-WebSocket-Protocol", g.Pick("chat", "v1")})
	}
	sp := "-"
	if g.Chance(1, 2) {
		sp = g.Pick(hx("chat"), hx("chat")+","+hx("superchat"))
	}
	g.P("P ec=%d sp=%s status=%d accept=%s hd=%s", b2i(g.Chance(2, 3)), sp, status, acc, kvs(h))
}

func genHS(g *lp.Gen) {
	g.P("C hs")
	for i := 0; i < 70; i++ {
		genQ(g)
	}
	for i := 0; i < 20; i++ {
		genP(g)
	}
	for i := 0; i < 8; i++ {
		csp := "-"
		if g.Chance(1, 2) {
			csp = g.Pick(hx("chat"), hx("superchat")+","+hx("chat"))
		}
		g.P("Z sec=%d cec=%d ssp=%s csp=%s", g.Intn(2), g.Intn(2), g.Pick("nil", "", hx("chat"), hx("chat")+","+hx("superchat")), csp)
	}
}

func gen(g *lp.Gen) {
	genMask(g, true)
	genHS(g)
	genTrunc(g)
	genUTF8(g, int(genSeed%1000))
	for i := 4; i < g.N; i++ {
		switch x := g.Intn(100); {
		case x < 63:
			genRecv(g)
		case x < 70:
			genUp(g)
		case x < 90:
			genRT(g)
		case x < 94:
			genRTQ(g)
		case x < 96:
			genRTS(g)
		case x < 98:
			genHnd(g)
		default:
			genMask(g, false)
		}
	}
}
