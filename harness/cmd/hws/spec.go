package main

// Byte-string notation shared with the Lean driver (Driver/WsMain.lean: `bytesOf`):
//   spec  := part ('+' part)*
//   part  := '-'                      empty
//          | hex
//          | '@' len ':' pat          byte i = (i*7+pat) mod 256
//          | '@' len ':' pat '^' key  the same, XORed with key[i%4] (key = 8 hex digits)
//          | '=' len ':' hh           len copies of byte hh

import (
	"fmt"
	"strings"

	"harness/internal/lp"
)

func parsePart(s string) []byte {
	switch {
	case s == "-" || s == "":
		return nil
	case s[0] == '@':
		var n, p int
		key := ""
		if i := strings.IndexByte(s, '^'); i >= 0 {
			key = s[i+1:]
			s = s[:i]
		}
		fmt.Sscanf(s, "@%d:%d", &n, &p)
		b := lp.Pattern(n, p)
		if key != "" {
			k := lp.Unhex(key)
			for i := range b {
				b[i] ^= k[i%4]
			}
		}
		return b
	case s[0] == '=':
		var n int
		var h string
		fmt.Sscanf(s, "=%d:%s", &n, &h)
		x := lp.Unhex(h)[0]
		b := make([]byte, n)
		for i := range b {
			b[i] = x
		}
		return b
	}
	return lp.Unhex(s)
}

func parseSpec(s string) []byte {
	var out []byte
	for _, p := range strings.Split(s, "+") {
		out = append(out, parsePart(p)...)
	}
	if out == nil {
		out = []byte{}
	}
	return out
}

// specOf: a compact spec of b (constant fill recognised, else hex).
func specOf(b []byte) string {
	if len(b) == 0 {
		return "-"
	}
	if len(b) >= 16 {
		same := true
		for _, x := range b {
			if x != b[0] {
				same = false
				break
			}
		}
		if same {
			return fmt.Sprintf("=%d:%02x", len(b), b[0])
		}
		p := int(b[0])
		pat := true
		for i, x := range b {
			if x != byte((i*7+p)%256) {
				pat = false
				break
			}
		}
		if pat {
			return fmt.Sprintf("@%d:%d", len(b), p)
		}
	}
	return lp.Hex(b)
}

func field(f []string, key string) string {
	for _, t := range f {
		if strings.HasPrefix(t, key+"=") {
			return t[len(key)+1:]
		}
	}
	return ""
}
