package main

// Opening handshake cases ("C hs"): generated upgrade requests through the REAL Upgrader, over nbhttp's own
// Response/parser path and over a std-style http.Hijacker path; real Dialer against scripted responses (loopback).
//
//	Q path=nb|std ec=0|1 sp=<hex,hex|nil> rh=<hexk:hexv,..|-> m=<hexmethod> hd=<hexname:hexvalue,...>
//	P ec=0|1 sp=<hex,..|-> status=<n> accept=ok|bad|none hd=<hexname:hexvalue,...>
//
// exec annotates sha=<hex of sha1(key ++ GUID)> origin=<verdict of the origin check> (Q) and key=<hex challenge key> (P).
// Results: Q ok rx=<0|1> wx=<0|1> proto=<hex> resp=<bytes>  |  Q err=<class> status=<n>
//          P ok rx= wx= proto= req=<fnv of the sorted request header list>  |  P err=<class> req=..
// Direct oracle c12-handshake: an independent client-side checker accepts every 101 response, both ends agree on
// compression, every request violating a MUST of RFC 6455 4.2.1 is refused, every conforming request is accepted.

import (
	"bufio"
	"bytes"
	"crypto/sha1"
	"encoding/base64"
	"errors"
	"fmt"
	"net"
	"net/http"
	"net/url"
	"regexp"
	"sort"
	"strings"
	"time"

	"harness/internal/lp"

	"github.com/lesismal/nbio/nbhttp"
	"github.com/lesismal/nbio/nbhttp/websocket"
)

type hdrKV struct{ k, v string }

func parseKVs(s string) []hdrKV {
	var out []hdrKV
	if s == "" || s == "-" {
		return out
	}
	for _, p := range strings.Split(s, ",") {
		kv := strings.SplitN(p, ":", 2)
		if len(kv) != 2 {
			continue
		}
		out = append(out, hdrKV{string(lp.Unhex(kv[0])), string(lp.Unhex(kv[1]))})
	}
	return out
}

func hexList(s string) []string {
	var out []string
	if s == "-" {
		return nil
	}
	for _, p := range strings.Split(s, ",") {
		if p != "" {
			out = append(out, string(lp.Unhex(p)))
		}
	}
	return out
}

type hijackWriter struct {
	conn   net.Conn
	h      http.Header
	status int
	body   bytes.Buffer
}

func (w *hijackWriter) Header() http.Header         { return w.h }
func (w *hijackWriter) Write(b []byte) (int, error) { return w.body.Write(b) }
func (w *hijackWriter) WriteHeader(s int) {
	if w.status == 0 {
		w.status = s
	}
}
func (w *hijackWriter) Hijack() (net.Conn, *bufio.ReadWriter, error) { return w.conn, nil, nil }

func hsErrClass(err error) int {
	switch {
	case err == nil:
		return 0
	case errors.Is(err, websocket.ErrUpgradeTokenNotFound):
		return 1
	case errors.Is(err, websocket.ErrUpgradeMethodIsGet):
		return 2
	case errors.Is(err, websocket.ErrUpgradeInvalidWebsocketVersion):
		return 3
	case errors.Is(err, websocket.ErrUpgradeUnsupportedExtensions):
		return 4
	case errors.Is(err, websocket.ErrUpgradeOriginNotAllowed):
		return 5
	case errors.Is(err, websocket.ErrUpgradeMissingWebsocketKey):
		return 6
	case errors.Is(err, websocket.ErrBadHandshake):
		return 7
	case errors.Is(err, websocket.ErrInvalidCompression):
		return 8
	}
	return 100
}

func sha1Of(key string) []byte {
	h := sha1.New()
	h.Write([]byte(key))
	h.Write([]byte("258EAFA5-E914-47DA-95CA-C5AB0DC85B11"))
	return h.Sum(nil)
}

func tokenList(vals []string, want string) bool { // RFC 7230 #token list, case-insensitive (independent of nbio)
	for _, v := range vals {
		for _, t := range strings.Split(v, ",") {
			if strings.EqualFold(strings.TrimSpace(t), want) {
				return true
			}
		}
	}
	return false
}

func keyOK(k string) bool {
	b, err := base64.StdEncoding.DecodeString(k)
	return err == nil && len(b) == 16
}

// offered: does the request offer permessage-deflate (independent, lenient parse: name before the first ';')
var pmdElem = regexp.MustCompile(`^permessage-deflate(\s*;\s*[a-z_]+(=[0-9a-z]+)?)*$`)

// wellFormedExts: every element of the extension header values is a plain "name; param[=value]; ..." (no quoting, no
// empty parameters): only then do the compression-agreement checks apply (a malformed header has no defined meaning)
func wellFormedExts(vals []string) bool {
	for _, v := range vals {
		for _, e := range strings.Split(v, ",") {
			t := strings.TrimSpace(e)
			if strings.HasPrefix(t, "permessage-deflate") && !pmdElem.MatchString(t) {
				return false
			}
			if t == "" || strings.ContainsAny(t, "\"=") && !strings.HasPrefix(t, "permessage-deflate") {
				return false
			}
		}
	}
	return true
}

func offersPMD(vals []string) bool {
	for _, v := range vals {
		for _, e := range strings.Split(v, ",") {
			name := strings.TrimSpace(strings.SplitN(e, ";", 2)[0])
			if name == "permessage-deflate" {
				return true
			}
		}
	}
	return false
}

func execQ(e *lp.Exec, f []string) {
	path := field(f, "path")
	ec := field(f, "ec") == "1"
	method := string(lp.Unhex(field(f, "m")))
	hd := parseKVs(field(f, "hd"))
	rh := parseKVs(field(f, "rh"))
	var sps []string
	if sp := field(f, "sp"); sp != "nil" {
		sps = hexList(sp)
		if sps == nil {
			sps = []string{}
		}
	}
	// request bytes
	var rb bytes.Buffer
	fmt.Fprintf(&rb, "%s /ws HTTP/1.1\r\n", method)
	for _, kv := range hd {
		fmt.Fprintf(&rb, "%s: %s\r\n", kv.k, kv.v)
	}
	rb.WriteString("\r\n")

	ep := &endpoint{}
	fc := &fakeConn{e: ep}
	engine := nbhttp.NewEngine(nbhttp.Config{})
	u := websocket.NewUpgrader()
	u.Engine = engine
	u.KeepaliveTime = 0
	u.EnableCompression(ec)
	u.Subprotocols = sps
	u.BlockingModHandleRead = false
	u.BlockingModAsyncWrite = false
	originVerdict := -1
	def := u.CheckOrigin
	u.CheckOrigin = func(r *http.Request) bool {
		ok := true
		if def != nil {
			ok = def(r)
		} else { // the default: same origin
			if o := r.Header["Origin"]; len(o) > 0 {
				pu, err := url.Parse(o[0])
				ok = err == nil && strings.EqualFold(pu.Host, r.Host)
			}
		}
		originVerdict = b2i(ok)
		return ok
	}
	respHeader := http.Header{}
	for _, kv := range rh {
		respHeader[http.CanonicalHeaderKey(kv.k)] = append(respHeader[http.CanonicalHeaderKey(kv.k)], kv.v)
	}
	var wsc *websocket.Conn
	var uerr error
	called := false
	var reqSeen *http.Request
	handler := func(w http.ResponseWriter, r *http.Request) {
		called = true
		// nbhttp recycles the request after the handler returns: keep a copy of what the oracle needs
		reqSeen = &http.Request{Method: r.Method, Host: r.Host, Header: r.Header.Clone()}
		wsc, uerr = u.Upgrade(w, r, respHeader)
	}
	stdStatus := 0
	perr := error(nil)
	if path == "std" {
		r, err := http.ReadRequest(bufio.NewReader(bytes.NewReader(rb.Bytes())))
		if err != nil {
			perr = err
		} else {
			w := &hijackWriter{conn: fc, h: http.Header{}}
			handler(w, r)
			stdStatus = w.status
		}
	} else {
		engine.Handler = http.HandlerFunc(handler)
		p := nbhttp.NewParser(fc, engine, nbhttp.NewServerProcessor(), false, func(fn func()) bool { fn(); return true })
		perr = p.Parse(rb.Bytes())
	}
	key := ""
	if reqSeen != nil {
		key = reqSeen.Header.Get("Sec-Websocket-Key")
	}
	um := "-" // the method as the Upgrader sees it (nbhttp's parser upper-cases it; HTTP syntax is C07's business)
	if reqSeen != nil {
		um = lp.Hex([]byte(reqSeen.Method))
	}
	// uk: the key as the Upgrader sees it ("Sec-WebSocket-Key: " with an empty value reaches it as " " through nbhttp's
	// parser and as "" through net/http: header value trimming is the HTTP parsers' business)
	uk := "none"
	if reqSeen != nil && len(reqSeen.Header["Sec-Websocket-Key"]) > 0 {
		uk = "x" + lp.Hex([]byte(reqSeen.Header["Sec-Websocket-Key"][0]))
	}
	e.P("> %s sha=%s origin=%d um=%s uk=%s", strings.Join(f, " "), lp.Hex(sha1Of(key)), originVerdict, um, uk)
	wire := bytes.Join(ep.writes, nil)
	if !called {
		e.P("Q noreq perr=%v", perr != nil)
		return
	}
	status := 0
	if uerr == nil {
		status = 101
	} else if path == "std" {
		status = stdStatus
	} else if resp, err := http.ReadResponse(bufio.NewReader(bytes.NewReader(wire)), nil); err == nil {
		status = resp.StatusCode
	}
	if uerr != nil {
		e.P("Q err=%d status=%d", hsErrClass(uerr), status)
	} else {
		e.P("Q ok rx=%d wx=%d proto=%s resp=%s", b2i(wsc.VerifEnableCompression()), b2i(wsc.VerifWriteCompression()), lp.Hex([]byte(wsc.Subprotocol())), short(wire))
	}
	e.Count("hs", fmt.Sprintf("Q-%s-%d", path, hsErrClass(uerr)))
	// ---- direct oracle: RFC 6455 4.2.1 on the request as the server's parser saw it, and a client-side check of the answer
	h := reqSeen.Header
	must := ""
	switch {
	case reqSeen.Method != "GET":
		must = "method"
	case !tokenList(h["Upgrade"], "websocket"):
		must = "upgrade"
	case !tokenList(h["Connection"], "upgrade"):
		must = "connection"
	case !tokenList(h["Sec-Websocket-Version"], "13"): // a list that contains 13 is tolerated (as every common server does)
		must = "version"
	case len(h["Sec-Websocket-Key"]) < 1 || h["Sec-Websocket-Key"][0] == "": // a repeated header: the first one counts
		must = "key"
	}
	if must == "" && !keyOK(h["Sec-Websocket-Key"][0]) {
		// leniency of the code (not demanded by C12/C13/C15): a non-empty key that is not base64 of 16 bytes; counted only
		e.Count("hs", fmt.Sprintf("lenient-key-%v", uerr == nil))
	}
	if must != "" && uerr == nil {
		e.Oracle("c12-handshake", "class=must-%s a request violating RFC 6455 4.2.1 (%s) was answered with 101", must, must)
	}
	// "conforming" = plain token lists: empty list elements (",upgrade", "upgrade,") are legal per RFC 7230 7 but exotic,
	// nbio (like gorilla) stops reading such a value; they stay in the stream for the correspondence only
	plain := true
	for _, name := range []string{"Connection", "Upgrade", "Sec-Websocket-Version"} {
		for _, v := range h[name] {
			for _, t := range strings.Split(v, ",") {
				if strings.TrimSpace(t) == "" || strings.ContainsAny(strings.TrimSpace(t), " \t\"") {
					plain = false
				}
			}
		}
	}
	if must == "" && plain && keyOK(h["Sec-Websocket-Key"][0]) && uerr != nil && originVerdict != 0 && len(respHeader["Sec-Websocket-Extensions"]) == 0 {
		e.Oracle("c12-handshake", "class=conforming-refused a conforming request was refused: %v", uerr)
	}
	if uerr == nil {
		resp, err := http.ReadResponse(bufio.NewReader(bytes.NewReader(wire)), nil)
		switch {
		case err != nil:
			e.Oracle("c12-handshake", "class=response-syntax the 101 response does not parse: %v", err)
		case resp.StatusCode != 101 || !tokenList(resp.Header["Upgrade"], "websocket") || !tokenList(resp.Header["Connection"], "upgrade"):
			e.Oracle("c12-handshake", "class=response-fields status=%d upgrade=%v connection=%v", resp.StatusCode, resp.Header["Upgrade"], resp.Header["Connection"])
		case resp.Header.Get("Sec-Websocket-Accept") != base64.StdEncoding.EncodeToString(sha1Of(key)):
			e.Oracle("c12-handshake", "class=accept-key Sec-WebSocket-Accept %q for key %q", resp.Header.Get("Sec-Websocket-Accept"), key)
		default:
			respPMD := offersPMD(resp.Header["Sec-Websocket-Extensions"])
			if respPMD && !offersPMD(h["Sec-Websocket-Extensions"]) {
				e.Oracle("c12-handshake", "class=ext-not-offered the response accepts permessage-deflate, which the client did not offer")
			}
			if len(resp.Header["Sec-Websocket-Extensions"]) > 0 && !respPMD {
				e.Oracle("c12-handshake", "class=ext-unknown response extensions %v", resp.Header["Sec-Websocket-Extensions"])
			}
			if wsc.VerifWriteCompression() != respPMD {
				e.Oracle("c12-handshake", "class=compression-disagree the server will compress=%v but told the client permessage-deflate=%v", wsc.VerifWriteCompression(), respPMD)
			}
			if wsc.VerifEnableCompression() && !respPMD {
				e.Oracle("c12-handshake", "class=rsv1-not-negotiated the server conn accepts RSV1 (compressed) frames although permessage-deflate was not negotiated")
			}
			if sp := resp.Header.Get("Sec-Websocket-Protocol"); sp != "" {
				off := false
				for _, v := range h["Sec-Websocket-Protocol"] {
					for _, t := range strings.Split(v, ",") {
						if strings.TrimSpace(t) == sp {
							off = true
						}
					}
				}
				if !off && u.Subprotocols != nil {
					e.Oracle("c12-handshake", "class=subprotocol %q was not offered by the client", sp)
				}
			}
		}
	}
}

// ---------------------------------------------------------------- the real Dialer against a scripted server

var dialEngine *nbhttp.Engine
var dialLn net.Listener

type scripted struct {
	resp    func(key string) []byte
	respRaw func(raw []byte) []byte // alternative: answer computed from the whole request
	req     chan []byte
}

var scriptCh = make(chan *scripted, 1)

func startDialRig() error {
	if dialEngine != nil {
		return nil
	}
	ln, err := net.Listen("tcp", "127.0.0.1:0")
	if err != nil {
		return err
	}
	dialLn = ln
	go func() {
		for {
			c, err := ln.Accept()
			if err != nil {
				return
			}
			sc := <-scriptCh
			go func(c net.Conn) {
				defer c.Close()
				_ = c.SetDeadline(time.Now().Add(5 * time.Second))
				br := bufio.NewReader(c)
				var raw bytes.Buffer
				key := ""
				for {
					line, err := br.ReadString('\n')
					raw.WriteString(line)
					if err != nil || line == "\r\n" {
						break
					}
					if i := strings.IndexByte(line, ':'); i > 0 && strings.EqualFold(line[:i], "Sec-WebSocket-Key") {
						key = strings.TrimSpace(line[i+1:])
					}
				}
				if sc.respRaw != nil {
					c.Write(sc.respRaw(raw.Bytes()))
				} else {
					c.Write(sc.resp(key))
				}
				sc.req <- raw.Bytes()
				time.Sleep(30 * time.Millisecond)
			}(c)
		}
	}()
	dialEngine = nbhttp.NewEngine(nbhttp.Config{})
	return dialEngine.Start()
}

// execZ: the real Dialer against the real Upgrader (the server side of the rig runs Upgrade on the request it received
// and sends back the bytes Upgrade wrote): theorem (a) on the implementation alone.
//
//	Z sec=0|1 cec=0|1 ssp=<hex,..|nil> csp=<hex,..|->
func execZ(e *lp.Exec, f []string) {
	if err := startDialRig(); err != nil {
		e.P("> %s", strings.Join(f, " "))
		e.P("Z norig")
		return
	}
	sec, cec := field(f, "sec") == "1", field(f, "cec") == "1"
	var ssp []string
	if v := field(f, "ssp"); v != "nil" {
		ssp = hexList(v)
		if ssp == nil {
			ssp = []string{}
		}
	}
	csp := hexList(field(f, "csp"))
	var swsc *websocket.Conn
	var serr error
	sc := &scripted{req: make(chan []byte, 1)}
	sc.respRaw = func(raw []byte) []byte {
		r, err := http.ReadRequest(bufio.NewReader(bytes.NewReader(raw)))
		if err != nil {
			return []byte("HTTP/1.1 400 Bad Request\r\nContent-Length: 0\r\n\r\n")
		}
		ep := &endpoint{}
		fc := &fakeConn{e: ep}
		u := websocket.NewUpgrader()
		u.Engine = nbhttp.NewEngine(nbhttp.Config{})
		u.KeepaliveTime = 0
		u.EnableCompression(sec)
		u.Subprotocols = ssp
		u.BlockingModHandleRead = false
		u.BlockingModAsyncWrite = false
		w := &hijackWriter{conn: fc, h: http.Header{}}
		swsc, serr = u.Upgrade(w, r, nil)
		if serr != nil {
			return []byte(fmt.Sprintf("HTTP/1.1 %d X\r\nContent-Length: 0\r\n\r\n", w.status))
		}
		return bytes.Join(ep.writes, nil)
	}
	scriptCh <- sc
	cu := websocket.NewUpgrader()
	cu.Engine = dialEngine
	cu.KeepaliveTime = 0
	cu.EnableCompression(cec)
	d := &websocket.Dialer{Engine: dialEngine, Upgrader: cu, Subprotocols: csp, DialTimeout: 3 * time.Second}
	conn, _, err := d.Dial("ws://"+dialLn.Addr().String()+"/ws", nil)
	select {
	case <-sc.req:
	case <-time.After(3 * time.Second):
	}
	e.P("> %s", strings.Join(f, " "))
	if err != nil || serr != nil || swsc == nil {
		e.P("Z err=%d serr=%d", hsErrClass(err), hsErrClass(serr))
		e.Oracle("c12-handshake", "class=e2e-refused the Dialer's own request was not carried through: dial error %v, upgrade error %v", err, serr)
		return
	}
	e.P("Z ok srx=%d swx=%d crx=%d cwx=%d proto=%s/%s", b2i(swsc.VerifEnableCompression()), b2i(swsc.VerifWriteCompression()),
		b2i(conn.VerifEnableCompression()), b2i(conn.VerifWriteCompression()), lp.Hex([]byte(swsc.Subprotocol())), lp.Hex([]byte(conn.Subprotocol())))
	if swsc.VerifWriteCompression() && !conn.VerifEnableCompression() || conn.VerifWriteCompression() && !swsc.VerifEnableCompression() {
		e.Oracle("c12-handshake", "class=e2e-compression one end will send compressed messages the other does not accept (server rx/wx %v/%v, client rx/wx %v/%v)",
			swsc.VerifEnableCompression(), swsc.VerifWriteCompression(), conn.VerifEnableCompression(), conn.VerifWriteCompression())
	}
	if swsc.VerifWriteCompression() != (sec && cec) || conn.VerifWriteCompression() != (sec && cec) {
		e.Oracle("c12-handshake", "class=e2e-compression compression on=%v/%v although server enabled=%v client enabled=%v", swsc.VerifWriteCompression(), conn.VerifWriteCompression(), sec, cec)
	}
	if swsc.Subprotocol() != conn.Subprotocol() {
		e.Oracle("c12-handshake", "class=e2e-subprotocol server %q client %q", swsc.Subprotocol(), conn.Subprotocol())
	}
	conn.CloseAndClean(nil)
	conn.Conn.Close()
	e.Count("hs", "Z")
}

func execP(e *lp.Exec, f []string) {
	if err := startDialRig(); err != nil {
		e.P("> %s key= sha=", strings.Join(f, " "))
		e.P("P norig")
		return
	}
	ec := field(f, "ec") == "1"
	sps := hexList(field(f, "sp"))
	status := atoi(field(f, "status"))
	acc := field(f, "accept")
	hd := parseKVs(field(f, "hd"))
	sc := &scripted{req: make(chan []byte, 1)}
	gotKey := ""
	sc.resp = func(key string) []byte {
		gotKey = key
		var b bytes.Buffer
		fmt.Fprintf(&b, "HTTP/1.1 %d %s\r\n", status, http.StatusText(status))
		switch acc {
		case "ok":
			fmt.Fprintf(&b, "Sec-WebSocket-Accept: %s\r\n", base64.StdEncoding.EncodeToString(sha1Of(key)))
		case "bad":
			fmt.Fprintf(&b, "Sec-WebSocket-Accept: %s\r\n", base64.StdEncoding.EncodeToString(sha1Of(key+"x")))
		}
		for _, kv := range hd {
			fmt.Fprintf(&b, "%s: %s\r\n", kv.k, kv.v)
		}
		if status != 101 {
			b.WriteString("Content-Length: 0\r\n")
		}
		b.WriteString("\r\n")
		return b.Bytes()
	}
	scriptCh <- sc
	u := websocket.NewUpgrader()
	u.Engine = dialEngine
	u.KeepaliveTime = 0
	u.EnableCompression(ec)
	d := &websocket.Dialer{Engine: dialEngine, Upgrader: u, Subprotocols: sps, DialTimeout: 3 * time.Second}
	conn, _, err := d.Dial("ws://"+dialLn.Addr().String()+"/ws", nil)
	var raw []byte
	select {
	case raw = <-sc.req:
	case <-time.After(3 * time.Second):
	}
	// the request as a sorted header list (Host excluded: it is the rig's address)
	var lines []string
	method := ""
	for i, l := range strings.Split(string(raw), "\r\n") {
		if i == 0 {
			method = strings.SplitN(l, " ", 2)[0]
			continue
		}
		if j := strings.IndexByte(l, ':'); j > 0 {
			k := http.CanonicalHeaderKey(l[:j])
			if k == "Host" || k == "Sec-Websocket-Key" || k == "User-Agent" || k == "Content-Length" || k == "Accept-Encoding" {
				continue
			}
			lines = append(lines, lp.Hex([]byte(k))+":"+lp.Hex([]byte(strings.TrimSpace(l[j+1:]))))
		}
	}
	sort.Strings(lines)
	e.P("> %s key=%s sha=%s", strings.Join(f, " "), lp.Hex([]byte(gotKey)), lp.Hex(sha1Of(gotKey)))
	req := fmt.Sprintf("%s|%s", method, strings.Join(lines, ","))
	if err != nil {
		e.P("P err=%d req=%s", hsErrClass(err), req)
	} else {
		e.P("P ok rx=%d wx=%d proto=%s req=%s", b2i(conn.VerifEnableCompression()), b2i(conn.VerifWriteCompression()), lp.Hex([]byte(conn.Subprotocol())), req)
		respPMD := false
		for _, kv := range hd {
			if http.CanonicalHeaderKey(kv.k) == "Sec-Websocket-Extensions" && offersPMD([]string{kv.v}) {
				respPMD = true
			}
		}
		var extVals []string
		for _, kv := range hd {
			if http.CanonicalHeaderKey(kv.k) == "Sec-Websocket-Extensions" {
				extVals = append(extVals, kv.v)
			}
		}
		if wellFormedExts(extVals) && conn.VerifWriteCompression() != respPMD {
			e.Oracle("c12-handshake", "class=compression-disagree the client will compress=%v but the server answered permessage-deflate=%v", conn.VerifWriteCompression(), respPMD)
		}
		if conn.VerifEnableCompression() && !respPMD {
			e.Oracle("c12-handshake", "class=rsv1-not-negotiated the client conn accepts RSV1 (compressed) frames although permessage-deflate was not negotiated")
		}
		if !keyOK(gotKey) {
			e.Oracle("c12-handshake", "class=dial-key the Dialer sent the challenge key %q", gotKey)
		}
		conn.CloseAndClean(nil)
		conn.Conn.Close()
	}
	if status == 101 && acc != "ok" && err == nil {
		e.Oracle("c12-handshake", "class=accept-unchecked the Dialer accepted a response with accept=%s", acc)
	}
	e.Count("hs", fmt.Sprintf("P-%d", hsErrClass(err)))
}
