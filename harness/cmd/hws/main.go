// hws: websocket.Conn harness (C12, C13, C15).
//
// Three kinds of cases (first token after "C"):
//
//	C recv role=server|client compress=0|1 limit=N readlimit=N maxframe=N
//	  D <spec>            one segment fed to the real Conn.Parse
//	  X <opcode> <spec>   WriteMessage on the same conn (send-side control limit)
//	  E                   end of case: RFC 6455 twin verdict over all bytes of the case
//	C rt compress=0|1 level=L limit=N maxframe=N seg=<style> seed=S
//	  W c|s <type> <spec> WriteMessage on the client (c) or server (s) endpoint; the bytes written are relayed
//	                      to the peer's Parse in segments chosen by <style>/<seed>; replies travel back whole
//	C mask
//	  M <key> <spec>      the real maskXOR (through a hook) on the bytes
//
// exec annotates the op with what the environment answered: infl= (what compress/flate produced for each
// inflate call and how the reader chunked it), defl= (deflate output), keys=/bkeys= (mask keys drawn), cuts=.
// Result lines:
//
//	R ok|err=<E> cache=<n> msglen=<n> [deliver:T:<short>;write:<short>;close;...]
//	X ok|err=<E> [..]
//	E rfc=<verdict>@<i> len=<verdict>@<i> exp=[..]
//	W ok|err=<E> wire=<short> recv=[..] rerr=<E> back=[..]
//	R <short>
//
// Direct oracles: c12-roundtrip, c12-mask, c13-accept, c15-limit (see docs/ws.md).
package main

import (
	"bytes"
	"encoding/binary"
	"errors"
	"fmt"
	"io"
	"math/rand"
	"net"
	"net/http"
	"os"
	"strconv"
	"strings"
	"sync"
	"time"
	"unicode/utf8"

	"harness/internal/lp"
	"harness/internal/track"

	"github.com/lesismal/nbio/logging"
	"github.com/lesismal/nbio/nbhttp"
	"github.com/lesismal/nbio/nbhttp/websocket"
)

// ---------------------------------------------------------------- endpoint under test

type inflObs struct {
	key   uint64
	out   []byte
	steps []string
}

type endpoint struct {
	fc        *fakeConn
	queued    bool     // Execute only queues the job (as the poller path does); the harness runs the queue later
	jobs      []func() // pending jobs
	parser    *nbhttp.Parser
	ws        *websocket.Conn
	closed    bool // underlying conn closed
	limit     int
	acts      []string
	delivered [][]byte
	dtypes    []int
	writes    [][]byte
	infl      []*inflObs
	defl      [][]byte
	panics    *int
	frames    []int // payload sizes handed to the data-frame handler
	onInflate func() // one-shot: runs when this endpoint has taken an inflater for a message, before it reads from it
	onDeflate func() // one-shot: runs when this endpoint has taken a deflater for a message, before it writes to it
}

func (e *endpoint) reset() {
	e.acts, e.delivered, e.dtypes, e.writes, e.infl, e.defl, e.frames = nil, nil, nil, nil, nil, nil, nil
}

type fakeConn struct {
	e    *endpoint
	mu   sync.Mutex
	gate chan struct{} // when set, Write waits until it is closed (a slow peer: the send queue backs up)
}

func (c *fakeConn) Read(b []byte) (int, error) { return 0, nil }
func (c *fakeConn) Write(b []byte) (int, error) {
	c.mu.Lock()
	g := c.gate
	c.mu.Unlock()
	if g != nil {
		<-g
	}
	c.mu.Lock()
	defer c.mu.Unlock()
	if tracker != nil {
		tracker.CheckSlice(b, "the slice handed to Conn.Write")
	}
	if c.e.closed {
		return 0, net.ErrClosed
	}
	c.e.acts = append(c.e.acts, "write:"+short(b))
	c.e.writes = append(c.e.writes, append([]byte{}, b...))
	return len(b), nil
}
func (c *fakeConn) Close() error {
	if !c.e.closed {
		c.e.closed = true
		c.e.acts = append(c.e.acts, "close")
	}
	return nil
}
func (c *fakeConn) LocalAddr() net.Addr                { return &net.TCPAddr{} }
func (c *fakeConn) RemoteAddr() net.Addr               { return &net.TCPAddr{} }
func (c *fakeConn) SetDeadline(t time.Time) error      { return nil }
func (c *fakeConn) SetReadDeadline(t time.Time) error  { return nil }
func (c *fakeConn) SetWriteDeadline(t time.Time) error { return nil }

type obsReader struct {
	inner io.ReadCloser
	o     *inflObs
	pre   func() // runs once, after the reader was taken and before its first Read (another conn gets its turn there)
}

func (r *obsReader) Read(p []byte) (int, error) {
	if r.pre != nil {
		f := r.pre
		r.pre = nil
		f()
	}
	n, err := r.inner.Read(p)
	r.o.out = append(r.o.out, p[:n]...)
	st := 0
	if err == io.EOF {
		st = 1
	} else if err != nil {
		st = 2
	}
	r.o.steps = append(r.o.steps, fmt.Sprintf("%d.%d.%d", len(p), n, st))
	return n, err
}
func (r *obsReader) Close() error { return r.inner.Close() }

type teeW struct {
	w   io.WriteCloser
	buf *[]byte
}

func (t *teeW) Write(p []byte) (int, error) { *t.buf = append(*t.buf, p...); return t.w.Write(p) }
func (t *teeW) Close() error                { return t.w.Close() }

type nopWC struct{}

func (nopWC) Write(p []byte) (int, error) { return len(p), nil }
func (nopWC) Close() error                { return nil }

type wsCfg struct {
	sendq                int  // > 0: asynchronous writes through a send queue of this size (blocking-mode write path)
	handoff              bool // client conn created by the upgrade hand-off of the HTTP client parser
	client               bool
	compress             bool
	level                int
	limit, readLimit, mf int
	handlers             string // "" or "m": message handler only (what the model describes); "f": data-frame handler only; "mf": both
}

func newEndpoint(g wsCfg) *endpoint {
	conf := nbhttp.Config{ReadLimit: g.readLimit, MaxWebsocketFramePayloadSize: g.mf}
	if tracker != nil {
		conf.BodyAllocator = tracker
	}
	engine := nbhttp.NewEngine(conf)
	if g.readLimit == 0 {
		engine.ReadLimit = 0
	}
	u := websocket.NewUpgrader()
	u.Engine = engine
	u.MessageLengthLimit = g.limit
	u.KeepaliveTime = 0
	u.EnableCompression(g.compress)
	if g.compress {
		_ = u.SetCompressionLevel(g.level)
	}
	e := &endpoint{limit: g.limit}
	u.WebsocketDecompressor = func(c *websocket.Conn, r io.Reader) io.ReadCloser {
		all, _ := io.ReadAll(r)
		msg := all[:len(all)-len(websocket.VerifFlateReaderTail)]
		o := &inflObs{key: lp.Fnv(msg)}
		e.infl = append(e.infl, o)
		pre := e.onInflate
		e.onInflate = nil
		return &obsReader{inner: websocket.VerifDecompressReader(bytes.NewReader(all)), o: o, pre: pre}
	}
	u.WebsocketCompressor = func(c *websocket.Conn, w io.WriteCloser, level int) io.WriteCloser {
		e.defl = append(e.defl, nil)
		cw := websocket.VerifCompressWriter(&teeW{w: w, buf: &e.defl[len(e.defl)-1]}, level)
		if f := e.onDeflate; f != nil { // another conn gets its turn between taking the writer and the first Write
			e.onDeflate = nil
			f()
		}
		return cw
	}
	if g.handlers != "f" {
		u.OnMessage(func(c *websocket.Conn, mt websocket.MessageType, data []byte) {
			e.acts = append(e.acts, fmt.Sprintf("deliver:%d:%s", mt, short(data)))
			e.delivered = append(e.delivered, append([]byte{}, data...))
			e.dtypes = append(e.dtypes, int(mt))
		})
	}
	if g.handlers == "f" || g.handlers == "mf" {
		u.OnDataFrame(func(c *websocket.Conn, mt websocket.MessageType, fin bool, data []byte) {
			e.frames = append(e.frames, len(data))
		})
	}
	fc := &fakeConn{e: e}
	e.fc = fc
	// inline executor with nbio.Conn.Execute's contract: refuses once the conn is closed
	inline := func(f func()) bool {
		if e.closed {
			return false
		}
		if e.queued {
			e.jobs = append(e.jobs, f)
			return true
		}
		f()
		return true
	}
	if g.handoff {
		// websocket.Dialer's response callback, on a parser that is not attached to a poller
		var parser *nbhttp.Parser
		parser = nbhttp.NewParser(fc, engine, nbhttp.NewClientProcessor(nil, func(res *http.Response, err error) {
			if err != nil || res == nil || res.StatusCode != 101 {
				return
			}
			ws := websocket.NewClientConn(u, fc, "", g.compress, false)
			parser.ParserCloser = ws
			ws.Engine = engine
			ws.Execute = inline
			e.ws = ws
		}), true, inline)
		e.parser = parser
		return e
	}
	if g.sendq > 0 {
		u.BlockingModSendQueueMaxSize = uint16(g.sendq)
	}
	if g.client {
		e.ws = websocket.NewClientConn(u, fc, "", g.compress, g.sendq > 0)
	} else {
		e.ws = websocket.NewServerConn(u, fc, "", g.compress, g.sendq > 0)
	}
	e.ws.Execute = inline
	return e
}

func (e *endpoint) inflAnn() string {
	var xs []string
	for _, o := range e.infl {
		xs = append(xs, fmt.Sprintf("%d/%s/%s", o.key, specOf(o.out), strings.Join(o.steps, ",")))
	}
	return strings.Join(xs, "|")
}

func (e *endpoint) deflAnn() string {
	var xs []string
	for _, d := range e.defl {
		xs = append(xs, specOf(d))
	}
	return strings.Join(xs, "|")
}

func errCode(err error) int {
	switch {
	case err == nil:
		return 0
	case errors.Is(err, net.ErrClosed):
		return 1
	case errors.Is(err, nbhttp.ErrTooLong):
		return 2
	case errors.Is(err, websocket.ErrInvalidFragmentMessage):
		return 3
	case errors.Is(err, websocket.ErrMessageTooLarge):
		return 4
	case errors.Is(err, websocket.ErrControlMessageTooBig):
		return 5
	case errors.Is(err, websocket.ErrReserveBitSet):
		return 6
	case errors.Is(err, websocket.ErrReservedMessageType):
		return 7
	case errors.Is(err, websocket.ErrControlMessageFragmented):
		return 8
	case errors.Is(err, websocket.ErrFragmentsShouldNotHaveBinaryOrTextMessage):
		return 9
	case errors.Is(err, websocket.ErrMessageSendQuqueIsFull):
		return 14
	}
	s := err.Error()
	switch {
	case strings.Contains(s, "invalid frame consumed"):
		return 10
	case strings.Contains(s, "websocket: parse error"):
		return 11 // recovered panic
	case strings.HasPrefix(s, "flate:"), strings.Contains(s, "unexpected EOF"):
		return 12 // inflate failed
	}
	fmt.Fprintln(os.Stderr, "hws: unknown error:", err)
	return 100
}

type capLogger struct{ panics int }

func (l *capLogger) Debug(f string, v ...interface{}) {}
func (l *capLogger) Info(f string, v ...interface{})  {}
func (l *capLogger) Warn(f string, v ...interface{})  {}
func (l *capLogger) Error(f string, v ...interface{}) {
	if strings.Contains(f, "Parse failed") {
		l.panics++
	}
}

// events: the externally visible behaviour of an endpoint in the vocabulary of the RFC twin
func events(acts []string, writes [][]byte) []string {
	var out []string
	wi := 0
	for _, a := range acts {
		switch {
		case strings.HasPrefix(a, "deliver:"):
			out = append(out, a)
		case strings.HasPrefix(a, "write:"):
			for _, f := range refDecode(writes[wi]) {
				switch f.op {
				case 10:
					out = append(out, "pong:"+short(f.payload))
				case 8:
					out = append(out, "close:"+short(f.payload))
				default:
					out = append(out, fmt.Sprintf("frame:%d", f.op))
				}
			}
			wi++
		}
	}
	return out
}

func has1009(writes [][]byte) bool {
	for _, w := range writes {
		for _, f := range refDecode(w) {
			if f.op == 8 && len(f.payload) >= 2 && binary.BigEndian.Uint16(f.payload) == 1009 {
				return true
			}
		}
	}
	return false
}

// ---------------------------------------------------------------- executor

type recvCase struct {
	g        wsCfg
	e        *endpoint
	dead     bool
	err      int
	all      []byte   // every byte of the case
	evs      []string // events so far
	writes   [][]byte
	maxDeliv int
	nt       bool
	key      strings.Builder
	// upgrade hand-off cases ("C up"): the bytes go through the real HTTP client parser, which hands over to the
	// websocket conn when the 101 response is complete (what websocket.Dialer does in the response callback)
	parser *nbhttp.Parser
	stream []byte // every byte fed so far, 101 response included
}

func b2i(b bool) int {
	if b {
		return 1
	}
	return 0
}

func atoi(s string) int { n, _ := strconv.Atoi(s); return n }

func exec(e *lp.Exec) {
	lg := &capLogger{}
	logging.SetLogger(lg)
	var rc *recvCase
	var rt *rtCase
	var hc *hndCase
	mode := ""
	finish := func() {
		had := rc != nil || rt != nil
		defer func() {
			if tracker != nil {
				tracker.Audit()
				for _, v := range tracker.Drain() {
					e.Oracle(v.Oracle, "%s", v.Detail)
				}
				if live := tracker.Live(); len(live) > 0 && had {
					e.Count("c11", "cases-with-live-buffers-after-close")
				}
				tracker.Reset()
			}
		}()
		if rc != nil {
			e.Key(rc.key.String(), rc.nt)
			if rc.e.ws != nil {
				rc.e.ws.CloseAndClean(nil)
			}
			rc = nil
		}
		if rt != nil {
			e.Key(rt.key.String(), rt.nt)
			rt.c.ws.CloseAndClean(nil)
			rt.s.ws.CloseAndClean(nil)
			rt = nil
		}
	}
	for e.In.Scan() {
		line := e.In.Text()
		f := strings.Fields(line)
		if len(f) == 0 {
			continue
		}
		switch {
		case f[0] == "C" && len(f) > 1 && f[1] == "recv":
			finish()
			mode = "recv"
			g := wsCfg{client: field(f, "role") == "client", compress: field(f, "compress") == "1", level: 1,
				limit: atoi(field(f, "limit")), readLimit: atoi(field(f, "readlimit")), mf: atoi(field(f, "maxframe"))}
			rc = &recvCase{g: g, e: newEndpoint(g)}
			fmt.Fprintf(&rc.key, "recv/%v/%v/%v/%v|", g.client, g.compress, g.limit > 0, g.readLimit > 0)
			e.Count("cases", "recv")
			e.P("> %s", line)
			e.P("ok")
		case f[0] == "C" && len(f) > 1 && f[1] == "up":
			finish()
			mode = "recv"
			g := wsCfg{handoff: true, client: true, compress: field(f, "compress") == "1", level: 1,
				limit: atoi(field(f, "limit")), readLimit: 0, mf: atoi(field(f, "maxframe"))}
			rc = &recvCase{g: g, e: newEndpoint(g)}
			fmt.Fprintf(&rc.key, "up/%v/%v|", g.compress, g.limit > 0)
			e.Count("cases", "up")
			e.P("> %s", line)
			e.P("ok")
		case f[0] == "C" && len(f) > 1 && f[1] == "rt":
			finish()
			mode = "rt"
			rt = newRT(f)
			e.Count("cases", "rt")
			e.P("> %s", line)
			e.P("ok")
		case f[0] == "C" && len(f) > 1 && f[1] == "hnd":
			finish()
			mode = "hnd"
			g := wsCfg{client: field(f, "role") == "client", limit: atoi(field(f, "limit")), mf: 32768, handlers: field(f, "handlers")}
			hc = &hndCase{g: g, ep: newEndpoint(g)}
			e.Count("cases", "hnd")
			e.Count("handlers", g.handlers)
			e.P("> %s", line)
			e.P("ok")
		case f[0] == "F" && mode == "hnd" && len(f) >= 2 && hc != nil:
			hc.execF(e, lg, f)
		case f[0] == "C" && len(f) > 1 && f[1] == "mask":
			finish()
			mode = "mask"
			e.Count("cases", "mask")
			e.P("> %s", line)
			e.P("ok")
		case f[0] == "C" && len(f) > 1 && f[1] == "hs":
			finish()
			mode = "hs"
			e.Count("cases", "hs")
			e.P("> %s", line)
			e.P("ok")
		case f[0] == "Q" && mode == "hs":
			execQ(e, f)
		case f[0] == "P" && mode == "hs":
			execP(e, f)
		case f[0] == "Z" && mode == "hs":
			execZ(e, f)
		case f[0] == "C" && len(f) > 1 && f[1] == "trunc":
			finish()
			mode = "trunc"
			e.Count("cases", "trunc")
			e.P("> %s", line)
			e.P("ok")
		case f[0] == "T" && mode == "trunc" && len(f) >= 2:
			// the real truncWriter fed with the chunks: what it passes on
			var got []byte
			tw := websocket.VerifTruncWriter(&teeW{w: nopWC{}, buf: &got})
			var all []byte
			for _, c := range strings.Split(f[1], ",") {
				b := parseSpec(c)
				all = append(all, b...)
				tw.Write(b)
			}
			want := []byte{}
			if len(all) > 4 {
				want = all[:len(all)-4]
			}
			if !bytes.Equal(got, want) {
				e.Oracle("c12-trunc", "truncWriter passed on %s for the stream %s", short(got), short(all))
			}
			e.P("> %s", line)
			e.P("R %s", short(got))
		case f[0] == "C" && len(f) > 1 && f[1] == "utf8":
			finish()
			mode = "utf8"
			e.Count("cases", "utf8")
			e.P("> %s", line)
			e.P("ok")
		case f[0] == "U" && mode == "utf8" && len(f) >= 2:
			e.P("> %s", line)
			e.P("R %d", b2i(utf8.Valid(parseSpec(f[1]))))
		case f[0] == "M" && mode == "mask" && len(f) >= 3:
			key := lp.Unhex(f[1])
			data := parseSpec(f[2])
			got := append([]byte{}, data...)
			websocket.VerifMaskXOR(got, key)
			want := make([]byte, len(data))
			for i := range data {
				want[i] = data[i] ^ key[i%4]
			}
			if !bytes.Equal(got, want) {
				e.Oracle("c12-mask", "maskXOR differs from b[i]^key[i%%4]: len=%d key=%s", len(data), f[1])
			}
			again := append([]byte{}, got...)
			websocket.VerifMaskXOR(again, key)
			if !bytes.Equal(again, data) {
				e.Oracle("c12-mask", "maskXOR is not an involution: len=%d key=%s", len(data), f[1])
			}
			e.Count("mask", "calls")
			e.P("> %s", line)
			e.P("R %s", short(got))
			e.Key(fmt.Sprintf("mask/%d/%d", len(data)/64, len(data)%8), len(data) > 0)
		case (f[0] == "D" || f[0] == "H") && mode == "recv" && len(f) >= 2 && (f[0] == "H") == rc.g.handoff:
			execD(e, rc, lg, f)
		case f[0] == "XC" && mode == "recv" && len(f) >= 3 && rc.e.ws != nil:
			execXC(e, rc, f)
		case f[0] == "XF" && mode == "recv" && len(f) >= 5 && rc.e.ws != nil:
			execXF(e, rc, f)
		case f[0] == "X" && mode == "recv" && len(f) >= 3 && rc.e.ws != nil:
			execX(e, rc, f)
		case f[0] == "E" && mode == "recv":
			execE(e, rc)
		case f[0] == "W" && mode == "rt" && len(f) >= 4:
			rt.execW(e, lg, f)
		case f[0] == "I" && mode == "rt" && len(f) >= 5:
			rt.second = f[4]
			rt.execW(e, lg, f)
		case f[0] == "B" && mode == "rt" && len(f) >= 3:
			rt.execB(e, lg, f)
		default:
			e.P("> %s", line)
			e.P("bad-op")
		}
	}
	finish()
}

// guard runs a call into nbio under a watchdog: a call that does not return (a loop that stopped making progress)
// is reported as a direct-oracle failure of C15 ("the bounded inflate loop terminates") and ends the process;
// `echo` is the op line to print first so that the report is attributed to the right case.
func guard(e *lp.Exec, echo string, f func() error) error {
	done := make(chan error, 1)
	go func() { done <- f() }()
	select {
	case err := <-done:
		return err
	case <-time.After(20 * time.Second):
		e.P("> %s", echo)
		e.P("R hang")
		e.Oracle("c15-limit", "class=hang a call into websocket.Conn did not return within 20s (%s)", strings.Fields(echo)[0])
		os.Exit(3)
	}
	return nil
}

// runJobs runs the queued jobs in order (jobs queued meanwhile included)
func (ep *endpoint) runJobs() {
	for len(ep.jobs) > 0 {
		j := ep.jobs[0]
		ep.jobs = ep.jobs[1:]
		j()
	}
}

func (ep *endpoint) cacheLen() int {
	if ep.ws == nil {
		return 0
	}
	return ep.ws.VerifCacheLen()
}
func (ep *endpoint) msgLen() int {
	if ep.ws == nil {
		return 0
	}
	return ep.ws.VerifMessageLen()
}

func actsStr(a []string) string { return "[" + strings.Join(a, ";") + "]" }

func execD(e *lp.Exec, rc *recvCase, lg *capLogger, f []string) {
	seg := parseSpec(f[1])
	if rc.g.handoff {
		// websocket bytes = what follows the first CRLF CRLF of the stream
		rc.stream = append(rc.stream, seg...)
		if i := bytes.Index(rc.stream, []byte("\r\n\r\n")); i >= 0 {
			rc.all = rc.stream[i+4:]
		}
	} else {
		rc.all = append(rc.all, seg...)
	}
	if rc.dead {
		e.P("> %s %s infl= keys=", f[0], f[1])
		e.P("dead")
		return
	}
	ep := rc.e
	ep.reset()
	cache0 := ep.cacheLen()
	t0 := time.Now()
	err := guard(e, f[0]+" "+f[1]+" infl= keys=", func() error {
		if ep.parser != nil {
			return ep.parser.Parse(append([]byte{}, seg...))
		}
		return ep.ws.Parse(append([]byte{}, seg...))
	})
	if d := time.Since(t0); d > 5*time.Second {
		e.Oracle("c15-limit", "class=slow Parse took %v on %d bytes", d, len(seg))
	}
	var ec int
	if err != nil && ep.parser != nil && ep.ws == nil {
		ec = 13 // the HTTP client parser refused the response (before any hand-over): one class, C06-C08 look inside
	} else {
		ec = errCode(err)
	}
	cache, ml := ep.cacheLen(), ep.msgLen()
	e.P("> %s %s infl=%s keys=%s", f[0], f[1], ep.inflAnn(), keysOf(ep.writes))
	if ec != 0 {
		rc.dead, rc.err = true, ec
		e.P("R err=%d cache=%d msglen=%d %s", ec, cache, ml, actsStr(ep.acts))
		e.Count("errors", strconv.Itoa(ec))
	} else {
		e.P("R ok cache=%d msglen=%d %s", cache, ml, actsStr(ep.acts))
	}
	if lg.panics > 0 {
		e.Oracle("c13-accept", "class=panic Parse recovered from a panic (err=%d)", ec)
		lg.panics = 0
	}
	rc.evs = append(rc.evs, events(ep.acts, ep.writes)...)
	rc.writes = append(rc.writes, ep.writes...)
	poolOracle(e, rc.g.compress)
	fmt.Fprintf(&rc.key, "%d:%d:%v:%v,", ec, len(ep.acts), cache > 0, ml > 0)
	if cache0 > 0 || cache > 0 || ec != 0 || len(ep.acts) > 0 {
		rc.nt = true
	}
	// C15 direct oracles
	L := rc.g.limit
	if L > 0 {
		for _, d := range ep.delivered {
			if len(d) > L {
				e.Oracle("c15-limit", "class=delivered-over-limit delivered=%d limit=%d", len(d), L)
			}
		}
		if ml > L {
			e.Oracle("c15-limit", "class=buffered-over-limit msglen=%d limit=%d", ml, L)
		}
		// unparsed bytes kept while the conn lives: an incomplete header (< 14 bytes) or an incomplete frame that passed the
		// size checks (c15_cache_bound_by_limit): more than that is a frame buffered although its declared length is over the limit
		if room := L - ml; ec == 0 {
			if room < 125 {
				room = 125
			}
			if cache >= 14+room {
				e.Oracle("c15-limit", "class=buffered-over-limit unparsed cache=%d with limit=%d and %d bytes assembled (an oversize frame is being buffered)", cache, L, ml)
			}
		}
		for _, o := range ep.infl {
			if len(o.out) > L+1 { // one byte beyond the limit may be read to tell "exactly the limit" from "more"
				e.Oracle("c15-limit", "class=inflate-over-limit held=%d limit=%d", len(o.out), L)
			}
		}
	}
	for _, d := range ep.delivered {
		if len(d) > rc.maxDeliv {
			rc.maxDeliv = len(d)
		}
	}
	if rl := rc.g.readLimit; rl > 0 && ec == 0 {
		bound := rl
		if len(seg) > bound {
			bound = len(seg)
		}
		if cache > bound {
			e.Oracle("c15-limit", "class=cache-over-readlimit cache=%d readlimit=%d data=%d", cache, rl, len(seg))
		} else if cache > rl {
			// the statement as worded ("never exceeds the read limit"): a single read into an empty cache is kept whole
			e.Oracle("c15-limit", "class=first-read-over-readlimit cache=%d readlimit=%d data=%d", cache, rl, len(seg))
		}
	}
	if (ec == 4 || ec == 5) && !has1009(ep.writes) && !ep.closed {
		e.Oracle("c15-limit", "class=no-1009 err=%d but no close frame with code 1009 was written", ec)
	}
	// an oversize COMPRESSED message, seen on the implementation alone: the inflater handed out more than the limit
	// (the byte beyond it is the probe) and Parse failed - whatever error value it returns, the peer must be answered with 1009
	if L > 0 && ec != 0 && ec != 4 && !ep.closed && !has1009(ep.writes) {
		for _, o := range ep.infl {
			if len(o.out) > L {
				e.Oracle("c15-limit", "class=no-1009 oversize compressed message (inflates to more than %d bytes) refused with err=%d but not answered with close code 1009", L, ec)
				break
			}
		}
	}
}


func execX(e *lp.Exec, rc *recvCase, f []string) {
	op := atoi(f[1])
	data := parseSpec(f[2])
	ep := rc.e
	ep.reset()
	err := ep.ws.WriteMessage(websocket.MessageType(op), data)
	ec := errCode(err)
	e.P("> X %s %s defl=%s keys=%s", f[1], f[2], ep.deflAnn(), keysOf(ep.writes))
	if ec != 0 {
		e.P("X err=%d %s", ec, actsStr(ep.acts))
	} else {
		e.P("X ok %s", actsStr(ep.acts))
	}
	if op >= 8 && len(data) > websocket.VerifMaxControlFramePayloadSize {
		if ec != 5 || len(ep.writes) > 0 {
			e.Oracle("c15-limit", "class=control-send WriteMessage(op=%d, %d bytes) err=%d writes=%d", op, len(data), ec, len(ep.writes))
		}
	}
	for _, w := range ep.writes {
		for _, fr := range refDecode(w) {
			if fr.op >= 8 && fr.declared > 125 {
				e.Oracle("c15-limit", "class=control-send a control frame with %d payload bytes was written", fr.declared)
			}
		}
	}
	fmt.Fprintf(&rc.key, "X%d:%d,", op, ec)
}

// controlSendOracle: C15 "control frames above 125 bytes are refused on send", on the decoded wire of the implementation alone
func controlSendOracle(e *lp.Exec, ep *endpoint, what string) {
	for _, w := range ep.writes {
		for _, fr := range refDecode(w) {
			if fr.op >= 8 && fr.declared > 125 {
				e.Oracle("c15-limit", "class=control-send %s: a control frame (opcode %d) with %d payload bytes was written", what, fr.op, fr.declared)
			}
		}
	}
}

// XC <code> <reason spec>: Conn.WriteClose
func execXC(e *lp.Exec, rc *recvCase, f []string) {
	code := atoi(f[1])
	reason := parseSpec(f[2])
	ep := rc.e
	ep.reset()
	ec := errCode(ep.ws.WriteClose(code, string(reason)))
	e.P("> XC %s %s keys=%s", f[1], f[2], keysOf(ep.writes))
	e.P("XC cerr=%d cw=%s", ec, actsStr(ep.acts)) // fields of C15 only: the send-side limit is C15's clause
	controlSendOracle(e, ep, fmt.Sprintf("WriteClose(%d, %d byte reason)", code, len(reason)))
	if 2+len(reason) > 125 && (ec == 0 || len(ep.writes) > 0) {
		e.Oracle("c15-limit", "class=control-send WriteClose with a %d byte reason (payload %d) err=%d writes=%d", len(reason), 2+len(reason), ec, len(ep.writes))
	}
	fmt.Fprintf(&rc.key, "XC%d:%d,", lenClass(len(reason)), ec)
}

// XF <opcode> <sendOpcode 0|1> <fin 0|1> <spec>: Conn.WriteFrame
func execXF(e *lp.Exec, rc *recvCase, f []string) {
	op := atoi(f[1])
	data := parseSpec(f[4])
	ep := rc.e
	ep.reset()
	ec := errCode(ep.ws.WriteFrame(websocket.MessageType(op), f[2] == "1", f[3] == "1", data))
	e.P("> XF %s %s %s %s keys=%s", f[1], f[2], f[3], f[4], keysOf(ep.writes))
	e.P("XF cerr=%d cw=%s", ec, actsStr(ep.acts)) // fields of C15 only: the send-side limit is C15's clause
	controlSendOracle(e, ep, fmt.Sprintf("WriteFrame(op=%d, %d bytes)", op, len(data)))
	fmt.Fprintf(&rc.key, "XF%d:%d:%d,", op, lenClass(len(data)), ec)
}

func implOutcome(rc *recvCase) string {
	switch {
	case rc.err != 0:
		return "err" + strconv.Itoa(rc.err)
	case rc.e.closed:
		return "closed"
	}
	return "ok"
}

func stripCloses(evs []string) []string {
	var out []string
	for _, x := range evs {
		if !strings.HasPrefix(x, "close:") {
			out = append(out, x)
		}
	}
	return out
}

// failureCode: the status of a close reply that does not signal a failure (0 = none such): a code outside the failure
// codes, or no code at all (an empty or one-byte body: 1005 "no status", what a normal close without status is answered with)
func failureCode(writes [][]byte) int {
	for _, w := range writes {
		for _, f := range refDecode(w) {
			if f.op != 8 {
				continue
			}
			if len(f.payload) < 2 {
				return 1005
			}
			switch c := int(binary.BigEndian.Uint16(f.payload)); c {
			case 1002, 1003, 1007, 1008, 1009, 1010, 1011:
			default:
				return c
			}
		}
	}
	return 0
}

func eq(a, b []string) bool { return strings.Join(a, ";") == strings.Join(b, ";") }

// checkTwin compares the implementation's behaviour on the case with an RFC verdict.
func checkTwin(e *lp.Exec, rc *recvCase, tw twinResult, label string) {
	out := implOutcome(rc)
	bad := ""
	switch {
	case tw.verdict == "accept":
		if out != "ok" && tw.may == "" {
			bad = "failed a sequence the RFC allows"
		} else if out == "ok" && !eq(rc.evs, tw.exp) {
			bad = "events differ"
		} else if out != "ok" && !eq(stripCloses(rc.evs), tw.exp) {
			bad = "events differ before the early failure"
		}
	case tw.verdict == "closed":
		if out == "ok" {
			bad = "close frame not answered by closing"
		} else if !eq(rc.evs, tw.exp) {
			bad = "events differ"
		}
	default: // reject
		if out == "ok" {
			bad = "did not fail the connection"
		} else if !eq(stripCloses(rc.evs), stripCloses(tw.exp)) {
			bad = "events differ before the failure"
		} else if c := failureCode(rc.writes); c != 0 {
			bad = fmt.Sprintf("failure answered like a normal close (reply code %d)", c)
			out = "echo"
		}
	}
	if bad != "" {
		e.Oracle("c13-accept", "class=%s->%s %s: %s at=%d may=%s exp=%s got=%s", tw.verdict, out, label, bad, tw.at, tw.may,
			actsStr(tw.exp), actsStr(rc.evs))
	}
	if tw.verdict == "reject:too-big" || tw.verdict == "reject:ctl-len" {
		if out == "ok" {
			e.Oracle("c15-limit", "class=%s->ok oversized input accepted at=%d", tw.verdict, tw.at)
		} else if !has1009(rc.writes) && rc.err != 2 && rc.err != 0 && !rc.e.closed {
			e.Oracle("c15-limit", "class=no-1009 %s refused with %s but no close frame with code 1009", tw.verdict, out)
		}
	}
}

func execE(e *lp.Exec, rc *recvCase) {
	fs := refDecode(rc.all)
	g := twinCfg{server: !rc.g.client, compress: rc.g.compress, limit: rc.g.limit}
	strict := rfcTwin(g, fs, true)
	lenient := rfcTwin(g, fs, false)
	e.P("> E tinfl=%s", strings.Join(lenient.infl, "|"))
	may := lenient.may
	if may == "" {
		may = "-"
	}
	e.P("E rfc=%s@%d len=%s@%d may=%s exp=%s", strict.verdict, strict.at, lenient.verdict, lenient.at, may, actsStr(lenient.exp))
	if rc.g.handoff && (lenient.verdict == "accept" || lenient.verdict == "closed") && lenient.may == "" {
		// C12 through the upgrade hand-off: what the server sent behind its 101 response is what the client delivers
		var want, got []string
		for _, x := range lenient.exp {
			if strings.HasPrefix(x, "deliver:") {
				want = append(want, x)
			}
		}
		for _, x := range rc.evs {
			if strings.HasPrefix(x, "deliver:") {
				got = append(got, x)
			}
		}
		if !eq(want, got) {
			e.Oracle("c12-roundtrip", "class=handoff messages sent behind the 101 response %s, delivered %s (err=%d)", actsStr(want), actsStr(got), rc.err)
		}
	}
	e.Count("twin", lenient.verdict)
	if rc.err == 2 { // read limit: segmentation dependent by design, outside the RFC predicate
		return
	}
	if strict.verdict == "reject:mask" {
		checkTwin(e, rc, strict, "strict")
	}
	checkTwin(e, rc, lenient, "lenient")
	fmt.Fprintf(&rc.key, "E%s", lenient.verdict)
}

// ---------------------------------------------------------------- round trip

type rtCase struct {
	runEach bool // queued executor: run the queue after each Parse call (else after all segments of the op)
	c, s    *endpoint
	g, gc   wsCfg // configuration of s and c (a second pair of conns of the `I` op is built from them)
	second  string // pending `I` op: where the second pair gets its turn ("i" inside the inflate, "d" inside the deflate)
	limit  int
	style  string
	rng    *rand.Rand
	key    strings.Builder
	nt     bool
	closed bool
}

func newRT(f []string) *rtCase {
	comp := field(f, "compress") == "1"
	g := wsCfg{compress: comp, level: atoi(field(f, "level")), limit: atoi(field(f, "limit")), mf: atoi(field(f, "maxframe"))}
	gc := g
	gc.client = true
	// sendq=<n> from=c|s: the sending side writes asynchronously through a bounded send queue, its conn is gated during a batch
	if n := atoi(field(f, "sendq")); n > 0 {
		if field(f, "from") == "s" {
			g.sendq = n
		} else {
			gc.sendq = n
		}
	}
	r := &rtCase{c: newEndpoint(gc), s: newEndpoint(g), g: g, gc: gc, limit: g.limit, style: field(f, "seg"),
		rng: rand.New(rand.NewSource(int64(atoi(field(f, "seed")))))}
	if field(f, "exec") == "queued" {
		r.c.queued, r.s.queued = true, true
		r.runEach = field(f, "run") == "each"
	}
	if field(f, "rel") == "1" {
		r.c.ws.VerifSetReleasePayload(true)
		r.s.ws.VerifSetReleasePayload(true)
	}
	fmt.Fprintf(&r.key, "rt/%v/%d/%v/%s|", comp, g.level, g.limit > 0, r.style)
	return r
}

// hndCase: the size limits under the handler configurations the model does not describe (data-frame handler only, both
// handlers).  Judged by direct oracles on the implementation alone; the result line is a constant.
//
//	C hnd handlers=m|f|mf role=server|client limit=L
//	F <spec>      bytes of one Parse call (the generator writes complete single-frame messages and pings, cut anywhere)
type hndCase struct {
	g    wsCfg
	ep   *endpoint
	all  []byte
	dead bool
	key  strings.Builder
}

func (h *hndCase) execF(e *lp.Exec, lg *capLogger, f []string) {
	seg := parseSpec(f[1])
	e.P("> %s", strings.Join(f, " "))
	e.P("F -")
	if h.dead || len(seg) == 0 {
		return
	}
	ep, L := h.ep, h.g.limit
	ep.reset()
	ec := errCode(guard(e, strings.Join(f, " "), func() error { return ep.ws.Parse(append([]byte{}, seg...)) }))
	ep.runJobs()
	h.all = append(h.all, seg...)
	if lg.panics > 0 {
		e.Oracle("c15-limit", "class=panic handlers=%s Parse recovered from a panic", h.g.handlers)
		lg.panics = 0
	}
	cache, ml := ep.ws.VerifCacheLen(), ep.ws.VerifMessageLen()
	fmt.Fprintf(&h.key, "%d:%d:%d:%v,", ec, len(ep.frames), len(ep.delivered), cache > 0)
	e.Key("hnd/"+h.g.handlers+"/"+h.key.String(), true)
	if L > 0 {
		for _, n := range ep.frames {
			if n > L {
				e.Oracle("c15-limit", "class=delivered-over-limit handlers=%s a data frame of %d bytes was handed to the data-frame handler (limit %d)", h.g.handlers, n, L)
			}
		}
		for _, d := range ep.delivered {
			if len(d) > L {
				e.Oracle("c15-limit", "class=delivered-over-limit handlers=%s delivered=%d limit=%d", h.g.handlers, len(d), L)
			}
		}
		if ml > L {
			e.Oracle("c15-limit", "class=buffered-over-limit handlers=%s msglen=%d limit=%d", h.g.handlers, ml, L)
		}
		if room := L - ml; ec == 0 && !ep.closed {
			if room < 125 {
				room = 125
			}
			if cache >= 14+room {
				e.Oracle("c15-limit", "class=buffered-over-limit handlers=%s unparsed cache=%d with limit=%d and %d bytes assembled (an oversize frame is being buffered)", h.g.handlers, cache, L, ml)
			}
		}
		// the first data frame whose header announces more than the limit (messages are single frames here) is refused
		// when its header is complete, with the too-large error and a 1009 close frame
		for _, fr := range refDecode(h.all) {
			if fr.op <= 2 && fr.declared > uint64(L) {
				if ec == 0 && !ep.closed {
					e.Oracle("c15-limit", "class=reject:too-big->ok handlers=%s a data frame announcing %d bytes (limit %d) was not refused", h.g.handlers, fr.declared, L)
				} else if ec == 4 && !ep.closed && !has1009(ep.writes) { // (a conn already closed by a handler cannot be written to)
					e.Oracle("c15-limit", "class=no-1009 handlers=%s oversize frame refused but no close frame with code 1009", h.g.handlers)
				}
				break
			}
		}
	}
	// C13 in every handler configuration, one direction only (what a data-frame-only conn leaves unchecked — text validity,
	// the sum of the fragments against the limit — is not judged here): a sequence the RFC allows is not failed.  Lenient
	// twin (masking direction: known finding), no message limit in the twin when nothing is assembled.
	tl := L
	if h.g.handlers == "f" {
		tl = 0
	}
	if tw := rfcTwin(twinCfg{server: !h.g.client, limit: tl}, refDecode(h.all), false); tw.verdict == "accept" && tw.may == "" && (ec != 0 || ep.closed) {
		big := false
		for _, fr := range refDecode(h.all) {
			if L > 0 && fr.op <= 2 && fr.declared > uint64(L) {
				big = true
			}
		}
		if !big {
			e.Oracle("c13-accept", "class=accept->err%d handlers=%s failed a sequence the RFC allows (%d frames so far)", ec, h.g.handlers, len(refDecode(h.all)))
		}
	}
	if ec != 0 || ep.closed {
		h.dead = true
	}
}

func (r *rtCase) cuts(n int) []int {
	var out []int
	for n > 0 {
		k := n
		switch r.style {
		case "one":
			k = 1
		case "whole":
		case "small":
			k = 1 + r.rng.Intn(7)
		case "hdr": // cut inside headers: tiny pieces then a big one
			if r.rng.Intn(2) == 0 {
				k = 1 + r.rng.Intn(3)
			} else {
				k = 1 + r.rng.Intn(n)
			}
		default: // rand
			k = 1 + r.rng.Intn(n)
		}
		if k > n {
			k = n
		}
		if n > 4096 && k < 64 { // keep huge wires affordable
			k = 64 + r.rng.Intn(n)
			if k > n {
				k = n
			}
		}
		out = append(out, k)
		n -= k
	}
	return out
}

// keysOf: the mask keys of the frames in a list of conn writes (tolerant of malformed frames: it stops there)
func keysOf(writes [][]byte) string {
	var ks []string
	for _, w := range writes {
		b := w
		for len(b) >= 2 {
			hl := 2
			n := uint64(b[1] & 0x7f)
			if n == 126 {
				if len(b) < 4 {
					break
				}
				n = uint64(binary.BigEndian.Uint16(b[2:4]))
				hl = 4
			} else if n == 127 {
				if len(b) < 10 {
					break
				}
				n = binary.BigEndian.Uint64(b[2:10])
				hl = 10
			}
			if b[1]&0x80 != 0 {
				if len(b) < hl+4 {
					break
				}
				ks = append(ks, lp.Hex(b[hl:hl+4]))
				hl += 4
			}
			if n > uint64(len(b)-hl) {
				break
			}
			b = b[hl+int(n):]
		}
	}
	return strings.Join(ks, ",")
}

func typeOf(s string) int {
	switch s {
	case "text":
		return 1
	case "binary":
		return 2
	case "close":
		return 8
	case "ping":
		return 9
	case "pong":
		return 10
	}
	return atoi(s)
}

// secondPair: another pair of conns of the same engine configuration round-trips one message (the payload twice: a different
// message, valid text if the first is) from write to delivery, at the moment it is called.  Connections are independent:
// C12 holds for this pair whatever the other pair is in the middle of (implementation alone).
func (r *rtCase) secondPair(e *lp.Exec, fromClient bool, mt int, data []byte, where string) {
	if mt != 1 && mt != 2 {
		return
	}
	d2 := append(append([]byte{}, data...), data...)
	if (r.limit > 0 && len(d2)+16 > r.limit) || (mt == 1 && !utf8.Valid(d2)) {
		return
	}
	c2, s2 := newEndpoint(r.gc), newEndpoint(r.g)
	snd, rcv := c2, s2
	if !fromClient {
		snd, rcv = s2, c2
	}
	werr := errCode(snd.ws.WriteMessage(websocket.MessageType(mt), d2))
	rerr := errCode(rcv.ws.Parse(bytes.Join(snd.writes, nil)))
	rcv.runJobs()
	if werr != 0 || rerr != 0 || len(rcv.delivered) != 1 || rcv.dtypes[0] != mt || !bytes.Equal(rcv.delivered[0], d2) {
		got := "-"
		if len(rcv.delivered) > 0 {
			got = short(rcv.delivered[0])
		}
		e.Oracle("c12-roundtrip", "class=lost-or-changed second connection (its turn came inside the %s of the first one's message): type=%d sent %s werr=%d rerr=%d delivered=%d %s",
			map[string]string{"i": "inflate", "d": "deflate", "": "-"}[where], mt, short(d2), werr, rerr, len(rcv.delivered), got)
	}
}

// poolOracle: pool discipline of the per-message codec, on the implementation alone: an inflater or deflater is put back
// once per use — one that sits in its pool twice is handed to two connections, whose messages then mix (C12 across
// connections; the `I` ops show the effect, this shows the cause after any compressed message)
func poolOracle(e *lp.Exec, compress bool) {
	if !compress {
		return
	}
	if rd, wr := websocket.VerifPoolDups(16); rd+wr > 0 {
		e.Oracle("c12-roundtrip", "class=codec-pool an object was put back more than once: %d duplicate(s) among the pooled inflaters, %d among the deflaters", rd, wr)
	}
}

func (r *rtCase) execW(e *lp.Exec, lg *capLogger, f []string) {
	snd, rcv := r.c, r.s
	if f[1] == "s" {
		snd, rcv = r.s, r.c
	}
	mt := typeOf(f[2])
	data := parseSpec(f[3])
	snd.reset()
	rcv.reset()
	// `I` op: a second pair of conns round-trips a message of its own while this one is in the middle of its message
	where, ran := r.second, false
	r.second = ""
	turn := func() {
		if !ran {
			ran = true
			r.secondPair(e, f[1] != "s", mt, data, where)
		}
	}
	switch where {
	case "d":
		snd.onDeflate = turn
	case "i":
		rcv.onInflate = turn
	}
	werr := errCode(snd.ws.WriteMessage(websocket.MessageType(mt), data))
	snd.onDeflate = nil
	wire := bytes.Join(snd.writes, nil)
	keys, defl := keysOf(snd.writes), snd.deflAnn()
	cuts := r.cuts(len(wire))
	var cs []string
	rerr := 0
	rest := wire
	for _, k := range cuts {
		cs = append(cs, strconv.Itoa(k))
		if rerr == 0 {
			seg := append([]byte{}, rest[:k]...)
			rerr = errCode(guard(e, strings.Join(f, " "), func() error { return rcv.ws.Parse(seg) }))
			if r.runEach {
				rcv.runJobs()
			}
		}
		rest = rest[k:]
	}
	rcv.runJobs()
	rcv.onInflate = nil
	if where != "" {
		if ran {
			e.Count("second_pair", "inside-"+where)
		} else {
			e.Count("second_pair", "after") // no codec call on this message (not compressed, refused): the pair runs afterwards
			turn()
		}
	}
	racts, rwrites := rcv.acts, rcv.writes
	back := bytes.Join(rwrites, nil)
	bkeys := keysOf(rwrites)
	snd.acts = nil
	nw := len(snd.writes)
	berr := 0
	if len(back) > 0 {
		berr = errCode(snd.ws.Parse(append([]byte{}, back...)))
		snd.runJobs()
	}
	if where != "" {
		e.P("> I %s %s %s %s keys=%s defl=%s cuts=%s infl=%s bkeys=%s rkeys=%s", f[1], f[2], f[3], where, keys, defl, strings.Join(cs, ","), rcv.inflAnn(), bkeys, keysOf(snd.writes[nw:]))
	} else {
		e.P("> W %s %s %s keys=%s defl=%s cuts=%s infl=%s bkeys=%s rkeys=%s", f[1], f[2], f[3], keys, defl, strings.Join(cs, ","), rcv.inflAnn(), bkeys, keysOf(snd.writes[nw:]))
	}
	// codec: for a compressed data message, "inflate (deflate x) = x" on what compress/flate really produced
	// (the model computes it from the observed tables; here it is the constant the law demands)
	codec := "-"
	if (mt == 1 || mt == 2) && len(snd.defl) > 0 && werr == 0 && len(rcv.infl) > 0 {
		codec = "ok"
		if r.limit > 0 && len(data) > r.limit {
			codec = "big"
		}
	}
	e.P("W werr=%d wire=%s recv=%s rerr=%d back=%s berr=%d rcache=%d rmsglen=%d codec=%s", werr, short(wire), actsStr(racts), rerr, actsStr(snd.acts), berr,
		rcv.ws.VerifCacheLen(), rcv.ws.VerifMessageLen(), codec)
	if lg.panics > 0 {
		e.Oracle("c12-roundtrip", "class=panic Parse recovered from a panic")
		lg.panics = 0
	}
	poolOracle(e, r.g.compress)
	fmt.Fprintf(&r.key, "%d:%d:%d:%d:%d,", mt, lenClass(len(data)), werr, rerr, len(rcv.delivered))
	r.nt = true
	e.Count("rt_ops", f[2])
	// c12-roundtrip: received == sent (type, payload, exactly once, nothing else)
	if mt == 1 || mt == 2 {
		// deliverable: valid text or binary, within the receiver's limit both as written (deflated) and as delivered
		deliverable := !r.closed && (mt == 2 || utf8.Valid(data)) && (r.limit == 0 || len(data) <= r.limit) &&
			(r.limit == 0 || len(snd.defl) == 0 || len(snd.defl[0]) <= r.limit)
		boundary := false
		got := len(rcv.delivered)
		switch {
		case deliverable && (werr != 0 || got != 1 || rcv.dtypes[0] != mt || !bytes.Equal(rcv.delivered[0], data)):
			e.Oracle("c12-roundtrip", "class=lost-or-changed type=%d len=%d werr=%d rerr=%d delivered=%d %s", mt, len(data), werr, rerr, got, actsStr(racts))
		case !deliverable && !boundary && got != 0:
			e.Oracle("c12-roundtrip", "class=unexpected-delivery type=%d len=%d delivered=%d", mt, len(data), got)
		}
		if r.limit > 0 {
			for _, d := range rcv.delivered {
				if len(d) > r.limit {
					e.Oracle("c15-limit", "class=delivered-over-limit delivered=%d limit=%d (round trip)", len(d), r.limit)
				}
			}
		}
	} else if len(rcv.delivered) != 0 {
		e.Oracle("c12-roundtrip", "class=unexpected-delivery control message type=%d delivered=%d", mt, len(rcv.delivered))
	}
	if mt == 9 && !r.closed && werr == 0 {
		evs := events(racts, rwrites)
		if len(evs) != 1 || evs[0] != "pong:"+short(data) {
			e.Oracle("c13-accept", "class=ping-pong ping %s answered by %s", short(data), actsStr(evs))
		}
	}
	if mt >= 8 && len(data) > 125 && (werr != 5 || len(wire) > 0) {
		e.Oracle("c15-limit", "class=control-send WriteMessage(op=%d, %d bytes) err=%d wire=%d", mt, len(data), werr, len(wire))
	}
	if r.c.closed || r.s.closed || rerr != 0 || berr != 0 {
		// engine glue: a Parse error or a closed conn tears down both ends
		r.closed = true
		r.c.closed, r.s.closed = true, true
	}
}

// execB: a batch of messages written back to back by one side; the receiver parses all their bytes (segmented) and, with
// the queued executor, may run the message callbacks only afterwards: C12 asks for the same payloads all the same.
//
//	B c|s <type>/<spec>;<type>/<spec>;...
func (r *rtCase) execB(e *lp.Exec, lg *capLogger, f []string) {
	snd, rcv := r.c, r.s
	if f[1] == "s" {
		snd, rcv = r.s, r.c
	}
	snd.reset()
	rcv.reset()
	type msg struct {
		mt   int
		data []byte
	}
	var msgs []msg
	werr := 0
	async := snd.ws.IsAsyncWrite()
	if async { // a slow peer: nothing leaves the conn while the batch is written, the send queue backs up
		snd.fc.mu.Lock()
		snd.fc.gate = make(chan struct{})
		snd.fc.mu.Unlock()
	}
	var werrs []string
	var refused []bool
	for _, m := range strings.Split(f[2], ";") {
		p := strings.SplitN(m, "/", 2)
		if len(p) != 2 {
			continue
		}
		mm := msg{typeOf(p[0]), parseSpec(p[1])}
		msgs = append(msgs, mm)
		ec := errCode(snd.ws.WriteMessage(websocket.MessageType(mm.mt), mm.data))
		if ec != 0 && werr == 0 {
			werr = ec
		}
		werrs = append(werrs, strconv.Itoa(ec))
		refused = append(refused, ec != 0)
	}
	if async {
		snd.fc.mu.Lock()
		close(snd.fc.gate)
		snd.fc.gate = nil
		snd.fc.mu.Unlock()
		for t0 := time.Now(); snd.ws.VerifSendQueueLen() > 0 && time.Since(t0) < 3*time.Second; {
			time.Sleep(200 * time.Microsecond)
		}
		time.Sleep(300 * time.Microsecond)
		snd.fc.mu.Lock()
	}
	wire := bytes.Join(snd.writes, nil)
	if async {
		snd.fc.mu.Unlock()
	}
	keys, defl := keysOf(snd.writes), snd.deflAnn()
	cuts := r.cuts(len(wire))
	var cs []string
	rerr := 0
	rest := wire
	for _, k := range cuts {
		cs = append(cs, strconv.Itoa(k))
		if rerr == 0 {
			seg := append([]byte{}, rest[:k]...)
			rerr = errCode(guard(e, "B "+f[1]+" "+f[2], func() error { return rcv.ws.Parse(seg) }))
			if r.runEach {
				rcv.runJobs()
			}
		}
		rest = rest[k:]
	}
	rcv.runJobs()
	racts, rwrites := rcv.acts, rcv.writes
	back := bytes.Join(rwrites, nil)
	bkeys := keysOf(rwrites)
	snd.acts = nil
	nw := len(snd.writes)
	berr := 0
	if len(back) > 0 {
		berr = errCode(snd.ws.Parse(append([]byte{}, back...)))
		snd.runJobs()
	}
	e.P("> B %s %s keys=%s defl=%s cuts=%s infl=%s bkeys=%s rkeys=%s", f[1], f[2], keys, defl, strings.Join(cs, ","), rcv.inflAnn(), bkeys, keysOf(snd.writes[nw:]))
	e.P("B werr=%d werrs=%s wire=%s recv=%s rerr=%d back=%s berr=%d rcache=%d rmsglen=%d", werr, strings.Join(werrs, ","), short(wire), actsStr(racts), rerr, actsStr(snd.acts), berr,
		rcv.ws.VerifCacheLen(), rcv.ws.VerifMessageLen())
	if lg.panics > 0 {
		e.Oracle("c12-roundtrip", "class=panic Parse recovered from a panic")
		lg.panics = 0
	}
	poolOracle(e, r.g.compress)
	fmt.Fprintf(&r.key, "B%d:%d:%d:%d,", len(msgs), werr, rerr, len(rcv.delivered))
	r.nt = true
	e.Count("rt_ops", "batch")
	if async { // distribution of the send-queue batches: how many met a full queue
		nref := 0
		for _, x := range refused {
			if x {
				nref++
			}
		}
		switch {
		case nref == 0:
			e.Count("sendq", "all-accepted")
		case nref == len(refused):
			e.Count("sendq", "all-refused")
		default:
			e.Count("sendq", "some-refused")
		}
	}
	// c12-roundtrip on the batch: the data messages, in order, each exactly once, type and payload unchanged
	queueOnly := true // the only refusals are "send queue full": then the accepted messages must arrive, the refused ones not
	for i := range msgs {
		if refused[i] && werrs[i] != "14" {
			queueOnly = false
		}
	}
	if !r.closed && (werr == 0 || (async && queueOnly)) {
		var want []msg
		ok := true
		for i, m := range msgs {
			if refused[i] {
				continue // every message whose WriteMessage returned an error delivers nothing and leaves the stream intact
			}
			if m.mt == 1 || m.mt == 2 {
				want = append(want, m)
				if (m.mt == 1 && !utf8.Valid(m.data)) || (r.limit > 0 && len(m.data) > r.limit) {
					ok = false
				}
			} else if m.mt == 8 {
				ok = false
			}
		}
		if ok && rerr == 0 && len(refused) > 0 && (rcv.ws.VerifCacheLen() != 0 || rcv.ws.VerifMessageLen() != 0) {
			// whole messages only were accepted: the receiver cannot be left in the middle of a frame or of a message
			for i := range refused {
				if refused[i] {
					e.Oracle("c12-roundtrip", "class=stream-broken message %d of the batch was refused (err=%s) but part of it went out: the receiver is left inside a message (cache=%d msglen=%d)",
						i, werrs[i], rcv.ws.VerifCacheLen(), rcv.ws.VerifMessageLen())
					break
				}
			}
		}
		if ok {
			if len(rcv.delivered) != len(want) {
				e.Oracle("c12-roundtrip", "class=lost-or-changed batch of %d data messages, %d delivered (rerr=%d)", len(want), len(rcv.delivered), rerr)
			} else {
				for i, m := range want {
					if rcv.dtypes[i] != m.mt || !bytes.Equal(rcv.delivered[i], m.data) {
						e.Oracle("c12-roundtrip", "class=lost-or-changed message %d of the batch: sent type=%d %s, delivered type=%d %s (payload changed)", i, m.mt, short(m.data), rcv.dtypes[i], short(rcv.delivered[i]))
						break
					}
				}
			}
		}
	}
	if r.c.closed || r.s.closed || rerr != 0 || berr != 0 {
		r.closed = true
		r.c.closed, r.s.closed = true, true
	}
}

func lenClass(n int) int {
	switch {
	case n == 0:
		return 0
	case n < 126:
		return 1
	case n < 65536:
		return 2
	}
	return 3
}

// tracker: with `exec -track` every endpoint takes its buffers from the tracking allocator of harness/internal/track
// (C11: double free, use after free, foreign free; oracles c11-*); without the flag the production pool is used.
var tracker *track.Tracker

// genSeed: the -seed argument of `gen` (seed*1000 + shard index; used to split exhaustive sweeps over the shards)
var genSeed int64 = 1

func main() {
	for i, a := range os.Args {
		if a == "-track" {
			tracker = track.New().Install()
		}
		if a == "-seed" && i+1 < len(os.Args) {
			genSeed, _ = strconv.ParseInt(os.Args[i+1], 10, 64)
		}
	}
	if len(os.Args) > 1 && os.Args[1] == "facts" {
		facts()
		return
	}
	lp.Main(gen, exec)
}
