package main

// Reference side of hws: an independent frame decoder and the RFC 6455 acceptance predicate
// (Go twin of lean/NbioVerif/Model/Rfc6455.lean; the two are compared on every case through the E line).

import (
	"bytes"
	"compress/flate"
	"encoding/binary"
	"fmt"
	"io"
	"strings"
	"unicode/utf8"

	"harness/internal/lp"
)

type rframe struct {
	fin, r1, r2, r3, masked bool
	op                      int
	topbit                  bool   // 64-bit length with the most significant bit set
	declared                uint64 // declared payload length
	payload                 []byte // unmasked payload (complete frames only)
	partial                 bool   // header complete, payload not (last frame of the stream only)
}

// refDecode splits a byte stream into frames; a trailing incomplete header is dropped, a trailing
// frame with a complete header but incomplete payload is returned with partial=true.
func refDecode(b []byte) []rframe {
	var out []rframe
	for len(b) >= 2 {
		f := rframe{fin: b[0]&0x80 != 0, r1: b[0]&0x40 != 0, r2: b[0]&0x20 != 0, r3: b[0]&0x10 != 0,
			op: int(b[0] & 0xF), masked: b[1]&0x80 != 0}
		hl := 2
		switch b[1] & 0x7F {
		case 126:
			if len(b) < 4 {
				return out
			}
			f.declared = uint64(binary.BigEndian.Uint16(b[2:4]))
			hl = 4
		case 127:
			if len(b) < 10 {
				return out
			}
			f.declared = binary.BigEndian.Uint64(b[2:10])
			hl = 10
			if f.declared>>63 != 0 {
				f.topbit = true
				f.partial = true
				return append(out, f)
			}
		default:
			f.declared = uint64(b[1] & 0x7F)
		}
		if f.masked {
			hl += 4
		}
		if uint64(len(b)) < uint64(hl)+f.declared {
			f.partial = true
			return append(out, f)
		}
		f.payload = append([]byte{}, b[hl:hl+int(f.declared)]...)
		if f.masked {
			key := b[hl-4 : hl]
			for i := range f.payload {
				f.payload[i] ^= key[i%4]
			}
		}
		out = append(out, f)
		b = b[hl+int(f.declared):]
	}
	return out
}

func validCloseCodeRFC(c int) bool {
	// RFC 6455 7.4.1/7.4.2: 1000-1003, 1007-1011 defined and sendable; 1004 reserved; 1005, 1006, 1015 must not
	// appear on the wire; 1012-1014 and 1016-2999 undefined here; 3000-4999 registered/private.
	return (1000 <= c && c <= 1003) || (1007 <= c && c <= 1011) || (3000 <= c && c <= 4999)
}

type twinCfg struct {
	server   bool // role of the receiving endpoint
	compress bool
	limit    int
}

type twinResult struct {
	verdict string   // accept | closed | reject:<reason>
	at      int      // index of the deciding frame (-1: none)
	exp     []string // expected observable events: deliver:T:short, pong:short, close:short
	may     string   // a header-level violation in a trailing partial frame: failing early is allowed
	infl    []string // inflate results the twin used (annotation of the E line)
}

// inflate: per-message deflate as specified by RFC 7692 7.2.2 (append 00 00 ff ff, inflate), independent of nbio
func twinInflate(msg []byte, limit int) (out []byte, ok bool, big bool) {
	r := flate.NewReader(io.MultiReader(bytes.NewReader(msg), strings.NewReader("\x00\x00\xff\xff\x01\x00\x00\xff\xff")))
	var buf bytes.Buffer
	max := int64(1 << 30)
	if limit > 0 {
		max = int64(limit) + 1
	}
	_, err := io.Copy(&buf, io.LimitReader(r, max))
	if limit > 0 && buf.Len() > limit {
		return nil, true, true
	}
	return buf.Bytes(), err == nil, false
}

// rfcTwin: what RFC 6455 (+ RFC 7692 for RSV1, + the configured message limit) prescribes for a frame sequence.
func rfcTwin(g twinCfg, fs []rframe, strict bool) twinResult {
	r := twinResult{verdict: "accept", at: -1}
	inMsg := false
	var typ int
	var comp bool
	var acc []byte
	hdr := func(f rframe) string {
		switch {
		case f.topbit:
			return "len63"
		case f.r2 || f.r3:
			return "rsv"
		case f.r1 && !(g.compress && (f.op == 1 || f.op == 2)):
			return "rsv"
		case (f.op > 2 && f.op < 8) || f.op > 10:
			return "opcode"
		case strict && f.masked != g.server:
			return "mask"
		case f.op >= 8 && !f.fin:
			return "ctl-frag"
		case f.op >= 8 && f.declared > 125:
			return "ctl-len"
		case f.op == 0 && !inMsg:
			return "cont-nostart"
		case (f.op == 1 || f.op == 2) && inMsg:
			return "data-in-frag"
		case f.op <= 2 && g.limit > 0 && uint64(len(acc))+f.declared > uint64(g.limit):
			return "too-big"
		}
		return ""
	}
	for i, f := range fs {
		if why := hdr(f); why != "" {
			if f.partial && !f.topbit && why != "ctl-len" && why != "too-big" {
				r.may = why
				return r
			}
			r.verdict, r.at = "reject:"+why, i
			return r
		}
		if f.partial {
			return r
		}
		switch f.op {
		case 9:
			r.exp = append(r.exp, "pong:"+short(f.payload))
		case 10:
		case 8:
			r.at = i
			p := f.payload
			switch {
			case len(p) == 0:
				r.verdict = "closed"
				r.exp = append(r.exp, "close:"+short(nil))
			case len(p) == 1:
				r.verdict = "reject:close-len"
			case !validCloseCodeRFC(int(binary.BigEndian.Uint16(p))):
				r.verdict = "reject:close-code"
			case !utf8.Valid(p[2:]):
				r.verdict = "reject:close-utf8"
			default:
				r.verdict = "closed"
				r.exp = append(r.exp, "close:"+short(p))
			}
			return r
		default:
			if f.op != 0 {
				inMsg, typ, comp, acc = true, f.op, f.r1, nil
			}
			acc = append(acc, f.payload...)
			if !f.fin {
				continue
			}
			msg := acc
			if comp {
				out, ok, big := twinInflate(acc, g.limit)
				st := "ok"
				if big {
					st = "big"
				} else if !ok {
					st = "err"
				}
				r.infl = append(r.infl, fmt.Sprintf("%d/%s/%s", lp.Fnv(acc), st, specOf(out)))
				if big {
					r.verdict, r.at = "reject:too-big", i
					return r
				}
				if !ok {
					r.verdict, r.at = "reject:inflate", i
					return r
				}
				msg = out
			}
			if typ == 1 && !utf8.Valid(msg) {
				r.verdict, r.at = "reject:utf8", i
				return r
			}
			r.exp = append(r.exp, fmt.Sprintf("deliver:%d:%s", typ, short(msg)))
			inMsg, acc = false, nil
		}
	}
	return r
}

func short(b []byte) string {
	if len(b) == 0 {
		return "-"
	}
	if len(b) <= 48 {
		return lp.Hex(b)
	}
	return fmt.Sprintf("#%d:%d", len(b), lp.Fnv(b))
}
