package main

// websocket.Conn, ownership side of C11 (nbhttp/websocket/conn.go: Parse's bytesCached / message / frame /
// protocolMessage / inflate buffer, writeFrame direct and through the async send queue, CloseAndClean).
// Real websocket.Conn objects (public NewServerConn / NewClientConn) over a gated recording conn; the tracking
// allocator is the Engine's BodyAllocator and mempool.DefaultMemPool.
//
//	C ws client=<0|1> async=<0|1> qmax=<n> rp=<0|1> blk=<0|1> df=<0|1> bad=<offset of the invalid frame|-1> fail=<k> rc=<0|1> qx=<0|1>
//	                 qx=1: the executor only QUEUES the handler jobs (a conn served by a poller); J runs them, oldest first
//	D <hex>          Parse(segment)
//	S <opcode> <n>   WriteMessage(opcode, n pattern bytes)
//	G <ok|err>       async: let the conn write that is in flight finish (ok / with an error); the sender goroutine
//	                 then frees the frame and takes the next one (which blocks at the gate again) or exits
//	J                the executor runs the queued handler jobs
//	X                CloseAndClean (what the engine runs when the connection closes)
//
//	R <ok|err|closed> cache=<n> msg=<n> dl=<delivered payload sizes> tr=<events>      (D)
//	S err=<..> q=<send queue slots: id or - > fl=<in flight 0|1> tr=<events>        (S, G, X)

import (
	"bytes"
	"errors"
	"fmt"
	"net"
	"strconv"
	"strings"
	"sync"
	"time"

	"harness/internal/lp"
	"harness/internal/track"

	"github.com/lesismal/nbio/nbhttp"
	"github.com/lesismal/nbio/nbhttp/websocket"
)

// gateConn: a recording conn whose Write can be held in flight.
type gateConn struct {
	T        *track.Tracker
	mu       sync.Mutex
	gated    bool
	pending  []byte     // the slice of the write in flight (nil if none)
	release  chan error // one token per released write
	arrivals int        // writes that have reached the gate
	writes   int
	failAt   int
	closed   bool
	out      [][]byte // copy of every write, taken when the write arrives
}

func (c *gateConn) Read(b []byte) (int, error) { return 0, errors.New("no reads") }
func (c *gateConn) Write(b []byte) (int, error) {
	if c.gated {
		// the sender goroutine runs concurrently with the harness: the verdict is taken now, the trace event is
		// logged by the harness when it sees the write at the gate (so its position in the trace is canonical)
		c.T.CheckSlice(b, "conn.Write")
	} else {
		c.T.NoteWrite(b)
	}
	c.mu.Lock()
	c.writes++
	c.out = append(c.out, append([]byte(nil), b...))
	n := c.writes
	gated := c.gated
	if gated {
		c.pending = b
		c.arrivals++
	}
	c.mu.Unlock()
	if gated {
		err := <-c.release
		// the kernel was still reading the buffer until now
		c.T.CheckSlice(b, "conn.Write (completion)")
		c.mu.Lock()
		c.pending = nil
		c.mu.Unlock()
		if err != nil {
			return 0, err
		}
		return len(b), nil
	}
	if c.failAt > 0 && n >= c.failAt {
		return 0, track.ErrInjected
	}
	return len(b), nil
}
func (c *gateConn) Close() error                       { c.mu.Lock(); c.closed = true; c.mu.Unlock(); return nil }
func (c *gateConn) LocalAddr() net.Addr                { return &net.TCPAddr{} }
func (c *gateConn) RemoteAddr() net.Addr               { return &net.TCPAddr{} }
func (c *gateConn) SetDeadline(t time.Time) error      { return nil }
func (c *gateConn) SetReadDeadline(t time.Time) error  { return nil }
func (c *gateConn) SetWriteDeadline(t time.Time) error { return nil }

func (c *gateConn) inFlight() []byte { c.mu.Lock(); defer c.mu.Unlock(); return c.pending }
func (c *gateConn) arrived() int     { c.mu.Lock(); defer c.mu.Unlock(); return c.arrivals }

// wsDecode reads one frame from b: opcode, unmasked payload, total length (0 = incomplete).
func wsDecode(b []byte) (opcode int, payload []byte, total int) {
	if len(b) < 2 {
		return 0, nil, 0
	}
	opcode = int(b[0] & 0x0f)
	masked := b[1]&0x80 != 0
	n := int(b[1] & 0x7f)
	h := 2
	switch n {
	case 126:
		if len(b) < 4 {
			return 0, nil, 0
		}
		n = int(b[2])<<8 | int(b[3])
		h = 4
	case 127:
		if len(b) < 10 {
			return 0, nil, 0
		}
		n = int(b[6])<<24 | int(b[7])<<16 | int(b[8])<<8 | int(b[9])
		h = 10
	}
	var key []byte
	if masked {
		if len(b) < h+4 {
			return 0, nil, 0
		}
		key = b[h : h+4]
		h += 4
	}
	if len(b) < h+n {
		return 0, nil, 0
	}
	payload = append([]byte(nil), b[h:h+n]...)
	for i := range payload {
		if key != nil {
			payload[i] ^= key[i%4]
		}
	}
	return opcode, payload, h + n
}

func execWS(e *lp.Exec, cline string, lines []string, tr *track.Tracker, lg *nullLogger) {
	f := strings.Fields(cline)
	b := func(k string) bool { return field(f, k) == "1" }
	qmax, _ := strconv.Atoi(field(f, "qmax"))
	fail, _ := strconv.Atoi(field(f, "fail"))
	e.P("> %s", cline)
	e.P("ok")
	tr.Reset()
	tr.MoveOnGrow = false
	tr.Recycle = b("rc")
	async := b("async")
	gc := &gateConn{T: tr, gated: async, release: make(chan error, 1), failAt: fail}
	engine := nbhttp.NewEngine(nbhttp.Config{BodyAllocator: tr, ReleaseWebsocketPayload: b("rp")})
	u := websocket.NewUpgrader()
	u.Engine = engine
	u.KeepaliveTime = 0
	u.MessageLengthLimit = 0
	u.BlockingModSendQueueMaxSize = uint16(qmax)
	u.BlockingModAsyncCloseDelay = time.Hour
	var delivered []string
	u.OnMessage(func(c *websocket.Conn, mt websocket.MessageType, data []byte) {
		tr.CheckSlice(data, "payload handed to OnMessage (freed before the handler ran?)")
		delivered = append(delivered, fmt.Sprintf("m%d", len(data)))
	})
	if b("df") {
		u.OnDataFrame(func(c *websocket.Conn, mt websocket.MessageType, fin bool, data []byte) {
			tr.CheckSlice(data, "payload handed to OnDataFrame (freed before the handler ran?)")
			delivered = append(delivered, fmt.Sprintf("f%d", len(data)))
		})
	}
	var ws *websocket.Conn
	if b("client") {
		ws = websocket.NewClientConn(u, gc, "", false, async)
	} else {
		ws = websocket.NewServerConn(u, gc, "", false, async)
	}
	ws.VerifSetModes(b("blk"), b("rp"))
	closedFlag := false
	dead := false
	queuedExec := b("qx")
	var jobs []func()
	ws.Execute = func(fn func()) bool {
		if closedFlag {
			return false
		}
		if queuedExec {
			jobs = append(jobs, fn) // runs later: the job owns what it captured until then
			return true
		}
		fn()
		return true
	}
	// The sender goroutine is the only concurrency in a case. The harness knows when one exists (`active`) and what
	// it will do next, so it waits for exactly that: a new write arriving at the gate, or the goroutine's exit
	// (its last allocator action is the Free of the frame it wrote).
	active := false
	slots := func() (n int, next bool) {
		_, _, q := ws.VerifOwnedBuffers()
		for _, h := range q {
			if h != nil {
				next = true
			}
		}
		return len(q), next
	}
	waitFor := func(what string, cond func() bool) {
		deadline := time.Now().Add(3 * time.Second)
		for time.Now().Before(deadline) {
			if cond() {
				return
			}
			time.Sleep(50 * time.Microsecond)
		}
		e.Oracle("c11-hang", "sender goroutine: %s did not happen", what)
	}
	// after an operation of the main goroutine that may have enqueued a head frame
	afterEnqueue := func(a0, n0 int) {
		if !async || active || n0 > 0 { // only a frame appended to an EMPTY queue starts a sender goroutine
			return
		}
		if n, _ := slots(); n > 0 {
			waitFor("first write", func() bool { return gc.arrived() > a0 && gc.inFlight() != nil })
			tr.NoteWrite(gc.inFlight())
			active = true
		}
	}
	// open the gate for the write in flight
	openGate := func(err error) {
		buf := gc.inFlight()
		_, next := slots()
		a0 := gc.arrived()
		gc.release <- err
		if err == nil && !closedFlag && next {
			waitFor("next write", func() bool { return gc.arrived() > a0 && gc.inFlight() != nil })
			tr.NoteWrite(gc.inFlight())
			return
		}
		waitFor("free of the written frame", func() bool { return gc.inFlight() == nil && tr.CheckLive(buf) <= 0 })
		if err == nil && !closedFlag {
			waitFor("queue reset", func() bool { n, _ := slots(); return n == 0 })
		}
		time.Sleep(100 * time.Microsecond)
		active = false
	}
	// independent cross-check of the payload hand-over: the default ping handler answers every ping with a pong
	// carrying the ping's OWN payload. The harness decodes the inbound stream itself (up to the invalid frame)
	// and every pong the implementation writes must carry the payload of a ping not answered yet, in order.
	badAt, _ := strconv.Atoi(field(f, "bad"))
	var inb []byte
	inOff, nextPing, outSeen := 0, 0, 0
	var pings [][]byte
	checkPongs := func() {
		for badAt < 0 || inOff < badAt {
			op, pl, total := wsDecode(inb[inOff:])
			if total == 0 {
				break
			}
			if op == 9 {
				pings = append(pings, pl)
			}
			inOff += total
		}
		gc.mu.Lock()
		outs := gc.out[outSeen:]
		outSeen = len(gc.out)
		gc.mu.Unlock()
		for _, w := range outs {
			op, pl, total := wsDecode(w)
			if total == 0 || op != 10 {
				continue
			}
			j := nextPing
			for j < len(pings) && !bytes.Equal(pings[j], pl) {
				j++
			}
			if j == len(pings) {
				want := "none left"
				if nextPing < len(pings) {
					want = fmt.Sprintf("%d bytes %s", len(pings[nextPing]), lp.Hex(head(pings[nextPing], 16)))
				}
				e.Oracle("c11-stale-payload", "pong with %d payload bytes %s answers no pending ping (next pending ping: %s): the handler was given a buffer that is not this frame's | ws case",
					len(pl), lp.Hex(head(pl, 16)), want)
				continue
			}
			nextPing = j + 1
		}
	}
	var key strings.Builder
	fmt.Fprintf(&key, "ws/%s|", strings.Join(f[2:], "/"))
	nontrivial := false
	qstate := func() string {
		_, _, q := ws.VerifOwnedBuffers()
		var xs []string
		for _, h := range q {
			if h == nil {
				xs = append(xs, "-")
			} else {
				id, _ := tr.IDOf(h)
				xs = append(xs, strconv.Itoa(id))
			}
		}
		fl := 0
		if gc.inFlight() != nil {
			fl = 1
		}
		if len(xs) == 0 {
			return fmt.Sprintf("q=- fl=%d", fl)
		}
		return fmt.Sprintf("q=%s fl=%d", strings.Join(xs, ","), fl)
	}
	owners := func() {
		if closedFlag {
			return
		}
		bc, msg, q := ws.VerifOwnedBuffers()
		os := []track.Owner{{Name: "ws.Conn.bytesCached", Handle: bc}, {Name: "ws.Conn.message", Handle: msg}}
		fid := tr.CheckLive(gc.inFlight()) // the sender goroutine's pbuf, inside conn.Write
		for i, h := range q {
			os = append(os, track.Owner{Name: fmt.Sprintf("ws.Conn.sendQueue[%d]", i), Handle: h})
			if id, live := tr.IDOf(h); h != nil && live && id == fid {
				e.Oracle("c11-shared", "buffer #%d is held by ws.Conn.sendQueue[%d] and by the sender goroutine (inside conn.Write) at the same time | ws case", id, i)
			}
		}
		tr.CheckOwners(os...)
	}
	for _, l := range lines {
		ff := strings.Fields(l)
		e.P("> %s", l)
		switch {
		case ff[0] == "D" && len(ff) >= 2 && dead:
			e.P("dead")
		case ff[0] == "D" && len(ff) >= 2:
			delivered = nil
			a0 := gc.arrived()
			n0, _ := slots()
			inb = append(inb, lp.Unhex(ff[1])...)
			err := ws.Parse(lp.Unhex(ff[1]))
			res := "ok"
			if err != nil {
				res = "err"
				if errors.Is(err, net.ErrClosed) {
					res = "closed"
				} else {
					dead = true // the engine closes the connection after a protocol error: only X makes sense
				}
			}
			afterEnqueue(a0, n0)
			owners()
			dl := strings.Join(delivered, ",")
			if dl == "" {
				dl = "-"
			}
			cl, ml := ws.VerifCacheLen(), ws.VerifMessageLen()
			if cl > 0 || ml > 0 || res != "ok" {
				nontrivial = true
			}
			e.P("R %s cache=%d msg=%d dl=%s %s tr=%s", res, cl, ml, dl, qstate(), tr.TakeTrace())
			fmt.Fprintf(&key, "D%s%v%v,", res, cl > 0, ml > 0)
		case ff[0] == "S" && len(ff) >= 3:
			op, _ := strconv.Atoi(ff[1])
			n, _ := strconv.Atoi(ff[2])
			a0 := gc.arrived()
			n0, _ := slots()
			err := ws.WriteMessage(websocket.MessageType(op), lp.Pattern(n, 13))
			afterEnqueue(a0, n0)
			owners()
			en := "none"
			switch {
			case err == nil:
			case errors.Is(err, net.ErrClosed):
				en = "closed"
			case errors.Is(err, websocket.ErrMessageSendQuqueIsFull):
				en = "full"
			case errors.Is(err, track.ErrInjected):
				en = "conn"
			default:
				en = "other"
			}
			st := qstate()
			if strings.Contains(st, "fl=1") {
				nontrivial = true
			}
			e.P("S err=%s %s tr=%s", en, st, tr.TakeTrace())
			fmt.Fprintf(&key, "S%s,", en)
		case ff[0] == "G" && len(ff) >= 2:
			if gc.inFlight() == nil {
				e.P("S err=idle %s tr=%s", qstate(), tr.TakeTrace())
				continue
			}
			if ff[1] == "err" {
				openGate(track.ErrInjected)
			} else {
				openGate(nil)
			}
			owners()
			e.P("S err=none %s tr=%s", qstate(), tr.TakeTrace())
			fmt.Fprintf(&key, "G%s,", ff[1])
		case ff[0] == "J":
			delivered = nil
			a0 := gc.arrived()
			n0, _ := slots()
			todo := jobs
			jobs = nil
			for _, fn := range todo {
				fn()
			}
			afterEnqueue(a0, n0)
			owners()
			checkPongs()
			dl := strings.Join(delivered, ",")
			if dl == "" {
				dl = "-"
			}
			if len(todo) > 0 {
				nontrivial = true
			}
			e.P("J dl=%s %s tr=%s", dl, qstate(), tr.TakeTrace())
			fmt.Fprintf(&key, "J%d,", len(todo))
		case ff[0] == "X":
			ws.CloseAndClean(errors.New("closed"))
			closedFlag = true
			e.P("S err=none %s tr=%s", qstate(), tr.TakeTrace())
			key.WriteString("X,")
		default:
			e.P("bad-op")
		}
	}
	// let a sender goroutine that is still in flight finish, then close
	for i := 0; i < 64 && gc.inFlight() != nil; i++ {
		openGate(nil)
	}
	if len(jobs) > 0 { // jobs still queued run before the end (they own their payloads)
		a0 := gc.arrived()
		n0, _ := slots()
		for _, fn := range jobs {
			fn()
		}
		jobs = nil
		afterEnqueue(a0, n0)
	}
	for i := 0; i < 64 && gc.inFlight() != nil; i++ {
		openGate(nil)
	}
	checkPongs()
	ws.CloseAndClean(errors.New("end of case"))
	tr.Audit()
	for _, v := range tr.Drain() {
		e.Oracle(v.Oracle, "%s | ws case", v.Detail)
	}
	e.Key(key.String(), nontrivial)
	e.Count("cases", "ws")
}

// ---------------------------------------------------------------- generator

func head(b []byte, n int) []byte {
	if len(b) > n {
		return b[:n]
	}
	return b
}

func wsFrame(g *lp.Gen, client bool, opcode int, fin bool, payload []byte) []byte {
	b0 := byte(opcode)
	if fin {
		b0 |= 0x80
	}
	var h []byte
	mask := byte(0)
	if !client { // frames TO a server are masked
		mask = 0x80
	}
	n := len(payload)
	switch {
	case n < 126:
		h = []byte{b0, mask | byte(n)}
	case n <= 65535:
		h = []byte{b0, mask | 126, byte(n >> 8), byte(n)}
	default:
		h = []byte{b0, mask | 127, 0, 0, 0, 0, byte(n >> 24), byte(n >> 16), byte(n >> 8), byte(n)}
	}
	body := append([]byte{}, payload...)
	if mask != 0 {
		k := []byte{byte(g.Intn(256)), byte(g.Intn(256)), byte(g.Intn(256)), byte(g.Intn(256))}
		h = append(h, k...)
		for i := range body {
			body[i] ^= k[i%4]
		}
	}
	return append(h, body...)
}

func genWS(g *lp.Gen) {
	client := g.Chance(1, 4)
	async := g.Chance(1, 2)
	qmax := 0
	if async && g.Chance(1, 3) {
		qmax = 1 + g.Intn(3)
	}
	fail := 0
	if !async && g.Chance(1, 6) {
		fail = 1 + g.Intn(3)
	}
	bi := func(x bool) int {
		if x {
			return 1
		}
		return 0
	}
	// an inbound stream of valid frames (data, fragmented, ping/pong), optionally ended by ONE invalid frame
	var stream []byte
	// the executor mode is drawn first: with a queued executor (a conn served by a poller) the interesting histories
	// are those in which payloads ARE handed to jobs that run later, so such cases always receive at least one message,
	// mostly release payloads, often stream data frames too, and are closed early less often
	blk := g.Chance(1, 2)
	qx := !blk && g.Chance(1, 2)
	rp := g.Chance(2, 3)
	df := g.Chance(1, 3)
	if qx {
		rp = g.Chance(5, 6)
		df = g.Chance(2, 3)
	}
	nm := g.Intn(4)
	if qx && nm == 0 {
		nm = 1 + g.Intn(3)
	}
	for i := 0; i < nm; i++ {
		size := g.PickInt(0, 1, 5, 125, 126, 200, 1000, 70000)
		switch g.Intn(5) {
		case 0: // control frame, or a burst of them back to back (several in one Parse call); payloads all differ
			stream = append(stream, wsFrame(g, client, g.PickInt(9, 9, 10), true, lp.Pattern(g.PickInt(0, 0, 1, 20, 125), 40+i))...)
			if g.Chance(1, 2) {
				for j := 0; j < 1+g.Intn(2); j++ {
					stream = append(stream, wsFrame(g, client, g.PickInt(9, 9, 10), true, lp.Pattern(g.PickInt(0, 0, 0, 3, 125), 50+7*i+j))...)
				}
			}
		case 1: // fragmented message, control frames in between
			parts := 2 + g.Intn(2)
			for j := 0; j < parts; j++ {
				op := 0
				if j == 0 {
					op = g.PickInt(1, 2)
				}
				pl := []byte(strings.Repeat("a", g.PickInt(0, 1, size%3000)))
				stream = append(stream, wsFrame(g, client, op, j == parts-1, pl)...)
				if g.Chance(1, 4) && j < parts-1 {
					stream = append(stream, wsFrame(g, client, 9, true, []byte("hb"))...)
				}
			}
		default:
			stream = append(stream, wsFrame(g, client, g.PickInt(1, 2), true, []byte(strings.Repeat("b", size)))...)
		}
	}
	bad := -1
	if g.Chance(1, 4) {
		bad = len(stream)
		stream = append(stream, wsFrame(g, client, g.PickInt(3, 0, 11), true, []byte(strings.Repeat("x", g.Intn(5))))...)
	}
	if g.Chance(1, 5) && len(stream) > 4 { // truncated: close during assembly / with cached bytes
		stream = stream[:len(stream)-1-g.Intn(len(stream)/2)]
	}
	g.P("C ws client=%d async=%d qmax=%d rp=%d blk=%d df=%d bad=%d fail=%d rc=%d qx=%d", bi(client), bi(async), qmax,
		bi(rp), bi(blk), bi(df), bad, fail, bi(g.Chance(1, 4)), bi(qx))
	rest := stream
	nops := 3 + g.Intn(10)
	closedAt := -1
	if (!qx && g.Chance(1, 2)) || (qx && g.Chance(1, 4)) {
		closedAt = g.Intn(nops)
	}
	for i := 0; i < nops; i++ {
		if i == closedAt {
			g.P("X")
			continue
		}
		if qx && g.Chance(1, 4) {
			g.P("J")
			continue
		}
		pick := g.Intn(6)
		if qx && len(rest) > 0 && g.Chance(1, 3) {
			pick = 0 // feed the inbound stream more often: the jobs come from there
		}
		switch pick {
		case 0, 1:
			if len(rest) > 0 {
				n := 1 + g.Intn(len(rest))
				if g.Chance(1, 3) {
					n = 1 + g.Intn(1+n%40)
				}
				if n > len(rest) {
					n = len(rest)
				}
				g.P("D %s", lp.Hex(rest[:n]))
				rest = rest[n:]
			} else {
				g.P("S %d %d", g.PickInt(1, 2), g.PickInt(0, 10, 125, 126, 70000))
			}
		case 2, 3:
			g.P("S %d %d", g.PickInt(1, 2, 2, 9), g.PickInt(0, 1, 10, 100, 125, 126, 1000, 40000))
		default:
			if async {
				g.P("G %s", g.Pick("ok", "ok", "ok", "err"))
			} else {
				g.P("S 2 %d", g.Intn(300))
			}
		}
	}
}
