package main

import (
	"strings"

	"harness/internal/lp"
	"harness/internal/track"
)

// execBody: parser cache / BodyReader ownership cases (filled in below).
func execBody(e *lp.Exec, cline string, lines []string, tr *track.Tracker, lg *nullLogger) {
	e.P("> %s", cline)
	e.P("bad-op")
	for _, l := range lines {
		e.P("> %s", strings.TrimSpace(l))
		e.P("bad-op")
	}
}
