package main

// Parser cache / BodyReader ownership cases (C11, request side).
//
//	C body maxbody=<n> rl=<n> hp=<handler program> mv=<0|1> rc=<0|1> rej=<0|1: the executor rejects every handler job (as after close): OnComplete releases the request itself>
//	D <hex segment>      Parser.Parse(segment)
//	X                    Parser.CloseAndClean(err)   (what the engine does when the conn closes)
//
// handler program, applied to every completed request: comma separated r<n> (Body.Read into n bytes),
// c (Body.Close), w<n> (Write n bytes); "-" = nothing.
//
//	R <ok|err|closed|toolong> rd=<bytes per read, e = io.EOF> cache=<len> tr=<allocator/conn events>

import (
	"bytes"
	"errors"
	"fmt"
	"io"
	"net"
	"net/http"
	"strconv"
	"strings"

	"harness/internal/lp"
	"harness/internal/track"

	"github.com/lesismal/nbio/nbhttp"
)

type hprog struct {
	kind byte
	n    int
}

func parseHP(s string) []hprog {
	var out []hprog
	if s == "-" || s == "" {
		return out
	}
	for _, t := range strings.Split(s, ",") {
		if t == "" {
			continue
		}
		n, _ := strconv.Atoi(t[1:])
		out = append(out, hprog{t[0], n})
	}
	return out
}

func execBody(e *lp.Exec, cline string, lines []string, tr *track.Tracker, lg *nullLogger) {
	f := strings.Fields(cline)
	maxBody, _ := strconv.Atoi(field(f, "maxbody"))
	rl, _ := strconv.Atoi(field(f, "rl"))
	hp := parseHP(field(f, "hp"))
	e.P("> %s", cline)
	e.P("ok")
	tr.Reset()
	tr.MoveOnGrow = field(f, "mv") == "1"
	tr.Recycle = field(f, "rc") == "1"
	rc := &track.RecConn{T: tr}
	engine := nbhttp.NewEngine(nbhttp.Config{BodyAllocator: tr, MaxHTTPBodySize: maxBody, ReadLimit: rl})
	if rl == 0 {
		engine.ReadLimit = 0
	}
	var rd []string
	engine.Handler = http.HandlerFunc(func(w http.ResponseWriter, r *http.Request) {
		for _, o := range hp {
			switch o.kind {
			case 'r':
				buf := make([]byte, o.n)
				n, err := r.Body.Read(buf)
				s := strconv.Itoa(n)
				if err == io.EOF {
					s += "e"
				}
				rd = append(rd, s)
			case 'c':
				r.Body.Close()
			case 'w':
				w.Write(lp.Pattern(o.n, 5))
			}
		}
	})
	proc := nbhttp.NewServerProcessor()
	var executor func(func()) bool
	if field(f, "rej") == "1" {
		executor = func(func()) bool { return false }
	}
	p := nbhttp.NewParser(rc, engine, proc, false, executor)
	closed := false
	dead := false
	var fed []byte
	var key strings.Builder
	nontrivial := false
	for _, l := range lines {
		ff := strings.Fields(l)
		e.P("> %s", l)
		switch {
		case ff[0] == "D" && len(ff) >= 2 && dead:
			e.P("dead")
		case ff[0] == "D" && len(ff) >= 2:
			seg := lp.Unhex(ff[1])
			rd = nil
			c0 := p.VerifCacheLen()
			err := p.Parse(append([]byte{}, seg...))
			res := "ok"
			switch {
			case err == nil:
			case errors.Is(err, net.ErrClosed):
				res = "closed"
			case errors.Is(err, nbhttp.ErrTooLong) && c0 > 0 && rl > 0 && c0+len(seg) > rl:
				res = "toolong"
			default:
				res = "err"
			}
			if res == "err" || res == "toolong" {
				dead = true // the engine closes the connection on a parse error: only X makes sense now
			}
			if res != "closed" && res != "toolong" { // those two return before the segment is taken
				fed = append(fed, seg...)
			}
			if !closed {
				// read-side check (no allocator can see a copy FROM a freed buffer): what the parser keeps must be
				// the unparsed tail of what it was fed, byte for byte. A tail copied out of freed memory carries the
				// tracker's poison / junk instead.
				if h := p.VerifCached(); h != nil {
					if id, live := tr.IDOf(h); live && !bytes.HasSuffix(fed, *h) {
						poison := bytes.Count(*h, []byte{0xDB})
						e.Oracle("c11-use-after-free", "Parser.bytesCached (buffer #%d, %d bytes) is not the unparsed tail of the input: it was filled from memory that had already been returned to the pool (%d poison bytes) | body case", id, len(*h), poison)
					}
				}
				var owners []track.Owner
				owners = append(owners, track.Owner{Name: "Parser.bytesCached", Handle: p.VerifCached()})
				if br := nbhttp.VerifPendingBody(proc); br != nil {
					for i, b := range br.Buffers() {
						owners = append(owners, track.Owner{Name: fmt.Sprintf("BodyReader.buffers[%d]", i), Handle: b})
					}
				}
				tr.CheckOwners(owners...)
			}
			rds := strings.Join(rd, ",")
			if rds == "" {
				rds = "-"
			}
			cl := p.VerifCacheLen()
			if closed {
				cl = 0
			}
			if cl > 0 || c0 > 0 || res != "ok" {
				nontrivial = true
			}
			e.P("R %s rd=%s cache=%d tr=%s", res, rds, cl, tr.TakeTrace())
			fmt.Fprintf(&key, "%s%d>%d,", res, p.VerifState(), cl)
			e.Count("body_parse", res)
		case ff[0] == "X":
			p.CloseAndClean(errors.New("conn closed"))
			closed = true
			dead = false
			e.P("X tr=%s", tr.TakeTrace())
			key.WriteString("X")
		default:
			e.P("bad-op")
		}
	}
	tr.Audit()
	for _, v := range tr.Drain() {
		e.Oracle(v.Oracle, "%s | body case", v.Detail)
	}
	e.Key("body|"+key.String(), nontrivial)
	e.Count("cases", "body")
}

// ---------------------------------------------------------------- generator

func randBody(g *lp.Gen, n int) []byte {
	b := make([]byte, n)
	for i := range b {
		b[i] = byte('a' + g.Intn(26))
	}
	return b
}

func genBody(g *lp.Gen) {
	maxBody := 0
	if g.Chance(1, 5) {
		maxBody = 10 + g.Intn(3000)
	}
	rl := 0
	if g.Chance(1, 6) {
		rl = 100 + g.Intn(4000)
	}
	var hp []string
	for i, nr := 0, g.Intn(4); i < nr; i++ {
		hp = append(hp, fmt.Sprintf("r%d", g.PickInt(0, 1, 7, 64, 100, 1000, 5000)))
	}
	if g.Chance(1, 3) {
		hp = append(hp, "c")
		if g.Chance(1, 2) {
			hp = append(hp, "r10")
		}
	}
	if g.Chance(1, 2) {
		hp = append(hp, fmt.Sprintf("w%d", 1+g.Intn(300)))
	}
	hps := strings.Join(hp, ",")
	if hps == "" {
		hps = "-"
	}
	mv := 0
	if g.Chance(1, 3) {
		mv = 1
	}
	rc := 0
	if g.Chance(1, 4) {
		rc = 1
	}
	rej := 0
	if g.Chance(1, 8) {
		rej = 1
	}
	g.P("C body maxbody=%d rl=%d hp=%s mv=%d rc=%d rej=%d", maxBody, rl, hps, mv, rc, rej)
	var stream []byte
	nm := 1 + g.Intn(3)
	for i := 0; i < nm; i++ {
		var m []byte
		n := g.PickInt(0, 1, 10, 63, 64, 65, 200, 1000, 3000)
		if g.Chance(1, 3) {
			n = g.Intn(5000)
		}
		switch g.Intn(3) {
		case 0: // no body
			m = []byte("GET /x HTTP/1.1\r\nHost: a\r\n\r\n")
		case 1:
			m = []byte(fmt.Sprintf("POST /x HTTP/1.1\r\nHost: a\r\nContent-Length: %d\r\n\r\n", n))
			m = append(m, randBody(g, n)...)
		default:
			m = []byte("POST /x HTTP/1.1\r\nHost: a\r\nTransfer-Encoding: chunked\r\n\r\n")
			for rest := n; rest > 0; {
				c := 1 + g.Intn(rest)
				if g.Chance(1, 2) && rest > 70 {
					c = g.PickInt(1, 63, 64, 65)
				}
				m = append(m, []byte(fmt.Sprintf("%x\r\n", c))...)
				m = append(m, randBody(g, c)...)
				m = append(m, '\r', '\n')
				rest -= c
			}
			m = append(m, []byte("0\r\n\r\n")...)
		}
		if g.Chance(1, 8) && len(m) > 40 { // an error in the middle
			i := 30 + g.Intn(len(m)-30)
			m[i] = g.Pick("\x00", "\r", "Z", ":")[0]
		}
		stream = append(stream, m...)
	}
	if g.Chance(1, 6) && len(stream) > 10 { // truncated: close with cached bytes
		stream = stream[:len(stream)-1-g.Intn(len(stream)/2)]
	}
	closeAt := -1
	if g.Chance(1, 3) {
		closeAt = g.Intn(6)
	}
	mode := g.Intn(3)
	k := 0
	for rest := stream; len(rest) > 0; k++ {
		n := len(rest)
		switch mode {
		case 0:
			n = 1 + g.Intn(len(rest))
		case 1:
			n = 1 + g.Intn(40)
			if n > len(rest) {
				n = len(rest)
			}
		default:
			if g.Chance(2, 3) {
				n = 1 + g.Intn(len(rest))
			}
		}
		g.P("D %s", lp.Hex(rest[:n]))
		rest = rest[n:]
		if k == closeAt {
			g.P("X")
			if g.Chance(1, 2) && len(rest) > 0 {
				g.P("D %s", lp.Hex(rest[:1]))
			}
			return
		}
	}
	if g.Chance(1, 2) {
		g.P("X")
	}
}
