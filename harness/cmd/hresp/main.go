// hresp: HTTP response writer harness (C09 response framing, C11 pooled-buffer ownership on the
// HTTP side: Response, Parser cache, BodyReader).
//
// A "resp" case is one request + one handler program, run through the REAL path: the request bytes are
// fed to a real nbhttp.Parser with NewServerProcessor; Engine.Handler is the program interpreter; the
// tracking allocator (harness/internal/track) is mempool.DefaultMemPool and Config.BodyAllocator; a
// recording conn collects the wire (OnComplete -> handler -> flushResponse).
//
//	C resp v=<10|11> m=<GET|HEAD> conn=<ka|close|none> fail=<k> sf=<0|1> mv=<0|1> rc=<0|1>
//	H <hexk> <hexv>        Header().Set            A <hexk> <hexv>   Header().Add        X <hexk>  Header().Del
//	S <code>               WriteHeader(code)       (exec annotates st=<hex of http.StatusText(code)>)
//	W <payload>            Write                   WS <payload>      WriteString
//	L                      Flush
//	RF <p|f|l> <n> <pat> <off>   ReadFrom: plain reader / bare *os.File / io.LimitedReader over *os.File (Sendfile path when sf=1)
//	F                      end of the handler: flushResponse runs, the wire is reported
//
// result lines (fields compared per property: C09 n err w head hdr rest trl close; C11 tr):
//
//	W n=<n> err=<nil|cl|parse|conn> w=<conn write sizes of this op> tr=<allocator/conn events of this op>
//	F w=.. head=<status line hex> hdr=<sorted header lines> rest=<len:fnv> trl=<sorted trailer lines> close=<0|1> tr=..
//
// A "body" case drives the parser/BodyReader side of C11: see body.go.
//
// Direct oracles: c09-decode, c09-write-n, c09-panic, c11-double-free, c11-use-after-free, c11-shared,
// c11-foreign-free.
package main

import (
	"bufio"
	"bytes"
	"errors"
	"fmt"
	"io"
	"net"
	"net/http"
	"os"
	"sort"
	"strconv"
	"strings"

	"harness/internal/lp"
	"harness/internal/track"

	"github.com/lesismal/nbio/logging"
	"github.com/lesismal/nbio/nbhttp"
)

const datePlaceholder = "@@@@@@@@@@@@@@@@@@@@@@@@@@@@@" // 29 bytes, the length of an HTTP date

type caseCfg struct {
	v11  bool
	head bool
	conn string // ka | close | none
	fail int
	sf   bool
	mv   bool
	rc   bool // allocator recycles freed buffers (after verifying their poison)
}

type op struct {
	kind   string
	k, v   string
	code   int
	pay    string
	rfKind string
	n, pat int
	off    int
	line   string
}

type nullLogger struct{ errs int }

func (l *nullLogger) Debug(f string, v ...interface{}) {}
func (l *nullLogger) Info(f string, v ...interface{})  {}
func (l *nullLogger) Warn(f string, v ...interface{})  {}
func (l *nullLogger) Error(f string, v ...interface{}) { l.errs++ }

func field(f []string, key string) string {
	for _, t := range f {
		if strings.HasPrefix(t, key+"=") {
			return t[len(key)+1:]
		}
	}
	return ""
}

func parseCfg(f []string) caseCfg {
	c := caseCfg{v11: field(f, "v") != "10", head: field(f, "m") == "HEAD", conn: field(f, "conn"), sf: field(f, "sf") == "1", mv: field(f, "mv") == "1", rc: field(f, "rc") == "1"}
	c.fail, _ = strconv.Atoi(field(f, "fail"))
	if c.conn == "" {
		c.conn = "none"
	}
	return c
}

func (c caseCfg) String() string {
	v, m := "10", "GET"
	if c.v11 {
		v = "11"
	}
	if c.head {
		m = "HEAD"
	}
	b := func(x bool) int {
		if x {
			return 1
		}
		return 0
	}
	return fmt.Sprintf("C resp v=%s m=%s conn=%s fail=%d sf=%d mv=%d rc=%d", v, m, c.conn, c.fail, b(c.sf), b(c.mv), b(c.rc))
}

func parseOp(line string) (op, bool) {
	f := strings.Fields(line)
	o := op{kind: f[0], line: line}
	bad := func() (op, bool) { return o, false }
	switch f[0] {
	case "H", "A", "M":
		if len(f) < 3 {
			return bad()
		}
		o.k, o.v = string(lp.Payload(f[1])), string(lp.Payload(f[2]))
	case "X":
		if len(f) < 2 {
			return bad()
		}
		o.k = string(lp.Payload(f[1]))
	case "S":
		if len(f) < 2 {
			return bad()
		}
		o.code, _ = strconv.Atoi(f[1])
	case "W", "WS":
		if len(f) < 2 {
			return bad()
		}
		o.pay = f[1]
	case "L", "F":
	case "RF":
		if len(f) < 5 {
			return bad()
		}
		o.rfKind = f[1]
		o.n, _ = strconv.Atoi(f[2])
		o.pat, _ = strconv.Atoi(f[3])
		o.off, _ = strconv.Atoi(f[4])
		if o.rfKind != "p" && o.rfKind != "f" && o.rfKind != "l" && o.rfKind != "m" {
			return bad()
		}
	default:
		return bad()
	}
	return o, true
}

// ---------------------------------------------------------------- specification side (what the handler asked for)

// spec follows the http.ResponseWriter contract, independently of nbio: status = first WriteHeader (else
// 200); headers = the map when the head is committed (first WriteHeader / non-empty Write / Flush /
// ReadFrom); trailers = declared keys with the values the map holds when the handler returns; body = the
// bytes of the successful writes.
type spec struct {
	committed   bool
	status      int
	hdr         http.Header // snapshot at commit
	trailerKeys []string
	body        []byte
	connErr     bool // a write returned the injected conn error
	asked       int // bytes the handler ASKED to write (every Write/WriteString/ReadFrom, whatever it returned)
	explicitCL  int // -1 = none
	feats       map[string]bool
	insane      []string // reasons why the program is outside Sane
	flushed     bool
	wroteAfter  bool
	v11         bool
	nRF         int
}

func newSpec() *spec { return &spec{explicitCL: -1, feats: map[string]bool{}} }

func isToken(s string) bool {
	if s == "" {
		return false
	}
	for i := 0; i < len(s); i++ {
		c := s[i]
		if !(c >= '0' && c <= '9' || c >= 'a' && c <= 'z' || c >= 'A' && c <= 'Z' || strings.IndexByte("!#$%&'*+-.^_`|~", c) >= 0) {
			return false
		}
	}
	return true
}

func cleanValue(s string) bool {
	for i := 0; i < len(s); i++ {
		if s[i] == '\r' || s[i] == '\n' || s[i] == 0 {
			return false
		}
	}
	return s == strings.TrimSpace(s)
}

func (s *spec) insaneIf(c bool, why string) {
	if c {
		for _, w := range s.insane {
			if w == why {
				return
			}
		}
		s.insane = append(s.insane, why)
	}
}

func (s *spec) commit(h http.Header, code int) {
	if s.committed {
		return
	}
	s.committed = true
	s.status = code
	s.hdr = h.Clone()
	for k, vv := range s.hdr {
		s.insaneIf(!isToken(k), "header-name")
		for _, v := range vv {
			s.insaneIf(!cleanValue(v), "header-value")
		}
	}
	s.trailerKeys = append([]string{}, s.hdr["Trailer"]...)
	for _, k := range s.trailerKeys {
		// a trailer may be declared under any spelling (the handler then stores its value under that spelling)
		s.insaneIf(!isToken(k), "trailer-key")
		ck := http.CanonicalHeaderKey(k)
		s.insaneIf(ck == "Content-Length" || ck == "Transfer-Encoding" || ck == "Trailer", "trailer-key")
		for _, k2 := range s.trailerKeys {
			s.insaneIf(k2 != k && http.CanonicalHeaderKey(k2) == ck, "trailer-key") // two spellings of one name
		}
	}
	if len(s.trailerKeys) > 0 {
		s.feats["trailer"] = true
	}
	if cl := s.hdr.Get("Content-Length"); cl != "" {
		n, err := strconv.Atoi(cl)
		s.insaneIf(err != nil || n < 0 || strconv.Itoa(n) != cl || len(s.hdr["Content-Length"]) != 1, "content-length-syntax")
		if err == nil && n >= 0 {
			s.explicitCL = n
			s.feats["cl"] = true
		}
		s.insaneIf(len(s.trailerKeys) > 0, "content-length-with-trailer")
	}
	if te := s.hdr["Transfer-Encoding"]; len(te) > 0 {
		s.feats["te"] = true
		s.insaneIf(len(te) != 1 || te[0] != "chunked", "transfer-encoding-value")
		s.insaneIf(s.explicitCL >= 0, "content-length-with-te")
	}
	if code < 200 {
		s.insaneIf(true, "informational-status")
	}
	chunkAsk := len(s.trailerKeys) > 0 || len(s.hdr["Transfer-Encoding"]) > 0
	s.insaneIf(chunkAsk && !s.v11, "chunked-or-trailer-on-http10")
	s.insaneIf(chunkAsk && bodiless(code), "chunked-or-trailer-on-bodiless-status")
}

func bodiless(code int) bool { return code == 204 || code == 304 || (code >= 100 && code < 200) }

// ---------------------------------------------------------------- running a program on the real code

type opResult struct {
	text string // result line without w=/own=/tr=
	own  string // owner fields after the op: <buffer id>:<len>/<bodyBuffer id>:<len>
	w    []int
	tr   string
}

type runOut struct {
	res      []opResult
	wire     []byte
	writes   [][]byte
	closed   int
	sp       *spec
	panicked string
	viol     []track.Violation
	bufLen   int // probe: len(res.buffer) / len(res.bodyBuffer) after the last op (-1 = nil)
	bodyLen  int
	chunked  bool
	headEnc  bool
	wnErr    []string
	logErrs  int
}

// plainReader hides every optional interface of its source (io.Copy then uses its own buffer).
type plainReader struct{ r io.Reader }

func (p *plainReader) Read(b []byte) (int, error) { return p.r.Read(b) }

var tmpDir string

func tempFile(content []byte) *os.File {
	if tmpDir == "" {
		d, err := os.MkdirTemp("", "hresp-")
		if err != nil {
			panic(err)
		}
		tmpDir = d
	}
	f, err := os.CreateTemp(tmpDir, "rf")
	if err != nil {
		panic(err)
	}
	f.Write(content)
	return f
}

func cleanupTemp() {
	if tmpDir != "" {
		os.RemoveAll(tmpDir)
	}
}

func errName(err error) string {
	switch {
	case err == nil:
		return "nil"
	case errors.Is(err, http.ErrContentLength):
		return "cl"
	case errors.Is(err, track.ErrInjected):
		return "conn"
	case strings.Contains(err.Error(), "strconv"):
		return "parse"
	}
	return "other"
}

// run executes one handler program on the real code. probe (optional) is called inside the handler after
// the last op with the *nbhttp.Response.
func run(cfg caseCfg, ops []op, tr *track.Tracker, lg *nullLogger) *runOut {
	out := &runOut{sp: newSpec(), bufLen: -1, bodyLen: -1}
	out.sp.v11 = cfg.v11
	tr.Reset()
	tr.MoveOnGrow = cfg.mv
	tr.Recycle = cfg.rc
	var rc *track.RecConn
	var nc net.Conn
	if cfg.sf {
		sfc := &track.RecConnSF{RecConn: track.RecConn{T: tr, FailAt: cfg.fail}}
		rc, nc = &sfc.RecConn, sfc
	} else {
		rc = &track.RecConn{T: tr, FailAt: cfg.fail}
		nc = rc
	}
	engine := nbhttp.NewEngine(nbhttp.Config{BodyAllocator: tr})
	lastW := 0
	// conn writes of the op that just ended (empty writes dropped). For ReadFrom the first write is the head,
	// everything after it is the copied data, reported as one number (io.Copy's chunking is not nbio's).
	take := func(rf bool) []int {
		var ws []int
		seg := rc.Writes[lastW:]
		lastW = len(rc.Writes)
		if rf && len(seg) > 0 {
			if n := len(seg[0]); n > 0 {
				ws = append(ws, n)
			}
			sum := 0
			for _, b := range seg[1:] {
				sum += len(b)
			}
			if sum > 0 {
				ws = append(ws, sum)
			}
			return ws
		}
		for _, b := range seg {
			if len(b) > 0 {
				ws = append(ws, len(b))
			}
		}
		return ws
	}
	sp := out.sp
	fIdx := -1
	engine.Handler = http.HandlerFunc(func(w http.ResponseWriter, r *http.Request) {
		res := w.(*nbhttp.Response)
		h := w.Header()
		dead := false
		for i, o := range ops {
			if o.kind == "F" {
				fIdx = i
				break
			}
			if dead {
				out.res = append(out.res, opResult{text: "dead", tr: "-"})
				continue
			}
			var text string
			func() {
				defer func() {
					if e := recover(); e != nil {
						dead = true
						out.panicked = fmt.Sprintf("%s: %v", o.line, e)
						text = o.kind + " panic"
					}
				}()
				switch o.kind {
				case "H", "A", "X", "M":
					late := sp.committed
					// the map key the operation touches: Set/Add/Del canonicalise, a direct assignment (M) does not
					mk := http.CanonicalHeaderKey(o.k)
					if o.kind == "M" {
						mk = o.k
					}
					isTr := false
					for _, k := range sp.trailerKeys {
						if k == mk {
							isTr = true
						}
					}
					switch o.kind {
					case "H":
						h.Set(o.k, o.v)
					case "A":
						h.Add(o.k, o.v)
					case "X":
						h.Del(o.k)
					case "M":
						h[o.k] = []string{o.v} // w.Header()[k] = []string{v}: the spelling is kept
						sp.insaneIf(!isTr && mk != http.CanonicalHeaderKey(mk), "raw-header-key")
					}
					if late && !isTr {
						sp.insaneIf(true, "late-header")
					}
					if late && isTr {
						sp.feats["late-trailer"] = true
						sp.insaneIf(!cleanValue(o.v), "header-value")
					}
					text = o.kind
				case "S":
					sp.commit(h, o.code)
					w.WriteHeader(o.code)
					text = "S"
				case "W", "WS":
					data := lp.Payload(o.pay)
					if len(data) > 0 {
						sp.commit(h, 200)
						if sp.flushed {
							sp.wroteAfter = true
						}
					}
					var n int
					var err error
					if o.kind == "W" {
						n, err = w.Write(data)
					} else {
						n, err = res.WriteString(string(data))
					}
					sp.asked += len(data)
					if errors.Is(err, track.ErrInjected) {
						sp.connErr = true // the bytes of a write that died on the conn may or may not count: no verdict afterwards
					}
					if errors.Is(err, http.ErrContentLength) && !sp.connErr && sp.explicitCL >= 0 && len(sp.body)+len(data) <= sp.explicitCL {
						// the handler stayed within its declaration: refusing the write is wrong whatever else is true
						out.wnErr = append(out.wnErr, fmt.Sprintf("%s of %d bytes refused with ErrContentLength although %d accepted + %d <= Content-Length %d",
							o.kind, len(data), len(sp.body), len(data), sp.explicitCL))
					}
					if err == nil {
						sp.body = append(sp.body, data...)
						if n != len(data) {
							out.wnErr = append(out.wnErr, fmt.Sprintf("%s returned n=%d err=nil for %d bytes", o.kind, n, len(data)))
						}
					}
					text = fmt.Sprintf("%s n=%d err=%s", o.kind, n, errName(err))
				case "L":
					sp.commit(h, 200)
					sp.flushed = true
					w.(http.Flusher).Flush()
					text = "L"
				case "RF":
					if !sp.committed {
						sp.feats["rf-nowh"] = true
					}
					if len(sp.body) > 0 || sp.nRF > 0 {
						sp.feats["rf-after-write"] = true // inside Sane since the repair: ReadFrom appends to what was written
					}
					sp.commit(h, 200)
					sp.feats["rf"] = true
					sp.nRF++
					sp.insaneIf(sp.explicitCL < 0, "readfrom-without-content-length")
					content := lp.Pattern(o.off+o.n+37, o.pat)
					var rd io.Reader
					var f *os.File
					switch o.rfKind {
					case "p":
						rd = &plainReader{r: bytes.NewReader(content[o.off : o.off+o.n])}
					case "m": // io.LimitedReader over in-memory content that continues after the limit (ServeContent Range on a bytes.Reader)
						rd = &io.LimitedReader{R: &plainReader{r: bytes.NewReader(content[o.off:])}, N: int64(o.n)}
					case "f", "l":
						f = tempFile(content[:o.off+o.n+map[string]int{"f": 0, "l": 37}[o.rfKind]])
						f.Seek(int64(o.off), io.SeekStart)
						rd = f
						if o.rfKind == "l" {
							rd = &io.LimitedReader{R: f, N: int64(o.n)}
						}
					}
					n, err := res.ReadFrom(rd)
					sp.asked += o.n
					if errors.Is(err, track.ErrInjected) {
						sp.connErr = true
					}
					if f != nil {
						f.Close()
						os.Remove(f.Name())
					}
					if err == nil {
						sp.body = append(sp.body, content[o.off:o.off+int(n)]...)
						if int(n) != o.n {
							out.wnErr = append(out.wnErr, fmt.Sprintf("ReadFrom returned n=%d err=nil for a %d byte source", n, o.n))
						}
					}
					text = fmt.Sprintf("RF n=%d err=%s", n, errName(err))
				}
			}()
			b, bb := res.VerifOwned()
			tr.CheckOwners(track.Owner{Name: "Response.buffer", Handle: b}, track.Owner{Name: "Response.bodyBuffer", Handle: bb})
			own := func(h *[]byte) string {
				if h == nil {
					return "-"
				}
				id, _ := tr.IDOf(h)
				return fmt.Sprintf("%d:%d", id, len(*h))
			}
			out.res = append(out.res, opResult{text: text, w: take(o.kind == "RF"), tr: tr.TakeTrace(), own: own(b) + "/" + own(bb)})
		}
		b, bb := res.VerifOwned()
		if b != nil {
			out.bufLen = len(*b)
		}
		if bb != nil {
			out.bodyLen = len(*bb)
		}
		out.chunked, _, out.headEnc = res.VerifFraming()
		sp.commit(h, 200)
		// trailer values: what the map holds when the handler returns
		if dead {
			panic("handler op panicked: " + out.panicked)
		}
	})
	p := nbhttp.NewParser(nc, engine, nbhttp.NewServerProcessor(), false, nil)
	proto, method := "HTTP/1.0", "GET"
	if cfg.v11 {
		proto = "HTTP/1.1"
	}
	if cfg.head {
		method = "HEAD"
	}
	req := method + " /x " + proto + "\r\nHost: a\r\n"
	switch cfg.conn {
	case "ka":
		req += "Connection: keep-alive\r\n"
	case "close":
		req += "Connection: close\r\n"
	}
	req += "\r\n"
	e0 := lg.errs
	_ = p.Parse([]byte(req))
	out.logErrs = lg.errs - e0
	// ops after (and including) F
	if fIdx >= 0 {
		if out.panicked != "" {
			out.res = append(out.res, opResult{text: "F dead", tr: "-"})
		} else {
			out.res = append(out.res, opResult{text: "F", w: take(false), tr: tr.TakeTrace()})
		}
		for range ops[fIdx+1:] {
			out.res = append(out.res, opResult{text: "done", tr: "-"})
		}
	}
	tr.Audit()
	out.viol = tr.Drain()
	out.writes = rc.Writes
	out.wire = rc.Wire()
	out.closed = rc.Closed
	return out
}

// ---------------------------------------------------------------- canonical report of the wire

func hexOrHash(b []byte) string {
	if len(b) <= 96 {
		if len(b) == 0 {
			return "-"
		}
		return lp.Hex(b)
	}
	return fmt.Sprintf("%d:%016x", len(b), lp.Fnv(b))
}

// sortByName orders field lines by field name only, keeping the wire order of the lines of one name (Go's map
// order is random across names; the order of the values of ONE name is the handler's and is compared).
func sortByName(lines [][]byte) []string {
	type kv struct{ k, v string }
	var xs []kv
	for _, l := range lines {
		k := l
		if i := bytes.IndexByte(l, ':'); i >= 0 {
			k = l[:i]
		}
		xs = append(xs, kv{lp.Hex(k), hexOrHash(l)})
	}
	sort.SliceStable(xs, func(i, j int) bool { return xs[i].k < xs[j].k })
	out := make([]string, len(xs))
	for i, x := range xs {
		out[i] = x.v
	}
	return out
}

// report canonicalises the wire: status line, header lines sorted by field name (Date pinned unless the handler
// set it), hash of the framed body up to the last-chunk line, trailer lines sorted by field name.
func report(wire []byte) string {
	head, rest := wire, []byte(nil)
	if i := bytes.Index(wire, []byte("\r\n\r\n")); i >= 0 {
		head, rest = wire[:i], wire[i+4:]
	}
	lines := bytes.Split(head, []byte("\r\n"))
	first := lines[0]
	var raw [][]byte
	chunked := false
	for _, l := range lines[1:] {
		if bytes.HasPrefix(l, []byte("Date: ")) && len(l) == 6+len(datePlaceholder) && bytes.HasSuffix(l, []byte(" GMT")) {
			l = []byte("Date: " + datePlaceholder)
		}
		if string(l) == "Transfer-Encoding: chunked" {
			chunked = true
		}
		raw = append(raw, l)
	}
	others := sortByName(raw)
	trl := "-"
	if chunked {
		// trailer block = what follows the LAST "\r\n0\r\n" (or a leading "0\r\n")
		cut := -1
		if i := bytes.LastIndex(rest, []byte("\r\n0\r\n")); i >= 0 {
			cut = i + 5
		} else if bytes.HasPrefix(rest, []byte("0\r\n")) {
			cut = 3
		}
		if cut >= 0 {
			tl := bytes.Split(rest[cut:], []byte("\r\n"))
			rest = rest[:cut]
			trl = strings.Join(sortByName(tl), ",")
		}
	}
	hs := strings.Join(others, ",")
	if hs == "" {
		hs = "-"
	}
	return fmt.Sprintf("head=%s hdr=%s rest=%d:%016x trl=%s", hexOrHash(first), hs, len(rest), lp.Fnv(rest), trl)
}

// ---------------------------------------------------------------- direct oracle c09-decode

func fp(b []byte) string { return fmt.Sprintf("%d:%016x", len(b), lp.Fnv(b)) }

func featString(m map[string]bool) string {
	var ks []string
	for k, v := range m {
		if v {
			ks = append(ks, k)
		}
	}
	sort.Strings(ks)
	if len(ks) == 0 {
		return "-"
	}
	return strings.Join(ks, ",")
}

// decodeCheck decodes the wire with net/http's client-side parser (independent of nbio) and compares
// with what the handler asked for. Every mismatch is one report line; none = the response is right.
// nbhttp ignores the request method, so the wire of a HEAD request is decoded like a GET response and
// the presence of body bytes is reported as the single mismatch "head-body".
func decodeCheck(cfg caseCfg, sp *spec, h http.Header, wire []byte, closed bool) (ms []string) {
	add := func(format string, a ...interface{}) { ms = append(ms, fmt.Sprintf(format, a...)) }
	rd := bytes.NewReader(wire)
	br := bufio.NewReader(rd)
	resp, err := http.ReadResponse(br, &http.Request{Method: "GET"})
	if err != nil {
		add("mismatch=parse net/http.ReadResponse: %v", err)
		return
	}
	hdEnd := bytes.Index(wire, []byte("\r\n\r\n"))
	wireChunked := len(resp.TransferEncoding) > 0 && resp.TransferEncoding[0] == "chunked"
	rawChunked := bytes.Contains(wire[:hdEnd+2], []byte("\r\nTransfer-Encoding: chunked\r\n"))
	if rawChunked && !cfg.v11 {
		add("mismatch=framing chunked response to an HTTP/1.0 request")
		return
	}
	if resp.StatusCode != sp.status {
		extra := ""
		if http.StatusText(sp.status) == "" {
			extra = " unknown-status-text"
		}
		add("mismatch=status want=%d got=%d%s", sp.status, resp.StatusCode, extra)
	} else if st := strings.TrimPrefix(resp.Status, strconv.Itoa(resp.StatusCode)+" "); st != http.StatusText(sp.status) {
		add("mismatch=reason want=%q got=%q", http.StatusText(sp.status), st)
	}
	want := "HTTP/1.0"
	if cfg.v11 {
		want = "HTTP/1.1"
	}
	if resp.Proto != want {
		add("mismatch=proto want=%s got=%s", want, resp.Proto)
	}
	body, rerr := io.ReadAll(resp.Body)
	if rerr != nil {
		add("mismatch=body-read %v after %d of %d body bytes", rerr, len(body), len(sp.body))
		return
	}
	isTrailer := map[string]bool{}
	for _, k := range sp.trailerKeys {
		isTrailer[k] = true
	}
	for k, vv := range sp.hdr {
		if isTrailer[k] || k == "Transfer-Encoding" || k == "Trailer" {
			continue
		}
		if k == "Content-Length" && wireChunked {
			continue
		}
		got := resp.Header[k]
		if strings.Join(got, "\x00") != strings.Join(vv, "\x00") {
			add("mismatch=header key=%s want=%q got=%q", k, vv, got)
		}
	}
	for k := range resp.Header {
		if _, ok := sp.hdr[k]; ok && !isTrailer[k] {
			continue
		}
		switch k {
		case "Content-Type", "Content-Length", "Connection", "Date":
		default:
			add("mismatch=header unexpected key=%s value=%q", k, resp.Header[k])
		}
	}
	wantBody := sp.body
	if bodiless(sp.status) {
		wantBody = nil
	}
	if !bytes.Equal(body, wantBody) {
		hint := ""
		if bytes.HasSuffix(body, wantBody) && len(wantBody) > 0 {
			hint = " (decoded body = foreign prefix + written bytes)"
		}
		add("mismatch=body want=%s got=%s%s", fp(wantBody), fp(body), hint)
	}
	if !wireChunked && !bodiless(sp.status) {
		if resp.ContentLength < 0 && !closed {
			add("mismatch=framing neither Content-Length nor chunked on a connection that stays open")
		}
		if sp.explicitCL >= 0 && resp.ContentLength != int64(sp.explicitCL) {
			add("mismatch=content-length want=%d got=%d", sp.explicitCL, resp.ContentLength)
		}
	}
	if wireChunked && sp.explicitCL >= 0 {
		add("mismatch=framing chunked although the handler declared Content-Length %d", sp.explicitCL)
	}
	declared := map[string]bool{}
	for _, k := range sp.trailerKeys {
		// the value the handler's map holds under the declared spelling when it returns
		w := ""
		if vv := h[k]; len(vv) > 0 {
			w = vv[0]
		}
		g := resp.Trailer.Get(k) // the client canonicalises the field name
		declared[http.CanonicalHeaderKey(k)] = true
		if w != g {
			add("mismatch=trailer key=%s want=%q got=%q", k, w, g)
		}
	}
	for k := range resp.Trailer {
		if !declared[k] {
			add("mismatch=trailer unexpected key=%s", k)
		}
	}
	if left := br.Buffered() + rd.Len(); left > 0 {
		add("mismatch=leftover %d bytes follow the response", left)
	}
	wantClose := cfg.conn == "close" || (!cfg.v11 && cfg.conn != "ka")
	if sp.feats["flush-identity-nocl"] {
		// the head left before the body was complete and nothing announces its length (identity framing, no
		// Content-Length): the only correct framing is "no Content-Length, body ends with the connection"
		wantClose = true
		if resp.ContentLength >= 0 {
			add("mismatch=content-length a length (%d) is announced by a head that was sent before the body was complete", resp.ContentLength)
		}
	}
	if wantClose != closed {
		add("mismatch=close want=%v got=%v", wantClose, closed)
	}
	if cfg.head && len(wire) > hdEnd+4 {
		add("mismatch=head-body %d bytes follow the head of a response to a HEAD request", len(wire)-hdEnd-4)
	}
	return
}

// ---------------------------------------------------------------- exec

func sizeClass(n int) string {
	switch {
	case n == 0:
		return "0"
	case n < 1024:
		return "s"
	case n < 60000:
		return "m"
	case n < 65000:
		return "n"
	case n <= 66000:
		return "T"
	case n < 140000:
		return "l"
	}
	return "x"
}

func wString(ws []int) string {
	if len(ws) == 0 {
		return "-"
	}
	var s []string
	for _, w := range ws {
		s = append(s, strconv.Itoa(w))
	}
	return strings.Join(s, "+")
}

func execResp(e *lp.Exec, cline string, lines []string, tr *track.Tracker, lg *nullLogger) {
	cfg := parseCfg(strings.Fields(cline))
	e.P("> %s", cline)
	e.P("ok")
	var ops []op
	var echo []string
	okOps := true
	for _, l := range lines {
		o, ok := parseOp(l)
		if !ok {
			okOps = false
		}
		if ok && o.kind == "S" {
			l = fmt.Sprintf("S %d st=%s", o.code, hexOrDash(http.StatusText(o.code)))
		}
		if ok && (o.kind == "H" || o.kind == "A" || o.kind == "X") {
			f := strings.Fields(l)
			n := map[string]int{"H": 3, "A": 3, "X": 2}[o.kind]
			l = strings.Join(f[:n], " ") + " ck=" + hexOrDash(http.CanonicalHeaderKey(o.k))
		}
		if ok && o.kind == "M" { // the map key of a direct assignment is the key as written
			f := strings.Fields(l)
			l = strings.Join(f[:3], " ") + " ck=" + hexOrDash(o.k)
		}
		ops = append(ops, o)
		echo = append(echo, l)
	}
	if !okOps {
		for _, l := range echo {
			e.P("> %s", l)
			e.P("bad-op")
		}
		return
	}
	out := run(cfg, ops, tr, lg)
	var key strings.Builder
	fmt.Fprintf(&key, "%v/%v/%s/%v/%v|", cfg.v11, cfg.head, cfg.conn, cfg.fail > 0, cfg.sf)
	nontrivial := false
	for i, l := range echo {
		e.P("> %s", l)
		if i >= len(out.res) {
			e.P("missing")
			continue
		}
		r := out.res[i]
		if r.text == "F" {
			e.P("F w=%s %s close=%d tr=%s", wString(r.w), report(out.wire), out.closed, r.tr)
		} else if r.text == "dead" || r.text == "done" || strings.HasSuffix(r.text, " dead") || strings.HasSuffix(r.text, "panic") {
			e.P("%s", r.text)
		} else {
			e.P("%s w=%s own=%s tr=%s", r.text, wString(r.w), r.own, r.tr)
			if len(r.w) > 0 {
				nontrivial = true
			}
		}
		fmt.Fprintf(&key, "%s%d", ops[i].kind, len(r.w))
		if ops[i].kind == "W" || ops[i].kind == "WS" {
			key.WriteString(sizeClass(len(lp.Payload(ops[i].pay))))
		}
		e.Count("ops", ops[i].kind)
	}
	sp := out.sp
	fmt.Fprintf(&key, "|ch=%v", out.chunked)
	e.Key(key.String(), nontrivial)
	// --- direct oracles
	for _, v := range out.viol {
		e.Oracle(v.Oracle, "%s | feat=%s", v.Detail, featString(sp.feats))
	}
	for _, w := range out.wnErr {
		e.Oracle("c09-write-n", "%s", w)
	}
	if out.panicked != "" {
		e.Oracle("c09-panic", "handler operation panicked inside nbhttp: %s | feat=%s", out.panicked, featString(sp.feats))
	}
	hasF := false
	for _, o := range ops {
		if o.kind == "F" {
			hasF = true
		}
	}
	if cfg.head {
		sp.feats["head"] = true
	}
	if !cfg.v11 {
		sp.feats["v10"] = true
	}
	if http.StatusText(sp.status) == "" {
		sp.feats["unknown-status"] = true
	}
	if sp.flushed && !out.chunked && sp.explicitCL < 0 && sp.status != 204 && sp.status != 304 {
		sp.feats["flush-identity-nocl"] = true
	}
	sp.insaneIf(bodiless(sp.status) && len(sp.body) > 0, "body-on-bodiless-status")
	// judged on what the handler ASKED to write: a write the implementation refused or lost does not make the
	// handler wrong (a body shorter than a correctly declared Content-Length is then the decoder's finding)
	sp.insaneIf(sp.explicitCL >= 0 && sp.asked != sp.explicitCL && !bodiless(sp.status), "content-length-mismatch")
	sane := len(sp.insane) == 0
	if sane {
		e.Count("cases", "sane")
	} else {
		e.Count("cases", "outside-sane")
		for _, w := range sp.insane {
			e.Count("outside_sane", w)
		}
	}
	if out.chunked {
		e.Count("framing", "chunked")
	} else {
		e.Count("framing", "identity")
	}
	if cfg.fail > 0 {
		e.Count("cases", "conn-error-injected")
	}
	if hasF && sane && cfg.fail == 0 && out.panicked == "" {
		e.Count("cases", "decoded")
		// the handler's final header map is needed for trailer values: rebuild it from the ops
		h := http.Header{}
		for _, o := range ops {
			switch o.kind {
			case "H":
				h.Set(o.k, o.v)
			case "A":
				h.Add(o.k, o.v)
			case "X":
				h.Del(o.k)
			case "M":
				h[o.k] = []string{o.v}
			}
		}
		for _, m := range decodeCheck(cfg, sp, h, out.wire, out.closed > 0) {
			e.Oracle("c09-decode", "%s | feat=%s", m, featString(sp.feats))
		}
	}
}

func hexOrDash(s string) string {
	if s == "" {
		return "-"
	}
	return lp.Hex([]byte(s))
}

func exec(e *lp.Exec) {
	lg := &nullLogger{}
	logging.SetLogger(lg)
	tr := track.New().Install()
	defer cleanupTemp()
	var cline string
	var lines []string
	flush := func() {
		if cline == "" {
			for _, l := range lines {
				e.P("> %s", l)
				e.P("bad-op")
			}
			lines = nil
			return
		}
		f := strings.Fields(cline)
		switch {
		case len(f) > 1 && f[1] == "resp":
			execResp(e, cline, lines, tr, lg)
		case len(f) > 1 && f[1] == "body":
			execBody(e, cline, lines, tr, lg)
		case len(f) > 1 && f[1] == "conn":
			execConn(e, cline, lines, tr, lg)
		case len(f) > 1 && f[1] == "ws":
			execWS(e, cline, lines, tr, lg)
		default:
			e.P("> %s", cline)
			e.P("bad-op")
			for _, l := range lines {
				e.P("> %s", l)
				e.P("bad-op")
			}
		}
		cline, lines = "", nil
	}
	for e.In.Scan() {
		line := strings.TrimSpace(e.In.Text())
		if line == "" {
			continue
		}
		if strings.HasPrefix(line, "C ") {
			flush()
			cline = line
			continue
		}
		lines = append(lines, line)
	}
	flush()
}

func main() { lp.Main(gen, exec) }
