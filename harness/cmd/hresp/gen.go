package main

import (
	"net/http"
	"fmt"
	"strconv"
	"strings"

	"harness/internal/lp"
	"harness/internal/track"

	"github.com/lesismal/nbio/logging"
)

const threshold = 65536

func hexLen(n int) int { return len(strconv.FormatInt(int64(n), 16)) }

type genState struct {
	g   *lp.Gen
	tr  *track.Tracker
	lg  *nullLogger
	cfg caseCfg
	ops []op
}

func (s *genState) add(line string) {
	o, ok := parseOp(line)
	if !ok {
		panic("generator produced a bad op: " + line)
	}
	s.ops = append(s.ops, o)
}

func hx(x string) string {
	if x == "" {
		return "-"
	}
	return lp.Hex([]byte(x))
}

func (s *genState) setH(k, v string) { s.add("H " + hx(k) + " " + hx(v)) }

// setT stores a trailer value: under the declared spelling by direct map assignment (always for a non-canonical
// name: Header.Set would store it under another key), else through Header.Set.
func (s *genState) setT(k, v string) {
	if k != http.CanonicalHeaderKey(k) || s.g.Chance(1, 3) {
		s.add("M " + hx(k) + " " + hx(v))
		return
	}
	s.setH(k, v)
}

// pending runs the program so far on the real code (no injected errors) and returns how many bytes the
// next write would find buffered in front of it (head included, learned from a dry run with a 1-byte
// write when the head is not encoded yet) and whether the response is chunked.
func (s *genState) pending() (pend int, chunked bool) {
	cfg := s.cfg
	cfg.fail = 0
	out := run(cfg, s.ops, s.tr, s.lg)
	if out.panicked != "" {
		return 0, out.chunked
	}
	if !out.headEnc {
		probe := append(append([]op{}, s.ops...), op{kind: "W", pay: "@1:0", line: "W @1:0"})
		o2 := run(cfg, probe, s.tr, s.lg)
		if o2.panicked != "" {
			return 0, o2.chunked
		}
		if o2.chunked {
			if o2.bufLen >= 6 {
				return o2.bufLen - 6, true
			}
			return 0, true
		}
		if o2.headEnc && o2.bodyLen >= 1 {
			return o2.bodyLen - 1, false
		}
		return 0, false // identity without Content-Length: the head is encoded at the end
	}
	if out.chunked {
		if out.bufLen > 0 {
			return out.bufLen, true
		}
		return 0, true
	}
	p := 0
	if out.bufLen > 0 {
		p += out.bufLen
	}
	if out.bodyLen > 0 {
		p += out.bodyLen
	}
	return p, false
}

func (s *genState) randomSize() int {
	g := s.g
	switch g.Intn(9) {
	case 0:
		return 1 + g.Intn(100)
	case 1:
		return 1000 + g.Intn(20000)
	case 2:
		return threshold - 200 + g.Intn(400)
	case 3:
		return g.PickInt(threshold-1, threshold, threshold+1)
	case 4:
		return 70000 + g.Intn(100000)
	case 5:
		return 30000 + g.Intn(10000)
	case 6:
		return 150000 + g.Intn(160000)
	case 7:
		return 0
	}
	return 1 + g.Intn(2000)
}

// nextSize picks the size of the next write: one third of the time so that the buffered amount lands
// on/next to the 64 KiB threshold (head-length aware through the dry run).
func (s *genState) nextSize(limit int) int {
	g := s.g
	n := -1
	if g.Chance(2, 5) {
		pend, chunked := s.pending()
		target := g.PickInt(threshold-1, threshold, threshold+1, threshold, threshold-2, threshold+2)
		if chunked {
			for hl := 1; hl <= 5; hl++ {
				l := target - pend - 4 - hl
				if l > 0 && hexLen(l) == hl {
					n = l
				}
			}
		} else if target-pend > 0 {
			n = target - pend
		}
	}
	if n < 0 {
		n = s.randomSize()
	}
	if limit >= 0 && n > limit {
		n = limit
	}
	return n
}

func value(g *lp.Gen, max int) string {
	const a = "abcdefghijklmnopqrstuvwxyz0123456789 ,;=/\"()-"
	n := g.Intn(max + 1)
	b := make([]byte, n)
	for i := range b {
		b[i] = a[g.Intn(len(a))]
	}
	return strings.TrimSpace(string(b))
}

func genResp(g *lp.Gen, tr *track.Tracker, lg *nullLogger) {
	s := &genState{g: g, tr: tr, lg: lg}
	s.cfg = caseCfg{v11: !g.Chance(1, 4), head: g.Chance(1, 14), conn: g.Pick("none", "none", "none", "ka", "close"), sf: g.Chance(1, 2), mv: g.Chance(1, 3), rc: g.Chance(1, 4)}
	if g.Chance(1, 8) {
		s.cfg.fail = 1 + g.Intn(4)
	}
	// ---- headers
	if !g.Chance(1, 15) {
		s.setH("Date", "D")
	}
	if g.Chance(1, 2) {
		s.setH("Content-Type", g.Pick("t/x", "application/json", "text/html; charset=utf-8"))
	}
	if g.Chance(1, 3) {
		s.setH(g.Pick("X-A", "Cache-Control", "Server", "X-Request-Id"), value(g, 40))
	}
	if g.Chance(1, 6) {
		// two values of one field name, in either lexical order: their wire order is the handler's (compared)
		s.add("A " + hx("Set-Cookie") + " " + hx(g.Pick("a=", "z=")+value(g, 8)))
		s.add("A " + hx("Set-Cookie") + " " + hx("m="+value(g, 8)))
	}
	if g.Chance(1, 4) {
		s.setH("X-Pad", strings.Repeat("p", 1+g.Intn(g.PickInt(50, 900, 3000))))
	}
	if g.Chance(1, 12) {
		s.add("X " + hx(g.Pick("X-A", "Content-Type", "Date")))
	}
	// ---- ReadFrom shapes
	if g.Chance(1, 9) {
		genReadFrom(s)
		emit(s)
		return
	}
	// ---- framing
	mode := "auto"
	switch g.Intn(10) {
	case 0, 1, 2, 3:
		mode = "cl"
	case 4:
		mode = "te"
	}
	if mode == "te" {
		s.setH("Transfer-Encoding", "chunked")
	}
	total := -1
	if mode == "cl" {
		switch g.Intn(6) {
		case 0:
			total = g.Intn(200)
		case 1:
			total = threshold - 300 + g.Intn(600)
		case 2:
			total = 66000 + g.Intn(80000)
		case 3:
			total = 130000 + g.Intn(10000)
		default:
			total = 100000 + g.Intn(500000)
		}
		s.setH("Content-Length", strconv.Itoa(total))
	}
	var trailers []string
	if mode != "cl" && g.Chance(1, 4) {
		nt := 1 + g.Intn(3)
		for i := 0; i < nt; i++ {
			k := g.Pick("X-Sum", "X-T1", "X-T2", "Etag-Late", "x-sum2", "x-Trail-3") // the last two: declared under a non-canonical spelling
			dup := false
			for _, t := range trailers {
				dup = dup || t == k
			}
			if dup {
				continue
			}
			trailers = append(trailers, k)
			if i == 0 {
				s.setH("Trailer", k)
			} else {
				s.add("A " + hx("Trailer") + " " + hx(k))
			}
		}
	}
	late := map[string]bool{}
	for _, k := range trailers {
		switch g.Intn(4) {
		case 0: // value known before the body
			s.setT(k, "early"+value(g, 6))
		case 1: // never set
		default:
			late[k] = true
		}
	}
	if g.Chance(1, 3) {
		s.add(fmt.Sprintf("S %d", g.PickInt(200, 200, 201, 404, 500, 204, 304, 299, 600, 418, 100)))
	}
	// ---- body
	nw := g.Intn(6)
	if g.Chance(1, 10) {
		nw = 6 + g.Intn(3)
	}
	remaining := total
	for i := 0; i < nw; i++ {
		if g.Chance(1, 6) {
			s.add("L")
		}
		n := s.nextSize(remaining)
		if total >= 0 && i == nw-1 {
			n = remaining
		}
		if total >= 0 {
			remaining -= n
		}
		s.add(g.Pick("W", "W", "W", "WS") + fmt.Sprintf(" @%d:%d", n, g.Intn(256)))
		// a trailer value becoming known in the middle of the body
		for k := range late {
			if g.Chance(1, 4) {
				s.setT(k, "mid"+value(g, 5))
				delete(late, k)
				break
			}
		}
	}
	if total >= 0 && remaining > 0 && nw == 0 && !g.Chance(1, 6) {
		s.add(fmt.Sprintf("W @%d:%d", remaining, g.Intn(256)))
		remaining = 0
	}
	// neighbours outside Sane: body shorter/longer than the declared length, a late header
	if total >= 0 && g.Chance(1, 12) {
		s.add(fmt.Sprintf("W @%d:%d", 1+g.Intn(10), g.Intn(256)))
	}
	if g.Chance(1, 25) {
		s.setH("X-Late", "v")
	}
	if g.Chance(1, 6) {
		s.add("L")
	}
	for _, k := range trailers {
		if late[k] {
			s.setT(k, "late"+value(g, 6))
		}
	}
	emit(s)
}

func genReadFrom(s *genState) {
	g := s.g
	n := g.PickInt(0, 1, 100, 5000, 40000, threshold-1, threshold, 70000, 200000)
	if g.Chance(1, 3) {
		n = g.Intn(100000)
	}
	shape := g.Intn(8)
	withCL := shape != 1
	withWH := shape != 2
	if withCL {
		pre := 0
		if shape == 3 {
			pre = 1 + g.Intn(5000)
		}
		s.setH("Content-Length", strconv.Itoa(n+pre))
		if withWH {
			s.add("S 200")
		}
		if shape == 3 { // a Write before ReadFrom
			s.add(fmt.Sprintf("W @%d:%d", pre, g.Intn(256)))
		}
		if shape == 4 {
			s.add("L")
		}
	} else if withWH {
		s.add("S 200")
	}
	kind := g.Pick("l", "l", "l", "p", "f", "m", "m")
	s.add(fmt.Sprintf("RF %s %d %d %d", kind, n, g.Intn(256), g.PickInt(0, 0, 7, 4096)))
}

func emit(s *genState) {
	s.g.P("%s", s.cfg.String())
	for _, o := range s.ops {
		s.g.P("%s", o.line)
	}
	s.g.P("F")
}

func gen(g *lp.Gen) {
	lg := &nullLogger{}
	logging.SetLogger(lg)
	tr := track.New().Install()
	defer cleanupTemp()
	for cs := 0; cs < g.N; cs++ {
		if g.Chance(1, 6) {
			genBody(g)
			continue
		}
		if g.Chance(1, 8) {
			genConn(g)
			continue
		}
		if g.Chance(1, 7) {
			genWS(g)
			continue
		}
		genResp(g, tr, lg)
	}
}
