package main

// Core connection write queue, ownership side of C11 (conn_unix.go: newToWriteBuf / releaseToWrite /
// flush / closeWithErrorWithoutLock). A real nbio.Conn on a vsys virtual descriptor, kernel answers
// scripted, the tracking allocator installed as the engine's Config.BodyAllocator; every buffer handed
// to the kernel is checked against the live set (vsys.WriteCheck).
//
//	C conn typ=<tcp|unix> maxwb=<n> fsize=<n> rc=<0|1>
//	O write <n> K=<ans>             ans: w<n> | eagain | eintr | fail | - (script exhausted = EAGAIN)
//	O writev <n1,n2,...> K=<ans>
//	O sendfile <off> <len> K=<a1,a2,...>
//	O flush K=<a1,a2,...>           Conn.flush, what the poller runs on a writable event
//	O close
//
//	R err=<none|closed|overflow|io> q=<items: b<len>/<off> | f<remain>> tr=<allocator/kernel events>

import (
	"errors"
	"fmt"
	"io"
	"os"
	"strconv"
	"strings"
	"syscall"

	"harness/internal/lp"
	"harness/internal/track"

	"github.com/lesismal/nbio"
	"github.com/lesismal/nbio/vsys"
)

var connEngine *nbio.Engine

func getConnEngine(tr *track.Tracker) *nbio.Engine {
	if connEngine != nil {
		return connEngine
	}
	vsys.VirtualAll = true
	vsys.WriteCheck = func(fd int, b []byte) { tr.NoteWrite(b) }
	g := nbio.NewEngine(nbio.Config{NPoller: 1, Name: "hresp-conn", BodyAllocator: tr})
	if err := g.Start(); err != nil {
		panic(err)
	}
	connEngine = g
	return g
}

func parseAnsList(s string) ([]vsys.Ans, bool) {
	var out []vsys.Ans
	if s == "-" || s == "" {
		return out, true
	}
	for _, t := range strings.Split(s, ",") {
		switch {
		case t == "eagain":
			out = append(out, vsys.Ans{Err: syscall.EAGAIN})
		case t == "eintr":
			out = append(out, vsys.Ans{Err: syscall.EINTR})
		case t == "fail":
			out = append(out, vsys.Ans{Err: syscall.EPIPE})
		case strings.HasPrefix(t, "w"):
			n, err := strconv.Atoi(t[1:])
			if err != nil || n <= 0 {
				return nil, false
			}
			out = append(out, vsys.Ans{N: n})
		default:
			return nil, false
		}
	}
	return out, true
}

func connErrName(err error) string {
	switch {
	case err == nil:
		return "none"
	case errors.Is(err, nbio.ErrOverflow):
		return "overflow"
	case strings.Contains(err.Error(), "use of closed"):
		return "closed"
	}
	return "io"
}

func execConn(e *lp.Exec, cline string, lines []string, tr *track.Tracker, lg *nullLogger) {
	f := strings.Fields(cline)
	typ := field(f, "typ")
	maxwb, e1 := strconv.Atoi(field(f, "maxwb"))
	fsize, e2 := strconv.Atoi(field(f, "fsize"))
	e.P("> %s", cline)
	if (typ != "tcp" && typ != "unix") || e1 != nil || e2 != nil || fsize < 0 || fsize > 8<<20 {
		e.P("bad-op")
		for _, l := range lines {
			e.P("> %s", l)
			e.P("bad-op")
		}
		return
	}
	g := getConnEngine(tr)
	tr.Reset()
	tr.MoveOnGrow = false
	tr.Recycle = field(f, "rc") == "1"
	g.MaxWriteBufferSize = maxwb
	fd, v := vsys.NewVFD()
	ct := nbio.ConnTypeTCP
	if typ == "unix" {
		ct = nbio.ConnTypeUnix
	}
	c := nbio.VerifNewConn(fd, ct)
	if _, err := g.AddConn(c); err != nil {
		e.P("bad-op addconn: %v", err)
		return
	}
	e.P("ok")
	var file *os.File
	if fsize > 0 {
		file = tempFile(lp.Pattern(fsize, 3))
		defer func() { file.Close(); os.Remove(file.Name()) }()
	}
	var key strings.Builder
	fmt.Fprintf(&key, "conn/%s/%v|", typ, maxwb > 0)
	nontrivial := false
	state := func() string {
		st := c.VerifWriteState(false)
		var it []string
		for _, x := range st.Items {
			if x.File {
				it = append(it, fmt.Sprintf("f%d", x.Remain))
			} else {
				it = append(it, fmt.Sprintf("b%d/%d", x.Len, x.Off))
			}
		}
		if len(it) == 0 {
			return "-"
		}
		return strings.Join(it, ",")
	}
	for _, l := range lines {
		ff := strings.Fields(l)
		e.P("> %s", l)
		if len(ff) < 2 || ff[0] != "O" {
			e.P("bad-op")
			continue
		}
		ks, ok := parseAnsList(field(ff, "K"))
		if !ok {
			e.P("bad-op")
			continue
		}
		v.SetScript(ks)
		var err error
		switch {
		case ff[1] == "write" && len(ff) >= 3:
			n, _ := strconv.Atoi(ff[2])
			_, err = c.Write(lp.Pattern(n, 9))
		case ff[1] == "writev" && len(ff) >= 3:
			var in [][]byte
			for _, t := range strings.Split(ff[2], ",") {
				n, _ := strconv.Atoi(t)
				in = append(in, lp.Pattern(n, 11))
			}
			_, err = c.Writev(in)
		case ff[1] == "sendfile" && len(ff) >= 4 && file != nil:
			off, _ := strconv.Atoi(ff[2])
			ln, _ := strconv.Atoi(ff[3])
			if off > fsize {
				e.P("bad-op")
				continue
			}
			file.Seek(int64(off), io.SeekStart)
			_, err = c.Sendfile(file, int64(ln))
		case ff[1] == "flush":
			err = c.VerifFlush()
			if errors.Is(err, syscall.EAGAIN) {
				err = nil
			}
		case ff[1] == "close":
			c.Close()
		default:
			e.P("bad-op")
			continue
		}
		v.SetScript(nil)
		var owners []track.Owner
		for i, h := range c.VerifWriteHandles() {
			owners = append(owners, track.Owner{Name: fmt.Sprintf("Conn.writeList[%d].buf", i), Handle: h})
		}
		tr.CheckOwners(owners...)
		q := state()
		if q != "-" {
			nontrivial = true
		}
		e.P("R err=%s q=%s tr=%s", connErrName(err), q, tr.TakeTrace())
		fmt.Fprintf(&key, "%s:%s:%d,", ff[1], connErrName(err), strings.Count(q, ",")+1)
		e.Count("conn_ops", ff[1])
	}
	if st := c.VerifWriteState(false); !st.Closed {
		c.Close()
	}
	tr.Audit()
	for _, vi := range tr.Drain() {
		e.Oracle(vi.Oracle, "%s | conn case", vi.Detail)
	}
	vsys.Forget(fd)
	e.Key(key.String(), nontrivial)
	e.Count("cases", "conn")
}

func genConn(g *lp.Gen) {
	maxwb := 0
	if g.Chance(1, 5) {
		maxwb = g.PickInt(1000, 70000, 200000)
	}
	fsize := 0
	if g.Chance(1, 3) {
		fsize = g.PickInt(100, 5000, 100000)
	}
	rc := 0
	if g.Chance(1, 4) {
		rc = 1
	}
	g.P("C conn typ=%s maxwb=%d fsize=%d rc=%d", g.Pick("tcp", "tcp", "unix"), maxwb, fsize, rc)
	size := func() int {
		return g.PickInt(0, 1, 63, 64, 65, 100, 100, 1000, 3000, 3000, 30000, 65535, 65536, 65537, 70000, 200000)
	}
	ans := func(n int) string {
		switch g.Intn(8) {
		case 0, 1:
			return "eagain"
		case 2:
			return "eintr"
		case 3:
			if g.Chance(1, 3) {
				return "fail"
			}
			return "-"
		case 4:
			return fmt.Sprintf("w%d", 1+g.Intn(n+1))
		case 5:
			return fmt.Sprintf("w%d", n+10)
		}
		return fmt.Sprintf("w%d", 1+g.Intn(1+n/2))
	}
	nops := 2 + g.Intn(10)
	for i := 0; i < nops; i++ {
		switch g.Intn(10) {
		case 0, 1, 2, 3:
			n := size()
			g.P("O write %d K=%s", n, ans(n))
		case 4, 5:
			var ns []string
			tot := 0
			for j, k := 0, g.Intn(5); j < k; j++ {
				n := size() % 70001
				tot += n
				ns = append(ns, strconv.Itoa(n))
			}
			if len(ns) == 0 {
				ns = []string{"0"}
			}
			g.P("O writev %s K=%s", strings.Join(ns, ","), ans(tot))
		case 6:
			if fsize > 0 {
				off := g.Intn(fsize + 1)
				ln := g.PickInt(0, 1, fsize/2, fsize*2)
				g.P("O sendfile %d %d K=%s,%s", off, ln, ans(fsize), ans(fsize))
			} else {
				g.P("O flush K=%s", ans(1000))
			}
		case 7, 8:
			var ks []string
			for j, k := 0, g.Intn(5); j < k; j++ {
				ks = append(ks, ans(70000))
			}
			if len(ks) == 0 {
				ks = []string{"-"}
			}
			g.P("O flush K=%s", strings.Join(ks, ","))
		case 9:
			if g.Chance(1, 2) {
				g.P("O close")
			} else {
				g.P("O write 10 K=eagain")
			}
		}
	}
}
