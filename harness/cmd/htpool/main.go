// htpool: executors (C19) on the real taskpool.TaskPool / IOTaskPool.
//
// The harness acts, waits until the implementation is *stable* (internal/quiesce: every goroutine is
// blocked — tasks on their gates, Go callers on a full queue or parked in the atomic hook, the
// dispatcher in its select) and reports what it observes. Interleavings of the real code are not
// enumerated: Lean quantifies over all schedules of the model; the harness replays chosen ones at the
// model's granularity (the atomic hook vsys.AtomicHook64 parks a Go call right after its failed
// increment or right after its decrement) and the driver checks that the observed stable state is one
// of the model's stable successor states.
//
// ops:   C bound=<n> q=<n> io=<0|1> cc=<0|1>   taskpool.New(bound, q) / taskpool.NewIO(bound, q, 64); cc=1: with a
//
//	                                   custom caller (the optional third argument of New)
//	go t park=<-|inc|undo>            a goroutine calls Go(task t); park: hold that call in the hook
//	rel t | relr k                    release the parked Go call of task t / of the k-th parked task
//	fin t p=<0|1> | finr k p=<0|1>    open the gate of running task t / of the k-th running task (p=1: it panics)
//	stop                              Stop()
//	par k base                        (pool idle) hand over k gated tasks base..base+k-1 one after the other
//
// exec echoes relr/finr as rel/fin with the task it chose and appends the observation
//
//	o=<concurrent>/<len(queue)>/<running>/<finished>/<tasks whose Go has not returned>
//
// which is also the result line.
//
// Direct oracles (implementation only):
//
//	c19-bound        more than `bound` tasks inside f() at the same time
//	c19-once         a task ran twice; a task handed over before Stop never ran ("stop-drop" when it was
//	                 still queued at Stop, "lost" otherwise)
//	c19-panic        a panicking task was not contained (logged once, pool keeps working)
//	c19-parallelism  the pool is idle again, yet fewer mutually waiting tasks can run together than on a
//	                 fresh pool of the same configuration
//	c19-iobuf        IOTaskPool: two running tasks were given the same buffer / a buffer of the wrong size
package main

import (
	"fmt"
	"runtime"
	"sort"
	"strconv"
	"strings"
	"sync"
	"sync/atomic"
	"time"

	"harness/internal/childcase"
	"harness/internal/lp"
	"harness/internal/quiesce"

	"github.com/lesismal/nbio/logging"
	"github.com/lesismal/nbio/taskpool"
	"github.com/lesismal/nbio/vsys"
)

// ---------------------------------------------------------------- generator

func gen(g *lp.Gen) {
	for cs := 0; cs < g.N; cs++ {
		bound := g.PickInt(1, 2, 2, 3, 3, 3, 4, 4, 5, 6)
		if g.Chance(1, 25) {
			bound = 0
		}
		q := g.PickInt(0, 1, 1, 2, 2, 4, 8)
		g.P("C bound=%d q=%d io=%d cc=%d", bound, q, b2i(g.Chance(1, 5)), b2i(g.Chance(1, 4)))
		next := 1
		handed := 0
		outstanding := 0
		stopped := false
		stopAt := -1
		nops := 8 + g.Intn(30)
		if g.Chance(1, 3) {
			stopAt = g.Intn(nops)
		}
		overload := g.Chance(2, 3)
		for i := 0; i < nops; i++ {
			if i == stopAt {
				g.P("stop")
				stopped = true
				continue
			}
			r := g.Intn(100)
			goBias := 45
			if overload && i < nops/2 {
				goBias = 75
			}
			if outstanding > bound+q+3 {
				goBias = 0
			}
			switch {
			case r < goBias:
				park := "-"
				if g.Chance(1, 5) {
					park = g.Pick("inc", "undo")
				}
				g.P("go %d park=%s", next, park)
				next++
				handed++
				outstanding++
			case r < goBias+8:
				g.P("relr %d", g.Intn(3))
			default:
				k := 0
				if g.Chance(1, 3) {
					k = g.Intn(3)
				}
				g.P("finr %d p=%d", k, b2i(g.Chance(1, 6)))
				if k == 0 && outstanding > 0 { // finr 0 succeeds whenever anything runs
					outstanding--
				}
			}
		}
		if !stopped && g.Chance(3, 4) {
			// back to idle, then the barrier probe
			for i := 0; i < 3; i++ {
				g.P("relr 0")
			}
			for i := 0; i < handed+2; i++ {
				g.P("finr 0 p=0")
			}
			k := bound
			if k < 1 {
				k = 1
			}
			if g.Chance(1, 4) {
				k = 1 + g.Intn(bound+2)
			}
			g.P("par %d %d", k, 500)
			for i := 0; i < k+1; i++ {
				g.P("finr 0 p=0")
			}
			if g.Chance(1, 3) {
				g.P("go %d park=-", next)
				g.P("stop")
				g.P("finr 0 p=0")
			}
		}
	}
}

func b2i(b bool) int {
	if b {
		return 1
	}
	return 0
}

// ---------------------------------------------------------------- executor

type task struct {
	id           int
	gate         chan struct{}
	panics       bool
	starts       int32
	ends         int32
	returned     int32 // the Go call returned
	called       bool
	preStop      bool // Go was called before Stop
	retStop      bool // ... and had returned when Stop was called
	queuedAtStop bool // Go had returned and the task had not started when Stop was called (it sat in the queue)
	parked       int32
	release      chan struct{}
	mode         string
}

type capLogger struct{ n int32 }

func (l *capLogger) Debug(f string, v ...interface{}) {}
func (l *capLogger) Info(f string, v ...interface{})  {}
func (l *capLogger) Warn(f string, v ...interface{})  {}
func (l *capLogger) Error(f string, v ...interface{}) {
	if strings.Contains(f, "taskpool call failed") {
		atomic.AddInt32(&l.n, 1)
	}
}

type pool struct {
	bound, q int
	io, cc   bool
	tp       *taskpool.TaskPool
	iop      *taskpool.IOTaskPool
}

var customPanics int32

// customCaller is what a user of taskpool.New's optional argument would pass: run f, contain its panic.
func customCaller(f func()) {
	defer func() {
		if r := recover(); r != nil {
			atomic.AddInt32(&customPanics, 1)
		}
	}()
	f()
}

func newPool(bound, q int, io, cc bool) *pool {
	p := &pool{bound: bound, q: q, io: io, cc: cc}
	var v []interface{}
	if cc {
		v = append(v, customCaller)
	}
	if io {
		p.iop = taskpool.NewIO(bound, q, 64, v...)
		p.tp = p.iop.VerifTask()
	} else {
		p.tp = taskpool.New(bound, q, v...)
	}
	return p
}

type sess struct {
	p        *pool
	mu       sync.Mutex
	tasks    map[int]*task
	order    []int
	byGoid   map[int64]*task
	cur      int32
	maxCur   int32
	bufs     map[*[]byte]int
	stopped  bool
	npanic   int32
	key      strings.Builder
	nontriv  bool
	overload bool
	e        *lp.Exec
	late     []string // oracle reports raised on task goroutines, flushed by the main goroutine
}

var current atomic.Value // *sess

func goid() int64 {
	var b [64]byte
	n := runtime.Stack(b[:], false)
	f := strings.Fields(string(b[:n]))
	if len(f) < 2 {
		return -1
	}
	id, _ := strconv.ParseInt(f[1], 10, 64)
	return id
}

// hook: called in the goroutine that performed the atomic add.
func hook(pc *int64, d, v int64) {
	s, _ := current.Load().(*sess)
	if s == nil || pc != s.p.tp.VerifCounterAddr() {
		return
	}
	s.mu.Lock()
	t := s.byGoid[goid()]
	s.mu.Unlock()
	if t == nil || t.mode == "" {
		return
	}
	maxC := int64(s.p.bound - 1)
	if (t.mode == "inc" && d == 1 && v >= maxC) || (t.mode == "undo" && d == -1) {
		t.mode = ""
		atomic.StoreInt32(&t.parked, 1)
		<-t.release
		atomic.StoreInt32(&t.parked, 0)
	}
}

func (s *sess) body(t *task) func() {
	return func() {
		atomic.AddInt32(&t.starts, 1)
		c := atomic.AddInt32(&s.cur, 1)
		for {
			m := atomic.LoadInt32(&s.maxCur)
			if c <= m || atomic.CompareAndSwapInt32(&s.maxCur, m, c) {
				break
			}
		}
		<-t.gate
		atomic.AddInt32(&s.cur, -1)
		atomic.AddInt32(&t.ends, 1)
		if t.panics {
			panic("task panics")
		}
	}
}

func (s *sess) submit(t *task) {
	s.mu.Lock()
	s.byGoid[goid()] = t
	s.mu.Unlock()
	f := s.body(t)
	if s.p.io {
		s.p.iop.Go(func(pbuf *[]byte) {
			s.mu.Lock()
			if pbuf == nil || len(*pbuf) != 64 {
				s.late = append(s.late, fmt.Sprintf("task %d got a buffer of the wrong size", t.id))
			} else if o, dup := s.bufs[pbuf]; dup {
				s.late = append(s.late, fmt.Sprintf("tasks %d and %d run at the same time with the same buffer", o, t.id))
			}
			s.bufs[pbuf] = t.id
			s.mu.Unlock()
			defer func() {
				s.mu.Lock()
				delete(s.bufs, pbuf)
				s.mu.Unlock()
			}()
			f()
		})
	} else {
		s.p.tp.Go(f)
	}
	atomic.StoreInt32(&t.returned, 1)
	s.mu.Lock()
	delete(s.byGoid, goid())
	s.mu.Unlock()
}

func (s *sess) newTask(id int, mode string) *task {
	t := &task{id: id, gate: make(chan struct{}), release: make(chan struct{}), called: true, preStop: !s.stopped}
	if mode == "inc" || mode == "undo" {
		t.mode = mode
	}
	s.mu.Lock()
	s.tasks[id] = t
	s.order = append(s.order, id)
	s.mu.Unlock()
	return t
}

func join(ids []int) string {
	sort.Ints(ids)
	p := make([]string, len(ids))
	for i, x := range ids {
		p[i] = strconv.Itoa(x)
	}
	return strings.Join(p, ",")
}

func (s *sess) sets() (run, done, blk, parked []int) {
	for _, id := range s.order {
		t := s.tasks[id]
		st, en := atomic.LoadInt32(&t.starts), atomic.LoadInt32(&t.ends)
		if st > en {
			run = append(run, id)
		}
		if en > 0 {
			done = append(done, id)
		}
		if atomic.LoadInt32(&t.returned) == 0 {
			blk = append(blk, id)
		}
		if atomic.LoadInt32(&t.parked) == 1 {
			parked = append(parked, id)
		}
	}
	return
}

// observe waits for stability and returns the observation token.
func (s *sess) observe() string {
	if !quiesce.Wait(30 * time.Second) {
		_, who := quiesce.Busy()
		return "timeout(" + strings.ReplaceAll(who, " ", "_") + ")"
	}
	run, done, blk, _ := s.sets()
	if len(blk) > 0 || s.p.tp.VerifQueueLen() > 0 {
		s.overload = true
	}
	s.mu.Lock()
	if s.e != nil {
		for _, m := range s.late {
			s.e.Oracle("c19-iobuf", "%s", m)
		}
	}
	s.late = nil
	s.mu.Unlock()
	return fmt.Sprintf("%d/%d/%s/%s/%s", s.p.tp.VerifConcurrent(), s.p.tp.VerifQueueLen(), join(run), join(done), join(blk))
}

var freshCap = map[string]int{}

// capacityOfFreshPool: how many mutually waiting tasks a fresh pool of this configuration runs together.
func capacityOfFreshPool(bound, q int, io, cc bool) int {
	k := fmt.Sprintf("%d/%d/%v/%v", bound, q, io, cc)
	if c, ok := freshCap[k]; ok {
		return c
	}
	s := &sess{p: newPool(bound, q, io, cc), tasks: map[int]*task{}, byGoid: map[int64]*task{}, bufs: map[*[]byte]int{}, e: nil}
	n := bound + 2
	for i := 0; i < n; i++ {
		t := s.newTask(i, "")
		go s.submit(t)
		quiesce.Wait(30 * time.Second)
	}
	run, _, _, _ := s.sets()
	c := len(run)
	for round := 0; round < n+2; round++ {
		run, _, _, _ := s.sets()
		for _, id := range run {
			close(s.tasks[id].gate)
		}
		quiesce.Wait(30 * time.Second)
	}
	s.p.tp.Stop()
	quiesce.Wait(30 * time.Second)
	freshCap[k] = c
	return c
}

// exec: cases that contain a panicking task run in a child process (a panic the pool does not contain
// kills the process; the parent turns that into the direct-oracle report c19-panic with the case as the
// failing input); everything else runs in-process.
func exec(e *lp.Exec) {
	if childcase.IsChild() {
		execStream(e)
		return
	}
	var batch []string
	flush := func() {
		if len(batch) > 0 {
			e.In = childcase.Scanner(batch)
			execStream(e)
			batch = nil
		}
	}
	for _, cs := range childcase.Split(e.In) {
		risky := false
		for _, l := range cs {
			if strings.Contains(l, " p=1") {
				risky = true
			}
		}
		if !risky {
			batch = append(batch, cs...)
			continue
		}
		flush()
		if crashed, why := childcase.Run(e, cs); crashed {
			e.Oracle("c19-panic", "not contained: a panicking task killed the process (%s)", why)
			e.Key("crash|"+cs[0], true)
		}
	}
	flush()
}

func execStream(e *lp.Exec) {
	lg := &capLogger{}
	logging.SetLogger(lg)
	vsys.AtomicHook64 = hook
	var s *sess
	finish := func() {
		if s != nil {
			s.finish(lg)
			s = nil
		}
	}
	for e.In.Scan() {
		line := e.In.Text()
		f := strings.Fields(line)
		if len(f) == 0 {
			continue
		}
		kv := map[string]string{}
		var nums []int
		okNums := true
		for _, t := range f[1:] {
			if i := strings.IndexByte(t, '='); i > 0 {
				kv[t[:i]] = t[i+1:]
			} else {
				n, err := strconv.Atoi(t)
				if err != nil {
					okNums = false
				}
				nums = append(nums, n)
			}
		}
		bad := func() { e.P("> %s", line); e.P("bad-op") }
		if !okNums || (f[0] != "C" && s == nil) {
			bad()
			continue
		}
		switch f[0] {
		case "C":
			finish()
			bound, err1 := strconv.Atoi(kv["bound"])
			q, err2 := strconv.Atoi(kv["q"])
			if err1 != nil || err2 != nil || bound < 0 || bound > 16 || q < 0 || q > 64 {
				bad()
				continue
			}
			io := kv["io"] == "1"
			cc := kv["cc"] == "1"
			capacityOfFreshPool(bound, q, io, cc)
			atomic.StoreInt32(&lg.n, 0)
			atomic.StoreInt32(&customPanics, 0)
			s = &sess{p: newPool(bound, q, io, cc), tasks: map[int]*task{}, byGoid: map[int64]*task{}, bufs: map[*[]byte]int{}, e: e}
			current.Store(s)
			fmt.Fprintf(&s.key, "%d/%d/%v/%v|", bound, q, io, cc)
			e.Count("cases", fmt.Sprintf("bound%d", bound))
			if cc {
				e.Count("cases", "custom-caller")
			}
			e.P("> C bound=%d q=%d io=%d cc=%d", bound, q, b2i(io), b2i(cc))
			e.P("ok")
		case "go":
			if len(nums) < 1 {
				bad()
				continue
			}
			if _, dup := s.tasks[nums[0]]; dup {
				e.P("> %s", line)
				e.P("rejected")
				continue
			}
			mode := kv["park"]
			t := s.newTask(nums[0], mode)
			if s.stopped {
				e.Count("stop-outcome", "go-after-stop")
			}
			go s.submit(t)
			o := s.observe()
			if mode != "inc" && mode != "undo" {
				mode = "-"
			}
			e.P("> go %d park=%s o=%s", t.id, mode, o)
			e.P("o=%s", o)
			fmt.Fprintf(&s.key, "g%s%d,", mode[:1], len(strings.Split(o, "/")[2]))
			e.Count("ops", "go")
		case "rel", "relr":
			if len(nums) < 1 {
				bad()
				continue
			}
			_, _, _, parked := s.sets()
			var t *task
			if f[0] == "rel" {
				t = s.tasks[nums[0]]
				if t != nil && atomic.LoadInt32(&t.parked) == 0 {
					t = nil
				}
			} else if nums[0] < len(parked) {
				t = s.tasks[parked[nums[0]]]
			}
			if t == nil {
				e.P("> %s", line)
				e.P("rejected")
				continue
			}
			t.release <- struct{}{}
			o := s.observe()
			e.P("> rel %d o=%s", t.id, o)
			e.P("o=%s", o)
			s.key.WriteString("r,")
			s.nontriv = true
			e.Count("ops", "release-parked-go")
		case "fin", "finr":
			if len(nums) < 1 {
				bad()
				continue
			}
			run, _, _, _ := s.sets()
			var t *task
			if f[0] == "fin" {
				t = s.tasks[nums[0]]
				if t != nil && !(atomic.LoadInt32(&t.starts) > atomic.LoadInt32(&t.ends)) {
					t = nil
				}
			} else if nums[0] < len(run) {
				sort.Ints(run)
				t = s.tasks[run[nums[0]]]
			}
			if t == nil {
				e.P("> %s", line)
				e.P("rejected")
				continue
			}
			t.panics = kv["p"] == "1"
			if t.panics {
				s.npanic++
			}
			close(t.gate)
			o := s.observe()
			e.P("> fin %d p=%d o=%s", t.id, b2i(t.panics), o)
			e.P("o=%s", o)
			fmt.Fprintf(&s.key, "f%v,", t.panics)
			e.Count("ops", "finish")
		case "stop":
			if s.stopped {
				e.P("> %s", line)
				e.P("rejected")
				continue
			}
			s.stopped = true
			for _, id := range s.order {
				t := s.tasks[id]
				t.retStop = atomic.LoadInt32(&t.returned) == 1
				t.queuedAtStop = t.retStop && atomic.LoadInt32(&t.starts) == 0
			}
			// the Stop dimension (what Stop meets), printed in the evidence distribution
			{
				run, _, blk, parked := s.sets()
				ql := s.p.tp.VerifQueueLen()
				switch {
				case ql > 0 && len(blk) > 0:
					e.Count("stop-meets", "queue-nonempty+go-blocked")
				case ql > 0:
					e.Count("stop-meets", "queue-nonempty")
				case len(blk) > 0 && len(parked) == len(blk):
					e.Count("stop-meets", "go-parked-in-hook")
				case len(blk) > 0:
					e.Count("stop-meets", "go-blocked")
				case len(run) > 0:
					e.Count("stop-meets", "tasks-running")
				default:
					e.Count("stop-meets", "idle")
				}
			}
			s.p.tp.Stop()
			o := s.observe()
			e.P("> stop o=%s", o)
			e.P("o=%s", o)
			s.key.WriteString("stop,")
			s.nontriv = true
			e.Count("ops", "stop")
		case "par":
			if len(nums) < 2 || nums[0] < 1 || nums[0] > 32 {
				bad()
				continue
			}
			k, base := nums[0], nums[1]
			run, done, blk, parked := s.sets()
			clash := false
			for i := 0; i < k; i++ {
				if _, dup := s.tasks[base+i]; dup {
					clash = true
				}
			}
			if s.stopped || len(run) > 0 || len(blk) > 0 || len(parked) > 0 || len(done) != len(s.order) || clash {
				e.P("> %s", line)
				e.P("rejected")
				continue
			}
			for i := 0; i < k; i++ {
				t := s.newTask(base+i, "")
				go s.submit(t)
				quiesce.Wait(30 * time.Second)
			}
			o := s.observe()
			run, _, _, _ = s.sets()
			want := capacityOfFreshPool(s.p.bound, s.p.q, s.p.io, s.p.cc)
			if k < want {
				want = k
			}
			if len(run) < want {
				e.Oracle("c19-parallelism", "pool(bound=%d, queue=%d) is idle again after %d tasks (overload seen: %v) but only %d of %d mutually waiting tasks run together (fresh pool: %d)",
					s.p.bound, s.p.q, len(s.order)-k, s.overload, len(run), k, want)
			}
			e.P("> par %d %d o=%s", k, base, o)
			e.P("o=%s", o)
			fmt.Fprintf(&s.key, "par%d/%d,", k, len(run))
			s.nontriv = true
			e.Count("ops", "barrier-probe")
		default:
			bad()
		}
	}
	finish()
}

// finish: release everything, evaluate the property on the implementation alone, dispose of the pool.
func (s *sess) finish(lg *capLogger) {
	e := s.e
	for round := 0; round < 10000; round++ {
		quiesce.Wait(30 * time.Second)
		run, _, _, parked := s.sets()
		if len(run) == 0 && len(parked) == 0 {
			break
		}
		for _, id := range parked {
			s.tasks[id].release <- struct{}{}
		}
		for _, id := range run {
			close(s.tasks[id].gate)
		}
	}
	if !quiesce.Wait(30 * time.Second) {
		e.Oracle("c19-once", "hang: the pool did not become stable after all tasks were released")
	}
	if s.p.bound >= 1 && int(atomic.LoadInt32(&s.maxCur)) > s.p.bound {
		e.Oracle("c19-bound", "%d tasks were running at the same time, bound %d", s.maxCur, s.p.bound)
	}
	ran := 0
	for _, id := range s.order {
		t := s.tasks[id]
		st := atomic.LoadInt32(&t.starts)
		if st > 1 {
			e.Oracle("c19-once", "twice: task %d ran %d times", id, st)
		}
		if st >= 1 {
			ran++
			if t.panics {
				ran += 0
			}
		}
		if s.stopped {
			switch {
			case t.queuedAtStop && st >= 1:
				e.Count("stop-outcome", "queued-at-stop-ran") // the repaired clause (c19_handed_before_stop_runs)
			case st == 0 && t.preStop && !t.retStop:
				e.Count("stop-outcome", "racing-go-lost") // Go had not returned at Stop (c19_lost_only_racing_stop)
			case st == 0 && !t.preStop:
				e.Count("stop-outcome", "go-after-stop-lost")
			case st >= 1 && !t.preStop:
				e.Count("stop-outcome", "go-after-stop-ran")
			}
		}
		if st == 0 && t.preStop {
			switch {
			case !s.stopped:
				e.Oracle("c19-once", "lost: task %d was handed to the pool and never ran (no Stop)", id)
			case t.retStop:
				e.Oracle("c19-once", "stop-drop: task %d was handed to the pool (Go had returned, it was queued) before Stop and never ran", id)
			}
		}
	}
	if got := atomic.LoadInt32(&lg.n) + atomic.LoadInt32(&customPanics); got != s.npanic {
		e.Oracle("c19-panic", "%d tasks panicked, %d contained panics were logged", s.npanic, got)
	}
	if s.npanic > 0 {
		s.nontriv = true
	}
	if !s.stopped {
		s.p.tp.Stop()
		quiesce.Wait(30 * time.Second)
	}
	current.Store((*sess)(nil))
	e.Key(s.key.String(), s.nontriv || s.overload)
}

func main() { lp.Main(gen, exec) }
