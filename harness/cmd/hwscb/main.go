// hwscb: WebSocket callback order and write atomicity on REAL websocket.Conn objects (C14).
//
//	C <id> cb                         poller-driven path on a real nbhttp engine: a real *nbio.Conn around a virtual
//	                                  descriptor, the real HTTP parser, Upgrader.Upgrade inside the request's job, the
//	                                  conn's real job queue (Conn.Execute/MustExecute) — with GATED callbacks: every
//	                                  open/message/close handler blocks until the harness releases it.
//	  O upgrade | go | recv | ping | pong | flip | cb | cbpanic | Q   R log=<completed callbacks> run=<callback currently held or ->
//	  (`cbpanic`: the held callback is released and, if it is a message handler, panics)
//	  (`C … cb holdexec=1`: the executor holds the upgrade request's closure until `go`, so `flip` can overtake it)
//
//	C <id> wq bound=<n> maxframe=<bytes> client=<0|1>
//	                                  queued (asynchronous send queue) mode on an in-memory conn whose Write is GATED:
//	                                  the drainer goroutine blocks in every conn write until released (ok / error).
//	  O write <len> | send ok|err | sendlast | close | Q
//	  R ret=<ok|full|closed>  /  R sent=<call:frag|none>  /  R ok  /  R wire=<call:frag,...> ql=<len(sendQueue)>
//
//	C <id> wd maxframe=<bytes> client=<0|1>
//	                                  direct mode: writer goroutines released together on an in-memory conn
//	  O par <len> <len> ... fail=<j>          (the j-th conn write fails, 0 = none); exec adds order=<calls by first frame>
//	  R rets=<ok|err per call>   /   Q → R wire=...
//
//	C <id> e2e path=poller|blockparser|ownloop|transfer queued=<0|1> mode=<lt|et|etos>
//	                                  real sockets, a raw client, concurrent writers, messages sent right behind the
//	                                  handshake (sampled upgrade paths)
//	  O run msgs=<k> writers=<w> size=<bytes>        R log=open,m0,...,close groups=<w> whole=1 exec=<queue|sync|other>
//	                                  (exec = the executor Upgrade installed in the websocket Conn: the nbio.Conn job
//	                                  queue, nbhttp.SyncExecutor, or the blocking parser's / none)
//
// Direct oracles:
//
//	c14-callback-order  a callback started before the previous one ended, open not first, messages out of wire order
//	c14-close-once      close callback more than once, not last, or missing after the connection ended
//	c14-frames-whole    the conn's byte stream is not a concatenation of whole per-call frame groups
//	c14-lost-dup        a call that returned nil is missing from / twice on the wire of a quiescent, live connection
//	c05-fifo            (for C05) handlers of one connection's frames (control frames included) ran out of wire order
//	c05-overlap         (for C05, `gen -tier c05`) a websocket message/close callback ran while the HTTP handler that
//	                    upgraded the same connection was still running — poller-driven and blocking-parser paths
//	                    or two callbacks of one connection (open / message / ping / pong / close handlers) ran at once
package main

import (
	"bufio"
	"bytes"
	"compress/flate"
	"encoding/binary"
	"errors"
	"fmt"
	"io"
	"net"
	"net/http"
	"reflect"
	"sort"
	"strconv"
	"strings"
	"sync"
	"sync/atomic"
	"syscall"
	"time"

	"harness/internal/lp"
	"harness/internal/track"

	"github.com/lesismal/nbio"
	"github.com/lesismal/nbio/logging"
	"github.com/lesismal/nbio/mempool"
	"github.com/lesismal/nbio/nbhttp"
	"github.com/lesismal/nbio/nbhttp/websocket"
	"github.com/lesismal/nbio/vsys"
)

// ---------------------------------------------------------------------------------- generator

func gen(g *lp.Gen) {
	if g.Tier == "c05" {
		// C05's view of this harness: end-to-end upgrades only, on the paths where the HTTP handler that upgrades
		// and the websocket callbacks go through one executor (oracle c05-overlap)
		for i := 0; i < g.N; i++ {
			path := g.Pick("poller", "poller", "blockparser")
			g.P("C %d e2e path=%s queued=0 mode=%s", i, path, []string{"lt", "et", "etos"}[i%3])
			g.P("O run msgs=%d writers=%d size=%d", g.PickInt(1, 3, 8), g.PickInt(1, 2), g.PickInt(10, 70000))
		}
		// ... and the per-connection queue seen from the websocket callbacks (seed C05-g): poller-driven gated
		// callback cases in which control frames (user-set ping / pong handlers) arrive while the handler of an
		// earlier frame of the same connection is still held; every callback is a job of the conn's queue: one at
		// a time (c05-overlap) and in wire order (c05-fifo)
		for i := 0; i < 4*g.N; i++ {
			genCBCtl(g, 100+i)
		}
		return
	}
	for i := 0; i < g.N; i++ {
		switch {
		case i%10 == 9 || (g.Tier == "thorough" && i%10 == 4):
			genE2E(g, i)
		case i%3 == 0:
			genCB(g, i)
		case i%3 == 1:
			genWQ(g, i)
		default:
			genWD(g, i)
		}
	}
}

// genCBCtl: a `cb` case (same ops and executor as genCB) made of bursts of data and control frames that are fed while
// earlier handlers are still held at the gate, then released one by one.
func genCBCtl(g *lp.Gen, id int) {
	g.P("C %d cb", id)
	g.P("O upgrade")
	if g.Chance(1, 2) {
		g.P("O cb") // open has run before the first frame arrives (else the frames queue up behind the held open)
	}
	frames := 0
	bursts := 1 + g.Intn(3)
	for b := 0; b < bursts; b++ {
		k := 2 + g.Intn(4)
		ctl := g.Intn(k) // at least one control frame per burst
		for j := 0; j < k; j++ {
			op := g.Pick("recv", "recv", "ping", "pong")
			if j == ctl {
				op = g.Pick("ping", "pong")
			}
			g.P("O %s", op)
			frames++
			if g.Chance(1, 4) {
				g.P("O cb")
			}
		}
		for j := g.Intn(k + 1); j > 0; j-- {
			g.P("O cb")
		}
	}
	if g.Chance(1, 3) {
		g.P("O flip")
	}
	for j := 0; j < frames+3; j++ {
		g.P("O cb")
	}
	g.P("Q")
}

func genCB(g *lp.Gen, id int) {
	flipped := false
	if g.Chance(1, 4) {
		// the executor holds the upgrade request's closure: the close can overtake the upgrade job
		g.P("C %d cb holdexec=1", id)
		g.P("O upgrade")
		if g.Chance(1, 2) {
			g.P("O flip")
			flipped = true
		}
		g.P("O go")
	} else {
		g.P("C %d cb", id)
		g.P("O upgrade")
	}
	n := 3 + g.Intn(12)
	// one case in eight: some message handlers panic (nbio recovers a panicking job and goes on with the next one)
	panicky := g.Chance(1, 8)
	for k := 0; k < n; k++ {
		switch r := g.Intn(10); {
		case r < 4:
			// data messages and, one frame in four, control frames (ping / pong with user-set handlers)
			g.P("O %s", g.Pick("recv", "recv", "recv", "recv", "recv", "recv", "ping", "pong"))
		case r < 8:
			if panicky && g.Chance(1, 2) {
				g.P("O cbpanic")
			} else {
				g.P("O cb")
			}
		case r < 9 && !flipped:
			g.P("O flip")
			flipped = true
		default:
			g.P("Q")
		}
	}
	if !flipped && g.Chance(2, 3) {
		g.P("O flip")
	}
	for k := 0; k < n+3; k++ {
		g.P("O cb")
	}
	g.P("Q")
}

func genWQ(g *lp.Gen, id int) {
	maxf := g.PickInt(8, 16, 64)
	comp := g.Chance(1, 4)
	if comp {
		// permessage-deflate with incompressible payloads: the compressed message is a few bytes LONGER than the
		// payload, so a payload of exactly k frames needs k+1 fragments
		maxf = g.PickInt(32, 64)
		g.P("C %d wq bound=%d maxframe=%d client=%d comp=1", id, g.PickInt(0, 2, 3, 3, 4, 5), maxf, g.Intn(2))
	} else {
		g.P("C %d wq bound=%d maxframe=%d client=%d", id, g.PickInt(0, 0, 0, 2, 3, 5), maxf, g.Intn(2))
	}
	n := 3 + g.Intn(14)
	pend := 0
	for k := 0; k < n; k++ {
		switch r := g.Intn(20); {
		case r < 8:
			// fragment counts 1..5, boundary lengths
			fr := g.PickInt(1, 1, 2, 3, 5)
			ln := maxf*fr - g.PickInt(0, 0, 1, maxf-1)
			if g.Chance(1, 12) {
				ln = 0
			}
			if comp {
				fr = g.PickInt(1, 2, 2, 3, 4)
				ln = maxf*fr - g.PickInt(0, 0, maxf/2)
				pend++
			}
			g.P("O write %d", ln)
			pend += fr
		case r < 14:
			g.P("O send ok")
		case r < 16:
			g.P("O sendlast")
		case r < 17:
			g.P("O send err")
		case r < 18:
			g.P("O close")
		default:
			g.P("Q")
		}
	}
	for k := 0; k < pend+2; k++ {
		g.P("O send ok")
	}
	g.P("Q")
}

func genWD(g *lp.Gen, id int) {
	maxf := g.PickInt(8, 16, 64)
	g.P("C %d wd maxframe=%d client=%d", id, maxf, g.Intn(2))
	rounds := 1 + g.Intn(3)
	for r := 0; r < rounds; r++ {
		k := 2 + g.Intn(7)
		var lens []string
		total := 0
		for i := 0; i < k; i++ {
			fr := g.PickInt(1, 2, 3, 4)
			lens = append(lens, strconv.Itoa(maxf*fr-g.PickInt(0, 1, maxf-1)))
			total += fr
		}
		fail := 0
		if g.Chance(1, 4) {
			fail = 1 + g.Intn(total)
		}
		g.P("O par %s fail=%d", strings.Join(lens, " "), fail)
		g.P("Q")
	}
}

func genE2E(g *lp.Gen, id int) {
	path := g.Pick("poller", "blockparser", "ownloop", "transfer")
	q := 0
	if path == "blockparser" || path == "ownloop" {
		q = g.Intn(2)
	}
	// the epoll mode decides which executor Upgrade installs (decision table WsCb.execOf): the poller-driven path must
	// keep the conn's job queue in every mode, ET+ONESHOT included
	mode := g.Pick("lt", "et", "etos", "etos")
	g.P("C %d e2e path=%s queued=%d mode=%s", id, path, q, mode)
	g.P("O run msgs=%d writers=%d size=%d", g.PickInt(1, 3, 8), g.PickInt(1, 4, 16), g.PickInt(10, 70000, 200000))
}

// ---------------------------------------------------------------------------------- frames

type frame struct {
	op      int
	fin     bool
	rsv1    bool
	payload []byte
}

// decode parses as many whole frames as data holds; rest = undecoded tail.
func decode(data []byte) (fs []frame, rest []byte) {
	for {
		if len(data) < 2 {
			return fs, data
		}
		b0, b1 := data[0], data[1]
		n := int(b1 & 0x7f)
		h := 2
		switch n {
		case 126:
			if len(data) < 4 {
				return fs, data
			}
			n = int(binary.BigEndian.Uint16(data[2:4]))
			h = 4
		case 127:
			if len(data) < 10 {
				return fs, data
			}
			n = int(binary.BigEndian.Uint64(data[2:10]))
			h = 10
		}
		var key []byte
		if b1&0x80 != 0 {
			if len(data) < h+4 {
				return fs, data
			}
			key = data[h : h+4]
			h += 4
		}
		if len(data) < h+n {
			return fs, data
		}
		p := append([]byte(nil), data[h:h+n]...)
		for i := range p {
			if key != nil {
				p[i] ^= key[i%4]
			}
		}
		fs = append(fs, frame{op: int(b0 & 0x0f), fin: b0&0x80 != 0, rsv1: b0&0x40 != 0, payload: p})
		data = data[h+n:]
	}
}

// payloadOf builds the payload of call gid: byte i = f(gid, i), so that every fragment identifies call and offset.
func payloadOf(gid, n int) []byte {
	b := make([]byte, n)
	for i := range b {
		b[i] = byte((gid*31 + i*7 + i/251) % 251)
	}
	return b
}

// payloadRnd: incompressible payload of call gid (xorshift stream seeded by the call number)
func payloadRnd(gid, n int) []byte {
	b := make([]byte, n)
	x := uint32(gid)*2654435761 + 12345
	for i := range b {
		x ^= x << 13
		x ^= x >> 17
		x ^= x << 5
		b[i] = byte(x >> 11)
	}
	return b
}

// deflatedLen: what a permessage-deflate sender produces for p at the default level (tail trimmed), computed with the
// standard library — used only to estimate the number of fragments of a call the implementation REFUSED
func deflatedLen(p []byte) int {
	var buf bytes.Buffer
	w, _ := flate.NewWriter(&buf, 1)
	_, _ = w.Write(p)
	_ = w.Flush()
	n := buf.Len() - 4
	if n < 1 {
		n = 1
	}
	return n
}

func inflate(p []byte) ([]byte, error) {
	r := flate.NewReader(io.MultiReader(bytes.NewReader(p), strings.NewReader("\x00\x00\xff\xff\x01\x00\x00\xff\xff")))
	defer r.Close()
	return io.ReadAll(r)
}

type qcall struct {
	gid, n int
	ok     bool
}

// identifyComp maps the frames of a compressed queued-mode stream to (call, fragment) pairs by the order in which the
// calls queued their frames (`calls`: every call that queued anything, with the number of frames it queued), and checks
// structure (opcode / RSV1 / FIN) and, for complete groups of calls that returned nil, the inflated content.
func identifyComp(fs []frame, calls []qcall, lens map[int]int, partialOK bool) (ids []string, problem string) {
	ci, k := 0, 0
	var acc []byte
	for i, f := range fs {
		if ci >= len(calls) {
			return ids, fmt.Sprintf("frame %d: more frames on the wire than were queued", i)
		}
		c := calls[ci]
		ids = append(ids, fmt.Sprintf("%d:%d", c.gid, k))
		if k == 0 && (f.op == 0 || !f.rsv1) {
			return ids, fmt.Sprintf("frame %d: first frame of call %d has opcode %d rsv1=%v", i, c.gid, f.op, f.rsv1)
		}
		if k > 0 && f.op != 0 {
			return ids, fmt.Sprintf("frame %d: a new message starts inside the group of call %d (after %d of %d fragments)", i, c.gid, k, c.n)
		}
		acc = append(acc, f.payload...)
		last := k == c.n-1
		if c.ok && f.fin != last {
			return ids, fmt.Sprintf("frame %d: FIN=%v on fragment %d of %d of call %d", i, f.fin, k+1, c.n, c.gid)
		}
		if !c.ok {
			// frames of a call that did not return nil must not be on the wire at all
			return ids, fmt.Sprintf("frame %d: fragment %d of call %d, which returned an error, is on the wire", i, k, c.gid)
		}
		k++
		if last {
			got, err := inflate(acc)
			if err != nil || string(got) != string(payloadRnd(c.gid, lens[c.gid])) {
				return ids, fmt.Sprintf("the group of call %d does not inflate to its payload (%v)", c.gid, err)
			}
			ci, k, acc = ci+1, 0, nil
		}
	}
	if k > 0 && !partialOK {
		return ids, fmt.Sprintf("the group of call %d is incomplete (%d of %d fragments) and the connection is quiescent", calls[ci].gid, k, calls[ci].n)
	}
	return ids, ""
}

func nfrag(n, maxf int) int {
	if n == 0 {
		return 1
	}
	return (n + maxf - 1) / maxf
}

// identify maps the decoded frames to (call, fragment) pairs using the known payload lengths per call; reports a
// wholeness violation as a string ("" = the stream is a concatenation of whole groups of the calls in `lens`, each at
// most once; `partialOK` allows the last group to be incomplete).
func identify(fs []frame, lens map[int]int, maxf int, partialOK bool, refused ...map[int]string) (ids []string, problem string) {
	// calls known to have been refused are only taken when no accepted call matches (identical payloads: empty messages)
	isRefused := func(g int) bool {
		if len(refused) == 0 {
			return false
		}
		r, ok := refused[0][g]
		return ok && r != "ok"
	}
	cur, next := -1, 0
	seen := map[int]bool{}
	for i, f := range fs {
		if f.op >= 8 {
			ids = append(ids, fmt.Sprintf("ctl%d", f.op))
			continue
		}
		if cur < 0 {
			if f.op == 0 {
				return ids, fmt.Sprintf("frame %d: continuation frame without a message in progress", i)
			}
			// which call? match by payload content of fragment 0
			// (calls with the same payload — the empty message — are indistinguishable: the lowest-numbered
			// call not yet seen is taken)
			found, dup, refusedCand := -1, -1, -1
			gids := make([]int, 0, len(lens))
			for gid := range lens {
				gids = append(gids, gid)
			}
			sort.Ints(gids)
			for _, gid := range gids {
				n := lens[gid]
				fl := n
				if fl > maxf {
					fl = maxf
				}
				if len(f.payload) == fl && string(f.payload) == string(payloadOf(gid, n)[:fl]) {
					if seen[gid] {
						dup = gid
						continue
					}
					if isRefused(gid) {
						if refusedCand < 0 {
							refusedCand = gid
						}
						continue
					}
					found = gid
					break
				}
			}
			if found < 0 && refusedCand >= 0 {
				found = refusedCand
			}
			if found < 0 && dup >= 0 {
				ids = append(ids, fmt.Sprintf("%d:0", dup))
				return ids, fmt.Sprintf("call %d appears twice", dup)
			}
			if found < 0 {
				return ids, fmt.Sprintf("frame %d: first frame of no known call (len %d)", i, len(f.payload))
			}
			seen[found] = true
			cur, next = found, 0
		} else if f.op != 0 {
			return ids, fmt.Sprintf("frame %d: a new message starts inside the group of call %d (after %d of %d fragments)", i, cur, next, nfrag(lens[cur], maxf))
		}
		n := lens[cur]
		lo := next * maxf
		hi := lo + maxf
		if hi > n {
			hi = n
		}
		if lo > n || string(f.payload) != string(payloadOf(cur, n)[lo:hi]) {
			return ids, fmt.Sprintf("frame %d: payload is not fragment %d of call %d", i, next, cur)
		}
		ids = append(ids, fmt.Sprintf("%d:%d", cur, next))
		next++
		last := next == nfrag(n, maxf)
		if f.fin != last {
			return ids, fmt.Sprintf("frame %d: FIN=%v on fragment %d of %d of call %d", i, f.fin, next, nfrag(n, maxf), cur)
		}
		if last {
			cur = -1
		}
	}
	if cur >= 0 && !partialOK {
		return ids, fmt.Sprintf("the group of call %d is incomplete (%d of %d fragments) and the connection is quiescent", cur, next, nfrag(lens[cur], maxf))
	}
	return ids, ""
}

// ---------------------------------------------------------------------------------- in-memory gated conn

type wreq struct {
	data []byte
	res  chan error
}

type gconn struct {
	mu      sync.Mutex
	wire    []byte
	gated   bool
	wmu     sync.Mutex
	waiters []*wreq
	dead    bool
	closed  bool
	failAt  int
	nwrites int
	rng     uint32
}

var errInjected = errors.New("injected conn write error")

func (c *gconn) Write(b []byte) (int, error) {
	if c.gated {
		r := &wreq{data: append([]byte(nil), b...), res: make(chan error, 1)}
		c.wmu.Lock()
		c.waiters = append(c.waiters, r)
		c.wmu.Unlock()
		if err := <-r.res; err != nil {
			return 0, err
		}
		return len(b), nil
	}
	c.mu.Lock()
	c.nwrites++
	if c.dead || c.closed || (c.failAt > 0 && c.nwrites >= c.failAt) {
		c.dead = true
		c.mu.Unlock()
		return 0, errInjected
	}
	c.wire = append(c.wire, b...)
	c.rng = c.rng*1664525 + 1013904223
	y := c.rng >> 29
	c.mu.Unlock()
	for i := uint32(0); i < y; i++ { // widen the window for a concurrent caller
		time.Sleep(20 * time.Microsecond)
	}
	return len(b), nil
}
func (c *gconn) Read(b []byte) (int, error) { select {} }

// nwait is the number of conn writes currently held at the gate.
func (c *gconn) nwait() int { c.wmu.Lock(); defer c.wmu.Unlock(); return len(c.waiters) }

// take removes the first (or the last) held write.
func (c *gconn) take(last bool) *wreq {
	c.wmu.Lock()
	defer c.wmu.Unlock()
	if len(c.waiters) == 0 {
		return nil
	}
	i := 0
	if last {
		i = len(c.waiters) - 1
	}
	r := c.waiters[i]
	c.waiters = append(c.waiters[:i], c.waiters[i+1:]...)
	return r
}
func (c *gconn) Close() error                       { c.mu.Lock(); c.closed = true; c.mu.Unlock(); return nil }
func (c *gconn) LocalAddr() net.Addr                { return &net.TCPAddr{} }
func (c *gconn) RemoteAddr() net.Addr               { return &net.TCPAddr{} }
func (c *gconn) SetDeadline(t time.Time) error      { return nil }
func (c *gconn) SetReadDeadline(t time.Time) error  { return nil }
func (c *gconn) SetWriteDeadline(t time.Time) error { return nil }

var sharedEngine *nbhttp.Engine

func engineFor(maxf int, alloc mempool.Allocator) *nbhttp.Engine {
	// never started: a websocket.Conn only uses its allocator, limits and timers
	return nbhttp.NewEngine(nbhttp.Config{MaxWebsocketFramePayloadSize: maxf, BodyAllocator: alloc, SupportServerOnly: true, MessageHandlerPoolSize: 4})
}

// bufferVerdicts: the frame buffers of a websocket conn come from the engine's allocator; the writer cases run on a
// tracking allocator (harness/internal/track). A buffer returned to the allocator twice, freed while still queued,
// or written after its release can be handed to two frames at once: one message is overwritten before it is sent
// (lost) and another one appears twice on the wire. Reported under C14's lost/duplicated clause.
func bufferVerdicts(e *lp.Exec, tk *track.Tracker, what string) {
	tk.Audit()
	for _, v := range tk.Drain() {
		e.Oracle("c14-lost-dup", "%s: frame buffer ownership violated (%s): %s — the allocator can hand this buffer to two frames at once: one message lost, another duplicated on the wire", what, v.Oracle, v.Detail)
	}
}

func retKind(err error) string {
	switch {
	case err == nil:
		return "ok"
	case errors.Is(err, websocket.ErrMessageSendQuqueIsFull):
		return "full"
	case errors.Is(err, net.ErrClosed):
		return "closed"
	}
	return "err"
}

func field(ws []string, k string) string {
	for _, w := range ws {
		if strings.HasPrefix(w, k+"=") {
			return w[len(k)+1:]
		}
	}
	return ""
}

func atoi(s string) int { n, _ := strconv.Atoi(s); return n }

func waitFor(cond func() bool, d time.Duration) bool {
	dl := time.Now().Add(d)
	for time.Now().Before(dl) {
		if cond() {
			return true
		}
		time.Sleep(200 * time.Microsecond)
	}
	return cond()
}

// ---------------------------------------------------------------------------------- wq: queued mode, gated drainer

func runWQ(e *lp.Exec, head string, ops []string) {
	lens0 := map[int]int{}
	ws := strings.Fields(head)
	bound, maxf, client := atoi(field(ws, "bound")), atoi(field(ws, "maxframe")), field(ws, "client") == "1"
	comp := field(ws, "comp") == "1"
	tk := track.New()
	eng := engineFor(maxf, tk)
	u := websocket.NewUpgrader()
	u.Engine = eng
	u.BlockingModSendQueueMaxSize = uint16(bound)
	u.EnableCompression(comp)
	gc := &gconn{gated: true}
	var wc *websocket.Conn
	if client {
		wc = websocket.NewClientConn(u, gc, "", comp, true)
	} else {
		wc = websocket.NewServerConn(u, gc, "", comp, true)
	}
	rets := map[int]string{}
	var qcalls []qcall // comp: the calls that queued frames, in order
	ident := func(fs []frame, partialOK bool) ([]string, string) {
		if comp {
			return identifyComp(fs, qcalls, lens0, partialOK)
		}
		return identify(fs, lens0, maxf, partialOK, rets)
	}
	e.P("> %s", head)
	e.P("ok")
	lens := lens0
	gid := 0
	sentErr := false
	closed := false
	shape := head[strings.Index(head, "wq"):]
	reported2 := false
	twoDrainers := func() {
		if n := gc.nwait(); n >= 2 && !reported2 {
			reported2 = true
			e.Oracle("c14-frames-whole", "queued: %d conn writes are in flight at once (more than one drainer goroutine): frames of different calls can interleave", n)
		}
	}
	settle := func() {
		// the drainer either shows up at the gate again, or the queue is reset, or it has exited for good
		waitFor(func() bool {
			st := wc.VerifStopState()
			return gc.nwait() > 0 || st.QueueLen == 0
		}, map[bool]time.Duration{false: 150 * time.Millisecond, true: 30 * time.Millisecond}[sentErr || closed])
	}
	for _, ln := range ops {
		ow := strings.Fields(ln)
		if !(ow[0] == "O" && ow[1] == "write") {
			e.P("> %s", ln)
		}
		switch {
		case ow[0] == "Q":
			fs, rest := decode(gc.wire)
			ids, prob := ident(fs, true)
			if prob != "" || len(rest) != 0 {
				e.Oracle("c14-frames-whole", "%s (undecoded tail %d bytes); frames so far %v", prob, len(rest), ids)
			}
			st := wc.VerifStopState()
			e.P("R wire=%s ql=%d", strings.Join(ids, ","), st.QueueLen)
			shape += "|Q"
		case ow[1] == "write":
			n := atoi(ow[2])
			lens[gid] = n
			pl := payloadOf(gid, n)
			if comp {
				pl = payloadRnd(gid, n)
			}
			ql0 := wc.VerifStopState().QueueLen
			err := wc.WriteMessage(websocket.BinaryMessage, pl)
			queued := wc.VerifStopState().QueueLen - ql0
			rets[gid] = retKind(err)
			frags := nfrag(n, maxf)
			if comp {
				// the number of fragments of a compressed message is the implementation's business: for an accepted
				// call it is what it queued; for a refused one it is estimated with the standard library's deflate
				if rets[gid] == "ok" {
					frags = queued
				} else {
					frags = nfrag(deflatedLen(pl), maxf)
				}
				if queued > 0 {
					qcalls = append(qcalls, qcall{gid, queued, rets[gid] == "ok"})
				}
			}
			// the op line carries the fragment count the model is to use
			e.P("> O write %d frags=%d", n, frags)
			if rets[gid] != "ok" && queued > 0 {
				e.Oracle("c14-frames-whole", "queued bound=%d: call %d returned %s but left %d of its fragments in the send queue", bound, gid, rets[gid], queued)
			}
			e.P("R ret=%s", rets[gid])
			shape += fmt.Sprintf("|w%d:%s", frags, rets[gid])
			gid++
			waitFor(func() bool { return gc.nwait() > 0 || wc.VerifStopState().QueueLen == 0 || sentErr || closed }, 100*time.Millisecond)
			twoDrainers()
		case ow[1] == "send" || ow[1] == "sendlast":
			// `sendlast`: if two conn writes are held at the gate (impossible with a single drainer), release the
			// younger one first — the schedule in which two drainers visibly interleave frames
			twoDrainers()
			r := gc.take(ow[1] == "sendlast")
			if r != nil {
				ok := ow[1] == "sendlast" || ow[2] == "ok"
				gc.mu.Lock()
				if gc.closed || gc.dead {
					ok = false // the underlying conn is gone: the write fails whatever the harness would like
				}
				id := "?"
				if ok {
					gc.wire = append(gc.wire, r.data...)
					fs, _ := decode(gc.wire)
					ids, _ := ident(fs, true)
					if len(ids) > 0 {
						id = ids[len(ids)-1]
					}
				} else {
					gc.dead = true
					sentErr = true
					id = "fail"
				}
				gc.mu.Unlock()
				if ok {
					r.res <- nil
				} else {
					r.res <- errInjected
				}
				settle()
				twoDrainers()
				e.P("R sent=%s", id)
				shape += "|s" + id[:1]
			} else {
				e.P("R sent=none")
			}
		case ow[1] == "close":
			wc.CloseAndClean(nil)
			closed = true
			e.P("R ok")
			shape += "|c"
		}
	}
	// ---- direct oracles on the final state
	gc.mu.Lock()
	wire := append([]byte(nil), gc.wire...)
	gc.mu.Unlock()
	fs, rest := decode(wire)
	st := wc.VerifStopState()
	quiescent := gc.nwait() == 0 && st.QueueLen == 0 && !sentErr && !closed
	ids, prob := ident(fs, !quiescent)
	if prob != "" || len(rest) != 0 {
		e.Oracle("c14-frames-whole", "queued bound=%d: %s; frames %v", bound, prob, ids)
	} else {
		// frames of a call that did not return nil must not be on the wire; accepted ones exactly once when quiescent
		on := map[int]int{}
		for _, id := range ids {
			var g, k int
			if _, err := fmt.Sscanf(id, "%d:%d", &g, &k); err == nil && k == 0 {
				on[g]++
			}
		}
		for g, r := range rets {
			if r != "ok" && on[g] > 0 {
				e.Oracle("c14-frames-whole", "queued bound=%d: call %d returned %s but %d of its %d fragments are on the wire; frames %v", bound, g, r, countOf(ids, g), nfrag(lens[g], maxf), ids)
			}
			if r == "ok" && quiescent && on[g] != 1 {
				e.Oracle("c14-lost-dup", "queued: call %d returned nil and appears %d times on the wire of a quiescent live connection", g, on[g])
			}
			if on[g] > 1 {
				e.Oracle("c14-lost-dup", "queued: call %d appears %d times", g, on[g])
			}
		}
	}
	bufferVerdicts(e, tk, fmt.Sprintf("queued bound=%d", bound))
	e.Key(shape, gid >= 2)
	e.Count("cases", "wq")
	// let a blocked drainer go
	for i := 0; i < 1000; i++ {
		r := gc.take(false)
		if r == nil {
			if i > 0 {
				break
			}
			time.Sleep(2 * time.Millisecond)
			if gc.nwait() == 0 {
				break
			}
			continue
		}
		r.res <- errInjected
		time.Sleep(time.Millisecond)
	}
	wc.CloseAndClean(nil)
}

func countOf(ids []string, g int) int {
	n := 0
	for _, id := range ids {
		if strings.HasPrefix(id, fmt.Sprintf("%d:", g)) {
			n++
		}
	}
	return n
}

// ---------------------------------------------------------------------------------- wd: direct mode, concurrent callers

func runWD(e *lp.Exec, head string, ops []string) {
	ws := strings.Fields(head)
	maxf, client := atoi(field(ws, "maxframe")), field(ws, "client") == "1"
	tk := track.New()
	eng := engineFor(maxf, tk)
	u := websocket.NewUpgrader()
	u.Engine = eng
	gc := &gconn{rng: uint32(lp.Fnv([]byte(head)))}
	var wc *websocket.Conn
	if client {
		wc = websocket.NewClientConn(u, gc, "", false, false)
	} else {
		wc = websocket.NewServerConn(u, gc, "", false, false)
	}
	e.P("> %s", head)
	e.P("ok")
	lens := map[int]int{}
	rets := map[int]string{}
	gid := 0
	shape := head[strings.Index(head, "wd"):]
	for _, ln := range ops {
		ow := strings.Fields(ln)
		switch {
		case ow[0] == "Q":
			e.P("> %s", ln)
			fs, _ := decode(gc.wire)
			ids, _ := identify(fs, lens, maxf, true)
			e.P("R wire=%s", strings.Join(ids, ","))
		case ow[1] == "par":
			var ls []int
			fail := 0
			for _, w := range ow[2:] {
				if strings.HasPrefix(w, "fail=") {
					fail = atoi(w[5:])
				} else if !strings.Contains(w, "=") {
					ls = append(ls, atoi(w))
				}
			}
			gc.mu.Lock()
			if fail > 0 {
				gc.failAt = gc.nwrites + fail
			} else {
				gc.failAt = 0
			}
			before := len(gc.wire)
			gc.mu.Unlock()
			first := gid
			start := make(chan struct{})
			var wg sync.WaitGroup
			var mu sync.Mutex
			for _, n := range ls {
				g := gid
				lens[g] = n
				gid++
				wg.Add(1)
				go func(g, n int) {
					defer wg.Done()
					p := payloadOf(g, n)
					<-start
					err := wc.WriteMessage(websocket.BinaryMessage, p)
					mu.Lock()
					rets[g] = retKind(err)
					mu.Unlock()
				}(g, n)
			}
			close(start)
			wg.Wait()
			// order of the critical sections = order of the first frames on the wire
			fs, _ := decode(gc.wire[before:])
			sub := map[int]int{}
			for g := first; g < gid; g++ {
				sub[g] = lens[g]
			}
			ids, _ := identify(fs, sub, maxf, true)
			var order []string
			seen := map[int]bool{}
			for _, id := range ids {
				var g, k int
				if _, err := fmt.Sscanf(id, "%d:%d", &g, &k); err == nil && !seen[g] {
					seen[g] = true
					order = append(order, strconv.Itoa(g))
				}
			}
			for g := first; g < gid; g++ {
				if !seen[g] {
					order = append(order, strconv.Itoa(g))
				}
			}
			var rs []string
			for g := first; g < gid; g++ {
				r := rets[g]
				if r != "ok" {
					r = "err"
				}
				rs = append(rs, r)
			}
			var keep []string
			for _, w := range ow {
				if !strings.HasPrefix(w, "order=") {
					keep = append(keep, w)
				}
			}
			e.P("> %s order=%s", strings.Join(keep, " "), strings.Join(order, ","))
			e.P("R rets=%s", strings.Join(rs, ","))
			shape += fmt.Sprintf("|par%d.f%d", len(ls), fail)
		}
	}
	fs, rest := decode(gc.wire)
	ids, prob := identify(fs, lens, maxf, gc.dead)
	if prob != "" || (len(rest) != 0 && !gc.dead) {
		e.Oracle("c14-frames-whole", "direct: %s; frames %v", prob, ids)
	} else {
		on := map[int]int{}
		for _, id := range ids {
			var g, k int
			if _, err := fmt.Sscanf(id, "%d:%d", &g, &k); err == nil && k == 0 {
				on[g]++
			}
		}
		for g, r := range rets {
			if r == "ok" && on[g] != 1 {
				e.Oracle("c14-lost-dup", "direct: call %d returned nil and appears %d times on the wire", g, on[g])
			}
		}
	}
	bufferVerdicts(e, tk, "direct")
	e.Key(shape, gid >= 2)
	e.Count("cases", "wd")
}

// ---------------------------------------------------------------------------------- cb: gated callbacks, real job queue

type cbLog struct {
	mu          sync.Mutex
	done        []string
	running     string
	starts      int
	ends        int
	overlap     bool
	overlapWhat string
	gate        chan bool // the value released with: true = the handler panics after it has been logged
	closes      int
	panics      int
}

func (l *cbLog) enter(name string) {
	l.mu.Lock()
	if l.running != "" {
		if !l.overlap {
			l.overlapWhat = fmt.Sprintf("the handler of %s started while the handler of %s was running", name, l.running)
		}
		l.overlap = true
	}
	l.running = name
	l.starts++
	if name == "close" {
		l.closes++
	}
	l.mu.Unlock()
	p := <-l.gate
	p = p && strings.HasPrefix(name, "m") // only message handlers panic (nbio recovers a panicking job by design)
	l.mu.Lock()
	l.done = append(l.done, name)
	l.running = ""
	l.ends++
	if p {
		l.panics++
	}
	l.mu.Unlock()
	if p {
		panic("hwscb: message handler panics (part of the case)")
	}
}

func (l *cbLog) line() string {
	l.mu.Lock()
	defer l.mu.Unlock()
	r := l.running
	if r == "" {
		r = "-"
	}
	return fmt.Sprintf("R log=%s run=%s", strings.Join(l.done, ","), r)
}

func maskedFrame(op byte, payload []byte) []byte {
	key := []byte{0x12, 0x34, 0x56, 0x78}
	b := []byte{0x80 | op}
	switch {
	case len(payload) < 126:
		b = append(b, 0x80|byte(len(payload)))
	default:
		b = append(b, 0x80|126, byte(len(payload)>>8), byte(len(payload)))
	}
	b = append(b, key...)
	for i, x := range payload {
		b = append(b, x^key[i%4])
	}
	return b
}

const upgradeReq = "GET /ws HTTP/1.1\r\nHost: x\r\nUpgrade: websocket\r\nConnection: Upgrade\r\nSec-WebSocket-Key: MDEyMzQ1Njc4OWFiY2RlZg==\r\nSec-WebSocket-Version: 13\r\n\r\n"

func checkLog(e *lp.Exec, l *cbLog, connEnded bool, what string) {
	l.mu.Lock()
	defer l.mu.Unlock()
	if l.overlap {
		e.Oracle("c14-callback-order", "%s: a callback started while another one was still running (%s); log %v", what, l.overlapWhat, l.done)
		// the same fact is C05's "callbacks of one connection never overlap" (every callback is a job of the conn's queue)
		e.Oracle("c05-overlap", "%s: two callbacks of one connection ran at the same time (%s); log %v", what, l.overlapWhat, l.done)
	}
	next := 0
	for i, n := range l.done {
		switch {
		case n == "open":
			if i != 0 {
				e.Oracle("c14-callback-order", "%s: open callback at position %d; log %v", what, i, l.done)
			}
		case n == "close":
			if i != len(l.done)-1 {
				e.Oracle("c14-close-once", "%s: a callback ran after the close callback; log %v", what, l.done)
			}
		case strings.HasPrefix(n, "m") || strings.HasPrefix(n, "p"):
			// m<k> data message, p<k> ping/pong; k = position on the wire, shared by both kinds
			k := atoi(n[1:])
			if k != next {
				e.Oracle("c14-callback-order", "%s: the handler of frame %s ran where frame %d was due (callbacks must follow the wire order, control frames included); log %v", what, n, next, l.done)
				// C05: the frames' handlers are submitted to the conn's queue in wire order, so they must run in that order
				e.Oracle("c05-fifo", "%s: the handler of frame %s ran where frame %d was due (jobs of one connection run in submission = wire order, control frames included); log %v", what, n, next, l.done)
			}
			next = k + 1
			if i == 0 {
				e.Oracle("c14-callback-order", "%s: a message callback ran before the open callback; log %v", what, l.done)
			}
		}
	}
	if l.closes > 1 {
		e.Oracle("c14-close-once", "%s: close callback ran %d times", what, l.closes)
	}
	if connEnded && l.closes != 1 {
		e.Oracle("c14-close-once", "%s: connection ended, close callback ran %d times; log %v", what, l.closes, l.done)
	}
}

func runCB(e *lp.Exec, head string, ops []string) {
	vsys.VirtualAll = true
	l := &cbLog{gate: make(chan bool, 1024)}
	var hold, holdRel chan struct{}
	if field(strings.Fields(head), "holdexec") == "1" {
		hold = make(chan struct{})
		holdRel = hold
	}
	u := websocket.NewUpgrader()
	u.KeepaliveTime = 0
	u.OnOpen(func(c *websocket.Conn) { l.enter("open") })
	u.OnMessage(func(c *websocket.Conn, mt websocket.MessageType, data []byte) { l.enter(string(data)) })
	u.OnClose(func(c *websocket.Conn, err error) { l.enter("close") })
	// control frames have callbacks too (user-set ping / pong handlers): they are jobs of the same queue as the data
	// messages and take their turn in wire order; logged as p<k> (k = position of the frame on the wire)
	u.SetPingHandler(func(c *websocket.Conn, data string) { l.enter(data) })
	u.SetPongHandler(func(c *websocket.Conn, data string) { l.enter(data) })
	mux := http.NewServeMux()
	mux.HandleFunc("/ws", func(w http.ResponseWriter, r *http.Request) { _, _ = u.Upgrade(w, r, nil) })
	eng := nbhttp.NewEngine(nbhttp.Config{NPoller: 1, Handler: mux, SupportServerOnly: true, KeepaliveTime: time.Hour,
		BodyAllocator: mempool.New(1024, 1<<20),
		ServerExecutor: func(f func()) {
			if hold != nil {
				ch := hold
				hold = nil
				go func() { <-ch; f() }()
				return
			}
			go f()
		}})
	u.Engine = eng
	if err := eng.Start(); err != nil {
		panic(err)
	}
	fd, v := vsys.NewVFDHigh()
	a := make([]vsys.Ans, 4096)
	for i := range a {
		a[i] = vsys.Ans{N: 1 << 30}
	}
	v.SetScript(a)
	nbc := nbio.VerifNewConn(fd, nbio.ConnTypeTCP)
	nbc.VerifSetAddrs(&net.TCPAddr{IP: net.IPv4(127, 0, 0, 1), Port: 1}, &net.TCPAddr{IP: net.IPv4(127, 0, 0, 1), Port: 2})
	eng.AddConnNonTLSNonBlocking(&nbhttp.Conn{Conn: nbc}, nil, func() {})
	epfd := eng.VerifEpfd(0)
	e.P("> %s", head)
	e.P("ok")
	// pollerStuck: the poller goroutine did not come back to epoll_wait within 3 s of an injected read event — it is
	// blocked inside a held callback, i.e. a callback runs on the I/O goroutine instead of through the executor. The
	// case is already lost (the oracles / the correspondence report it); the remaining ops are not executed, each of
	// them would only wait for the same time-outs again.
	pollerStuck := false
	feed := func(b []byte) {
		if nbc.VerifState().Closed || pollerStuck {
			return
		}
		v.Push(b)
		if !vsys.InjectTimeout(epfd, []syscall.EpollEvent{{Fd: int32(fd), Events: syscall.EPOLLIN}}, 3*time.Second) {
			pollerStuck = true
		}
	}
	settle := func() {
		// stable when a callback is held at the gate, or the job queue is empty
		last, same := "", 0
		waitFor(func() bool {
			cur := l.line() + fmt.Sprint(nbc.ExecuteLen())
			if cur == last {
				same++
			} else {
				last, same = cur, 0
			}
			l.mu.Lock()
			held := l.running != ""
			l.mu.Unlock()
			return same >= 3 && (held || nbc.ExecuteLen() == 0) || same >= 40
		}, time.Second)
	}
	seq := 0
	flipped := false
	upgraded := false
	var fedNames []string // messages put on the wire of the upgraded, open connection: each is owed a callback
	shape := "cb"
	for _, ln := range ops {
		ow := strings.Fields(ln)
		if pollerStuck {
			e.P("> %s", ln)
			e.P("%s", l.line())
			continue
		}
		switch {
		case ow[0] == "Q":
		case ow[1] == "upgrade":
			feed([]byte(upgradeReq))
			upgraded = true
		case ow[1] == "go":
			if holdRel != nil {
				close(holdRel)
				holdRel = nil
			}
		case ow[1] == "recv" || ow[1] == "ping" || ow[1] == "pong":
			if !flipped {
				name, op := fmt.Sprintf("m%d", seq), byte(1)
				switch ow[1] {
				case "ping":
					name, op = fmt.Sprintf("p%d", seq), 9
				case "pong":
					name, op = fmt.Sprintf("p%d", seq), 10
				}
				feed(maskedFrame(op, []byte(name)))
				if upgraded && !nbc.VerifState().Closed {
					fedNames = append(fedNames, name)
				}
			}
			seq++
		case ow[1] == "flip":
			flipped = true
			before := nbc.ExecuteLen()
			_ = nbc.Close()
			// the close job is submitted by the engine's Async drainer: wait for it to be queued (or started)
			waitFor(func() bool {
				l.mu.Lock()
				defer l.mu.Unlock()
				return nbc.ExecuteLen() > before || l.closes > 0
			}, time.Second)
		case ow[1] == "cb" || ow[1] == "cbpanic":
			l.mu.Lock()
			held := l.running != ""
			ends := l.ends
			l.mu.Unlock()
			if held {
				l.gate <- ow[1] == "cbpanic"
				waitFor(func() bool { l.mu.Lock(); defer l.mu.Unlock(); return l.ends > ends }, time.Second)
			}
		}
		settle()
		e.P("> %s", ln)
		e.P("%s", l.line())
		shape += "|" + ow[len(ow)-1][:1]
	}
	checkLog(e, l, false, "poller-driven, gated")
	e.Key(shape+l.line(), seq >= 2)
	e.Count("cases", "cb")
	// drain
	if holdRel != nil {
		close(holdRel)
	}
	for i := 0; i < 64; i++ {
		l.gate <- false
	}
	_ = nbc.Close()
	// ---- with every gate open and the connection ended, what is owed must arrive (a handler panic, which nbio
	// recovers, must not stop the deliveries): every message that was put on the wire of the open connection gets its
	// callback, then the close callback runs, once
	if holdRel == nil && hold == nil {
		l.mu.Lock()
		opened := len(l.done) > 0 && l.done[0] == "open" || l.running == "open"
		l.mu.Unlock()
		if opened {
			want := len(fedNames)
			waitFor(func() bool {
				l.mu.Lock()
				defer l.mu.Unlock()
				n := 0
				for _, d := range l.done {
					if strings.HasPrefix(d, "m") || strings.HasPrefix(d, "p") {
						n++
					}
				}
				return n >= want && l.closes > 0 && l.running == ""
			}, 2*time.Second)
			l.mu.Lock()
			got := map[string]bool{}
			for _, d := range l.done {
				got[d] = true
			}
			var missing []string
			for _, n := range fedNames {
				if !got[n] {
					missing = append(missing, n)
				}
			}
			closes, panics, doneLog := l.closes, l.panics, append([]string(nil), l.done...)
			l.mu.Unlock()
			if len(missing) > 0 {
				e.Oracle("c14-callback-order", "poller-driven, gated: message(s) %v never handed to the message callback although the connection was open when they arrived (handler panics so far: %d); log %v", missing, panics, doneLog)
			}
			if closes == 0 {
				e.Oracle("c14-close-once", "poller-driven, gated: the connection ended but the close callback never ran (handler panics so far: %d); log %v", panics, doneLog)
			}
		}
	}
	done := make(chan struct{})
	go func() { eng.Stop(); close(done) }()
	select {
	case <-done:
	case <-time.After(5 * time.Second):
	}
	vsys.Forget(fd)
}

// ---------------------------------------------------------------------------------- e2e: the upgrade paths over real sockets

type e2eLog struct {
	mu      sync.Mutex
	done    []string
	running int32
	overlap bool
	closes  int
}

func (l *e2eLog) cb(name string, body func()) {
	if atomic.AddInt32(&l.running, 1) != 1 {
		l.mu.Lock()
		l.overlap = true
		l.mu.Unlock()
	}
	if body != nil {
		body()
	}
	l.mu.Lock()
	l.done = append(l.done, name)
	if name == "close" {
		l.closes++
	}
	l.mu.Unlock()
	atomic.AddInt32(&l.running, -1)
}

func runE2E(e *lp.Exec, head string, ops []string) {
	vsys.VirtualAll = false
	ws := strings.Fields(head)
	path, queued := field(ws, "path"), field(ws, "queued") == "1"
	var epollMod, oneshot uint32
	switch field(ws, "mode") {
	case "et":
		epollMod = nbio.EPOLLET
	case "etos":
		epollMod, oneshot = nbio.EPOLLET, nbio.EPOLLONESHOT
	}
	e.P("> %s", head)
	e.P("ok")
	for _, ln := range ops {
		ow := strings.Fields(ln)
		if ow[0] != "O" || ow[1] != "run" {
			e.P("> %s", ln)
			e.P("R -")
			continue
		}
		msgs, writers, size := atoi(field(ow, "msgs")), atoi(field(ow, "writers")), atoi(field(ow, "size"))
		l := &e2eLog{}
		cl := &cbLog{}
		u := websocket.NewUpgrader()
		u.KeepaliveTime = 0
		u.BlockingModAsyncWrite = queued
		var wsrv *websocket.Conn
		var wgW sync.WaitGroup
		rets := make([]string, writers)
		// the HTTP handler that performs the upgrade is slow too: on the paths where it shares an executor with the
		// websocket callbacks (poller-driven: the conn's job queue; blocking parser: the reader goroutine) no message
		// or close callback may run while it is still running (C05)
		var inHandler, overlapH int32
		execKind := "-"
		u.OnOpen(func(c *websocket.Conn) {
			switch reflect.ValueOf(c.Execute).Pointer() {
			case reflect.ValueOf(nbhttp.SyncExecutor).Pointer():
				execKind = "sync"
			case reflect.ValueOf((&nbio.Conn{}).Execute).Pointer():
				execKind = "queue"
			case 0:
				execKind = "none"
			default:
				execKind = "other"
			}
			l.cb("open", func() { time.Sleep(3 * time.Millisecond) }) // messages are already on their way
			wsrv = c
			for w := 0; w < writers; w++ {
				wgW.Add(1)
				go func(w int) {
					defer wgW.Done()
					rets[w] = retKind(c.WriteMessage(websocket.BinaryMessage, payloadOf(w, size)))
				}(w)
			}
		})
		u.OnMessage(func(c *websocket.Conn, mt websocket.MessageType, data []byte) {
			name := string(data)
			if atomic.LoadInt32(&inHandler) == 1 {
				atomic.StoreInt32(&overlapH, 1)
			}
			l.cb(name, func() { time.Sleep(200 * time.Microsecond) })
		})
		u.OnClose(func(c *websocket.Conn, err error) {
			if atomic.LoadInt32(&inHandler) == 1 {
				atomic.StoreInt32(&overlapH, 1)
			}
			l.cb("close", nil)
		})
		mux := http.NewServeMux()
		transfer := path == "transfer"
		sharedExec := path == "poller" || path == "blockparser"
		mux.HandleFunc("/ws", func(w http.ResponseWriter, r *http.Request) {
			atomic.StoreInt32(&inHandler, 1)
			if transfer {
				_, _ = u.UpgradeAndTransferConnToPoller(w, r, nil)
			} else {
				_, _ = u.Upgrade(w, r, nil)
			}
			if sharedExec {
				time.Sleep(2 * time.Millisecond) // the rest of the handler, after the upgrade
			}
			atomic.StoreInt32(&inHandler, 0)
		})
		var addr string
		var stop func()
		maxf := 32 * 1024
		switch path {
		case "poller", "blockparser":
			im := nbhttp.IOModNonBlocking
			if path == "blockparser" {
				im = nbhttp.IOModBlocking
			}
			eng := nbhttp.NewEngine(nbhttp.Config{Network: "tcp", Addrs: []string{"127.0.0.1:0"}, NPoller: 2, Handler: mux, IOMod: im,
				EpollMod: epollMod, EPOLLONESHOT: oneshot,
				MessageHandlerPoolSize: 16, BodyAllocator: mempool.New(1024, 1<<20), KeepaliveTime: time.Hour})
			u.Engine = eng
			if err := eng.Start(); err != nil {
				panic(err)
			}
			addr = eng.Addrs[0]
			stop = func() { stopWithin(eng.Stop) }
		default: // ownloop, transfer: the std server hands the conn over
			eng := nbhttp.NewEngine(nbhttp.Config{NPoller: 2, EpollMod: epollMod, EPOLLONESHOT: oneshot,
				MessageHandlerPoolSize: 16, BodyAllocator: mempool.New(1024, 1<<20), KeepaliveTime: time.Hour})
			u.Engine = eng
			if err := eng.Start(); err != nil {
				panic(err)
			}
			lnr, err := net.Listen("tcp", "127.0.0.1:0")
			if err != nil {
				panic(err)
			}
			srv := &http.Server{Handler: mux}
			go func() { _ = srv.Serve(lnr) }()
			addr = lnr.Addr().String()
			stop = func() { _ = srv.Close(); stopWithin(eng.Stop) }
		}
		// ---- raw client
		c, err := net.DialTimeout("tcp", addr, 3*time.Second)
		if err != nil {
			panic(err)
		}
		_ = c.SetDeadline(time.Now().Add(90 * time.Second))
		// the handshake; the messages follow in one write as soon as the 101 response is here — the server writes
		// that response BEFORE it calls the open handler, so they race the (slow) open handler
		_, _ = c.Write([]byte(upgradeReq))
		br := bufio.NewReaderSize(c, 1<<16)
		resp, err := http.ReadResponse(br, nil)
		ok101 := err == nil && resp.StatusCode == 101
		if ok101 {
			var out []byte
			for i := 0; i < msgs; i++ {
				out = append(out, maskedFrame(1, []byte(fmt.Sprintf("m%d", i)))...)
			}
			_, _ = c.Write(out)
		}
		lens := map[int]int{}
		for w := 0; w < writers; w++ {
			lens[w] = size
		}
		var wire []byte
		var ids []string
		prob := ""
		starved := false
		if ok101 {
			buf := make([]byte, 1<<16)
			want := writers * nfrag(size, maxf)
			for {
				fs, _ := decode(wire)
				ids, prob = identify(fs, lens, maxf, true)
				if prob != "" || len(ids) >= want {
					break
				}
				n, err := br.Read(buf)
				wire = append(wire, buf[:n]...)
				if err != nil {
					if ne, ok := err.(net.Error); ok && ne.Timeout() {
						starved = true // the client's own deadline: the machine is overloaded, nothing can be concluded
					}
					break
				}
			}
		}
		// all messages delivered? then end the connection from the client side
		waitFor(func() bool { l.mu.Lock(); defer l.mu.Unlock(); return len(l.done) >= 1+msgs }, 3*time.Second)
		wgW.Wait()
		_ = c.Close()
		waitFor(func() bool { l.mu.Lock(); defer l.mu.Unlock(); return l.closes > 0 }, 3*time.Second)
		time.Sleep(5 * time.Millisecond)
		_ = wsrv
		l.mu.Lock()
		cl.done, cl.overlap, cl.closes = append([]string(nil), l.done...), l.overlap, l.closes
		l.mu.Unlock()
		what := fmt.Sprintf("e2e path=%s queued=%v mode=%s", path, queued, field(ws, "mode"))
		if starved || (!ok101 && err != nil && isTimeout(err)) {
			// one-sided: a client-side timeout on an overloaded machine says nothing about the property
			e.P("> %s skip=1", ln)
			e.P("R skipped")
			e.Count("e2e", "skipped-client-timeout")
			stop()
			continue
		}
		if !ok101 {
			e.Oracle("c14-callback-order", "%s: upgrade failed: %v", what, err)
		}
		checkLog(e, cl, true, what)
		if sharedExec && atomic.LoadInt32(&overlapH) == 1 {
			e.Oracle("c05-overlap", "%s: a websocket message/close callback ran while the HTTP handler that upgraded the same connection was still running (executor installed by Upgrade: %s); log %v", what, execKind, cl.done)
		}
		fs, _ := decode(wire)
		ids, prob = identify(fs, lens, maxf, false)
		whole := 1
		if prob != "" {
			whole = 0
			e.Oracle("c14-frames-whole", "%s: %s; frames %v", what, prob, ids)
		}
		groups := 0
		on := map[int]int{}
		for _, id := range ids {
			var g, k int
			if _, err := fmt.Sscanf(id, "%d:%d", &g, &k); err == nil && k == 0 {
				on[g]++
				groups++
			}
		}
		for w := 0; w < writers; w++ {
			if rets[w] == "ok" && on[w] != 1 {
				e.Oracle("c14-lost-dup", "%s: writer %d returned nil and appears %d times on the wire", what, w, on[w])
			}
		}
		e.P("> %s", ln)
		logc := append([]string(nil), cl.done...)
		if path == "transfer" {
			// On the transferred path the open handler runs outside the conn's job queue (known finding
			// C14-transfer-open-race, reported by the oracle above): its position in the log is not determined.
			// The compared field carries the log with `open` moved to the front; `rawlog` is the observed order.
			var rest []string
			has := false
			for _, n := range logc {
				if n == "open" {
					has = true
				} else {
					rest = append(rest, n)
				}
			}
			if has {
				logc = append([]string{"open"}, rest...)
			}
		}
		e.P("R log=%s groups=%d whole=%d exec=%s rawlog=%s", strings.Join(logc, ","), groups, whole, execKind, strings.Join(cl.done, ","))
		e.Key(fmt.Sprintf("%s|%d.%d.%d|%s", what, msgs, writers, nfrag(size, maxf), strings.Join(cl.done, ",")), writers >= 2 || msgs >= 2)
		e.Count("e2e", path)
		stop()
	}
}

func isTimeout(err error) bool {
	ne, ok := err.(net.Error)
	return ok && ne.Timeout()
}

func stopWithin(f func()) {
	done := make(chan struct{})
	go func() { f(); close(done) }()
	select {
	case <-done:
	case <-time.After(5 * time.Second):
	}
}

var _ = io.EOF
var _ = sort.Ints

func exec(e *lp.Exec) {
	logging.SetLevel(logging.LevelNone)
	nbio.MaxOpenFiles = 19999
	var head string
	var ops []string
	flush := func() {
		if head == "" {
			return
		}
		ws := strings.Fields(head)
		switch ws[2] {
		case "cb":
			runCB(e, head, ops)
		case "wq":
			runWQ(e, head, ops)
		case "wd":
			runWD(e, head, ops)
		case "e2e":
			runE2E(e, head, ops)
		}
		head, ops = "", nil
	}
	for e.In.Scan() {
		ln := strings.TrimSpace(e.In.Text())
		if ln == "" {
			continue
		}
		if strings.HasPrefix(ln, "C ") {
			flush()
			head = ln
			continue
		}
		ops = append(ops, ln)
	}
	flush()
}

func main() { lp.Main(gen, exec) }
