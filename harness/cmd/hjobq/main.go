// hjobq: per-connection job serialization (C05) on the real Conn.Execute / MustExecute / execute, and
// the same hand-over protocol of timer.Timer.Async (C19, last sentence).
//
// The harness replays chosen schedules at the granularity of the Lean model ExecQ (DESIGN §5.1): it
// does not enumerate interleavings of the real code — Lean quantifies over all schedules of the
// model, the harness forces selected ones on the implementation and observes the stable state the
// implementation converges to (internal/quiesce: every goroutine blocked).
//
// ops:   C kind=<conn|async> exec=<inline|go|pool|park|tp> slots=<k> nconn=<n>
//
//	S c j must=<0|1> g=<0|1> from=<-|k>   submit job j on conn c (Execute / MustExecute; timer.Async for
//	                                       kind=async); g=1: the job waits for its gate; from=k: the call
//	                                       is made from inside the body of the running job k
//	W                                      exec=park: start the oldest parked drainer closure   (model: spawn)
//	F c j p=<0|1>                          open the gate of the running job j (p=1: it panics)   (model: finish, next)
//	X c                                    Close the conn; the engine's close handler calls MustExecute(1000+c)
//	B c n k hold=<0|1>                     burst: k goroutines submit n ungated jobs each, concurrently
//	                                       (hold=1: behind a gated job that is released afterwards; for
//	                                       kind=async n*k goes up to 3000 so that the backing array of the
//	                                       queue grows past 1024 entries and the drainer's shrink branch runs)
//	H c n k                                hammer: k goroutines call Execute n times each while another
//	                                       goroutine calls Close (free running; repeated by the failing-input
//	                                       search `gen -tier hammer`)
//	D c n k                                drain hammer: k goroutines submit n tiny ungated jobs each in a tight
//	                                       loop, so that the queue drains and refills thousands of times while
//	                                       submitters keep arriving: the drainer's exit (drained test + reset,
//	                                       one critical section) races the submitters' head test. Free running;
//	                                       the result (every accepted job ran, once, per-submitter order, one at
//	                                       a time, queue empty) does not depend on the interleaving
//
// exec appends big=<0|1> to every op of a kind=async case: the queue's backing array shrank during the op
// (Timer.Async took its `cap > 1024` reset branch) — an input of the model's reset step.
// Engine.Execute is set through the public field to: inline (f()), go (go f()), pool (a bounded pool of
// `slots` workers with a FIFO backlog), park (closures are kept until W), tp (nbio's own taskpool.Go).
//
// result line:  ev=<c.sJ,c.eJ,...> ret=<j:r,...> jobs=<len(jobList) per conn>      (B: acc= ran= jobs=)
//
// Direct oracles (from the log alone, at the end of the case after everything was released):
//
//	c05-log  (kind=conn) / c19-async-fifo (kind=async):
//	   overlap       two jobs of one conn inside job() at the same time
//	   order         jobs did not run in submission order
//	   multiplicity  an accepted job ran twice or never
//	   closed        Execute on a closed conn returned true / its job ran; Execute on an open conn returned false;
//	                 a job accepted by Execute ran after the conn's close handler
//	   panic         a recovered panic was not logged exactly once, or later jobs did not run
package main

import (
	"fmt"
	"runtime"
	"sort"
	"strconv"
	"strings"
	"sync"
	"sync/atomic"
	"time"

	"harness/internal/childcase"
	"harness/internal/lp"
	"harness/internal/quiesce"

	"github.com/lesismal/nbio"
	"github.com/lesismal/nbio/logging"
	"github.com/lesismal/nbio/taskpool"
	"github.com/lesismal/nbio/timer"
	"github.com/lesismal/nbio/vsys"
)

// ---------------------------------------------------------------- generator (with a small simulator
// of the executor so that most generated ops are enabled)

type gconn struct {
	list    []int // accepted, not yet finished
	gated   map[int]bool
	closed  bool
	spawned bool // a drainer closure exists
	started bool // ... and was started by the executor
}

type gsim struct {
	exec   string
	slots  int
	busy   int
	parked []int
	conns  []*gconn
	kind   string
}

func (s *gsim) startDrainer(c int) { s.conns[c].started = true; s.runUngated(c) }

// runUngated: ungated jobs at the head finish by themselves
func (s *gsim) runUngated(c int) {
	cn := s.conns[c]
	for cn.started && len(cn.list) > 0 && !cn.gated[cn.list[0]] {
		cn.list = cn.list[1:]
	}
	if cn.started && len(cn.list) == 0 {
		s.exit(c)
	}
}

func (s *gsim) exit(c int) {
	cn := s.conns[c]
	cn.spawned, cn.started = false, false
	if s.exec == "pool" {
		s.busy--
		if len(s.parked) > 0 {
			n := s.parked[0]
			s.parked = s.parked[1:]
			s.busy++
			s.startDrainer(n)
		}
	}
}

func (s *gsim) submit(c, j int, must, gated bool) {
	cn := s.conns[c]
	if cn.closed && !must && s.kind == "conn" {
		return
	}
	head := len(cn.list) == 0
	cn.list = append(cn.list, j)
	cn.gated[j] = gated
	if !head {
		return
	}
	cn.spawned = true
	switch s.exec {
	case "park":
		s.parked = append(s.parked, c)
	case "pool":
		if s.busy < s.slots {
			s.busy++
			s.startDrainer(c)
		} else {
			s.parked = append(s.parked, c)
		}
	default:
		s.startDrainer(c)
	}
}

func (s *gsim) running(c int) (int, bool) {
	cn := s.conns[c]
	if cn.started && len(cn.list) > 0 {
		return cn.list[0], true
	}
	return 0, false
}

func (s *gsim) finish(c int) {
	cn := s.conns[c]
	cn.list = cn.list[1:]
	s.runUngated(c)
}

// genHammer: Execute racing Close (free running; the failing-input search repeats these).
func genHammer(g *lp.Gen) {
	nconn := 1 + g.Intn(2)
	g.P("C kind=conn exec=%s slots=1 nconn=%d", g.Pick("go", "go", "inline", "tp"), nconn)
	next := 1
	for c := 0; c < nconn; c++ {
		if g.Chance(1, 2) { // some completed work first
			g.P("S %d %d must=0 g=1 from=-", c, next)
			g.P("F %d %d p=0", c, next)
			next++
		}
	}
	for c := 0; c < nconn; c++ {
		g.P("H %d %d %d", c, 20+g.Intn(200), 2+g.Intn(7))
		g.P("S %d %d must=0 g=0 from=-", c, next)
		next++
		if g.Chance(1, 2) {
			g.P("S %d %d must=1 g=0 from=-", c, next)
			next++
		}
	}
}

// genBacklog: Timer.Async with a backlog of more than 1024 functions behind a gated first one (the
// drainer's `cap > 1024` shrink branch), then submissions after the drain.
func genBacklog(g *lp.Gen) {
	g.P("C kind=async exec=go slots=1 nconn=1")
	next := 1
	rounds := 1
	if g.Chance(1, 4) {
		rounds = 2
	}
	for r := 0; r < rounds; r++ {
		k := 2 + g.Intn(3)
		total := 1100 + g.Intn(1200)
		if g.Chance(1, 8) {
			total = 2300 + g.Intn(700)
		}
		if g.Chance(1, 4) {
			total = g.PickInt(1023, 1024, 1025, 1030, 2047, 2049)
		}
		g.P("B 0 %d %d hold=1", (total+k-1)/k, k)
		for i := 0; i < 1+g.Intn(3); i++ {
			gated := g.Chance(2, 3)
			g.P("S 0 %d must=1 g=%d from=-", next, b2i(gated))
			if gated {
				if g.Chance(1, 2) {
					g.P("S 0 %d must=1 g=0 from=%d", next+1, next)
					next++
					g.P("F 0 %d p=%d", next-1, b2i(g.Chance(1, 5)))
				} else {
					g.P("F 0 %d p=%d", next, b2i(g.Chance(1, 5)))
				}
			}
			next++
		}
		if g.Chance(1, 2) {
			g.P("B 0 %d %d hold=%d", 5+g.Intn(40), 2+g.Intn(3), b2i(g.Chance(1, 2)))
		}
		if g.Chance(1, 3) {
			g.P("D 0 %d %d", 1500+g.Intn(3500), 2+g.Intn(4))
		}
	}
}

func gen(g *lp.Gen) {
	for cs := 0; cs < g.N; cs++ {
		if g.Tier == "hammer" || g.Chance(1, 12) {
			genHammer(g)
			continue
		}
		if g.Chance(1, 60) {
			genBacklog(g)
			continue
		}
		s := &gsim{kind: "conn", slots: 1}
		if g.Chance(1, 5) {
			s.kind = "async"
			s.exec = "go"
		} else {
			s.exec = g.Pick("inline", "go", "pool", "park", "park", "tp")
		}
		nconn := 1
		if s.kind == "conn" && g.Chance(1, 2) {
			nconn = 2 + g.Intn(2)
		}
		if s.exec == "pool" {
			s.slots = 1 + g.Intn(2)
			if nconn == 1 {
				nconn = 2
			}
		}
		for i := 0; i < nconn; i++ {
			s.conns = append(s.conns, &gconn{gated: map[int]bool{}})
		}
		g.P("C kind=%s exec=%s slots=%d nconn=%d", s.kind, s.exec, s.slots, nconn)
		nops := 6 + g.Intn(30)
		next := 1
		for i := 0; i < nops; i++ {
			c := g.Intn(nconn)
			cn := s.conns[c]
			r := g.Intn(100)
			run, isRun := s.running(c)
			switch {
			case r < 40:
				must := s.kind == "async" || g.Chance(1, 4)
				gated := g.Chance(4, 5)
				from := "-"
				if isRun && g.Chance(1, 3) {
					from = strconv.Itoa(run)
				}
				j := next
				next++
				g.P("S %d %d must=%d g=%d from=%s", c, j, b2i(must), b2i(gated), from)
				s.submit(c, j, must, gated)
			case r < 70:
				if !isRun {
					// look for any conn with a running job
					for k := range s.conns {
						if rj, ok := s.running(k); ok {
							c, run, isRun = k, rj, true
							break
						}
					}
				}
				if isRun && g.Chance(19, 20) {
					g.P("F %d %d p=%d", c, run, b2i(g.Chance(1, 5)))
					s.finish(c)
					// the hand-over race in the other order: submit right after the list was reset
					if len(s.conns[c].list) == 0 && g.Chance(1, 2) {
						j := next
						next++
						g.P("S %d %d must=%d g=%d from=-", c, j, b2i(s.kind == "async" || g.Chance(1, 4)), b2i(g.Chance(4, 5)))
						s.submit(c, j, true, true) // approximate (a refused Execute only makes the simulator optimistic)
						if s.conns[c].closed && s.kind == "conn" {
							// resync pessimistically: unknown whether accepted; stop using this conn's head
						}
					}
				} else if g.Chance(1, 15) {
					g.P("F %d %d p=0", c, 7000+g.Intn(10)) // not running: both sides reject
				}
			case r < 82:
				if s.exec == "park" && len(s.parked) > 0 {
					g.P("W")
					n := s.parked[0]
					s.parked = s.parked[1:]
					s.startDrainer(n)
				} else if s.exec == "park" && g.Chance(1, 4) {
					g.P("W")
				}
			case r < 90:
				if s.kind == "conn" && (i > nops/2 || g.Chance(1, 6)) && g.Chance(1, 2) {
					g.P("X %d", c)
					if !cn.closed {
						cn.closed = true
						s.submit(c, 1000+c, true, false)
					}
				}
			default:
				idle := !cn.spawned && len(cn.list) == 0
				if idle && (s.exec == "inline" || s.exec == "go" || s.exec == "tp") {
					if g.Chance(1, 6) {
						g.P("D %d %d %d", c, 1000+g.Intn(3000), 2+g.Intn(4))
					} else {
						g.P("B %d %d %d hold=%d", c, 5+g.Intn(40), 2+g.Intn(4), b2i(g.Chance(1, 2)))
					}
				}
			}
		}
	}
}

func b2i(b bool) int {
	if b {
		return 1
	}
	return 0
}

// ---------------------------------------------------------------- executor

type job struct {
	id, conn int
	gated    bool
	gate     chan struct{}
	cmds     chan func()
	panics   bool
	must     bool
	ret      int // -1: call not returned yet; 0/1 result
	reported bool
	called   bool
	expect   int // what the property demands of the return value (decided from the ops alone)
}

type logEv struct {
	conn int
	kind byte
	id   int
}

type bpool struct {
	mu    sync.Mutex
	slots int
	busy  int
	q     []func()
}

func (p *bpool) Go(f func()) {
	p.mu.Lock()
	if p.busy < p.slots {
		p.busy++
		p.mu.Unlock()
		go p.run(f)
		return
	}
	p.q = append(p.q, f)
	p.mu.Unlock()
}

func (p *bpool) run(f func()) {
	for {
		f()
		p.mu.Lock()
		if len(p.q) == 0 {
			p.busy--
			p.mu.Unlock()
			return
		}
		f = p.q[0]
		p.q = p.q[1:]
		p.mu.Unlock()
	}
}

type capLogger struct {
	mu     sync.Mutex
	panics int
}

func (l *capLogger) Debug(f string, v ...interface{}) {}
func (l *capLogger) Info(f string, v ...interface{})  {}
func (l *capLogger) Warn(f string, v ...interface{})  {}
func (l *capLogger) Error(f string, v ...interface{}) {
	if strings.Contains(f, "execute failed") || strings.Contains(f, "async call failed") {
		l.mu.Lock()
		l.panics++
		l.mu.Unlock()
	}
}

type segment struct { // what was handed over, in order, per conn (for the order oracle)
	single int
	burst  [][]int // per submitter
	hold   int
	hammer bool // a burst racing Close: return values are not predetermined
}

type sess struct {
	kind, exec string
	nconn      int
	g          *nbio.Engine
	conns      []*nbio.Conn
	tm         *timer.Timer
	tp         *taskpool.TaskPool
	pool       *bpool

	mu      sync.Mutex
	log     []logEv
	logMark int
	jobs    map[int]*job
	parked  []func()
	closed  []bool
	segs    [][]segment
	npanic  int
	lastCap int
	key     strings.Builder
	nontriv bool
	bserial int
}

func (s *sess) ev(j *job, kind byte) {
	s.mu.Lock()
	s.log = append(s.log, logEv{j.conn, kind, j.id})
	s.mu.Unlock()
}

func (s *sess) body(j *job) func() {
	return func() {
		s.ev(j, 's')
		if !j.gated {
			s.ev(j, 'e')
			return
		}
		for {
			select {
			case f := <-j.cmds:
				f()
			case <-j.gate:
				s.ev(j, 'e')
				if j.panics {
					panic("job panics")
				}
				return
			}
		}
	}
}

// call performs the submission of j (synchronously in the calling goroutine).
func (s *sess) call(j *job) {
	var r bool
	switch {
	case s.kind == "async":
		s.tm.Async(s.body(j))
		r = true
	case j.must:
		s.conns[j.conn].MustExecute(s.body(j))
		r = true
	default:
		r = s.conns[j.conn].Execute(s.body(j))
	}
	s.mu.Lock()
	j.ret = b2i(r)
	s.mu.Unlock()
}

func newSess(kind, exec string, slots, nconn int, lg *capLogger) *sess {
	s := &sess{kind: kind, exec: exec, nconn: nconn, jobs: map[int]*job{}}
	s.closed = make([]bool, nconn)
	s.segs = make([][]segment, nconn)
	lg.mu.Lock()
	lg.panics = 0
	lg.mu.Unlock()
	if kind == "async" {
		s.tm = timer.New("verif")
		s.lastCap = s.tm.VerifAsyncCap()
		return s
	}
	s.g = nbio.NewEngine(nbio.Config{NPoller: 1})
	switch exec {
	case "inline":
		s.g.Execute = func(f func()) { f() }
	case "go":
		s.g.Execute = func(f func()) { go f() }
	case "pool":
		s.pool = &bpool{slots: slots}
		s.g.Execute = s.pool.Go
	case "park":
		s.g.Execute = func(f func()) {
			s.mu.Lock()
			s.parked = append(s.parked, f)
			s.mu.Unlock()
		}
	case "tp":
		s.tp = taskpool.New(8, 64)
		s.g.Execute = s.tp.Go
	}
	s.g.OnClose(func(c *nbio.Conn, err error) {
		ci := c.Session().(int)
		j := &job{id: 1000 + ci, conn: ci, must: true, ret: -1, expect: 1, called: true, gate: make(chan struct{}), cmds: make(chan func())}
		s.mu.Lock()
		s.jobs[j.id] = j
		s.segs[ci] = append(s.segs[ci], segment{single: j.id})
		s.mu.Unlock()
		s.call(j)
	})
	for i := 0; i < nconn; i++ {
		fd, _ := vsys.NewVFD()
		c := nbio.VerifNewJobConn(s.g, fd)
		c.SetSession(i)
		s.conns = append(s.conns, c)
	}
	return s
}

func (s *sess) jobsLen() string {
	var p []string
	if s.kind == "async" {
		return strconv.Itoa(s.tm.VerifAsyncLen())
	}
	for _, c := range s.conns {
		p = append(p, strconv.Itoa(c.ExecuteLen()))
	}
	return strings.Join(p, ",")
}

// echo prints the annotated op line (after the implementation has become stable, so that the
// environment's answers can be attached).
func (s *sess) echo(e *lp.Exec, line string) {
	quiesce.Wait(30 * time.Second)
	var toks []string
	for _, t := range strings.Fields(line) {
		if !strings.HasPrefix(t, "big=") {
			toks = append(toks, t)
		}
	}
	e.P("> %s big=%d", strings.Join(toks, " "), s.bigNow())
}

// bigNow: did Timer.Async replace its backing array by a small one since the last op?
func (s *sess) bigNow() int {
	if s.kind != "async" {
		return 0
	}
	c := s.tm.VerifAsyncCap()
	big := b2i(c < s.lastCap)
	s.lastCap = c
	return big
}

// observe prints the result line after the implementation has become stable.
func (s *sess) observe(e *lp.Exec) {
	if !quiesce.Wait(30 * time.Second) {
		_, who := quiesce.Busy()
		e.P("timeout: the implementation did not reach a stable state (%s)", who)
		return
	}
	s.mu.Lock()
	var evs []string
	for _, l := range s.log[s.logMark:] {
		evs = append(evs, fmt.Sprintf("%d.%c%d", l.conn, l.kind, l.id))
	}
	s.logMark = len(s.log)
	var ids []int
	for id, j := range s.jobs {
		if j.called && j.ret >= 0 && !j.reported {
			ids = append(ids, id)
		}
	}
	sort.Ints(ids)
	var rets []string
	for _, id := range ids {
		j := s.jobs[id]
		j.reported = true
		rets = append(rets, fmt.Sprintf("%d:%d", id, j.ret))
	}
	s.mu.Unlock()
	e.P("ev=%s ret=%s jobs=%s", strings.Join(evs, ","), strings.Join(rets, ","), s.jobsLen())
}

func (s *sess) runningJob(c int) int {
	s.mu.Lock()
	defer s.mu.Unlock()
	open := -1
	for _, l := range s.log {
		if l.conn != c {
			continue
		}
		if l.kind == 's' {
			open = l.id
		} else if l.id == open {
			open = -1
		}
	}
	return open
}

func kvs(f []string) map[string]string {
	m := map[string]string{}
	for _, t := range f {
		if i := strings.IndexByte(t, '='); i > 0 {
			m[t[:i]] = t[i+1:]
		}
	}
	return m
}

// exec: cases that contain a panicking job run in a child process (a panic that Conn.execute / Timer.Async
// does not recover kills the process; the parent turns that into a direct-oracle report with the case as
// the failing input); everything else runs in-process.
func exec(e *lp.Exec) {
	if childcase.IsChild() {
		execStream(e)
		return
	}
	var batch []string
	flush := func() {
		if len(batch) > 0 {
			e.In = childcase.Scanner(batch)
			execStream(e)
			batch = nil
		}
	}
	for _, cs := range childcase.Split(e.In) {
		risky := false
		for _, l := range cs {
			if strings.Contains(l, " p=1") {
				risky = true
			}
		}
		if !risky {
			batch = append(batch, cs...)
			continue
		}
		flush()
		if crashed, why := childcase.Run(e, cs); crashed {
			name := "c05-log"
			if strings.Contains(cs[0], "kind=async") {
				name = "c19-async-fifo"
			}
			e.Oracle(name, "panic: a panicking job killed the process instead of being recovered (%s); later jobs cannot run", why)
			e.Key("crash|"+cs[0], true)
		}
	}
	flush()
}

func execStream(e *lp.Exec) {
	lg := &capLogger{}
	logging.SetLogger(lg)
	var s *sess
	finish := func() {
		if s == nil {
			return
		}
		s.finish(e, lg)
		s = nil
	}
	for e.In.Scan() {
		line := e.In.Text()
		f := strings.Fields(line)
		if len(f) == 0 {
			continue
		}
		kv := kvs(f[1:])
		var pos []int
		okNums := true
		for _, t := range f[1:] {
			if !strings.Contains(t, "=") {
				n, err := strconv.Atoi(t)
				if err != nil {
					okNums = false
				}
				pos = append(pos, n)
			}
		}
		bad := func() { e.P("> %s", line); e.P("bad-op") }
		rejected := func() { e.P("> %s", line); e.P("rejected") }
		if !okNums || (f[0] != "C" && s == nil) {
			bad()
			continue
		}
		connOK := func(c int) bool { return c >= 0 && c < s.nconn }
		switch f[0] {
		case "C":
			finish()
			kind, ex := kv["kind"], kv["exec"]
			slots, _ := strconv.Atoi(kv["slots"])
			nconn, _ := strconv.Atoi(kv["nconn"])
			if (kind != "conn" && kind != "async") || nconn < 1 || nconn > 8 || slots < 1 ||
				(ex != "inline" && ex != "go" && ex != "pool" && ex != "park" && ex != "tp") || (kind == "async" && (ex != "go" || nconn != 1)) {
				bad()
				continue
			}
			s = newSess(kind, ex, slots, nconn, lg)
			fmt.Fprintf(&s.key, "%s/%s/%d/%d|", kind, ex, slots, nconn)
			e.Count("cases", kind+"/"+ex)
			e.P("> %s", line)
			e.P("ok")
		case "S":
			if len(pos) < 2 || !connOK(pos[0]) {
				bad()
				continue
			}
			c, id := pos[0], pos[1]
			if _, dup := s.jobs[id]; dup || id >= 1000 {
				rejected()
				continue
			}
			j := &job{id: id, conn: c, must: kv["must"] == "1" || s.kind == "async", gated: kv["g"] != "0", ret: -1,
				gate: make(chan struct{}), cmds: make(chan func())}
			j.expect = b2i(j.must || !s.closed[c])
			from := kv["from"]
			if from != "" && from != "-" {
				k, _ := strconv.Atoi(from)
				host := s.jobs[k]
				if host == nil || host.conn != c || s.runningJob(c) != k || !host.gated {
					rejected()
					continue
				}
				s.register(j)
				host.cmds <- func() { s.call(j) } // the call is made inside job k's body, on the drainer's goroutine
			} else {
				s.register(j)
				go s.call(j)
			}
			s.echo(e, line)
			s.observe(e)
			fmt.Fprintf(&s.key, "S%d%v%v%v,", c, j.must, from != "-", s.closed[c])
			e.Count("ops", "submit")
		case "W":
			s.mu.Lock()
			var cl func()
			if len(s.parked) > 0 {
				cl = s.parked[0]
				s.parked = s.parked[1:]
			}
			s.mu.Unlock()
			if cl == nil {
				rejected()
				continue
			}
			go cl()
			s.echo(e, line)
			s.observe(e)
			s.key.WriteString("W,")
			e.Count("ops", "spawn")
		case "F":
			if len(pos) < 2 || !connOK(pos[0]) {
				bad()
				continue
			}
			c, id := pos[0], pos[1]
			j := s.jobs[id]
			if j == nil || j.conn != c || !j.gated || s.runningJob(c) != id {
				rejected()
				continue
			}
			j.panics = kv["p"] == "1"
			if j.panics {
				s.npanic++
			}
			close(j.gate)
			s.echo(e, line)
			s.observe(e)
			fmt.Fprintf(&s.key, "F%d%v,", c, j.panics)
			s.nontriv = true
			e.Count("ops", "finish")
		case "X":
			if len(pos) < 1 || !connOK(pos[0]) || s.kind != "conn" {
				bad()
				continue
			}
			c := pos[0]
			s.closed[c] = true
			s.conns[c].Close()
			s.echo(e, line)
			s.observe(e)
			fmt.Fprintf(&s.key, "X%d,", c)
			e.Count("ops", "close")
		case "B":
			if len(pos) < 3 || !connOK(pos[0]) || pos[1] < 1 || pos[2] < 1 || pos[1]*pos[2] > 4000 {
				bad()
				continue
			}
			c, n, k := pos[0], pos[1], pos[2]
			if s.exec == "park" || s.exec == "pool" || s.jobsLen() != strings.Repeat("0,", s.nconn-1)+"0" {
				rejected()
				continue
			}
			s.burst(e, c, n, k, kv["hold"] == "1")
			fmt.Fprintf(&s.key, "B%d,", k)
			s.nontriv = true
			e.Count("ops", "burst")
		case "D":
			if len(pos) < 3 || !connOK(pos[0]) || pos[1] < 1 || pos[2] < 1 || pos[2] > 16 || pos[1]*pos[2] > 40000 {
				bad()
				continue
			}
			c, n, k := pos[0], pos[1], pos[2]
			if s.exec == "park" || s.exec == "pool" || s.jobsLen() != strings.Repeat("0,", s.nconn-1)+"0" {
				rejected()
				continue
			}
			s.drainHammer(e, c, n, k)
			fmt.Fprintf(&s.key, "D%d,", k)
			s.nontriv = true
			e.Count("ops", "drain-hammer")
		case "H":
			if len(pos) < 3 || !connOK(pos[0]) || pos[1] < 1 || pos[2] < 1 || pos[1]*pos[2] > 4000 {
				bad()
				continue
			}
			c, n, k := pos[0], pos[1], pos[2]
			if s.kind != "conn" || s.exec == "park" || s.exec == "pool" || s.closed[c] || s.jobsLen() != strings.Repeat("0,", s.nconn-1)+"0" {
				rejected()
				continue
			}
			s.hammer(e, c, n, k)
			fmt.Fprintf(&s.key, "H%d,", k)
			s.nontriv = true
			e.Count("ops", "hammer")
		default:
			bad()
		}
	}
	finish()
}

// drainHammer: k goroutines submit n tiny jobs each as fast as they can. The jobs do not go through the per-job
// bookkeeping of the other ops (that would make the submitters slow and the interesting window — the drainer leaving
// while a submitter arrives — rare); they check the property themselves with three atomics.
func (s *sess) drainHammer(e *lp.Exec, c, n, k int) {
	name := "c05-log"
	if s.kind == "async" {
		name = "c19-async-fifo"
	}
	var in, overlap, disorder, ran, acc int64
	last := make([]int64, k) // per submitter: index of its last job that ran, +1
	var wg sync.WaitGroup
	startGun := make(chan struct{})
	for i := 0; i < k; i++ {
		wg.Add(1)
		go func(sub int) {
			defer wg.Done()
			<-startGun
			for t := 0; t < n; t++ {
				t := int64(t)
				if t%3 == 0 {
					runtime.Gosched()
				}
				body := func() {
					if atomic.AddInt64(&in, 1) != 1 {
						atomic.StoreInt64(&overlap, 1)
					}
					if !atomic.CompareAndSwapInt64(&last[sub], t, t+1) {
						atomic.StoreInt64(&disorder, 1)
					}
					atomic.AddInt64(&ran, 1)
					atomic.AddInt64(&in, -1)
				}
				if s.kind == "async" {
					s.tm.Async(body)
					atomic.AddInt64(&acc, 1)
				} else if s.conns[c].Execute(body) {
					atomic.AddInt64(&acc, 1)
				}
			}
		}(i)
	}
	close(startGun)
	wg.Wait()
	ok := quiesce.Wait(30 * time.Second)
	e.P("> D %d %d %d big=%d", c, n, k, s.bigNow())
	if !ok {
		e.P("timeout: the implementation did not reach a stable state")
		return
	}
	a, r := atomic.LoadInt64(&acc), atomic.LoadInt64(&ran)
	e.P("acc=%d ran=%d jobs=%s", a, r, s.jobsLen())
	if r != a {
		e.Oracle(name, "drain hammer (%d submitters x %d jobs): %d jobs were accepted, %d ran — an accepted job never ran (nothing is running or queued any more)", k, n, a, r)
	}
	if atomic.LoadInt64(&overlap) != 0 {
		e.Oracle(name, "drain hammer (%d submitters x %d jobs): two jobs of one queue ran at the same time", k, n)
	}
	if atomic.LoadInt64(&disorder) != 0 {
		e.Oracle(name, "drain hammer (%d submitters x %d jobs): a submitter's jobs did not run in the order it submitted them, each once", k, n)
	}
}

// hammer: k goroutines call Execute n times each while another goroutine closes the conn (free running).
// The property, black box: the jobs Execute accepted are, per submitter, a prefix of what it submitted, and
// all of them run before the conn's close handler (which the engine routes through MustExecute after the
// closed flag was set) — an accepted job that runs after the close handler was let in on a closed conn.
func (s *sess) hammer(e *lp.Exec, c, n, k int) {
	s.bserial++
	base := 100000 + s.bserial*10000
	seg := segment{burst: make([][]int, k), hammer: true}
	var wg sync.WaitGroup
	startGun := make(chan struct{})
	var submitted int32
	for i := 0; i < k; i++ {
		ids := make([]int, n)
		js := make([]*job, n)
		for t := range ids {
			ids[t] = base + i*n + t
			j := &job{id: ids[t], conn: c, gated: false, ret: -1, called: true, reported: true, expect: -1}
			js[t] = j
			s.mu.Lock()
			s.jobs[j.id] = j
			s.mu.Unlock()
		}
		seg.burst[i] = ids
		wg.Add(1)
		go func(js []*job) {
			defer wg.Done()
			<-startGun
			for _, j := range js {
				s.call(j)
				atomic.AddInt32(&submitted, 1)
			}
		}(js)
	}
	s.mu.Lock()
	s.segs[c] = append(s.segs[c], seg)
	mark := len(s.log)
	s.mu.Unlock()
	threshold := int32(n * k / 3)
	wg.Add(1)
	go func() {
		defer wg.Done()
		<-startGun
		for atomic.LoadInt32(&submitted) < threshold {
			runtime.Gosched()
		}
		s.conns[c].Close()
	}()
	s.closed[c] = true
	close(startGun)
	wg.Wait()
	ok := quiesce.Wait(30 * time.Second)
	s.mu.Lock()
	var order []string
	acc, ran := 0, 0
	for _, l := range s.log[mark:] {
		if l.kind == 's' {
			order = append(order, strconv.Itoa(l.id))
			ran++
		}
	}
	for _, ids := range seg.burst {
		for _, id := range ids {
			if s.jobs[id].ret == 1 {
				acc++
			}
		}
	}
	s.logMark = len(s.log)
	if cj := s.jobs[1000+c]; cj != nil {
		cj.reported = true
	}
	s.mu.Unlock()
	e.P("> H %d %d %d base=%d order=%s big=0", c, n, k, base, strings.Join(order, ","))
	if !ok {
		e.P("timeout: the implementation did not reach a stable state")
		return
	}
	e.P("acc=%d ran=%d jobs=%s", acc, ran, s.jobsLen())
}

func (s *sess) register(j *job) {
	s.mu.Lock()
	j.called = true
	s.jobs[j.id] = j
	s.segs[j.conn] = append(s.segs[j.conn], segment{single: j.id})
	s.mu.Unlock()
}

// burst: k concurrent submitters of n ungated jobs each (free running: the one part of the stream where
// the real code's interleaving is not controlled; the model takes the observed run order as an input and
// checks that it is an admissible merge).
func (s *sess) burst(e *lp.Exec, c, n, k int, hold bool) {
	s.bserial++
	base := 100000 + s.bserial*10000
	seg := segment{burst: make([][]int, k)}
	var holdJob *job
	if hold {
		holdJob = &job{id: base + 9999, conn: c, must: s.kind == "async", gated: true, ret: -1, expect: b2i(s.kind == "async" || !s.closed[c]), gate: make(chan struct{}), cmds: make(chan func()), called: true, reported: true}
		seg.hold = holdJob.id
		s.mu.Lock()
		s.jobs[holdJob.id] = holdJob
		s.mu.Unlock()
		go s.call(holdJob)
		quiesce.Wait(30 * time.Second)
	}
	var wg sync.WaitGroup
	startGun := make(chan struct{})
	for i := 0; i < k; i++ {
		ids := make([]int, n)
		for t := range ids {
			ids[t] = base + i*n + t
			j := &job{id: ids[t], conn: c, gated: false, ret: -1, called: true, reported: true, must: s.kind == "async",
				expect: b2i(s.kind == "async" || !s.closed[c])}
			s.mu.Lock()
			s.jobs[j.id] = j
			s.mu.Unlock()
		}
		seg.burst[i] = ids
		wg.Add(1)
		go func(ids []int) {
			defer wg.Done()
			<-startGun
			for _, id := range ids {
				s.call(s.jobs[id])
			}
		}(ids)
	}
	s.mu.Lock()
	s.segs[c] = append(s.segs[c], seg)
	mark := len(s.log)
	s.mu.Unlock()
	close(startGun)
	if hold {
		// wait until every submitter is done (all jobs queued behind the held one), then release it
		wg.Wait()
		close(holdJob.gate)
	}
	ok := quiesce.Wait(30 * time.Second)
	wg.Wait()
	s.mu.Lock()
	var order []string
	acc, ran := 0, 0
	for _, l := range s.log[mark:] {
		if l.kind == 's' && l.id != seg.hold {
			order = append(order, strconv.Itoa(l.id))
			ran++
		}
	}
	for _, ids := range seg.burst {
		for _, id := range ids {
			if s.jobs[id].ret == 1 {
				acc++
			}
		}
	}
	s.logMark = len(s.log)
	s.mu.Unlock()
	e.P("> B %d %d %d hold=%d base=%d order=%s big=%d", c, n, k, b2i(hold), base, strings.Join(order, ","), s.bigNow())
	if !ok {
		e.P("timeout: the implementation did not reach a stable state")
		return
	}
	e.P("acc=%d ran=%d jobs=%s", acc, ran, s.jobsLen())
}

// finish: release everything, then evaluate the property on the log alone.
func (s *sess) finish(e *lp.Exec, lg *capLogger) {
	name := "c05-log"
	if s.kind == "async" {
		name = "c19-async-fifo"
	}
	for round := 0; round < 10000; round++ {
		quiesce.Wait(30 * time.Second)
		progressed := false
		s.mu.Lock()
		parked := s.parked
		s.parked = nil
		s.mu.Unlock()
		for _, cl := range parked {
			go cl()
			progressed = true
		}
		for c := 0; c < s.nconn; c++ {
			if id := s.runningJob(c); id >= 0 {
				j := s.jobs[id]
				if j.gated {
					select {
					case <-j.gate:
					default:
						close(j.gate)
						progressed = true
					}
				}
			}
		}
		if !progressed {
			break
		}
	}
	if !quiesce.Wait(30 * time.Second) {
		e.Oracle(name, "hang: the implementation did not become stable after all jobs were released")
	}
	s.mu.Lock()
	defer s.mu.Unlock()
	// per conn analysis
	for c := 0; c < s.nconn; c++ {
		var ran []int
		open := -1
		count := map[int]int{}
		for _, l := range s.log {
			if l.conn != c {
				continue
			}
			if l.kind == 's' {
				if open >= 0 {
					e.Oracle(name, "overlap: conn %d job %d started while job %d was still running", c, l.id, open)
				}
				open = l.id
				ran = append(ran, l.id)
				count[l.id]++
			} else {
				if open != l.id {
					e.Oracle(name, "overlap: conn %d job %d ended while job %d was the running one", c, l.id, open)
				}
				open = -1
			}
		}
		if open >= 0 {
			e.Oracle(name, "multiplicity: conn %d job %d never ended", c, open)
		}
		// expected order from what was handed over
		pos := 0
		for _, sg := range s.segs[c] {
			if sg.burst == nil {
				j := s.jobs[sg.single]
				accepted := j.ret == 1
				if j.ret < 0 {
					e.Oracle(name, "hang: the submission of job %d on conn %d never returned", j.id, c)
					continue
				}
				if !accepted {
					if count[j.id] > 0 {
						e.Oracle(name, "closed: Execute returned false for job %d but the job ran", j.id)
					}
					continue
				}
				if pos >= len(ran) || ran[pos] != j.id {
					got := -1
					if pos < len(ran) {
						got = ran[pos]
					}
					if count[j.id] == 0 {
						e.Oracle(name, "multiplicity: accepted job %d on conn %d never ran", j.id, c)
						continue
					}
					e.Oracle(name, "order: conn %d position %d: expected job %d, job %d ran", c, pos, j.id, got)
				}
				pos++
				continue
			}
			// a burst: optional hold job first, then a merge of the submitters' sequences
			if sg.hold != 0 && s.jobs[sg.hold].ret == 1 {
				if pos >= len(ran) || ran[pos] != sg.hold {
					e.Oracle(name, "order: conn %d: held job %d did not run first in its burst", c, sg.hold)
				}
				pos++
			}
			want := 0
			idx := make([]int, len(sg.burst))
			owner := map[int]int{}
			for i, ids := range sg.burst {
				for _, id := range ids {
					if s.jobs[id].ret == 1 {
						want++
						owner[id] = i
					} else if count[id] > 0 {
						e.Oracle(name, "closed: Execute returned false for job %d but the job ran", id)
					}
				}
			}
			for t := 0; t < want; t++ {
				if pos >= len(ran) {
					e.Oracle(name, "multiplicity: conn %d: %d accepted burst jobs never ran", c, want-t)
					break
				}
				id := ran[pos]
				i, ok := owner[id]
				if !ok {
					e.Oracle(name, "order: conn %d: job %d ran inside a burst it does not belong to (or twice)", c, id)
					pos++
					continue
				}
				// next accepted id of submitter i
				for idx[i] < len(sg.burst[i]) && s.jobs[sg.burst[i][idx[i]]].ret != 1 {
					idx[i]++
				}
				if idx[i] >= len(sg.burst[i]) || sg.burst[i][idx[i]] != id {
					e.Oracle(name, "order: conn %d: submitter %d's jobs ran out of order (job %d)", c, i, id)
				}
				idx[i]++
				delete(owner, id)
				pos++
			}
		}
		if pos < len(ran) {
			e.Oracle(name, "multiplicity: conn %d ran %d jobs more than were accepted (first extra: %d)", c, len(ran)-pos, ran[pos])
		}
		// an Execute job must never run after the conn's close handler (it would have been accepted on a closed conn)
		seenClose := false
		for _, id := range ran {
			if id == 1000+c {
				seenClose = true
			} else if j := s.jobs[id]; seenClose && j != nil && !j.must {
				e.Oracle(name, "closed: job %d was accepted by Execute (returned %d) and ran after the close handler of conn %d: it was let in on a closed connection", id, j.ret, c)
				break
			}
		}
		for id, n := range count {
			if n > 1 {
				e.Oracle(name, "multiplicity: job %d ran %d times", id, n)
			}
		}
	}
	// return values: Execute on a closed conn must refuse, on an open conn accept; MustExecute always accepts
	var ids []int
	for id := range s.jobs {
		ids = append(ids, id)
	}
	sort.Ints(ids)
	for _, id := range ids {
		j := s.jobs[id]
		if j.ret >= 0 && j.expect >= 0 && j.ret != j.expect {
			e.Oracle(name, "closed: submission of job %d on conn %d (must=%v) returned %d, the property demands %d", id, j.conn, j.must, j.ret, j.expect)
		}
	}
	lg.mu.Lock()
	if lg.panics != s.npanic {
		e.Oracle(name, "panic: %d jobs panicked, %d recovered panics were logged", s.npanic, lg.panics)
	}
	lg.mu.Unlock()
	if s.tp != nil {
		s.tp.Stop()
	}
	e.Key(s.key.String(), s.nontriv)
}

func main() { lp.Main(gen, exec) }
