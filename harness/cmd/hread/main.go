// hread: inbound read path harness (C02) — the REAL poller loop, AsyncRead gate, one-shot re-arm and
// UDP demultiplexing of package nbio, driven through the vsys shim with virtual descriptors.
//
// One case = one engine + one connection (stream) or one UDP listener with its sessions.
//
//	C <mode lt|et|os> <async 0|1> <exec def|park> <rbs> <cap> <typ tcp|unix|udp> <npoller>
//	push <payload>          bytes arrive in the kernel receive queue (stream)
//	dgram <addr> <payload>  a datagram arrives; addr = 4:<8 hex>:<port> | 6:<32 hex>:<port>:<zone>
//	eof | rderr | intr <k>  FIN arrives | socket error pending | next k read calls answer EINTR
//	poll                    the kernel reports what the mode's readiness semantics says is due
//	event <flags> [hold]    a duplicate/spurious report with the given flags (in+rdhup+hup+err+out);
//	                        hold: park the poller if it is inside the gate's add-then-undo window
//	undo                    release a held poller
//	task step | drain       parking executor: run the read task up to its next pause point /
//	                        run all tasks to completion (bounded)
//	key <addr>              tabulate getUDPNetAddrKey
//
// A case with exec = real (`C <mode> <async> real <rbs> <cap> <typ> <np>`) is the supporting real-kernel tier: the same
// engine configuration on loopback sockets (bursts around the buffer size and the per-loop limit, pauses, idle-CPU window,
// half-close / UDP bursts from two remotes); it prints one line `R real ok` and reports through the direct oracles.
//
// Result line after every op (what the Lean model must reproduce):
//
//	R <what> open=[ids] del=[id:len:fnv,..] q=<bytes|datagrams queued in the kernel> re=<readEvents>
//	  task=<none|queued|read|dec> arm=<0|1> edge=<0|1> closed=<0|1:cause> reads=<n> idle=<n> ctl=<epoll_ctl log>
//
// Direct oracles (implementation only):
//
//	c02-delivery   bytes/datagrams handed to OnData are a prefix of what was sent, in order, exactly
//	               once; at quiescence everything dequeued from the kernel has been delivered
//	c02-stranded   quiescent (no task, poller idle) and the kernel queue is non-empty, but nothing will
//	               re-report it under the mode's semantics; or closed on peer half-close with unread bytes
//	c02-spin       read task / poller does not come to rest without new input (bounded drain, timeouts)
//	c02-gate       readEvents outside {0,1,2}, more than one task alive, task alive without count
//	c02-udp-demux  same remote => same *Conn, different remotes => different, RemoteAddr matches
package main

import (
	"errors"
	"fmt"
	"io"
	"net"
	"sort"
	"strconv"
	"strings"
	"sync"
	"syscall"
	"time"

	"harness/internal/lp"

	"github.com/lesismal/nbio"
	"github.com/lesismal/nbio/logging"
	"github.com/lesismal/nbio/vsys"
)

const (
	evIn    = 0x1
	evOut   = 0x4
	evErr   = 0x8
	evHup   = 0x10
	evRdhup = 0x2000
)

type cfg struct {
	mode   string
	async  bool
	exec   string
	rbs    int
	cap    int
	typ    string
	np     int
	client bool // typ udpc: a DIALED UDP conn (datagram semantics, everything is handed over on the conn itself)
	udpto  int  // UDPReadTimeout in ms (0: the engine's default of 120 s, never reached in a case)
}

// typName: the transport as the case line names it
func (c cfg) typName() string {
	if c.client {
		return "udpc"
	}
	return c.typ
}

func (c cfg) isAsync() bool { return c.async && c.mode != "lt" }
func (c cfg) park() bool    { return c.isAsync() && c.exec == "park" }

type task struct {
	f       func(*[]byte)
	started bool
	done    bool
	resume  chan struct{}
	paused  chan string
	state   string // queued | read | dec
}

type dg struct {
	addr string
	data []byte
}

// sideConn: a further stream conn on its own virtual descriptor; its peer sends a pattern of its own
type sideConn struct {
	k    int
	fd   int
	v    *vsys.VFD
	c    *nbio.Conn
	sent []byte
	got  []byte
	live bool
}

type sess struct {
	cfg
	g    *nbio.Engine
	fd   int
	v    *vsys.VFD
	c    *nbio.Conn
	epfd int

	mu     sync.Mutex
	ids    map[*nbio.Conn]int
	nextID int
	opens  []string
	dels   []string

	// oracle bookkeeping
	sent      []byte
	delivered []byte
	sentD     []dg
	delD      int // datagrams handed out so far (index into the non-empty ones of sentD)
	addrConn  map[string]*nbio.Conn
	connAddr  map[*nbio.Conn]string
	oracle    []string

	// tasks
	tasks     []*task
	running   *task
	defDone   chan struct{}
	defHold   chan struct{}
	defAlive  int
	spawnOver bool // a task was spawned while another one was alive

	// poller hold (gate window of the add-then-undo code)
	holdNext     bool
	held         bool
	pollerHeld   chan struct{}
	pollerResume chan struct{}
	injDone      chan bool

	// kernel readiness bookkeeping (the mode's semantics)
	edge    bool
	armed   bool
	ctlSeen int
	eof     bool
	rerr    bool

	// UDP session timing (cases with a short UDPReadTimeout)
	lastData map[*nbio.Conn]time.Time
	curRecv  time.Time                // when the recvfrom that produced the datagram now being handed over returned
	recvAt   map[string]time.Time     // remote -> when its last datagram was received (a lower bound of the deadline's renewal)
	connRecv map[*nbio.Conn]time.Time // session -> same
	pendEcho string                   // timed cases: the echo of a `poll` waits until the harness knows whether it was late
	lateSeen bool                     // a datagram was processed too close to (or after) the earliest possible deadline: not judged
	attrLog  []string                 // remote>session id of every non-empty datagram handed over

	// side conns: further stream conns of the same engine (fd table / dispatch: who gets whose bytes)
	side      map[int]*sideConn
	sideByPtr map[*nbio.Conn]*sideConn

	intrTotal  int
	closedSeen bool
	qAtClose   int
	dead       bool
}

var cur *sess
var curMu sync.Mutex

func getCur() *sess { curMu.Lock(); defer curMu.Unlock(); return cur }

func errClass(err error) string {
	switch {
	case err == nil:
		return "nil"
	case errors.Is(err, io.EOF):
		return "eof"
	case errors.Is(err, net.ErrClosed):
		return "closed"
	case errors.Is(err, nbio.ErrReadTimeout):
		return "rtimeout"
	}
	var en syscall.Errno
	if errors.As(err, &en) {
		return "rderr"
	}
	return "other"
}

func parseAddr(s string) (syscall.Sockaddr, bool) {
	f := strings.Split(s, ":")
	switch {
	case len(f) == 3 && f[0] == "4":
		b := lp.Unhex(f[1])
		p, _ := strconv.Atoi(f[2])
		if len(b) != 4 {
			return nil, false
		}
		sa := &syscall.SockaddrInet4{Port: p}
		copy(sa.Addr[:], b)
		return sa, true
	case len(f) == 4 && f[0] == "6":
		b := lp.Unhex(f[1])
		p, _ := strconv.Atoi(f[2])
		z, _ := strconv.ParseUint(f[3], 10, 32)
		if len(b) != 16 {
			return nil, false
		}
		sa := &syscall.SockaddrInet6{Port: p, ZoneId: uint32(z)}
		copy(sa.Addr[:], b)
		return sa, true
	}
	return nil, false
}

func addrOfConn(c *nbio.Conn) string {
	ua, ok := c.RemoteAddr().(*net.UDPAddr)
	if !ok || ua == nil {
		return "?"
	}
	if len(ua.IP) == 4 {
		return fmt.Sprintf("4:%s:%d", lp.Hex(ua.IP), ua.Port)
	}
	return fmt.Sprintf("6:%s:%d", lp.Hex(ua.IP), ua.Port)
}

func parseFlags(s string) (uint32, bool) {
	var fl uint32
	for _, t := range strings.Split(s, "+") {
		switch t {
		case "in":
			fl |= evIn
		case "out":
			fl |= evOut
		case "err":
			fl |= evErr
		case "hup":
			fl |= evHup
		case "rdhup":
			fl |= evRdhup
		default:
			return 0, false
		}
	}
	return fl, true
}

func flagStr(fl uint32) string {
	var p []string
	if fl&evIn != 0 {
		p = append(p, "in")
	}
	if fl&evOut != 0 {
		p = append(p, "out")
	}
	if fl&evRdhup != 0 {
		p = append(p, "rdhup")
	}
	if fl&evHup != 0 {
		p = append(p, "hup")
	}
	if fl&evErr != 0 {
		p = append(p, "err")
	}
	if len(p) == 0 {
		return "none"
	}
	return strings.Join(p, "+")
}

// ---------------------------------------------------------------- session

func newSess(c cfg) (*sess, error) {
	s := &sess{cfg: c, ids: map[*nbio.Conn]int{}, addrConn: map[string]*nbio.Conn{}, connAddr: map[*nbio.Conn]string{},
		defDone: make(chan struct{}, 16), defHold: make(chan struct{}, 16),
		pollerHeld: make(chan struct{}), pollerResume: make(chan struct{})}
	conf := nbio.Config{NPoller: c.np, ReadBufferSize: c.rbs, MaxConnReadTimesPerEventLoop: c.cap, AsyncReadInPoller: c.async}
	if c.udpto > 0 {
		conf.UDPReadTimeout = time.Duration(c.udpto) * time.Millisecond
	}
	switch c.mode {
	case "et":
		conf.EpollMod = nbio.EPOLLET
	case "os":
		conf.EpollMod = nbio.EPOLLET
		conf.EPOLLONESHOT = nbio.EPOLLONESHOT
	}
	if c.park() {
		conf.IOExecute = func(f func(*[]byte)) {
			t := &task{f: f, resume: make(chan struct{}), paused: make(chan string), state: "queued"}
			s.mu.Lock()
			if s.aliveLocked() > 0 {
				s.spawnOver = true
			}
			s.tasks = append(s.tasks, t)
			s.mu.Unlock()
		}
	}
	g := nbio.NewEngine(conf)
	s.g = g
	g.OnOpen(func(nc *nbio.Conn) {
		s.mu.Lock()
		if s.sideByPtr[nc] != nil {
			s.mu.Unlock()
			return
		}
		id := s.nextID
		s.nextID++
		s.ids[nc] = id
		s.opens = append(s.opens, strconv.Itoa(id))
		s.mu.Unlock()
	})
	g.OnData(func(nc *nbio.Conn, data []byte) { s.onData(nc, data) })
	g.OnClose(func(nc *nbio.Conn, err error) { s.onClose(nc, err) })
	curMu.Lock()
	cur = s
	curMu.Unlock()
	if err := g.Start(); err != nil {
		return nil, err
	}
	if c.isAsync() && c.exec == "def" {
		// keep the engine's own IO task pool (its dispatch and its buffers are what is under test);
		// wrap it only to know when a task starts and ends and to let the poller finish its batch first
		orig := g.IOExecute
		g.IOExecute = func(f func(*[]byte)) {
			s.mu.Lock()
			if s.defAlive > 0 {
				s.spawnOver = true
			}
			s.defAlive++
			s.mu.Unlock()
			orig(func(b *[]byte) {
				<-s.defHold
				f(b)
				s.mu.Lock()
				s.defAlive--
				s.mu.Unlock()
				s.defDone <- struct{}{}
			})
		}
	}
	// wait until every poller goroutine sits in epoll_wait: readWriteLoop resets p.shutdown when it starts, so a
	// Stop that overtakes the start of a poller goroutine would never terminate it
	for i := 0; i < c.np; i++ {
		vsys.InjectTimeout(g.VerifEpfd(i), nil, 5*time.Second)
	}
	s.fd, s.v = vsys.NewVFD()
	s.epfd = g.VerifEpfd(s.fd % c.np)
	var nc *nbio.Conn
	switch c.typ {
	case "tcp":
		nc = nbio.VerifNewConn(s.fd, nbio.ConnTypeTCP)
	case "unix":
		nc = nbio.VerifNewConn(s.fd, nbio.ConnTypeUnix)
	case "udp":
		if c.client {
			nc = nbio.VerifNewUDPClient(s.fd) // announced like a stream conn: id 0 from the open notification
		} else {
			nc = nbio.VerifNewUDPServer(s.fd)
			s.ids[nc] = 0
			s.nextID = 1
		}
	}
	s.c = nc
	if _, err := g.AddConn(nc); err != nil {
		return nil, err
	}
	s.scanCtl()
	return s, nil
}

func (s *sess) aliveLocked() int {
	n := s.defAlive
	for _, t := range s.tasks {
		if !t.done {
			n++
		}
	}
	return n
}

func (s *sess) alive() int { s.mu.Lock(); defer s.mu.Unlock(); return s.aliveLocked() }

func (s *sess) firstAlive() *task {
	s.mu.Lock()
	defer s.mu.Unlock()
	for _, t := range s.tasks {
		if !t.done {
			return t
		}
	}
	return nil
}

// onClose: a UDP session that is closed by the UDP read timeout must have been silent for that long — the deadline is
// renewed by every datagram of its remote (one-sided: a close that comes LATE proves nothing and is not judged)
func (s *sess) onClose(nc *nbio.Conn, err error) {
	s.mu.Lock()
	defer s.mu.Unlock()
	if s.udpto == 0 || nc == s.c || errClass(err) != "rtimeout" {
		return
	}
	// the deadline was renewed AFTER the session's last datagram was received: a timeout close earlier than T after that
	// receive is early whatever the load (the close handler running late only hides a violation)
	last, ok := s.connRecv[nc]
	if !ok {
		return
	}
	T := time.Duration(s.udpto) * time.Millisecond
	if silent := time.Since(last); silent < T-5*time.Millisecond {
		s.oracle = append(s.oracle, fmt.Sprintf("c02-udp-demux session of remote %s closed by the UDP read timeout %v after its last datagram was received (UDPReadTimeout %v): the deadline is not renewed by every datagram, later datagrams of this remote go to a new conn", s.connAddr[nc], silent.Round(time.Millisecond), T))
	}
}

func (s *sess) onData(nc *nbio.Conn, data []byte) {
	s.mu.Lock()
	defer s.mu.Unlock()
	if s.udpto > 0 {
		if s.lastData == nil {
			s.lastData = map[*nbio.Conn]time.Time{}
		}
		s.lastData[nc] = time.Now()
	}
	id, ok := s.ids[nc]
	if !ok {
		id = -1
	}
	if sc := s.sideByPtr[nc]; sc != nil {
		// a side conn gets exactly the next bytes ITS peer sent, whatever the other conns of the engine do
		sc.got = append(sc.got, data...)
		n := len(sc.got)
		if !sc.live {
			s.oracle = append(s.oracle, fmt.Sprintf("c02-delivery conn s%d: %d bytes delivered after it was closed", sc.k, len(data)))
		} else if n > len(sc.sent) || string(sc.got[n-len(data):]) != string(sc.sent[n-len(data):n]) {
			s.oracle = append(s.oracle, fmt.Sprintf("c02-delivery conn s%d: bytes delivered to a conn that the peer did not send to it (chunk of %d at offset %d)", sc.k, len(data), n-len(data)))
		}
		return
	}
	s.dels = append(s.dels, fmt.Sprintf("%d:%d:%016x", id, len(data), lp.Fnv(data)))
	if s.typ != "udp" {
		if nc != s.c {
			s.oracle = append(s.oracle, "c02-delivery stream data handed to a different *Conn")
		}
		s.delivered = append(s.delivered, data...)
		n := len(s.delivered)
		if n > len(s.sent) || string(s.delivered[n-len(data):]) != string(s.sent[n-len(data):n]) {
			s.oracle = append(s.oracle, fmt.Sprintf("c02-delivery delivered bytes are not the next bytes sent (at offset %d, chunk %d)", n-len(data), len(data)))
		}
		return
	}
	// UDP: the k-th non-empty delivered datagram must be the k-th non-empty sent one, truncated to rbs
	for s.delD < len(s.sentD) && len(s.sentD[s.delD].data) == 0 {
		s.delD++
	}
	if s.delD >= len(s.sentD) {
		s.oracle = append(s.oracle, "c02-delivery datagram delivered that was never sent")
		return
	}
	d := s.sentD[s.delD]
	s.delD++
	want := d.data
	if len(want) > s.rbs {
		want = want[:s.rbs]
	}
	if string(want) != string(data) {
		s.oracle = append(s.oracle, fmt.Sprintf("c02-delivery datagram %d: got %d bytes, sent %d (boundaries/content differ)", s.delD-1, len(data), len(d.data)))
	}
	if s.client {
		// a dialed UDP conn: every datagram of its peer on the conn itself
		if nc != s.c {
			s.oracle = append(s.oracle, "c02-udp-demux datagram of a dialed UDP conn handed to a different *Conn")
		}
		return
	}
	s.attrLog = append(s.attrLog, fmt.Sprintf("%s>%d", d.addr, id))
	conclusive := true
	if s.udpto > 0 {
		// The session of this remote had its deadline renewed no earlier than when the remote's previous datagram was
		// received; it was looked up no later than now. If now is safely before (previous receive + T) the session MUST
		// still have been alive: judged. Otherwise the margin was eaten (load): the session may legitimately have expired —
		// nothing is judged and the rest of the case is not compared.
		T := time.Duration(s.udpto) * time.Millisecond
		if s.recvAt == nil {
			s.recvAt, s.connRecv = map[string]time.Time{}, map[*nbio.Conn]time.Time{}
		}
		if prev, ok := s.recvAt[d.addr]; ok && !time.Now().Before(prev.Add(T-5*time.Millisecond)) {
			conclusive = false
			s.lateSeen = true
		}
		s.recvAt[d.addr] = s.curRecv
		s.connRecv[nc] = s.curRecv
	}
	// demux
	if prev, ok := s.addrConn[d.addr]; ok && prev != nc && conclusive {
		s.oracle = append(s.oracle, "c02-udp-demux same remote "+d.addr+" attributed to two different conns")
	}
	if pa, ok := s.connAddr[nc]; ok && pa != d.addr {
		s.oracle = append(s.oracle, "c02-udp-demux remotes "+pa+" and "+d.addr+" share one conn")
	}
	s.addrConn[d.addr] = nc
	s.connAddr[nc] = d.addr
	if nc == s.c {
		s.oracle = append(s.oracle, "c02-udp-demux datagram attributed to the listener conn itself")
	} else if ra := addrOfConn(nc); !strings.HasPrefix(d.addr, ra) {
		s.oracle = append(s.oracle, "c02-udp-demux RemoteAddr "+ra+" of the session differs from the source "+d.addr)
	}
}

// scanCtl folds new epoll_ctl calls into the readiness bookkeeping: a successful ADD/MOD (re)arms and
// makes the kernel re-evaluate readiness (that is what EPOLL_CTL_MOD does).
func (s *sess) scanCtl() {
	ctl, _, _ := s.v.CtlLog()
	for _, e := range ctl[s.ctlSeen:] {
		if !strings.HasSuffix(e, "!") && (e[0] == 'A' || e[0] == 'M') {
			s.armed = true
			if s.mode != "lt" || e[0] == 'A' { // level-triggered: a MOD (write interest) changes nothing about readiness reports
				s.edge = s.readable()
			}
		}
	}
	s.ctlSeen = len(ctl)
}

// closeState reads the closed flag; without the conn mutex while the harness holds a read task parked
// inside its read (the task owns the mutex there).
func (s *sess) closeState() (bool, error) {
	if s.taskState() == "read" {
		return s.c.VerifCloseStateNoLock()
	}
	return s.c.VerifCloseState()
}

func (s *sess) q() int {
	rq, dq, _, _ := s.v.ReadSide()
	if s.typ == "udp" {
		return dq
	}
	return rq
}

func (s *sess) readable() bool { return s.q() > 0 || s.eof || s.rerr }

// pollFlags: what the kernel reports now under the mode's readiness semantics (0 = nothing due).
// rdhupAsked: the kernel reports EPOLLRDHUP only if the current registration asks for it (EPOLLERR and EPOLLHUP are
// reported regardless)
func (s *sess) rdhupAsked() bool {
	_, _, events := s.v.CtlLog()
	return events&evRdhup != 0
}

func (s *sess) pollFlags() uint32 {
	due := false
	switch s.mode {
	case "lt":
		due = true
	case "et":
		due = s.edge
	case "os":
		due = s.armed && s.edge
	}
	if !s.readable() {
		if s.mode != "lt" {
			s.edge = false // an edge whose cause was consumed meanwhile is not reported
		}
		return 0
	}
	if !due {
		return 0
	}
	fl := uint32(evIn)
	if s.eof && s.rdhupAsked() {
		fl |= evRdhup
	}
	if s.rerr {
		fl |= evErr | evHup
	}
	return fl
}

// eventFlags: a duplicate/spurious report asked for by the script, restricted to what a kernel in
// the current state can report (RDHUP only after FIN and together with IN; ERR/HUP only with a
// pending socket error; nothing while a one-shot descriptor is disarmed).
func (s *sess) eventFlags(want uint32) uint32 {
	if s.mode == "os" && !s.armed {
		return 0
	}
	var fl uint32
	if want&evIn != 0 || (want&evRdhup != 0 && s.eof) {
		fl |= evIn
	}
	if want&evOut != 0 && s.mode == "et" { // EPOLLOUT is in the interest set only in plain ET mode (no writes here)
		fl |= evOut
	}
	if fl == 0 && !(s.rerr && want&(evErr|evHup) != 0) {
		return 0
	}
	if s.q() > 0 || s.eof { // the kernel reports the whole ready mask: IN whenever something is readable
		fl |= evIn
	}
	if s.eof && fl&evIn != 0 && s.rdhupAsked() {
		fl |= evRdhup
	}
	if s.rerr {
		fl |= evErr | evHup
	}
	return fl
}

func (s *sess) taskState() string {
	s.mu.Lock()
	defer s.mu.Unlock()
	if s.defAlive > 0 {
		return "run"
	}
	for _, t := range s.tasks {
		if !t.done {
			return t.state
		}
	}
	return "none"
}

func (s *sess) state(e *lp.Exec, what string) {
	if pe := s.pendEcho; pe != "" {
		s.pendEcho = ""
		s.mu.Lock()
		late := s.lateSeen
		s.mu.Unlock()
		if late {
			e.P("> %s late", pe)
			e.P("R late")
			s.dead = true
			return
		}
		e.P("> %s", pe)
	}
	if !s.dead {
		s.scanCtl()
	}
	_, _, reads, idle := s.v.ReadSide()
	closed, cerr := s.closeState()
	cl := "0"
	if closed {
		cl = "1:" + errClass(cerr)
	}
	ctl, reg, events := s.v.CtlLog()
	s.mu.Lock()
	opens, dels := strings.Join(s.opens, ","), strings.Join(s.dels, ",")
	s.opens, s.dels = nil, nil
	orc := s.oracle
	s.oracle = nil
	over := s.spawnOver
	s.mu.Unlock()
	re := s.c.VerifReadEvents()
	b2i := func(b bool) int {
		if b {
			return 1
		}
		return 0
	}
	q := s.q()
	ts := s.taskState()
	e.P("R %s open=[%s] del=[%s] q=%d re=%d task=%s arm=%d edge=%d closed=%s reads=%d idle=%d ctl=%s",
		what, opens, dels, q, re, ts, b2i(s.armed), b2i(s.edge), cl, reads, idle, strings.Join(ctl, ","))
	for _, o := range orc {
		i := strings.Index(o, " ")
		e.Oracle(o[:i], "%s", o[i+1:])
	}
	if s.dead {
		return
	}
	// ---- direct oracles at the op boundary
	if closed && !s.closedSeen {
		s.closedSeen = true
		s.qAtClose = q
		if errClass(cerr) == "eof" && s.eof && !s.rerr && q > 0 {
			e.Oracle("c02-stranded", "closed on peer half-close with %d unread in the kernel queue mode=%s async=%v typ=%s cap=%d rbs=%d", q, s.mode, s.isAsync(), s.typName(), s.cap, s.rbs)
		}
	}
	quiet := ts == "none" && !s.held
	if quiet && !closed {
		will := false
		switch s.mode {
		case "lt":
			will = reg && events&evIn != 0
		case "et":
			will = reg && s.edge
		case "os":
			will = reg && s.armed && s.edge
		}
		if s.readable() && !will {
			e.Oracle("c02-stranded", "quiescent with q=%d eof=%v err=%v unread and no readiness will be re-reported mode=%s async=%v typ=%s arm=%v edge=%v", q, s.eof, s.rerr, s.mode, s.isAsync(), s.typName(), s.armed, s.edge)
		}
		if s.typ != "udp" {
			s.mu.Lock()
			if len(s.delivered) != len(s.sent)-q {
				e.Oracle("c02-delivery", "quiescent: delivered %d but dequeued %d of %d sent", len(s.delivered), len(s.sent)-q, len(s.sent))
			}
			s.mu.Unlock()
		}
	}
	if s.isAsync() && s.mode == "et" {
		bad := re < 0 || re > 2
		if s.held && re == 3 {
			bad = false // transient value of the add-then-undo code, by design
		}
		if bad {
			e.Oracle("c02-gate", "readEvents=%d outside {0,1,2}", re)
		}
		if quiet && !closed && re != 0 {
			e.Oracle("c02-gate", "no read task alive but readEvents=%d", re)
		}
		if (ts == "queued" || ts == "read") && !closed && re == 0 {
			e.Oracle("c02-gate", "read task alive (%s) but readEvents=0", ts)
		}
	}
	if over {
		e.Oracle("c02-gate", "a read task was started while another one was alive")
		s.mu.Lock()
		s.spawnOver = false
		s.mu.Unlock()
	}
}

// deliver injects one event batch and, for the engine's own executor, lets the spawned task run to
// completion afterwards.
func (s *sess) deliver(e *lp.Exec, fl uint32, hold bool) string {
	switch s.mode {
	case "et":
		s.edge = false
	case "os":
		s.edge = false
		s.armed = false
	}
	evs := []syscall.EpollEvent{{Fd: int32(s.fd), Events: fl}}
	what := "ev=" + flagStr(fl)
	if hold {
		s.holdNext = true
		s.injDone = make(chan bool, 1)
		go func() { s.injDone <- vsys.InjectPatient(s.epfd, evs, 60*time.Second) }()
		select {
		case <-s.pollerHeld:
			s.held = true
			what += " held"
		case ok := <-s.injDone:
			s.holdNext = false
			if !ok {
				s.stuck(e, "poller did not finish the event batch")
			}
		}
	} else if !vsys.InjectPatient(s.epfd, evs, 60*time.Second) {
		s.stuck(e, "poller did not finish the event batch")
	}
	s.runDef(e)
	return what
}

func (s *sess) runDef(e *lp.Exec) {
	for {
		s.mu.Lock()
		n := s.defAlive
		s.mu.Unlock()
		if n == 0 || s.held {
			return
		}
		_, _, r0, _ := s.v.ReadSide()
		s.defHold <- struct{}{}
		// one-sided: a task that SPINS shows in the read-call counter within seconds; one that merely has not been
		// scheduled yet (loaded machine) gets a minute
		done := false
		var waited time.Duration
		for !done {
			select {
			case <-s.defDone:
				done = true
			case <-time.After(3 * time.Second):
				waited += 3 * time.Second
			}
			if done {
				break
			}
			if _, _, r1, _ := s.v.ReadSide(); r1-r0 > 10000 || waited >= 63*time.Second {
				break
			}
		}
		if !done {
			_, _, r1, i1 := s.v.ReadSide()
			s.stuck(e, fmt.Sprintf("read task (engine's own executor) still running after %v without new input: read calls %d -> %d (idle %d)", waited, r0, r1, i1))
			_ = s.c.Close()
			select {
			case <-s.defDone:
			case <-time.After(5 * time.Second):
			}
			return
		}
	}
}

func (s *sess) stuck(e *lp.Exec, why string) {
	e.Oracle("c02-spin", "%s mode=%s async=%v exec=%s typ=%s", why, s.mode, s.isAsync(), s.exec, s.typName())
	s.dead = true
}

// stepTask runs the oldest live parked task up to its next pause point.
func (s *sess) stepTask(e *lp.Exec) string {
	t := s.firstAlive()
	if t == nil {
		return "notask"
	}
	s.mu.Lock()
	s.running = t
	s.mu.Unlock()
	if !t.started {
		t.started = true
		go func() {
			<-t.resume
			buf := make([]byte, s.rbs)
			t.f(&buf)
			s.mu.Lock()
			t.done = true
			s.running = nil
			s.mu.Unlock()
			t.paused <- "exit"
		}()
	}
	t.resume <- struct{}{}
	select {
	case d := <-t.paused:
		if strings.HasPrefix(d, "read") {
			t.state = "read"
		} else if strings.HasPrefix(d, "dec") {
			t.state = "dec"
		}
		return d
	case <-time.After(60 * time.Second):
		s.stuck(e, "parked read task did not reach a pause point")
		return "stuck"
	}
}

func (s *sess) pauseTask(desc string) {
	s.mu.Lock()
	t := s.running
	s.mu.Unlock()
	if t == nil {
		return
	}
	t.paused <- desc
	<-t.resume
}

func readHook(fd int, n int, err error) {
	s := getCur()
	if s != nil && s.udpto > 0 && fd == s.fd && err == nil {
		s.mu.Lock()
		s.curRecv = time.Now()
		s.mu.Unlock()
	}
	if s == nil || fd != s.fd || !s.park() {
		return
	}
	d := "read="
	switch {
	case err == nil && n > 0:
		d += strconv.Itoa(n)
	case err == nil:
		d += "zero"
	case errors.Is(err, syscall.EAGAIN):
		d += "eagain"
	case errors.Is(err, syscall.EINTR):
		d += "eintr"
	default:
		d += "err"
	}
	s.pauseTask(d)
}

func atomicHook(p *int32, delta, v int32) {
	s := getCur()
	if s == nil || s.c == nil || p != s.c.VerifReadEventsPtr() {
		return
	}
	if delta < 0 && v != 0 && s.park() { // v == 0: the task returns, nothing left to interleave with
		s.mu.Lock()
		t := s.running
		s.mu.Unlock()
		if t != nil {
			s.pauseTask("dec=" + strconv.Itoa(int(v)))
			return
		}
	}
	if delta > 0 && v > 2 && s.holdNext {
		// the poller is inside the add-then-undo window of the gate: park it
		s.holdNext = false
		s.pollerHeld <- struct{}{}
		<-s.pollerResume
	}
}

// ---------------------------------------------------------------- side conns

// side conns run where the poller itself reads (the table lookup precedes the sync/async branch; the task bookkeeping
// of this harness is built for one conn)
func (s *sess) sideOK() bool { return s.typ != "udp" && !s.isAsync() }

func (s *sess) sideAdd(k int, fd int, v *vsys.VFD) (*sideConn, error) {
	typ := nbio.ConnTypeTCP
	if s.typ == "unix" {
		typ = nbio.ConnTypeUnix
	}
	sc := &sideConn{k: k, fd: fd, v: v, c: nbio.VerifNewConn(fd, typ), live: true}
	s.mu.Lock()
	if s.side == nil {
		s.side, s.sideByPtr = map[int]*sideConn{}, map[*nbio.Conn]*sideConn{}
	}
	s.side[k] = sc
	s.sideByPtr[sc.c] = sc
	s.mu.Unlock()
	_, err := s.g.AddConn(sc.c)
	return sc, err
}

// sidePump delivers readable events for the given descriptors — one batch per poller, all the descriptors of a poller
// in ONE epoll_wait result — until their receive queues are empty (bounded); stale: extra events put in front
func (s *sess) sidePump(e *lp.Exec, fds []int, stale []syscall.EpollEvent) {
	for round := 0; round < 4096; round++ {
		batches := map[int][]syscall.EpollEvent{}
		for _, ev := range stale {
			ep := s.g.VerifEpfd(int(ev.Fd) % s.np)
			batches[ep] = append(batches[ep], ev)
		}
		stale = nil
		for _, fd := range fds {
			v := vsys.Get(fd)
			if v == nil {
				continue
			}
			if rq, _, _, _ := v.ReadSide(); rq > 0 {
				ep := s.g.VerifEpfd(fd % s.np)
				batches[ep] = append(batches[ep], syscall.EpollEvent{Fd: int32(fd), Events: syscall.EPOLLIN})
			}
		}
		if len(batches) == 0 {
			return
		}
		for ep, evs := range batches {
			if !vsys.InjectPatient(ep, evs, 60*time.Second) {
				s.stuck(e, "poller did not finish the event batch (side conns)")
				return
			}
		}
		s.runDef(e)
	}
	s.stuck(e, "side conns: input still queued after 4096 event rounds")
}

func (s *sess) sideState(e *lp.Exec, what string) {
	s.mu.Lock()
	var ks []int
	for k := range s.side {
		ks = append(ks, k)
	}
	sort.Ints(ks)
	var parts []string
	for _, k := range ks {
		sc := s.side[k]
		parts = append(parts, fmt.Sprintf("%d:%d:%d:%016x:%d", k, len(sc.sent), len(sc.got), lp.Fnv(sc.got), b2i(sc.live)))
	}
	orc := s.oracle
	s.oracle = nil
	s.mu.Unlock()
	e.P("X %s side=[%s]", what, strings.Join(parts, ","))
	for _, o := range orc {
		i := strings.Index(o, " ")
		e.Oracle(o[:i], "%s", o[i+1:])
	}
}

func (s *sess) close(e *lp.Exec) {
	// end of case: stop pausing, release whatever is parked, close, stop
	curMu.Lock()
	cur = nil
	curMu.Unlock()
	if s.held {
		s.pollerResume <- struct{}{}
		<-s.injDone
		s.held = false
	}
	var waits []*task
	s.mu.Lock()
	ts := append([]*task(nil), s.tasks...)
	s.mu.Unlock()
	for _, t := range ts {
		if t.done {
			continue
		}
		t := t
		if !t.started {
			t.started = true
			go func() {
				<-t.resume
				buf := make([]byte, s.rbs)
				t.f(&buf)
				s.mu.Lock()
				t.done = true
				s.mu.Unlock()
				t.paused <- "exit"
			}()
		}
		select { // hooks no longer pause (cur == nil): the task runs on by itself
		case t.resume <- struct{}{}:
			waits = append(waits, t)
		case <-time.After(2 * time.Second):
		}
	}
	_ = s.c.Close() // a task that is still looping finds the conn closed at its next read
	for _, t := range waits {
		select {
		case <-t.paused:
		case <-time.After(3 * time.Second):
		}
	}
	for {
		s.mu.Lock()
		n := s.defAlive
		s.mu.Unlock()
		if n == 0 {
			break
		}
		select {
		case s.defHold <- struct{}{}:
		default:
		}
		select {
		case <-s.defDone:
			continue
		case <-time.After(3 * time.Second):
		}
		break
	}
	done := make(chan struct{})
	go func() { s.g.Stop(); close(done) }()
	select {
	case <-done:
	case <-time.After(5 * time.Second):
	}
	vsys.Forget(s.fd)
	for _, sc := range s.side {
		vsys.Forget(sc.fd)
	}
}

// ---------------------------------------------------------------- executor

func exec(e *lp.Exec) {
	logging.SetLevel(logging.LevelNone)
	nbio.MaxOpenFiles = 1 << 14
	vsys.VirtualAll = true
	vsys.ReadHook = readHook
	vsys.AtomicHook = atomicHook
	var s *sess
	var key strings.Builder
	nontrivial := false
	finish := func() {
		if s == nil {
			return
		}
		s.close(e)
		e.Key(key.String(), nontrivial)
		s = nil
	}
	for e.In.Scan() {
		line := e.In.Text()
		f := strings.Fields(line)
		if len(f) == 0 {
			continue
		}
		if f[0] == "wait" && len(f) == 2 && s != nil && !s.dead && s.udpto > 0 {
			// wait <ms>: real time passes (cases with a short UDPReadTimeout). Annotated with what the harness saw: `late`
			// if more than 0.8 x UDPReadTimeout have gone by since a session last got a datagram — then a session may
			// legitimately have timed out and the rest of the case is not compared
			ms, _ := strconv.Atoi(f[1])
			time.Sleep(time.Duration(ms) * time.Millisecond)
			late := false
			s.mu.Lock()
			for _, t := range s.lastData {
				if time.Since(t) > time.Duration(s.udpto)*time.Millisecond*8/10 {
					late = true
				}
			}
			s.mu.Unlock()
			if late {
				e.P("> wait %d late", ms)
				e.P("R late")
				s.dead = true
			} else {
				e.P("> wait %d ok", ms)
				s.mu.Lock()
				a := strings.Join(s.attrLog, ",")
				s.mu.Unlock()
				s.state(e, "wait["+a+"]")
			}
			continue
		}
		if f[0] == "poll" && len(f) == 1 && s != nil && !s.dead && s.udpto > 0 {
			s.pendEcho = line // annotated by state(): `poll late` if a datagram was processed with its margin eaten
		} else {
			e.P("> %s", line)
		}
		if f[0] == "C" {
			finish()
			if len(f) != 8 && len(f) != 9 {
				e.P("bad-op")
				continue
			}
			c := cfg{mode: f[1], async: f[2] == "1", exec: f[3], typ: f[6]}
			if c.typ == "udpc" && c.exec != "real" {
				c.typ, c.client = "udp", true
			}
			if len(f) == 9 {
				c.udpto, _ = strconv.Atoi(f[8])
				if c.udpto <= 0 || c.typ != "udp" || c.client || c.exec != "def" {
					e.P("bad-op")
					continue
				}
			}
			c.rbs, _ = strconv.Atoi(f[4])
			c.cap, _ = strconv.Atoi(f[5])
			c.np, _ = strconv.Atoi(f[7])
			if c.exec == "real" {
				if (c.mode == "lt" || c.mode == "et" || c.mode == "os") && (c.typ == "tcp" || c.typ == "unix" || c.typ == "udp") && c.rbs > 0 && c.cap > 0 && c.np > 0 {
					realCase(e, c)
					e.Count("mode", c.mode+"-real")
					e.P("R real ok")
				} else {
					e.P("bad-op")
				}
				continue
			}
			ok := (c.mode == "lt" || c.mode == "et" || c.mode == "os") && (c.exec == "def" || c.exec == "park") &&
				(c.typ == "tcp" || c.typ == "unix" || c.typ == "udp") && c.rbs > 0 && c.cap > 0 && c.np > 0
			if !ok {
				e.P("bad-op")
				continue
			}
			var err error
			s, err = newSess(c)
			if err != nil {
				e.P("bad-op start: %v", err)
				s = nil
				continue
			}
			key.Reset()
			nontrivial = false
			fmt.Fprintf(&key, "%s/%v/%s/%d/%d/%s|", c.mode, c.isAsync(), c.exec, c.rbs, c.cap, c.typName())
			e.Count("mode", c.mode)
			e.Count("typ", c.typName())
			if c.isAsync() {
				e.Count("read", "async-"+c.exec)
			} else {
				e.Count("read", "sync")
			}
			s.state(e, "ok")
			continue
		}
		if s == nil {
			e.P("bad-op")
			continue
		}
		if s.dead {
			e.P("dead")
			continue
		}
		closed, _ := s.closeState()
		switch f[0] {
		case "push":
			if len(f) != 2 || s.typ == "udp" {
				e.P("bad-op")
				continue
			}
			b := lp.Payload(f[1])
			if s.eof || len(b) == 0 {
				s.state(e, "nop") // nothing arrives after the FIN
				continue
			}
			s.v.Push(b)
			s.mu.Lock()
			if !closed {
				s.sent = append(s.sent, b...)
			}
			s.mu.Unlock()
			s.edge = true
			s.state(e, "push")
			fmt.Fprintf(&key, "p%d,", sizeClass(len(b), s.rbs, s.cap))
		case "dgram":
			if len(f) != 3 || s.typ != "udp" {
				e.P("bad-op")
				continue
			}
			sa, ok := parseAddr(f[1])
			if !ok {
				e.P("bad-op")
				continue
			}
			b := lp.Payload(f[2])
			s.v.PushDgram(b, sa)
			s.mu.Lock()
			s.sentD = append(s.sentD, dg{f[1], b})
			s.mu.Unlock()
			s.edge = true
			s.state(e, "dgram")
			fmt.Fprintf(&key, "d%d,", sizeClass(len(b), s.rbs, 1))
		case "eof":
			if s.typ == "udp" {
				e.P("bad-op")
				continue
			}
			s.v.SetRead(true, 0, 0)
			s.eof = true
			s.edge = true
			s.state(e, "eof")
			key.WriteString("F,")
		case "rderr":
			s.v.SetRead(false, syscall.ECONNRESET, 0)
			s.rerr = true
			s.edge = true
			s.state(e, "rderr")
			key.WriteString("E,")
		case "intr":
			k, _ := strconv.Atoi(f[1])
			s.intrTotal += k
			s.v.SetRead(false, 0, k)
			s.state(e, "intr")
			key.WriteString("I,")
		case "poll", "event":
			var fl uint32
			hold := false
			_, reg, _ := s.v.CtlLog()
			if f[0] == "poll" {
				fl = s.pollFlags()
			} else {
				if len(f) < 2 {
					e.P("bad-op")
					continue
				}
				want, ok := parseFlags(f[1])
				if !ok {
					e.P("bad-op")
					continue
				}
				hold = len(f) > 2 && f[2] == "hold"
				fl = s.eventFlags(want)
			}
			if fl == 0 || !reg || closed || s.held {
				s.state(e, "nop")
				key.WriteString("n,")
				continue
			}
			if s.taskState() == "read" && (fl&evIn == 0 || fl&evOut != 0 || s.mode != "et") {
				// the parked task sits inside its read, i.e. inside the conn mutex: a poller that needs the
				// mutex (close on an error-only event, flush) would simply wait for it; such a report is not
				// delivered now (an event with IN only goes through the gate, also with a hang-up flag)
				s.state(e, "busy")
				key.WriteString("b,")
				continue
			}
			what := s.deliver(e, fl, hold)
			if s.mode == "lt" && fl&evIn != 0 && s.eof && !s.rerr && s.q() == 0 {
				// level-triggered: a FIN that was reported and did not close the conn stays readable — the kernel reports
				// it again at once, and again: show it
				if cl, _ := s.closeState(); !cl {
					_, _, r0, _ := s.v.ReadSide()
					n := 0
					for ; n < 3; n++ {
						if fl2 := s.pollFlags(); fl2 != 0 {
							s.deliver(e, fl2, false)
						}
					}
					_, _, r1, _ := s.v.ReadSide()
					if cl, _ := s.closeState(); !cl {
						_, _, events := s.v.CtlLog()
						e.Oracle("c02-spin", "level-triggered: the peer's FIN is reported as readable, read returns 0 and the conn stays open: %d further reports, %d further read calls on an empty queue, still open — the poller spins for ever (interest set %x: EPOLLRDHUP asked for = %v) typ=%s", n, r1-r0, events, s.rdhupAsked(), s.typ)
					}
				}
			}
			s.state(e, what)
			fmt.Fprintf(&key, "e%x,", fl)
			nontrivial = true
		case "undo":
			if !s.held {
				s.state(e, "nop")
				continue
			}
			s.pollerResume <- struct{}{}
			if ok := <-s.injDone; !ok {
				s.stuck(e, "poller did not finish the event batch after the undo")
			}
			s.held = false
			s.runDef(e)
			s.state(e, "undo")
			key.WriteString("U,")
		case "task":
			if len(f) != 2 || f[1] != "step" || !s.park() {
				s.state(e, "nop")
				continue
			}
			d := s.stepTask(e)
			s.state(e, "T "+d)
			key.WriteString("t" + d[:1] + ",")
		case "drain":
			if !s.park() {
				s.state(e, "nop")
				continue
			}
			steps := 0
			// generous for a terminating task: a few steps per buffer-full (stream) or per datagram, plus every
			// EINTR ever scripted in this case
			units := s.q()/s.rbs + 1
			if s.typ == "udp" {
				units = s.q() + 1
			}
			bound := 16 + 4*(units+s.intrTotal)
			spun := false
			for s.firstAlive() != nil && !s.held {
				if steps >= bound {
					spun = true
					break
				}
				if d := s.stepTask(e); d == "stuck" {
					break
				}
				steps++
			}
			if spun {
				_, _, r, i := s.v.ReadSide()
				s.stuck(e, fmt.Sprintf("read task still looping after %d steps without new input (read calls %d, idle %d, readEvents %d)", steps, r, i, s.c.VerifReadEvents()))
				s.dead = false
				s.state(e, "spin")
				s.dead = true
				continue
			}
			s.state(e, "drain")
			key.WriteString("D,")
		case "backlog":
			// backlog <n>: our side writes n bytes the kernel does not take (the peer is not reading): write backlog, the
			// writing event is armed (level-triggered: EPOLL_CTL_MOD; plain edge-triggered: already in the interest set)
			if len(f) != 2 || s.typ == "udp" || s.mode == "os" {
				e.P("bad-op")
				continue
			}
			if closed {
				s.state(e, "nop")
				continue
			}
			if s.taskState() == "read" {
				s.state(e, "busy") // the parked task sits inside the conn mutex
				continue
			}
			{
				n, _ := strconv.Atoi(f[1])
				s.v.SetScript(nil) // exhausted script: EAGAIN
				_, _ = s.c.Write(lp.Pattern(n, 5))
				s.scanCtl()
				s.state(e, "backlog")
				key.WriteString("bl,")
			}
		case "xadd":
			// xadd <k>: a further stream conn
			k, err := strconv.Atoi(f[len(f)-1])
			if len(f) != 2 || err != nil || !s.sideOK() || s.side[k] != nil {
				e.P("bad-op")
				continue
			}
			fd, v := vsys.NewVFD()
			if _, err := s.sideAdd(k, fd, v); err != nil {
				s.stuck(e, "AddConn of a side conn failed: "+err.Error())
			}
			s.sideState(e, "xadd")
			key.WriteString("xa,")
		case "xsend":
			// xsend <k1> <p1> [<k2> <p2> [<k3> <p3>]]: the peers send; the events of one poller come in one batch
			if len(f) < 3 || len(f)%2 != 1 || !s.sideOK() {
				e.P("bad-op")
				continue
			}
			var fds []int
			ok := true
			for i := 1; i < len(f); i += 2 {
				k, _ := strconv.Atoi(f[i])
				sc := s.side[k]
				if sc == nil || !sc.live {
					ok = false
				}
			}
			if !ok {
				e.P("bad-op")
				continue
			}
			for i := 1; i < len(f); i += 2 {
				k, _ := strconv.Atoi(f[i])
				sc := s.side[k]
				b := lp.Payload(f[i+1])
				s.mu.Lock()
				sc.sent = append(sc.sent, b...)
				s.mu.Unlock()
				sc.v.Push(b)
				fds = append(fds, sc.fd)
			}
			s.sidePump(e, fds, nil)
			s.sideState(e, "xsend")
			fmt.Fprintf(&key, "xs%d,", len(f)/2)
			nontrivial = true
		case "xclose":
			k, _ := strconv.Atoi(f[len(f)-1])
			sc := s.side[k]
			if len(f) != 2 || !s.sideOK() || sc == nil || !sc.live {
				e.P("bad-op")
				continue
			}
			s.mu.Lock()
			sc.live = false
			s.mu.Unlock()
			_ = sc.c.Close()
			s.sideState(e, "xclose")
			key.WriteString("xc,")
		case "xreuse":
			// xreuse <k> <j> <payload>: conn k is closed; a new conn j gets ITS descriptor number; the peer of j sends; the
			// poller's batch still holds (stale) readable events that were collected for the old conn
			if len(f) != 4 || !s.sideOK() {
				e.P("bad-op")
				continue
			}
			k, _ := strconv.Atoi(f[1])
			j, _ := strconv.Atoi(f[2])
			old := s.side[k]
			if old == nil || old.live || s.side[j] != nil {
				e.P("bad-op")
				continue
			}
			// the kernel hands out the lowest free number: take descriptors until the old number comes
			var extra []int
			fd, v := -1, (*vsys.VFD)(nil)
			for i := 0; i < 256; i++ {
				nfd, nv := vsys.NewVFD()
				if nfd == old.fd {
					fd, v = nfd, nv
					break
				}
				extra = append(extra, nfd)
			}
			for _, x := range extra {
				vsys.Forget(x)
				_ = syscall.Close(x)
			}
			if fd < 0 {
				s.stuck(e, "side conns: the descriptor number of the closed conn did not come back")
				s.sideState(e, "xreuse")
				continue
			}
			sc, err := s.sideAdd(j, fd, v)
			if err != nil {
				s.stuck(e, "AddConn on a reused descriptor number failed: "+err.Error())
			}
			b := lp.Payload(f[3])
			s.mu.Lock()
			sc.sent = append(sc.sent, b...)
			s.mu.Unlock()
			sc.v.Push(b)
			st := syscall.EpollEvent{Fd: int32(fd), Events: syscall.EPOLLIN}
			s.sidePump(e, []int{fd}, []syscall.EpollEvent{st, st})
			s.sideState(e, "xreuse")
			key.WriteString("xr,")
			nontrivial = true
		case "key":
			sa, ok := parseAddr(f[1])
			if !ok {
				e.P("bad-op")
				continue
			}
			k := nbio.VerifUDPKey(sa)
			e.P("K %s", lp.Hex(k[:]))
		default:
			e.P("bad-op")
		}
	}
	finish()
}

func sizeClass(n, rbs, cap int) int {
	switch {
	case n == 0:
		return 0
	case n < rbs:
		return 1
	case n == rbs:
		return 2
	case n < rbs*cap:
		return 3
	case n == rbs*cap:
		return 4
	}
	return 5
}

// ---------------------------------------------------------------- generator

func genAddr(g *lp.Gen, pool []string) string {
	if g.Chance(1, 2) {
		return pool[g.Intn(3)%len(pool)] // a few hot remotes, so sessions are reused
	}
	return pool[g.Intn(len(pool))]
}

func gen(g *lp.Gen) {
	for cs := 0; cs < g.N; cs++ {
		if cs%11 == 5 {
			genGateRace(g)
			continue
		}
		if cs%30 == 7 {
			// a UDP listener with a short session timeout: an active remote keeps its session (deadline renewed by every
			// datagram), gaps of 0.6 x timeout
			const T = 300
			rbs := g.PickInt(7, 4096)
			g.P("C %s %d def %d %d udp %d %d", g.Pick("lt", "et", "os"), g.Intn(2), rbs, g.PickInt(1, 3, 1000000), g.PickInt(1, 2), T)
			a, b := "4:7f000001:4000", "4:7f000001:4001"
			for i := 0; i < 3; i++ {
				g.P("dgram %s @%d:%d", a, 1+g.Intn(6), g.Intn(256))
				g.P("poll")
				if i == 1 && g.Chance(1, 2) {
					g.P("dgram %s @%d:%d", b, 1+g.Intn(6), g.Intn(256))
					g.P("poll")
				}
				if i < 2 {
					g.P("wait %d", T*6/10)
				}
			}
			g.P("wait 1") // shows the attribution of the last datagram
			g.P("poll")
			continue
		}
		if cs%40 == 17 {
			g.P("C %s %d real %d %d %s %d", g.Pick("lt", "et", "os"), g.Intn(2), g.PickInt(7, 4096, 65536), g.PickInt(1, 3, 1000000), g.Pick("tcp", "unix", "udp"), g.PickInt(1, 2))
			continue
		}
		mode := g.Pick("lt", "et", "os")
		async := g.Chance(1, 2)
		exec := g.Pick("def", "park", "park")
		rbs := g.PickInt(1, 7, 4096, 65536)
		if rbs == 65536 && g.Tier == "quick" && !g.Chance(1, 3) {
			rbs = g.PickInt(1, 7, 4096)
		}
		cp := g.PickInt(1, 3, 1000000)
		typ := g.Pick("tcp", "unix", "udp")
		client := false
		if typ == "udp" && g.Chance(1, 3) {
			client = true // a dialed UDP conn: one peer, datagrams on the conn itself
		}
		np := g.PickInt(1, 2, 4)
		if client {
			g.P("C %s %d %s %d %d udpc %d", mode, b2i(async), exec, rbs, cp, np)
		} else {
			g.P("C %s %d %s %d %d %s %d", mode, b2i(async), exec, rbs, cp, typ, np)
		}
		nops := 4 + g.Intn(12)
		isAsync := async && mode != "lt"
		// address pool for UDP: near-collisions on purpose (same ip/other port, same port/other ip, v4 vs v6)
		pool := []string{"4:7f000001:4000", "4:7f000001:4001", "4:7f000002:4000", "4:0a000001:4000",
			"4:7f000001:64", "4:00000000:0", "4:ffffffff:65535", "4:7f000001:16384"}
		if g.Chance(1, 3) {
			pool = []string{"6:00000000000000000000000000000001:4000:0", "6:00000000000000000000000000000001:4000:1",
				"6:00000000000000000000000000000001:4001:0", "6:fe800000000000000000000000000001:4000:2",
				"6:00000000000000000000ffff7f000001:4000:0", "6:7f000001000000000000000000000000:4000:0"}
		}
		if client {
			pool = []string{"4:7f000001:4000"}
		}
		eofDone := false
		// side conns (stream cases whose read tasks are not parked): further conns of the same engine with payload
		// patterns of their own, events of several conns in one batch, close + descriptor number reuse + stale events
		sideCase := typ != "udp" && !isAsync && g.Chance(1, 2)
		sideStage, sideNext := 0, 4
		sidePay := func(k int) string {
			return fmt.Sprintf("@%d:%d", g.PickInt(1, rbs-1, rbs, rbs+1, 2*rbs+1, 3, 50), 40+k)
		}
		for i := 0; i < nops; i++ {
			if sideCase && g.Chance(1, 2) {
				switch sideStage {
				case 0:
					g.P("xadd 1")
					g.P("xadd 2")
				case 1:
					g.P("xsend 1 %s 2 %s", sidePay(1), sidePay(2))
				case 2:
					g.P("xadd 3")
					g.P("xsend 3 %s 1 %s 2 %s", sidePay(3), sidePay(1), sidePay(2))
				case 3:
					g.P("xclose %d", 1+g.Intn(3))
				default:
					// whichever is closed is reused, the others keep talking
					g.P("xreuse 1 %d %s", sideNext, sidePay(sideNext))
					g.P("xreuse 2 %d %s", sideNext+1, sidePay(sideNext+1))
					g.P("xreuse 3 %d %s", sideNext+2, sidePay(sideNext+2))
					g.P("xsend 1 %s", sidePay(1))
					g.P("xsend 2 %s", sidePay(2))
					g.P("xsend 3 %s", sidePay(3))
					sideCase = false
				}
				sideStage++
			}
			if typ != "udp" && mode != "os" && g.Chance(1, 10) {
				g.P("backlog %d", 1+g.Intn(100))
			}
			r := g.Intn(100)
			switch {
			case r < 30 && !eofDone:
				if typ == "udp" {
					n := g.PickInt(1, 2, rbs-1, rbs, rbs+1, 3, 100)
					if n <= 0 {
						n = 1
					}
					if n > 70000 {
						n = 70000
					}
					if g.Chance(1, 25) {
						n = 0
					}
					k := 1 + g.Intn(3)
					for j := 0; j < k; j++ {
						if n == 0 {
							g.P("dgram %s -", genAddr(g, pool))
						} else {
							g.P("dgram %s @%d:%d", genAddr(g, pool), n, g.Intn(256))
						}
					}
				} else {
					c := cp
					if c > 4 {
						c = 4
					}
					n := g.PickInt(1, rbs-1, rbs, rbs+1, c*rbs-1, c*rbs, c*rbs+1, 2*c*rbs+3, 1+g.Intn(40), 2*rbs)
					if n <= 0 {
						n = 1
					}
					g.P("push @%d:%d", n, g.Intn(256))
				}
			case r < 60:
				g.P("poll")
			case r < 68:
				g.P("event %s", g.Pick("in", "in", "in+out", "in+rdhup", "rdhup", "hup+err", "in+hup+err", "out"))
			case r < 72 && typ != "udp" && !eofDone:
				g.P("eof")
				eofDone = true
				if g.Chance(2, 3) {
					g.P("poll")
				}
			case r < 74:
				g.P("rderr")
				eofDone = true
			case r < 78:
				g.P("intr %d", 1+g.Intn(3))
			case r < 96 && isAsync && exec == "park":
				k := 1 + g.Intn(4)
				for j := 0; j < k; j++ {
					g.P("task step")
				}
			case r < 100 && isAsync && exec == "park":
				g.P("drain")
			default:
				g.P("poll")
			}
		}
		if typ == "udp" && g.Chance(1, 2) {
			g.P("key %s", genAddr(g, pool))
		}
		g.P("drain")
		g.P("poll")
		g.P("drain")
	}
}

// genGateRace: the schedules around the AsyncRead gate — a third event while two are pending, with the
// poller parked inside the gate if the code has a window there, and task steps interleaved.
func genGateRace(g *lp.Gen) {
	rbs := g.PickInt(1, 7, 4096)
	g.P("C et 1 park %d %d %s %d", rbs, g.PickInt(1, 3, 1000000), g.Pick("tcp", "unix"), g.PickInt(1, 2))
	g.P("push @%d:1", 1+g.Intn(3))
	g.P("poll")
	if g.Chance(1, 2) {
		g.P("task step")
	}
	g.P("push @1:2")
	g.P("poll")
	g.P("push @1:3")
	g.P("event in hold")
	k := 3 + g.Intn(10)
	for i := 0; i < k; i++ {
		g.P("task step")
	}
	g.P("undo")
	if g.Chance(2, 3) {
		g.P("drain")
	}
	g.P("push @2:4")
	g.P("poll")
	k = g.Intn(4)
	for i := 0; i < k; i++ {
		g.P("task step")
	}
	if g.Chance(1, 2) {
		g.P("event in")
	}
	g.P("drain")
	g.P("poll")
	g.P("drain")
}

func b2i(b bool) int {
	if b {
		return 1
	}
	return 0
}

// ---------------------------------------------------------------- real-kernel tier (supporting)

func cpuTime() time.Duration {
	var ru syscall.Rusage
	_ = syscall.Getrusage(0, &ru)
	return time.Duration(ru.Utime.Nano() + ru.Stime.Nano())
}

// realCase runs the configuration on real loopback sockets. One-sided tolerances, a failing observation is
// re-checked before it is reported (real time, real scheduler).
func realCase(e *lp.Exec, c cfg) {
	vsys.ReadHook, vsys.AtomicHook = nil, nil
	defer func() { vsys.ReadHook, vsys.AtomicHook = readHook, atomicHook }()
	tag := fmt.Sprintf("real mode=%s async=%v typ=%s rbs=%d cap=%d", c.mode, c.isAsync(), c.typ, c.rbs, c.cap)
	network, addr := c.typ, "127.0.0.1:0"
	if c.typ == "unix" {
		addr = fmt.Sprintf("/tmp/hread-%d-%d.sock", syscall.Getpid(), time.Now().UnixNano())
		defer syscall.Unlink(addr)
	}
	conf := nbio.Config{Network: network, Addrs: []string{addr}, NPoller: c.np, ReadBufferSize: c.rbs,
		MaxConnReadTimesPerEventLoop: c.cap, AsyncReadInPoller: c.async}
	switch c.mode {
	case "et":
		conf.EpollMod = nbio.EPOLLET
	case "os":
		conf.EpollMod = nbio.EPOLLET
		conf.EPOLLONESHOT = nbio.EPOLLONESHOT
	}
	g := nbio.NewEngine(conf)
	var mu sync.Mutex
	got := map[*nbio.Conn][]byte{}
	var order []*nbio.Conn
	closed := map[*nbio.Conn]string{}
	g.OnData(func(nc *nbio.Conn, d []byte) {
		mu.Lock()
		if _, ok := got[nc]; !ok {
			order = append(order, nc)
		}
		got[nc] = append(got[nc], d...)
		if c.typ == "udp" {
			got[nc] = append(got[nc], 0xff) // datagram boundary marker
		}
		mu.Unlock()
	})
	g.OnClose(func(nc *nbio.Conn, err error) { mu.Lock(); closed[nc] = errClass(err); mu.Unlock() })
	var opened []*nbio.Conn
	g.OnOpen(func(nc *nbio.Conn) { mu.Lock(); opened = append(opened, nc); mu.Unlock() })
	if err := g.Start(); err != nil {
		e.P("#real start failed %v", err)
		return
	}
	defer func() {
		done := make(chan struct{})
		go func() { g.Stop(); close(done) }()
		select {
		case <-done:
		case <-time.After(5 * time.Second):
		}
	}()
	for i := 0; i < c.np; i++ {
		vsys.InjectTimeout(g.VerifEpfd(i), nil, 5*time.Second)
	}
	total := func() int {
		mu.Lock()
		defer mu.Unlock()
		n := 0
		for _, b := range got {
			n += len(b)
		}
		return n
	}
	waitFor := func(want int, d time.Duration) bool {
		// d of 1 ms sleeps, counted (a sleep oversleeps on a loaded machine: the bound stretches with the load)
		for i := 0; i < int(d/time.Millisecond); i++ {
			if total() >= want {
				return true
			}
			time.Sleep(time.Millisecond)
		}
		return total() >= want
	}
	idle := func() {
		// no input pending: the readers must be idle. Judged by what the engine DOES on its real descriptors — poller
		// wake-ups (epoll_wait returning events) and read calls, counted by the shim — not by CPU time: an idle engine makes
		// none, a spinning poller / read task makes thousands per second; the load of the machine only slows a spinner
		// down. Spinning = more than 50 such calls in each of five consecutive 60 ms windows (CPU time is printed as a hint)
		for try := 0; try < 5; try++ {
			c0, w0 := cpuTime(), time.Now()
			k0, r0 := vsys.RealActivity()
			time.Sleep(60 * time.Millisecond)
			k1, r1 := vsys.RealActivity()
			if (k1-k0)+(r1-r0) <= 50 {
				return
			} else if try == 4 {
				e.Oracle("c02-spin", "%s: no input pending, yet %d poller wake-ups and %d read calls on real descriptors in a %v window (fifth window in a row; %v CPU)", tag, k1-k0, r1-r0, time.Since(w0).Round(time.Millisecond), cpuTime()-c0)
			}
		}
	}
	if c.typ == "udp" {
		la := g.Addrs[0]
		var socks []net.Conn
		for i := 0; i < 2; i++ {
			pc, err := net.Dial("udp", la)
			if err != nil {
				return
			}
			defer pc.Close()
			socks = append(socks, pc)
		}
		// a burst of datagrams of different sizes from two remotes, back to back
		sizes := []int{1, 5, 100, 3, 64, 2}
		want := 0
		var sent [2][]byte
		for round := 0; round < 3; round++ {
			for i, n := range sizes {
				k := n
				if k > c.rbs {
					k = c.rbs // larger datagrams are truncated by the kernel: not part of this tier
				}
				b := lp.Pattern(k, round*7+i)
				s := (i + round) % 2
				_, _ = socks[s].Write(b)
				sent[s] = append(append(sent[s], b...), 0xff)
				want += k + 1
			}
			if !waitFor(want, 3*time.Second) {
				e.Oracle("c02-stranded", "%s: %d of %d datagram bytes delivered 3s after a burst (rest stranded until the next arrival?)", tag, total(), want)
				return
			}
			time.Sleep(2 * time.Millisecond)
		}
		idle()
		mu.Lock()
		if len(order) != 2 {
			e.Oracle("c02-udp-demux", "%s: 2 remotes, %d sessions", tag, len(order))
		} else {
			for _, nc := range order {
				ra := nc.RemoteAddr().String()
				for s := 0; s < 2; s++ {
					if socks[s].LocalAddr().String() == ra && string(got[nc]) != string(sent[s]) {
						e.Oracle("c02-delivery", "%s: session %s received %d bytes, its remote sent %d (content/boundaries differ)", tag, ra, len(got[nc]), len(sent[s]))
					}
				}
			}
		}
		mu.Unlock()
		return
	}
	pc, err := net.Dial(network, g.Addrs[0])
	if err != nil {
		e.P("#real dial failed %v", err)
		return
	}
	defer pc.Close()
	capN := c.cap
	if capN > 3 {
		capN = 3
	}
	big := capN*c.rbs + 1
	if big > 300000 {
		big = 300000
	}
	var sent []byte
	for i, n := range []int{1, c.rbs - 1, c.rbs, c.rbs + 1, big, 3} {
		if n <= 0 {
			n = 1
		}
		if n > 300000 {
			n = 300000
		}
		b := lp.Pattern(n, i)
		if _, err := pc.Write(b); err != nil {
			return
		}
		sent = append(sent, b...)
		if i%2 == 0 {
			time.Sleep(2 * time.Millisecond) // pause: the next burst is a new readiness event
		}
	}
	if !waitFor(len(sent), 5*time.Second) {
		e.Oracle("c02-stranded", "%s: %d of %d bytes delivered 5s after the last burst", tag, total(), len(sent))
		return
	}
	idle()
	// burst larger than the per-loop limit, then half-close
	b := lp.Pattern(big+c.rbs, 9)
	_, _ = pc.Write(b)
	sent = append(sent, b...)
	switch t := pc.(type) {
	case *net.TCPConn:
		_ = t.CloseWrite()
	case *net.UnixConn:
		_ = t.CloseWrite()
	}
	for i := 0; i < 5000; i++ { // counted 1 ms sleeps: stretches with the load
		mu.Lock()
		n := len(closed)
		mu.Unlock()
		if n > 0 {
			break
		}
		time.Sleep(time.Millisecond)
	}
	mu.Lock()
	defer mu.Unlock()
	if len(closed) == 0 {
		e.Oracle("c02-stranded", "%s: no close notification 5s after the peer's half-close", tag)
		return
	}
	var all []byte
	for _, nc := range order {
		all = append(all, got[nc]...)
	}
	if len(order) != 1 || string(all) != string(sent[:len(all)]) {
		e.Oracle("c02-delivery", "%s: delivered bytes are not a prefix of the bytes sent (%d conns, %d bytes)", tag, len(order), len(all))
	}
	if len(all) != len(sent) {
		e.Oracle("c02-stranded", "closed on peer half-close with %d unread in the kernel queue mode=%s async=%v typ=%s cap=%d rbs=%d (real kernel)", len(sent)-len(all), c.mode, c.isAsync(), c.typ, c.cap, c.rbs)
	}
	mu.Unlock()
	// an asynchronous dial whose connect completes at once (unix) or almost at once (loopback tcp): with nothing to send
	// and nothing to read, the poller that owns the dialed conn must be idle too
	dialed := make(chan error, 1)
	var dc *nbio.Conn
	if err := g.DialAsync(network, g.Addrs[0], func(nc *nbio.Conn, err error) { dc = nc; dialed <- err }); err == nil {
		select {
		case err := <-dialed:
			if err == nil {
				idle()
				_ = dc.Close()
			}
		case <-time.After(3 * time.Second):
		}
	}
	// the peer half-closes while OUR side has a write backlog (the peer is not reading, the writing event is armed): the
	// FIN must still end the conn (it is reported as EPOLLRDHUP only if the registration that arms the writing event asks
	// for it) — otherwise, level-triggered, the poller reads 0 for ever
	func() {
		mu.Lock()
		n0 := len(opened)
		mu.Unlock()
		pc2, err := net.Dial(network, g.Addrs[0])
		if err != nil {
			return
		}
		defer pc2.Close()
		var sc *nbio.Conn
		for i := 0; i < 3000 && sc == nil; i, _ = i+1, func() bool { time.Sleep(time.Millisecond); return true }() {
			mu.Lock()
			if len(opened) > n0 {
				sc = opened[len(opened)-1]
			}
			mu.Unlock()
		}
		if sc == nil {
			return
		}
		chunk := lp.Pattern(256<<10, 3)
		for i := 0; i < 256 && sc.VerifState().Left == 0; i++ {
			if _, err := sc.Write(chunk); err != nil {
				return
			}
		}
		if sc.VerifState().Left == 0 {
			return // no backlog could be built: nothing to check
		}
		switch t := pc2.(type) {
		case *net.TCPConn:
			_ = t.CloseWrite()
		case *net.UnixConn:
			_ = t.CloseWrite()
		}
		ok := false
		for i := 0; i < 3000 && !ok; i, _ = i+1, func() bool { time.Sleep(time.Millisecond); return true }() {
			mu.Lock()
			_, ok = closed[sc]
			mu.Unlock()
		}
		if !ok {
			c0 := cpuTime()
			time.Sleep(60 * time.Millisecond)
			e.Oracle("c02-spin", "%s: peer half-close while a write backlog is armed: no close notification after 3s, %v CPU in a 60ms window with no input pending", tag, cpuTime()-c0)
			_ = sc.Close()
		}
	}()
	mu.Lock()
}

func main() { lp.Main(gen, exec) }
