// hstop: Engine.Stop / Shutdown on real engines (C18).
//
// Four kinds of cases:
//
//	C <id> sim pollers=<n>      core engine, real *nbio.Conn around virtual descriptors, *gated* callbacks: an OnOpen gate
//	                            per conn (holds it between addConn's onOpen and its table store) and one OnClose gate
//	                            (holds the Async drainer inside a close callback). Deterministic; after every op the
//	                            implementation is left to settle and its state is compared with the model's stable
//	                            successor state.
//	  O new | add | addfail | release <c> | close <c> | eof <c> | werr <c> | holdclose | relclose | burst <n> | stop | Q
//	  R stop=<idle|run|ret> opens=<n> closes=<n> c<i>=<opening|live|closed|done>:<in table 0|1> ...
//
//	C <id> real kind=core|http mode=lt|et|etos pollers=<n> listeners=<n> iomod=<nb|blocking|mixed>
//	                            real engine on loopback sockets, random activity, Stop/Shutdown under a watchdog,
//	                            census of goroutines and descriptors before start vs after stop.
//	  O start | activity conns=<n> dials=<n> backlog=<n> timers=<n> closers=<n> werr=<n> wsup=<n> | stop | shutdown | Q
//	  R stop=<idle|run|ret> opens=<n> closes=<n>
//
//	C <id> lmux maxa=<n>        a real lmux.ListenerMux on a loopback listener (see runLmux)
//	  O dial | takeA | takeB | dec | stop | Q
//	  R qa=<n> qb=<n> online=<n> ha=<n> hb=<n> wa=<0|1> wb=<0|1>[ got=<conn|err|closed|blocked>][ ra=<…>][ rb=<…>]
//
//	C <id> hsim io=<nb|blk>     a real nbhttp engine under forced schedules: gated OnOpen, gated listener (see runHsim)
//	  O conn gate=<0|1> | release | peerclose <i> | req <i> | relreq | late | stop | shutdown | wait | Q
//	  R online=<n> opens=<n> closes=<n> ret=<none|nil|ctx|hang>[ leak=<n>]
//	  (`req i`: conn i sends a request whose handler is held until `relreq`; oracles c05-overlap / c05-close-order, for
//	  C05 through `gen -tier c05`: the conn's close handling ran while / before that handler had finished)
//
//	C <id> ioblock attempts=<k> Stop racing a read hand-over to the default IO task pool, forced schedule (see runIOBlock)
//	  O run                       R ret=<nil|hang> attempts=<k>  |  R skipped (state never reached)
//
//	C <id> fdlimit limit=<n>    conns whose descriptor does not fit the engine's table (fd >= MaxOpenFiles), see runFdLimit
//	  O run dials=<d> accepts=<a> stop|shutdown      R ret=<nil|err|hang> dialerrs=<d> panics=<n> opens=<n> closes=<n>
//
// Direct oracles (implementation only):
//
//	c18-hang         Stop/Shutdown did not return (sim: with all gates open and the engine settled; real: within the
//	                 watchdog) — the report carries a class: onopen-outlives-snapshot (known defect #11) or unexplained
//	c18-close-count  close notifications != opens (+dials) when Stop returned, or a conn notified twice; HTTP engine:
//	                 a client connection still open after Stop returned
//	c18-goroutines   goroutines after stop (settled, <= 5 s) exceed the count before start      (supporting, one-sided)
//	c18-fds          descriptors after stop exceed the count before start                       (supporting, one-sided)
package main

import (
	"context"
	"fmt"
	"io"
	"net"
	"net/http"
	"os"
	"runtime"
	"sort"
	"strconv"
	"strings"
	"sync"
	"sync/atomic"
	"syscall"
	"time"

	"harness/internal/lp"

	"github.com/lesismal/nbio"
	"github.com/lesismal/nbio/lmux"
	"github.com/lesismal/nbio/logging"
	"github.com/lesismal/nbio/nbhttp"
	"github.com/lesismal/nbio/nbhttp/websocket"
	"github.com/lesismal/nbio/vsys"
)

// ---------------------------------------------------------------------------------- generator

func genLmux(g *lp.Gen, id int) {
	g.P("C %d lmux maxa=%d", id, g.PickInt(0, 1, 2, 3))
	n := 3 + g.Intn(12)
	stopped := false
	for k := 0; k < n; k++ {
		switch r := g.Intn(12); {
		case r < 5 && !stopped:
			g.P("O dial")
		case r < 7:
			g.P("O takeA")
		case r < 9:
			g.P("O takeB")
		case r < 10:
			g.P("O dec")
		case r < 11 && !stopped:
			g.P("O stop")
			stopped = true
		default:
			g.P("Q")
		}
	}
	if !stopped {
		g.P("O stop")
	}
	g.P("O takeA")
	g.P("O takeB")
	g.P("Q")
}

// genHsim: forced schedules on a real nbhttp engine (gated OnOpen, gated listener), see runHsim.
// genHsimReq: a request whose handler is held while Stop / Shutdown closes its connection: the connection's close
// handling (CloseAndClean, OnClose, delete) is a job of the conn's queue and has to wait for the handler (C05; the
// observation online/opens/closes/ret is C18's).
func genHsimReq(g *lp.Gen, id int) {
	g.P("C %d hsim io=nb", id)
	n := 1 + g.Intn(3)
	for k := 0; k < n; k++ {
		g.P("O conn gate=0")
	}
	g.P("O req %d", g.Intn(n))
	if g.Intn(2) == 0 {
		g.P("O shutdown")
	} else {
		g.P("O stop")
	}
	if g.Intn(3) == 0 {
		g.P("Q")
	}
	g.P("O relreq")
	g.P("O wait")
}

// genFdLimit: connections whose descriptor number does not fit the engine's table (fd >= MaxOpenFiles): refused at the
// door by addConn / addDialer, then Stop.
func genFdLimit(g *lp.Gen, id int) {
	g.P("C %d fdlimit limit=%d", id, g.PickInt(16, 32, 64))
	g.P("O run dials=%d accepts=%d %s", g.PickInt(1, 2, 4), g.PickInt(0, 1, 3), g.Pick("stop", "shutdown"))
}

// genIOBlock: Stop racing a read hand-over to the engine's default IO task pool (ET + AsyncReadInPoller), forced schedule.
func genIOBlock(g *lp.Gen, id int) {
	g.P("C %d ioblock attempts=%d", id, 2)
	g.P("O run")
}

func genHsim(g *lp.Gen, id int) {
	if g.Intn(4) == 0 {
		genHsimReq(g, id)
		return
	}
	g.P("C %d hsim io=%s", id, g.Pick("nb", "blk", "nb"))
	n := g.Intn(4)
	conns := 0
	for k := 0; k < n; k++ {
		g.P("O conn gate=0")
		conns++
		if conns > 1 && g.Intn(3) == 0 {
			g.P("O peerclose %d", g.Intn(conns))
		}
	}
	gated := g.Intn(3) > 0
	if gated {
		// the listener goroutine stays inside this conn's add path until the release
		g.P("O conn gate=1")
	} else if g.Intn(2) == 0 {
		g.P("O late")
	}
	if g.Intn(2) == 0 {
		g.P("O shutdown")
	} else {
		g.P("O stop")
	}
	if gated {
		if g.Intn(4) == 0 {
			g.P("Q")
		}
		g.P("O release")
	}
	g.P("O wait")
}

func gen(g *lp.Gen) {
	if g.Tier == "c05" {
		// C05's view of this harness: only the forced schedules with a held request handler (oracles c05-overlap,
		// c05-close-order)
		for i := 0; i < g.N; i++ {
			genHsimReq(g, i)
		}
		return
	}
	for i := 0; i < g.N; i++ {
		if i%30 == 11 {
			genIOBlock(g, i)
			continue
		}
		if i%30 == 21 {
			genFdLimit(g, i)
			continue
		}
		if i%10 == 7 {
			genLmux(g, i)
			continue
		}
		if i%10 == 2 {
			genHsim(g, i)
			continue
		}
		if i%30 == 1 {
			genSimBurst(g, i)
			continue
		}
		if i%5 == 4 {
			genReal(g, i)
		} else {
			genSim(g, i)
		}
	}
}

// genSimBurst: a sim case whose history contains one drain session of more than 1024 queued Async jobs.
func genSimBurst(g *lp.Gen, id int) {
	g.P("C %d sim pollers=%d", id, g.PickInt(1, 2))
	n := 0
	for k := g.Intn(3); k > 0; k-- {
		g.P("O add")
		n++
	}
	g.P("O burst %d", 1030+g.Intn(80))
	g.P("O add")
	n++
	if g.Intn(2) == 0 {
		g.P("O close %d", g.Intn(n))
	}
	if g.Intn(3) == 0 {
		g.P("O add")
	}
	g.P("O stop")
	g.P("Q")
}

func genSim(g *lp.Gen, id int) {
	g.P("C %d sim pollers=%d", id, g.PickInt(1, 1, 2, 4))
	n := 0
	held := map[int]bool{}
	holdClose := false
	stopped := false
	// connection states the generator tracks only to bias op choice; the model is the judge
	closed := map[int]bool{}
	pendingCb := 0
	nops := 3 + g.Intn(9)
	for k := 0; k < nops; k++ {
		r := g.Intn(20)
		switch {
		case r < 1 && !stopped:
			// addConn whose epoll registration fails: table slot cleared again, closeWithError(err)
			g.P("O addfail")
			closed[n] = true
			n++
		case r < 5 && !stopped:
			g.P("O add")
			n++
		case r < 8 && !stopped:
			g.P("O new")
			held[n] = true
			n++
		case r < 10 && len(held) > 0:
			c := pickKey(g, held)
			g.P("O release %d", c)
			delete(held, c)
		case r < 13 && n > 0:
			c := g.Intn(n)
			if held[c] {
				continue
			}
			g.P("O %s %d", g.Pick("close", "close", "eof", "werr"), c)
			if !closed[c] && holdClose {
				pendingCb++
			}
			closed[c] = true
		case r < 14 && !holdClose:
			g.P("O holdclose")
			holdClose = true
		case r < 15 && holdClose:
			g.P("O relclose")
			holdClose = false
			pendingCb = 0
		case r < 18 && !stopped && n > 0:
			// With the close gate shut, no close callback currently blocking the drainer and two or more conns in
			// the table, the implementation is genuinely nondeterministic (does the freshly spawned drainer queue the
			// first close callback before or after Stop queues the next Close?) — irrelevant to the property, so the
			// generator stays out of that corner.
			if holdClose && pendingCb == 0 && n-len(held)-len(closed) >= 2 {
				g.P("O relclose")
				holdClose = false
			}
			g.P("O stop")
			stopped = true
		default:
			g.P("Q")
		}
	}
	// wind down: open every gate, stop, observe
	if !stopped {
		if holdClose && pendingCb == 0 && n-len(held)-len(closed) >= 2 {
			g.P("O relclose")
			holdClose = false
		}
		g.P("O stop")
	}
	if holdClose {
		g.P("O relclose")
	}
	ks := make([]int, 0, len(held))
	for c := range held {
		ks = append(ks, c)
	}
	sort.Ints(ks)
	for _, c := range ks {
		g.P("O release %d", c)
	}
	g.P("Q")
}

func pickKey(g *lp.Gen, m map[int]bool) int {
	ks := make([]int, 0, len(m))
	for k := range m {
		ks = append(ks, k)
	}
	sort.Ints(ks)
	return ks[g.Intn(len(ks))]
}

func genReal(g *lp.Gen, id int) {
	kind := g.Pick("core", "core", "http")
	mode := g.Pick("lt", "et", "etos")
	iomod := "nb"
	if kind == "http" {
		iomod = g.Pick("nb", "nb", "nb", "blocking", "mixed")
		if iomod != "nb" {
			mode = "lt"
		}
	}
	g.P("C %d real kind=%s mode=%s pollers=%d listeners=%d iomod=%s", id, kind, mode, g.PickInt(1, 2, 4), g.PickInt(1, 1, 2, 3), iomod)
	g.P("O start")
	big := 1
	if g.Tier == "thorough" {
		big = 4
	}
	conns := g.PickInt(0, 1, 3, 8, 20*big, 50*big)
	if conns == 0 {
		// Start immediately followed by Stop: the poller and listener goroutines may not have run yet
		g.P("O %s", g.Pick("stop", "stop", "shutdown"))
		g.P("Q")
		return
	}
	dials := 0
	if kind == "core" {
		dials = g.PickInt(0, 0, 2, 5)
	}
	werr, wsup := 0, 0
	if kind == "core" {
		werr = g.PickInt(0, 1, 3)
	} else {
		wsup = g.PickInt(0, 1, 3)
	}
	g.P("O activity conns=%d dials=%d backlog=%d timers=%d closers=%d werr=%d wsup=%d", conns, dials, g.PickInt(0, 1, 3), g.PickInt(0, 2, 5), g.PickInt(0, 0, 2, 6), werr, wsup)
	g.P("O %s", g.Pick("stop", "stop", "shutdown"))
	g.P("Q")
}

// ---------------------------------------------------------------------------------- sim executor

type simConn struct {
	id      int
	fd      int
	v       *vsys.VFD
	c       *nbio.Conn
	gate    chan struct{}
	opened  int32
	added   int32
	ccalls  int32
	cdone   int32
	gateOff int32
	burst   bool // part of a `burst`: history only, not listed in the observation
}

type simCase struct {
	e                       *lp.Exec
	g                       *nbio.Engine
	conns                   []*simConn
	mu                      sync.Mutex
	closeGate               chan struct{} // nil = open
	opens                   int32
	closes                  int32
	stopState               int32 // 0 idle 1 running 2 returned
	heldAtStop              bool
	heldIDs                 map[int]bool // conns whose OnOpen was running when Stop was called
	opensAtRet, closesAtRet int32
	npoll                   int
	burst                   []*simConn
	burstGate               chan struct{}
	bopens, bcloses         int32
}

func (s *simCase) state() string {
	st := []string{"idle", "run", "ret"}[atomic.LoadInt32(&s.stopState)]
	b := fmt.Sprintf("R stop=%s opens=%d closes=%d", st, atomic.LoadInt32(&s.opens), atomic.LoadInt32(&s.closes))
	for _, c := range s.conns {
		var ph string
		closed := c.c.VerifState().Closed
		switch {
		case atomic.LoadInt32(&c.cdone) == 1:
			ph = "done"
		case closed:
			ph = "closed"
		case atomic.LoadInt32(&c.added) == 1:
			ph = "live"
		default:
			ph = "opening"
		}
		t := 0
		if s.g.VerifConnAt(c.fd) == c.c {
			t = 1
		}
		b += fmt.Sprintf(" c%d=%s:%d", c.id, ph, t)
	}
	return b
}

// settle polls until the observable state has not changed for a while.
func (s *simCase) settle() string {
	need := 5
	if atomic.LoadInt32(&s.stopState) == 1 {
		need = 12
	}
	last, same := "", 0
	deadline := time.Now().Add(3 * time.Second)
	for time.Now().Before(deadline) {
		cur := s.state()
		if cur == last {
			same++
			if same >= need {
				return cur
			}
		} else {
			last, same = cur, 0
		}
		time.Sleep(4 * time.Millisecond)
	}
	return last
}

func waitFor(cond func() bool, d time.Duration) bool {
	dl := time.Now().Add(d)
	for time.Now().Before(dl) {
		if cond() {
			return true
		}
		time.Sleep(500 * time.Microsecond)
	}
	return cond()
}

func runSim(e *lp.Exec, head string, ops []string) {
	ws := strings.Fields(head)
	npoll := atoi(field(ws, "pollers"))
	if npoll <= 0 {
		npoll = 1
	}
	vsys.VirtualAll = true
	s := &simCase{e: e, npoll: npoll}
	g := nbio.NewEngine(nbio.Config{NPoller: npoll})
	s.g = g
	g.OnOpen(func(c *nbio.Conn) {
		sc := c.Session().(*simConn)
		if sc.burst {
			atomic.AddInt32(&s.bopens, 1)
			return
		}
		atomic.AddInt32(&s.opens, 1)
		atomic.StoreInt32(&sc.opened, 1)
		if sc.gate != nil {
			<-sc.gate
		}
	})
	g.OnClose(func(c *nbio.Conn, err error) {
		sc := c.Session().(*simConn)
		atomic.AddInt32(&sc.ccalls, 1)
		if sc.burst {
			// the first close handler of a burst is slow: every other close notification queues up behind it
			s.mu.Lock()
			bg := s.burstGate
			s.mu.Unlock()
			if bg != nil {
				<-bg
			}
			atomic.AddInt32(&s.bcloses, 1)
			return
		}
		s.mu.Lock()
		cg := s.closeGate
		s.mu.Unlock()
		if cg != nil {
			<-cg
		}
		atomic.StoreInt32(&sc.cdone, 1)
		atomic.AddInt32(&s.closes, 1)
	})
	if err := g.Start(); err != nil {
		panic(err)
	}
	e.P("> %s", head)
	e.P("ok")
	mk := func(gated bool) *simConn {
		fd, v := vsys.NewVFDHigh()
		sc := &simConn{id: len(s.conns), fd: fd, v: v, c: nbio.VerifNewConn(fd, nbio.ConnTypeTCP)}
		if gated {
			sc.gate = make(chan struct{})
		}
		sc.c.SetSession(sc)
		s.conns = append(s.conns, sc)
		return sc
	}
	for _, ln := range ops {
		ow := strings.Fields(ln)
		switch {
		case ow[0] == "Q":
		case ow[1] == "new":
			sc := mk(true)
			go func() {
				_, _ = g.AddConn(sc.c)
				atomic.StoreInt32(&sc.added, 1)
			}()
			waitFor(func() bool { return atomic.LoadInt32(&sc.opened) == 1 }, 2*time.Second)
		case ow[1] == "add":
			sc := mk(false)
			_, _ = g.AddConn(sc.c)
			atomic.StoreInt32(&sc.added, 1)
		case ow[1] == "addfail":
			// the descriptor is already registered with the epoll instance: nbio's EPOLL_CTL_ADD fails (EEXIST),
			// addConn takes its failure path (connsUnix[fd] = nil; closeWithError(err))
			sc := mk(false)
			_ = vsys.EpollCtl(g.VerifEpfd(sc.fd%npoll), syscall.EPOLL_CTL_ADD, sc.fd, &syscall.EpollEvent{Fd: int32(sc.fd), Events: syscall.EPOLLIN})
			_, _ = g.AddConn(sc.c)
			atomic.StoreInt32(&sc.added, 1)
		case ow[1] == "release":
			c := atoi(ow[2])
			if c < len(s.conns) && s.conns[c].gate != nil && atomic.CompareAndSwapInt32(&s.conns[c].gateOff, 0, 1) {
				close(s.conns[c].gate)
				sc := s.conns[c]
				waitFor(func() bool { return atomic.LoadInt32(&sc.added) == 1 }, 2*time.Second)
			}
		case ow[1] == "close":
			c := atoi(ow[2])
			if c < len(s.conns) {
				_ = s.conns[c].c.Close()
			}
		case ow[1] == "werr":
			// the conn dies from a hard write error (the error branch of Conn.Write: closed = true, then teardown)
			c := atoi(ow[2])
			if c < len(s.conns) {
				sc := s.conns[c]
				if atomic.LoadInt32(&sc.added) == 1 {
					sc.v.SetScript([]vsys.Ans{{Err: syscall.EPIPE}})
					_, _ = sc.c.Write([]byte("x"))
					sc.v.SetScript(nil)
				}
			}
		case ow[1] == "eof":
			c := atoi(ow[2])
			if c < len(s.conns) {
				sc := s.conns[c]
				if atomic.LoadInt32(&sc.added) == 1 && !sc.c.VerifState().Closed {
					vsys.InjectTimeout(g.VerifEpfd(sc.fd%npoll), []syscall.EpollEvent{{Fd: int32(sc.fd), Events: syscall.EPOLLRDHUP}}, 3*time.Second)
				}
			}
		case ow[1] == "burst":
			// history: n conns registered and closed at once while the first close handler is slow, so that all n
			// close notifications sit in the engine's Async queue behind it; then the handler returns and the queue
			// drains. Nothing of it is left afterwards (model: a no-op) — unless the queue did not survive it.
			n := atoi(ow[2])
			bg := make(chan struct{})
			s.mu.Lock()
			s.burstGate = bg
			s.mu.Unlock()
			first := len(s.burst)
			for i := 0; i < n; i++ {
				fd, v := vsys.NewVFDHigh()
				sc := &simConn{id: -1, fd: fd, v: v, c: nbio.VerifNewConn(fd, nbio.ConnTypeTCP), burst: true}
				sc.c.SetSession(sc)
				s.burst = append(s.burst, sc)
				_, _ = g.AddConn(sc.c)
			}
			for _, sc := range s.burst[first:] {
				_ = sc.c.Close()
			}
			time.Sleep(5 * time.Millisecond)
			s.mu.Lock()
			s.burstGate = nil
			s.mu.Unlock()
			close(bg)
			want := int32(len(s.burst))
			if ok := waitFor(func() bool { return atomic.LoadInt32(&s.bcloses) == want }, 10*time.Second); !ok {
				e.Oracle("c18-close-count", "burst of %d closes behind one slow close handler: only %d of %d close notifications were delivered", n, atomic.LoadInt32(&s.bcloses), want)
			}
		case ow[1] == "holdclose":
			s.mu.Lock()
			if s.closeGate == nil {
				s.closeGate = make(chan struct{})
			}
			s.mu.Unlock()
		case ow[1] == "relclose":
			s.mu.Lock()
			if s.closeGate != nil {
				close(s.closeGate)
				s.closeGate = nil
			}
			s.mu.Unlock()
		case ow[1] == "stop":
			if atomic.CompareAndSwapInt32(&s.stopState, 0, 1) {
				for _, c := range s.conns {
					if atomic.LoadInt32(&c.opened) == 1 && atomic.LoadInt32(&c.added) == 0 {
						s.heldAtStop = true
						if s.heldIDs == nil {
							s.heldIDs = map[int]bool{}
						}
						s.heldIDs[c.id] = true
					}
				}
				go func() {
					g.Stop()
					// the close notifications Stop owes must have been DELIVERED (handler returned) by now
					s.opensAtRet, s.closesAtRet = atomic.LoadInt32(&s.opens), atomic.LoadInt32(&s.closes)
					atomic.StoreInt32(&s.stopState, 2)
				}()
			}
		}
		st := s.settle()
		e.P("> %s", ln)
		e.P("%s", st)
	}
	// ---- direct oracles on the final state, then clean up whatever is left
	for _, c := range s.conns {
		if n := atomic.LoadInt32(&c.ccalls); n > 1 {
			e.Oracle("c18-close-count", "conn %d notified %d times", c.id, n)
		}
	}
	allOpen := true
	s.mu.Lock()
	if s.closeGate != nil {
		allOpen = false
	}
	s.mu.Unlock()
	for _, c := range s.conns {
		if c.gate != nil && atomic.LoadInt32(&c.gateOff) == 0 {
			allOpen = false
		}
	}
	ss := atomic.LoadInt32(&s.stopState)
	if ss == 1 && allOpen {
		// the known defect leaves exactly the conns open whose OnOpen was running when Stop was called; a hang with
		// any other conn left over is something else
		class := "unexplained"
		if s.heldAtStop {
			class = "onopen-outlives-snapshot"
			for _, c := range s.conns {
				if atomic.LoadInt32(&c.cdone) == 0 && !s.heldIDs[c.id] {
					class = "unexplained"
				}
			}
		}
		e.Oracle("c18-hang", "class=%s Stop has not returned with every gate open and the engine settled; %s", class, s.state())
	}
	if ss == 2 {
		if o, c := atomic.LoadInt32(&s.opens), atomic.LoadInt32(&s.closes); o != c {
			e.Oracle("c18-close-count", "Stop returned with opens=%d close notifications=%d", o, c)
		}
		if s.opensAtRet != s.closesAtRet {
			e.Oracle("c18-close-count", "at the moment Stop returned: opens=%d, close notifications delivered=%d (Stop must not return before the last close handler has returned)", s.opensAtRet, s.closesAtRet)
		}
	}
	shape := head[strings.Index(head, "sim"):]
	for _, ln := range ops {
		shape += "|" + strings.Join(strings.Fields(ln)[:min(2, len(strings.Fields(ln)))], " ")
	}
	open := 0
	for _, c := range s.conns {
		if atomic.LoadInt32(&c.cdone) == 0 {
			open++
		}
	}
	e.Key(shape+"|"+s.state(), len(s.conns) > 0)
	e.Count("sim", []string{"stop-idle", "stop-hung", "stop-returned"}[ss])
	// cleanup: open gates, close leftovers so that a hung Stop can finish, stop if never stopped
	s.mu.Lock()
	if s.closeGate != nil {
		close(s.closeGate)
		s.closeGate = nil
	}
	s.mu.Unlock()
	for _, c := range s.conns {
		if c.gate != nil && atomic.CompareAndSwapInt32(&c.gateOff, 0, 1) {
			close(c.gate)
		}
	}
	for _, c := range s.conns {
		cc := c
		waitFor(func() bool { return cc.gate == nil || atomic.LoadInt32(&cc.added) == 1 }, time.Second)
		_ = c.c.Close()
	}
	if atomic.CompareAndSwapInt32(&s.stopState, 0, 1) {
		go func() { g.Stop(); atomic.StoreInt32(&s.stopState, 2) }()
	}
	waitFor(func() bool { return atomic.LoadInt32(&s.stopState) == 2 }, 5*time.Second)
	for _, c := range s.conns {
		vsys.Forget(c.fd)
	}
	for _, c := range s.burst {
		vsys.Forget(c.fd)
	}
}

func min(a, b int) int {
	if a < b {
		return a
	}
	return b
}

// ---------------------------------------------------------------------------------- real executor

func countFDs() (int, []string) {
	ents, err := os.ReadDir("/proc/self/fd")
	if err != nil {
		return -1, nil
	}
	var names []string
	for _, en := range ents {
		t, _ := os.Readlink("/proc/self/fd/" + en.Name())
		names = append(names, en.Name()+"->"+t)
	}
	return len(ents), names
}

type realCase struct {
	e                       *lp.Exec
	kind                    string
	core                    *nbio.Engine
	httpE                   *nbhttp.Engine
	addrs                   []string
	opens                   int32
	closes                  int32
	dialsOK                 int32
	clients                 []net.Conn
	cmu                     sync.Mutex
	srv                     []*nbio.Conn
	peerEOF                 int32
	sink                    net.Listener
	sinkCs                  []net.Conn
	stopSt                  int32
	g0                      int
	fd0                     int
	fdn0                    []string
	wgCli                   sync.WaitGroup
	opensAtRet, closesAtRet int32
}

func (r *realCase) state() string {
	st := []string{"idle", "run", "ret"}[atomic.LoadInt32(&r.stopSt)]
	o := atomic.LoadInt32(&r.opens) + atomic.LoadInt32(&r.dialsOK)
	c := atomic.LoadInt32(&r.closes)
	if r.kind == "http" {
		// the HTTP engine's own notifications are delivered through its executor and may be dropped by Stop;
		// what is compared is the number of client connections and how many of them were closed by the server
		o = int32(len(r.clients))
		c = atomic.LoadInt32(&r.peerEOF)
	}
	return fmt.Sprintf("R stop=%s opens=%d closes=%d", st, o, c)
}

// the watchdog for Stop/Shutdown on real engines: generous, a hang costs this much once per case
const watchdog = 20 * time.Second

func runReal(e *lp.Exec, head string, ops []string) {
	ws := strings.Fields(head)
	r := &realCase{e: e, kind: field(ws, "kind")}
	vsys.VirtualAll = false
	mode := field(ws, "mode")
	npoll := atoi(field(ws, "pollers"))
	nlis := atoi(field(ws, "listeners"))
	iomod := field(ws, "iomod")
	var epollMod, oneshot uint32
	switch mode {
	case "et":
		epollMod = nbio.EPOLLET
	case "etos":
		epollMod, oneshot = nbio.EPOLLET, nbio.EPOLLONESHOT
	}
	e.P("> %s", head)
	e.P("ok")
	runtime.GC()
	time.Sleep(20 * time.Millisecond)
	r.g0 = runtime.NumGoroutine()
	r.fd0, r.fdn0 = countFDs()
	payload := lp.Pattern(4096, 1)
	bigp := make([]byte, 4<<20)
	shape := head[strings.Index(head, "real"):]
	for _, ln := range ops {
		ow := strings.Fields(ln)
		ann := ""
		switch {
		case ow[0] == "Q":
		case ow[1] == "start":
			addrs := make([]string, nlis)
			for i := range addrs {
				addrs[i] = "127.0.0.1:0"
			}
			if r.kind == "core" {
				g := nbio.NewEngine(nbio.Config{Network: "tcp", Addrs: addrs, NPoller: npoll, EpollMod: epollMod, EPOLLONESHOT: oneshot, MaxWriteBufferSize: 8 << 20,
					AsyncReadInPoller: mode == "et" && npoll%2 == 0})
				g.OnOpen(func(c *nbio.Conn) {
					atomic.AddInt32(&r.opens, 1)
					r.cmu.Lock()
					r.srv = append(r.srv, c)
					r.cmu.Unlock()
				})
				g.OnClose(func(c *nbio.Conn, err error) {
					time.Sleep(200 * time.Microsecond) // a handler that takes a moment: counted when it returns
					atomic.AddInt32(&r.closes, 1)
				})
				g.OnData(func(c *nbio.Conn, data []byte) { _, _ = c.Write(append([]byte(nil), data...)) })
				if err := g.Start(); err != nil {
					panic(err)
				}
				r.core = g
				r.addrs = g.Addrs
			} else {
				mux := http.NewServeMux()
				mux.HandleFunc("/", func(w http.ResponseWriter, q *http.Request) { _, _ = w.Write([]byte("ok")) })
				up := websocket.NewUpgrader()
				up.KeepaliveTime = 0
				mux.HandleFunc("/ws", func(w http.ResponseWriter, q *http.Request) {
					if iomod == "nb" {
						_, _ = up.Upgrade(w, q, nil)
					} else {
						// blocking I/O mode: hand the upgraded conn over to the poller
						_, _ = up.UpgradeAndTransferConnToPoller(w, q, nil)
					}
				})
				im := nbhttp.IOModNonBlocking
				switch iomod {
				case "blocking":
					im = nbhttp.IOModBlocking
				case "mixed":
					im = nbhttp.IOModMixed
				}
				he := nbhttp.NewEngine(nbhttp.Config{Network: "tcp", Addrs: addrs, NPoller: npoll, Handler: mux, IOMod: im,
					MaxBlockingOnline: 4, EpollMod: epollMod, EPOLLONESHOT: oneshot, MessageHandlerPoolSize: 16})
				up.Engine = he
				he.OnOpen(func(c net.Conn) { atomic.AddInt32(&r.opens, 1) })
				he.OnClose(func(c net.Conn, err error) { atomic.AddInt32(&r.closes, 1) })
				if err := he.Start(); err != nil {
					panic(err)
				}
				r.httpE = he
				r.addrs = he.Addrs
			}
			ln, err := net.Listen("tcp", "127.0.0.1:0")
			if err == nil {
				r.sink = ln
				go func() {
					for {
						c, err := ln.Accept()
						if err != nil {
							return
						}
						r.cmu.Lock()
						r.sinkCs = append(r.sinkCs, c)
						r.cmu.Unlock()
					}
				}()
			}
		case ow[1] == "activity":
			n, dials, backlog, timers, closers := atoi(field(ow, "conns")), atoi(field(ow, "dials")), atoi(field(ow, "backlog")), atoi(field(ow, "timers")), atoi(field(ow, "closers"))
			werr, wsup := atoi(field(ow, "werr")), atoi(field(ow, "wsup"))
			var wg sync.WaitGroup
			for i := 0; i < n; i++ {
				wg.Add(1)
				go func(i int) {
					defer wg.Done()
					c, err := net.DialTimeout("tcp", r.addrs[i%len(r.addrs)], 3*time.Second)
					if err != nil {
						return
					}
					r.cmu.Lock()
					r.clients = append(r.clients, c)
					r.cmu.Unlock()
					if r.kind == "core" {
						_, _ = c.Write(payload)
						buf := make([]byte, len(payload))
						_ = c.SetReadDeadline(time.Now().Add(3 * time.Second))
						_, _ = io.ReadFull(c, buf)
					} else if i < wsup {
						// a websocket upgrade (transferred to the poller when the engine serves in blocking mode)
						fmt.Fprintf(c, "GET /ws HTTP/1.1\r\nHost: x\r\nUpgrade: websocket\r\nConnection: Upgrade\r\nSec-WebSocket-Key: MDEyMzQ1Njc4OWFiY2RlZg==\r\nSec-WebSocket-Version: 13\r\n\r\n")
						buf := make([]byte, 4096)
						_ = c.SetReadDeadline(time.Now().Add(3 * time.Second))
						_, _ = c.Read(buf)
					} else {
						fmt.Fprintf(c, "GET / HTTP/1.1\r\nHost: x\r\n\r\n")
						buf := make([]byte, 4096)
						_ = c.SetReadDeadline(time.Now().Add(3 * time.Second))
						_, _ = c.Read(buf)
					}
					_ = c.SetReadDeadline(time.Time{})
				}(i)
			}
			wg.Wait()
			if r.core != nil {
				waitFor(func() bool { return int(atomic.LoadInt32(&r.opens)) >= len(r.clients) }, 3*time.Second)
				for i := 0; i < dials && r.sink != nil; i++ {
					// every DialAsync that returns nil has registered a conn (wgConn.Add): it owes one close notification.
					// (Whether and when the connect callback runs is the dial path's business, C03.)
					done := make(chan struct{})
					err := r.core.DialAsync("tcp", r.sink.Addr().String(), func(c *nbio.Conn, err error) { close(done) })
					if err == nil {
						atomic.AddInt32(&r.dialsOK, 1)
						select {
						case <-done:
						case <-time.After(200 * time.Millisecond):
						}
					}
				}
				r.cmu.Lock()
				srv := append([]*nbio.Conn(nil), r.srv...)
				r.cmu.Unlock()
				for i := 0; i < backlog && i < len(srv); i++ {
					_, _ = srv[i].Write(bigp) // the client is not reading: a backlog stays queued
				}
				for i := 0; i < werr && backlog+i < len(srv); i++ {
					// a hard write error before Stop: more than MaxWriteBufferSize ⇒ overflow ⇒ the conn is closed by Write
					_, _ = srv[backlog+i].Write(make([]byte, 16<<20))
				}
				if werr > 0 {
					time.Sleep(5 * time.Millisecond)
				}
				for i := 0; i < timers && i < len(srv); i++ {
					c := srv[len(srv)-1-i]
					if i%2 == 0 {
						_ = c.SetReadDeadline(time.Now().Add(10 * time.Second))
					} else {
						_ = c.SetDeadline(time.Now().Add(time.Duration(20+10*i) * time.Millisecond))
					}
				}
				// concurrent closers: race with Stop (started by the next op)
				for i := 0; i < closers; i++ {
					i := i
					r.wgCli.Add(1)
					go func() {
						defer r.wgCli.Done()
						time.Sleep(time.Duration(i%3) * 300 * time.Microsecond)
						if i%2 == 0 && i/2 < len(srv) {
							_ = srv[i/2].Close()
						} else {
							r.cmu.Lock()
							var c net.Conn
							if i < len(r.clients) {
								c = r.clients[i]
							}
							r.cmu.Unlock()
							if c != nil {
								_ = c.Close()
							}
						}
					}()
				}
			}
			// every client watches for the server closing it
			r.cmu.Lock()
			for _, c := range r.clients {
				c := c
				r.wgCli.Add(1)
				go func() {
					defer r.wgCli.Done()
					buf := make([]byte, 1<<16)
					for {
						_, err := c.Read(buf)
						if err != nil {
							if ne, ok := err.(net.Error); !ok || !ne.Timeout() {
								atomic.AddInt32(&r.peerEOF, 1)
							}
							return
						}
					}
				}()
			}
			r.cmu.Unlock()
			// the activity phase is over; closers and short timers keep working while Stop runs. The state line and the
			// annotation for the model are taken from the same reading.
			stl := r.state()
			var so, sc int
			fmt.Sscanf(stl[strings.Index(stl, "opens="):], "opens=%d closes=%d", &so, &sc)
			ann = fmt.Sprintf(" opened=%d closed=%d", so, sc)
			e.P("> %s%s", ln, ann)
			e.P("%s", stl)
			shape += fmt.Sprintf("|n%d.d%d.b%d.t%d.c%d", n, dials, backlog, timers, closers)
			continue
		case ow[1] == "stop" || ow[1] == "shutdown":
			atomic.StoreInt32(&r.stopSt, 1)
			done := make(chan error, 1)
			go func() {
				var err error
				switch {
				case ow[1] == "stop" && r.core != nil:
					r.core.Stop()
					r.opensAtRet, r.closesAtRet = atomic.LoadInt32(&r.opens)+atomic.LoadInt32(&r.dialsOK), atomic.LoadInt32(&r.closes)
				case ow[1] == "stop":
					r.httpE.Stop()
				case r.core != nil:
					ctx, cancel := context.WithTimeout(context.Background(), 20*time.Second)
					err = r.core.Shutdown(ctx)
					cancel()
				default:
					ctx, cancel := context.WithTimeout(context.Background(), 20*time.Second)
					err = r.httpE.Shutdown(ctx)
					cancel()
				}
				done <- err
			}()
			select {
			case err := <-done:
				if err != nil {
					e.Oracle("c18-hang", "class=unexplained Shutdown with a live context returned %v", err)
				} else {
					atomic.StoreInt32(&r.stopSt, 2)
					if ow[1] == "shutdown" && r.httpE != nil {
						if n := r.httpE.Online(); n != 0 {
							e.Oracle("c18-close-count", "http engine: Shutdown returned nil with Online()=%d", n)
						}
					}
				}
			case <-time.After(watchdog):
				buf := make([]byte, 1<<16)
				buf = buf[:runtime.Stack(buf, true)]
				e.Oracle("c18-hang", "class=unexplained %s did not return within %v; %s; stacks: %s", ow[1], watchdog, r.state(), strings.ReplaceAll(string(buf[:min(len(buf), 6000)]), "\n", " ; "))
			}
			shape += "|" + ow[1]
			if r.kind == "http" {
				// the server side is closed: every client must see it
				waitFor(func() bool { return int(atomic.LoadInt32(&r.peerEOF)) >= len(r.clients) }, 8*time.Second)
			}
		}
		e.P("> %s%s", ln, ann)
		e.P("%s", r.state())
	}
	// ---- direct oracles
	if atomic.LoadInt32(&r.stopSt) == 2 {
		if r.kind == "core" {
			o, c := atomic.LoadInt32(&r.opens)+atomic.LoadInt32(&r.dialsOK), atomic.LoadInt32(&r.closes)
			if o != c {
				e.Oracle("c18-close-count", "core engine: Stop returned with opens+dials=%d close notifications=%d", o, c)
			}
			if r.opensAtRet != r.closesAtRet {
				e.Oracle("c18-close-count", "core engine: at the moment Stop returned opens+dials=%d, close notifications delivered=%d", r.opensAtRet, r.closesAtRet)
			}
		} else if int(atomic.LoadInt32(&r.peerEOF)) < len(r.clients) {
			e.Oracle("c18-close-count", "http engine (iomod=%s): %d of %d client connections still open 8s after Stop returned", iomod, len(r.clients)-int(atomic.LoadInt32(&r.peerEOF)), len(r.clients))
		}
	}
	// release the harness's own resources, then take the census
	r.cmu.Lock()
	for _, c := range r.clients {
		_ = c.Close()
	}
	for _, c := range r.sinkCs {
		_ = c.Close()
	}
	r.cmu.Unlock()
	if r.sink != nil {
		_ = r.sink.Close()
	}
	cw := make(chan struct{})
	go func() { r.wgCli.Wait(); close(cw) }()
	select {
	case <-cw:
	case <-time.After(3 * time.Second):
	}
	if atomic.LoadInt32(&r.stopSt) == 2 {
		ok := waitFor(func() bool { runtime.Gosched(); return runtime.NumGoroutine() <= r.g0 }, 5*time.Second)
		if !ok {
			buf := make([]byte, 1<<17)
			buf = buf[:runtime.Stack(buf, true)]
			e.Oracle("c18-goroutines", "before start %d, after stop %d; %s", r.g0, runtime.NumGoroutine(), summarizeStacks(string(buf)))
		}
		okf := waitFor(func() bool { n, _ := countFDs(); return n <= r.fd0 }, 3*time.Second)
		if !okf {
			n, names := countFDs()
			e.Oracle("c18-fds", "before start %d, after stop %d; new: %s", r.fd0, n, strings.Join(diffNames(r.fdn0, names), ","))
		}
	}
	e.Key(shape+"|"+r.state(), len(r.clients) > 0)
	e.Count("real", r.kind+"-"+mode+"-"+iomod)
}

// ---------------------------------------------------------------------------------- lmux executor

func runLmux(e *lp.Exec, head string, ops []string) {
	ws := strings.Fields(head)
	maxa := atoi(field(ws, "maxa"))
	e.P("> %s", head)
	e.P("ok")
	runtime.GC()
	time.Sleep(10 * time.Millisecond)
	g0 := runtime.NumGoroutine()
	fd0, fdn0 := countFDs()
	ln, err := net.Listen("tcp", "127.0.0.1:0")
	if err != nil {
		panic(err)
	}
	lm := lmux.New(maxa)
	la, lb := lm.Mux(ln)
	lm.Start()
	var clients, handed []net.Conn
	ha, hb, decs := 0, 0, 0
	stopped := false
	// a consumer = one goroutine in ChanListener.Accept; one that found nothing stays blocked there (as nbhttp's
	// listener goroutines do) and gets the next event of its listener
	type res struct {
		c   net.Conn
		err error
	}
	type consumer struct {
		l       *lmux.ChanListener
		ch      chan res
		waiting bool
		isA     bool
	}
	ca := &consumer{l: la, ch: make(chan res, 1), isA: true}
	cb := &consumer{l: lb, ch: make(chan res, 1)}
	relA, relB := "", "" // what consumers that were blocked got during this op: " ra=<…>" / " rb=<…>"
	classify := func(k *consumer, r res) string {
		switch {
		case r.c != nil:
			handed = append(handed, r.c)
			if k.isA {
				ha++
			} else {
				hb++
			}
			return "conn"
		case r.err == net.ErrClosed: // the chClose case of the select (the real listener's error is an *OpError)
			return "closed"
		default:
			return "err"
		}
	}
	poll := func() {
		for _, k := range []*consumer{ca, cb} {
			if !k.waiting {
				continue
			}
			select {
			case r := <-k.ch:
				k.waiting = false
				if k.isA {
					relA = " ra=" + classify(k, r)
				} else {
					relB = " rb=" + classify(k, r)
				}
			default:
			}
		}
	}
	b2i := func(b bool) int {
		if b {
			return 1
		}
		return 0
	}
	state := func() string {
		poll()
		return fmt.Sprintf("qa=%d qb=%d online=%d ha=%d hb=%d wa=%d wb=%d", la.VerifQueued(), lb.VerifQueued(), lm.VerifOnlineA(), ha, hb, b2i(ca.waiting), b2i(cb.waiting))
	}
	settle := func() string {
		last, same := "", 0
		waitFor(func() bool {
			cur := state()
			if cur == last {
				same++
			} else {
				last, same = cur, 0
			}
			return same >= 6
		}, time.Second)
		return last
	}
	take := func(k *consumer) string {
		if k.waiting { // still in its Accept
			return "blocked"
		}
		go func() { c, err := k.l.Accept(); k.ch <- res{c, err} }()
		select {
		case r := <-k.ch:
			return classify(k, r)
		case <-time.After(150 * time.Millisecond):
			k.waiting = true
			return "blocked"
		}
	}
	shape := "lmux" + field(ws, "maxa")
	for _, ln2 := range ops {
		ow := strings.Fields(ln2)
		extra := ""
		relA, relB = "", ""
		switch {
		case ow[0] == "Q":
		case ow[1] == "dial":
			before := la.VerifQueued() + lb.VerifQueued() + ha + hb
			c, err := net.DialTimeout("tcp", ln.Addr().String(), 2*time.Second)
			if err == nil {
				clients = append(clients, c)
				waitFor(func() bool { poll(); return la.VerifQueued()+lb.VerifQueued()+ha+hb > before }, time.Second)
			}
		case ow[1] == "takeA" || ow[1] == "takeB":
			k := ca
			if ow[1] == "takeB" {
				k = cb
			}
			extra = " got=" + take(k)
		case ow[1] == "dec":
			// the contract of Decrease: once per conn that A handed out, when that conn ends
			if decs < ha {
				decs++
				la.Decrease()
			}
		case ow[1] == "stop":
			if !stopped {
				stopped = true
				lm.Stop()
			}
		}
		st := settle()
		var keep []string
		for _, w := range ow {
			if !strings.HasPrefix(w, "got=") {
				keep = append(keep, w)
			}
		}
		e.P("> %s%s", strings.Join(keep, " "), extra)
		e.P("R %s%s%s%s", st, extra, relA, relB)
		shape += "|" + ow[len(ow)-1][:1] + extra + relA + relB
	}
	if stopped && (ca.waiting || cb.waiting) {
		e.Oracle("c18-hang", "class=unexplained lmux: a consumer is still blocked in ChanListener.Accept after ListenerMux.Stop (A: %v, B: %v)", ca.waiting, cb.waiting)
	}
	// ---- oracles: after Stop every conn the mux accepted has been handed to a consumer or is closed
	if stopped {
		for _, c := range handed {
			_ = c.Close()
		}
		open := 0
		for _, c := range clients {
			_ = c.SetReadDeadline(time.Now().Add(300 * time.Millisecond))
			buf := make([]byte, 1)
			_, err := c.Read(buf)
			if ne, ok := err.(net.Error); ok && ne.Timeout() {
				open++
			}
		}
		if open > 0 {
			e.Oracle("c18-close-count", "lmux: %d of %d connections the mux accepted were neither handed to a listener nor closed by ListenerMux.Stop (queued in the channel listeners: qa=%d qb=%d)", open, len(clients), la.VerifQueued(), lb.VerifQueued())
		}
	}
	for _, c := range clients {
		_ = c.Close()
	}
	if !stopped {
		lm.Stop()
	}
	if ok := waitFor(func() bool { runtime.Gosched(); return runtime.NumGoroutine() <= g0 }, 3*time.Second); !ok && stopped {
		buf := make([]byte, 1<<16)
		buf = buf[:runtime.Stack(buf, true)]
		e.Oracle("c18-goroutines", "lmux: before start %d, after stop %d; %s", g0, runtime.NumGoroutine(), summarizeStacks(string(buf)))
	}
	runtime.GC()
	if okf := waitFor(func() bool { n, _ := countFDs(); return n <= fd0 }, 2*time.Second); !okf && stopped {
		n, names := countFDs()
		e.Oracle("c18-fds", "lmux: before start %d, after stop %d; new: %s", fd0, n, strings.Join(diffNames(fdn0, names), ","))
	}
	e.Key(shape, len(clients) > 0)
	e.Count("lmux", "cases")
}

// gateListener lets the harness decide when Accept returns: a conn accepted while `late` is armed is handed to the
// engine only once Close has been called on the listener, that is after the engine has set its shutdown flag —
// the schedule "Accept returns a conn just before the listener is closed".
type gateListener struct {
	net.Listener
	late    int32
	closing chan struct{}
	once    sync.Once
	lateN   int32
}

func (l *gateListener) Accept() (net.Conn, error) {
	c, err := l.Listener.Accept()
	if err == nil && atomic.LoadInt32(&l.late) == 1 {
		atomic.AddInt32(&l.lateN, 1)
		<-l.closing
	}
	return c, err
}

func (l *gateListener) Close() error {
	l.once.Do(func() { close(l.closing) })
	if atomic.LoadInt32(&l.lateN) > 0 {
		time.Sleep(20 * time.Millisecond) // let the held Accept return first
	}
	return l.Listener.Close()
}

// runHsim: a real nbhttp engine, real loopback conns, a gate inside the engine's OnOpen handler (which the engine
// calls between the insert into engine.conns and the rest of the conn's add path) and a gate in the listener.
//
//	C <id> hsim io=<nb|blk>
//	O conn gate=<0|1> | release | peerclose <i> | late | stop | shutdown | wait | Q
//	R online=<len(engine.conns)> opens=<n> closes=<n> ret=<none|nil|ctx|hang>[ leak=<n>]
func runHsim(e *lp.Exec, head string, ops []string) {
	ws := strings.Fields(head)
	e.P("> %s", head)
	e.P("ok")
	vsys.VirtualAll = false
	runtime.GC()
	time.Sleep(20 * time.Millisecond)
	g0 := runtime.NumGoroutine()
	fd0, fdn0 := countFDs()
	im := nbhttp.IOModNonBlocking
	if field(ws, "io") == "blk" {
		im = nbhttp.IOModBlocking
	}
	var gl *gateListener
	mux := http.NewServeMux()
	mux.HandleFunc("/", func(w http.ResponseWriter, q *http.Request) { _, _ = w.Write([]byte("ok")) })
	// a request handler the harness holds: while it runs, nothing else of its connection may run (C05) — in particular
	// not the connection's close handling, which is queued behind it
	var handlerRunning, closeDuringHandler int32
	var heldAddr atomic.Value
	heldAddr.Store("")
	reqGate := make(chan struct{})
	mux.HandleFunc("/held", func(w http.ResponseWriter, q *http.Request) {
		heldAddr.Store(q.RemoteAddr)
		atomic.StoreInt32(&handlerRunning, 1)
		<-reqGate
		atomic.StoreInt32(&handlerRunning, 0)
		_, _ = w.Write([]byte("ok"))
	})
	he := nbhttp.NewEngine(nbhttp.Config{Network: "tcp", Addrs: []string{"127.0.0.1:0"}, NPoller: 1, Handler: mux, IOMod: im, MessageHandlerPoolSize: 16,
		Listen: func(network, addr string) (net.Listener, error) {
			ln, err := net.Listen(network, addr)
			if err != nil {
				return nil, err
			}
			gl = &gateListener{Listener: ln, closing: make(chan struct{})}
			return gl, nil
		}})
	var opens, closes, gateNext int32
	gate := make(chan struct{})
	he.OnOpen(func(c net.Conn) {
		if atomic.CompareAndSwapInt32(&gateNext, 1, 2) {
			<-gate
		}
		atomic.AddInt32(&opens, 1) // counted when the handler returns
	})
	he.OnClose(func(c net.Conn, err error) {
		if atomic.LoadInt32(&handlerRunning) == 1 && c.RemoteAddr() != nil && c.RemoteAddr().String() == heldAddr.Load().(string) {
			atomic.StoreInt32(&closeDuringHandler, 1)
		}
		atomic.AddInt32(&closes, 1)
	})
	if err := he.Start(); err != nil {
		panic(err)
	}
	addr := he.Addrs[0]
	reqHeld := false
	var clients []net.Conn
	var lateClients []net.Conn
	ret := "none"
	var retMu sync.Mutex
	done := make(chan struct{})
	stopping, graceful, gated := false, false, false
	const ctxTimeout = 4 * time.Second
	state := func() string {
		retMu.Lock()
		defer retMu.Unlock()
		return fmt.Sprintf("online=%d opens=%d closes=%d ret=%s", he.Online(), atomic.LoadInt32(&opens), atomic.LoadInt32(&closes), ret)
	}
	settle := func() string {
		// while a Shutdown is polling (every 200 ms) a quiet state needs more than two ticks to be believed
		quiet := 60 * time.Millisecond
		retMu.Lock()
		if stopping && graceful && ret == "none" {
			quiet = 650 * time.Millisecond
		}
		retMu.Unlock()
		last, since := "", time.Now()
		waitFor(func() bool {
			cur := state()
			if cur != last {
				last, since = cur, time.Now()
			}
			return time.Since(since) >= quiet
		}, 3*time.Second)
		return last
	}
	shape := "hsim" + field(ws, "io")
	for _, ln2 := range ops {
		ow := strings.Fields(ln2)
		extra := ""
		switch {
		case ow[0] == "Q":
		case ow[1] == "conn":
			if field(ow, "gate") == "1" {
				atomic.StoreInt32(&gateNext, 1)
				gated = true
			}
			before := he.Online()
			c, err := net.DialTimeout("tcp", addr, 2*time.Second)
			if err != nil {
				panic(err)
			}
			clients = append(clients, c)
			waitFor(func() bool { return he.Online() > before }, 2*time.Second)
		case ow[1] == "release":
			if gated {
				gated = false
				close(gate)
			}
		case ow[1] == "peerclose":
			if i := atoi(ow[2]); i < len(clients) {
				_ = clients[i].Close()
			}
		case ow[1] == "req":
			if i := atoi(ow[2]); i < len(clients) && !reqHeld {
				reqHeld = true
				_, _ = clients[i].Write([]byte("GET /held HTTP/1.1\r\nHost: x\r\n\r\n"))
				waitFor(func() bool { return atomic.LoadInt32(&handlerRunning) == 1 }, 2*time.Second)
			}
		case ow[1] == "relreq":
			if reqHeld {
				reqHeld = false
				close(reqGate)
				waitFor(func() bool { return atomic.LoadInt32(&handlerRunning) == 0 }, 2*time.Second)
			}
		case ow[1] == "late":
			atomic.StoreInt32(&gl.late, 1)
			c, err := net.DialTimeout("tcp", addr, 2*time.Second)
			if err != nil {
				panic(err)
			}
			lateClients = append(lateClients, c)
			waitFor(func() bool { return atomic.LoadInt32(&gl.lateN) > 0 }, 2*time.Second)
		case ow[1] == "stop" || ow[1] == "shutdown":
			stopping, graceful = true, ow[1] == "shutdown"
			go func(gr bool) {
				r := "nil"
				if gr {
					ctx, cancel := context.WithTimeout(context.Background(), ctxTimeout)
					if err := he.Shutdown(ctx); err != nil {
						r = "ctx"
					}
					cancel()
				} else {
					he.Stop()
				}
				retMu.Lock()
				ret = r
				retMu.Unlock()
				close(done)
			}(graceful)
		case ow[1] == "wait":
			if !stopping {
				break
			}
			select {
			case <-done:
			case <-time.After(ctxTimeout + 4*time.Second):
				retMu.Lock()
				ret = "hang"
				retMu.Unlock()
			}
			st := settle()
			leak := 0
			for _, c := range lateClients {
				_ = c.SetReadDeadline(time.Now().Add(300 * time.Millisecond))
				_, err := c.Read(make([]byte, 1))
				if ne, ok := err.(net.Error); ok && ne.Timeout() {
					leak++
				}
			}
			if leak > 0 {
				e.Oracle("c18-fds", "nbhttp: %d connection(s) that Accept returned while the engine was shutting down were dropped without being closed (the peer still sees them open after Stop returned)", leak)
			}
			extra = fmt.Sprintf(" leak=%d", leak)
			retMu.Lock()
			r := ret
			retMu.Unlock()
			if r != "nil" && !gated && !reqHeld {
				e.Oracle("c18-hang", "class=unexplained nbhttp %s did not return nil (ret=%s) although every connection was closed and no handler was blocked: %s", map[bool]string{true: "Shutdown with a live context", false: "Stop"}[graceful], r, st)
			}
			if r == "nil" && he.Online() != 0 {
				e.Oracle("c18-close-count", "nbhttp: %d entries left in engine.conns after %s returned nil", he.Online(), ow[1])
			}
		}
		if stopping && !gated && !reqHeld && ow[0] == "O" && ow[1] != "wait" {
			// nothing is held any more: Stop / Shutdown is on its way to return; a loaded machine only makes it slower
			select {
			case <-done:
			case <-time.After(3 * time.Second):
			}
		}
		st := settle()
		e.P("> %s", ln2)
		e.P("R %s%s", st, extra)
		shape += "|" + ow[len(ow)-1][:1] + "/" + st
	}
	if atomic.LoadInt32(&closeDuringHandler) == 1 {
		e.Oracle("c05-overlap", "nbhttp: the close handling of a connection (CloseAndClean / OnClose) ran while a request handler of the same connection was still running (handler held by the harness, connection closed by %s)", map[bool]string{true: "Shutdown", false: "Stop"}[graceful])
		e.Oracle("c05-close-order", "nbhttp: the close handling of a connection ran before the handler job that was queued (and running) before it had finished")
	}
	if gated {
		close(gate)
	}
	if reqHeld {
		close(reqGate)
	}
	if !stopping {
		he.Stop()
	} else {
		select {
		case <-done:
		case <-time.After(ctxTimeout + 4*time.Second):
		}
	}
	for _, c := range clients {
		_ = c.Close()
	}
	for _, c := range lateClients {
		_ = c.Close()
	}
	retMu.Lock()
	r := ret
	retMu.Unlock()
	if r == "nil" || !stopping {
		if ok := waitFor(func() bool { runtime.Gosched(); return runtime.NumGoroutine() <= g0 }, 3*time.Second); !ok {
			buf := make([]byte, 1<<16)
			buf = buf[:runtime.Stack(buf, true)]
			e.Oracle("c18-goroutines", "nbhttp hsim: before start %d, after stop %d; %s", g0, runtime.NumGoroutine(), summarizeStacks(string(buf)))
		}
		runtime.GC()
		if okf := waitFor(func() bool { n, _ := countFDs(); return n <= fd0 }, 2*time.Second); !okf {
			n, names := countFDs()
			e.Oracle("c18-fds", "nbhttp hsim: before start %d, after stop %d; new: %s", fd0, n, strings.Join(diffNames(fdn0, names), ","))
		}
	}
	e.Key(shape, len(clients)+len(lateClients) > 0)
	e.Count("hsim", "cases")
}

// runIOBlock: Engine.Stop racing a read hand-over to the engine's DEFAULT IO task pool (EPOLLET + AsyncReadInPoller:
// reads are handed to taskpool.NewIO(0, 0, …), an unbuffered queue served by one dispatcher goroutine).
//
// Forced schedule (deterministic): data arrives on a conn; the poller enters TaskPool.Go and is HELD there by the
// shim's atomic hook, at the counter decrement right before the queue operation. Stop is called; the harness waits
// until Stop is past the close notifications and the pool's Stop (a goroutine in Engine.Stop blocked in
// WaitGroup.Wait, the conn's close notification delivered, twice in a row) — the dispatcher has returned by then. Then
// the poller is released: its hand-over finds the pool stopped and must give up (the `chClose` case of Go's select), the
// poller sees the shutdown flag and Stop returns. The state is established by probing, not by delays; an attempt that
// does not reach it within its timeout (overloaded machine) is skipped, not counted as a pass.
//
//	C <id> ioblock attempts=<k>      O run      R ret=nil attempts=<k>   |   R skipped
func runIOBlock(e *lp.Exec, head string, ops []string) {
	ws := strings.Fields(head)
	attempts := atoi(field(ws, "attempts"))
	vsys.VirtualAll = false
	e.P("> %s", head)
	e.P("ok")
	stopWaiting := func() bool {
		buf := make([]byte, 1<<20)
		buf = buf[:runtime.Stack(buf, true)]
		for _, gr := range strings.Split(string(buf), "\n\n") {
			if strings.Contains(gr, "nbio.(*Engine).Stop(") && strings.Contains(gr, "sync.(*WaitGroup).Wait(") {
				return true
			}
		}
		return false
	}
	for _, ln := range ops {
		ow := strings.Fields(ln)
		if ow[0] != "O" || ow[1] != "run" {
			e.P("> %s", ln)
			e.P("R -")
			continue
		}
		hung := -1
		reached, tried := 0, 0
		for reached < attempts && tried < 2*attempts && hung < 0 {
			tried++
			var closes, armed, holding int32
			rel := make(chan struct{})
			g := nbio.NewEngine(nbio.Config{Network: "tcp", Addrs: []string{"127.0.0.1:0"}, NPoller: 1, EpollMod: nbio.EPOLLET, AsyncReadInPoller: true})
			var srv atomic.Value
			g.OnOpen(func(c *nbio.Conn) { srv.Store(c) })
			g.OnClose(func(c *nbio.Conn, err error) { atomic.AddInt32(&closes, 1) })
			g.OnData(func(c *nbio.Conn, data []byte) {})
			if err := g.Start(); err != nil {
				panic(err)
			}
			cb, err := net.DialTimeout("tcp", g.Addrs[0], 2*time.Second)
			if err != nil {
				panic(err)
			}
			waitFor(func() bool { return srv.Load() != nil }, 3*time.Second)
			time.Sleep(2 * time.Millisecond)
			// TaskPool.Go: fork fails (the IO pool forks nothing), `concurrent` is decremented, then the task is
			// offered to the queue. The first decrement after arming is the poller's, inside Go.
			vsys.AtomicHook64 = func(p *int64, delta, result int64) {
				if delta == -1 && atomic.CompareAndSwapInt32(&armed, 1, 2) {
					atomic.StoreInt32(&holding, 1)
					<-rel
				}
			}
			atomic.StoreInt32(&armed, 1)
			_, _ = cb.Write([]byte("b"))
			okH := waitFor(func() bool { return atomic.LoadInt32(&holding) == 1 }, 3*time.Second)
			done := make(chan struct{})
			go func() { g.Stop(); close(done) }()
			okS := false
			if okH {
				okS = waitFor(func() bool {
					time.Sleep(2 * time.Millisecond)
					if atomic.LoadInt32(&closes) < 1 || !stopWaiting() {
						return false
					}
					time.Sleep(15 * time.Millisecond)
					return stopWaiting()
				}, 3*time.Second)
			}
			if okS {
				reached++
				e.Count("ioblock", "attempt-reached")
			} else {
				e.Count("ioblock", "attempt-skipped")
			}
			atomic.StoreInt32(&armed, 3)
			close(rel)
			select {
			case <-done:
			case <-time.After(5 * time.Second):
				if !okS {
					e.Count("ioblock", "hang-in-skipped-attempt")
				}
				hung = tried
			}
			vsys.AtomicHook64 = nil
			_ = cb.Close()
		}
		ret := "nil"
		if hung >= 0 {
			ret = "hang"
			buf := make([]byte, 1<<16)
			buf = buf[:runtime.Stack(buf, true)]
			e.Oracle("c18-hang", "class=unexplained Engine.Stop (EPOLLET, AsyncReadInPoller, default IO task pool) did not return within 5s after the poller, held inside TaskPool.Go while Stop stopped the pool, was released (attempt %d; %d attempt(s) had reached the state: poller in Go, close notification delivered, Stop waiting); %s", hung, reached, summarizeStacks(string(buf)))
		}
		if reached == 0 && hung < 0 {
			// the state was never reached (overloaded machine): nothing is claimed for this case
			e.P("> %s skip=1", ln)
			e.P("R skipped")
			e.Count("ioblock", "case-skipped")
			continue
		}
		e.P("> %s", ln)
		e.P("R ret=%s attempts=%d", ret, attempts)
		e.Key(fmt.Sprintf("ioblock|%s", ret), true)
		e.Count("ioblock", "cases")
	}
}

// runFdLimit: an engine whose connection table is small (nbio.MaxOpenFiles = limit at Start) while every new socket
// of the process gets a descriptor number >= limit (the harness pads the low numbers): dialed and accepted conns do
// not fit the table and are refused at the door by addDialer / addConn ("too many open files"): no open and no close
// notification, DialAsync returns the error, the descriptor is closed, no wgConn count is kept — and Stop returns.
//
//	C <id> fdlimit limit=<n>     O run dials=<d> accepts=<a> stop|shutdown
//	R ret=<nil|err|hang> dialerrs=<d> panics=<n> opens=<n> closes=<n>
func runFdLimit(e *lp.Exec, head string, ops []string) {
	ws := strings.Fields(head)
	limit := atoi(field(ws, "limit"))
	vsys.VirtualAll = false
	e.P("> %s", head)
	e.P("ok")
	for _, ln := range ops {
		ow := strings.Fields(ln)
		if ow[0] != "O" || ow[1] != "run" {
			e.P("> %s", ln)
			e.P("R -")
			continue
		}
		dials, accepts, graceful := atoi(field(ow, "dials")), atoi(field(ow, "accepts")), ow[len(ow)-1] == "shutdown"
		runtime.GC()
		time.Sleep(10 * time.Millisecond)
		g0 := runtime.NumGoroutine()
		fd0, fdn0 := countFDs()
		// pad the low descriptor numbers
		var pad []int
		for {
			fd, err := syscall.Open("/dev/null", syscall.O_RDONLY, 0)
			if err != nil {
				panic(err)
			}
			pad = append(pad, fd)
			if fd >= limit+64 {
				break
			}
		}
		// the numbers just below the top of the padding are given back: the engine's own descriptors (epoll, eventfd,
		// listener) and the sockets of the case land there, all >= limit
		for len(pad) > 0 && pad[len(pad)-1] >= limit {
			_ = syscall.Close(pad[len(pad)-1])
			pad = pad[:len(pad)-1]
		}
		var opens, closes, panics, dialErrs int32
		nbio.MaxOpenFiles = limit
		g := nbio.NewEngine(nbio.Config{Network: "tcp", Addrs: []string{"127.0.0.1:0"}, NPoller: 1})
		g.OnOpen(func(c *nbio.Conn) { atomic.AddInt32(&opens, 1) })
		g.OnClose(func(c *nbio.Conn, err error) { atomic.AddInt32(&closes, 1) })
		g.OnData(func(c *nbio.Conn, data []byte) {})
		err := g.Start()
		nbio.MaxOpenFiles = 19999
		if err != nil {
			panic(err)
		}
		sink, err := net.Listen("tcp", "127.0.0.1:0")
		if err != nil {
			panic(err)
		}
		var sinkCs []net.Conn
		var smu sync.Mutex
		go func() {
			for {
				c, err := sink.Accept()
				if err != nil {
					return
				}
				smu.Lock()
				sinkCs = append(sinkCs, c)
				smu.Unlock()
			}
		}()
		panicText := ""
		for i := 0; i < dials; i++ {
			func() {
				defer func() {
					if r := recover(); r != nil {
						atomic.AddInt32(&panics, 1)
						panicText = fmt.Sprint(r)
					}
				}()
				if err := g.DialAsync("tcp", sink.Addr().String(), func(c *nbio.Conn, err error) {}); err != nil {
					atomic.AddInt32(&dialErrs, 1)
				}
			}()
		}
		var clients []net.Conn
		for i := 0; i < accepts; i++ {
			if c, err := net.DialTimeout("tcp", g.Addrs[0], 2*time.Second); err == nil {
				clients = append(clients, c)
			}
		}
		notClosed := 0
		for _, c := range clients {
			_ = c.SetReadDeadline(time.Now().Add(2 * time.Second))
			if _, err := c.Read(make([]byte, 1)); err != nil {
				if ne, ok := err.(net.Error); ok && ne.Timeout() {
					notClosed++
				}
			}
		}
		if notClosed > 0 {
			e.Oracle("c18-close-count", "fdlimit: %d of %d accepted connections whose descriptor does not fit the engine's table (fd >= MaxOpenFiles = %d) were not closed", notClosed, len(clients), limit)
		}
		if n := atomic.LoadInt32(&panics); n > 0 {
			e.Oracle("c18-fds", "fdlimit: DialAsync panicked %d time(s) (%s) on a descriptor that does not fit the engine's table (fd >= MaxOpenFiles = %d): the refusal path did not close the descriptor / give back its wgConn count", n, panicText, limit)
		}
		ret := "nil"
		done := make(chan error, 1)
		go func() {
			if graceful {
				ctx, cancel := context.WithTimeout(context.Background(), 8*time.Second)
				defer cancel()
				done <- g.Shutdown(ctx)
			} else {
				g.Stop()
				done <- nil
			}
		}()
		select {
		case err := <-done:
			if err != nil {
				ret = "err"
				e.Oracle("c18-hang", "class=unexplained fdlimit: Shutdown with a live context returned %v after %d dials / %d accepts beyond the table limit (opens=%d closes=%d)", err, dials, accepts, atomic.LoadInt32(&opens), atomic.LoadInt32(&closes))
			}
		case <-time.After(10 * time.Second):
			ret = "hang"
			e.Oracle("c18-hang", "class=unexplained fdlimit: Stop did not return within 10s after %d dials / %d accepts beyond the table limit (fd >= MaxOpenFiles = %d; dial errors %d, panics %d, opens=%d closes=%d)", dials, accepts, limit, atomic.LoadInt32(&dialErrs), atomic.LoadInt32(&panics), atomic.LoadInt32(&opens), atomic.LoadInt32(&closes))
		}
		_ = sink.Close()
		smu.Lock()
		for _, c := range sinkCs {
			_ = c.Close()
		}
		smu.Unlock()
		for _, c := range clients {
			_ = c.Close()
		}
		for _, fd := range pad {
			_ = syscall.Close(fd)
		}
		if ret == "nil" {
			if ok := waitFor(func() bool { runtime.Gosched(); return runtime.NumGoroutine() <= g0 }, 3*time.Second); !ok {
				buf := make([]byte, 1<<16)
				buf = buf[:runtime.Stack(buf, true)]
				e.Oracle("c18-goroutines", "fdlimit: before start %d, after stop %d; %s", g0, runtime.NumGoroutine(), summarizeStacks(string(buf)))
			}
			runtime.GC()
			if okf := waitFor(func() bool { n, _ := countFDs(); return n <= fd0 }, 2*time.Second); !okf {
				n, names := countFDs()
				e.Oracle("c18-fds", "fdlimit: before start %d, after stop %d; new: %s", fd0, n, strings.Join(diffNames(fdn0, names), ","))
			}
		}
		e.P("> %s", ln)
		e.P("R ret=%s dialerrs=%d panics=%d opens=%d closes=%d", ret, atomic.LoadInt32(&dialErrs), atomic.LoadInt32(&panics), atomic.LoadInt32(&opens), atomic.LoadInt32(&closes))
		e.Key(fmt.Sprintf("fdlimit|%d|%d|%d|%v|%s", limit, dials, accepts, graceful, ret), true)
		e.Count("fdlimit", "cases")
	}
}

func diffNames(a, b []string) []string {
	m := map[string]int{}
	for _, x := range a {
		m[x[strings.Index(x, "->"):]]++
	}
	var out []string
	for _, x := range b {
		k := x[strings.Index(x, "->"):]
		if m[k] > 0 {
			m[k]--
		} else {
			out = append(out, x)
		}
	}
	return out
}

// summarizeStacks keeps the top function of every goroutine that is not the harness's own.
func summarizeStacks(s string) string {
	var out []string
	for _, g := range strings.Split(s, "\n\n") {
		lines := strings.Split(g, "\n")
		if len(lines) < 2 {
			continue
		}
		top := ""
		for _, l := range lines[1:] {
			if strings.Contains(l, "lesismal/nbio") && !strings.HasPrefix(l, "\t") {
				top = strings.TrimSpace(l)
				break
			}
		}
		if top != "" {
			out = append(out, top)
		}
	}
	sort.Strings(out)
	if len(out) > 12 {
		out = out[:12]
	}
	return strings.Join(out, " | ")
}

func field(ws []string, k string) string {
	for _, w := range ws {
		if strings.HasPrefix(w, k+"=") {
			return w[len(k)+1:]
		}
	}
	return ""
}

func atoi(s string) int { n, _ := strconv.Atoi(s); return n }

func exec(e *lp.Exec) {
	logging.SetLevel(logging.LevelNone)
	nbio.MaxOpenFiles = 19999
	var head string
	var ops []string
	flush := func() {
		if head == "" {
			return
		}
		if strings.Contains(head, " sim") {
			runSim(e, head, ops)
		} else if strings.Contains(head, " fdlimit") {
			runFdLimit(e, head, ops)
		} else if strings.Contains(head, " ioblock") {
			runIOBlock(e, head, ops)
		} else if strings.Contains(head, " hsim") {
			runHsim(e, head, ops)
		} else if strings.Contains(head, " lmux") {
			runLmux(e, head, ops)
		} else {
			runReal(e, head, ops)
		}
		head, ops = "", nil
	}
	for e.In.Scan() {
		ln := strings.TrimSpace(e.In.Text())
		if ln == "" {
			continue
		}
		if strings.HasPrefix(ln, "C ") {
			flush()
			head = ln
			continue
		}
		// our own annotations are ignored on input
		var keep []string
		for _, w := range strings.Fields(ln) {
			if strings.HasPrefix(w, "opened=") || strings.HasPrefix(w, "closed=") {
				continue
			}
			keep = append(keep, w)
		}
		ops = append(ops, strings.Join(keep, " "))
	}
	flush()
}

func main() { lp.Main(gen, exec) }
