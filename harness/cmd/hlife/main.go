// hlife: connection lifecycle harness (C03) — the REAL engine (AddConn / acceptor / DialAsync / poller loop /
// Close from many goroutines / deadlines / write errors / Stop) on virtual descriptors, plus real loopback
// sockets for accepted and really dialed connections.
//
//	C <mode lt|et|os> <np> <maxwb> <listener 0|1>
//	add <id> <tcp|unix>            AddConn of a conn around a virtual descriptor
//	addc <id> <tcp|unix>           … whose open notification closes the conn (Close from inside OnOpen)
//	dialx <id>                     DialAsync whose epoll registration fails (EEXIST): the error return is the report
//	dialrace <id> <ms>             DialAsync with a dial timeout whose connect completes (EPOLLOUT, SO_ERROR 0) while DialAsync is
//	                               still between registering the descriptor and arming the timeout; then the timeout elapses
//	addx <id> <tcp|unix>           AddConn of a conn that was closed before (Close, then AddConn)
//	dialc <id> <inprog|now> 0      DialAsync whose success callback closes the conn (Close inside the dial callback)
//	addcr <id> <id2>               conn id is closed inside its open notification; conn id2 gets its descriptor number and is
//	                               added before the AddConn of id goes on
//	hupbusy <id> <p1> <p2>         data event, then — with AsyncReadInPoller while the read task is still inside the data
//	                               callback of p1 — more data, the peer's FIN and the IN|RDHUP event; then the task goes on
//	addudp <id>                    UDP listener around a virtual descriptor
//	dgram <id> <addr> <payload>    datagram queued on the listener (sessions get ids 100*id+k in order of opening)
//	dial <id> <inprog|now|refused> <timeout ms>   DialAsync; connect(2) is answered EINPROGRESS / 0 / ECONNREFUSED
//	dev <id> <flags> <soerr 0|refused|unreach>    event for a dialing conn, SO_ERROR scripted
//	ev <id> <flags> <answers>      event batch; answers (ok|again|fail|intr, comma separated, - = none) script the
//	                               write-like syscalls of the flush it triggers
//	push <id> <payload> | eof <id> | rderr <id>
//	w <id> <n> <answer> | wv <id> <n1+n2..> <answer> | sf <id> <n> <answers>   Write / Writev / Sendfile
//	close <id> <k> <e1,e2,..>      k goroutines released from a barrier; e = 0: Close(), e > 0: CloseWithError(u<e>)
//	dl <id> <r|w|rw> <ms> | wait <id>   deadlines; wait = until the timer has closed the conn
//	x <id>                         Execute(job)
//	ops <id>                       Write, Writev, Sendfile, Execute on a conn whose Close has returned
//	acc <id> | cclose <id> | creset <id>   real loopback client: accepted conn, client closes / resets
//	rdial <id> <ok|refused>        DialAsync against a real listener / a closed port
//	stop
//
// exec annotates what only the run can know (`winner=` of concurrent closers, `cause=` of a timer close) and prints
//
//	R <op> ret=<..> open=[ids] close=[id:err,..] dial=[id:err,..] c=<0|1:err> left=<queued bytes> items=<n> log=<syscalls on the fd during ops>
//
// Direct oracles: c03-close-once, c03-first-cause, c03-closed-ops, c03-dial, c03-fd.
package main

import (
	"errors"
	"fmt"
	"io"
	"net"
	"os"
	"runtime"
	"sort"
	"strconv"
	"strings"
	"sync"
	"sync/atomic"
	"syscall"
	"time"

	"harness/internal/lp"

	"github.com/lesismal/nbio"
	"github.com/lesismal/nbio/logging"
	"github.com/lesismal/nbio/vsys"
)

const (
	evIn    = 0x1
	evOut   = 0x4
	evErr   = 0x8
	evHup   = 0x10
	evRdhup = 0x2000
)

type conn struct {
	id      int
	kind    string // add udp sess dial acc rdial
	c       *nbio.Conn
	fd      int
	v       *vsys.VFD
	opens   int
	closes  []string
	dials   []string
	parent  *conn
	addr    string
	peer    net.Conn // real client of an accepted conn
	ln      net.Listener
	dialOK  bool // the scripted/real kernel says the connect succeeded
	flipped bool
	jobs    int
	preOpen bool          // a close notification arrived before the open notification
	held    bool          // the (closed) descriptor number is kept occupied so that nothing else can get it
	cio     bool          // close the conn from inside its open notification
	eof     bool          // the peer's FIN is in the (virtual) receive queue
	leaked  bool          // opened without a close notification (reported): Stop would hang
	soSet   bool          // the kernel's verdict on the connect (SO_ERROR) is fixed: the first dev decides
	hold    chan struct{} // the data callback of this conn waits here (hupbusy)
	addErr  error
	reuseAs *conn         // addcr: after the Close inside the open notification this new conn takes the descriptor number
	inData  chan struct{} // … after it said so here
	soe     int
}

type sess struct {
	small   bool  // the engine's connection table is smaller than any descriptor number a conn can get (MaxOpenFiles)
	async   bool  // AsyncReadInPoller
	tasks   int32 // read tasks handed to the IO executor and not finished yet
	mode    string
	np      int
	maxwb   int
	g       *nbio.Engine
	mu      sync.Mutex
	conns   map[int]*conn
	byPtr   map[*nbio.Conn]*conn
	byFd    map[int]*conn // dialing conns, until their *Conn is known
	opens   []string
	closes  []string
	dials   []string
	orc     []string
	nsess   map[int]int
	accQ    []*conn // accepted conns waiting for their OnOpen
	addrs   []string
	fds0    map[int]bool
	stopped bool
	file    *os.File

	warm      bool // the warm-up connection of the listener is in flight
	warmOpen  int
	warmClose int
	warmConn  *nbio.Conn
}

var cur *sess
var curMu sync.Mutex

func getCur() *sess { curMu.Lock(); defer curMu.Unlock(); return cur }

var userErrs = map[int]error{}

func userErr(k int) error {
	if e, ok := userErrs[k]; ok {
		return e
	}
	e := fmt.Errorf("u%d", k)
	userErrs[k] = e
	return e
}

func errClass(err error) string {
	switch {
	case err == nil:
		return "nil"
	case errors.Is(err, io.EOF):
		return "eof"
	case errors.Is(err, net.ErrClosed):
		return "closed"
	case errors.Is(err, nbio.ErrReadTimeout):
		return "rtimeout"
	case errors.Is(err, nbio.ErrWriteTimeout):
		return "wtimeout"
	case errors.Is(err, nbio.ErrDialTimeout):
		return "dtimeout"
	case errors.Is(err, nbio.ErrOverflow):
		return "overflow"
	case errors.Is(err, syscall.EPIPE):
		return "epipe"
	case errors.Is(err, syscall.ECONNREFUSED):
		return "refused"
	case errors.Is(err, syscall.ECONNRESET):
		return "reset"
	case errors.Is(err, syscall.EHOSTUNREACH):
		return "unreach"
	case errors.Is(err, syscall.EAGAIN):
		return "again"
	case errors.Is(err, syscall.EBADF):
		return "ebadf"
	case errors.Is(err, syscall.EEXIST):
		return "eexist"
	}
	if s := err.Error(); len(s) > 1 && s[0] == 'u' {
		if _, e := strconv.Atoi(s[1:]); e == nil {
			return s
		}
	}
	return "other"
}

func parseFlags(s string) (uint32, bool) {
	var fl uint32
	for _, t := range strings.Split(s, "+") {
		switch t {
		case "in":
			fl |= evIn
		case "out":
			fl |= evOut
		case "err":
			fl |= evErr
		case "hup":
			fl |= evHup
		case "rdhup":
			fl |= evRdhup
		default:
			return 0, false
		}
	}
	return fl, true
}

func parseAns(s string) ([]vsys.Ans, bool) {
	if s == "-" {
		return nil, true
	}
	var out []vsys.Ans
	for _, t := range strings.Split(s, ",") {
		switch t {
		case "ok":
			out = append(out, vsys.Ans{N: 1 << 30})
		case "again":
			out = append(out, vsys.Ans{Err: syscall.EAGAIN})
		case "intr":
			out = append(out, vsys.Ans{Err: syscall.EINTR})
		case "fail":
			out = append(out, vsys.Ans{Err: syscall.EPIPE})
		default:
			return nil, false
		}
	}
	return out, true
}

func fdCensus() map[int]bool {
	m := map[int]bool{}
	ents, err := os.ReadDir("/proc/self/fd")
	if err != nil {
		return m
	}
	for _, e := range ents {
		if n, err := strconv.Atoi(e.Name()); err == nil {
			m[n] = true
		}
	}
	return m
}

// ---------------------------------------------------------------- session

func newSess(mode string, np, maxwb int, listen, async bool) (*sess, error) {
	s := &sess{async: async, mode: mode, np: np, maxwb: maxwb, conns: map[int]*conn{}, byPtr: map[*nbio.Conn]*conn{}, byFd: map[int]*conn{}, nsess: map[int]int{}}
	s.fds0 = fdCensus()
	conf := nbio.Config{NPoller: np, MaxWriteBufferSize: maxwb, AsyncReadInPoller: async}
	if listen {
		conf.Network, conf.Addrs = "tcp", []string{"127.0.0.1:0"}
	}
	switch mode {
	case "et":
		conf.EpollMod = nbio.EPOLLET
	case "os":
		conf.EpollMod = nbio.EPOLLET
		conf.EPOLLONESHOT = nbio.EPOLLONESHOT
	}
	g := nbio.NewEngine(conf)
	s.g = g
	g.OnOpen(func(nc *nbio.Conn) { s.onOpen(nc) })
	g.OnClose(func(nc *nbio.Conn, err error) { s.onClose(nc, err) })
	g.OnData(func(nc *nbio.Conn, data []byte) { s.onData(nc, data) })
	curMu.Lock()
	cur = s
	curMu.Unlock()
	if err := g.Start(); err != nil {
		return nil, err
	}
	if async {
		// the engine's own IO task pool, wrapped only to know when the read tasks are done
		orig := g.IOExecute
		g.IOExecute = func(f func(*[]byte)) {
			atomic.AddInt32(&s.tasks, 1)
			orig(func(b *[]byte) {
				defer atomic.AddInt32(&s.tasks, -1)
				f(b)
			})
		}
	}
	s.addrs = g.Addrs
	// A Stop that overtakes the start of a poller / acceptor goroutine never terminates it (the loops reset
	// p.shutdown when they start): make sure every one of them is running before the case begins.
	for i := 0; i < np; i++ {
		vsys.InjectTimeout(g.VerifEpfd(i), nil, 5*time.Second)
	}
	if listen {
		s.warm = true
		pc, err := net.Dial("tcp", s.addrs[0])
		if err != nil {
			return nil, err
		}
		for i := 0; i < 3000; i++ {
			s.mu.Lock()
			n := s.warmOpen
			s.mu.Unlock()
			if n > 0 {
				break
			}
			time.Sleep(time.Millisecond)
		}
		_ = pc.Close()
		for i := 0; i < 3000; i++ {
			s.mu.Lock()
			n := s.warmClose
			s.mu.Unlock()
			if n > 0 {
				break
			}
			time.Sleep(time.Millisecond)
		}
		s.mu.Lock()
		s.warm = false
		s.mu.Unlock()
		s.fds0 = fdCensus()
	}
	return s, nil
}

func (s *sess) onOpen(nc *nbio.Conn) {
	s.mu.Lock()
	defer s.mu.Unlock()
	if s.warm && s.warmConn == nil {
		s.warmConn = nc
		s.warmOpen++
		return
	}
	ci := s.byPtr[nc]
	if ci == nil {
		switch nc.VerifType() {
		case nbio.ConnTypeUDPClientFromRead:
			// a new UDP session: its listener is the conn owning the descriptor
			var par *conn
			for _, p := range s.conns {
				if p.kind == "udp" && p.fd == nc.VerifFd() {
					par = p
				}
			}
			if par == nil {
				s.orc = append(s.orc, "c03-close-once open notification for an unknown UDP session")
				return
			}
			s.nsess[par.id]++
			ci = &conn{id: 100*par.id + s.nsess[par.id], kind: "sess", c: nc, fd: par.fd, v: par.v, parent: par, addr: nc.RemoteAddr().String()}
		default:
			// an accepted conn (real socket)
			if len(s.accQ) == 0 {
				s.orc = append(s.orc, "c03-close-once open notification for an unknown conn")
				return
			}
			ci = s.accQ[0]
			s.accQ = s.accQ[1:]
			ci.c = nc
			ci.fd = nc.VerifFd()
		}
		s.conns[ci.id] = ci
		s.byPtr[nc] = ci
	}
	ci.opens++
	if ci.opens > 1 {
		s.orc = append(s.orc, fmt.Sprintf("c03-close-once conn %d got %d open notifications", ci.id, ci.opens))
	}
	s.opens = append(s.opens, strconv.Itoa(ci.id))
	if ci.cio {
		s.mu.Unlock()
		_ = nc.Close()
		if r := ci.reuseAs; r != nil {
			// the kernel hands the number out again at once: a new conn (another accept, another AddConn) gets it and is
			// added while the first addConn is still between its open notification and its table statement
			var extra []int
			for i := 0; i < 256; i++ {
				nfd, nv := vsys.NewVFD()
				if nfd == ci.fd {
					r.fd, r.v = nfd, nv
					break
				}
				extra = append(extra, nfd)
			}
			for _, x := range extra {
				vsys.Forget(x)
				_ = syscall.Close(x)
			}
			if r.v != nil {
				typ := nbio.ConnTypeTCP
				r.c = nbio.VerifNewConn(r.fd, typ)
				s.mu.Lock()
				s.conns[r.id] = r
				s.byPtr[r.c] = r
				s.mu.Unlock()
				_, r.addErr = s.g.AddConn(r.c)
			}
		}
		s.mu.Lock()
	}
}

// onData: nothing may be delivered on a conn after its close notification (a closed UDP session must be gone from its
// listener's table: the next datagram of that remote opens a new session)
func (s *sess) onData(nc *nbio.Conn, data []byte) {
	s.mu.Lock()
	defer s.mu.Unlock()
	if nc == s.warmConn {
		return
	}
	ci := s.byPtr[nc]
	if ci == nil {
		return
	}
	if hold := ci.hold; hold != nil {
		// hupbusy: the read task stays inside this callback until the op has delivered the hang-up event
		ci.hold = nil
		in := ci.inData
		s.mu.Unlock()
		in <- struct{}{}
		select {
		case <-hold:
		case <-time.After(20 * time.Second):
		}
		s.mu.Lock()
	}
	if len(ci.closes) > 0 {
		s.orc = append(s.orc, fmt.Sprintf("c03-close-once conn %d (%s): %d bytes handed to the data callback after its close notification (%s)", ci.id, ci.kind, len(data), ci.closes[0]))
	} else if closed, _ := nc.IsClosed(); closed && ci.kind == "sess" {
		s.orc = append(s.orc, fmt.Sprintf("c03-close-once session %d: %d bytes attributed to a session that is already closed", ci.id, len(data)))
	}
}

func (s *sess) lookup(nc *nbio.Conn) *conn {
	ci := s.byPtr[nc]
	if ci == nil {
		if d := s.byFd[nc.VerifFd()]; d != nil && d.c == nil {
			d.c = nc
			s.byPtr[nc] = d
			ci = d
		}
	}
	return ci
}

func (s *sess) onClose(nc *nbio.Conn, err error) {
	s.mu.Lock()
	defer s.mu.Unlock()
	if nc == s.warmConn {
		s.warmClose++
		return
	}
	ci := s.lookup(nc)
	if ci == nil {
		s.orc = append(s.orc, "c03-close-once close notification for a conn that was never opened: "+errClass(err))
		return
	}
	ec := errClass(err)
	ci.closes = append(ci.closes, ec)
	if len(ci.closes) > 1 {
		s.orc = append(s.orc, fmt.Sprintf("c03-close-once conn %d got %d close notifications (%s)", ci.id, len(ci.closes), strings.Join(ci.closes, ",")))
	}
	switch ci.kind {
	case "dial", "rdial":
		if len(ci.dials) == 0 {
			s.orc = append(s.orc, fmt.Sprintf("c03-dial conn %d: close notification (%s) before the dial callback", ci.id, ec))
		}
	default:
		if ci.opens == 0 {
			ci.preOpen = true
			s.orc = append(s.orc, fmt.Sprintf("c03-close-once conn %d: close notification (%s) before its open notification", ci.id, ec))
		}
	}
	s.closes = append(s.closes, fmt.Sprintf("%d:%s", ci.id, ec))
}

func (s *sess) onDial(id int, nc *nbio.Conn, err error) {
	s.mu.Lock()
	defer s.mu.Unlock()
	ci := s.conns[id]
	if ci == nil {
		return
	}
	if ci.c == nil && nc != nil {
		ci.c = nc
		s.byPtr[nc] = ci
	}
	ec := errClass(err)
	ci.dials = append(ci.dials, ec)
	if len(ci.dials) > 1 {
		s.orc = append(s.orc, fmt.Sprintf("c03-dial conn %d: dial callback invoked %d times (%s)", ci.id, len(ci.dials), strings.Join(ci.dials, ",")))
	}
	if err == nil && !ci.dialOK {
		s.orc = append(s.orc, fmt.Sprintf("c03-dial conn %d: success reported but the connect did not succeed", ci.id))
	}
	s.dials = append(s.dials, fmt.Sprintf("%d:%s", ci.id, ec))
	if err == nil && ci.cio && nc != nil {
		// Close from inside the success callback: the dial is over, the close path must not report it again
		s.mu.Unlock()
		_ = nc.Close()
		s.mu.Lock()
	}
}

// settle waits until everything queued on the engine's async queue so far has run.
func (s *sess) settle() {
	// three rounds: a callback that runs from the queue may itself queue a notification (a dial callback that closes the
	// conn queues the close notification) — what it queued runs before the next round's marker
	for round := 0; round < 3; round++ {
		ch := make(chan struct{})
		s.g.Async(func() { close(ch) })
		select {
		case <-ch:
		case <-time.After(60 * time.Second):
			return
		}
	}
}

// kernelFlags: what the kernel really reports of the scripted flags — EPOLLRDHUP only if the registration asked for it
// (EPOLLERR and EPOLLHUP are reported regardless of the interest set).
func (s *sess) kernelFlags(ci *conn, fl uint32) uint32 {
	if ci.v != nil && fl&evRdhup != 0 {
		if _, _, events := ci.v.CtlLog(); events&evRdhup == 0 {
			fl &^= evRdhup
		}
	}
	return fl
}

// finSeen: after an event that carried the peer's FIN (scripted IN|RDHUP with the FIN queued) the conn must be closed.
func (s *sess) finSeen(e *lp.Exec, ci *conn, scripted uint32, ret string) {
	if ret != "nil" || !ci.eof || scripted&evRdhup == 0 || scripted&evIn == 0 {
		return
	}
	if !s.isClosed(ci) {
		e.Oracle("c03-close-once", "conn %d (%s): the peer closed (FIN delivered with readiness) and the conn got no close notification — is EPOLLRDHUP in its interest set?", ci.id, ci.kind)
	}
}

func (s *sess) inject(ci *conn, fl uint32) bool {
	ok := s.injectNoWait(ci, fl)
	s.waitTasks()
	return ok
}

// injectNoWait returns when the poller has handled the batch; read tasks it started may still run
func (s *sess) injectNoWait(ci *conn, fl uint32) bool {
	epfd := s.g.VerifEpfd(ci.fd % s.np)
	return vsys.InjectPatient(epfd, []syscall.EpollEvent{{Fd: int32(ci.fd), Events: fl}}, 60*time.Second)
}

// waitTasks: AsyncReadInPoller — the read tasks started so far have returned (virtual descriptors: a task only ends
// when it has nothing left to do; real sockets are waited for by their ops)
func (s *sess) waitTasks() {
	if !s.async {
		return
	}
	for i := 0; i < 20000 && atomic.LoadInt32(&s.tasks) != 0; i++ {
		time.Sleep(500 * time.Microsecond)
	}
}

func (s *sess) connState(ci *conn) (bool, string, int, int) {
	if ci == nil || ci.c == nil {
		return false, "nil", 0, 0
	}
	closed, cerr := ci.c.VerifCloseState()
	st := ci.c.VerifState()
	if closed {
		return closed, errClass(cerr), 0, 0 // c.left is not maintained past the teardown
	}
	return closed, errClass(cerr), st.Left, len(st.Items)
}

// reserve keeps the number of every virtual descriptor nbio has closed occupied (a /dev/null placeholder), so that a
// later real socket cannot get it while the shim still treats the number as virtual — which is what lets the
// harness see any syscall nbio would issue on a descriptor after closing it.
func (s *sess) reserve() {
	s.mu.Lock()
	defer s.mu.Unlock()
	for _, ci := range s.conns {
		if ci.v == nil || ci.kind == "sess" || ci.held || !ci.v.IsClosed() {
			continue
		}
		ci.held = true
		fd2, err := syscall.Open("/dev/null", syscall.O_RDWR, 0)
		if err != nil {
			continue
		}
		if fd2 != ci.fd {
			_ = syscall.Dup2(fd2, ci.fd)
			_ = syscall.Close(fd2)
		}
	}
}

func (s *sess) result(e *lp.Exec, what string, ret string, ci *conn, logd int) {
	s.waitTasks()
	s.settle()
	s.reserve()
	s.mu.Lock()
	sort.Strings(s.closes) // Stop and a closing UDP listener walk tables/maps: order is not part of the property
	sort.Strings(s.dials)  // likewise the dial callbacks of several pending dials ended by one Stop
	opens, closes, dials := strings.Join(s.opens, ","), strings.Join(s.closes, ","), strings.Join(s.dials, ",")
	s.opens, s.closes, s.dials = nil, nil, nil
	orc := s.orc
	s.orc = nil
	s.mu.Unlock()
	closed, ec, left, items := s.connState(ci)
	cl := "0"
	if closed {
		cl = "1:" + ec
	}
	// the registered interest set without the writing bit (the hang-up part never changes across re-arms): what the
	// kernel will report for this descriptor — EPOLLRDHUP only if it was asked for
	im := "-"
	if ci != nil && ci.v != nil && ci.c != nil && ci.kind != "sess" && !closed {
		if _, reg, events := ci.v.CtlLog(); reg {
			im = fmt.Sprintf("%x", events&^evOut)
		}
	}
	e.P("R %s ret=%s open=[%s] close=[%s] dial=[%s] c=%s left=%d items=%d log=%d im=%s", what, ret, opens, closes, dials, cl, left, items, logd, im)
	for _, o := range orc {
		i := strings.Index(o, " ")
		e.Oracle(o[:i], "%s", o[i+1:])
	}
}

// firstCause checks, for an op during which the conn's closed flag flipped, that the reported error is
// a cause this op could have had (model independent: the op kind alone decides).
func (s *sess) firstCause(e *lp.Exec, ci *conn, wasClosed bool, causes ...string) {
	if ci == nil || ci.c == nil || wasClosed {
		return
	}
	closed, cerr := ci.c.VerifCloseState()
	if !closed {
		return
	}
	s.settle()
	ec := errClass(cerr)
	ok := false
	for _, c := range causes {
		if c == ec {
			ok = true
		}
	}
	s.mu.Lock()
	cb := append([]string(nil), ci.closes...)
	s.mu.Unlock()
	if !ok {
		e.Oracle("c03-first-cause", "conn %d closed with %s, but this step can only close it with one of %v", ci.id, ec, causes)
	}
	if len(cb) == 1 && cb[0] != ec && ci.kind != "udp" {
		e.Oracle("c03-first-cause", "conn %d: close notification says %s, the conn recorded %s", ci.id, cb[0], ec)
	}
}

// waitClosed waits for a close that another goroutine (timer, poller on a real socket) performs: first the flag, then
// the end of the teardown (the descriptor is closed last; a real socket: the notification has arrived).
func (s *sess) waitClosed(ci *conn) {
	for i := 0; i < 3000 && !s.isClosed(ci); i++ {
		time.Sleep(time.Millisecond)
	}
	if !s.isClosed(ci) {
		return
	}
	for i := 0; i < 3000; i++ {
		if ci.v != nil {
			if ci.v.IsClosed() {
				return
			}
		} else {
			s.mu.Lock()
			n := len(ci.closes)
			s.mu.Unlock()
			if n > 0 {
				return
			}
		}
		time.Sleep(time.Millisecond)
	}
}

func (s *sess) isClosed(ci *conn) bool {
	if ci == nil || ci.c == nil {
		return false
	}
	c, _ := ci.c.VerifCloseState()
	return c
}

func (s *sess) finish(e *lp.Exec) {
	if !s.stopped {
		s.stop(e)
	}
	curMu.Lock()
	cur = nil
	curMu.Unlock()
	s.mu.Lock()
	ids := make([]int, 0, len(s.conns))
	for id := range s.conns {
		ids = append(ids, id)
	}
	sort.Ints(ids)
	for _, id := range ids {
		ci := s.conns[id]
		switch ci.kind {
		case "udp":
		case "dial", "rdial":
			if len(ci.dials) != 1 {
				e.Oracle("c03-dial", "conn %d: dial callback invoked %d times by the end of the run", id, len(ci.dials))
			}
			if len(ci.dials) > 0 && ci.dials[0] == "nil" && len(ci.closes) != 1 {
				e.Oracle("c03-close-once", "dialed conn %d: %d close notifications after a successful dial", id, len(ci.closes))
			}
		default:
			if ci.opens == 1 && len(ci.closes) != 1 {
				e.Oracle("c03-close-once", "conn %d (%s): opened once, %d close notifications after Stop", id, ci.kind, len(ci.closes))
			}
		}
		if ci.peer != nil {
			_ = ci.peer.Close()
		}
		if ci.ln != nil {
			_ = ci.ln.Close()
		}
	}
	s.mu.Unlock()
	for _, ci := range s.conns {
		if ci.v != nil && ci.kind != "sess" {
			vsys.Forget(ci.fd)
			if ci.held {
				_ = syscall.Close(ci.fd)
			}
		}
	}
	// descriptor census: everything the case opened is closed again
	var leaked []int
	for i := 0; i < 50; i++ {
		leaked = leaked[:0]
		for fd := range fdCensus() {
			if !s.fds0[fd] {
				leaked = append(leaked, fd)
			}
		}
		if len(leaked) == 0 {
			break
		}
		time.Sleep(2 * time.Millisecond)
	}
	if len(leaked) > 0 {
		sort.Ints(leaked)
		names := []string{}
		for _, fd := range leaked {
			t, _ := os.Readlink(fmt.Sprintf("/proc/self/fd/%d", fd))
			names = append(names, fmt.Sprintf("%d=%s", fd, t))
		}
		e.Oracle("c03-fd", "descriptors left open after Stop: %s", strings.Join(names, " "))
	}
}

func (s *sess) stop(e *lp.Exec) bool {
	s.stopped = true
	done := make(chan struct{})
	go func() { s.g.Stop(); close(done) }()
	if vsys.WaitPatient(done, 5*time.Second) { // 5 s in which this process was scheduled, however long that takes
		return true
	}
	{
		e.Oracle("c03-close-once", "Stop did not return within 5s (a close notification is missing)")
		if os.Getenv("HLIFE_DUMP") != "" {
			buf := make([]byte, 1<<20)
			os.Stderr.Write(buf[:runtime.Stack(buf, true)])
		}
		return false
	}
}

func connectHook(fd int, sa syscall.Sockaddr) {
	s := getCur()
	if s == nil {
		return
	}
	s.mu.Lock()
	defer s.mu.Unlock()
	d := s.byFd[-1]
	if d == nil {
		return // a real dial
	}
	delete(s.byFd, -1)
	v := vsys.Adopt(fd)
	d.fd, d.v = fd, v
	s.byFd[fd] = d
	switch d.addr {
	case "inprog":
		v.ConnectErr = syscall.EINPROGRESS
	case "refused":
		v.ConnectErr = syscall.ECONNREFUSED
	case "regfail":
		v.ConnectErr = syscall.EINPROGRESS
		v.Reg = true // EPOLL_CTL_ADD will fail with EEXIST
	}
}

// ---------------------------------------------------------------- executor

func exec(e *lp.Exec) {
	logging.SetLevel(logging.LevelNone)
	nbio.MaxOpenFiles = 1 << 14
	vsys.VirtualAll = true
	vsys.ConnectHook = connectHook
	vsys.CtlAfterCloseEBADF = true
	tmp, err := os.CreateTemp("", "hlife")
	if err != nil {
		panic(err)
	}
	defer os.Remove(tmp.Name())
	tmp.Write(lp.Pattern(1<<16, 3))
	var s *sess
	var key strings.Builder
	nontrivial := false
	finish := func() {
		if s == nil {
			return
		}
		s.finish(e)
		e.Key(key.String(), nontrivial)
		s = nil
	}
	for e.In.Scan() {
		line := e.In.Text()
		f := strings.Fields(line)
		if len(f) == 0 {
			continue
		}
		if f[0] == "C" {
			finish()
			e.P("> %s", line)
			if len(f) < 5 || len(f) > 7 {
				e.P("bad-op")
				continue
			}
			async := len(f) >= 6 && f[5] == "1"
			small := len(f) == 7 && f[6] == "1"
			if small && f[4] == "1" {
				e.P("bad-op")
				continue
			}
			np, _ := strconv.Atoi(f[2])
			mw, _ := strconv.Atoi(f[3])
			if !(f[1] == "lt" || f[1] == "et" || f[1] == "os") || np <= 0 {
				e.P("bad-op")
				continue
			}
			var err error
			// the table is allocated when the engine is built: every conn of a `small` case finds its descriptor number
			// beyond it (the "too many open files" branches of addConn / addDialer)
			nbio.MaxOpenFiles = 1 << 14
			if small {
				nbio.MaxOpenFiles = 3
			}
			s, err = newSess(f[1], np, mw, f[4] == "1", async)
			nbio.MaxOpenFiles = 1 << 14
			if err == nil {
				s.small = small
			}
			if err != nil {
				e.P("bad-op start %v", err)
				s = nil
				continue
			}
			s.file = tmp
			key.Reset()
			nontrivial = false
			fmt.Fprintf(&key, "%s/%v/%v/%v|", f[1], mw > 0, async, small)
			e.Count("table", map[bool]string{false: "normal", true: "too-small"}[small])
			e.Count("async", fmt.Sprint(async))
			e.Count("mode", f[1])
			e.P("ok")
			continue
		}
		if s == nil || s.stopped {
			e.P("> %s", line)
			e.P("bad-op")
			continue
		}
		id := -1
		if len(f) > 1 {
			id, _ = strconv.Atoi(f[1])
		}
		ci := s.conns[id]
		bad := func() { e.P("> %s", line); e.P("bad-op") }
		if s.small {
			switch f[0] {
			case "addc", "addx", "addcr", "addudp", "dialx", "dialc", "dialrace", "acc", "rdial", "hupbusy", "dgram":
				bad() // these ops need a conn that got into the table
				continue
			}
		}
		switch f[0] {
		case "add", "addc", "addx":
			if len(f) != 3 || ci != nil || (f[2] != "tcp" && f[2] != "unix") {
				bad()
				continue
			}
			fd, v := vsys.NewVFD()
			typ := nbio.ConnTypeTCP
			if f[2] == "unix" {
				typ = nbio.ConnTypeUnix
			}
			ci = &conn{id: id, kind: "add", fd: fd, v: v, c: nbio.VerifNewConn(fd, typ), cio: f[0] == "addc"}
			s.mu.Lock()
			s.conns[id] = ci
			s.byPtr[ci.c] = ci
			s.mu.Unlock()
			if f[0] == "addx" {
				_ = ci.c.Close() // nobody manages the conn yet: no notification
			}
			_, err := s.g.AddConn(ci.c)
			if f[0] == "addx" {
				s.settle()
				s.mu.Lock()
				if ci.opens > 0 && len(ci.closes) == 0 {
					s.orc = append(s.orc, fmt.Sprintf("c03-close-once conn %d: AddConn of a closed conn issued an open notification and no close notification (Stop waits for it forever)", id))
					// keep the run alive: release the wait group the way a close notification would have
					ci.leaked = true
				}
				s.mu.Unlock()
			}
			e.P("> %s", line)
			if f[0] == "addc" {
				s.firstCause(e, ci, false, "nil")
				if s.g.VerifConnAt(fd) == ci.c {
					e.Oracle("c03-close-once", "conn %d: closed from inside its open notification, but AddConn left it in the fd table", id)
				}
			}
			s.result(e, f[0], errClass(err), ci, 0)
			e.Count("conns", f[0]+"-"+f[2])
			key.WriteString("A" + f[0][3:] + ",")
		case "addcr":
			// addcr <id> <id2>: conn id is closed inside its open notification and conn id2 takes its descriptor number and
			// is added before the first addConn goes on
			id2, _ := strconv.Atoi(f[len(f)-1])
			if len(f) != 3 || ci != nil || s.conns[id2] != nil || id2 == id {
				bad()
				continue
			}
			{
				fd, v := vsys.NewVFD()
				ci = &conn{id: id, kind: "add", fd: fd, v: v, c: nbio.VerifNewConn(fd, nbio.ConnTypeTCP), cio: true}
				r := &conn{id: id2, kind: "add"}
				ci.reuseAs = r
				s.mu.Lock()
				s.conns[id] = ci
				s.byPtr[ci.c] = ci
				s.mu.Unlock()
				_, err := s.g.AddConn(ci.c)
				e.P("> %s", line)
				s.firstCause(e, ci, false, "nil")
				if r.c == nil {
					e.Oracle("c03-fd", "addcr: the descriptor number did not come back")
				} else if closed, _ := r.c.VerifCloseState(); r.addErr != nil || closed {
					e.Oracle("c03-close-once", "conn %d: a new conn on a descriptor number that was just released was refused / closed (%s) because the AddConn of the closed conn %d was still running", id2, errClass(r.addErr), id)
				} else if s.g.VerifConnAt(r.fd) != r.c {
					e.Oracle("c03-close-once", "conn %d: open and registered, but no longer in the engine's descriptor table — the AddConn of the closed conn %d overwrote / cleared its entry: its events are dropped (no data, no close notification)", id2, id)
				}
				s.result(e, "addcr", errClass(err), r, 0)
				key.WriteString("Acr,")
				nontrivial = true
			}
		case "addudp":
			if len(f) != 2 || ci != nil {
				bad()
				continue
			}
			fd, v := vsys.NewVFD()
			ci = &conn{id: id, kind: "udp", fd: fd, v: v, c: nbio.VerifNewUDPServer(fd)}
			s.mu.Lock()
			s.conns[id] = ci
			s.byPtr[ci.c] = ci
			s.mu.Unlock()
			_, err := s.g.AddConn(ci.c)
			e.P("> %s", line)
			s.result(e, "addudp", errClass(err), ci, 0)
			e.Count("conns", "udp")
			key.WriteString("U,")
		case "dgram":
			if len(f) != 4 || ci == nil || ci.kind != "udp" {
				bad()
				continue
			}
			p, _ := strconv.Atoi(f[2])
			ci.v.PushDgram(lp.Payload(f[3]), &syscall.SockaddrInet4{Addr: [4]byte{127, 0, 0, 1}, Port: p})
			e.P("> %s", line)
			s.result(e, "dgram", "nil", ci, 0)
		case "dialrace":
			if len(f) != 3 || ci != nil {
				bad()
				continue
			}
			ms, _ := strconv.Atoi(f[2])
			ci = &conn{id: id, kind: "dial", addr: "inprog", dialOK: true}
			s.mu.Lock()
			s.conns[id] = ci
			s.byFd[-1] = ci
			s.mu.Unlock()
			myid := id
			fired := false
			vsys.CtlHook = func(fd, op int, events uint32) {
				if fired || op != syscall.EPOLL_CTL_ADD || fd != ci.fd {
					return
				}
				fired = true
				// the kernel completes the connect right now: the poller sees EPOLLOUT with SO_ERROR 0 before DialAsync
				// gets to its next statement
				s.inject(ci, evOut)
			}
			err := s.g.DialAsyncTimeout("tcp", "127.0.0.1:9", time.Duration(ms)*time.Millisecond, func(nc *nbio.Conn, err error) { s.onDial(myid, nc, err) })
			vsys.CtlHook = nil
			s.mu.Lock()
			if ci.c == nil && ci.fd > 0 {
				if nc := s.g.VerifConnAt(ci.fd); nc != nil {
					ci.c = nc
					s.byPtr[nc] = ci
				}
			}
			s.mu.Unlock()
			// let the dial timeout elapse: it must not touch an established conn
			time.Sleep(time.Duration(ms+30) * time.Millisecond)
			if ci.c != nil {
				if closed, cerr := ci.c.VerifCloseState(); closed {
					s.waitClosed(ci)
					e.Oracle("c03-first-cause", "conn %d: connected (callback reported success), then closed with %s by the dial timeout", id, errClass(cerr))
				}
			}
			e.P("> %s", line)
			s.result(e, "dialrace", errClass(err), ci, 0)
			e.Count("conns", "dial-race")
			key.WriteString("Dr,")
			nontrivial = true
		case "dial", "dialx", "dialc":
			closeInCb := f[0] == "dialc"
			if closeInCb {
				if len(f) != 4 || (f[2] != "inprog" && f[2] != "now") || f[3] != "0" {
					bad()
					continue
				}
				f = []string{"dial", f[1], f[2], f[3]}
			}
			if f[0] == "dialx" {
				if len(f) != 2 {
					bad()
					continue
				}
				f = []string{"dial", f[1], "regfail", "0"}
			}
			if len(f) != 4 || ci != nil || (f[2] != "inprog" && f[2] != "now" && f[2] != "refused" && f[2] != "regfail") {
				bad()
				continue
			}
			ms, _ := strconv.Atoi(f[3])
			ci = &conn{id: id, kind: "dial", addr: f[2], dialOK: f[2] == "now", cio: closeInCb}
			s.mu.Lock()
			s.conns[id] = ci
			s.byFd[-1] = ci
			s.mu.Unlock()
			myid := id
			err := s.g.DialAsyncTimeout("tcp", "127.0.0.1:9", time.Duration(ms)*time.Millisecond, func(nc *nbio.Conn, err error) { s.onDial(myid, nc, err) })
			s.mu.Lock()
			if ci.c == nil && ci.fd > 0 {
				if nc := s.g.VerifConnAt(ci.fd); nc != nil {
					ci.c = nc
					s.byPtr[nc] = ci
				}
			}
			if err != nil {
				// the error return is the (one) report of this dial
				ci.dials = append(ci.dials, errClass(err))
				if len(ci.dials) > 1 {
					s.orc = append(s.orc, fmt.Sprintf("c03-dial conn %d: DialAsync returned an error (%s) AND the dial callback was invoked (%s): the outcome of the dial is reported twice", id, errClass(err), strings.Join(ci.dials[:len(ci.dials)-1], ",")))
				}
			}
			s.mu.Unlock()
			if ms > 0 && f[2] == "inprog" && err == nil && ci.c != nil {
				// the dial timeout is real time: wait for it inside the op, so that nothing else can race with it
				s.waitClosed(ci)
				s.firstCause(e, ci, false, "dtimeout")
			}
			e.P("> %s", line)
			if f[2] == "regfail" {
				s.settle()
				s.mu.Lock()
				if len(ci.closes) > 0 {
					s.orc = append(s.orc, fmt.Sprintf("c03-close-once conn %d: DialAsync returned an error, and a close notification (%s) was issued for the conn nobody ever saw", id, ci.closes[0]))
				}
				s.mu.Unlock()
			}
			s.result(e, "dial", errClass(err), ci, 0)
			e.Count("conns", "dial-"+f[2])
			fmt.Fprintf(&key, "D%s,", f[2][:1])
			nontrivial = true
		case "dev":
			if len(f) != 4 || ci == nil || ci.kind != "dial" || ci.c == nil {
				bad()
				continue
			}
			fl, ok := parseFlags(f[2])
			if !ok {
				bad()
				continue
			}
			was := s.isClosed(ci)
			soe := 0
			switch f[3] {
			case "refused":
				soe = int(syscall.ECONNREFUSED)
			case "unreach":
				soe = int(syscall.EHOSTUNREACH)
			}
			causes := []string{"eof"}
			if !was && ci.c.VerifDialPending() {
				// the kernel decides once how the connect ends: the first dev of a pending dial fixes SO_ERROR
				if !ci.soSet {
					ci.soSet, ci.soe = true, soe
					ci.v.Lock()
					ci.v.SoError = soe
					ci.v.Unlock()
				}
				ci.dialOK = ci.soe == 0 && fl&evOut != 0
				switch ci.soe {
				case int(syscall.ECONNREFUSED):
					causes = append(causes, "refused")
				case int(syscall.EHOSTUNREACH):
					causes = append(causes, "unreach")
				}
			}
			ret := "nil"
			if s.g.VerifConnAt(ci.fd) != ci.c {
				ret = "gone" // no longer in the fd table: the kernel has nothing to report
			} else if !s.inject(ci, s.kernelFlags(ci, fl)) {
				ret = "stuck"
			}
			e.P("> %s", line)
			s.finSeen(e, ci, fl, ret)
			if ci.cio {
				causes = append(causes, "nil") // the success callback closes the conn
			}
			s.firstCause(e, ci, was, causes...)
			s.result(e, "dev", ret, ci, 0)
			fmt.Fprintf(&key, "d%x%s,", fl, f[3][:1])
		case "ev":
			if len(f) != 4 || ci == nil || ci.c == nil || ci.kind == "sess" {
				bad()
				continue
			}
			fl, ok := parseFlags(f[2])
			ans, ok2 := parseAns(f[3])
			if !ok || !ok2 {
				bad()
				continue
			}
			was := s.isClosed(ci)
			if ci.v != nil {
				ci.v.SetScript(ans)
			}
			ret := "nil"
			if s.g.VerifConnAt(ci.fd) != ci.c {
				ret = "gone"
			} else if !s.inject(ci, s.kernelFlags(ci, fl)) {
				ret = "stuck"
			}
			if ci.v != nil {
				ci.v.SetScript(nil)
			}
			e.P("> %s", line)
			s.finSeen(e, ci, fl, ret)
			if ci.cio {
				s.firstCause(e, ci, was, "eof", "epipe", "reset", "nil")
			} else {
				s.firstCause(e, ci, was, "eof", "epipe", "reset")
			}
			s.result(e, "ev", ret, ci, 0)
			fmt.Fprintf(&key, "e%x,", fl)
			nontrivial = true
		case "hupbusy":
			if len(f) != 4 || ci == nil || ci.v == nil || ci.c == nil || ci.kind != "add" {
				bad()
				continue
			}
			was := s.isClosed(ci)
			ret := "nil"
			if s.g.VerifConnAt(ci.fd) != ci.c {
				ret = "gone"
			} else {
				// the read task can be held only where there is one (AsyncReadInPoller is effective with EPOLLET only) and
				// further events are delivered to the poller meanwhile (not with EPOLLONESHOT: the descriptor is disarmed
				// while the task runs)
				busy := s.async && s.mode == "et"
				if busy {
					s.mu.Lock()
					ci.hold, ci.inData = make(chan struct{}), make(chan struct{}, 1)
					hold, in := ci.hold, ci.inData
					s.mu.Unlock()
					ci.v.Push(lp.Payload(f[2]))
					if !s.injectNoWait(ci, s.kernelFlags(ci, evIn)) {
						ret = "stuck"
					}
					select {
					case <-in:
					case <-time.After(3 * time.Second):
						// nothing was delivered (the conn did not read): go on without the overlap
					}
					ci.v.Push(lp.Payload(f[3]))
					ci.v.SetRead(true, 0, 0)
					ci.eof = true
					if !s.injectNoWait(ci, s.kernelFlags(ci, evIn|evRdhup)) {
						ret = "stuck"
					}
					s.mu.Lock()
					ci.hold = nil
					s.mu.Unlock()
					close(hold)
					s.waitTasks()
				} else {
					ci.v.Push(lp.Payload(f[2]))
					if !s.inject(ci, s.kernelFlags(ci, evIn)) {
						ret = "stuck"
					}
					ci.v.Push(lp.Payload(f[3]))
					ci.v.SetRead(true, 0, 0)
					ci.eof = true
					if !s.inject(ci, s.kernelFlags(ci, evIn|evRdhup)) {
						ret = "stuck"
					}
				}
			}
			e.P("> %s", line)
			s.finSeen(e, ci, evIn|evRdhup, ret)
			s.firstCause(e, ci, was, "eof", "reset")
			s.result(e, "hupbusy", ret, ci, 0)
			key.WriteString("hb,")
			nontrivial = true
		case "push", "eof", "rderr":
			if ci == nil || ci.v == nil || ci.c == nil || ci.kind == "sess" {
				bad()
				continue
			}
			switch f[0] {
			case "push":
				ci.v.Push(lp.Payload(f[2]))
			case "eof":
				ci.v.SetRead(true, 0, 0)
				ci.eof = true
			case "rderr":
				ci.v.SetRead(false, syscall.ECONNRESET, 0)
			}
			e.P("> %s", line)
			s.result(e, f[0], "nil", ci, 0)
		case "w", "wv", "sf":
			if len(f) != 4 || ci == nil || ci.c == nil || ci.v == nil || ci.kind == "udp" || ci.kind == "sess" {
				bad()
				continue
			}
			ans, ok := parseAns(f[3])
			if !ok {
				bad()
				continue
			}
			was := s.isClosed(ci)
			ci.v.SetScript(ans)
			var n int64
			var err error
			switch f[0] {
			case "w":
				k, _ := strconv.Atoi(f[2])
				var m int
				m, err = ci.c.Write(lp.Pattern(k, id))
				n = int64(m)
			case "wv":
				var bufs [][]byte
				for i, t := range strings.Split(f[2], "+") {
					k, _ := strconv.Atoi(t)
					bufs = append(bufs, lp.Pattern(k, id+i))
				}
				var m int
				m, err = ci.c.Writev(bufs)
				n = int64(m)
			case "sf":
				k, _ := strconv.Atoi(f[2])
				fh, ferr := os.Open(s.file.Name())
				if ferr != nil {
					panic(ferr)
				}
				n, err = ci.c.Sendfile(fh, int64(k))
				fh.Close()
			}
			ci.v.SetScript(nil)
			e.P("> %s", line)
			s.firstCause(e, ci, was, "epipe", "overflow")
			s.result(e, f[0], fmt.Sprintf("%d:%s", n, errClass(err)), ci, 0)
			fmt.Fprintf(&key, "%s%s,", f[0], errClass(err)[:1])
		case "close":
			if len(f) != 4 || ci == nil || ci.c == nil {
				bad()
				continue
			}
			k, _ := strconv.Atoi(f[2])
			var errs []int
			for _, t := range strings.Split(f[3], ",") {
				v, _ := strconv.Atoi(t)
				errs = append(errs, v)
			}
			if k <= 0 || k != len(errs) {
				bad()
				continue
			}
			was := s.isClosed(ci)
			barrier := make(chan struct{})
			var wg sync.WaitGroup
			uerrs := make([]error, k)
			for i := 0; i < k; i++ {
				if errs[i] != 0 {
					uerrs[i] = userErr(errs[i])
				}
			}
			for i := 0; i < k; i++ {
				wg.Add(1)
				i := i
				go func() {
					defer wg.Done()
					<-barrier
					if errs[i] == 0 {
						_ = ci.c.Close()
					} else {
						_ = ci.c.CloseWithError(uerrs[i])
					}
				}()
			}
			close(barrier)
			wg.Wait()
			s.settle()
			winner := "-"
			causes := []string{}
			for _, v := range errs {
				if v == 0 {
					causes = append(causes, "nil")
				} else {
					causes = append(causes, "u"+strconv.Itoa(v))
				}
			}
			if !was {
				_, cerr := ci.c.VerifCloseState()
				for i, c := range causes {
					if c == errClass(cerr) {
						winner = strconv.Itoa(i)
						break
					}
				}
			}
			e.P("> %s winner=%s", strings.Join(f[:4], " "), winner)
			s.firstCause(e, ci, was, causes...)
			s.result(e, "close", "nil", ci, 0)
			fmt.Fprintf(&key, "X%d,", k)
			nontrivial = true
		case "dl":
			if len(f) != 4 || ci == nil || ci.c == nil {
				bad()
				continue
			}
			ms, _ := strconv.Atoi(f[3])
			was := s.isClosed(ci)
			t := time.Now().Add(time.Duration(ms) * time.Millisecond)
			switch f[2] {
			case "r":
				_ = ci.c.SetReadDeadline(t)
			case "w":
				_ = ci.c.SetWriteDeadline(t)
			case "rw":
				_ = ci.c.SetDeadline(t)
			default:
				bad()
				continue
			}
			// deadlines are real time: wait for the close inside the op, so that nothing else can race with the timer
			cause := "-"
			if !was { // a deadline was just armed on an open conn (it may even have fired already): it closes the conn
				s.waitClosed(ci)
				if s.isClosed(ci) {
					_, cerr := ci.c.VerifCloseState()
					cause = errClass(cerr)
				} else {
					e.Oracle("c03-first-cause", "conn %d: a deadline is armed but the conn is still open after 3s", ci.id)
				}
			}
			e.P("> %s cause=%s", strings.Join(f[:4], " "), cause)
			s.firstCause(e, ci, was, "rtimeout", "wtimeout", "dtimeout")
			s.result(e, "dl", "nil", ci, 0)
			key.WriteString("T" + f[2] + cause[:1] + ",")
			nontrivial = true
		case "x":
			if ci == nil || ci.c == nil {
				bad()
				continue
			}
			done := make(chan struct{})
			ok := ci.c.Execute(func() { close(done) })
			ran := 0
			if ok {
				select {
				case <-done:
					ran = 1
				case <-time.After(2 * time.Second):
				}
			}
			e.P("> %s", line)
			s.result(e, "x", fmt.Sprintf("%v:%d", ok, ran), ci, 0)
		case "ops":
			if ci == nil || ci.c == nil || ci.kind == "udp" {
				bad()
				continue
			}
			closed := s.isClosed(ci)
			log0 := 0
			if ci.v != nil {
				log0 = ci.v.LogLen()
			}
			var parts []string
			if closed {
				n, err := ci.c.Write([]byte("abc"))
				parts = append(parts, fmt.Sprintf("%d:%s", n, errClass(err)))
				n, err = ci.c.Writev([][]byte{[]byte("a"), []byte("b")})
				parts = append(parts, fmt.Sprintf("%d:%s", n, errClass(err)))
				fh, _ := os.Open(s.file.Name())
				n64, err := ci.c.Sendfile(fh, 10)
				fh.Close()
				parts = append(parts, fmt.Sprintf("%d:%s", n64, errClass(err)))
				ok := ci.c.Execute(func() {})
				parts = append(parts, fmt.Sprintf("%v", ok))
				n, err = ci.c.Read(make([]byte, 4))
				parts = append(parts, fmt.Sprintf("%d:%s", n, errClass(err)))
				for i, p := range parts[:3] {
					if !strings.HasSuffix(p, ":closed") {
						e.Oracle("c03-closed-ops", "conn %d: %s after Close returned gave %s, not a closed indication", ci.id, []string{"Write", "Writev", "Sendfile"}[i], p)
					}
				}
				if ok {
					e.Oracle("c03-closed-ops", "conn %d: Execute accepted a job after Close returned", ci.id)
				}
			} else {
				parts = append(parts, "open")
			}
			logd := 0
			if ci.v != nil {
				logd = ci.v.LogLen() - log0
			}
			if closed && logd != 0 {
				e.Oracle("c03-closed-ops", "conn %d: %d syscalls on the descriptor by operations after Close returned", ci.id, logd)
			}
			e.P("> %s", line)
			s.result(e, "ops", strings.Join(parts, "/"), ci, logd)
			key.WriteString("O,")
		case "acc":
			if ci != nil || len(s.addrs) == 0 {
				bad()
				continue
			}
			ci = &conn{id: id, kind: "acc"}
			s.mu.Lock()
			s.accQ = append(s.accQ, ci)
			s.mu.Unlock()
			pc, err := net.Dial("tcp", s.addrs[0])
			ret := "nil"
			if err != nil {
				ret = "other"
			} else {
				ci.peer = pc
				for i := 0; i < 3000; i++ {
					s.mu.Lock()
					o := ci.opens
					s.mu.Unlock()
					if o > 0 {
						break
					}
					time.Sleep(time.Millisecond)
				}
			}
			e.P("> %s", line)
			s.result(e, "acc", ret, ci, 0)
			e.Count("conns", "accepted")
			key.WriteString("a,")
		case "cclose", "creset":
			if ci == nil || ci.peer == nil || ci.c == nil {
				bad()
				continue
			}
			was := s.isClosed(ci)
			if f[0] == "creset" {
				if tc, ok := ci.peer.(*net.TCPConn); ok {
					_ = tc.SetLinger(0)
				}
			}
			_ = ci.peer.Close()
			ci.peer = nil
			s.waitClosed(ci)
			e.P("> %s", line)
			s.firstCause(e, ci, was, "eof", "reset")
			s.result(e, f[0], "nil", ci, 0)
			key.WriteString("c,")
			nontrivial = true
		case "rdial":
			if len(f) != 3 || ci != nil || len(s.addrs) == 0 {
				bad()
				continue
			}
			if f[2] != "ok" && f[2] != "okpeer" && f[2] != "refused" {
				bad()
				continue
			}
			ci = &conn{id: id, kind: "rdial", dialOK: f[2] != "refused"}
			s.mu.Lock()
			s.conns[id] = ci
			s.mu.Unlock()
			addr := s.addrs[0]
			var acc *conn
			if f[2] == "refused" {
				ln, err := net.Listen("tcp", "127.0.0.1:0")
				if err != nil {
					panic(err)
				}
				addr = ln.Addr().String()
				ln.Close() // nobody listens there any more
			} else {
				acc = &conn{id: id + 1000, kind: "acc"}
				s.mu.Lock()
				s.accQ = append(s.accQ, acc)
				s.mu.Unlock()
			}
			myid := id
			err := s.g.DialAsyncTimeout("tcp", addr, 30*time.Second, func(nc *nbio.Conn, err error) { s.onDial(myid, nc, err) })
			if err != nil {
				s.mu.Lock()
				ci.dials = append(ci.dials, errClass(err))
				s.mu.Unlock()
			}
			for i := 0; i < 3000; i++ {
				s.mu.Lock()
				n := len(ci.dials)
				ao := acc == nil || acc.opens > 0
				s.mu.Unlock()
				if n > 0 && ao {
					break
				}
				time.Sleep(time.Millisecond)
			}
			if f[2] == "refused" {
				for i := 0; i < 1000; i++ {
					s.mu.Lock()
					n := len(ci.closes)
					s.mu.Unlock()
					if n > 0 {
						break
					}
					time.Sleep(time.Millisecond)
				}
			} else if ci.c != nil && f[2] == "okpeer" && acc.c != nil {
				// the accepted end closes first: the dialed conn (registered for reading AND writing) must learn of the
				// peer's orderly close (FIN, no reset) and get its close notification
				_ = acc.c.Close()
				for i := 0; i < 3000; i++ {
					s.mu.Lock()
					n := len(ci.closes)
					s.mu.Unlock()
					if n > 0 {
						break
					}
					time.Sleep(time.Millisecond)
				}
				s.mu.Lock()
				n := len(ci.closes)
				s.mu.Unlock()
				if n == 0 {
					e.Oracle("c03-close-once", "dialed conn %d: no close notification 3s after the peer's orderly close (real kernel, mode=%s)", id, s.mode)
					_ = ci.c.Close()
				}
			} else if ci.c != nil {
				// both ends live in this engine: close the dialing end here and wait for the accepted end to see the
				// peer's close, so that no later step races with the real kernel's events
				_ = ci.c.Close()
				for i := 0; i < 3000; i++ {
					s.mu.Lock()
					n := len(acc.closes)
					s.mu.Unlock()
					if n > 0 {
						break
					}
					time.Sleep(time.Millisecond)
				}
			}
			e.P("> %s", line)
			s.result(e, "rdial", errClass(err), ci, 0)
			e.Count("conns", "rdial-"+f[2])
			key.WriteString("R" + f[2][:1] + ",")
			nontrivial = true
		case "stop":
			e.P("> %s", line)
			ret := "nil"
			if !s.stop(e) {
				ret = "stuck"
			}
			s.settle()
			s.result(e, "stop", ret, nil, 0)
			key.WriteString("S,")
		default:
			bad()
		}
	}
	finish()
}

// ---------------------------------------------------------------- generator

func gen(g *lp.Gen) {
	for cs := 0; cs < g.N; cs++ {
		if cs%25 == 11 {
			// the engine's connection table is too small for any descriptor: every AddConn / DialAsync takes its
			// "too many open files" branch — a failed add closes the conn without notifications, a failed dial is reported by
			// the error return alone
			g.P("C %s %d %d 0 %d 1", g.Pick("lt", "et", "os"), g.PickInt(1, 2), g.PickInt(0, 100), g.Intn(2))
			n := 2 + g.Intn(4)
			for id := 1; id <= n; id++ {
				if g.Chance(1, 3) {
					g.P("add %d %s", id, g.Pick("tcp", "unix"))
				} else {
					ms := 0
					if g.Chance(1, 3) {
						ms = 1 + g.Intn(3)
					}
					g.P("dial %d %s %d", id, g.Pick("inprog", "inprog", "now", "refused"), ms)
				}
				switch g.Intn(4) {
				case 0:
					g.P("ops %d", id)
				case 1:
					g.P("close %d 2 %d,%d", id, g.Intn(4), g.Intn(4))
				case 2:
					g.P("w %d %d ok", id, 1+g.Intn(20))
				}
			}
			g.P("stop")
			continue
		}
		mode := g.Pick("lt", "et", "os")
		np := g.PickInt(1, 2)
		maxwb := g.PickInt(0, 0, 100)
		listen := g.Chance(1, 4)
		async := g.Chance(1, 3)
		g.P("C %s %d %d %d %d", mode, np, maxwb, b2i(listen), b2i(async))
		type ci struct {
			kind   string
			typ    string
			closed bool
			queued bool
			timer  bool
			dialed bool
		}
		conns := map[int]*ci{}
		var ids []int
		next := 1
		newConn := func() {
			id := next
			next++
			r := g.Intn(100)
			switch {
			case r < 6:
				g.P("addc %d %s", id, g.Pick("tcp", "unix"))
				conns[id] = &ci{kind: "add", typ: "unix", closed: true}
			case r < 8:
				id2 := next
				next++
				g.P("addcr %d %d", id, id2)
				conns[id] = &ci{kind: "add", typ: "tcp", closed: true}
				conns[id2] = &ci{kind: "add", typ: "tcp"}
				ids = append(ids, id2)
			case r < 10:
				g.P("dialx %d", id)
				conns[id] = &ci{kind: "dial", dialed: true, closed: true}
			case r < 13:
				k := g.Pick("inprog", "inprog", "now")
				g.P("dialc %d %s 0", id, k)
				conns[id] = &ci{kind: "dial", dialed: k == "now", closed: k == "now"}
			case r < 15:
				g.P("dialrace %d %d", id, 1+g.Intn(3))
				conns[id] = &ci{kind: "dial", dialed: true}
			case r < 17:
				g.P("addx %d %s", id, g.Pick("tcp", "unix"))
				conns[id] = &ci{kind: "add", typ: "unix", closed: true}
			case r < 45:
				typ := g.Pick("tcp", "tcp", "unix")
				g.P("add %d %s", id, typ)
				conns[id] = &ci{kind: "add", typ: typ}
			case r < 75:
				kind := g.Pick("inprog", "inprog", "inprog", "now", "refused")
				ms := 0
				if g.Chance(1, 3) {
					ms = 1 + g.Intn(3)
				}
				g.P("dial %d %s %d", id, kind, ms)
				conns[id] = &ci{kind: "dial", timer: ms > 0 && kind == "inprog", dialed: kind != "inprog", closed: kind == "refused"}
			case r < 85:
				g.P("addudp %d", id)
				conns[id] = &ci{kind: "udp"}
			case r < 93 && listen:
				g.P("acc %d", id)
				conns[id] = &ci{kind: "acc"}
			case listen:
				g.P("rdial %d %s", id, g.Pick("ok", "okpeer", "okpeer", "refused"))
				conns[id] = &ci{kind: "rdial", closed: true}
			default:
				typ := g.Pick("tcp", "unix")
				g.P("add %d %s", id, typ)
				conns[id] = &ci{kind: "add", typ: typ}
			}
			ids = append(ids, id)
		}
		newConn()
		nops := 3 + g.Intn(12)
		for i := 0; i < nops; i++ {
			if g.Chance(1, 6) && len(ids) < 4 {
				newConn()
				continue
			}
			id := ids[g.Intn(len(ids))]
			c := conns[id]
			r := g.Intn(100)
			switch c.kind {
			case "dial":
				switch {
				case r < 45 && !c.dialed:
					g.P("dev %d %s %s", id, g.Pick("out", "out", "in+out", "out+err+hup", "in+out+err+hup", "err+hup", "hup"), g.Pick("0", "0", "refused", "refused", "unreach"))
					c.dialed = true
				case r < 70:
					k := 1 + g.Intn(4)
					var es []string
					for j := 0; j < k; j++ {
						es = append(es, strconv.Itoa(g.Intn(4)))
					}
					g.P("close %d %d %s", id, k, strings.Join(es, ","))
				case r < 78:
					g.P("ops %d", id)
				case r < 84 && c.dialed:
					// the peer of an established dialed conn closes orderly
					g.P("eof %d", id)
					g.P("ev %d in+rdhup -", id)
				case r < 90:
					g.P("dev %d %s %s", id, g.Pick("out", "in", "in+rdhup", "out+err+hup"), g.Pick("0", "refused"))
				default:
					g.P("w %d %d %s", id, 1+g.Intn(50), g.Pick("ok", "again", "fail"))
				}
			case "udp":
				switch {
				case r < 45:
					g.P("dgram %d %d @%d:%d", id, 4000+g.Intn(3), 1+g.Intn(20), g.Intn(256))
					if g.Chance(2, 3) {
						g.P("ev %d in -", id)
					}
				case r < 60:
					g.P("ev %d in -", id)
				case r < 80:
					sid := 100*id + 1 + g.Intn(3)
					k := 1 + g.Intn(3)
					var es []string
					for j := 0; j < k; j++ {
						es = append(es, strconv.Itoa(g.Intn(4)))
					}
					g.P("close %d %d %s", sid, k, strings.Join(es, ","))
				case r < 88:
					g.P("close %d 1 %d", id, g.Intn(3))
				case r < 94:
					g.P("dl %d r %d", 100*id+1+g.Intn(2), 1+g.Intn(2))
				default:
					g.P("ops %d", 100*id+1+g.Intn(2))
				}
			case "acc":
				switch {
				case r < 30:
					g.P("%s %d", g.Pick("cclose", "cclose", "creset"), id)
				case r < 60:
					k := 1 + g.Intn(4)
					var es []string
					for j := 0; j < k; j++ {
						es = append(es, strconv.Itoa(g.Intn(4)))
					}
					g.P("close %d %d %s", id, k, strings.Join(es, ","))
				case r < 75:
					g.P("ops %d", id)
				default:
					g.P("x %d", id)
				}
			case "rdial":
				g.P("ops %d", id)
			default: // add
				switch {
				case r < 14:
					g.P("w %d %d %s", id, 1+g.Intn(60), g.Pick("ok", "ok", "again", "intr", "fail"))
				case r < 20:
					g.P("wv %d %d+%d %s", id, 1+g.Intn(30), g.Intn(30), g.Pick("ok", "again", "intr", "fail"))
				case r < 26:
					g.P("sf %d %d %s", id, 1+g.Intn(200), g.Pick("ok", "again", "fail", "intr,ok", "intr,fail"))
				case r < 38:
					g.P("ev %d %s %s", id, g.Pick("out", "out", "in+out", "out+hup"), g.Pick("ok", "ok,ok", "again", "fail", "intr,ok", "intr,fail", "-"))
				case r < 46:
					if g.Chance(1, 2) {
						g.P("push %d @%d:1", id, 1+g.Intn(30))
					}
					g.P("ev %d in -", id)
				case r < 49:
					g.P("hupbusy %d @%d:1 @%d:2", id, 1+g.Intn(30), 1+g.Intn(30))
				case r < 52:
					g.P("%s %d", g.Pick("eof", "rderr"), id)
					g.P("ev %d %s -", id, g.Pick("in", "in+rdhup", "rdhup", "hup+err", "in+hup+err"))
				case r < 70:
					k := 1 + g.Intn(5)
					var es []string
					for j := 0; j < k; j++ {
						es = append(es, strconv.Itoa(g.Intn(5)))
					}
					g.P("close %d %d %s", id, k, strings.Join(es, ","))
				case r < 78:
					g.P("dl %d %s %d", id, g.Pick("r", "w", "rw"), 1+g.Intn(3))
				case r < 92:
					g.P("ops %d", id)
				default:
					g.P("x %d", id)
				}
			}
		}
		for _, id := range ids {
			if g.Chance(1, 3) {
				g.P("ops %d", id)
			}
		}
		if g.Chance(2, 3) {
			g.P("stop")
		}
	}
}

func b2i(b bool) int {
	if b {
		return 1
	}
	return 0
}

func main() { lp.Main(gen, exec) }
