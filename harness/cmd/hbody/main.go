// hbody: BodyReader (nbhttp/body.go) against Model/HttpBody.lean — append / Read / Close / RawBodyBuffers / pool
// release and reuse, with a tracking allocator whose capacities are scripted by the ops.
//
// ops:   C body <maxBody>
//        A <payload> <extraCap>     append; the buffer this call allocates (if any) gets capacity len+extraCap
//        R <n>                      Read into a buffer of n bytes
//        X                          Close
//        B                          RawBodyBuffers
//        N                          release to the pool (as releaseRequest does) and take a reader again
// result R <ok|toolong|n=.. eof=.. data=..|raw=..> left=<n> index=<n> nbuf=<n> closed=<0|1> alloc=<m<id>:<n>:<cap>,f<id>,...>
//
// Direct oracles: c07-body-stream (bytes read = bytes appended, in order), c08-body-left (left accounting and the
// MaxHTTPBodySize bound), c08-body-panic, c08-body-free-once (allocator: no double free, no foreign free,
// every buffer released by the first Close).
package main

import (
	"bytes"
	"fmt"
	"io"
	"strconv"
	"strings"

	"harness/internal/lp"

	"github.com/lesismal/nbio/nbhttp"
)

type trackAlloc struct {
	extra  int
	next   int
	ids    map[*[]byte]int
	freed  map[int]bool
	events []string
	bad    []string
}

func (a *trackAlloc) Malloc(size int) *[]byte {
	b := make([]byte, size, size+a.extra)
	p := &b
	id := a.next
	a.next++
	a.ids[p] = id
	a.events = append(a.events, fmt.Sprintf("m%d:%d:%d", id, size, cap(b)))
	return p
}
func (a *trackAlloc) Realloc(buf *[]byte, size int) *[]byte { panic("Realloc not expected") }
func (a *trackAlloc) Append(buf *[]byte, more ...byte) *[]byte {
	panic("Append not expected")
}
func (a *trackAlloc) AppendString(buf *[]byte, more string) *[]byte { panic("AppendString not expected") }
func (a *trackAlloc) Free(buf *[]byte) {
	id, ok := a.ids[buf]
	if !ok {
		a.bad = append(a.bad, "free of a buffer the allocator did not hand out")
		a.events = append(a.events, "f?")
		return
	}
	if a.freed[id] {
		a.bad = append(a.bad, fmt.Sprintf("double free of buffer %d", id))
	}
	a.freed[id] = true
	a.events = append(a.events, "f"+strconv.Itoa(id))
}

func exec(e *lp.Exec) {
	var br *nbhttp.BodyReader
	var engine *nbhttp.Engine
	var al *trackAlloc
	var appended, readBack []byte
	maxBody := 0
	closedOnce := false
	var key strings.Builder
	nontrivial := false
	have := false
	finish := func() {
		if have {
			e.Key(key.String(), nontrivial)
		}
		have = false
	}
	state := func() string {
		i, l, n, c := br.VerifBodyState()
		cl := 0
		if c {
			cl = 1
		}
		ev := strings.Join(al.events, ",")
		al.events = nil
		for _, b := range al.bad {
			e.Oracle("c08-body-free-once", "%s", b)
		}
		al.bad = nil
		return fmt.Sprintf("left=%d index=%d nbuf=%d closed=%d alloc=%s", l, i, n, cl, ev)
	}
	// buffers allocated while the reader was open must all be back at the allocator after the first Close / release
	// (an append to a closed reader does not happen through the processors and is not judged)
	var live []int
	leaks := func(what string) {
		for _, id := range live {
			if !al.freed[id] {
				al.bad = append(al.bad, fmt.Sprintf("buffer %d not released by %s", id, what))
			}
		}
		live = nil
	}
	guard := func(what string, f func()) {
		defer func() {
			if r := recover(); r != nil {
				e.Oracle("c08-body-panic", "%s panicked: %v", what, r)
				e.P("R panic")
			}
		}()
		f()
	}
	for e.In.Scan() {
		line := e.In.Text()
		f := strings.Fields(line)
		if len(f) == 0 {
			continue
		}
		e.P("> %s", line)
		if f[0] != "C" && br == nil {
			e.P("bad-op")
			continue
		}
		switch f[0] {
		case "C":
			finish()
			if len(f) != 3 || f[1] != "body" {
				e.P("bad-op")
				continue
			}
			maxBody, _ = strconv.Atoi(f[2])
			al = &trackAlloc{ids: map[*[]byte]int{}, freed: map[int]bool{}}
			engine = nbhttp.NewEngine(nbhttp.Config{MaxHTTPBodySize: maxBody, BodyAllocator: al})
			br = nbhttp.NewBodyReader(engine)
			appended, readBack, closedOnce, live = nil, nil, false, nil
			key.Reset()
			fmt.Fprintf(&key, "%v|", maxBody > 0)
			nontrivial = false
			have = true
			e.P("ok")
		case "A":
			guard("append", func() {
				data := lp.Payload(f[1])
				al.extra, _ = strconv.Atoi(f[2])
				_, l0, n0, _ := br.VerifBodyState()
				id0 := al.next
				err := nbhttp.VerifBodyAppend(br, data)
				if !closedOnce {
					for id := id0; id < al.next; id++ {
						live = append(live, id)
					}
				}
				res := "ok"
				if err != nil {
					res = "toolong"
				} else if !closedOnce {
					appended = append(appended, data...)
				}
				_, l1, n1, _ := br.VerifBodyState()
				if maxBody > 0 && l1 > maxBody {
					e.Oracle("c08-body-left", "left=%d exceeds MaxHTTPBodySize=%d after append", l1, maxBody)
				}
				if err == nil && l1 != l0+len(data) {
					e.Oracle("c08-body-left", "left went from %d to %d on an append of %d bytes", l0, l1, len(data))
				}
				fmt.Fprintf(&key, "A%d%v,", lenClass(len(data)), n1 > n0)
				if n0 > 0 {
					nontrivial = true
				}
				e.P("R %s %s", res, state())
			})
		case "R":
			guard("Read", func() {
				n, _ := strconv.Atoi(f[1])
				p := make([]byte, n)
				_, l0, _, c0 := br.VerifBodyState()
				k, err := br.Read(p)
				eof := 0
				if err == io.EOF {
					eof = 1
				} else if err != nil {
					e.Oracle("c07-body-stream", "Read returned %v", err)
				}
				_, l1, _, _ := br.VerifBodyState()
				if !c0 {
					readBack = append(readBack, p[:k]...)
					if !bytes.HasPrefix(appended, readBack) {
						e.Oracle("c07-body-stream", "bytes read are not a prefix of the bytes appended (after %d bytes)", len(readBack))
					}
					if l1 != l0-k {
						e.Oracle("c08-body-left", "left went from %d to %d on a Read of %d bytes", l0, l1, k)
					}
					if eof == 1 && len(readBack) != len(appended) {
						e.Oracle("c07-body-stream", "EOF after %d of %d appended bytes", len(readBack), len(appended))
					}
					if eof == 0 && k < n && len(readBack) != len(appended) {
						e.Oracle("c07-body-stream", "short Read (%d of %d) although %d bytes remain", k, n, len(appended)-len(readBack))
					}
				} else if k != 0 || eof != 1 {
					e.Oracle("c07-body-stream", "Read after Close returned n=%d eof=%d", k, eof)
				}
				fmt.Fprintf(&key, "R%d/%d,", lenClass(n), lenClass(k))
				e.P("R n=%d eof=%d data=%d:%x %s", k, eof, k, lp.Fnv(p[:k]), state())
			})
		case "X":
			guard("Close", func() {
				_ = br.Close()
				leaks("Close")
				closedOnce = true
				key.WriteString("X,")
				e.P("R closed %s", state())
			})
		case "B":
			guard("RawBodyBuffers", func() {
				raw := br.RawBodyBuffers()
				var all []byte
				hs := make([]string, len(raw))
				for i, b := range raw {
					hs[i] = fmt.Sprintf("%d:%x", len(b), lp.Fnv(b))
					all = append(all, b...)
				}
				_, _, _, c := br.VerifBodyState()
				if !c && !bytes.Equal(all, appended[len(readBack):]) {
					e.Oracle("c07-body-stream", "RawBodyBuffers (%d bytes) is not the unread remainder (%d bytes)", len(all), len(appended)-len(readBack))
				}
				key.WriteString("B,")
				e.P("R raw=%s %s", strings.Join(hs, ","), state())
			})
		case "N":
			guard("release", func() {
				nbhttp.VerifBodyRelease(br)
				leaks("release")
				br = nbhttp.NewBodyReader(engine)
				appended, readBack, closedOnce = nil, nil, false
				i, l, n, c := br.VerifBodyState()
				if i != 0 || l != 0 || n != 0 || c {
					e.Oracle("c08-body-left", "reader taken from the pool is not reset: index=%d left=%d nbuf=%d closed=%v", i, l, n, c)
				}
				key.WriteString("N,")
				nontrivial = true
				e.P("R new %s", state())
			})
		default:
			e.P("bad-op")
		}
	}
	finish()
}

func lenClass(n int) int {
	switch {
	case n == 0:
		return 0
	case n < 8:
		return 1
	case n < 64:
		return 2
	case n < 1024:
		return 3
	}
	return 4
}

// ---------------------------------------------------------------- generator

func size(g *lp.Gen) int {
	switch g.Intn(8) {
	case 0:
		return 0
	case 1:
		return 1
	case 2:
		return g.PickInt(7, 8, 9, 63, 64, 65)
	case 3:
		return g.PickInt(1023, 1024, 1025, 4096, 20000)
	}
	return 1 + g.Intn(40)
}

func payload(g *lp.Gen, n int) string {
	if n == 0 {
		return "-"
	}
	if n >= 64 {
		return fmt.Sprintf("@%d:%d", n, g.Intn(256))
	}
	b := make([]byte, n)
	for i := range b {
		b[i] = byte(g.Intn(256))
	}
	return lp.Hex(b)
}

func gen(g *lp.Gen) {
	for cs := 0; cs < g.N; cs++ {
		maxBody := 0
		if g.Chance(1, 4) {
			maxBody = g.PickInt(1, 10, 64, 100, 5000)
		}
		g.P("C body %d", maxBody)
		nops := 1 + g.Intn(14)
		for i := 0; i < nops; i++ {
			switch r := g.Intn(20); {
			case r < 8:
				g.P("A %s %d", payload(g, size(g)), g.PickInt(0, 0, 1, 5, 64, 1000))
			case r < 15:
				g.P("R %d", size(g))
			case r < 16:
				g.P("X")
			case r < 18:
				g.P("B")
			default:
				g.P("N")
			}
		}
		if g.Chance(1, 2) { // drain
			g.P("R 100000")
			g.P("R 1")
		}
	}
}

func main() { lp.Main(gen, exec) }
