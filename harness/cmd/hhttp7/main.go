// hhttp7: C07 — three-way differential on generated HTTP/1.x messages:
//
//	real nbio (real Parser + real ServerProcessor/ClientProcessor, what the handler sees)
//	Lean model (Msg.render, implParse, deliveredOf, reqSpec/respSpec — printed by httpdrv)
//	net/http   (http.ReadRequest / http.ReadResponse on the same bytes)
//
// ops:   C <client 0|1> <maxBody> <readLimit>
//        M <start> h=<headers> b=<body>          a well-formed message of the agreed domain (see msg.go)
//        X <class> <hex>                          a neighbour: raw bytes outside the agreed domain
//        F <n1,n2,...|whole>                      feed the concatenation of the case's messages in these segments
// results:
//        M:  R render=<len>:<fnv>                 Go rendering (the Lean rendering of the same Msg must be identical)
//        X:  R render=<len>:<fnv>
//        F:  R err=<code> cache=<n> st=<state> nb=<what the handler saw, raw> offs=<offsets at which nbio completed
//            the messages> ref=<normal form of what net/http extracted; Lean prints the normal form of reqSpec/respSpec>
//            (neighbour cases: offs=- ref=-; nref=, nnb= carry the two normal forms for the classification only)
//
// Direct oracles (no model involved):
//   c07-reference   nbio's delivered messages differ from net/http's on a well-formed stream (normal forms)
//   c07-boundary    a message boundary (offset at which the message completed / the successor starts) differs
//   c07-render      the rendered message does not round-trip through net/http at all (generator sanity)
package main

import (
	"bufio"
	"bytes"
	"fmt"
	"io"
	"net/http"
	"net/url"
	"sort"
	"strconv"
	"strings"

	"harness/internal/hx"
	"harness/internal/lp"

	"github.com/lesismal/nbio/logging"
)

// ---------------------------------------------------------------- normal forms

var framingKeys = map[string]bool{"Host": true, "Transfer-Encoding": true, "Content-Length": true, "Trailer": true}

func trimOWS(s string) string { return strings.Trim(s, " \t") }

func normHeader(h http.Header, resp bool) string {
	ks := []string{}
	for k := range h {
		if framingKeys[k] || (resp && k == "Connection") {
			continue
		}
		ks = append(ks, k)
	}
	sort.Strings(ks)
	var sb strings.Builder
	for _, k := range ks {
		vs := make([]string, len(h[k]))
		for i, v := range h[k] {
			vs[i] = trimOWS(v)
		}
		sb.WriteString(hx.Hx(k) + ":" + hx.Hx(strings.Join(vs, "\x00")) + ",")
	}
	return sb.String()
}

func normTrailer(h http.Header) string {
	ks := []string{}
	for k := range h {
		ks = append(ks, k)
	}
	sort.Strings(ks)
	var sb strings.Builder
	for _, k := range ks {
		if len(h[k]) == 0 {
			continue // net/http lists an announced trailer under a nil value until it arrives
		}
		vs := make([]string, len(h[k]))
		for i, v := range h[k] {
			vs[i] = trimOWS(v)
		}
		sb.WriteString(hx.Hx(k) + ":" + hx.Hx(strings.Join(vs, "\x00")) + ",")
	}
	return sb.String()
}

// normSeen: normal form of what nbio delivered.
func normSeen(s hx.Seen) string {
	fr := "none"
	if len(s.Header["Transfer-Encoding"]) > 0 {
		fr = "chunked"
	} else if _, ok := s.Header["Content-Length"]; ok || (s.CL >= 0 && !s.IsResp) {
		// a response without the field has ContentLength 0 when its status excludes a body, -1 otherwise, in both
		// implementations; the promoted length is compared when the field is there
		fr = "cl" + strconv.FormatInt(s.CL, 10)
	}
	if s.IsResp {
		return fmt.Sprintf("nres{%s|%d|%s|%s|%s|%d:%x|%s}", hx.Hx(s.Proto), s.StatusCode, hx.Hx(trimOWS(s.Status)), normHeader(s.Header, true), fr,
			len(s.Body), lp.Fnv(s.Body), normTrailer(s.Trailer))
	}
	return fmt.Sprintf("nreq{%s|%s|%s|%s|%s|%s|%d:%x|%s|close%v}", hx.Hx(s.Method), hx.Hx(s.RequestURI), hx.Hx(s.Proto), hx.Hx(trimOWS(s.Host)),
		normHeader(s.Header, false), fr, len(s.Body), lp.Fnv(s.Body), normTrailer(s.Trailer), s.Close)
}

func normRefReq(r *http.Request, body []byte) string {
	fr := "none"
	if len(r.TransferEncoding) > 0 && r.TransferEncoding[0] == "chunked" {
		fr = "chunked"
	} else if _, ok := r.Header["Content-Length"]; ok {
		fr = "cl" + strconv.FormatInt(r.ContentLength, 10)
	}
	return fmt.Sprintf("nreq{%s|%s|%s|%s|%s|%s|%d:%x|%s|close%v}", hx.Hx(r.Method), hx.Hx(r.RequestURI), hx.Hx(r.Proto), hx.Hx(trimOWS(r.Host)),
		normHeader(r.Header, false), fr, len(body), lp.Fnv(body), normTrailer(r.Trailer), r.Close)
}

func normRefResp(r *http.Response, body []byte) string {
	fr := "none"
	if len(r.TransferEncoding) > 0 && r.TransferEncoding[0] == "chunked" {
		fr = "chunked"
	} else if _, ok := r.Header["Content-Length"]; ok {
		fr = "cl" + strconv.FormatInt(r.ContentLength, 10)
	}
	reason := trimOWS(strings.TrimPrefix(r.Status, strconv.Itoa(r.StatusCode)))
	return fmt.Sprintf("nres{%s|%d|%s|%s|%s|%d:%x|%s}", hx.Hx(r.Proto), r.StatusCode, hx.Hx(reason), normHeader(r.Header, true), fr,
		len(body), lp.Fnv(body), normTrailer(r.Trailer))
}

// countReader counts the bytes handed to the bufio.Reader above it.
type countReader struct {
	r *bytes.Reader
	n int
}

func (c *countReader) Read(p []byte) (int, error) {
	n, err := c.r.Read(p)
	c.n += n
	return n, err
}

// refParse runs net/http over the stream: normal forms of the messages it extracts, the offset after each, and
// whether it stopped with an error (other than a clean EOF at a message boundary).
// heads: which responses answer a HEAD request (the request is context the bytes do not carry).
func refParse(stream []byte, client bool, heads []bool) (forms []string, offs []int, bad string) {
	cr := &countReader{r: bytes.NewReader(stream)}
	br := bufio.NewReaderSize(cr, 4096)
	for {
		if _, err := br.Peek(1); err == io.EOF {
			return
		}
		if client {
			var req *http.Request
			if k := len(forms); k < len(heads) && heads[k] {
				req = &http.Request{Method: "HEAD"}
			}
			res, err := http.ReadResponse(br, req)
			if err != nil {
				return forms, offs, "readresponse: " + err.Error()
			}
			if res.ContentLength == -1 && len(res.TransferEncoding) == 0 && res.Body != http.NoBody {
				// body delimited by EOF: not a self-delimiting message
				b, _ := io.ReadAll(res.Body)
				forms = append(forms, normRefResp(res, b)+"+untilEOF")
				offs = append(offs, cr.n-br.Buffered())
				return forms, offs, ""
			}
			b, err := io.ReadAll(res.Body)
			if err != nil {
				return forms, offs, "body: " + err.Error()
			}
			forms = append(forms, normRefResp(res, b))
		} else {
			req, err := http.ReadRequest(br)
			if err != nil {
				return forms, offs, "readrequest: " + err.Error()
			}
			b, err := io.ReadAll(req.Body)
			if err != nil {
				return forms, offs, "body: " + err.Error()
			}
			forms = append(forms, normRefReq(req, b))
		}
		offs = append(offs, cr.n-br.Buffered())
	}
}

func ints(xs []int) string {
	s := make([]string, len(xs))
	for i, x := range xs {
		s[i] = strconv.Itoa(x)
	}
	return strings.Join(s, ",")
}

// ---------------------------------------------------------------- executor

// neighbour classes that lie inside the wording of C07 (a divergence is reported); every other class is only
// classified and counted (docs/http.md has the table).
var insideWording = map[string]bool{
	// RFC 7230 4.1.2/4.4: the Trailer field announces what MAY follow; nbhttp requires every announced trailer exactly
	// once with a non-empty value and rejects everything else (known finding HTTP-TRAILER-STRICT)
	"trailer-declared-missing": true, "trailer-empty-value": true, "trailer-undeclared": true, "trailer-sent-twice": true,
	// RFC 7230 3.3.3 rule 1: responses that end with their header section whatever Content-Length / Transfer-Encoding say
	"resp-304-with-framing": true, "resp-1xx-204-with-framing": true, "resp-head-with-framing": true,
}

func exec(e *lp.Exec) {
	lg := &hx.CapLogger{}
	logging.SetLogger(lg)
	var client bool
	var heads []bool
	var maxBody, limit int
	var stream []byte
	var bounds []int // expected message boundaries (cumulative rendered lengths), WF cases only
	var nclass string
	var key strings.Builder
	nontrivial := false
	have := false
	finish := func() {
		if have {
			e.Key(key.String(), nontrivial)
		}
		have = false
	}
	for e.In.Scan() {
		line := e.In.Text()
		f := strings.Fields(line)
		if len(f) == 0 {
			continue
		}
		switch f[0] {
		case "C":
			finish()
			cl, _ := strconv.Atoi(f[1])
			maxBody, _ = strconv.Atoi(f[2])
			limit, _ = strconv.Atoi(f[3])
			client = cl == 1
			heads = nil
			if len(f) > 4 {
				// request context ("h=0110": which responses answer a HEAD request): known to the reference, which is
				// told the request; nbhttp's client parser has no such input (known finding HTTP-CLIENT-HEAD)
				for _, c := range strings.TrimPrefix(f[4], "h=") {
					heads = append(heads, c == '1')
				}
			}
			stream, bounds, nclass = nil, nil, ""
			key.Reset()
			nontrivial = false
			have = true
			fmt.Fprintf(&key, "%d|", cl)
			e.P("> %s", line)
			e.P("ok")
			e.Count("cases", map[bool]string{true: "client", false: "server"}[client])
		case "M":
			e.P("> %s", line)
			m, err := Decode(f[1:])
			if err != nil {
				e.P("bad-op")
				continue
			}
			b := m.Render()
			stream = append(stream, b...)
			bounds = append(bounds, len(stream))
			shape(&key, m, &nontrivial, e)
			e.P("R render=%d:%x", len(b), lp.Fnv(b))
		case "X":
			e.P("> %s", line)
			if len(f) != 3 {
				e.P("bad-op")
				continue
			}
			b := lp.Unhex(f[2])
			nclass = f[1]
			stream = append(stream, b...)
			fmt.Fprintf(&key, "X%s|", nclass)
			e.P("R render=%d:%x", len(b), lp.Fnv(b))
		case "F":
			if len(f) != 2 {
				e.P("> %s", line)
				e.P("bad-op")
				continue
			}
			// 1. nbio, fed in the given segmentation
			a := hx.NewSess(client, maxBody, limit)
			errc := 0
			var msgs []string
			rest := stream
			var segs []int
			if f[1] != "whole" {
				for _, x := range strings.Split(f[1], ",") {
					n, _ := strconv.Atoi(x)
					segs = append(segs, n)
				}
			}
			for len(rest) > 0 && errc == 0 {
				n := len(rest)
				if len(segs) > 0 {
					if segs[0] < n && segs[0] > 0 {
						n = segs[0]
					}
					segs = segs[1:]
				}
				r := a.Feed(rest[:n])
				rest = rest[n:]
				if r.Msgs != "" {
					msgs = append(msgs, r.Msgs)
				}
				errc = r.Errc
			}
			if lg.Panics > 0 {
				e.Oracle("c08-panic", "Parse recovered from a panic")
				lg.Panics = 0
			}
			for _, v := range a.R.Framing {
				e.Oracle("c08-framing-rejected", "%s", v)
			}
			e.P("> %s badurl=%s badproto=%s", line, strings.Join(a.R.BadURL, ","), strings.Join(a.R.BadProto, ","))
			// 2. nbio again, one byte at a time: the offset at which each message completes
			b := hx.NewSess(client, maxBody, limit)
			for i := range stream {
				if r := b.Feed(stream[i : i+1]); r.Errc != 0 {
					break
				}
			}
			var nbForms []string
			for _, s := range a.R.Seen {
				nbForms = append(nbForms, normSeen(s))
			}
			// 3. the reference
			refForms, refOffs, refBad := refParse(stream, client, heads)
			nb := strings.Join(nbForms, ";")
			ref := strings.Join(refForms, ";")
			e.Count("messages", "nbio-delivered:"+strconv.Itoa(len(a.R.Seen)))
			if nclass == "" {
				// well-formed stream: the property
				if refBad != "" || len(refForms) != len(bounds) {
					e.Oracle("c07-render", "net/http does not accept the generated stream: %s (%d of %d messages)", refBad, len(refForms), len(bounds))
				}
				if errc != 0 || nb != ref {
					e.Oracle("c07-reference", "nbio err=%d delivered [%s] ; net/http %s delivered [%s]", errc, nb, refBad, ref)
				}
				if ints(b.R.DoneAt) != ints(refOffs) || ints(refOffs) != ints(bounds) {
					e.Oracle("c07-boundary", "message boundaries: nbio %s net/http %s rendered %s", ints(b.R.DoneAt), ints(refOffs), ints(bounds))
				}
				e.P("R err=%d %s nb=%s offs=%s ref=%s", errc, cacheSt(a, errc), strings.Join(msgs, ";"), ints(b.R.DoneAt), ref)
			} else {
				// neighbour: classify
				verdict := "agree"
				switch {
				case errc != 0 && refBad != "":
					verdict = "both-reject"
				case errc != 0:
					verdict = "nbio-rejects"
				case refBad != "":
					verdict = "ref-rejects"
				case nb != ref:
					verdict = "deliver-differently"
				case ints(b.R.DoneAt) != ints(refOffs):
					verdict = "boundary-differs"
				}
				e.Count("neighbour", nclass+":"+verdict)
				if insideWording[nclass] && verdict != "agree" && verdict != "both-reject" {
					e.Oracle("c07-reference", "class=%s %s: nbio err=%d [%s] offs=%s ; net/http %s [%s] offs=%s", nclass, verdict, errc, nb, ints(b.R.DoneAt), refBad, ref, ints(refOffs))
				}
				e.P("R err=%d %s nb=%s offs=- ref=- verdict=%s nnb=%s nref=%s", errc, cacheSt(a, errc), strings.Join(msgs, ";"), verdict, nb, ref)
			}
		default:
			e.P("> %s", line)
			e.P("bad-op")
		}
	}
	finish()
}

func cacheSt(a *hx.Sess, errc int) string {
	if errc != 0 {
		return "cache=? st=?"
	}
	return fmt.Sprintf("cache=%d st=%d", a.P.VerifCacheLen(), a.P.VerifState())
}

// shape key: grammar productions used, framing kind, header-count class (DESIGN 4.2)
func shape(key *strings.Builder, m *Msg, nontrivial *bool, e *lp.Exec) {
	hc := len(m.Headers)
	switch {
	case hc > 8:
		hc = 9
	case hc > 4:
		hc = 5
	}
	fmt.Fprintf(key, "%v/%s/%s/h%d/%c", m.Resp, m.A, m.C, hc, m.Kind)
	for _, h := range m.Headers {
		k := http.CanonicalHeaderKey(h.Name)
		switch k {
		case "Host", "Connection", "Content-Length", "Transfer-Encoding", "Trailer":
			fmt.Fprintf(key, ",%s=%s", k, strings.ToLower(trimOWS(h.Value)))
		}
		if h.Value == "" {
			key.WriteString(",empty")
		}
	}
	switch m.Kind {
	case 'f':
		fmt.Fprintf(key, "/len%d", lenClass(len(m.Fixed)))
		*nontrivial = *nontrivial || len(m.Fixed) > 0
		e.Count("framing", "content-length")
	case 'c':
		fmt.Fprintf(key, "/c%d/t%d", len(m.Chunks), len(m.Trailers))
		for _, c := range m.Chunks {
			fmt.Fprintf(key, ".%d%v", lenClass(len(c.Data)), c.Ext != "")
		}
		*nontrivial = true
		e.Count("framing", "chunked")
		if len(m.Trailers) > 0 {
			e.Count("framing", "chunked+trailers")
		}
	default:
		e.Count("framing", "none")
	}
	key.WriteString("|")
}

func lenClass(n int) int {
	switch {
	case n == 0:
		return 0
	case n < 16:
		return 1
	case n < 256:
		return 2
	case n < 4096:
		return 3
	case n < 65536:
		return 4
	}
	return 5
}

// ---------------------------------------------------------------- generator

const tokenChars = "abcdefghijklmnopqrstuvwxyzABCDEFGHIJKLMNOPQRSTUVWXYZ0123456789-_.!~#$%&'*+^`|"

func token(g *lp.Gen, max int) string {
	n := 1 + g.Intn(max)
	b := make([]byte, n)
	for i := range b {
		if g.Chance(1, 6) {
			b[i] = tokenChars[g.Intn(len(tokenChars))]
		} else {
			b[i] = tokenChars[g.Intn(52)]
		}
	}
	return string(b)
}

// field value: VCHAR with inner SP/HTAB, optional trailing OWS, never starting with SP
func fieldValue(g *lp.Gen) string {
	if g.Chance(1, 12) {
		return ""
	}
	n := 1 + g.Intn(24)
	b := make([]byte, n)
	for i := range b {
		switch {
		case i > 0 && g.Chance(1, 8):
			b[i] = ' '
		case i > 0 && g.Chance(1, 40):
			b[i] = '\t'
		default:
			b[i] = byte(33 + g.Intn(94))
		}
	}
	s := string(b)
	if g.Chance(1, 10) {
		s += g.Pick(" ", "  ", "\t", " \t")
	}
	if g.Chance(1, 30) {
		s = "\t" + s
	}
	return s
}

func isFramingName(name string) bool {
	switch http.CanonicalHeaderKey(name) {
	case "Host", "Connection", "Content-Length", "Transfer-Encoding", "Trailer", "Pragma", "Cache-Control":
		return true
	}
	return false
}

func pad(g *lp.Gen) int { return g.PickInt(1, 1, 1, 1, 0, 0, 2, 3) }

func bodyBytes(g *lp.Gen, n int) string {
	if n >= 64 && g.Chance(2, 3) {
		return string(lp.Pattern(n, g.Intn(256)))
	}
	b := make([]byte, n)
	for i := range b {
		b[i] = byte(g.Intn(256))
	}
	// make bodies look like message text sometimes (a mis-placed boundary then parses as something)
	if n >= 18 && g.Chance(1, 4) {
		copy(b, "GET / HTTP/1.1\r\n\r\n")
	}
	return string(b)
}

func bodyLen(g *lp.Gen) int {
	switch g.Intn(12) {
	case 0:
		return 0
	case 1:
		return 1
	case 2:
		return g.PickInt(15, 16, 17, 255, 256, 257)
	case 3:
		return g.PickInt(4095, 4096, 4097, 65535, 65536, 65537)
	case 4:
		return 1000 + g.Intn(30000)
	}
	return 1 + g.Intn(60)
}

func caseMix(g *lp.Gen, s string) string {
	switch g.Intn(5) {
	case 0:
		return strings.ToLower(s)
	case 1:
		return strings.ToUpper(s)
	case 2:
		b := []byte(s)
		for i := range b {
			if g.Chance(1, 2) {
				b[i] = strings.ToUpper(string(b[i]))[0]
			} else {
				b[i] = strings.ToLower(string(b[i]))[0]
			}
		}
		return string(b)
	}
	return s
}

func hexSize(g *lp.Gen, n int) string {
	s := fmt.Sprintf(g.Pick("%x", "%X", "%x"), n)
	if g.Chance(1, 8) {
		s = strings.Repeat("0", 1+g.Intn(3)) + s
	}
	return s
}

func chunkExt(g *lp.Gen) string {
	if g.Chance(3, 4) {
		return ""
	}
	return g.Pick(";a", ";ext=1", ";abc=def;g", ";x=\"q\"", ";0", ";ff")
}

func genTarget(g *lp.Gen, method string) string {
	if method == "OPTIONS" && g.Chance(1, 3) {
		return "*"
	}
	for {
		t := g.Pick("/", "/a/b?x=1", "/echo", "/a%20b", "/x#frag", "/index.html?a=b&c=d", "//double/slash", "/~u/%7e", "/;p=1", "/a:b@c")
		if g.Chance(1, 3) {
			n := 1 + g.Intn(30)
			b := make([]byte, n)
			for i := range b {
				b[i] = byte(33 + g.Intn(94))
			}
			t = "/" + string(b)
		}
		if _, err := url.ParseRequestURI(t); err == nil {
			return t
		}
	}
}

// genMsg draws a message of the agreed domain (wfMsg in HttpMsg.lean).
func genMsg(g *lp.Gen, client bool) *Msg {
	m := &Msg{Resp: client}
	proto := g.Pick("HTTP/1.1", "HTTP/1.1", "HTTP/1.1", "HTTP/1.0")
	code := 0
	if client {
		code = g.PickInt(200, 200, 200, 404, 500, 301, 201, 206, 204, 304, 100, 101, 199, 400, 999)
		reason := g.Pick("OK", "Not Found", "Internal Server Error", "Moved  Permanently", "Created", "x", "No Content", "Switching Protocols", "I'm a teapot", "OK ", "Partial\tContent")
		m.A, m.B, m.C = proto, strconv.Itoa(code), reason
	} else {
		method := g.Pick("GET", "GET", "POST", "POST", "PUT", "DELETE", "HEAD", "OPTIONS", "PATCH", "TRACE", "CONNECT")
		m.A, m.B, m.C = method, genTarget(g, method), proto
	}
	// framing
	bodiless := client && (code/100 == 1 || code == 204 || code == 304)
	kind := g.Intn(3) // 0 none, 1 content-length, 2 chunked
	if bodiless {
		kind = 0
	} else if client && kind == 0 {
		kind = 1 + g.Intn(2)
	}
	if kind == 2 && proto != "HTTP/1.1" {
		kind = 1
	}
	var framing []Hdr
	switch kind {
	case 0:
		m.Kind = 'n'
	case 1:
		m.Kind = 'f'
		m.Fixed = bodyBytes(g, bodyLen(g))
		v := strconv.Itoa(len(m.Fixed))
		if g.Chance(1, 10) {
			v += g.Pick(" ", "  ")
		}
		framing = append(framing, Hdr{caseMix(g, "Content-Length"), pad(g), v})
	case 2:
		m.Kind = 'c'
		framing = append(framing, Hdr{caseMix(g, "Transfer-Encoding"), pad(g), caseMix(g, "chunked") + g.Pick("", "", "", " ", "\t")})
		if g.Chance(1, 10) { // a valid Content-Length next to chunked: chunked overrides
			framing = append(framing, Hdr{"Content-Length", 1, strconv.Itoa(g.Intn(100))})
		}
		nc := g.PickInt(0, 1, 1, 2, 3, 8)
		for i := 0; i < nc; i++ {
			n := bodyLen(g)
			if n == 0 {
				n = 1
			}
			if n > 5000 && i > 0 {
				n = 1 + g.Intn(200)
			}
			m.Chunks = append(m.Chunks, Chunk{hexSize(g, n), chunkExt(g), bodyBytes(g, n)})
		}
		m.Last = g.Pick("0", "0", "0", "00", "000")
		m.LastExt = chunkExt(g)
		if g.Chance(1, 2) {
			nt := 1 + g.Intn(3)
			var names, decl []string
			for len(names) < nt {
				t := g.Pick("X-T", "Etag", "x-checksum", "Expires", "A", "digest") + strconv.Itoa(len(names))
				names = append(names, t)
				decl = append(decl, caseMix(g, t))
			}
			if g.Chance(1, 4) { // a name declared twice
				decl = append(decl, decl[g.Intn(len(decl))])
			}
			if g.Chance(1, 2) || len(decl) == 1 {
				framing = append(framing, Hdr{caseMix(g, "Trailer"), pad(g), strings.Join(decl, g.Pick(",", ", ", " , ", ",,"))})
			} else { // one Trailer field per name
				for _, d := range decl {
					framing = append(framing, Hdr{"Trailer", pad(g), d})
				}
			}
			for _, i := range g.Rng.Perm(nt) {
				m.Trailers = append(m.Trailers, Hdr{caseMix(g, names[i]), pad(g), trailerValue(g)})
			}
		}
	}
	if kind != 2 && g.Chance(1, 15) { // Trailer without chunked: just a header
		framing = append(framing, Hdr{"Trailer", 1, "X-T0"})
	}
	// general headers
	nh := g.PickInt(0, 1, 2, 3, 4, 5, 6, 8, 12, 20)
	var hs []Hdr
	if !client && g.Chance(5, 6) {
		hs = append(hs, Hdr{caseMix(g, "Host"), pad(g), g.Pick("example.com", "a.b:8080", "[::1]:80", "localhost", "EXAMPLE.com ")})
	}
	if g.Chance(1, 2) {
		hs = append(hs, Hdr{caseMix(g, "Connection"), pad(g), g.Pick("close", "keep-alive", "Keep-Alive", "Close", "CLOSE", "upgrade", "close ", "keep-alive  ", "x-other", "TE")})
		if g.Chance(1, 6) {
			hs = append(hs, Hdr{"Connection", 1, g.Pick("close", "keep-alive", "foo")})
		}
	}
	var names []string
	for i := 0; i < nh; i++ {
		name := token(g, 12)
		if len(names) > 0 && g.Chance(1, 5) { // repeated name (multimap), possibly in another case
			name = caseMix(g, names[g.Intn(len(names))])
		}
		if isFramingName(name) {
			continue
		}
		names = append(names, name)
		hs = append(hs, Hdr{name, pad(g), fieldValue(g)})
	}
	// place the framing headers at random positions
	for _, fh := range framing {
		i := g.Intn(len(hs) + 1)
		hs = append(hs[:i], append([]Hdr{fh}, hs[i:]...)...)
	}
	m.Headers = hs
	return m
}

func trailerValue(g *lp.Gen) string {
	n := 1 + g.Intn(12)
	b := make([]byte, n)
	for i := range b {
		b[i] = byte(33 + g.Intn(94))
	}
	s := string(b)
	if g.Chance(1, 3) {
		s += g.Pick(" x", " abc def", "\ty", "  z")
	}
	if g.Chance(1, 10) {
		s += " "
	}
	return s
}

func segmentation(g *lp.Gen, total int) string {
	if total < 2 {
		return "whole"
	}
	switch g.Intn(4) {
	case 0:
		return "whole"
	case 1:
		return strconv.Itoa(1 + g.Intn(total-1))
	case 2:
		var xs []string
		left := total
		for left > 0 && len(xs) < 40 {
			n := 1 + g.Intn(left)
			if g.Chance(1, 2) {
				n = 1 + g.Intn(16)
			}
			xs = append(xs, strconv.Itoa(n))
			left -= n
		}
		return strings.Join(xs, ",")
	}
	// cuts a few bytes around the end: boundary region
	k := 1 + g.Intn(6)
	if k >= total {
		return "whole"
	}
	return strconv.Itoa(total - k)
}

func gen(g *lp.Gen) {
	for cs := 0; cs < g.N; cs++ {
		client := g.Chance(1, 3)
		cl := 0
		if client {
			cl = 1
		}
		if client && g.Chance(1, 8) { // replies to HEAD among ordinary responses: request context on the C line
			heads, raw := genHeadMix(g)
			g.P("C 1 0 0 h=%s", heads)
			g.P("X resp-head-with-framing %s", lp.Hex(raw))
			g.P("F %s", segmentation(g, len(raw)))
			continue
		}
		g.P("C %d 0 0", cl)
		if g.Chance(1, 5) {
			class, raw := genNeighbour(g, client)
			g.P("X %s %s", class, lp.Hex(raw))
			g.P("F %s", segmentation(g, len(raw)))
			continue
		}
		nm := g.PickInt(1, 1, 2, 3)
		total := 0
		for i := 0; i < nm; i++ {
			m := genMsg(g, client)
			total += len(m.Render())
			g.P("M %s", m.Encode())
		}
		g.P("F %s", segmentation(g, total))
	}
}

func main() { lp.Main(gen, exec) }
