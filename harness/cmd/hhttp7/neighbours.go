package main

// Neighbours of the agreed domain (DESIGN §6 C07 / §8 #15): forms on which nbhttp and net/http are not documented
// to agree. They are generated in a separate stream (X lines), compared nbio-model vs nbio-real like everything
// else, and the nbio vs net/http outcome is classified and counted per class; it is reported as a violation only
// for classes listed in `insideWording` (main.go). docs/http.md documents the classification.

import (
	"fmt"
	"strconv"
	"strings"

	"harness/internal/lp"
)

func simpleReq(g *lp.Gen) *Msg {
	m := &Msg{A: g.Pick("GET", "POST", "PUT"), B: g.Pick("/", "/a?b=c"), C: "HTTP/1.1", Kind: 'n'}
	m.Headers = []Hdr{{"Host", 1, "example.com"}}
	if g.Chance(1, 2) {
		m.Headers = append(m.Headers, Hdr{token(g, 8), 1, "v" + strconv.Itoa(g.Intn(100))})
	}
	return m
}

func withBody(g *lp.Gen, m *Msg) *Msg {
	m.Kind = 'f'
	m.Fixed = bodyBytes(g, 1+g.Intn(20))
	m.Headers = append(m.Headers, Hdr{"Content-Length", 1, strconv.Itoa(len(m.Fixed))})
	return m
}

func withChunks(g *lp.Gen, m *Msg) *Msg {
	m.Kind = 'c'
	m.Headers = append(m.Headers, Hdr{"Transfer-Encoding", 1, "chunked"})
	n := 1 + g.Intn(20)
	m.Chunks = []Chunk{{fmt.Sprintf("%x", n), "", bodyBytes(g, n)}}
	m.Last = "0"
	return m
}

func simpleResp(g *lp.Gen) *Msg {
	m := &Msg{Resp: true, A: "HTTP/1.1", B: "200", C: "OK", Kind: 'f'}
	m.Fixed = bodyBytes(g, g.Intn(20))
	m.Headers = []Hdr{{"Content-Length", 1, strconv.Itoa(len(m.Fixed))}}
	return m
}

// follow appends a plain well-formed successor so that a misplaced boundary or a swallowed line shows.
func follow(g *lp.Gen, client bool, b []byte) []byte {
	if g.Chance(1, 2) {
		return b
	}
	if client {
		return append(b, simpleResp(g).Render()...)
	}
	return append(b, simpleReq(g).Render()...)
}

func replaceFirst(b []byte, old, new string) []byte {
	return []byte(strings.Replace(string(b), old, new, 1))
}

// genHeadMix: 1..3 responses drawn from the message grammar, some of them replies to HEAD requests — same header
// section (Content-Length / Transfer-Encoding / Trailer as a GET would get them), no body (RFC 7230 3.3.3 rule 1).
// Which ones is request context: returned as a script for the C line.
func genHeadMix(g *lp.Gen) (heads string, raw []byte) {
	n := 1 + g.Intn(3)
	for i := 0; i < n; i++ {
		m := genMsg(g, true)
		if g.Chance(1, 2) || (n == 1) {
			heads += "1"
			m.Kind, m.Fixed, m.Chunks, m.Trailers, m.Last, m.LastExt = 'n', "", nil, nil, "", ""
		} else {
			heads += "0"
		}
		raw = append(raw, m.Render()...)
	}
	return heads, raw
}

func genNeighbour(g *lp.Gen, client bool) (string, []byte) {
	if client {
		switch g.Intn(10) {
		case 0: // empty reason phrase (RFC 7230: reason-phrase may be empty)
			m := simpleResp(g)
			m.C = ""
			return "resp-empty-reason", follow(g, client, m.Render())
		case 1: // no SP after the status code (not RFC, accepted by net/http)
			m := simpleResp(g)
			return "resp-no-reason-sp", follow(g, client, replaceFirst(m.Render(), "200 OK", "200"))
		case 2: // RFC 7230 3.3.3 rule 1: a 1xx / 204 / 304 response ends with its header section whatever the framing fields say
			m := simpleResp(g)
			m.B = g.Pick("304", "304", "204", "100", "101", "199")
			m.C = "X"
			m.Fixed = ""
			if g.Chance(2, 3) {
				m.Headers = []Hdr{{"Content-Length", 1, strconv.Itoa(g.PickInt(0, 1, 5, 1+g.Intn(30), 100000))}}
			} else {
				m.Headers = []Hdr{{"Transfer-Encoding", 1, "chunked"}}
			}
			if g.Chance(1, 2) {
				m.Headers = append(m.Headers, Hdr{"Etag", 1, "\"x\""})
			}
			m.Kind = 'n'
			class := "resp-304-with-framing" // a server MAY send these (3.3.1, 3.3.2)
			if m.B != "304" {
				class = "resp-1xx-204-with-framing" // a server MUST NOT; the reading rule is the same
			}
			return class, append(m.Render(), simpleResp(g).Render()...)
		default: // Connection: close response header is removed by net/http
			m := simpleResp(g)
			m.Headers = append(m.Headers, Hdr{"Connection", 1, "keep-alive, close"})
			return "resp-connection-list", follow(g, client, m.Render())
		}
	}
	switch g.Intn(26) {
	case 0: // comma-separated Connection token list
		m := simpleReq(g)
		m.C = g.Pick("HTTP/1.1", "HTTP/1.0")
		m.Headers = append(m.Headers, Hdr{"Connection", 1, g.Pick("keep-alive, close", "close, TE", "TE, keep-alive", "foo,close", "Keep-Alive , Upgrade", "upgrade,keep-alive")})
		return "connection-token-list", follow(g, client, m.Render())
	case 1: // header name containing a space
		m := simpleReq(g)
		m.Headers = append(m.Headers, Hdr{g.Pick("Ho st", "X Y", "Content Length", "A "), 1, "x"})
		return "space-in-header-name", follow(g, client, m.Render())
	case 2: // +N Content-Length
		m := withBody(g, simpleReq(g))
		m.Headers[len(m.Headers)-1].Value = "+" + m.Headers[len(m.Headers)-1].Value
		return "plus-content-length", follow(g, client, m.Render())
	case 3: // empty Content-Length
		m := simpleReq(g)
		m.Headers = append(m.Headers, Hdr{"Content-Length", g.Intn(2), ""})
		return "empty-content-length", follow(g, client, m.Render())
	case 4: // multiple differing Content-Length
		m := withBody(g, simpleReq(g))
		m.Headers = append(m.Headers, Hdr{"Content-Length", 1, strconv.Itoa(len(m.Fixed) + 1 + g.Intn(3))})
		return "multiple-content-length-differ", follow(g, client, m.Render())
	case 5: // multiple identical Content-Length
		m := withBody(g, simpleReq(g))
		m.Headers = append(m.Headers, m.Headers[len(m.Headers)-1])
		return "multiple-content-length-same", follow(g, client, m.Render())
	case 6: // lower-case / unknown method
		m := simpleReq(g)
		m.A = g.Pick("get", "Post", "PROPFIND", "M-SEARCH", "FOO")
		return "method-case-or-extension", follow(g, client, m.Render())
	case 7: // absolute-form / authority-form targets
		m := simpleReq(g)
		if g.Chance(1, 2) {
			m.B = g.Pick("http://example.org/a?b", "http://other.example:8080/", "https://x/")
			return "absolute-form-target", follow(g, client, m.Render())
		}
		m.A, m.B = "CONNECT", g.Pick("example.com:443", "*")
		return "connect-authority-or-star", follow(g, client, m.Render())
	case 8: // chunked on HTTP/1.0 (net/http ignores Transfer-Encoding on 1.0 requests)
		m := withChunks(g, simpleReq(g))
		m.C = "HTTP/1.0"
		return "chunked-http10", m.Render()
	case 9: // obs-fold
		m := simpleReq(g)
		m.Headers = append(m.Headers, Hdr{"X-Folded", 1, "a\r\n b"})
		return "obs-fold", follow(g, client, m.Render())
	case 10: // bare LF line endings
		m := simpleReq(g)
		b := m.Render()
		if g.Chance(1, 2) {
			return "bare-lf", follow(g, client, []byte(strings.ReplaceAll(string(b), "\r\n", "\n")))
		}
		return "bare-lf", follow(g, client, replaceFirst(b, "\r\n", "\n"))
	case 11: // trailer with an empty value
		m := withChunks(g, simpleReq(g))
		m.Headers = append(m.Headers, Hdr{"Trailer", 1, "X-T"})
		m.Trailers = []Hdr{{"X-T", g.Intn(2), ""}}
		return "trailer-empty-value", follow(g, client, m.Render())
	case 12: // undeclared trailer
		m := withChunks(g, simpleReq(g))
		m.Trailers = []Hdr{{"X-T", 1, "v"}}
		return "trailer-undeclared", follow(g, client, m.Render())
	case 13: // declared trailer missing
		m := withChunks(g, simpleReq(g))
		m.Headers = append(m.Headers, Hdr{"Trailer", 1, "X-T"})
		return "trailer-declared-missing", follow(g, client, m.Render())
	case 14: // declared trailer sent twice
		m := withChunks(g, simpleReq(g))
		m.Headers = append(m.Headers, Hdr{"Trailer", 1, "X-T"})
		m.Trailers = []Hdr{{"X-T", 1, "v1"}, {"X-T", 1, "v2"}}
		return "trailer-sent-twice", follow(g, client, m.Render())
	case 15: // BWS before a chunk extension / after the size
		m := withChunks(g, simpleReq(g))
		m.Chunks[0].Ext = g.Pick(" ;a=b", " ", "\t;x")
		return "chunk-ext-bws", follow(g, client, m.Render())
	case 16: // chunked plus an invalid Content-Length
		m := withChunks(g, simpleReq(g))
		m.Headers = append(m.Headers, Hdr{"Content-Length", 1, g.Pick("x", "-1", "1 2")})
		return "chunked-with-bad-content-length", follow(g, client, m.Render())
	case 17: // HTAB as OWS around framing / Connection values
		m := withBody(g, simpleReq(g))
		if g.Chance(1, 2) {
			m.Headers[len(m.Headers)-1].Value += "\t"
			return "htab-after-content-length", follow(g, client, m.Render())
		}
		m.Headers = append(m.Headers, Hdr{"Connection", 1, g.Pick("close\t", "\tclose")})
		return "htab-around-connection", follow(g, client, m.Render())
	case 18: // Transfer-Encoding lists / repeated
		m := withChunks(g, simpleReq(g))
		for i := range m.Headers {
			if m.Headers[i].Name == "Transfer-Encoding" {
				m.Headers[i].Value = g.Pick("gzip, chunked", "identity", "chunked, chunked", "chunked,")
			}
		}
		return "transfer-encoding-list", m.Render()
	case 19: // several spaces in the request line / after the version
		m := simpleReq(g)
		b := m.Render()
		return "request-line-extra-sp", follow(g, client, replaceFirst(b, g.Pick(" /", " HTTP/1.1", "HTTP/1.1\r"), g.Pick("  /", "  HTTP/1.1", "HTTP/1.1 \r")))
	case 20: // control bytes / DEL / obs-text in a field value
		m := simpleReq(g)
		m.Headers = append(m.Headers, Hdr{"X-Ctl", 1, "a" + g.Pick("\x00", "\x01", "\x7f", "\x80", "\xff", "\x1f") + "b"})
		return "value-ctl-or-obs-text", follow(g, client, m.Render())
	case 21: // other HTTP versions
		m := simpleReq(g)
		m.C = g.Pick("HTTP/2.0", "HTTP/0.9", "HTTP/1.2", "HTTP/3.0", "http/1.1", "HTTP/1.10")
		return "http-version-other", follow(g, client, m.Render())
	case 22: // chunk-size overflow / 17 hex digits
		m := withChunks(g, simpleReq(g))
		m.Chunks[0].Size = g.Pick("00000000000000001", "10000000000000000", "7fffffffffffffff")
		m.Chunks[0].Data = "x"
		return "chunk-size-huge", m.Render()
	case 23: // Content-Length huge
		m := simpleReq(g)
		m.Headers = append(m.Headers, Hdr{"Content-Length", 1, g.Pick("4611686018427387904", "9223372036854775807", "99999999999999999999")})
		return "content-length-huge", m.Render()
	case 24: // empty header name / line without colon
		m := simpleReq(g)
		b := m.Render()
		return "header-line-malformed", follow(g, client, replaceFirst(b, "Host:", g.Pick(":", "Host", "Host :")))
	default: // leading empty lines before the request line (RFC 7230 §3.5: SHOULD ignore at least one)
		m := simpleReq(g)
		return "leading-crlf", follow(g, client, append([]byte("\r\n"), m.Render()...))
	}
}
