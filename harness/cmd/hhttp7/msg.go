package main

// The message grammar of C07 on the Go side: the same abstract `Msg` as lean/NbioVerif/Model/HttpMsg.lean, its wire
// rendering (compared with the Lean `Msg.render` on every case) and its encoding in the line protocol.

import (
	"fmt"
	"strconv"
	"strings"

	"harness/internal/lp"
)

type Hdr struct {
	Name  string
	Pad   int
	Value string
}

type Chunk struct{ Size, Ext, Data string }

type Msg struct {
	Resp     bool
	A, B, C  string // request: method, target, proto; response: proto, code, reason
	Headers  []Hdr
	Kind     byte // 'n' none, 'f' fixed (Content-Length), 'c' chunked
	Fixed    string
	Chunks   []Chunk
	Last     string
	LastExt  string
	Trailers []Hdr
}

func (h Hdr) render() string { return h.Name + ":" + strings.Repeat(" ", h.Pad) + h.Value + "\r\n" }

func (m *Msg) Render() []byte {
	var sb strings.Builder
	sb.WriteString(m.A + " " + m.B + " " + m.C + "\r\n")
	for _, h := range m.Headers {
		sb.WriteString(h.render())
	}
	sb.WriteString("\r\n")
	switch m.Kind {
	case 'f':
		sb.WriteString(m.Fixed)
	case 'c':
		for _, c := range m.Chunks {
			sb.WriteString(c.Size + c.Ext + "\r\n" + c.Data + "\r\n")
		}
		sb.WriteString(m.Last + m.LastExt + "\r\n")
		for _, h := range m.Trailers {
			sb.WriteString(h.render())
		}
		sb.WriteString("\r\n")
	}
	return []byte(sb.String())
}

// payload encoding: hex, or "@len:pat" when the bytes are exactly lp.Pattern(len, pat)
func encBytes(s string) string { return lp.Hex([]byte(s)) }

func encHdrs(hs []Hdr, sep, inner string) string {
	var xs []string
	for _, h := range hs {
		xs = append(xs, encBytes(h.Name)+inner+strconv.Itoa(h.Pad)+inner+encBytes(h.Value))
	}
	return strings.Join(xs, sep)
}

// Encode prints the message as the tokens of an `M` line. pat[i] >= 0 marks body pieces that are pattern payloads.
func (m *Msg) Encode() string {
	k := "q"
	if m.Resp {
		k = "s"
	}
	s := fmt.Sprintf("%s:%s:%s:%s h=%s ", k, encBytes(m.A), encBytes(m.B), encBytes(m.C), encHdrs(m.Headers, ",", ":"))
	switch m.Kind {
	case 'n':
		s += "b=n"
	case 'f':
		s += "b=f|" + encData(m.Fixed)
	case 'c':
		var cs []string
		for _, c := range m.Chunks {
			cs = append(cs, encBytes(c.Size)+"."+encBytes(c.Ext)+"."+encData(c.Data))
		}
		s += "b=c|" + strings.Join(cs, ";") + "|" + encBytes(m.Last) + "|" + encBytes(m.LastExt) + "|" + encHdrs(m.Trailers, ";", ".")
	}
	return s
}

// encData uses the compact pattern form when the data is a pattern payload.
func encData(d string) string {
	if len(d) >= 64 {
		p := int(d[0])
		if string(lp.Pattern(len(d), p)) == d {
			return fmt.Sprintf("@%d:%d", len(d), p)
		}
	}
	return encBytes(d)
}

func decData(s string) string { return string(lp.Payload(s)) }

func decHdrs(s, sep, inner string) ([]Hdr, error) {
	var hs []Hdr
	if s == "" {
		return nil, nil
	}
	for _, x := range strings.Split(s, sep) {
		f := strings.Split(x, inner)
		if len(f) != 3 {
			return nil, fmt.Errorf("bad header %q", x)
		}
		pad, err := strconv.Atoi(f[1])
		if err != nil {
			return nil, err
		}
		hs = append(hs, Hdr{string(lp.Unhex(f[0])), pad, string(lp.Unhex(f[2]))})
	}
	return hs, nil
}

// Decode parses the tokens of an `M` line (after the "M").
func Decode(f []string) (*Msg, error) {
	if len(f) < 3 {
		return nil, fmt.Errorf("short M line")
	}
	st := strings.Split(f[0], ":")
	if len(st) != 4 || (st[0] != "q" && st[0] != "s") {
		return nil, fmt.Errorf("bad start %q", f[0])
	}
	m := &Msg{Resp: st[0] == "s", A: string(lp.Unhex(st[1])), B: string(lp.Unhex(st[2])), C: string(lp.Unhex(st[3]))}
	if !strings.HasPrefix(f[1], "h=") || !strings.HasPrefix(f[2], "b=") {
		return nil, fmt.Errorf("bad M line")
	}
	var err error
	if m.Headers, err = decHdrs(f[1][2:], ",", ":"); err != nil {
		return nil, err
	}
	b := strings.Split(f[2][2:], "|")
	switch b[0] {
	case "n":
		m.Kind = 'n'
	case "f":
		if len(b) != 2 {
			return nil, fmt.Errorf("bad fixed body")
		}
		m.Kind = 'f'
		m.Fixed = decData(b[1])
	case "c":
		if len(b) != 5 {
			return nil, fmt.Errorf("bad chunked body")
		}
		m.Kind = 'c'
		if b[1] != "" {
			for _, x := range strings.Split(b[1], ";") {
				c := strings.Split(x, ".")
				if len(c) != 3 {
					return nil, fmt.Errorf("bad chunk %q", x)
				}
				m.Chunks = append(m.Chunks, Chunk{string(lp.Unhex(c[0])), string(lp.Unhex(c[1])), decData(c[2])})
			}
		}
		m.Last = string(lp.Unhex(b[2]))
		m.LastExt = string(lp.Unhex(b[3]))
		if m.Trailers, err = decHdrs(b[4], ";", "."); err != nil {
			return nil, err
		}
	default:
		return nil, fmt.Errorf("bad body kind %q", b[0])
	}
	return m, nil
}
