// hclient: the real nbhttp client (ClientConn.Do → nbio conn → engine → client parser → ClientProcessor → callback)
// against a raw loopback server whose response bytes are a fixed function of the request script, compared with the
// parser model run over the same bytes with the same request context (Model/Http.lean: Cfg.head).
//
// ops:   C client           start of a case
//        K <id> <script>     script = comma-separated requests, pipelined on one connection:
//                            method h|g (HEAD / GET)  +  kind l|c|m|n|e
//                              l  200, Content-Length: |body|, body          (HEAD: same header, no body)
//                              c  200, Transfer-Encoding: chunked, two chunks (HEAD: same header, no body)
//                              m  304 with Content-Length: 9, no body
//                              n  204, no body
//                              e  200, Content-Length: 0
// result R client got=<code>:<cl>:<bodylen>:<fnv>,... err=<0|1>   (one entry per response delivered to a callback, in
//        callback order; err=1 when a callback was called with an error, i.e. the connection failed)
// the executor appends raw=<hex of everything the server sends> to the echoed op: the server's bytes are the model's input
//
// Direct oracle: c07-client-head (a callback is missing after the wait, arrives out of order, reports an error, or
// reports the wrong status / body for its request). For scripts that contain a HEAD request whose reply announces a
// body (hl, hc) this is the known finding HTTP-CLIENT-HEAD (the client parser is not told the request method); what
// reaches the callbacks then depends on timing (a parse error closes the connection and fails every callback whose
// job the executor has not run yet), so got= / err= are printed as "~" on both sides and only the oracle speaks.
// Scripts without HEAD wait up to 5 s per case, scripts with HEAD 2 s.
package main

import (
	"bufio"
	"fmt"
	"io"
	"net"
	"net/http"
	"strconv"
	"strings"
	"sync"
	"time"

	"harness/internal/lp"

	"github.com/lesismal/nbio/logging"
	"github.com/lesismal/nbio/nbhttp"
)

func bodyOf(i int) string { return "body-" + strconv.Itoa(i) + strings.Repeat("x", i*7%23) }

// response bytes for request i of the script
func response(i int, tok string) []byte {
	head := tok[0] == 'h'
	b := bodyOf(i)
	var sb strings.Builder
	switch tok[1] {
	case 'l':
		fmt.Fprintf(&sb, "HTTP/1.1 200 OK\r\nX-I: %d\r\nContent-Length: %d\r\n\r\n", i, len(b))
		if !head {
			sb.WriteString(b)
		}
	case 'c':
		fmt.Fprintf(&sb, "HTTP/1.1 200 OK\r\nTransfer-Encoding: chunked\r\nX-I: %d\r\n\r\n", i)
		if !head {
			fmt.Fprintf(&sb, "%x\r\n%s\r\n%x;e=1\r\n%s\r\n0\r\n\r\n", 3, b[:3], len(b)-3, b[3:])
		}
	case 'm':
		fmt.Fprintf(&sb, "HTTP/1.1 304 Not Modified\r\nContent-Length: 9\r\nX-I: %d\r\n\r\n", i)
	case 'n':
		fmt.Fprintf(&sb, "HTTP/1.1 204 No Content\r\nX-I: %d\r\n\r\n", i)
	default:
		fmt.Fprintf(&sb, "HTTP/1.1 200 OK\r\nX-I: %d\r\nContent-Length: 0\r\n\r\n", i)
	}
	return []byte(sb.String())
}

// what the callback of request i must see: status code, body
func expect(i int, tok string) (int, string) {
	head := tok[0] == 'h'
	switch tok[1] {
	case 'l', 'c':
		if head {
			return 200, ""
		}
		return 200, bodyOf(i)
	case 'm':
		return 304, ""
	case 'n':
		return 204, ""
	}
	return 200, ""
}

type scripts struct {
	mu sync.Mutex
	m  map[string][]string
}

func serve(c net.Conn, sc *scripts) {
	defer c.Close()
	br := bufio.NewReader(c)
	for {
		req, err := http.ReadRequest(br)
		if err != nil {
			return
		}
		_, _ = io.Copy(io.Discard, req.Body)
		// path: /<id>/<i>
		f := strings.Split(strings.Trim(req.URL.Path, "/"), "/")
		if len(f) != 2 {
			return
		}
		i, _ := strconv.Atoi(f[1])
		sc.mu.Lock()
		toks := sc.m[f[0]]
		sc.mu.Unlock()
		if i >= len(toks) {
			return
		}
		if _, err := c.Write(response(i, toks[i])); err != nil {
			return
		}
	}
}

type got struct {
	i    int
	code int
	cl   int64
	body []byte
	err  error
}

func exec(e *lp.Exec) {
	logging.SetLevel(logging.LevelNone)
	ln, err := net.Listen("tcp", "127.0.0.1:0")
	if err != nil {
		e.P("R listen-failed %v", err)
		return
	}
	defer ln.Close()
	sc := &scripts{m: map[string][]string{}}
	go func() {
		for {
			c, err := ln.Accept()
			if err != nil {
				return
			}
			go serve(c, sc)
		}
	}()
	engine := nbhttp.NewEngine(nbhttp.Config{})
	if err := engine.Start(); err != nil {
		e.P("R start-failed %v", err)
		return
	}
	defer engine.Stop()
	for e.In.Scan() {
		line := e.In.Text()
		f := strings.Fields(line)
		if len(f) == 0 {
			continue
		}
		if f[0] == "C" && len(f) == 2 && f[1] == "client" {
			e.P("> %s", line)
			e.P("ok")
			continue
		}
		if f[0] != "K" || len(f) != 3 {
			e.P("> %s", line)
			e.P("bad-op")
			continue
		}
		id, toks := f[1], strings.Split(f[2], ",")
		ok := true
		for _, t := range toks {
			if len(t) != 2 || !strings.Contains("hg", t[:1]) || !strings.Contains("lcmne", t[1:]) {
				ok = false
			}
		}
		if !ok {
			e.P("> %s", line)
			e.P("bad-op")
			continue
		}
		sc.mu.Lock()
		sc.m[id] = toks
		sc.mu.Unlock()
		var raw []byte
		for i, t := range toks {
			raw = append(raw, response(i, t)...)
		}
		e.P("> %s raw=%s", line, lp.Hex(raw))
		cc := &nbhttp.ClientConn{Engine: engine, Timeout: 8 * time.Second}
		ch := make(chan got, len(toks))
		for i, t := range toks {
			i := i
			method := "GET"
			if t[0] == 'h' {
				method = "HEAD"
			}
			req, _ := http.NewRequest(method, fmt.Sprintf("http://%s/%s/%d", ln.Addr().String(), id, i), nil)
			cc.Do(req, func(res *http.Response, conn net.Conn, err error) {
				g := got{i: i, err: err}
				if err == nil && res != nil {
					g.code, g.cl = res.StatusCode, res.ContentLength
					if res.Body != nil {
						g.body, _ = io.ReadAll(res.Body)
					}
				}
				ch <- g
			})
		}
		var out []string
		wait := 5 * time.Second
		if strings.Contains(","+f[2], ",h") {
			wait = 2 * time.Second
		}
		deadline := time.After(wait)
		nhead, failed, ncb := 0, 0, 0
	collect:
		for k := range toks {
			select {
			case g := <-ch:
				ncb++
				if g.err != nil {
					e.Oracle("c07-client-head", "script %s: callback %d reports %v", f[2], k, g.err)
					failed = 1
					continue
				}
				code, body := expect(g.i, toks[g.i])
				if g.i != k {
					e.Oracle("c07-client-head", "script %s: callback %d is for request %d", f[2], k, g.i)
				} else if g.code != code || string(g.body) != body {
					e.Oracle("c07-client-head", "script %s: request %d (%s) got status %d body %q, the server sent %d %q", f[2], k, toks[k], g.code, g.body, code, body)
				}
				if toks[k][0] == 'h' {
					nhead++
				}
				out = append(out, fmt.Sprintf("%d:%d:%d:%x", g.code, g.cl, len(g.body), lp.Fnv(g.body)))
			case <-deadline:
				e.Oracle("c07-client-head", "script %s: %d of %d callbacks after %v", f[2], ncb, len(toks), wait)
				break collect
			}
		}
		cc.Close()
		e.Key(f[2], nhead > 0 || len(toks) > 1)
		e.Count("requests", strconv.Itoa(len(toks)))
		if strings.Contains(","+f[2], ",hl") || strings.Contains(","+f[2], ",hc") {
			// known finding HTTP-CLIENT-HEAD: the misparse ends in a parse error, and whether the responses parsed
			// before it reach their callbacks or are failed by the close depends on the executor's timing — the
			// oracle reports above are the witness, the deliveries are not compared
			e.P("R client got=~ err=~")
		} else {
			e.P("R client got=%s err=%d", strings.Join(out, ","), failed)
		}
	}
}

func gen(g *lp.Gen) {
	for cs := 0; cs < g.N; cs++ {
		n := 1 + g.Intn(6)
		withHead := g.Chance(1, 5) // HEAD scripts wait out the known finding: keep them few
		var toks []string
		for i := 0; i < n; i++ {
			m := "g"
			if withHead && g.Chance(1, 2) {
				m = "h"
			}
			toks = append(toks, m+g.Pick("l", "l", "c", "c", "m", "n", "e"))
		}
		g.P("C client")
		g.P("K k%d-%d %s", g.Rng.Int31(), cs, strings.Join(toks, ","))
	}
}

func main() { lp.Main(gen, exec) }
