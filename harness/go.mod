module harness

go 1.21

require github.com/lesismal/nbio v0.0.0

replace github.com/lesismal/nbio => ../nbio
