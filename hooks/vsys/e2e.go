// e2e.go: observers for REAL descriptors, used by harness he2e (C10). Add-only; nil by default.
package vsys

// RealReadHook, when set, sees every read(2) that nbio issues on a descriptor that is not virtual, right after
// the kernel answered and before nbio acts on the bytes: b[:n] is what this one read delivered. he2e follows the
// TLS record framing of a connection with it (a read that ends inside an alert record is the trigger of a defect
// of the TLS dependency; the harness needs to know that it happened, not guess it from sizes).
var RealReadHook func(fd int, b []byte, n int, err error)

// RealCloseHook, when set, is called before close(2) on a descriptor that is not virtual.
var RealCloseHook func(fd int)
