// Package vsys: syscall shim injected into the scratch copy of nbio (never committed to /repo).
//
// Real descriptors pass straight through to package syscall, so the same binary also runs the
// real-socket tiers. A *virtual* descriptor (an open /dev/null fd registered with NewVFD) plays a
// scripted kernel:
//   - write-like calls (write, writev, sendfile, sendto) consume one scripted answer each; accepted
//     bytes are appended to the descriptor's wire log; an exhausted script means EAGAIN;
//   - reads are served from a scripted receive queue (Rq); empty queue = EAGAIN, or 0 (EOF) once
//     RdEOF is set, or RdErr if set;
//   - epoll_ctl calls are recorded (ADD registers; MOD/DEL before ADD fail with ENOENT);
//   - EpollWait on an epfd, once VirtualAll is set, returns batches injected with Inject and
//     acknowledges when the poller comes back for more, so the harness drives the real event loop
//     body deterministically, one batch at a time.
//
// Compiles under the language version of nbio's go.mod (go 1.16): no generics, no unsafe.Slice.
package vsys

import (
	"sync"
	"sync/atomic"
	"syscall"
	"time"
	"unsafe"
)

// ---- atomic hooks (schedule forcing at the model's granularity)

// AtomicHook, when set, is called after every rerouted atomic.AddInt32 with the delta and result.
var AtomicHook func(p *int32, delta, result int32)

// AtomicHook64 is the int64 twin (taskpool counter).
var AtomicHook64 func(p *int64, delta, result int64)

func AddInt32(p *int32, d int32) int32 {
	v := atomic.AddInt32(p, d)
	if h := AtomicHook; h != nil {
		h(p, d, v)
	}
	return v
}

func AddInt64(p *int64, d int64) int64 {
	v := atomic.AddInt64(p, d)
	if h := AtomicHook64; h != nil {
		h(p, d, v)
	}
	return v
}

func bytesAt(p *byte, n int) []byte {
	if n == 0 {
		return nil
	}
	return (*[1 << 30]byte)(unsafe.Pointer(p))[:n:n]
}

// ---- virtual descriptors

// Ans is one scripted kernel answer to a write-like call: accept N bytes (capped at the request),
// or fail with Err.
type Ans struct {
	N   int
	Err syscall.Errno // 0 = ok
}

// Dgram is one datagram in a virtual UDP socket's receive queue.
type Dgram struct {
	Data []byte
	From syscall.Sockaddr
}

type VFD struct {
	mu     sync.Mutex
	Script []Ans    // answers for write-like syscalls, consumed in order
	Wire   []byte   // bytes the kernel accepted, in order
	Log    []string // syscall log: write, writev, sendfile, read, close, ...
	Ctl    []string // epoll_ctl calls: A|M|D + r|w|rw (+ e for ET, o for ONESHOT), "!" suffix if it failed
	Reg    bool     // registered with an epoll instance
	Events uint32   // last registered interest set
	Closed bool

	Rq    []byte        // stream receive queue
	RdEOF bool          // empty queue reads return 0
	RdErr syscall.Errno // empty queue reads fail with this error (if non-zero)
	Dq    []Dgram       // datagram receive queue (Recvfrom)
	Sent  []Dgram       // datagrams sent with Sendto

	RdIntr int // number of upcoming read calls answered with EINTR before the queue is looked at

	Refusals  int64 // write-like calls answered EAGAIN or with a short count (the socket buffer is full)
	Reads     int64 // number of read calls
	ReadsIdle int64 // number of read calls that found nothing (EAGAIN)
	Writes    int64 // number of write-like calls

	ConnectErr syscall.Errno // answer of Connect on this fd (EINPROGRESS typical)
	SoError    int           // SO_ERROR value for GetsockoptInt
}

var (
	mu      sync.Mutex
	vfds    = map[int]*VFD{}
	inject  = map[int]chan []syscall.EpollEvent{} // per epfd
	idle    = map[int]chan struct{}{}
	pending = map[int]bool{}
	// FileData lets Sendfile on a virtual fd read the source file with pread (real file fd).
)

// VirtualAll switches every EpollWait to the injected-batch regime (real events are still polled
// with a 1 ms timeout so that eventfd wake-ups and real sockets keep working).
var VirtualAll bool

// NewVFD opens a virtual descriptor.
func NewVFD() (int, *VFD) {
	fd, err := syscall.Open("/dev/null", syscall.O_RDWR, 0)
	if err != nil {
		panic(err)
	}
	v := &VFD{}
	mu.Lock()
	vfds[fd] = v
	mu.Unlock()
	return fd, v
}

// Forget drops the registration of fd (after the harness is done with it).
func Forget(fd int) { mu.Lock(); delete(vfds, fd); mu.Unlock() }

func get(fd int) *VFD { mu.Lock(); defer mu.Unlock(); return vfds[fd] }

// Get returns the virtual descriptor behind fd, or nil.
func Get(fd int) *VFD { return get(fd) }

// Lock / Unlock let the harness edit a VFD's scripts while pollers run.
func (v *VFD) Lock()   { v.mu.Lock() }
func (v *VFD) Unlock() { v.mu.Unlock() }

// SetScript replaces the write answers.
func (v *VFD) SetScript(a []Ans) { v.mu.Lock(); v.Script = a; v.mu.Unlock() }

// Push appends bytes to the stream receive queue.
func (v *VFD) Push(b []byte) { v.mu.Lock(); v.Rq = append(v.Rq, b...); v.mu.Unlock() }

// Snapshot returns copies of the observable logs.
func (v *VFD) Snapshot() (wire []byte, ctl []string, log []string, closed bool, rq int) {
	v.mu.Lock()
	defer v.mu.Unlock()
	return append([]byte(nil), v.Wire...), append([]string(nil), v.Ctl...), append([]string(nil), v.Log...), v.Closed, len(v.Rq)
}

// ZeroLen, when set, answers write-like calls whose request is empty (the kernel returns 0 for
// those without needing room, so no scripted answer is consumed).
var ZeroLen func(v *VFD) (int, error)

func (v *VFD) answer(want int) (int, error) {
	v.Writes++
	if want == 0 && ZeroLen != nil {
		return ZeroLen(v)
	}
	if len(v.Script) == 0 {
		v.Refusals++
		return -1, syscall.EAGAIN // exhausted script: kernel is full from now on
	}
	a := v.Script[0]
	v.Script = v.Script[1:]
	if a.Err != 0 {
		if a.Err == syscall.EAGAIN {
			v.Refusals++
		}
		return -1, a.Err
	}
	if a.N > want {
		a.N = want
	}
	if a.N < want {
		v.Refusals++
	}
	return a.N, nil
}

// WriteCheck, when set, sees every buffer handed to Write on a virtual descriptor before the kernel
// answers (C11: the memory must lie in a live pooled buffer or in memory the pool never owned).
var WriteCheck func(fd int, b []byte)

func Write(fd int, b []byte) (int, error) {
	if v := get(fd); v != nil {
		if WriteCheck != nil {
			WriteCheck(fd, b)
		}
		v.mu.Lock()
		defer v.mu.Unlock()
		n, err := v.answer(len(b))
		if n > 0 {
			v.Wire = append(v.Wire, b[:n]...)
		}
		v.Log = append(v.Log, "write")
		return n, err
	}
	return syscall.Write(fd, b)
}

func Read(fd int, b []byte) (int, error) {
	if v := get(fd); v != nil {
		n, err := v.read(b)
		if h := ReadHook; h != nil {
			h(fd, n, err)
		}
		return n, err
	}
	atomic.AddInt64(&realReads, 1)
	if h := RealReadHook; h != nil {
		n, err := syscall.Read(fd, b)
		h(fd, b, n, err)
		return n, err
	}
	return syscall.Read(fd, b)
}

func (v *VFD) read(b []byte) (int, error) {
	{
		v.mu.Lock()
		defer v.mu.Unlock()
		atomic.AddInt64(&v.Reads, 1)
		v.Log = append(v.Log, "read")
		if v.RdIntr > 0 {
			v.RdIntr--
			return -1, syscall.EINTR
		}
		if len(v.Rq) == 0 {
			if v.RdErr != 0 {
				return -1, v.RdErr
			}
			if v.RdEOF {
				return 0, nil
			}
			atomic.AddInt64(&v.ReadsIdle, 1)
			return -1, syscall.EAGAIN
		}
		n := copy(b, v.Rq)
		v.Rq = v.Rq[n:]
		return n, nil
	}
}

func Recvfrom(fd int, b []byte, flags int) (int, syscall.Sockaddr, error) {
	if v := get(fd); v != nil {
		n, from, err := v.recvfrom(b)
		if h := ReadHook; h != nil {
			h(fd, n, err)
		}
		return n, from, err
	}
	atomic.AddInt64(&realReads, 1)
	return syscall.Recvfrom(fd, b, flags)
}

func (v *VFD) recvfrom(b []byte) (int, syscall.Sockaddr, error) {
	{
		v.mu.Lock()
		defer v.mu.Unlock()
		atomic.AddInt64(&v.Reads, 1)
		v.Log = append(v.Log, "recvfrom")
		if v.RdIntr > 0 {
			v.RdIntr--
			return -1, nil, syscall.EINTR
		}
		if len(v.Dq) == 0 {
			if v.RdErr != 0 {
				return -1, nil, v.RdErr
			}
			atomic.AddInt64(&v.ReadsIdle, 1)
			return -1, nil, syscall.EAGAIN
		}
		d := v.Dq[0]
		v.Dq = v.Dq[1:]
		n := copy(b, d.Data) // excess bytes of a datagram are discarded, as the kernel does
		return n, d.From, nil
	}
}

func Sendto(fd int, b []byte, flags int, to syscall.Sockaddr) error {
	if v := get(fd); v != nil {
		v.mu.Lock()
		defer v.mu.Unlock()
		_, err := v.answer(len(b))
		v.Log = append(v.Log, "sendto")
		if err != nil {
			return err
		}
		v.Sent = append(v.Sent, Dgram{Data: append([]byte(nil), b...), From: to})
		return nil
	}
	return syscall.Sendto(fd, b, flags, to)
}

// Sendfile on a virtual out-fd: the scripted answer says how many bytes the kernel takes; the bytes
// are read from the (real) source descriptor with pread at *off and appended to the wire log.
func Sendfile(out, in int, off *int64, count int) (int, error) {
	if v := get(out); v != nil {
		v.mu.Lock()
		defer v.mu.Unlock()
		v.Log = append(v.Log, "sendfile")
		n, err := v.answer(count)
		if err != nil {
			return -1, err
		}
		buf := make([]byte, n)
		got := 0
		for got < n {
			k, e := syscall.Pread(in, buf[got:], *off+int64(got))
			if k <= 0 || e != nil {
				break
			}
			got += k
		}
		v.Wire = append(v.Wire, buf[:got]...)
		*off += int64(got)
		return got, nil
	}
	return syscall.Sendfile(out, in, off, count)
}

// CloseHook, when set, is called at the entry of Close on a virtual descriptor, before it is marked
// closed: a yield point inside a connection's teardown (after the closed flag was set).
var CloseHook func(fd int)

func Close(fd int) error {
	if v := get(fd); v != nil {
		if h := CloseHook; h != nil {
			h(fd)
		}
		v.mu.Lock()
		v.Closed = true
		v.Log = append(v.Log, "close")
		v.mu.Unlock()
	} else if h := RealCloseHook; h != nil {
		h(fd)
	}
	return syscall.Close(fd)
}

// DupHook, when set, is asked before every dup(2): a non-zero errno makes the call fail with it
// (descriptor table full) instead of duplicating.
var DupHook func(fd int) syscall.Errno

func Dup(fd int) (int, error) {
	if h := DupHook; h != nil {
		if e := h(fd); e != 0 {
			return -1, e
		}
	}
	return syscall.Dup(fd)
}

func Connect(fd int, sa syscall.Sockaddr) error {
	if h := ConnectHook; h != nil {
		h(fd, sa) // may Adopt(fd) and script ConnectErr/SoError
	}
	if v := get(fd); v != nil {
		v.mu.Lock()
		defer v.mu.Unlock()
		v.Log = append(v.Log, "connect")
		if v.ConnectErr != 0 {
			return v.ConnectErr
		}
		return nil
	}
	return syscall.Connect(fd, sa)
}

func evString(ev uint32) string {
	s := ""
	if ev&syscall.EPOLLIN != 0 {
		s += "r"
	}
	if ev&syscall.EPOLLOUT != 0 {
		s += "w"
	}
	if ev&(1<<31) != 0 { // EPOLLET
		s += "e"
	}
	if ev&syscall.EPOLLONESHOT != 0 {
		s += "o"
	}
	return s
}

// CtlHook, when set, is called at the entry of every epoll_ctl on a virtual descriptor (before the
// call takes effect and without any shim lock held): a yield point for schedule forcing between a
// decision taken by the caller and its epoll_ctl.
var CtlHook func(fd, op int, events uint32)

func EpollCtl(epfd, op, fd int, ev *syscall.EpollEvent) error {
	if v := get(fd); v != nil {
		if h := CtlHook; h != nil {
			var e uint32
			if ev != nil {
				e = ev.Events
			}
			h(fd, op, e)
		}
		v.mu.Lock()
		defer v.mu.Unlock()
		if v.Closed && CtlAfterCloseEBADF {
			// the descriptor was closed: the kernel answers EBADF (and has dropped the registration)
			v.Ctl = append(v.Ctl, "X!")
			v.Log = append(v.Log, "epoll_ctl")
			return syscall.EBADF
		}
		switch op {
		case syscall.EPOLL_CTL_ADD:
			if v.Reg {
				v.Ctl = append(v.Ctl, "A"+evString(ev.Events)+"!")
				return syscall.EEXIST
			}
			v.Reg = true
			v.Events = ev.Events
			v.Ctl = append(v.Ctl, "A"+evString(ev.Events))
			return nil
		case syscall.EPOLL_CTL_MOD:
			if !v.Reg {
				v.Ctl = append(v.Ctl, "M"+evString(ev.Events)+"!")
				return syscall.ENOENT
			}
			v.Events = ev.Events
			v.Ctl = append(v.Ctl, "M"+evString(ev.Events))
			return nil
		default:
			if !v.Reg {
				v.Ctl = append(v.Ctl, "D!")
				return syscall.ENOENT
			}
			v.Reg = false
			v.Ctl = append(v.Ctl, "D")
			return nil
		}
	}
	return syscall.EpollCtl(epfd, op, fd, ev)
}

func chans(epfd int) (chan []syscall.EpollEvent, chan struct{}) {
	mu.Lock()
	defer mu.Unlock()
	if !VirtualAll {
		return nil, nil
	}
	if inject[epfd] == nil {
		inject[epfd] = make(chan []syscall.EpollEvent)
		idle[epfd] = make(chan struct{})
	}
	return inject[epfd], idle[epfd]
}

// Inject delivers events to the poller owning epfd and returns once the poller has processed the
// whole batch and re-entered EpollWait.
func Inject(epfd int, evs []syscall.EpollEvent) {
	ch, id := chans(epfd)
	ch <- evs
	<-id
}

// InjectAsync delivers the batch like Inject but returns at once; the channel is closed when the poller
// has processed the whole batch and re-entered EpollWait (the caller can watch for progress meanwhile).
func InjectAsync(epfd int, evs []syscall.EpollEvent) <-chan struct{} {
	ch, id := chans(epfd)
	done := make(chan struct{})
	go func() {
		ch <- evs
		<-id
		close(done)
	}()
	return done
}

// InjectTimeout is Inject with a bound on the wait for the acknowledgement; false = the poller did
// not come back in time (it is stuck in the batch: a hang of the event loop body).
func InjectTimeout(epfd int, evs []syscall.EpollEvent, d time.Duration) bool {
	ch, id := chans(epfd)
	select {
	case ch <- evs:
	case <-time.After(d):
		return false
	}
	select {
	case <-id:
		return true
	case <-time.After(d):
		return false
	}
}

func EpollWait(epfd int, events []syscall.EpollEvent, msec int) (int, error) {
	ch, id := chans(epfd)
	if ch == nil {
		return syscall.EpollWait(epfd, events, msec)
	}
	// signal: previous injected batch fully processed
	mu.Lock()
	p := pending[epfd]
	pending[epfd] = false
	mu.Unlock()
	if p {
		id <- struct{}{}
	}
	for {
		select {
		case evs := <-ch:
			mu.Lock()
			pending[epfd] = true
			mu.Unlock()
			return copy(events, evs), nil
		default:
		}
		n, err := syscall.EpollWait(epfd, events, 1)
		if n > 0 {
			atomic.AddInt64(&realWakeups, 1)
		}
		if n > 0 || (err != nil && err != syscall.EINTR) {
			return n, err
		}
		time.Sleep(100 * time.Microsecond)
	}
}

func Syscall(trap, a1, a2, a3 uintptr) (uintptr, uintptr, syscall.Errno) {
	if trap == syscall.SYS_WRITEV {
		if v := get(int(a1)); v != nil {
			v.mu.Lock()
			defer v.mu.Unlock()
			iovs := (*[1 << 20]syscall.Iovec)(unsafe.Pointer(a2))[:int(a3):int(a3)]
			total := 0
			for _, io := range iovs {
				total += int(io.Len)
			}
			n, err := v.answer(total)
			v.Log = append(v.Log, "writev")
			if err != nil {
				return ^uintptr(0), 0, err.(syscall.Errno)
			}
			rem := n
			for _, io := range iovs {
				if rem == 0 {
					break
				}
				k := int(io.Len)
				if k > rem {
					k = rem
				}
				v.Wire = append(v.Wire, bytesAt(io.Base, k)...)
				rem -= k
			}
			return uintptr(n), 0, 0
		}
	}
	return syscall.Syscall(trap, a1, a2, a3)
}
