// Package vsys: syscall shim. Real fds pass through; virtual fds are simulated and scripted.
package vsys

import (
	"sync"
	"sync/atomic"
	"syscall"
	"time"
	"unsafe"
)

// AtomicHook, when set, is called after every rerouted atomic.AddInt32 with the delta and the result.
var AtomicHook func(delta, result int32)

func AddInt32(p *int32, d int32) int32 {
	v := atomic.AddInt32(p, d)
	if h := AtomicHook; h != nil {
		h(d, v)
	}
	return v
}

// AtomicHook64 is the int64 twin (taskpool counter).
var AtomicHook64 func(p *int64, delta, result int64)

func AddInt64(p *int64, d int64) int64 {
	v := atomic.AddInt64(p, d)
	if h := AtomicHook64; h != nil {
		h(p, d, v)
	}
	return v
}

func bytesAt(p *byte, n int) []byte {
	if n == 0 {
		return nil
	}
	return (*[1 << 30]byte)(unsafe.Pointer(p))[:n:n]
}

// Reads counts read syscalls on virtual fds; Avail is the scripted receive queue size.
var Reads int64

type Ans struct {
	N   int
	Err syscall.Errno // 0 = ok
}

type VFD struct {
	Script []Ans    // answers for write-like syscalls, consumed in order
	Wire   []byte   // bytes accepted
	Log    []string // syscall log
	Ctl    []string // epoll_ctl calls: A|M, r|w, ! if failed
	Reg    bool
	Closed bool
}

var (
	mu     sync.Mutex
	vfds   = map[int]*VFD{}
	inject = map[int]chan []syscall.EpollEvent{} // per epfd
	idle   = map[int]chan struct{}{}
)

func NewVFD() (int, *VFD) {
	fd, err := syscall.Open("/dev/null", syscall.O_RDWR, 0)
	if err != nil {
		panic(err)
	}
	v := &VFD{}
	mu.Lock()
	vfds[fd] = v
	mu.Unlock()
	return fd, v
}

func get(fd int) *VFD { mu.Lock(); defer mu.Unlock(); return vfds[fd] }

var VirtualAll bool
var pending = map[int]bool{}

func chans(epfd int) (chan []syscall.EpollEvent, chan struct{}) {
	mu.Lock()
	defer mu.Unlock()
	if !VirtualAll {
		return nil, nil
	}
	if inject[epfd] == nil {
		inject[epfd] = make(chan []syscall.EpollEvent)
		idle[epfd] = make(chan struct{})
	}
	return inject[epfd], idle[epfd]
}

// Inject delivers events to the poller owning epfd and waits until it has processed them.
func Inject(epfd int, evs []syscall.EpollEvent) {
	ch, id := chans(epfd)
	ch <- evs
	<-id
}

func (v *VFD) answer(want int) (int, error) {
	if len(v.Script) == 0 {
		return -1, syscall.EAGAIN // exhausted script: kernel is full from now on
	}
	a := v.Script[0]
	v.Script = v.Script[1:]
	if a.Err != 0 {
		return -1, a.Err
	}
	if a.N > want {
		a.N = want
	}
	return a.N, nil
}

func Write(fd int, b []byte) (int, error) {
	if v := get(fd); v != nil {
		n, err := v.answer(len(b))
		if n > 0 {
			v.Wire = append(v.Wire, b[:n]...)
		}
		v.Log = append(v.Log, "write")
		return n, err
	}
	return syscall.Write(fd, b)
}

func Read(fd int, b []byte) (int, error) {
	if v := get(fd); v != nil {
		atomic.AddInt64(&Reads, 1)
		return -1, syscall.EAGAIN
	}
	return syscall.Read(fd, b)
}
func Recvfrom(fd int, b []byte, flags int) (int, syscall.Sockaddr, error) { return syscall.Recvfrom(fd, b, flags) }
func Sendto(fd int, b []byte, flags int, to syscall.Sockaddr) error        { return syscall.Sendto(fd, b, flags, to) }
func Sendfile(out, in int, off *int64, count int) (int, error) {
	return syscall.Sendfile(out, in, off, count)
}
func Close(fd int) error {
	if v := get(fd); v != nil {
		v.Closed = true
		v.Log = append(v.Log, "close")
	}
	return syscall.Close(fd)
}
func Dup(fd int) (int, error)                   { return syscall.Dup(fd) }
func Connect(fd int, sa syscall.Sockaddr) error { return syscall.Connect(fd, sa) }

func EpollCtl(epfd, op, fd int, ev *syscall.EpollEvent) error {
	if v := get(fd); v != nil {
		rw := "r"
		if ev.Events&syscall.EPOLLOUT != 0 {
			rw = "w"
		}
		if op == syscall.EPOLL_CTL_ADD {
			v.Reg = true
			v.Ctl = append(v.Ctl, "A"+rw)
			return nil
		}
		if !v.Reg {
			v.Ctl = append(v.Ctl, "M"+rw+"!")
			return syscall.ENOENT
		}
		v.Ctl = append(v.Ctl, "M"+rw)
		return nil
	}
	return syscall.EpollCtl(epfd, op, fd, ev)
}

func EpollWait(epfd int, events []syscall.EpollEvent, msec int) (int, error) {
	ch, id := chans(epfd)
	if ch == nil {
		return syscall.EpollWait(epfd, events, msec)
	}
	// signal: previous injected batch fully processed
	mu.Lock()
	p := pending[epfd]
	pending[epfd] = false
	mu.Unlock()
	if p {
		id <- struct{}{}
	}
	for {
		select {
		case evs := <-ch:
			mu.Lock()
			pending[epfd] = true
			mu.Unlock()
			return copy(events, evs), nil
		default:
		}
		n, err := syscall.EpollWait(epfd, events, 1)
		if n > 0 || (err != nil && err != syscall.EINTR) {
			return n, err
		}
		time.Sleep(200 * time.Microsecond)
	}
}

func Syscall(trap, a1, a2, a3 uintptr) (uintptr, uintptr, syscall.Errno) {
	if trap == syscall.SYS_WRITEV {
		if v := get(int(a1)); v != nil {
			iovs := (*[1 << 20]syscall.Iovec)(unsafe.Pointer(a2))[:int(a3):int(a3)]
			total := 0
			for _, io := range iovs {
				total += int(io.Len)
			}
			n, err := v.answer(total)
			if err != nil {
				return ^uintptr(0), 0, err.(syscall.Errno)
			}
			rem := n
			for _, io := range iovs {
				if rem == 0 {
					break
				}
				k := int(io.Len)
				if k > rem {
					k = rem
				}
				v.Wire = append(v.Wire, bytesAt(io.Base, k)...)
				rem -= k
			}
			v.Log = append(v.Log, "writev")
			return uintptr(n), 0, 0
		}
	}
	return syscall.Syscall(trap, a1, a2, a3)
}
