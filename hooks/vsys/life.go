// life.go: extensions of the shim used by the C02/C03 harnesses (hread, hlife). Add-only.
package vsys

import (
	"sync/atomic"
	"syscall"
	"time"
)

// ReadHook, when set, is called after every read/recvfrom on a *virtual* descriptor, on the calling
// goroutine, once the answer is determined and before it is returned to nbio. It may park the
// caller: this is the pause point "after the read, before the caller acts on it" of the read task.
var ReadHook func(fd int, n int, err error)

// ConnectHook, when set, is called at the start of every rerouted connect(2) with the descriptor
// and the target address. The hook may call Adopt(fd) to turn the (real, never connected) socket
// into a virtual descriptor and script the answer of this connect (VFD.ConnectErr) and the later
// SO_ERROR value (VFD.SoError).
var ConnectHook func(fd int, sa syscall.Sockaddr)

// CtlAfterCloseEBADF makes epoll_ctl on a virtual descriptor that was already closed fail with EBADF, as the kernel
// does (opt-in, so that harnesses written before it keep their epoll_ctl logs).
var CtlAfterCloseEBADF bool

// Adopt registers an existing descriptor as virtual (the descriptor stays open and valid, so
// Close works and the number cannot be reused while the conn lives).
func Adopt(fd int) *VFD {
	v := &VFD{}
	mu.Lock()
	vfds[fd] = v
	mu.Unlock()
	return v
}

// GetsockoptInt: SO_ERROR of a virtual descriptor is the scripted SoError (reading it clears it,
// as the kernel does); everything else passes through.
func GetsockoptInt(fd, level, opt int) (int, error) {
	if v := get(fd); v != nil && level == syscall.SOL_SOCKET && opt == syscall.SO_ERROR {
		v.mu.Lock()
		defer v.mu.Unlock()
		v.Log = append(v.Log, "getsockopt")
		e := v.SoError
		v.SoError = 0
		return e, nil
	}
	return syscall.GetsockoptInt(fd, level, opt)
}

// SetRead scripts the read side in one locked step.
func (v *VFD) SetRead(eof bool, err syscall.Errno, intr int) {
	v.mu.Lock()
	if eof {
		v.RdEOF = true
	}
	if err != 0 {
		v.RdErr = err
	}
	v.RdIntr += intr
	v.mu.Unlock()
}

// PushDgram appends one datagram to the datagram receive queue.
func (v *VFD) PushDgram(data []byte, from syscall.Sockaddr) {
	v.mu.Lock()
	v.Dq = append(v.Dq, Dgram{Data: append([]byte(nil), data...), From: from})
	v.mu.Unlock()
}

// ReadSide returns the state of the receive side: queued stream bytes, queued datagrams, counters.
func (v *VFD) ReadSide() (rq int, dq int, reads, idle int64) {
	v.mu.Lock()
	defer v.mu.Unlock()
	return len(v.Rq), len(v.Dq), v.Reads, v.ReadsIdle
}

// CtlLog returns a copy of the epoll_ctl log and the registration state.
func (v *VFD) CtlLog() (ctl []string, reg bool, events uint32) {
	v.mu.Lock()
	defer v.mu.Unlock()
	return append([]string(nil), v.Ctl...), v.Reg, v.Events
}

// LogLen returns the number of syscalls logged on the descriptor so far.
func (v *VFD) LogLen() int {
	v.mu.Lock()
	defer v.mu.Unlock()
	return len(v.Log)
}

// IsClosed reports whether close(2) was called on the descriptor.
func (v *VFD) IsClosed() bool {
	v.mu.Lock()
	defer v.mu.Unlock()
	return v.Closed
}

// InjectPatient is InjectTimeout with a one-sided bound: the poller is declared stuck (false) only after it failed to come
// back during `healthy` of time in which this PROCESS was demonstrably scheduled — a canary goroutine that sleeps 1 ms
// per round must have made at least a quarter of its rounds in a second for that second to count. On a starved machine
// the wait simply gets longer (absolute cap: 20 x healthy).
func InjectPatient(epfd int, evs []syscall.EpollEvent, healthy time.Duration) bool {
	return WaitPatient(InjectAsync(epfd, evs), healthy)
}

// WaitPatient waits for done with the same one-sided bound: false only after `healthy` of time in which this process was
// demonstrably scheduled has gone by (absolute cap: 20 x healthy).
func WaitPatient(done <-chan struct{}, healthy time.Duration) bool {
	select { // the common case: no canary needed
	case <-done:
		return true
	case <-time.After(200 * time.Millisecond):
	}
	var rounds int64
	stop := make(chan struct{})
	defer close(stop)
	go func() {
		for {
			select {
			case <-stop:
				return
			default:
			}
			time.Sleep(time.Millisecond)
			atomic.AddInt64(&rounds, 1)
		}
	}()
	var good time.Duration
	t0 := time.Now()
	for good < healthy && time.Since(t0) < 20*healthy {
		r0, w0 := atomic.LoadInt64(&rounds), time.Now()
		select {
		case <-done:
			return true
		case <-time.After(time.Second):
		}
		el := time.Since(w0)
		if r := atomic.LoadInt64(&rounds) - r0; r*4 >= int64(el/time.Millisecond) && el < 2*time.Second {
			good += el
		}
	}
	return false
}

var realWakeups, realReads int64

// RealActivity counts what nbio does on REAL descriptors: epoll_wait calls that returned events (poller wake-ups) and
// read/recvfrom calls. An idle engine makes none of either; a spinning poller or read task makes thousands per second
// whatever the load of the machine — the load only slows the counting down.
func RealActivity() (wakeups, reads int64) {
	return atomic.LoadInt64(&realWakeups), atomic.LoadInt64(&realReads)
}
