package vsys

import (
	"sync"
	"syscall"
)

// ---- stop family (C16/C18/C14 harnesses)

var (
	hiMu   sync.Mutex
	hiNext = 4000
)

// NewVFDHigh is NewVFD with a descriptor number from a range that is never handed out twice in the life of
// the process (F_DUPFD above a monotone floor, far above the numbers open/accept/epoll_create pick). Harnesses
// that run many cases concurrently need it: when nbio closes a virtual descriptor, its number must not be reused
// by an unrelated descriptor (another case's socket, eventfd or virtual fd) while the registration still exists.
func NewVFDHigh() (int, *VFD) {
	lo, err := syscall.Open("/dev/null", syscall.O_RDWR, 0)
	if err != nil {
		panic(err)
	}
	hiMu.Lock()
	r, _, e := syscall.Syscall(syscall.SYS_FCNTL, uintptr(lo), syscall.F_DUPFD, uintptr(hiNext))
	if e != 0 {
		hiMu.Unlock()
		panic(e)
	}
	fd := int(r)
	hiNext = fd + 1
	hiMu.Unlock()
	_ = syscall.Close(lo)
	v := &VFD{}
	mu.Lock()
	vfds[fd] = v
	mu.Unlock()
	return fd, v
}
