//go:build verif
// +build verif

package websocket

// Accessors for the pooled-buffer ownership check of the websocket Conn (C11, harness hresp).

// VerifSetModes sets the two mode flags the Upgrader sets during an upgrade (a Conn built with the public
// NewServerConn/NewClientConn has both false).
func (c *Conn) VerifSetModes(blocking, releasePayload bool) {
	c.isBlockingMod = blocking
	c.releasePayload = releasePayload
}

// VerifOwnedBuffers returns the owner fields of the receive path and the slots of the send queue.
func (c *Conn) VerifOwnedBuffers() (bytesCached, message *[]byte, sendQueue []*[]byte) {
	c.mux.Lock()
	defer c.mux.Unlock()
	return c.bytesCached, c.message, append([]*[]byte(nil), c.sendQueue...)
}
