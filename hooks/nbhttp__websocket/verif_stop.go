//go:build verif
// +build verif

package websocket

// VerifStopState is a read-only snapshot of the send-queue fields (stop family, C14).
type VerifStopState struct {
	Closed   bool
	Queued   bool // the conn has an asynchronous send queue
	QueueLen int
}

func (c *Conn) VerifStopState() VerifStopState {
	c.mux.Lock()
	defer c.mux.Unlock()
	return VerifStopState{Closed: c.closed, Queued: c.sendQueue != nil, QueueLen: len(c.sendQueue)}
}
