//go:build verif
// +build verif

package websocket

import (
	"io"
	"sync"
)

// read-only accessors and exported wrappers of unexported pure functions (C12/C13/C15 harness `hws`)

// VerifCacheLen: number of unparsed bytes retained by Parse.
func (c *Conn) VerifCacheLen() int {
	c.mux.Lock()
	defer c.mux.Unlock()
	if c.bytesCached == nil {
		return 0
	}
	return len(*c.bytesCached)
}

// VerifMessageLen: length of the message under assembly.
func (c *Conn) VerifMessageLen() int {
	c.mux.Lock()
	defer c.mux.Unlock()
	if c.message == nil {
		return 0
	}
	return len(*c.message)
}

// VerifExpecting: inside a fragmented message.
func (c *Conn) VerifExpecting() bool { return c.expectingFragments }

// VerifClosed: CloseAndClean has run.
func (c *Conn) VerifClosed() bool {
	c.mux.Lock()
	defer c.mux.Unlock()
	return c.closed
}

// VerifValidFrame: the per-frame validity predicate of this connection (nil error = accepted).
func (c *Conn) VerifValidFrame(opcode int, fin, res1, res2, res3, expecting bool) error {
	return c.validFrame(MessageType(opcode), fin, res1, res2, res3, expecting)
}

// VerifValidCloseCode tabulates validCloseCode.
func VerifValidCloseCode(code int) bool { return validCloseCode(code) }

// VerifMaskXOR runs the real maskXOR in place.
func VerifMaskXOR(b, key []byte) { maskXOR(b, key) }

// VerifCompressWriter / VerifDecompressReader: the default per-message deflate codec (so that a harness
// can wrap it through the public WebsocketCompressor / WebsocketDecompressor fields and observe it).
func VerifCompressWriter(w io.WriteCloser, level int) io.WriteCloser { return compressWriter(w, level) }
func VerifDecompressReader(r io.Reader) io.ReadCloser                { return decompressReader(r) }

const VerifMaxControlFramePayloadSize = maxControlFramePayloadSize
const VerifFlateReaderTail = flateReaderTail

// VerifTruncWriter: the writer compressWriter puts between flate.Writer and its destination.
func VerifTruncWriter(w io.WriteCloser) io.Writer { return &truncWriter{w: w} }

// opening handshake (C12 phase 3)

// VerifEnableCompression / VerifWriteCompression: what the handshake left in the conn (RSV1 accepted / messages deflated).
func (c *Conn) VerifEnableCompression() bool { return c.enableCompression }
func (c *Conn) VerifWriteCompression() bool  { return c.enableWriteCompression }

// VerifKeyGUID, VerifIsTokenOctet, VerifAcceptKey, VerifCheckSameOrigin: constants and pure helpers of the handshake.
func VerifKeyGUID() string             { return string(keyGUID) }
func VerifIsTokenOctet(b byte) bool    { return isTokenOctet[b] }
func VerifAcceptKey(key string) string { return acceptKeyString(key) }

// VerifSetReleasePayload: what Upgrade derives from Upgrader.ReleasePayload / Engine.ReleaseWebsocketPayload
// (the payload buffer goes back to the pool when the message callback returns).
func (c *Conn) VerifSetReleasePayload(b bool) { c.releasePayload = b }

// VerifSendQueueLen: frames in the asynchronous send queue (0 once the sender goroutine has drained it).
func (c *Conn) VerifSendQueueLen() int {
	c.mux.Lock()
	defer c.mux.Unlock()
	return len(c.sendQueue)
}

// VerifPoolDups observes the codec pools (flateReaderPool, flateWriterPools) without changing them: it takes out what the
// calling goroutine can reach (at most max objects per pool), counts the objects that came out more than once — the same
// reader or writer was put back twice, two connections can then be handed the same one — and puts everything back as
// it was found.  Single-goroutine harness use only.
func VerifPoolDups(max int) (readers, writers int) {
	count := func(p *sync.Pool) int {
		nw := p.New
		p.New = nil
		var got []interface{}
		for i := 0; i < max; i++ {
			x := p.Get()
			if x == nil {
				break
			}
			got = append(got, x)
		}
		p.New = nw
		seen := map[interface{}]bool{}
		d := 0
		for _, x := range got {
			if seen[x] {
				d++
			}
			seen[x] = true
		}
		for i := len(got) - 1; i >= 0; i-- {
			p.Put(got[i])
		}
		return d
	}
	readers = count(&flateReaderPool)
	for i := range flateWriterPools {
		writers += count(&flateWriterPools[i])
	}
	return
}
