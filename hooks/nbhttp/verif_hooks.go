//go:build verif
// +build verif

package nbhttp

import "sort"

// VerifCacheLen returns the number of unparsed bytes the parser retains.
func (p *Parser) VerifCacheLen() int {
	if p.bytesCached == nil {
		return 0
	}
	return len(*p.bytesCached)
}

// VerifState returns the parser state number.
func (p *Parser) VerifState() int { return int(p.state) }

// ---- finite-domain functions tabulated by `hhttp facts` (DESIGN 2.4b)

func VerifIsToken(c byte) bool           { return isToken(c) }
func VerifIsHex(c byte) bool             { return isHex(c) }
func VerifIsNum(c byte) bool             { return isNum(c) }
func VerifIsAlpha(c byte) bool           { return isAlpha(c) }
func VerifIsValidMethodChar(c byte) bool { return isValidMethodChar(c) }
func VerifIsValidMethod(m string) bool   { return isValidMethod(m) }

// VerifValidMethods returns the keys of validMethods that are true, sorted.
func VerifValidMethods() []string {
	var ms []string
	for m, ok := range validMethods {
		if ok {
			ms = append(ms, m)
		}
	}
	sort.Strings(ms)
	return ms
}

// VerifStateEnum lists the parser state constants (name of the Lean constructor, Go constant, value)
// in the order of the Lean inductive `Http.PState`.
func VerifStateEnum() [][3]interface{} {
	return [][3]interface{}{
		{"close", "stateClose", int(stateClose)},
		{"methodBefore", "stateMethodBefore", int(stateMethodBefore)},
		{"method", "stateMethod", int(stateMethod)},
		{"pathBefore", "statePathBefore", int(statePathBefore)},
		{"path", "statePath", int(statePath)},
		{"protoBefore", "stateProtoBefore", int(stateProtoBefore)},
		{"proto", "stateProto", int(stateProto)},
		{"protoLF", "stateProtoLF", int(stateProtoLF)},
		{"clientProtoBefore", "stateClientProtoBefore", int(stateClientProtoBefore)},
		{"clientProto", "stateClientProto", int(stateClientProto)},
		{"statusCodeBefore", "stateStatusCodeBefore", int(stateStatusCodeBefore)},
		{"statusCode", "stateStatusCode", int(stateStatusCode)},
		{"statusBefore", "stateStatusBefore", int(stateStatusBefore)},
		{"status", "stateStatus", int(stateStatus)},
		{"statusLF", "stateStatusLF", int(stateStatusLF)},
		{"headerKeyBefore", "stateHeaderKeyBefore", int(stateHeaderKeyBefore)},
		{"headerValueLF", "stateHeaderValueLF", int(stateHeaderValueLF)},
		{"headerKey", "stateHeaderKey", int(stateHeaderKey)},
		{"headerValueBefore", "stateHeaderValueBefore", int(stateHeaderValueBefore)},
		{"headerValue", "stateHeaderValue", int(stateHeaderValue)},
		{"bodyContentLength", "stateBodyContentLength", int(stateBodyContentLength)},
		{"headerOverLF", "stateHeaderOverLF", int(stateHeaderOverLF)},
		{"chunkSizeBefore", "stateBodyChunkSizeBefore", int(stateBodyChunkSizeBefore)},
		{"chunkSize", "stateBodyChunkSize", int(stateBodyChunkSize)},
		{"chunkSizeLF", "stateBodyChunkSizeLF", int(stateBodyChunkSizeLF)},
		{"chunkData", "stateBodyChunkData", int(stateBodyChunkData)},
		{"chunkDataCR", "stateBodyChunkDataCR", int(stateBodyChunkDataCR)},
		{"chunkDataLF", "stateBodyChunkDataLF", int(stateBodyChunkDataLF)},
		{"trValueLF", "stateBodyTrailerHeaderValueLF", int(stateBodyTrailerHeaderValueLF)},
		{"trKeyBefore", "stateBodyTrailerHeaderKeyBefore", int(stateBodyTrailerHeaderKeyBefore)},
		{"trKey", "stateBodyTrailerHeaderKey", int(stateBodyTrailerHeaderKey)},
		{"trValueBefore", "stateBodyTrailerHeaderValueBefore", int(stateBodyTrailerHeaderValueBefore)},
		{"trValue", "stateBodyTrailerHeaderValue", int(stateBodyTrailerHeaderValue)},
		{"tailCR", "stateTailCR", int(stateTailCR)},
		{"tailLF", "stateTailLF", int(stateTailLF)},
	}
}

// VerifHeaderNames returns the three framing header names the parser records.
func VerifHeaderNames() [3]string {
	return [3]string{transferEncodingHeader, trailerHeader, contentLengthHeader}
}

// VerifMaxInt is the parser's MaxInt constant.
func VerifMaxInt() int64 { return MaxInt }

// ---- BodyReader (hbody)

// VerifBodyAppend runs the unexported BodyReader.append.
func VerifBodyAppend(br *BodyReader, data []byte) error { return br.append(data) }

// VerifBodyRelease does to a request body what releaseRequest does: Close, reset to the empty value, back to the pool.
func VerifBodyRelease(br *BodyReader) {
	_ = br.Close()
	*br = emptyBodyReader
	bodyReaderPool.Put(br)
}

// VerifBodyState is a read-only snapshot of the reader's fields.
func (br *BodyReader) VerifBodyState() (index, left, nbuf int, closed bool) {
	return br.index, br.left, len(br.buffers), br.closed
}

// VerifCache returns a copy of the unparsed bytes the parser retains.
func (p *Parser) VerifCache() []byte {
	if p.bytesCached == nil {
		return nil
	}
	return append([]byte{}, (*p.bytesCached)...)
}
