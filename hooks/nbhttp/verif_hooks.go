//go:build verif
// +build verif

package nbhttp

// VerifCacheLen returns the number of unparsed bytes the parser retains.
func (p *Parser) VerifCacheLen() int {
	if p.bytesCached == nil {
		return 0
	}
	return len(*p.bytesCached)
}

// VerifState returns the parser state number.
func (p *Parser) VerifState() int { return int(p.state) }
