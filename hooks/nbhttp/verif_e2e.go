//go:build verif
// +build verif

package nbhttp

import "time"

// VerifPool drives the per-host bookkeeping of Client (hostConns.getConn / releaseConn, ClientConn.Reset)
// exactly the way Client.Do does, without a network: accessors for harness he2e (C10, model ClientPool).
type VerifPool struct {
	c    *Client
	host string
}

// VerifNewPool returns a Client with the given MaxConnsPerHost and Timeout and no engine.
func VerifNewPool(max int32, timeout time.Duration) *VerifPool {
	return &VerifPool{c: &Client{MaxConnsPerHost: max, Timeout: timeout}, host: "pool.test:80"}
}

// Get is the first half of Client.Do: getConn, then hc.Reset(); reset reports whether the ClientConn was marked closed.
func (p *VerifPool) Get() (hc *ClientConn, reset bool, err error) {
	_, hc, err = p.c.getConn(p.host)
	if err != nil {
		return nil, false, err
	}
	hc.mux.Lock()
	reset = hc.closed
	hc.mux.Unlock()
	hc.Reset()
	return hc, reset, nil
}

// Release is what the callback wrapper of Client.Do does first: hcs.releaseConn(hc).
func (p *VerifPool) Release(hc *ClientConn) {
	p.c.connsMux.Lock()
	hcs := p.c.connsOfHosts[p.host]
	p.c.connsMux.Unlock()
	hcs.releaseConn(hc)
}

// MarkClosed sets the closed flag of a ClientConn (what closeByConn / CloseWithError do under the mutex).
func (p *VerifPool) MarkClosed(hc *ClientConn) {
	hc.mux.Lock()
	hc.closed = true
	hc.mux.Unlock()
}

// State returns connNum, the number of free ClientConns in the channel and the size of the conns map.
func (p *VerifPool) State() (connNum, free, conns int) {
	p.c.connsMux.Lock()
	hcs := p.c.connsOfHosts[p.host]
	p.c.connsMux.Unlock()
	if hcs == nil {
		return 0, 0, 0
	}
	hcs.mux.Lock()
	conns = len(hcs.conns)
	hcs.mux.Unlock()
	return int(hcs.connNum), len(hcs.chConnss), conns
}
