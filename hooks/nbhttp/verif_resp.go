//go:build verif
// +build verif

package nbhttp

// VerifOwned returns the two pooled-buffer owner fields of a Response (read-only; C11 owner check, C09 generator).
func (res *Response) VerifOwned() (buffer, bodyBuffer *[]byte) { return res.buffer, res.bodyBuffer }

// VerifFraming returns the framing decision flags of a Response.
func (res *Response) VerifFraming() (chunked, chunkChecked, headEncoded bool) {
	return res.chunked, res.chunkChecked, res.headEncoded
}

// VerifCached returns the parser's pooled cache handle (nil if none).
func (p *Parser) VerifCached() *[]byte { return p.bytesCached }

// VerifPendingBody returns the BodyReader of the request under construction (nil if none).
func VerifPendingBody(p Processor) *BodyReader {
	sp, ok := p.(*ServerProcessor)
	if !ok || sp.request == nil || sp.request.Body == nil {
		return nil
	}
	br, _ := sp.request.Body.(*BodyReader)
	return br
}
