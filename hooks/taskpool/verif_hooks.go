//go:build verif
// +build verif

package taskpool

import "sync/atomic"

// VerifConcurrent reads the running-worker counter.
func (tp *TaskPool) VerifConcurrent() int64 { return atomic.LoadInt64(&tp.concurrent) }

// VerifQueueLen returns the number of tasks sitting in the queue channel.
func (tp *TaskPool) VerifQueueLen() int { return len(tp.chQqueue) }

// VerifCounterAddr identifies the counter in vsys.AtomicHook64 callbacks.
func (tp *TaskPool) VerifCounterAddr() *int64 { return &tp.concurrent }

// VerifTask exposes the TaskPool behind an IOTaskPool.
func (tp *IOTaskPool) VerifTask() *TaskPool { return tp.task }
