//go:build verif
// +build verif

package nbio

import (
	"net"
	"sync/atomic"
	"syscall"
)

// VerifNewUDPServer builds a UDP listener Conn around fd (what dupStdConn builds for a *net.UDPConn
// without a remote address).
func VerifNewUDPServer(fd int) *Conn {
	c := &Conn{fd: fd, typ: ConnTypeUDPServer, lAddr: &net.UDPAddr{IP: net.IPv4(127, 0, 0, 1), Port: 9}}
	c.connUDP = &udpConn{parent: c, conns: map[udpAddrKey]*Conn{}}
	return c
}

// VerifUDPKey exposes getUDPNetAddrKey (tabulated by the harness against the Lean key function).
func VerifUDPKey(sa syscall.Sockaddr) [22]byte { return getUDPNetAddrKey(sa) }

// VerifUDPSessions returns the number of sessions a UDP listener currently holds.
func (c *Conn) VerifUDPSessions() int {
	if c.connUDP == nil {
		return 0
	}
	c.mux.Lock()
	defer c.mux.Unlock()
	return len(c.connUDP.conns)
}

// VerifReadEvents reads the AsyncRead gate counter.
func (c *Conn) VerifReadEvents() int32 { return atomic.LoadInt32(&c.readEvents) }

// VerifReadEventsPtr identifies the gate counter in atomic hooks.
func (c *Conn) VerifReadEventsPtr() *int32 { return &c.readEvents }

// VerifDialPending reports whether a dial callback is still stored in the conn.
func (c *Conn) VerifDialPending() bool {
	c.mux.Lock()
	defer c.mux.Unlock()
	return c.onConnected != nil
}

// VerifCloseState returns the closed flag and the stored close error under the mutex.
func (c *Conn) VerifCloseState() (bool, error) {
	c.mux.Lock()
	defer c.mux.Unlock()
	return c.closed, c.closeErr
}

// VerifType returns the conn type.
func (c *Conn) VerifType() ConnType { return c.typ }

// VerifCloseStateNoLock is VerifCloseState without the mutex, for the moments the harness itself has
// parked the goroutine that holds it (a read task paused inside its read).
func (c *Conn) VerifCloseStateNoLock() (bool, error) { return c.closed, c.closeErr }

// VerifNewUDPClient builds a dialed UDP Conn around fd (what dupStdConn builds for a *net.UDPConn with a remote
// address): datagrams are handed over on the conn itself.
func VerifNewUDPClient(fd int) *Conn {
	c := &Conn{fd: fd, typ: ConnTypeUDPClientFromDial,
		lAddr: &net.UDPAddr{IP: net.IPv4(127, 0, 0, 1), Port: 9}, rAddr: &net.UDPAddr{IP: net.IPv4(127, 0, 0, 1), Port: 4000}}
	c.connUDP = &udpConn{parent: c}
	return c
}
