//go:build verif
// +build verif

package nbio

import "sync/atomic"

// VerifNewConn builds a Conn around an arbitrary fd (used with the vsys shim).
func VerifNewConn(fd int, typ ConnType) *Conn { return &Conn{fd: fd, typ: typ} }

// VerifConnState is a read-only snapshot of the write-path fields.
type VerifConnState struct {
	Left       int
	Items      []int // remaining bytes per queued item; negative = file item (remain)
	ItemLens   []int // len(*buf) per buffer item (0 for file items)
	IsWAdded   bool
	Closed     bool
	ReadEvents int32
	RTimer     bool
	WTimer     bool
	Jobs       int
}

func (c *Conn) VerifState() VerifConnState {
	c.mux.Lock()
	defer c.mux.Unlock()
	st := VerifConnState{Left: c.left, IsWAdded: c.isWAdded, Closed: c.closed,
		ReadEvents: atomic.LoadInt32(&c.readEvents), RTimer: c.rTimer != nil, WTimer: c.wTimer != nil,
		Jobs: len(c.jobList)}
	for _, t := range c.writeList {
		if t.buf != nil {
			st.Items = append(st.Items, len(*t.buf)-int(t.offset))
			st.ItemLens = append(st.ItemLens, len(*t.buf))
		} else {
			st.Items = append(st.Items, -int(t.remain))
			st.ItemLens = append(st.ItemLens, 0)
		}
	}
	return st
}

// VerifEpfd returns the epoll descriptor of I/O poller i.
func (g *Engine) VerifEpfd(i int) int { return g.pollers[i].epfd }

// VerifListenerEpfd returns the epoll descriptor of listener poller i.
func (g *Engine) VerifListenerEpfd(i int) int { return g.listeners[i].epfd }

// VerifNPollers returns the number of I/O pollers.
func (g *Engine) VerifNPollers() int { return len(g.pollers) }

// VerifConnAt returns the conn stored in the fd table (nil if none).
func (g *Engine) VerifConnAt(fd int) *Conn {
	if fd < 0 || fd >= len(g.connsUnix) {
		return nil
	}
	return g.connsUnix[fd]
}

// VerifFd returns the descriptor of a conn.
func (c *Conn) VerifFd() int { return c.fd }
