//go:build verif
// +build verif

package nbio

// VerifNewConn builds a Conn around an arbitrary fd (used with the vsys shim).
func VerifNewConn(fd int, typ ConnType) *Conn { return &Conn{fd: fd, typ: typ} }

type VerifConnState struct {
	Left     int
	Items    []int
	IsWAdded bool
	Closed   bool
}

func (c *Conn) VerifState() VerifConnState {
	c.mux.Lock()
	defer c.mux.Unlock()
	st := VerifConnState{Left: c.left, IsWAdded: c.isWAdded, Closed: c.closed}
	for _, t := range c.writeList {
		if t.buf != nil {
			st.Items = append(st.Items, len(*t.buf)-int(t.offset))
		} else {
			st.Items = append(st.Items, -int(t.remain))
		}
	}
	return st
}
func (g *Engine) VerifEpfd(i int) int { return g.pollers[i].epfd }
