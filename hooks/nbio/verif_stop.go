//go:build verif
// +build verif

package nbio

import (
	"net"
	"sync"
	"time"
	"unsafe"
)

// VerifSetAddrs gives a hand-made conn (VerifNewConn) its addresses; the HTTP layer dereferences RemoteAddr().
func (c *Conn) VerifSetAddrs(l, r net.Addr) { c.lAddr, c.rAddr = l, r }

// ---- the expiry a deadline timer is armed for, read without waiting for it (C16: a renewal is an observable event)
//
// A *time.Timer points at the runtime's timeTimer{c unsafe.Pointer; init bool; timer{mu; astate, state, isChan;
// blocked uint32; when int64; …}}: `when` (runtime nanotime) sits at offset 32 on 64-bit targets of go1.23. The
// layout is verified once per process against timers of known duration; if the check fails the hooks report
// "unsupported" and the harness falls back to observing in real time only.

const verifWhenOffset = 32

var (
	verifWhenOnce sync.Once
	verifWhenOK   bool
	verifWallBase time.Time // wall time that corresponds to runtime nanotime verifNanoBase
	verifNanoBase int64
)

func verifWhen(t *time.Timer) int64 {
	return *(*int64)(unsafe.Pointer(uintptr(unsafe.Pointer(t)) + verifWhenOffset))
}

func verifWhenInit() {
	verifWhenOnce.Do(func() {
		if unsafe.Sizeof(uintptr(0)) != 8 {
			return
		}
		// pair a wall (monotonic) reading with the runtime's nanotime: the timer is created between two clock
		// readings; a pair is accepted only if the two readings are less than 100µs apart (the process may be
		// descheduled between any two statements on a loaded machine), the midpoint is used
		paired := false
		for try := 0; try < 5000 && !paired; try++ {
			n0 := time.Now()
			a := time.AfterFunc(time.Hour, func() {})
			n1 := time.Now()
			w := verifWhen(a)
			a.Stop()
			if d := n1.Sub(n0); d >= 0 && d < 100*time.Microsecond {
				verifNanoBase = w - int64(time.Hour)
				verifWallBase = n0.Add(d / 2)
				paired = true
			}
		}
		if !paired {
			return
		}
		ok := true
		for _, d := range []time.Duration{50 * time.Millisecond, 3 * time.Second} {
			b := time.AfterFunc(time.Hour, func() {})
			b.Reset(d) // the deadline timers are renewed with Reset
			// the same bracketing for the check: expected expiry within [n0+d, n1+d] (± 1ms)
			good := false
			for try := 0; try < 200 && !good; try++ {
				n0 := time.Now()
				b.Reset(d)
				n1 := time.Now()
				at := verifWallBase.Add(time.Duration(verifWhen(b) - verifNanoBase))
				if n1.Sub(n0) < 100*time.Microsecond {
					good = !at.Before(n0.Add(d-time.Millisecond)) && !at.After(n1.Add(d+time.Millisecond))
					break
				}
			}
			b.Stop()
			if !good {
				ok = false
			}
		}
		verifWhenOK = ok
	})
}

// VerifDeadlines returns the wall-clock expiry the read and the write deadline timer are currently armed for
// (zero Time: no timer); ok = false when the runtime layout is not the expected one.
func (c *Conn) VerifDeadlines() (r, w time.Time, ok bool) {
	verifWhenInit()
	if !verifWhenOK {
		return
	}
	c.mux.Lock()
	defer c.mux.Unlock()
	// a timer that has fired (its callback is about to close the conn) has when = 0: it is not armed any more
	if c.rTimer != nil {
		if wn := verifWhen(c.rTimer); wn > 0 {
			r = verifWallBase.Add(time.Duration(wn - verifNanoBase))
		}
	}
	if c.wTimer != nil {
		if wn := verifWhen(c.wTimer); wn > 0 {
			w = verifWallBase.Add(time.Duration(wn - verifNanoBase))
		}
	}
	return r, w, true
}
