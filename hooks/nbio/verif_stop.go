//go:build verif
// +build verif

package nbio

import (
	"net"
	"sync"
	"time"
	"unsafe"
)

// VerifSetAddrs gives a hand-made conn (VerifNewConn) its addresses; the HTTP layer dereferences RemoteAddr().
func (c *Conn) VerifSetAddrs(l, r net.Addr) { c.lAddr, c.rAddr = l, r }

// ---- the expiry a deadline timer is armed for, read without waiting for it (C16: a renewal is an observable event)
//
// A *time.Timer points at the runtime's timeTimer{c unsafe.Pointer; init bool; timer{mu; astate, state, isChan;
// blocked uint32; when int64; …}}: `when` (runtime nanotime) sits at offset 32 on 64-bit targets of go1.23. The
// layout is verified once per process against timers of known duration; if the check fails the hooks report
// "unsupported" and the harness falls back to observing in real time only.

const verifWhenOffset = 32

var (
	verifWhenOnce sync.Once
	verifWhenOK   bool
	verifWallBase time.Time // wall time that corresponds to runtime nanotime verifNanoBase
	verifNanoBase int64
)

func verifWhen(t *time.Timer) int64 {
	return *(*int64)(unsafe.Pointer(uintptr(unsafe.Pointer(t)) + verifWhenOffset))
}

func verifWhenInit() {
	verifWhenOnce.Do(func() {
		if unsafe.Sizeof(uintptr(0)) != 8 {
			return
		}
		a := time.AfterFunc(time.Hour, func() {})
		now := time.Now()
		verifNanoBase = verifWhen(a) - int64(time.Hour)
		verifWallBase = now
		a.Stop()
		ok := true
		for _, d := range []time.Duration{50 * time.Millisecond, 3 * time.Second} {
			b := time.AfterFunc(time.Hour, func() {})
			b.Reset(d) // the deadline timers are renewed with Reset
			got := verifWallBase.Add(time.Duration(verifWhen(b) - verifNanoBase)).Sub(time.Now())
			b.Stop()
			if got < d-20*time.Millisecond || got > d+20*time.Millisecond {
				ok = false
			}
		}
		verifWhenOK = ok
	})
}

// VerifDeadlines returns the wall-clock expiry the read and the write deadline timer are currently armed for
// (zero Time: no timer); ok = false when the runtime layout is not the expected one.
func (c *Conn) VerifDeadlines() (r, w time.Time, ok bool) {
	verifWhenInit()
	if !verifWhenOK {
		return
	}
	c.mux.Lock()
	defer c.mux.Unlock()
	if c.rTimer != nil {
		r = verifWallBase.Add(time.Duration(verifWhen(c.rTimer) - verifNanoBase))
	}
	if c.wTimer != nil {
		w = verifWallBase.Add(time.Duration(verifWhen(c.wTimer) - verifNanoBase))
	}
	return r, w, true
}
