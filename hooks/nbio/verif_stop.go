//go:build verif
// +build verif

package nbio

import "net"

// VerifSetAddrs gives a hand-made conn (VerifNewConn) its addresses; the HTTP layer dereferences RemoteAddr().
func (c *Conn) VerifSetAddrs(l, r net.Addr) { c.lAddr, c.rAddr = l, r }
