//go:build verif
// +build verif

package nbio

// Accessors for the pooled-buffer ownership check of the write queue (C11, harness hresp).

// VerifFlush runs the poller's reaction to a writable event: Conn.flush.
func (c *Conn) VerifFlush() error { return c.flush() }

// VerifWriteHandles returns the pooled buffers the write list holds (nil for file items).
func (c *Conn) VerifWriteHandles() []*[]byte {
	c.mux.Lock()
	defer c.mux.Unlock()
	var hs []*[]byte
	for _, t := range c.writeList {
		hs = append(hs, t.buf)
	}
	return hs
}
