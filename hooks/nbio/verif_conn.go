//go:build verif
// +build verif

package nbio

// Read-only accessors of the write path for the hconn harness (C01, C04, C17).

// VerifWItem is one entry of Conn.writeList.
type VerifWItem struct {
	File   bool
	Len    int    // buffer: len(*buf)
	Off    int64  // buffer: offset of the first unsent byte; file: file offset
	Remain int64  // file: bytes still to send
	Fd     int    // file: the dup'ed source descriptor
	Unsent []byte // buffer: copy of (*buf)[offset:]
}

// VerifWriteState is a snapshot of the write-path fields taken under the conn mutex.
type VerifWriteState struct {
	Closed   bool
	Left     int
	IsWAdded bool
	WTimer   bool // c.wTimer != nil
	Items    []VerifWItem
}

func (c *Conn) VerifWriteState(withBytes bool) VerifWriteState {
	c.mux.Lock()
	defer c.mux.Unlock()
	st := VerifWriteState{Closed: c.closed, Left: c.left, IsWAdded: c.isWAdded, WTimer: c.wTimer != nil}
	for _, t := range c.writeList {
		if t.buf != nil {
			it := VerifWItem{Len: len(*t.buf), Off: t.offset}
			if withBytes && int(t.offset) <= len(*t.buf) {
				it.Unsent = append([]byte(nil), (*t.buf)[t.offset:]...)
			}
			st.Items = append(st.Items, it)
		} else {
			st.Items = append(st.Items, VerifWItem{File: true, Off: t.offset, Remain: t.remain, Fd: t.fd})
		}
	}
	return st
}

// VerifAddDialer registers c with its poller the way DialAsync does for a connect that is in
// progress: the connected callback is pending and the descriptor is added for reading and writing.
func (g *Engine) VerifAddDialer(c *Conn, onConnected func(*Conn, error)) error {
	c.onConnected = onConnected
	g.wgConn.Add(1)
	_, err := g.addDialer(c)
	if err != nil {
		g.wgConn.Done()
	}
	return err
}
