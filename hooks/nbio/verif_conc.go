//go:build verif
// +build verif

package nbio

// VerifNewJobConn builds a Conn on descriptor fd that belongs to engine g exactly as poller.addConn
// would leave it (c.p set, open callback run, fd table slot filled) but without a running poller, so
// that Execute/MustExecute reach g.Execute and Close reaches g.onClose. Used by the C05 harness with
// an engine that was created (NewEngine) but not started: no background goroutines exist.
func VerifNewJobConn(g *Engine, fd int) *Conn {
	if len(g.connsUnix) <= fd {
		t := make([]*Conn, fd+64)
		copy(t, g.connsUnix)
		g.connsUnix = t
	}
	c := &Conn{fd: fd, typ: ConnTypeTCP}
	c.p = &poller{g: g}
	g.onOpen(c)
	g.connsUnix[fd] = c
	return c
}
