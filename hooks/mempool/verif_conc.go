//go:build verif
// +build verif

package mempool

import "sync"

// VerifResetAlignedPools empties the package-level size-class pools of the aligned allocator (they
// are shared by every AlignedAllocator of the process), keeping each pool's own New function, so
// that harness cases are independent of each other.
func VerifResetAlignedPools() {
	for i := range alignedPools {
		n := alignedPools[i].New
		alignedPools[i] = sync.Pool{New: n}
	}
}

// VerifAlignedClass returns alignedIndexes[size] (0xFF outside the table).
func VerifAlignedClass(size int) int {
	if size < 0 || size >= len(alignedIndexes) {
		return 0xFF
	}
	return int(alignedIndexes[size])
}
