//go:build verif
// +build verif

package timer

// VerifAsyncLen returns len(asyncList) under the mutex.
func (t *Timer) VerifAsyncLen() int {
	t.asyncMux.Lock()
	defer t.asyncMux.Unlock()
	return len(t.asyncList)
}
