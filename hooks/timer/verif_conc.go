//go:build verif
// +build verif

package timer

// VerifAsyncLen returns len(asyncList) under the mutex.
func (t *Timer) VerifAsyncLen() int {
	t.asyncMux.Lock()
	defer t.asyncMux.Unlock()
	return len(t.asyncList)
}

// VerifAsyncCap returns cap(asyncList) under the mutex.
func (t *Timer) VerifAsyncCap() int {
	t.asyncMux.Lock()
	defer t.asyncMux.Unlock()
	return cap(t.asyncList)
}
