//go:build verif
// +build verif

package lmux

import "sync/atomic"

// VerifQueued is the number of events waiting in the listener's channel (stop family, C18 lmux cases).
func (l *ChanListener) VerifQueued() int { return len(l.chEvent) }

// VerifOnlineA is the mux's counter of connections routed to the A listeners.
func (lm *ListenerMux) VerifOnlineA() int { return int(atomic.LoadInt32(&lm.onlineA)) }
