import NbioVerif.Properties.C11
import NbioVerif.Lemmas.SrcBridgeResp
#print axioms Own.c11_response_no_double_free_no_use_after_free
#print axioms Own.c11_response_unique_owner
#print axioms Own.c11_response_released
#print axioms Own.c11_http_no_double_free_no_use_after_free
#print axioms Own.c11_http_unique_owner
#print axioms Own.c11_response_frames_request
#print axioms Own.c11_http_close_releases
#print axioms OwnC.c11_conn_write_queue
#print axioms OwnC.c11_conn_close_releases
#print axioms OwnW.c11_ws_ownership
#print axioms OwnW.c11_ws_close_releases
#print axioms OwnW.c11_ws_queued_payload_live
#print axioms Resp.src_maxPacket
#print axioms OwnC.src_maxCache
