import NbioVerif.Properties.C11
#print axioms Own.c11_response_no_double_free_no_use_after_free
#print axioms Own.c11_response_unique_owner
#print axioms Own.c11_response_released
