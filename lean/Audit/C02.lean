import NbioVerif.Properties.C02
#print axioms ReadPath.core_run
#print axioms ReadPath.c02_gate
#print axioms ReadPath.c02_no_lost_edge
#print axioms ReadPath.c02_quiescent
#print axioms Gate.c02_gate_prefix_counterexample
