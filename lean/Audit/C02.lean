import NbioVerif.Properties.C02
import NbioVerif.Lemmas.SrcBridgeConn
import NbioVerif.Lemmas.SrcBridgeLife
#print axioms ReadPath.core_run
#print axioms ReadPath.c02_gate
#print axioms ReadPath.c02_no_lost_edge
#print axioms ReadPath.c02_quiescent
#print axioms ReadPath.c02_report_enabled
#print axioms ReadPath.c02_progress
#print axioms ReadPath.c02_delivery_stream
#print axioms ReadPath.c02_delivered_prefix
#print axioms ReadPath.c02_delivery_udp
#print axioms ReadPath.udpKey_inj
#print axioms ReadPath.c02_udp_demux
#print axioms ReadPath.c02_no_spin
#print axioms ReadPath.c02_close_drained
#print axioms ReadPath.c02_hup_closes
#print axioms Gate.c02_gate_prefix_counterexample
#print axioms FdTable.c02_attribution
#print axioms FdTable.c02_attribution_init
#print axioms UdpSess.c02_udp_active_session
#print axioms ConnFull.src_masks_wellformed
#print axioms Life.interest_wrappers
#print axioms Life.interest_hangup
