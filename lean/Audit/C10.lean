import NbioVerif.Properties.C10
#print axioms Pipeline.c10_wire_prefix
#print axioms Pipeline.c10_pipeline
#print axioms Pipeline.c10_nothing_after_close
#print axioms Pipeline.c10_server_close
#print axioms Pipeline.c10_close_cause
#print axioms Pipeline.c10_handlers_in_order
#print axioms Pipeline.c10_progress
#print axioms Pipeline.c10_close_rfc
#print axioms Pipeline.c10_close_rfc_list_counterexample
#print axioms SharedHeap.c10_noninterference
#print axioms SharedHeap.c10_noninterference_uaf_counterexample
#print axioms SharedHeap.c10_noninterference_stale_counterexample
#print axioms ClientFifo.c10_client_exactly_once
#print axioms ClientFifo.c10_client_closed
#print axioms ClientFifo.c10_client_match
#print axioms ClientFifo.c10_client_stale_ignored
