import NbioVerif.Properties.C07
#print axioms Http.c07_request_line
#print axioms Http.c07_status_line
#print axioms Http.c07_header_section
