import NbioVerif.Properties.C15
#print axioms Ws.c15_frame_fits
#print axioms Ws.c15_control_recv
#print axioms Ws.c15_control_send
