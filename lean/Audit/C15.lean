import NbioVerif.Properties.C15
import NbioVerif.Lemmas.SrcBridgeWs
#print axioms Ws.c15_delivered_within
#print axioms Ws.c15_buffered_within
#print axioms Ws.c15_readAll_bound
#print axioms Ws.c15_inflate_held
#print axioms Ws.c15_readAll_grows
#print axioms Ws.c15_oversize_refused
#print axioms Ws.c15_1009
#print axioms Ws.c15_control_recv
#print axioms Ws.c15_control_refused
#print axioms Ws.c15_control_send
#print axioms Ws.c15_cache_bound_by_limit
#print axioms Ws.c15_cache_bound_counterexample
#print axioms Ws.c15_cache_bound_partial
#print axioms Ws.c15_delivered_within_handoff
#print axioms Ws.c15_control_send_frame
#print axioms Ws.c15_control_send_close
#print axioms Ws.c15_control_send_ok
#print axioms Ws.src_isMessageTooLarge
#print axioms Ws.src_maxControl
