import NbioVerif.Properties.C06
import NbioVerif.Lemmas.HttpTables
import NbioVerif.Lemmas.SrcBridgeHttp
#print axioms Scan.implParse_eq_spec
#print axioms Scan.specFeed_append
#print axioms Http.wf
#print axioms Scan.c06_segmentation_independent
#print axioms Http.c06_http
#print axioms Scan.implParseC_eq
#print axioms Http.c06_driver_bridge
#print axioms Http.c06_http_driver
#print axioms Http.c06_http_driver_limit
#print axioms Http.c06_messages
#print axioms Http.procCalls_flatten
#print axioms Http.isToken_table
#print axioms Http.isHex_table
#print axioms Http.isNum_table
#print axioms Http.isAlpha_table
#print axioms Http.isValidMethodChar_table
#print axioms Http.validMethods_table
#print axioms Http.state_table
#print axioms Http.isToken_rfc
#print axioms Http.src_isToken
#print axioms Http.c06_dlines
#print axioms Http.c06_dlines_segmentation
#print axioms HttpEngine.chainE_eq_feedAllL
