import NbioVerif.Properties.C06
#print axioms Scan.implParse_eq_spec
#print axioms Scan.specFeed_append
#print axioms Http.wf
#print axioms Scan.c06_segmentation_independent
#print axioms Http.c06_http
