import NbioVerif.Properties.C18
#print axioms StopM.inv_run
#print axioms StopM.c18_wg_accounting
#print axioms StopM.c18_close_callback_once
#print axioms StopM.c18_close_callback_queued
#print axioms StopM.c18_snapshot_conns_closed
#print axioms StopM.c18_snapIn_is_table
#print axioms StopM.c18_wait_returns_all_closed
#print axioms StopM.c18_internal_step_decreases
#print axioms StopM.c18_internal_runs_bounded
#print axioms StopM.c18_stop_progress_partial
#print axioms StopM.c18_no_race_when_settled
#print axioms StopM.c18_stop_progress_counterexample
#print axioms StopM.c18_dial_race_counterexample
#print axioms StopM.c18_stop_returns
#print axioms StopM.c18_dialfail_pinned_counterexample
