import NbioVerif.Properties.C19
#print axioms TPool.init_idle
