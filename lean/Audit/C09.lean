import NbioVerif.Properties.C09
#print axioms Resp.c09_write_returns_len
