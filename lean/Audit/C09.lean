import NbioVerif.Properties.C09
#print axioms Resp.c09_write_returns_len
#print axioms Resp.c09_stage1
#print axioms Resp.c09_wire_shape
#print axioms Resp.c09_stage1_unframe
#print axioms Resp.unchunk_encode
#print axioms Resp.c09_framing_choice
#print axioms Resp.c09_stage2_head
#print axioms Resp.c09_stage2_trailers
#print axioms Resp.c09_stage2_split
#print axioms Resp.parseHead_headBytes
#print axioms Resp.parseStatusLine_statusBody
#print axioms Resp.c09_identity_auto_length_partial
#print axioms Resp.c09_flush_identity_counterexample
#print axioms Resp.c09_head_counterexample
#print axioms Resp.c09_readfrom_after_write_counterexample
