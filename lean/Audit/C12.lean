import NbioVerif.Properties.C12
#print axioms Ws.c12_mask_involutive
#print axioms Ws.c12_frame
