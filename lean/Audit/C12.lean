import NbioVerif.Properties.C12
#print axioms Ws.c12_roundtrip
#print axioms Ws.c12_invalid_text_not_delivered
#print axioms Ws.c12_trunc_tail
#print axioms Ws.c12_mask_fast
#print axioms Ws.c12_mask_involutive
#print axioms Ws.c12_header
#print axioms Ws.c12_frame
#print axioms Ws.c12_truncWriter
#print axioms Ws.c12_segmentation
#print axioms Ws.c12_handoff
#print axioms Ws.c12_handshake_roundtrip
#print axioms Ws.c12_handshake_then_roundtrip
#print axioms Ws.c12_handshake_musts
#print axioms Ws.c12_accept_key
#print axioms Ws.c12_token_table
