import NbioVerif.Properties.C03
import NbioVerif.Lemmas.SrcBridgeConn
import NbioVerif.Lemmas.SrcBridgeLife
#print axioms Life.li_run
#print axioms Life.li_runAll
#print axioms Life.runAll_run
#print axioms Life.c03_close_once
#print axioms Life.c03_raced_only_addconn
#print axioms Life.c03_no_open_without_close
#print axioms Life.c03_raced_close_before_open
#print axioms Life.c03_close_after_open
#print axioms Life.c03_wg
#print axioms Life.c03_first_cause
#print axioms Life.c03_closed_ops
#print axioms Life.c03_fd_quiet
#print axioms Life.c03_table
#print axioms Life.kres_stable
#print axioms Life.c03_dial
#print axioms Life.c03_dial_timer
#print axioms ConnFull.src_masks_wellformed
#print axioms Life.interest_mandatory
#print axioms Life.interest_src
#print axioms Life.interest_wrappers
#print axioms Life.interest_hangup
