import NbioVerif.Properties.C03
import NbioVerif.Lemmas.SrcBridgeConn
#print axioms Life.li_run
#print axioms Life.c03_close_once
#print axioms Life.c03_close_after_open
#print axioms Life.c03_first_cause
#print axioms Life.c03_closed_ops
#print axioms Life.c03_closed_ops_run
#print axioms Life.c03_close_idempotent
#print axioms Life.c03_dial
#print axioms ConnFull.src_masks_wellformed
