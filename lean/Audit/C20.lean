import NbioVerif.Properties.C20
#print axioms Alloc.lookup_bind_self
