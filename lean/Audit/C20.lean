import NbioVerif.Properties.C20
import NbioVerif.Lemmas.SrcBridgeAlloc
#print axioms Alloc.c20_invariant
#print axioms Alloc.c20_malloc_len
#print axioms Alloc.c20_append
#print axioms Alloc.c20_realloc
#print axioms Alloc.c20_disjoint
#print axioms Alloc.c20_frame
#print axioms Alloc.c20_no_panic
#print axioms Alloc.c20_pooled_class_cap
#print axioms Alloc.c20_accepts
#print axioms Alloc.c20_aligned_foreign_cap_counterexample
#print axioms Alloc.src_minAligned
#print axioms Alloc.src_maxAligned
#print axioms Alloc.src_nClasses
#print axioms Alloc.src_classSize
