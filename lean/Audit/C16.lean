import NbioVerif.Properties.C16
#print axioms Deadline.inv_run
#print axioms Deadline.c16_never_early
#print axioms Deadline.c16_pending_only_after_expiry
#print axioms Deadline.c16_renew_postpones
#print axioms Deadline.c16_no_stale
#print axioms Deadline.c16_clear_ends_force
#print axioms Deadline.c16_clearBoth_ends_force
#print axioms Deadline.c16_write_drain_ends_force
#print axioms Deadline.c16_flush_drain_ends_force
#print axioms Deadline.c16_closed_no_force
#print axioms Deadline.c16_cause_stable
#print axioms Deadline.c16_due_is_enabled
#print axioms Deadline.c16_pinned_stale_counterexample
#print axioms Deadline.c16_connected_ends_dial_timer
#print axioms Deadline.c16_fire_then_cb_closes
#print axioms Deadline.c16_no_callback_before_first_expiry
#print axioms Deadline.c16_force_is_spec
