import NbioVerif.Properties.C13
import NbioVerif.Lemmas.SrcBridgeWs
#print axioms Ws.rfcCfg_eq
#print axioms Ws.c13_partial
#print axioms Ws.agree_of_obs
#print axioms Ws.c13_partial_handoff
#print axioms Ws.hdrCheck_strict
#print axioms Ws.run_strict
#print axioms Ws.c13_masked
#print axioms Ws.c13_mask_counterexample
#print axioms Ws.c13_ping_pong
#print axioms Ws.c13_close_close
#print axioms Ws.c13_decoder
#print axioms Ws.c13_spec_helpers
#print axioms Ws.c13_close_reply
#print axioms Ws.c13_frame_table_is_hdrCheck
#print axioms Ws.c13_validFrame_table
#print axioms Ws.c13_frame_rfc
#print axioms Ws.c13_closeCode_table
#print axioms Ws.c13_closeCode_rfc
#print axioms Ws.c13_readlimit
#print axioms Ws.src_validFrame
#print axioms Ws.src_validCloseCode
