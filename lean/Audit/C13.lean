import NbioVerif.Properties.C13
#print axioms Ws.c13_validFrame_table
#print axioms Ws.c13_frame_rfc
#print axioms Ws.c13_closeCode_table
#print axioms Ws.c13_closeCode_rfc
