import NbioVerif.Properties.C08
#print axioms Http.c08_no_hang
#print axioms Http.c08_no_panic
#print axioms Http.c08_retained_bound
#print axioms Http.c08_body_bound
#print axioms Http.c08_content_length
#print axioms Http.c08_chunk_size
#print axioms Http.c08_transfer_encoding
#print axioms Http.c08_trailer_names
#print axioms Http.c08_missing_lf
#print axioms Http.c08_missing_cr
#print axioms Http.c08_bare_lf_in_header
#print axioms Http.c08_silent_after_close
#print axioms Http.c08_no_nil_deref
#print axioms Http.errIn_machine
#print axioms Scan.loopC_eq_loop
