import NbioVerif.Properties.C08
#print axioms Http.c08_no_hang
#print axioms Http.c08_retained_bound
#print axioms Http.errIn_machine
