import NbioVerif.Properties.C01
import NbioVerif.Lemmas.SrcBridgeConn
#print axioms ConnFull.inv_run
#print axioms ConnFull.c01_integrity
#print axioms ConnFull.c01_drained
#print axioms ConnFull.c01_return_write
#print axioms ConnFull.c01_error_write
#print axioms ConnFull.c01_return_writev
#print axioms ConnFull.c01_error_writev
#print axioms ConnFull.c01_return_sendfile
#print axioms ConnFull.c01_error_sendfile
#print axioms ConnFull.c01_flush_transmits_only
#print axioms ConnFull.src_maxCache
