import NbioVerif.Properties.C01
import NbioVerif.Properties.ConnTimer
import NbioVerif.Properties.ConnClose
import NbioVerif.Lemmas.SrcBridgeConn
#print axioms ConnFull.inv_run
#print axioms ConnFull.c01_integrity
#print axioms ConnFull.c01_drained
#print axioms ConnFull.c01_return_write
#print axioms ConnFull.c01_error_write
#print axioms ConnFull.c01_return_writev
#print axioms ConnFull.c01_error_writev
#print axioms ConnFull.c01_return_sendfile
#print axioms ConnFull.c01_error_sendfile
#print axioms ConnFull.c01_flush_transmits_only
-- supporting lemmas: the write deadline inside the write-path model (Properties/ConnTimer.lean)
#print axioms ConnFull.timer_cleared_by_write
#print axioms ConnFull.timer_cleared_by_writev
#print axioms ConnFull.timer_cleared_by_flush
#print axioms ConnFull.no_stale_timer_after_drain
#print axioms ConnFull.wT_sendfile
#print axioms ConnFull.timer_kept_by_backlog
#print axioms ConnFull.close_stops_timer
#print axioms ConnFull.timer_fire_closes
#print axioms ConnFull.timer_fire_closed_noop
#print axioms ConnFull.timer_fire_needs_expiry
#print axioms ConnFull.timer_expire_needs_timer
#print axioms ConnFull.timer_survives_error_close
-- supporting lemmas: the two steps of a close (Properties/ConnClose.lean; step names shared with the C03 model)
#print axioms ConnFull.inv_run3
#print axioms ConnFull.close_frozen
#print axioms ConnFull.closed_indication
#print axioms ConnFull.teardown_effect
#print axioms ConnFull.teardown_idle
#print axioms ConnFull.close_bookkeeping
#print axioms ConnFull.close_pending_or_done
#print axioms ConnFull.no_wire_after_flip
#print axioms ConnFull.closeNow_eq_flip_teardown
#print axioms ConnFull.c01_accepted_is_reported
#print axioms ConnFull.c01_reported_needs_wf
#print axioms ConnFull.sendfileNoDup_step
#print axioms ConnFull.reach_sendfileNoDup
#print axioms ConnFull.sendfileLoop_denyDup_wl
#print axioms ConnFull.c01_sendfile_nodup
#print axioms ConnFull.src_maxCache
#print axioms ConnFull.fileRange_eq
#print axioms ConnFull.foldPending_eq
#print axioms ConnFull.pending_length
#print axioms ConnFull.step_reported_ex
#print axioms ConnFull.closed_tail
#print axioms ConnFull.run_reported_ex
#print axioms ConnFull.c01_wire_prefix_of_reported
