import NbioVerif.Properties.C01
#print axioms ConnFull.c01_closed_write
