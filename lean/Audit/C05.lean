import NbioVerif.Properties.C05
#print axioms ExecQ.c05_one_at_a_time
#print axioms ExecQ.c05_fifo_exactly_once
#print axioms ExecQ.c05_no_lost_job
#print axioms ExecQ.c05_no_index_panic
#print axioms ExecQ.c05_closed_rejects
#print axioms ExecQ.c05_must_accepts
#print axioms ExecQ.c05_open_accepts
#print axioms ExecQ.c05_panic_like_return
#print axioms ExecQ.c05_panic_then_next
#print axioms ExecQ.c05_rejected_never_runs
#print axioms ExecQ.c05_must_runs
#print axioms ExecQ.c05_completes
#print axioms ExecQ.c05_close_after_earlier
