import NbioVerif.Properties.C14
#print axioms WsCb.inv_run
#print axioms WsCb.c14_queue_is_execq
#print axioms WsCb.c14_callback_order
#print axioms WsCb.c14_one_at_a_time
#print axioms WsCb.c14_callbacks_exactly_once
#print axioms WsCb.c14_open_first
#print axioms WsCb.c14_open_completes_before_messages
#print axioms WsCb.c14_close_once_last
#print axioms WsCb.c14_failed_upgrade_no_callbacks
#print axioms WsCb.c14_transfer_open_race_counterexample
#print axioms SendQ.inv_run
#print axioms SendQ.c14_wire_prefix_of_accepted
#print axioms SendQ.c14_frames_whole
#print axioms SendQ.c14_queued_never_cut
#print axioms SendQ.c14_direct_cut_means_dead
#print axioms SendQ.c14_bounded_queue_partial_counterexample
