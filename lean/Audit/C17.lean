import NbioVerif.Properties.C17
#print axioms ConnFull.inv_run
#print axioms ConnFull.c17_inv
#print axioms ConnFull.c17_drained
#print axioms ConnFull.c17_fits_accepted_write
#print axioms ConnFull.c17_fits_accepted_writev
#print axioms ConnFull.c17_sendfile_no_overflow
#print axioms ConnFull.c17_overflow_closes_write
#print axioms ConnFull.c17_overflow_closes_writev
#print axioms ConnFull.c17_overflow_only_if_write
#print axioms ConnFull.c17_overflow_only_if_writev
#print axioms ConnFull.c17_fits_accepted_sendfile
#print axioms ConnFull.c17_full_budget_after_drain
#print axioms ConnFull.c17_file_ranges_not_counted
#print axioms ConnFull.c17_inv_nodup
#print axioms ConnFull.c17_sendfile_nodup_no_overflow
#print axioms ConnFull.c17_fits_sendfile_nodup_partial
