import NbioVerif.Properties.C17
#print axioms ConnFull.c17_overflow_closes_write
