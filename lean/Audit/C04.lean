import NbioVerif.Properties.C04
import NbioVerif.Lemmas.SrcBridgeConn
#print axioms ConnFull.inv_run
#print axioms ConnFull.c04_armed
#print axioms ConnFull.c04_belief
#print axioms ConnFull.c04_register_arms
#print axioms ConnFull.c04_evEnd_arms
#print axioms ConnFull.c04_flush_terminates
#print axioms ConnFull.c04_flush_monotone
#print axioms ConnFull.c04_progress
#print axioms ConnFull.c04_event_flushes
#print axioms ConnFull.invE_run
#print axioms ConnFull.c04_et_edge
#print axioms ConnFull.c04_et_report_flushes
#print axioms ConnFull.c04_et_edge_counterexample_early
#print axioms ConnFull.c04_drains
#print axioms ConnFull.c04_tail_is_three_steps
#print axioms ConnFull.src_pModWrite
#print axioms ConnFull.src_pResetRead
#print axioms ConnFull.src_pAddRead
#print axioms ConnFull.src_pAddReadWrite
#print axioms ConnFull.src_masks_wellformed
#print axioms ConnFull.c04_quiet_after_tail
#print axioms ConnFull.c04_drains_from_open
#print axioms ConnFull.c04_progress_eintr
#print axioms ConnFull.c04_flush_empty_noop
#print axioms ConnFull.c04_flush_empty_drops_idle
