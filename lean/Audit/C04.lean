import NbioVerif.Properties.C04
#print axioms ConnFull.c04_register_arms
