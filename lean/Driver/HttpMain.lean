import NbioVerif.Model.Http
open Http Scan

def hexVal (c : Char) : Nat :=
  if c.isDigit then c.toNat - 48 else if c.toNat ≥ 97 then c.toNat - 87 else c.toNat - 55

def unhex (s : String) : List UInt8 :=
  let rec go : List Char → List UInt8
    | a :: b :: r => UInt8.ofNat (hexVal a * 16 + hexVal b) :: go r
    | _ => []
  go s.toList

def hexDigit (n : Nat) : Char := if n < 10 then Char.ofNat (48 + n) else Char.ofNat (87 + n)
def hex (b : List UInt8) : String :=
  String.ofList (b.foldr (fun x acc => hexDigit (x.toNat / 16) :: hexDigit (x.toNat % 16) :: acc) [])

def protoOk (b : List UInt8) : Bool :=
  let s := String.ofList (b.map (fun x => Char.ofNat x.toNat))
  s == "HTTP/1.1" || s == "HTTP/1.0" ||
    (b.length == 8 && b.take 5 == str "HTTP/" && b[6]! == 46 && isNum b[5]! && isNum b[7]!)

def showEv : Ev → String
  | .method m => s!"method {hex m}"
  | .url u => s!"url {hex u}"
  | .proto p => s!"proto {hex p}"
  | .status c s => s!"status {c} {hex s}"
  | .header k v => s!"header {hex k} {hex v}"
  | .contentLength n => s!"cl {n}"
  | .body d => s!"body {hex d}"
  | .trailer k v => s!"trailer {hex k} {hex v}"
  | .complete => "complete"

structure DS where
  g : Cfg
  limit : Nat
  p : P
  cache : List UInt8
  dead : Bool

partial def loop (h : IO.FS.Stream) (s : DS) : IO Unit := do
  let line ← h.getLine
  if line.isEmpty then return ()
  let ws := (line.trimAscii.toString.splitOn " ")
  match ws with
  | ["C", cli, maxb, lim] =>
    let g : Cfg := { isClient := cli == "1", maxBody := maxb.toNat!, urlOk := fun _ => true, protoOk := fun _ => true }
    IO.println "ok"
    loop h { g, limit := lim.toNat!, p := Http.init g, cache := [], dead := false }
  | ["D", hx, bu, bp] =>
    if s.dead then IO.println "dead"; loop h s
    else
      let data := unhex hx
      let badUrls := ((bu.drop 7).toString.splitOn ",").filter (· ≠ "") |>.map unhex
      let badProtos := ((bp.drop 9).toString.splitOn ",").filter (· ≠ "") |>.map unhex
      let g : Cfg := { s.g with urlOk := fun u => !badUrls.contains u, protoOk := fun u => !badProtos.contains u }
      if s.cache ≠ [] && s.limit > 0 && s.cache.length + data.length > s.limit then
        IO.println s!"R err={E.tooLong.code} []"
        loop h { s with dead := true }
      else
        let r := implParse (machine g) s.p s.cache data []
        let evs := String.intercalate ";" (r.evs.map showEv)
        match r.fin with
        | .inl (p', cache') =>
          IO.println s!"R ok cache={cache'.length} [{evs}]"
          loop h { s with p := p', cache := cache' }
        | .inr e =>
          IO.println s!"R err={e} [{evs}]"
          loop h { s with dead := true }
  | _ => IO.println "bad-op"; loop h s

def main : IO Unit := do
  let g : Cfg := { isClient := false, maxBody := 0, urlOk := fun _ => true, protoOk := fun _ => true }
  loop (← IO.getStdin) { g, limit := 0, p := Http.init g, cache := [], dead := false }
