import NbioVerif.DrvCommon
import NbioVerif.Model.HttpProc
/-! httpdrv: line-protocol driver of the HTTP parser family (C06, C07, C08); see harness/cmd/hhttp/main.go. -/
open Http Scan Drv

def showEv : Ev → String
  | .method m => s!"method {hex m}"
  | .url u => s!"url {hex u}"
  | .proto p => s!"proto {hex p}"
  | .status c s => s!"status {c} {hex s}"
  | .header k v => s!"header {hex k} {hex v}"
  | .contentLength n => s!"cl {n}"
  | .body d => s!"body {hex d}"
  | .trailer k v => s!"trailer {hex k} {hex v}"
  | .complete => "complete"

/-- bytewise lexicographic order (Go's `sort.Strings`) -/
def bytesLt : List UInt8 → List UInt8 → Bool
  | [], [] => false
  | [], _ :: _ => true
  | _ :: _, [] => false
  | a :: as, b :: bs => if a < b then true else if b < a then false else bytesLt as bs

def insertSorted (x : Bytes × List Bytes) : List (Bytes × List Bytes) → List (Bytes × List Bytes)
  | [] => [x]
  | y :: ys => if bytesLt x.1 y.1 then x :: y :: ys else y :: insertSorted x ys

def sortKeys (h : HMap) : HMap := h.foldl (fun acc x => insertSorted x acc) []

def joinZero : List Bytes → Bytes
  | [] => []
  | [v] => v
  | v :: vs => v ++ [0] ++ joinZero vs

def joinComma : List Bytes → Bytes
  | [] => []
  | [v] => v
  | v :: vs => v ++ [44] ++ joinComma vs

/-- `hdrString` of the harness: sorted keys, values joined by NUL -/
def hdrString (h : HMap) : String :=
  String.join ((sortKeys h).map fun (k, vs) => s!"{hex k}:{hex (joinZero vs)},")

def hexNat (n : Nat) : String :=
  if n == 0 then "0" else
  let rec go (fuel n : Nat) (acc : List Char) : List Char :=
    match fuel with
    | 0 => acc
    | fuel + 1 => if n == 0 then acc else go fuel (n / 16) (hexDigit (n % 16) :: acc)
  String.ofList (go 20 n [])

def showDelivered : Delivered → String
  | .req r =>
    s!"req\{{hex r.method}|{hex r.target}|{hex r.proto}|{hex r.host}|{hdrString r.header}|cl{r.contentLength}|te{hex (joinComma r.te)}|{r.body.length}:{hexNat (fnv r.body).toNat}|{hdrString r.trailer}|close{r.close}}"
  | .resp r =>
    s!"res\{{hex r.proto}|{r.code}|{hex r.status}|{hdrString r.header}|cl{r.contentLength}|{r.body.length}:{hexNat (fnv r.body).toNat}|{hdrString r.trailer}}"

structure DS where
  g : Cfg
  limit : Nat
  p : P
  cache : List UInt8
  cur : Option Building        -- processor: message under construction
  dead : Bool

/-- run the processor glue over the events of one Parse call -/
def runProc (s : DS) (evs : List Ev) : Option Building × String :=
  match procRun s.g.isClient s.cur evs [] with
  | some (cur, out) => (cur, String.intercalate ";" (out.map showDelivered))
  | none => (none, "proc-nil-deref")

def hexList (s : String) : List (List UInt8) := (s.splitOn ",").filter (· ≠ "") |>.map unhex

partial def loop (h : IO.FS.Stream) (s : DS) : IO Unit := do
  let line ← h.getLine
  if line.isEmpty then return ()
  let ws := (line.trimAscii.toString.splitOn " ")
  match ws with
  | ["C", cli, maxb, lim] =>
    let g : Cfg := { isClient := cli == "1", maxBody := maxb.toNat!, urlOk := fun _ => true, protoOk := fun _ => true }
    IO.println "ok"
    loop h { g, limit := lim.toNat!, p := Http.init g, cache := [], cur := none, dead := false }
  | "D" :: hx :: rest =>
    if s.dead then IO.println "dead"; loop h s
    else
      let data := unhex hx
      let badUrls := hexList ((field rest "badurl").getD "")
      let badProtos := hexList ((field rest "badproto").getD "")
      let okProtos := hexList ((field rest "okproto").getD "")
      -- the verdict of http.ParseHTTPVersion is an input; the model's own `parseHTTPVersion` must agree with it
      let protoMismatch := badProtos.any (fun b => (parseHTTPVersion b).isSome) || okProtos.any (fun b => (parseHTTPVersion b).isNone)
      let g : Cfg := { s.g with urlOk := fun u => !badUrls.contains u, protoOk := fun u => !badProtos.contains u }
      if s.cache ≠ [] && s.limit > 0 && s.cache.length + data.length > s.limit then
        IO.println s!"R err={E.tooLong.code} [] msgs="
        loop h { s with dead := true }
      else
        let r := implParse (machine g) s.p s.cache data []
        let evs := String.intercalate ";" (r.evs.map showEv)
        let (cur, msgs) := runProc s r.evs
        let pm := if protoMismatch then " proto-verdict-mismatch" else ""
        match r.fin with
        | .inl (p', cache') =>
          IO.println s!"R ok cache={cache'.length} st={p'.st.num} [{evs}] msgs={msgs}{pm}"
          loop h { s with p := p', cache := cache', cur := cur }
        | .inr e =>
          IO.println s!"R err={e} [{evs}] msgs={msgs}{pm}"
          loop h { s with dead := true, cur := cur }
  | _ => IO.println "bad-op"; loop h s

def main : IO Unit := do
  let g : Cfg := { isClient := false, maxBody := 0, urlOk := fun _ => true, protoOk := fun _ => true }
  loop (← IO.getStdin) { g, limit := 0, p := Http.init g, cache := [], cur := none, dead := false }
