import NbioVerif.DrvCommon
import NbioVerif.Model.HttpMsg
import NbioVerif.Model.ScanChecked
import NbioVerif.Model.HttpEngine
import NbioVerif.Model.HttpBody
/-! httpdrv: line-protocol driver of the HTTP parser family (C06, C07, C08); see harness/cmd/hhttp/main.go. -/
open Http Scan Drv

def showEv : Ev → String
  | .method m => s!"method {hex m}"
  | .url u => s!"url {hex u}"
  | .proto p => s!"proto {hex p}"
  | .status c s => s!"status {c} {hex s}"
  | .header k v => s!"header {hex k} {hex v}"
  | .contentLength n => s!"cl {n}"
  | .body d => s!"body {hex d}"
  | .trailer k v => s!"trailer {hex k} {hex v}"
  | .complete => "complete"

/-- bytewise lexicographic order (Go's `sort.Strings`) -/
def bytesLt : List UInt8 → List UInt8 → Bool
  | [], [] => false
  | [], _ :: _ => true
  | _ :: _, [] => false
  | a :: as, b :: bs => if a < b then true else if b < a then false else bytesLt as bs

def insertSorted (x : Bytes × List Bytes) : List (Bytes × List Bytes) → List (Bytes × List Bytes)
  | [] => [x]
  | y :: ys => if bytesLt x.1 y.1 then x :: y :: ys else y :: insertSorted x ys

def sortKeys (h : HMap) : HMap := h.foldl (fun acc x => insertSorted x acc) []

def joinZero : List Bytes → Bytes
  | [] => []
  | [v] => v
  | v :: vs => v ++ [0] ++ joinZero vs

def joinComma : List Bytes → Bytes
  | [] => []
  | [v] => v
  | v :: vs => v ++ [44] ++ joinComma vs

/-- `hdrString` of the harness: sorted keys, values joined by NUL -/
def hdrString (h : HMap) : String :=
  String.join ((sortKeys h).map fun (k, vs) => s!"{hex k}:{hex (joinZero vs)},")

def hexNat (n : Nat) : String :=
  if n == 0 then "0" else
  let rec go (fuel n : Nat) (acc : List Char) : List Char :=
    match fuel with
    | 0 => acc
    | fuel + 1 => if n == 0 then acc else go fuel (n / 16) (hexDigit (n % 16) :: acc)
  String.ofList (go 20 n [])

def showDelivered : Delivered → String
  | .req r =>
    s!"req\{{hex r.method}|{hex r.target}|{hex r.proto}|{hex r.host}|{hdrString r.header}|cl{r.contentLength}|te{hex (joinComma r.te)}|{r.body.length}:{hexNat (fnv r.body).toNat}|{hdrString r.trailer}|close{r.close}}"
  | .resp r =>
    s!"res\{{hex r.proto}|{r.code}|{hex r.status}|{hdrString r.header}|cl{r.contentLength}|{r.body.length}:{hexNat (fnv r.body).toNat}|{hdrString r.trailer}}"

structure DS where
  g : Cfg
  limit : Nat
  pc : HttpEngine.PC P         -- the parser as the engine holds it (state, cache, closed)
  cur : Option Building        -- processor: message under construction
  -- C07 (hhttp7): the messages of the case, their concatenated rendering, the message boundaries
  msgs : List Msg := []
  stream : List UInt8 := []
  bounds : List Nat := []
  neighbour : Bool := false
  emode : Nat := 0             -- hhttpe: I/O mode of the engine cell
  br : HttpBody.BR := {}       -- hbody: the BodyReader
  brMax : Nat := 0

/-! ### C07: decoding of `M` lines (see harness/cmd/hhttp7/msg.go) -/

def decHdrs (s sep inner : String) : Option (List Hdr) :=
  if s.isEmpty then some [] else
  (s.splitOn sep).mapM fun x =>
    match x.splitOn inner with
    | [n, p, v] => some { name := unhex n, pad := p.toNat!, value := unhex v }
    | _ => none

def decChunks (s : String) : Option (List Chunk) :=
  if s.isEmpty then some [] else
  (s.splitOn ";").mapM fun x =>
    match x.splitOn "." with
    | [a, b, c] => some { size := unhex a, ext := unhex b, data := payload c }
    | _ => none

def decMsg (ws : List String) : Option Msg :=
  match ws with
  | [st, hs, bd] =>
    if !(hs.startsWith "h=") || !(bd.startsWith "b=") then none else
    let start? : Option Start := match st.splitOn ":" with
      | ["q", a, b, c] => some (.request (unhex a) (unhex b) (unhex c))
      | ["s", a, b, c] => some (.status (unhex a) (unhex b) (unhex c))
      | _ => none
    let body? : Option Body := match (bd.drop 2).toString.splitOn "|" with
      | ["n"] => some .none
      | ["f", d] => some (.fixed (payload d))
      | ["c", cs, last, ext, trs] =>
        match decChunks cs, decHdrs trs ";" "." with
        | some cs, some trs => some (.chunked cs (unhex last) (unhex ext) trs)
        | _, _ => none
      | _ => none
    match start?, decHdrs (hs.drop 2).toString "," ":", body? with
    | some st, some hs, some b => some { start := st, headers := hs, body := b }
    | _, _, _ => none
  | _ => none

def showFraming : Framing → String
  | .none => "none" | .length n => s!"cl{n}" | .chunked _ => "chunked" | .invalid => "invalid"

/-- the normal form printed by the harness for net/http's result (`normRefReq`/`normRefResp`) -/
def showNorm (m : Msg) : String :=
  match m.start with
  | .request .. =>
    match normReqSpec m with
    | some n =>
      s!"nreq\{{hex (n.line.getD 0 [])}|{hex (n.line.getD 1 [])}|{hex (n.line.getD 2 [])}|{hex (n.line.getD 3 [])}|{hdrString n.header}|{showFraming n.framing}|{n.body.length}:{hexNat (fnv n.body).toNat}|{hdrString n.trailer}|close{n.close}}"
    | none => "none"
  | .status .. =>
    match normRespSpec m with
    | some n =>
      s!"nres\{{hex (n.line.getD 0 [])}|{decimal (n.line.getD 1 [])}|{hex (n.line.getD 2 [])}|{hdrString n.header}|{showFraming n.framing}|{n.body.length}:{hexNat (fnv n.body).toNat}|{hdrString n.trailer}}"
    | none => "none"

/-- the writes of an hhttpe case / the reads of an hhttp7 case: the stream cut at the given sizes, the rest in one piece -/
def writesOf : Nat → List UInt8 → List Nat → List (List UInt8)
  | 0, _, _ => []
  | fuel + 1, rest, cuts =>
    if rest = [] then [] else
    let n := match cuts with | c :: _ => if c > 0 && c < rest.length then c else rest.length | [] => rest.length
    rest.take n :: writesOf fuel (rest.drop n) cuts.tail

/-- request targets as the hhttpe handler files them: "/<id>/<name>[?…]" ↦ name -/
def pathName (id : String) (target : List UInt8) : Option String :=
  let t := String.ofList (target.map fun b => Char.ofNat b.toNat)
  let t := (t.splitOn "?").headD ""
  match ((t.drop 1).toString.splitOn "/") with
  | i :: rest => if i == id && rest ≠ [] then some (String.intercalate "/" rest) else none
  | _ => none

/-- one engine scenario on the model: the client's writes arrive as reads (by C06 the cut positions do not matter),
    then the client closes; returns the line the harness prints for the real engine -/
def engineCase (g : Cfg) (mode : Nat) (id : String) (stream : List UInt8) (cuts : List Nat) : String :=
  let ws := writesOf (stream.length + 1) stream cuts
  let c0 : HttpEngine.Conn P Ev := HttpEngine.fresh (Http.init g)
  let M := machine g
  -- while the client is still connected
  let c1 : HttpEngine.Conn P Ev :=
    match mode with
    | 0 => HttpEngine.runNB M 0 c0 (ws.map .data)
    | 1 | 2 => HttpEngine.runB M 0 c0 (ws.map .data)
    | 3 => HttpEngine.runTlsNB M 0 c0 (ws.map fun w => (.data w, [⟨w, false⟩, ⟨[], false⟩]))
    | _ => HttpEngine.runTlsB M 0 c0 (ws.map fun w => (.data w, [⟨w, false⟩, ⟨[], false⟩]))
  let closedFirst := c1.trace.any (· == HttpEngine.Obs.connClose)
  -- then the client closes: the next read fails
  let c2 : HttpEngine.Conn P Ev :=
    match mode with
    | 0 => HttpEngine.runNB M 0 c1 [.err]
    | 1 | 2 => HttpEngine.runB M 0 c1 [.err]
    | 3 => HttpEngine.runTlsNB M 0 c1 [(.err, [])]
    | _ => HttpEngine.runTlsB M 0 c1 [(.err, [])]
  let evs := c2.trace.filterMap fun | .ev e => some e | _ => none
  let names := (requestsOf evs).filterMap fun r => pathName id r.target
  let onclose := (c2.trace.filter (· == HttpEngine.Obs.onClose)).length
  s!"R handled={String.intercalate "," names} closed={if closedFirst then 1 else 0} onclose={onclose}"

def showAlloc (evs : List HttpBody.AllocEv) : String :=
  String.intercalate "," (evs.map fun
    | .malloc id n cap => s!"m{id}:{n}:{cap}"
    | .free id => s!"f{id}")

def showBR (br : HttpBody.BR) (evs : List HttpBody.AllocEv) : String :=
  s!"left={br.left} index={br.index} nbuf={br.buffers.length} closed={if br.closed then 1 else 0} alloc={showAlloc evs}"

/-- one step of `procCalls` (Model/HttpProc.lean): the processor consumes the events of one Parse call -/
def runProc (s : DS) (evs : List Ev) : Option Building × String :=
  match procRun s.g.isClient s.cur evs [] with
  | some (cur, out) => (cur, String.intercalate ";" (out.map showDelivered))
  | none => (none, "proc-nil-deref")

def hexList (s : String) : List (List UInt8) := (s.splitOn ",").filter (· ≠ "") |>.map unhex

partial def loop (h : IO.FS.Stream) (s : DS) : IO Unit := do
  let line ← h.getLine
  if line.isEmpty then return ()
  let ws := (line.trimAscii.toString.splitOn " ")
  match ws with
  | ["C", cli, maxb, lim] =>
    let g : Cfg := { isClient := cli == "1", maxBody := maxb.toNat!, urlOk := fun _ => true, protoOk := fun _ => true }
    IO.println "ok"
    loop h { g, limit := lim.toNat!, pc := { st := Http.init g, cache := [] }, cur := none }
  | ["C", cli, maxb, lim, _] =>
    -- a fifth token ("h=0110": which responses answer a HEAD request) is request context for the reference only:
    -- the parser has no such input (known finding HTTP-CLIENT-HEAD)
    let g : Cfg := { isClient := cli == "1", maxBody := maxb.toNat!, urlOk := fun _ => true, protoOk := fun _ => true }
    IO.println "ok"
    loop h { g, limit := lim.toNat!, pc := { st := Http.init g, cache := [] }, cur := none }
  | "D" :: hx :: rest =>
    let data := if hx == "-" then [] else unhex hx
    let badUrls := hexList ((field rest "badurl").getD "")
    let badProtos := hexList ((field rest "badproto").getD "")
    let okProtos := hexList ((field rest "okproto").getD "")
    -- the verdict of http.ParseHTTPVersion is an input; the model's own `parseHTTPVersion` must agree with it
    let protoMismatch := badProtos.any (fun b => (parseHTTPVersion b).isSome) || okProtos.any (fun b => (parseHTTPVersion b).isNone)
    let g : Cfg := { s.g with urlOk := fun u => !badUrls.contains u, protoOk := fun u => !badProtos.contains u }
    -- one `Parse` call with the engine glue: on an error the parser is closed (Model/HttpEngine.lean: parseE)
    let (pc', evl, err) := HttpEngine.parseE (machine g) s.limit s.pc data
    let evs := String.intercalate ";" (evl.map showEv)
    let (cur, msgs) := runProc s evl
    let pm := if protoMismatch then " proto-verdict-mismatch" else ""
    match err with
    | none =>
      IO.println s!"R ok cache={pc'.cache.length}:{hexNat (fnv pc'.cache).toNat} st={pc'.st.st.num} held={pc'.st.bodyHeld} [{evs}] msgs={msgs}{pm}"
      loop h { s with pc := pc', cur := cur }
    | some e =>
      IO.println s!"R err={e} [{evs}] msgs={msgs}{pm}"
      loop h { s with pc := pc', cur := cur }
  | "M" :: rest =>
    match decMsg rest with
    | none => IO.println "bad-op"; loop h s
    | some m =>
      let b := m.render
      let wf := if wfMsg m then "" else "not-wf "
      IO.println s!"R {wf}render={b.length}:{hexNat (fnv b).toNat}"
      loop h { s with msgs := s.msgs ++ [m], stream := s.stream ++ b, bounds := s.bounds ++ [s.stream.length + b.length] }
  | ["X", _, hx] =>
    let b := unhex hx
    IO.println s!"R render={b.length}:{hexNat (fnv b).toNat}"
    loop h { s with stream := s.stream ++ b, neighbour := true }
  | "F" :: segs :: rest =>
    let badUrls := hexList ((field rest "badurl").getD "")
    let badProtos := hexList ((field rest "badproto").getD "")
    let g : Cfg := { s.g with urlOk := fun u => !badUrls.contains u, protoOk := fun u => !badProtos.contains u }
    let segl := if segs == "whole" then [] else (segs.splitOn ",").map String.toNat!
    let r := feedAllL (machine g) s.limit (Http.init g) [] (writesOf (s.stream.length + 1) s.stream segl) []
    let msgs := match procRun g.isClient none r.evs [] with
      | some (_, out) => String.intercalate ";" (out.map showDelivered)
      | none => "proc-nil-deref"
    let (err, cache, st) := match r.fin with
      | .inl (p', cache') => (0, cache'.length, p'.st.num)
      | .inr e => (e, 0, 0)
    if s.neighbour then
      IO.println s!"R err={err} cache={if err == 0 then toString cache else "?"} st={if err == 0 then toString st else "?"} nb={msgs} offs=- ref=-"
    else
      let done := (r.evs.filter (· == Ev.complete)).length
      -- message boundaries as the model parser places them (byte-at-a-time run); for long streams (quadratic on
      -- lists) the cumulative rendered lengths, which c07_message proves to be the same
      let offl := if s.stream.length ≤ 2500 then boundaries (machine g) (· == Ev.complete) (Http.init g) [] s.stream 0
                  else s.bounds.take done
      let offs := String.intercalate "," (offl.map toString)
      let ref := String.intercalate ";" (s.msgs.map showNorm)
      -- instances of the C07 theorems, evaluated on this case (cannot fail for well-formed messages)
      let specEvs := (s.msgs.map eventsOf).flatten
      let specDel : List Delivered := s.msgs.filterMap fun m =>
        match reqSpec m, respSpec m with
        | some q, _ => some (.req q) | _, some p => some (.resp p) | _, _ => none
      let flat (evs : List Ev) : List Ev := evs   -- body events are whole per message in both
      let ok := flat r.evs == specEvs && deliveredOf g.isClient specEvs == specDel
      IO.println s!"R err={err} cache={if err == 0 then toString cache else "?"} st={if err == 0 then toString st else "?"} nb={msgs} offs={offs} ref={ref}{if ok then "" else " spec-mismatch"}"
    loop h s
  -- hclient: the bytes a server sent in reply to a pipelined request script, through the client parser and the
  -- client processor; the responses delivered before the first parse error
  | ["C", "client"] => IO.println "ok"; loop h s
  | ["K", _, script, rawf] =>
    -- replies to HEAD that announce a body: known finding HTTP-CLIENT-HEAD, deliveries timing dependent, not compared
    if (script.splitOn ",").any (fun t => t == "hl" || t == "hc") then
      IO.println "R client got=~ err=~"
      loop h s
    else
    let raw := unhex ((rawf.drop 4).toString)
    let g : Cfg := { isClient := true, maxBody := 0, urlOk := fun _ => true, protoOk := fun _ => true }
    let r := feedAllL (machine g) 0 (Http.init g) [] [raw] []
    let outs := match procRun true none r.evs [] with
      | some (_, out) => out.filterMap fun | .resp p => some s!"{p.code}:{p.contentLength}:{p.body.length}:{hexNat (fnv p.body).toNat}" | _ => none
      | none => ["proc-nil-deref"]
    let err := match r.fin with | .inr _ => 1 | .inl _ => 0
    IO.println s!"R client got={String.intercalate "," outs} err={err}"
    loop h s
  -- hbody: the BodyReader model (Model/HttpBody.lean)
  | ["C", "body", mx] => IO.println "ok"; loop h { s with br := {}, brMax := mx.toNat! }
  | ["A", pl, extra] =>
    match HttpBody.append s.brMax s.br (payload pl) extra.toNat! with
    | none => IO.println s!"R toolong {showBR s.br []}"; loop h s
    | some (br', evs) => IO.println s!"R ok {showBR br' evs}"; loop h { s with br := br' }
  | ["R", n] =>
    match HttpBody.read s.br n.toNat! with
    | none => IO.println "R out-of-fuel"; loop h s
    | some (br', out, eof, evs) =>
      IO.println s!"R n={out.length} eof={if eof then 1 else 0} data={out.length}:{hexNat (fnv out).toNat} {showBR br' evs}"
      loop h { s with br := br' }
  | ["X"] =>
    let (br', evs) := HttpBody.close s.br
    IO.println s!"R closed {showBR br' evs}"; loop h { s with br := br' }
  | ["B"] =>
    let raw := HttpBody.rawBuffers s.br
    let rs := String.intercalate "," (raw.map fun b => s!"{b.length}:{hexNat (fnv b).toNat}")
    IO.println s!"R raw={rs} {showBR s.br []}"; loop h s
  | ["N"] =>
    let (br', evs) := HttpBody.recycle s.br
    IO.println s!"R new {showBR br' evs}"; loop h { s with br := br' }
  -- hhttpe: the engine model (Model/HttpEngine.lean) over the parser model, on the writes of the case
  | ["C", mode] =>
    if mode.toNat! ≤ 5 && mode.isNat then IO.println "ok"; loop h { s with emode := mode.toNat! }
    else IO.println "bad-op"; loop h s
  | "S" :: id :: hx :: cuts :: rest =>
    let stream := unhex hx
    let badUrls := hexList ((field rest "badurl").getD "")
    let badProtos := hexList ((field rest "badproto").getD "")
    let g : Cfg := { isClient := false, maxBody := 0, urlOk := fun u => !badUrls.contains u, protoOk := fun u => !badProtos.contains u }
    let cuts := if cuts.endsWith "!" then cuts.dropRight 1 else cuts   -- "!": the client closes at once
    let cutl := if cuts == "whole" then [] else (cuts.splitOn ",").map String.toNat!
    IO.println (engineCase g s.emode id stream cutl)
    loop h s
  | _ => IO.println "bad-op"; loop h s

def main : IO Unit := do
  let g : Cfg := { isClient := false, maxBody := 0, urlOk := fun _ => true, protoOk := fun _ => true }
  loop (← IO.getStdin) { g, limit := 0, pc := { st := Http.init g, cache := [] }, cur := none }
