import NbioVerif.DrvCommon
import NbioVerif.Model.HttpMsg
import NbioVerif.Model.ScanChecked
/-! httpdrv: line-protocol driver of the HTTP parser family (C06, C07, C08); see harness/cmd/hhttp/main.go. -/
open Http Scan Drv

/-- the Parse loop with Go's slice/index expressions checked; 998 = the Go code would panic (C08: unreachable) -/
def parseChecked (g : Cfg) (p : P) (cache data : List UInt8) (acc : List Ev) : Res P Ev :=
  (implParseC (machine g) p cache data acc).getD ⟨acc, .inr 998⟩

def showEv : Ev → String
  | .method m => s!"method {hex m}"
  | .url u => s!"url {hex u}"
  | .proto p => s!"proto {hex p}"
  | .status c s => s!"status {c} {hex s}"
  | .header k v => s!"header {hex k} {hex v}"
  | .contentLength n => s!"cl {n}"
  | .body d => s!"body {hex d}"
  | .trailer k v => s!"trailer {hex k} {hex v}"
  | .complete => "complete"

/-- bytewise lexicographic order (Go's `sort.Strings`) -/
def bytesLt : List UInt8 → List UInt8 → Bool
  | [], [] => false
  | [], _ :: _ => true
  | _ :: _, [] => false
  | a :: as, b :: bs => if a < b then true else if b < a then false else bytesLt as bs

def insertSorted (x : Bytes × List Bytes) : List (Bytes × List Bytes) → List (Bytes × List Bytes)
  | [] => [x]
  | y :: ys => if bytesLt x.1 y.1 then x :: y :: ys else y :: insertSorted x ys

def sortKeys (h : HMap) : HMap := h.foldl (fun acc x => insertSorted x acc) []

def joinZero : List Bytes → Bytes
  | [] => []
  | [v] => v
  | v :: vs => v ++ [0] ++ joinZero vs

def joinComma : List Bytes → Bytes
  | [] => []
  | [v] => v
  | v :: vs => v ++ [44] ++ joinComma vs

/-- `hdrString` of the harness: sorted keys, values joined by NUL -/
def hdrString (h : HMap) : String :=
  String.join ((sortKeys h).map fun (k, vs) => s!"{hex k}:{hex (joinZero vs)},")

def hexNat (n : Nat) : String :=
  if n == 0 then "0" else
  let rec go (fuel n : Nat) (acc : List Char) : List Char :=
    match fuel with
    | 0 => acc
    | fuel + 1 => if n == 0 then acc else go fuel (n / 16) (hexDigit (n % 16) :: acc)
  String.ofList (go 20 n [])

def showDelivered : Delivered → String
  | .req r =>
    s!"req\{{hex r.method}|{hex r.target}|{hex r.proto}|{hex r.host}|{hdrString r.header}|cl{r.contentLength}|te{hex (joinComma r.te)}|{r.body.length}:{hexNat (fnv r.body).toNat}|{hdrString r.trailer}|close{r.close}}"
  | .resp r =>
    s!"res\{{hex r.proto}|{r.code}|{hex r.status}|{hdrString r.header}|cl{r.contentLength}|{r.body.length}:{hexNat (fnv r.body).toNat}|{hdrString r.trailer}}"

structure DS where
  g : Cfg
  limit : Nat
  p : P
  cache : List UInt8
  cur : Option Building        -- processor: message under construction
  dead : Bool
  -- C07 (hhttp7): the messages of the case, their concatenated rendering, the message boundaries
  msgs : List Msg := []
  stream : List UInt8 := []
  bounds : List Nat := []
  neighbour : Bool := false

/-! ### C07: decoding of `M` lines (see harness/cmd/hhttp7/msg.go) -/

def decHdrs (s sep inner : String) : Option (List Hdr) :=
  if s.isEmpty then some [] else
  (s.splitOn sep).mapM fun x =>
    match x.splitOn inner with
    | [n, p, v] => some { name := unhex n, pad := p.toNat!, value := unhex v }
    | _ => none

def decChunks (s : String) : Option (List Chunk) :=
  if s.isEmpty then some [] else
  (s.splitOn ";").mapM fun x =>
    match x.splitOn "." with
    | [a, b, c] => some { size := unhex a, ext := unhex b, data := payload c }
    | _ => none

def decMsg (ws : List String) : Option Msg :=
  match ws with
  | [st, hs, bd] =>
    if !(hs.startsWith "h=") || !(bd.startsWith "b=") then none else
    let start? : Option Start := match st.splitOn ":" with
      | ["q", a, b, c] => some (.request (unhex a) (unhex b) (unhex c))
      | ["s", a, b, c] => some (.status (unhex a) (unhex b) (unhex c))
      | _ => none
    let body? : Option Body := match (bd.drop 2).toString.splitOn "|" with
      | ["n"] => some .none
      | ["f", d] => some (.fixed (payload d))
      | ["c", cs, last, ext, trs] =>
        match decChunks cs, decHdrs trs ";" "." with
        | some cs, some trs => some (.chunked cs (unhex last) (unhex ext) trs)
        | _, _ => none
      | _ => none
    match start?, decHdrs (hs.drop 2).toString "," ":", body? with
    | some st, some hs, some b => some { start := st, headers := hs, body := b }
    | _, _, _ => none
  | _ => none

def showFraming : Framing → String
  | .none => "none" | .length n => s!"cl{n}" | .chunked _ => "chunked" | .invalid => "invalid"

/-- the normal form printed by the harness for net/http's result (`normRefReq`/`normRefResp`) -/
def showNorm (m : Msg) : String :=
  match m.start with
  | .request .. =>
    match normReqSpec m with
    | some n =>
      s!"nreq\{{hex (n.line.getD 0 [])}|{hex (n.line.getD 1 [])}|{hex (n.line.getD 2 [])}|{hex (n.line.getD 3 [])}|{hdrString n.header}|{showFraming n.framing}|{n.body.length}:{hexNat (fnv n.body).toNat}|{hdrString n.trailer}|close{n.close}}"
    | none => "none"
  | .status .. =>
    match normRespSpec m with
    | some n =>
      s!"nres\{{hex (n.line.getD 0 [])}|{decimal (n.line.getD 1 [])}|{hex (n.line.getD 2 [])}|{hdrString n.header}|{showFraming n.framing}|{n.body.length}:{hexNat (fnv n.body).toNat}|{hdrString n.trailer}}"
    | none => "none"

/-- feed `stream` in the given segment sizes (the rest in one piece), as the harness does -/
def feedSegs (g : Cfg) (limit : Nat) : Nat → P → List UInt8 → List UInt8 → List Nat → List Ev → Res P Ev
  | 0, p, cache, _, _, acc => ⟨acc, .inl (p, cache)⟩
  | fuel + 1, p, cache, rest, segs, acc =>
    if rest = [] then ⟨acc, .inl (p, cache)⟩ else
    let n := match segs with | s :: _ => if s < rest.length && s > 0 then s else rest.length | [] => rest.length
    let data := rest.take n
    if cache ≠ [] && limit > 0 && cache.length + data.length > limit then ⟨acc, .inr E.tooLong.code⟩
    else match parseChecked g p cache data acc with
      | ⟨acc', .inl (p', cache')⟩ => feedSegs g limit fuel p' cache' (rest.drop n) segs.tail acc'
      | r => r

/-- run the processor glue over the events of one Parse call -/
def runProc (s : DS) (evs : List Ev) : Option Building × String :=
  match procRun s.g.isClient s.cur evs [] with
  | some (cur, out) => (cur, String.intercalate ";" (out.map showDelivered))
  | none => (none, "proc-nil-deref")

def hexList (s : String) : List (List UInt8) := (s.splitOn ",").filter (· ≠ "") |>.map unhex

partial def loop (h : IO.FS.Stream) (s : DS) : IO Unit := do
  let line ← h.getLine
  if line.isEmpty then return ()
  let ws := (line.trimAscii.toString.splitOn " ")
  match ws with
  | ["C", cli, maxb, lim] =>
    let g : Cfg := { isClient := cli == "1", maxBody := maxb.toNat!, urlOk := fun _ => true, protoOk := fun _ => true }
    IO.println "ok"
    loop h { g, limit := lim.toNat!, p := Http.init g, cache := [], cur := none, dead := false }
  | "D" :: hx :: rest =>
    if s.dead then IO.println "dead"; loop h s
    else
      let data := unhex hx
      let badUrls := hexList ((field rest "badurl").getD "")
      let badProtos := hexList ((field rest "badproto").getD "")
      let okProtos := hexList ((field rest "okproto").getD "")
      -- the verdict of http.ParseHTTPVersion is an input; the model's own `parseHTTPVersion` must agree with it
      let protoMismatch := badProtos.any (fun b => (parseHTTPVersion b).isSome) || okProtos.any (fun b => (parseHTTPVersion b).isNone)
      let g : Cfg := { s.g with urlOk := fun u => !badUrls.contains u, protoOk := fun u => !badProtos.contains u }
      if s.cache ≠ [] && s.limit > 0 && s.cache.length + data.length > s.limit then
        IO.println s!"R err={E.tooLong.code} [] msgs="
        loop h { s with dead := true }
      else
        let r := parseChecked g s.p s.cache data []
        let evs := String.intercalate ";" (r.evs.map showEv)
        let (cur, msgs) := runProc s r.evs
        let pm := if protoMismatch then " proto-verdict-mismatch" else ""
        match r.fin with
        | .inl (p', cache') =>
          IO.println s!"R ok cache={cache'.length} st={p'.st.num} [{evs}] msgs={msgs}{pm}"
          loop h { s with p := p', cache := cache', cur := cur }
        | .inr e =>
          IO.println s!"R err={e} [{evs}] msgs={msgs}{pm}"
          loop h { s with dead := true, cur := cur }
  | "M" :: rest =>
    match decMsg rest with
    | none => IO.println "bad-op"; loop h s
    | some m =>
      let b := m.render
      let wf := if wfMsg m then "" else "not-wf "
      IO.println s!"R {wf}render={b.length}:{hexNat (fnv b).toNat}"
      loop h { s with msgs := s.msgs ++ [m], stream := s.stream ++ b, bounds := s.bounds ++ [s.stream.length + b.length] }
  | ["X", _, hx] =>
    let b := unhex hx
    IO.println s!"R render={b.length}:{hexNat (fnv b).toNat}"
    loop h { s with stream := s.stream ++ b, neighbour := true }
  | "F" :: segs :: rest =>
    let badUrls := hexList ((field rest "badurl").getD "")
    let badProtos := hexList ((field rest "badproto").getD "")
    let g : Cfg := { s.g with urlOk := fun u => !badUrls.contains u, protoOk := fun u => !badProtos.contains u }
    let segl := if segs == "whole" then [] else (segs.splitOn ",").map String.toNat!
    let r := feedSegs g s.limit (s.stream.length + 1) (Http.init g) [] s.stream segl []
    let msgs := match procRun g.isClient none r.evs [] with
      | some (_, out) => String.intercalate ";" (out.map showDelivered)
      | none => "proc-nil-deref"
    let (err, cache, st) := match r.fin with
      | .inl (p', cache') => (0, cache'.length, p'.st.num)
      | .inr e => (e, 0, 0)
    if s.neighbour then
      IO.println s!"R err={err} cache={if err == 0 then toString cache else "?"} st={if err == 0 then toString st else "?"} nb={msgs} offs=- ref=-"
    else
      let done := (r.evs.filter (· == Ev.complete)).length
      let offs := String.intercalate "," ((s.bounds.take done).map toString)
      let ref := String.intercalate ";" (s.msgs.map showNorm)
      -- instances of the C07 theorems, evaluated on this case (cannot fail for well-formed messages)
      let specEvs := (s.msgs.map eventsOf).flatten
      let specDel : List Delivered := s.msgs.filterMap fun m =>
        match reqSpec m, respSpec m with
        | some q, _ => some (.req q) | _, some p => some (.resp p) | _, _ => none
      let flat (evs : List Ev) : List Ev := evs   -- body events are whole per message in both
      let ok := flat r.evs == specEvs && deliveredOf g.isClient specEvs == specDel
      IO.println s!"R err={err} cache={if err == 0 then toString cache else "?"} st={if err == 0 then toString st else "?"} nb={msgs} offs={offs} ref={ref}{if ok then "" else " spec-mismatch"}"
    loop h s
  -- hhttpe (engine-level "nothing after an error"): an implementation-only stream; the model-level statement is
  -- theorem c08_silent_after_close, the driver only keeps the line protocol in step (fields compared: none)
  | ["C", mode] => IO.println (if mode == "0" || mode == "1" || mode == "2" then "ok" else "bad-op"); loop h s
  | ["S", _, _, _] => IO.println "R"; loop h s
  | _ => IO.println "bad-op"; loop h s

def main : IO Unit := do
  let g : Cfg := { isClient := false, maxBody := 0, urlOk := fun _ => true, protoOk := fun _ => true }
  loop (← IO.getStdin) { g, limit := 0, p := Http.init g, cache := [], cur := none, dead := false }
