import NbioVerif.Model.WsCb
import NbioVerif.Model.SendQ
import NbioVerif.DrvCommon
/-!
wscbdrv — runs the C14 models on the op lines of `hwscb`.

* `C … cb`  : WsCb (receive steps ∘ ExecQ). The harness holds every callback at a gate; `cb` releases the held one
  (= `finish` and `next` of the drainer); `cbSettle` applies what then happens by itself (spawn, start, non-callback
  jobs). With `holdexec=1` the executor holds the upgrade request's closure until `go`.
* `C … wq …`: SendQ in queued mode; `send ok` = the drainer's conn write returns nil, followed by its `advance`.
* `C … wd …`: SendQ in direct mode; `par … order=…` = the calls' critical sections in the observed order.
* `C … e2e …`: summary of a real-socket run: the expected callback log and number of whole groups.
-/

inductive Mode | none | cb | wq | wd | e2e
  deriving DecidableEq

structure DS where
  mode : Mode
  holdExec : Bool := false     -- the executor holds the first closure (the upgrade request's drainer) until `go`
  cb : WsCb.St
  g : SendQ.Cfg
  sq : SendQ.St
  maxf : Nat
  gids : List (Nat × Nat)     -- model call id ↦ harness call number (wd: calls run in observed order)
  lens : List (Nat × Nat)     -- harness call number ↦ fragments
  nextGid : Nat
  path : String := ""          -- e2e: the sampled upgrade path
  epoll : String := ""         -- e2e: lt | et | etos
  ctl : List Nat := []          -- cb: wire positions of the frames that were pings / pongs (logged as p<k>)

def cbName (j : Nat) : String :=
  if j == WsCb.jobOpen then "open" else if j == WsCb.jobClose then "close" else s!"m{j - 2}"

/-- the callback currently held at the harness's gate: the running job, if it is a WebSocket callback -/
def heldCb (s : WsCb.St) : Option Nat :=
  match ExecQ.runningJobs s.q with
  | j :: _ => if WsCb.isCallback s j then some j else none
  | [] => none

def cbLine (s : WsCb.St) (ctl : List Nat := []) : String :=
  -- a control frame (ping / pong) is a job like a data message (handleProtocolMessage → handleMessage → Execute):
  -- only its name in the log differs
  let cbName (j : Nat) : String := if j ≥ 2 && ctl.contains (j - 2) then s!"p{j - 2}" else cbName j
  let log := String.intercalate "," ((WsCb.callbacks s).map cbName)
  let running := ((heldCb s).map cbName).getD "-"
  s!"R log={log} run={running}"

/-- what happens by itself between two harness ops: the executor starts a spawned drainer closure (unless the harness
    holds it), a ready drainer enters its job, and a job that is not a WebSocket callback (the upgrade job of a failed
    upgrade, its close job) runs to completion without stopping at a gate -/
def cbSettle (hold : Bool) : Nat → WsCb.St → WsCb.St
  | 0, s => s
  | fuel + 1, s =>
    let s1 := if hold then s else WsCb.run s [.q (.spawn 0 false)]
    let s2 := WsCb.run s1 [.q (.start 0)]
    let s3 := match ExecQ.runningJobs s2.q with
      | j :: _ => if WsCb.isCallback s2 j then s2 else WsCb.run s2 [.q (.finish 0 false), .q (.next 0 false)]
      | [] => s2
    if s3.q.log.length == s.q.log.length && s3.q.drs == s.q.drs then s3 else cbSettle hold fuel s3

def nfrag (n maxf : Nat) : Nat := if n == 0 then 1 else (n + maxf - 1) / maxf

def gidOf (d : DS) (w : Nat) : Nat := ((d.gids.find? (·.1 == w)).map (·.2)).getD w

def wireStr (d : DS) : String :=
  String.intercalate "," (d.sq.wire.map fun f => s!"{gidOf d f.1}:{f.2}")

def sqRun (d : DS) (as : List SendQ.Act) : DS := { d with sq := SendQ.run d.g d.sq as }

partial def loop (h : IO.FS.Stream) (d : DS) : IO Unit := do
  let line ← h.getLine
  if line.isEmpty then return ()
  let ws := (line.trimAscii.toString.splitOn " ").filter (· ≠ "")
  let num (k : String) : Nat := ((Drv.field ws k).map String.toNat!).getD 0
  match ws with
  | "C" :: _ :: kind :: _ =>
    IO.println "ok"
    let mode := if kind == "cb" then Mode.cb else if kind == "wq" then .wq else if kind == "wd" then .wd
                else if kind == "e2e" then .e2e else .none
    let g : SendQ.Cfg := { queued := kind == "wq", bound := num "bound", reserve := (Drv.field ws "tree").getD "fixed" != "pinned" }
    loop h { mode, holdExec := num "holdexec" == 1, cb := WsCb.init, g, sq := SendQ.init, maxf := num "maxframe", gids := [], lens := [], nextGid := 0,
             path := (Drv.field ws "path").getD "", epoll := (Drv.field ws "mode").getD "lt" }
  | _ =>
  match d.mode, ws with
  | .cb, ["O", "upgrade"] =>
    let s := cbSettle d.holdExec 8 (WsCb.run d.cb [.upgrade]); IO.println (cbLine s d.ctl); loop h { d with cb := s }
  | .cb, ["O", "go"] =>
    let s := cbSettle false 8 d.cb; IO.println (cbLine s d.ctl); loop h { d with cb := s, holdExec := false }
  | .cb, ["O", "recv"] =>
    let s := cbSettle d.holdExec 8 (WsCb.run d.cb [.recv]); IO.println (cbLine s d.ctl); loop h { d with cb := s }
  | .cb, ["O", "flip"] =>
    let s := cbSettle d.holdExec 8 (WsCb.run d.cb [.flip, .notify]); IO.println (cbLine s d.ctl); loop h { d with cb := s }
  | .cb, ["O", "cb"] =>
    let s := match heldCb d.cb with
      | some _ => WsCb.run d.cb [.q (.finish 0 false), .q (.next 0 false)]
      | none => d.cb
    let s := cbSettle d.holdExec 8 s
    IO.println (cbLine s d.ctl); loop h { d with cb := s }
  | .cb, ["O", "cbpanic"] =>
    -- the held handler panics into the per-job recover wrapper (ExecQ: `finish d true`, then the hand-over step)
    let s := match heldCb d.cb with
      | some j => if j == WsCb.jobOpen || j == WsCb.jobClose then WsCb.run d.cb [.q (.finish 0 false), .q (.next 0 false)]
                  else WsCb.run d.cb [.q (.finish 0 true), .q (.next 0 false)]
      | none => d.cb
    let s := cbSettle d.holdExec 8 s
    IO.println (cbLine s d.ctl); loop h { d with cb := s }
  | .cb, ["O", kind] =>
    if kind == "ping" || kind == "pong" then
      -- a ping / pong frame: the same `recv` step (a job submitted through Execute, in wire order)
      let k := d.cb.wireMsgs
      let s0 := WsCb.run d.cb [.recv]
      let ctl := if s0.wireMsgs > k then k :: d.ctl else d.ctl
      let s := cbSettle d.holdExec 8 s0
      IO.println (cbLine s ctl); loop h { d with cb := s, ctl }
    else do IO.println "bad-op"; loop h d
  | .cb, ["Q"] => IO.println (cbLine d.cb d.ctl); loop h d
  | .wq, "O" :: "write" :: len :: rest =>
    -- `frags=` (compressed messages): the fragment count is the implementation's (queued frames of an accepted call,
    -- an estimate for a refused one); without it the count follows from the length
    let n := ((Drv.field rest "frags").map String.toNat!).getD (nfrag len.toNat! d.maxf)
    let before := d.sq
    let d := sqRun d [.write n none]
    let ret := if d.sq.okCalls.length > before.okCalls.length then "ok"
               else if before.closed then "closed" else "full"
    IO.println s!"R ret={ret}"
    loop h d
  | .wq, ["O", "send", ok] =>
    match d.sq.dr with
    | .sending =>
      let f := d.sq.list[d.sq.idx]?
      let good := ok == "ok" && !d.sq.dead
      let d := sqRun d (if good then [.send true, .advance] else [.send false])
      let id := if good then (f.map fun f => s!"{f.1}:{f.2}").getD "?" else "fail"
      IO.println s!"R sent={id}"
      loop h d
    | _ => IO.println "R sent=none"; loop h d
  | .wq, ["O", "sendlast"] =>
    -- with a single drainer at most one conn write is in flight: "release the youngest" = "release the only one"
    match d.sq.dr with
    | .sending =>
      let f := d.sq.list[d.sq.idx]?
      let good := !d.sq.dead
      let d := sqRun d (if good then [.send true, .advance] else [.send false])
      let id := if good then (f.map fun f => s!"{f.1}:{f.2}").getD "?" else "fail"
      IO.println s!"R sent={id}"
      loop h d
    | _ => IO.println "R sent=none"; loop h d
  | .wq, ["O", "close"] => IO.println "R ok"; loop h (sqRun d [.close])
  | .wq, ["Q"] => IO.println s!"R wire={wireStr d} ql={d.sq.list.length}"; loop h d
  | .wd, "O" :: "par" :: rest =>
    let lens := (rest.filter fun w => !w.contains '=').map String.toNat!
    let fail := ((Drv.field rest "fail").map String.toNat!).getD 0
    let order := ((Drv.field rest "order").getD "").splitOn "," |>.filter (· ≠ "") |>.map String.toNat!
    let first := d.nextGid
    let lensOf (gid : Nat) : Nat := nfrag (lens.getD (gid - first) 0) d.maxf
    -- the conn writes of this round are counted from 1; `fail` = the write that fails
    let rec go (d : DS) (written : Nat) (os : List Nat) : DS :=
      match os with
      | [] => d
      | gid :: os =>
        let n := lensOf gid
        let errAt : Option Nat :=
          if fail > 0 && !d.sq.dead && fail ≤ written + n then some (fail - 1 - written) else none
        let mid := d.sq.nextId
        let d := { (sqRun d [.write n errAt]) with gids := (mid, gid) :: d.gids }
        go d (written + n) os
    let d := go d 0 order
    let rets := (List.range lens.length).map fun i =>
      let gid := first + i
      match d.gids.find? (·.2 == gid) with
      | some (mid, _) => if d.sq.okCalls.any (·.1 == mid) then "ok" else "err"
      | none => "err"
    IO.println s!"R rets={String.intercalate "," rets}"
    loop h { d with nextGid := first + lens.length }
  | .wd, ["Q"] => IO.println s!"R wire={wireStr d}"; loop h d
  | .e2e, "O" :: "run" :: rest =>
    if (Drv.field rest "skip") == some "1" then do
      -- the harness's client ran into its own deadline on an overloaded machine: nothing is claimed for this case
      IO.println "R skipped"
      loop h d
    else
    let msgs := ((Drv.field rest "msgs").map String.toNat!).getD 0
    let writers := ((Drv.field rest "writers").map String.toNat!).getD 0
    let size := ((Drv.field rest "size").map String.toNat!).getD 0
    -- callbacks: upgrade, all messages, close; every job drained
    let drain : List WsCb.Act := [.q (.spawn 0 false), .q (.start 0), .q (.finish 0 false), .q (.next 0 false)]
    let acts : List WsCb.Act := [.upgrade, .q (.spawn 0 false), .q (.start 0)] ++ List.replicate msgs .recv ++
      [.flip, .notify] ++ (List.replicate (msgs + 3) drain).flatten
    let s := WsCb.run WsCb.init acts
    let log := String.intercalate "," ((WsCb.callbacks s).map cbName)
    -- writers: all calls accepted, all groups whole (any order)
    let g : SendQ.Cfg := { queued := false, bound := 0, reserve := true }
    let sq := SendQ.run g SendQ.init (List.replicate writers (.write (nfrag size 32768) none))
    let whole := if sq.wire == SendQ.wholeGroups sq.okCalls then 1 else 0
    -- the executor Upgrade installs: the decision table, on the scenario the sampled path runs through
    let (sc, hasParser) : WsCb.Scenario × Bool :=
      if d.path == "poller" then (.s1, true) else if d.path == "blockparser" then (.s3_2, true)
      else if d.path == "transfer" then (.s3_1, false) else (.s3_2, false)
    let em : WsCb.EpollMode := if d.epoll == "etos" then .etOneshot else if d.epoll == "et" then .et else .lt
    let ex := match WsCb.execOf sc em hasParser with
      | .connQueue => "queue" | .sync => "sync" | .none => "none"
    IO.println s!"R log={log} groups={sq.okCalls.length} whole={whole} exec={ex}"
    loop h d
  | _, _ => IO.println "bad-op"; loop h d

def main : IO Unit := do
  loop (← IO.getStdin) { mode := .none, cb := WsCb.init, g := { queued := false, bound := 0, reserve := true },
                         sq := SendQ.init, maxf := 1, gids := [], lens := [], nextGid := 0 }
