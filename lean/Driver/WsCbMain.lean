/-! stub driver: answers "bad-op" to every line until the model is wired in -/
partial def loop (h : IO.FS.Stream) : IO Unit := do
  let line ← h.getLine
  if line.isEmpty then return ()
  IO.println "bad-op"
  loop h

def main : IO Unit := do loop (← IO.getStdin)
