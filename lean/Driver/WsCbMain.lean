import NbioVerif.Model.WsCb
import NbioVerif.Model.SendQ
import NbioVerif.DrvCommon
/-!
wscbdrv — runs the C14 models on the op lines of `hwscb`.

* `C … cb`  : WsCb (receive steps ∘ JobQ). The harness holds every callback at a gate; `cb` releases the held one
  (= the model's `run`, followed by the drainer's `next`).
* `C … wq …`: SendQ in queued mode; `send ok` = the drainer's conn write returns nil, followed by its `advance`.
* `C … wd …`: SendQ in direct mode; `par … order=…` = the calls' critical sections in the observed order.
* `C … e2e …`: summary of a real-socket run: the expected callback log and number of whole groups.
-/

inductive Mode | none | cb | wq | wd | e2e
  deriving DecidableEq

structure DS where
  mode : Mode
  cb : WsCb.St
  g : SendQ.Cfg
  sq : SendQ.St
  maxf : Nat
  gids : List (Nat × Nat)     -- model call id ↦ harness call number (wd: calls run in observed order)
  lens : List (Nat × Nat)     -- harness call number ↦ fragments
  nextGid : Nat

def cbName (j : Nat) : String :=
  if j == WsCb.jobOpen then "open" else if j == WsCb.jobClose then "close" else s!"m{j - 2}"

def cbLine (s : WsCb.St) : String :=
  let log := String.intercalate "," (s.q.ran.map cbName)
  let running := match s.q.drainer with
    | some false => (s.q.list[s.q.idx]?.map cbName).getD "-"
    | _ => "-"
  s!"R log={log} run={running}"

def nfrag (n maxf : Nat) : Nat := if n == 0 then 1 else (n + maxf - 1) / maxf

def gidOf (d : DS) (w : Nat) : Nat := ((d.gids.find? (·.1 == w)).map (·.2)).getD w

def wireStr (d : DS) : String :=
  String.intercalate "," (d.sq.wire.map fun f => s!"{gidOf d f.1}:{f.2}")

def sqRun (d : DS) (as : List SendQ.Act) : DS := { d with sq := SendQ.run d.g d.sq as }

partial def loop (h : IO.FS.Stream) (d : DS) : IO Unit := do
  let line ← h.getLine
  if line.isEmpty then return ()
  let ws := (line.trimAscii.toString.splitOn " ").filter (· ≠ "")
  let num (k : String) : Nat := ((Drv.field ws k).map String.toNat!).getD 0
  match ws with
  | "C" :: _ :: kind :: _ =>
    IO.println "ok"
    let mode := if kind == "cb" then Mode.cb else if kind == "wq" then .wq else if kind == "wd" then .wd
                else if kind == "e2e" then .e2e else .none
    let g : SendQ.Cfg := { queued := kind == "wq", bound := num "bound", reserve := (Drv.field ws "tree").getD "fixed" != "pinned" }
    loop h { mode, cb := WsCb.init, g, sq := SendQ.init, maxf := num "maxframe", gids := [], lens := [], nextGid := 0 }
  | _ =>
  match d.mode, ws with
  | .cb, ["O", "upgrade"] =>
    let s := WsCb.run d.cb [.upgrade]; IO.println (cbLine s); loop h { d with cb := s }
  | .cb, ["O", "recv"] =>
    let s := WsCb.run d.cb [.recv]; IO.println (cbLine s); loop h { d with cb := s }
  | .cb, ["O", "flip"] =>
    let s := WsCb.run d.cb [.flip, .notify]; IO.println (cbLine s); loop h { d with cb := s }
  | .cb, ["O", "cb"] =>
    let s := WsCb.run d.cb [.run, .next]; IO.println (cbLine s); loop h { d with cb := s }
  | .cb, ["Q"] => IO.println (cbLine d.cb); loop h d
  | .wq, ["O", "write", len] =>
    let n := nfrag len.toNat! d.maxf
    let before := d.sq
    let d := sqRun d [.write n none]
    let ret := if d.sq.okCalls.length > before.okCalls.length then "ok"
               else if before.closed then "closed" else "full"
    IO.println s!"R ret={ret}"
    loop h d
  | .wq, ["O", "send", ok] =>
    match d.sq.dr with
    | .sending =>
      let f := d.sq.list[d.sq.idx]?
      let good := ok == "ok" && !d.sq.dead
      let d := sqRun d (if good then [.send true, .advance] else [.send false])
      let id := if good then (f.map fun f => s!"{f.1}:{f.2}").getD "?" else "fail"
      IO.println s!"R sent={id}"
      loop h d
    | _ => IO.println "R sent=none"; loop h d
  | .wq, ["O", "sendlast"] =>
    -- with a single drainer at most one conn write is in flight: "release the youngest" = "release the only one"
    match d.sq.dr with
    | .sending =>
      let f := d.sq.list[d.sq.idx]?
      let good := !d.sq.dead
      let d := sqRun d (if good then [.send true, .advance] else [.send false])
      let id := if good then (f.map fun f => s!"{f.1}:{f.2}").getD "?" else "fail"
      IO.println s!"R sent={id}"
      loop h d
    | _ => IO.println "R sent=none"; loop h d
  | .wq, ["O", "close"] => IO.println "R ok"; loop h (sqRun d [.close])
  | .wq, ["Q"] => IO.println s!"R wire={wireStr d} ql={d.sq.list.length}"; loop h d
  | .wd, "O" :: "par" :: rest =>
    let lens := (rest.filter fun w => !w.contains '=').map String.toNat!
    let fail := ((Drv.field rest "fail").map String.toNat!).getD 0
    let order := ((Drv.field rest "order").getD "").splitOn "," |>.filter (· ≠ "") |>.map String.toNat!
    let first := d.nextGid
    let lensOf (gid : Nat) : Nat := nfrag (lens.getD (gid - first) 0) d.maxf
    -- the conn writes of this round are counted from 1; `fail` = the write that fails
    let rec go (d : DS) (written : Nat) (os : List Nat) : DS :=
      match os with
      | [] => d
      | gid :: os =>
        let n := lensOf gid
        let errAt : Option Nat :=
          if fail > 0 && !d.sq.dead && fail ≤ written + n then some (fail - 1 - written) else none
        let mid := d.sq.nextId
        let d := { (sqRun d [.write n errAt]) with gids := (mid, gid) :: d.gids }
        go d (written + n) os
    let d := go d 0 order
    let rets := (List.range lens.length).map fun i =>
      let gid := first + i
      match d.gids.find? (·.2 == gid) with
      | some (mid, _) => if d.sq.okCalls.any (·.1 == mid) then "ok" else "err"
      | none => "err"
    IO.println s!"R rets={String.intercalate "," rets}"
    loop h { d with nextGid := first + lens.length }
  | .wd, ["Q"] => IO.println s!"R wire={wireStr d}"; loop h d
  | .e2e, "O" :: "run" :: rest =>
    let msgs := ((Drv.field rest "msgs").map String.toNat!).getD 0
    let writers := ((Drv.field rest "writers").map String.toNat!).getD 0
    let size := ((Drv.field rest "size").map String.toNat!).getD 0
    -- callbacks: upgrade, all messages, close; every job drained
    let acts : List WsCb.Act := [.upgrade] ++ List.replicate msgs .recv ++ [.flip, .notify] ++
      (List.replicate (msgs + 2) [WsCb.Act.run, .next]).flatten
    let s := WsCb.run WsCb.init acts
    let log := String.intercalate "," (s.q.ran.map cbName)
    -- writers: all calls accepted, all groups whole (any order)
    let g : SendQ.Cfg := { queued := false, bound := 0, reserve := true }
    let sq := SendQ.run g SendQ.init (List.replicate writers (.write (nfrag size 32768) none))
    let whole := if sq.wire == SendQ.wholeGroups sq.okCalls then 1 else 0
    IO.println s!"R log={log} groups={sq.okCalls.length} whole={whole}"
    loop h d
  | _, _ => IO.println "bad-op"; loop h d

def main : IO Unit := do
  loop (← IO.getStdin) { mode := .none, cb := WsCb.init, g := { queued := false, bound := 0, reserve := true },
                         sq := SendQ.init, maxf := 1, gids := [], lens := [], nextGid := 0 }
