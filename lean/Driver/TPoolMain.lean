import Std.Data.HashSet
import NbioVerif.DrvCommon
import NbioVerif.Model.TPool
/-! tpooldrv: runs the task-pool model (M9) on the annotated ops of `htpool`.

The harness acts (`go`, `rel`, `fin`, `stop`, `par`), waits until the implementation is *stable*
(every goroutine blocked) and reports what it then observes:
`o=<concurrent>/<len(queue)>/<running tasks>/<finished tasks>/<tasks whose Go call has not returned>`.
The driver keeps the set of model states that are consistent with everything observed so far (the
scheduler's choices — e.g. the dispatcher's `select` after `Stop` — are not observable directly),
applies the harness action to each of them, closes under the model's *internal* steps (everything
except task ends, which the harness gates) up to the stable states, and keeps those whose observation
equals the implementation's.  It answers with the observation if at least one state remains, else
with the observations the model allows. -/
open TPool

def wKey : WPh → Nat | .idle => 0 | .exiting => 1 | .running t => t + 2
def gKey : GoPh → Nat | .failed t => 2 * t | .enq t => 2 * t + 1

def insertBy {α} (k : α → Nat) (x : α) : List α → List α
  | [] => [x]
  | y :: ys => if k x ≤ k y then x :: y :: ys else y :: insertBy k x ys
def sortBy {α} (k : α → Nat) (l : List α) : List α := l.foldl (fun acc x => insertBy k x acc) []

/-- states that differ only in the order of the worker / Go-call lists are the same state; the ghosts `inflight` /
    `late` (subjects of theorems, not observable) are dropped -/
def norm (s : St) : St :=
  { s with workers := sortBy wKey s.workers, goers := sortBy gKey s.goers, dropped := sortBy id s.dropped,
           inflight := [], late := [] }

structure Park where
  inc  : List Nat := []     -- Go calls held by the harness right after their failed increment
  undo : List Nat := []     -- Go calls held right after their decrement

def goTaskOf : GoPh → Nat | .failed t | .enq t => t

/-- the internal actions enabled in `s` (task ends, `go`, `stop` are the harness's) -/
def internalActs (g : Cfg) (pk : Park) (s : St) : List Act :=
  let goActs := (s.goers.zipIdx.map fun (x, i) =>
    match x with
    | .failed t => if pk.inc.contains t then [] else [Act.goUndo i]
    | .enq t => if pk.undo.contains t then [] else [Act.goEnq i, Act.goDrop i]).flatten
  let senders := (s.goers.zipIdx.filterMap fun (x, k) =>
    match x with
    | .enq t => if pk.undo.contains t then none else some k
    | _ => none)
  let wActs := (s.workers.zipIdx.map fun (w, i) =>
    match w with
    | .idle => Act.wTake i :: (if g.cap == 0 then senders.map (Act.wRdv i) else [])
    | .exiting => [Act.wExit i]
    | .running _ => []).flatten
  goActs ++ wActs ++ [Act.dRecv, Act.dExit, Act.dDrain, Act.dFork, Act.dUndo]

def succs (g : Cfg) (pk : Park) (s : St) : List St :=
  (internalActs g pk s).filterMap fun a => (step g s a).map norm

/-- a cheap fingerprint of a state (collisions only cost precision of the visited set, so the full
    state is compared as well through the string) -/
def stKey (s : St) : String :=
  s!"{s.conc}|{s.queue}|{s.workers.map wKey}|{repr s.disp}|{s.goers.map gKey}|{s.stopAdd}{s.closed}|{s.done}|{s.dropped}|{s.panics}"

/-- all stable states reachable from `front` by internal steps -/
partial def closure (g : Cfg) (pk : Park) (front : List St) (seen : Std.HashSet String) (stable : List St)
    (fuel : Nat) : Option (List St) :=
  match front with
  | [] => some stable
  | s :: rest =>
    if fuel == 0 then none
    else
      let k := stKey s
      if seen.contains k then closure g pk rest seen stable fuel
      else
        let nx := succs g pk s
        if nx.isEmpty then closure g pk rest (seen.insert k) (s :: stable) (fuel - 1)
        else closure g pk (nx ++ rest) (seen.insert k) stable (fuel - 1)

def sortNat (l : List Nat) : List Nat := sortBy id l
def showList (l : List Nat) : String := ",".intercalate ((sortNat l).map toString)

def obsOf (s : St) : String :=
  s!"{s.conc}/{s.queue.length}/{showList (runningTasks s)}/{showList s.done}/{showList (s.goers.map goTaskOf)}"

structure DS where
  g : Cfg := { maxC := 0, cap := 0 }
  belief : List St := [{}]
  pk : Park := {}
  stopped : Bool := false
  lost : Bool := false      -- an earlier observation of this case had no matching model state

def dedup (l : List St) : List St := l.foldl (fun acc s => if acc.contains s then acc else s :: acc) []

/-- finish the op: close under internal steps, compare with the observation, print -/
def conclude (d : DS) (after : List St) (obs : String) : IO DS := do
  match closure d.g d.pk (dedup after) {} [] 120000 with
  | none => IO.println "MODEL closure-overflow"; pure { d with lost := true }
  | some st =>
    let ok := st.filter (fun s => obsOf s == obs)
    if ok.isEmpty then
      IO.println s!"MODEL no-match want={"|".intercalate (dedup st |>.map obsOf |>.eraseDups)}"
      pure { d with belief := st, lost := true }
    else
      IO.println s!"o={obs}"
      pure { d with belief := ok }

def finishAct (s : St) (t : Nat) (p : Bool) : Option Act :=
  match s.workers.zipIdx.find? (fun (w, _) => w == .running t) with
  | some (_, i) => some (.wFinish i p)
  | none => if s.disp == .running t || s.disp == .drunning t then some (.dFinish p) else none

partial def loop (h : IO.FS.Stream) (d : DS) : IO Unit := do
  let line ← h.getLine
  if line.isEmpty then return ()
  let ws := (line.trimAscii.toString.splitOn " ").filter (· ≠ "")
  let fld := fun k => (Drv.field ws k).getD ""
  let nums := (ws.drop 1).filter (fun w => !w.contains '=') |>.map String.toNat!
  let obs := fld "o"
  if d.lost && ws.head? != some "C" then
    IO.println "MODEL skipped (an earlier observation of this case matched no model state)"
    loop h d
  else
  match ws.head? with
  | some "C" =>
    let n := (fld "bound").toNat!
    IO.println "ok"
    loop h { g := { maxC := (n : Int) - 1, cap := (fld "q").toNat! } }
  | some "go" =>
    match nums with
    | t :: _ =>
      if d.belief.any (fun s => s.handed.contains t) then IO.println "rejected"; loop h d
      else
        let pk := match fld "park" with
          | "inc" => { d.pk with inc := t :: d.pk.inc }
          | "undo" => { d.pk with undo := t :: d.pk.undo }
          | _ => d.pk
        let d := { d with pk }
        let d ← conclude d (d.belief.filterMap fun s => (step d.g s (.go t)).map norm) obs
        loop h d
    | _ => IO.println "bad-op"; loop h d
  | some "par" =>
    match nums with
    | k :: base :: _ =>
      let ts := (List.range k).map (· + base)
      if d.stopped || !d.belief.all (fun s => s.workers.isEmpty && s.queue.isEmpty && s.goers.isEmpty && s.disp == .idle)
          || d.belief.any (fun s => ts.any s.handed.contains) then
        IO.println "rejected"; loop h d
      else
        -- k submissions one after the other, each followed by the implementation settling
        let rec go (ts : List Nat) (bel : List St) : Option (List St) :=
          match ts with
          | [] => some bel
          | t :: r =>
            match closure d.g d.pk (dedup (bel.filterMap fun s => (step d.g s (.go t)).map norm)) {} [] 120000 with
            | some st => go r st
            | none => none
        match go ts d.belief with
        | none => IO.println "MODEL closure-overflow"; loop h d
        | some st =>
          let d ← conclude d st obs
          loop h d
    | _ => IO.println "bad-op"; loop h d
  | some "rel" =>
    match nums with
    | t :: _ =>
      if !(d.pk.inc.contains t || d.pk.undo.contains t) then IO.println "rejected"; loop h d
      else
        let d := { d with pk := { inc := d.pk.inc.filter (· != t), undo := d.pk.undo.filter (· != t) } }
        let d ← conclude d d.belief obs
        loop h d
    | _ => IO.println "bad-op"; loop h d
  | some "fin" =>
    match nums with
    | t :: _ =>
      let p := fld "p" == "1"
      let nx := d.belief.filterMap fun s => (finishAct s t p).bind fun a => (step d.g s a).map norm
      if nx.isEmpty then IO.println "rejected"; loop h d
      else
        let d ← conclude d nx obs
        loop h d
    | _ => IO.println "bad-op"; loop h d
  | some "finr" =>
    -- only reaches the driver when the harness found fewer than k+1 running tasks (else it is echoed as `fin t`)
    match nums with
    | k :: _ =>
      if d.belief.all (fun s => (runningTasks s).length ≤ k) then IO.println "rejected"
      else IO.println s!"MODEL task {k} of the running tasks exists"
      loop h d
    | _ => IO.println "bad-op"; loop h d
  | some "relr" =>
    match nums with
    | k :: _ =>
      if (d.pk.inc ++ d.pk.undo).length ≤ k || d.belief.all (fun s => ((s.goers.map goTaskOf).filter (fun t => d.pk.inc.contains t || d.pk.undo.contains t)).length ≤ k)
      then IO.println "rejected"
      else IO.println s!"MODEL parked Go call {k} exists"
      loop h d
    | _ => IO.println "bad-op"; loop h d
  | some "stop" =>
    if d.stopped then IO.println "rejected"; loop h d
    else
      let nx := d.belief.filterMap fun s => (step d.g s .stopAdd).bind fun s => (step d.g s .stopClose).map norm
      let d ← conclude { d with stopped := true } nx obs
      loop h d
  | _ => IO.println "bad-op"; loop h d

def main : IO Unit := do loop (← IO.getStdin) {}
